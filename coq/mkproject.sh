#!/bin/sh
# regenerate _CoqProject (all theories/**/*.v) and the Makefile when the file list changed
cd "$(dirname "$0")"
{ echo "-Q theories SA"; find theories -name '*.v' | sort; } > _CoqProject.new
if ! cmp -s _CoqProject.new _CoqProject || [ ! -f Makefile ]; then
  mv _CoqProject.new _CoqProject
  coq_makefile -f _CoqProject -o Makefile
else
  rm -f _CoqProject.new
fi
