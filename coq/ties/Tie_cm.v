(* Tie lemma: the definition regenerated from the current Scores.cm equals the hand model, for all inputs. *)
From SA Require Import Model.Scores.
From Gen Require Import Gen_cm.

Lemma tie_cm : forall s t, gen_cm s t = cm s t.
Proof. intros s t. unfold gen_cm, cm, cm_side. destruct (score_class s), (equal_class s); reflexivity. Qed.
