(* Tie lemmas: threshold setting regenerated from the current source = hand model, for all inputs. *)
From SA Require Import Model.Threshold Proofs.TieSupport.
From Gen Require Import Gen_thr.
Open Scope Q_scope.

Lemma tie_hard_pos_ratio : forall s, gen_hard_pos_ratio s = hard_pos_ratio s.
Proof. intro s. unfold gen_hard_pos_ratio, hard_pos_ratio. rewrite Z.gtb_ltb. reflexivity. Qed.
Lemma tie_hard_neg_ratio : forall s, gen_hard_neg_ratio s = hard_neg_ratio s.
Proof. intro s. unfold gen_hard_neg_ratio, hard_neg_ratio. rewrite Z.gtb_ltb. reflexivity. Qed.
Lemma tie_easy_pos_ratio : forall s, gen_easy_pos_ratio s = easy_pos_ratio s.
Proof. intro s. unfold gen_easy_pos_ratio, easy_pos_ratio. rewrite tie_hard_pos_ratio. reflexivity. Qed.
Lemma tie_easy_neg_ratio : forall s, gen_easy_neg_ratio s = easy_neg_ratio s.
Proof. intro s. unfold gen_easy_neg_ratio, easy_neg_ratio. rewrite tie_hard_neg_ratio. reflexivity. Qed.
Lemma tie_nb_all_samples : forall s, gen_nb_all_samples s = nb_all_samples s.
Proof. reflexivity. Qed.
Lemma tie_counts : forall s, gen_nb_easy_samples s = nb_easy_samples s /\ gen_nb_hard_samples s = nb_hard_samples s /\
  gen_nb_all_pos s = nb_all_pos s /\ gen_nb_all_neg s = nb_all_neg s /\ gen_nb_hard_pos s = len (pos s) /\ gen_nb_hard_neg s = len (neg s).
Proof. intro s. repeat split. Qed.
Lemma tie_easy_ratio : forall s, gen_easy_ratio s = easy_ratio s.
Proof. intro s. unfold gen_easy_ratio, easy_ratio. rewrite Z.gtb_ltb. reflexivity. Qed.
Lemma tie_hard_ratio : forall s, gen_hard_ratio s = hard_ratio s.
Proof. intro s. unfold gen_hard_ratio, hard_ratio. rewrite tie_easy_ratio. reflexivity. Qed.

Lemma tie_inv_incr : forall succ pred l u lc m, gen_inv_incr succ pred l u lc m = inv_incr succ pred l u lc m.
Proof.
  intros. unfold gen_inv_incr, inv_incr.
  first [ destruct lc, m; reflexivity
        | cbv zeta; rewrite !nthZ_clip_eq; destruct lc, m; reflexivity ].
Qed.

Lemma tie_threshold_at_ratio : forall succ pred s l u inc rc m,
  gen_threshold_at_ratio succ pred s l u inc rc m = threshold_at_ratio succ pred s l u inc rc m.
Proof.
  intros. unfold gen_threshold_at_ratio, threshold_at_ratio.
  destruct inc, rc, (equal_class s), (score_class s); cbn [negb label_eqb]; apply tie_inv_incr.
Qed.

Lemma tie_threshold_at_tpr : forall succ pred s r m, gen_threshold_at_tpr succ pred s r m = threshold_at_tpr succ pred s r m.
Proof. intros. unfold gen_threshold_at_tpr, threshold_at_tpr. rewrite tie_easy_pos_ratio, tie_hard_pos_ratio.
  destruct (len (pos s) =? 0)%Z; [reflexivity|]. cbv zeta. now rewrite tie_threshold_at_ratio. Qed.
Lemma tie_threshold_at_fnr : forall succ pred s r m, gen_threshold_at_fnr succ pred s r m = threshold_at_fnr succ pred s r m.
Proof. intros. unfold gen_threshold_at_fnr, threshold_at_fnr. rewrite tie_hard_pos_ratio.
  destruct (len (pos s) =? 0)%Z; [reflexivity|]. cbv zeta. now rewrite tie_threshold_at_ratio. Qed.
Lemma tie_threshold_at_tnr : forall succ pred s r m, gen_threshold_at_tnr succ pred s r m = threshold_at_tnr succ pred s r m.
Proof. intros. unfold gen_threshold_at_tnr, threshold_at_tnr. rewrite tie_easy_neg_ratio, tie_hard_neg_ratio.
  destruct (len (neg s) =? 0)%Z; [reflexivity|]. cbv zeta. now rewrite tie_threshold_at_ratio. Qed.
Lemma tie_threshold_at_fpr : forall succ pred s r m, gen_threshold_at_fpr succ pred s r m = threshold_at_fpr succ pred s r m.
Proof. intros. unfold gen_threshold_at_fpr, threshold_at_fpr. rewrite tie_hard_neg_ratio.
  destruct (len (neg s) =? 0)%Z; [reflexivity|]. cbv zeta. now rewrite tie_threshold_at_ratio. Qed.
Lemma tie_threshold_at_topr : forall succ pred s r m, gen_threshold_at_topr succ pred s r m = threshold_at_topr succ pred s r m.
Proof. intros. unfold gen_threshold_at_topr, threshold_at_topr. rewrite tie_hard_ratio, tie_nb_all_samples. cbv zeta.
  destruct (len (isort (neg s ++ pos s)) =? 0)%Z; [reflexivity|]. now rewrite tie_threshold_at_ratio. Qed.
Lemma tie_threshold_at_tonr : forall succ pred s r m, gen_threshold_at_tonr succ pred s r m = threshold_at_tonr succ pred s r m.
Proof. intros. unfold gen_threshold_at_tonr, threshold_at_tonr. rewrite tie_hard_ratio, tie_nb_all_samples. cbv zeta.
  destruct (len (isort (neg s ++ pos s)) =? 0)%Z; [reflexivity|]. now rewrite tie_threshold_at_ratio. Qed.
Lemma tie_aliases : gen_aliases_checked = 6%nat.
Proof. reflexivity. Qed.
