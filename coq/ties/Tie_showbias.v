(* Tie lemmas: the definitions regenerated from the current score_analysis/showbias.py equal the hand model
   (Model/ShowBias.v) for all inputs.  In particular: by_overall takes metric(score_object) — the ORIGINAL object's
   overall metric — for values and replicates alike, by_min takes np.min(.., axis=0) of whatever array it is given, the
   division is guarded by `!= 0` and leaves the entry unchanged otherwise; showbias normalises the values and the
   replicate array with the same helper, hands theta=samples, theta_hat=calculate_group_metric(score_object),
   alpha=alpha, method=bootstrap_config.bootstrap_method to the CI routine, and builds the three frames from
   group_metrics, [..., 0] and [..., 1] with the same index and the threshold array as columns. *)
From SA Require Import Model.ShowBias.
From Gen Require Import Gen_showbias.

Lemma tie_norm1 : forall x d, np_where1 (ne0 d) (np_divide_where1 (ne0 d) x d) x = norm1 x d.
Proof.
  intros x [d|]; unfold norm1, ne0, np_where1, np_divide_where1; [|now destruct x].
  destruct (Qeqb d 0); cbn [negb]; [reflexivity|now destruct x].
Qed.

Lemma tie_apply_normalization : forall nz overall reps slices,
  gen_apply_normalization nz overall reps slices = apply_normalization nz overall reps slices.
Proof.
  intros nz overall reps slices. unfold gen_apply_normalization, apply_normalization.
  assert (E : forall s d, map2 (fun x d => np_where1 (ne0 d) (np_divide_where1 (ne0 d) x d) x) s d = map2 norm1 s d).
  { induction s as [|x r IH]; intros [|y t]; simpl; try reflexivity. now rewrite tie_norm1, IH. }
  destruct nz; cbn [is_by_overall is_by_min res_bind]; try reflexivity; f_equal; apply map_ext; intro s; apply E.
Qed.

Lemma tie_get_group_index : forall names gc, gen_get_group_index names gc = get_group_index names gc.
Proof. intros names [|n]; reflexivity. Qed.

Lemma tie_showbias : forall argsort ci rows gc m nz want_ci cfg hist alpha pl sc ec thr,
  gen_showbias argsort ci rows gc m nz want_ci cfg hist alpha pl sc ec thr
  = showbias argsort ci rows gc m nz want_ci cfg hist alpha pl sc ec thr.
Proof. intros. reflexivity. Qed.
