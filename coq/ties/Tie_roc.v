(* Tie lemmas (C15): the fragments of score_analysis/roc_curve.py regenerated from the current source equal the hand
   model (Model/Roc.v), for all inputs: the integer splits of nb_extra_points / nb_points, the tail of
   _find_support_thresholds (final sort, accepted x_axis names, the two reversal conditions), its defaults, the body of
   roc() (arguments handed to _find_support_thresholds with nb_extra_points = None; FNR / FPR are scores.fnr / scores.fpr
   evaluated on the RETURNED array and stored in the fnr / fpr slots of ROCCurve, no bands), and the derived views. *)
From SA Require Import Model.Roc.
From Gen Require Import Gen_roc.
Open Scope Q_scope.

Lemma tie_extra_split : forall e, gen_extra_split e = extra_split e.
Proof. intros [e|]; reflexivity. Qed.
Lemma tie_points_split : forall n, gen_points_split n = points_split n.
Proof. reflexivity. Qed.
Lemma tie_support_tail : forall s x th, gen_support_tail s x th = support_tail s x th.
Proof. intros s [[]|] th; reflexivity. Qed.
Lemma tie_fst_defaults : gen_default_nb_extra_points = Some default_nb_extra_points /\ gen_default_x_axis = Some default_x_axis.
Proof. split; reflexivity. Qed.
Lemma tie_roc : forall succ pred s fnr fpr thresholds nb_points x,
  gen_roc succ pred s fnr fpr thresholds nb_points x = roc succ pred s fnr fpr thresholds nb_points x.
Proof. reflexivity. Qed.
Lemma tie_roc_defaults : gen_roc_default_nb_points = Some 100%Z /\ gen_roc_default_x_axis = XName XFpr.
Proof. split; reflexivity. Qed.
Lemma tie_views : forall c,
  gen_v_tpr c = v_tpr c /\ gen_v_tnr c = v_tnr c /\ gen_v_frr c = v_frr c /\ gen_v_far c = v_far c /\
  gen_v_tar c = v_tar c /\ gen_v_trr c = v_trr c /\
  gen_v_tpr_ci c = v_tpr_ci c /\ gen_v_tnr_ci c = v_tnr_ci c /\ gen_v_frr_ci c = v_frr_ci c /\ gen_v_far_ci c = v_far_ci c /\
  gen_v_tar_ci c = v_tar_ci c /\ gen_v_trr_ci c = v_trr_ci c.
Proof. intro c. repeat split. Qed.
