(* Tie lemmas: the scalar formulas regenerated from the current utils.bootstrap_ci are the ones of Model/BootCI.v, for all
   inputs and all oracle functions. *)
From SA Require Import Model.BootCI.
From Gen Require Import Gen_bootci.
Open Scope Q_scope.

Lemma tie_alpha_lower : forall alpha, gen_alpha_lower alpha == alpha * (1#2).
Proof. intro. unfold gen_alpha_lower. field. Qed.
Lemma tie_alpha_upper : forall alpha, gen_alpha_upper alpha == 1 - alpha * (1#2).
Proof. intro. unfold gen_alpha_upper. field. Qed.

Lemma tie_bc : forall z za, bc_arg (Some (Fin z)) za = Some (Fin (gen_bc z za)).
Proof. reflexivity. Qed.
Lemma tie_bc_nonfinite : forall za, bc_arg (Some NegInf) za = Some NegInf /\ bc_arg (Some PosInf) za = Some PosInf /\ bc_arg None za = None.
Proof. repeat split. Qed.

Lemma tie_bca : forall a z za, Qeqb (1 - a * gen_bca_s z za) 0 = false ->
  bca_arg a (Some (Fin z)) za = Some (Fin (gen_bca a z (gen_bca_s z za))).
Proof. intros a z za H. unfold bca_arg, gen_bca, gen_bca_s in *. rewrite H. reflexivity. Qed.
Lemma tie_bca_nonfinite : forall a za,
  bca_arg a (Some NegInf) za = Some NegInf /\ bca_arg a (Some PosInf) za = Some PosInf /\ bca_arg a None za = None.
Proof. repeat split. Qed.

Lemma tie_accel : forall pow15 col th,
  accel pow15 col th =
  let d := devs col th in
  let a_den := gen_a_den pow15 (Qsum (map sq d)) in
  if Qeqb a_den 0 then 0 else Qsum (map gen_a_num_term d) / a_den.
Proof. reflexivity. Qed.
