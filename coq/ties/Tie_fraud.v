(* Tie lemmas: the definitions regenerated from the current doc_fraud.py (and the BinaryLabel enum of
   scores.py) equal the hand model of Model/Fraud.v, for all inputs. *)
From Coq Require Import Strings.String.
From SA Require Import Model.Fraud.
From Gen Require Import Gen_fraud.

Lemma bind_ok {A} (r : res A) : bind r (fun v => Ok v) = r.
Proof. destruct r; reflexivity. Qed.

Lemma tie_doc_value : forall d, gen_doc_value d = doc_value d.
Proof. intros []; reflexivity. Qed.
Lemma tie_binary_value : forall l, gen_binary_value l = binary_value l.
Proof. intros []; reflexivity. Qed.

Lemma tie_doc_to_binary_label : forall a, gen_doc_to_binary_label a = doc_to_binary_label a.
Proof.
  intro a. unfold gen_doc_to_binary_label, doc_to_binary_label.
  change gen_doc_value with doc_value. change gen_binary_value with binary_value.
  destruct (DocLabel_call doc_value a); cbn [bind]; [apply bind_ok|reflexivity].
Qed.
Lemma tie_binary_to_doc_label : forall a, gen_binary_to_doc_label a = binary_to_doc_label a.
Proof.
  intro a. unfold gen_binary_to_doc_label, binary_to_doc_label.
  change gen_binary_value with binary_value. reflexivity.
Qed.

Lemma tie_genuines : forall s, gen_genuines s = genuines s.
Proof. reflexivity. Qed.
Lemma tie_frauds : forall s, gen_frauds s = frauds s.
Proof. reflexivity. Qed.
Lemma tie_set_genuines : forall s v, gen_set_genuines s v = set_genuines s v.
Proof. reflexivity. Qed.
Lemma tie_set_frauds : forall s v, gen_set_frauds s v = set_frauds s v.
Proof. reflexivity. Qed.

Lemma tie_init : forall g f eg ef sc, gen_init g f eg ef sc = fraud_scores g f eg ef sc.
Proof.
  intros. unfold gen_init, fraud_scores. rewrite !tie_doc_to_binary_label.
  destruct (doc_to_binary_label sc); [|reflexivity]. cbn [bind].
  destruct (doc_to_binary_label (DStr "genuine")); reflexivity.
Qed.
Lemma tie_init_defaults : gen_init_defaults = init_defaults.
Proof. reflexivity. Qed.

Lemma tie_from_labels : forall labels xs gl eg ef sc,
  gen_from_labels labels xs gl eg ef sc = fraud_from_labels labels xs gl eg ef sc.
Proof. intros. unfold gen_from_labels, fraud_from_labels. apply tie_init. Qed.
