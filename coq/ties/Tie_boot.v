(* Tie lemmas: the definitions regenerated from the current Scores.bootstrap_metric / bootstrap_ci / tail of
   bootstrap_sample equal the hand model (Model/BootMetric.v), for all inputs and all instantiations of the
   abstract parts.  In particular: names are resolved with getattr(type(self), .) (getattr_self is unused),
   kwargs are forwarded (no_kwargs is unused), the loop makes nb_samples rows of metric(sample), and
   utils.bootstrap_ci receives theta=samples, theta_hat=metric(self), alpha=alpha, method=config.bootstrap_method. *)
From SA Require Import Model.BootMetric.
From Gen Require Import Gen_boot.

Lemma tie_bootstrap_metric : forall S K V N H R dc bs gt gs nk ubc self metric cfg hist kw,
  gen_bootstrap_metric S K V N H R dc bs gt gs nk ubc self metric cfg hist kw
  = bootstrap_metric S K V N H dc bs gt self metric cfg hist kw.
Proof. intros. destruct metric; reflexivity. Qed.

Lemma tie_bootstrap_ci : forall S K V N H R dc bs gt gs nk ubc self metric alpha cfg hist kw,
  gen_bootstrap_ci S K V N H R dc bs gt gs nk ubc self metric alpha cfg hist kw
  = bootstrap_ci_m S K V N H R dc bs gt ubc self metric alpha cfg hist kw.
Proof. intros. destruct metric; reflexivity. Qed.

Lemma tie_sample_tail : forall S H dc bs (self : S) cfg (h : H) j,
  let sm := resolved_sampling S dc self cfg in
  sm <> SReplacement -> sm <> SSinglePass -> sm <> SProportion ->
  bootstrap_sample S H dc bs self cfg h j = gen_sample_tail S sm self j.
Proof.
  intros S H dc bs self cfg h j sm H1 H2 H3. unfold bootstrap_sample. fold sm.
  destruct sm; try congruence; reflexivity.
Qed.
