(* Tie lemmas: the 'dynamic' resolution of the sampling method (Scores and GroupScores) and the
   single-pass switch constant, regenerated from the current source, equal the model for all inputs. *)
From SA Require Import Model.Sampling Model.Group.
From Gen Require Import Gen_sampling_method.
Lemma tie_threshold : gen_threshold = SINGLE_PASS_SAMPLE_THRESHOLD.
Proof. reflexivity. Qed.
Lemma tie_resolve_method : forall s c, gen_resolve_method s c = resolve_method s c.
Proof. intros. unfold gen_resolve_method, resolve_method. destruct (sampling_method c); reflexivity. Qed.
Lemma tie_g_resolve_method : forall gs c, gen_g_resolve_method gs c = g_resolve_method gs c.
Proof.
  intros. unfold gen_g_resolve_method, g_resolve_method.
  destruct (sampling_method c); try reflexivity. destruct (stratified_sampling c); reflexivity.
Qed.
