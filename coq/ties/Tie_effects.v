(* Every analysed function of the current source is safe: it writes in place only into objects it
   allocated itself or into the declared cache GroupScores._grouped_scores, and stores only into that
   cache.  By Base.Effects.safe_history_preserves no history of such calls changes any parameter or
   any other field of self. *)
From Coq Require Import List String Bool. Import ListNotations.
From SA Require Import Base.Effects.
From Gen Require Import Gen_effects.

Definition allowed_fields : list nat := [F__grouped_scores].
Lemma tie_all_queries_safe : forallb (fun p => safe allowed_fields (snd p)) summaries = true.
Proof. vm_compute. reflexivity. Qed.
Lemma tie_some_functions_analysed : Nat.leb 100 (List.length summaries) = true.
Proof. vm_compute. reflexivity. Qed.
