From SA Require Import Model.Scores.
From Gen Require Import Gen_pointwise.
Lemma tie_pointwise_cm1 : forall sc ec b x t, gen_pointwise_cm1 sc ec b x t = pointwise_cm1 sc ec b x t.
Proof. intros. unfold gen_pointwise_cm1, pointwise_cm1. destruct sc, ec; reflexivity. Qed.
