(* Tie lemma for the ConfusionMatrix metric wrappers of score_analysis/cm.py: the table
   (method, metrics function it returns applied to self.matrix, decorator) extracted from the current
   source equals the expected one.  "class" = @cm_class_metric (per-class through one_vs_all unless binary),
   "class_ci" = @cm_class_metric(axis=-2) with alpha passed through, "none" = undecorated.
   The translator also checks that cm_class_metric and _class_metric_as_dict have the modelled bodies
   (Model/Multiclass.v: cm_class_metric, class_metric_as_dict). *)
From Coq Require Import String List.
Import ListNotations.
From Gen Require Import Gen_cm_wrappers.
Open Scope string_scope.

Definition expected_cm_wrappers : list (string * string * string) :=
  [("acceptance_rate", "acceptance_rate", "class");
   ("accuracy", "accuracy", "none");
   ("class_accuracy", "accuracy", "class");
   ("class_error_rate", "error_rate", "class");
   ("error_rate", "error_rate", "none");
   ("far", "fpr", "class");
   ("far_ci", "fpr_ci", "class_ci");
   ("fdr", "fdr", "class");
   ("fn", "fn", "class");
   ("fnr", "fnr", "class");
   ("fnr_ci", "fnr_ci", "class_ci");
   ("for_", "for_", "class");
   ("fp", "fp", "class");
   ("fpr", "fpr", "class");
   ("fpr_ci", "fpr_ci", "class_ci");
   ("frr", "fnr", "class");
   ("frr_ci", "fnr_ci", "class_ci");
   ("n", "n", "class");
   ("npv", "npv", "class");
   ("p", "p", "class");
   ("pop", "pop", "none");
   ("ppv", "ppv", "class");
   ("rejection_rate", "rejection_rate", "class");
   ("tar", "tpr", "class");
   ("tar_ci", "tpr_ci", "class_ci");
   ("tn", "tn", "class");
   ("tnr", "tnr", "class");
   ("tnr_ci", "tnr_ci", "class_ci");
   ("ton", "ton", "class");
   ("tonr", "tonr", "class");
   ("top", "top", "class");
   ("topr", "topr", "class");
   ("tp", "tp", "class");
   ("tpr", "tpr", "class");
   ("tpr_ci", "tpr_ci", "class_ci");
   ("trr", "tnr", "class");
   ("trr_ci", "tnr_ci", "class_ci")].

Lemma tie_cm_wrappers : gen_cm_wrappers = expected_cm_wrappers.
Proof. vm_compute. reflexivity. Qed.
