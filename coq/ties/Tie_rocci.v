(* Tie lemmas (C16): the confidence-band code regenerated from the current source of score_analysis/roc_curve.py and
   score_analysis/experimental/roc_ci.py equals the hand model (Model/RocCI.v) for all inputs and all instantiations
   of the oracles and samplers.  In particular: the comparison operators and formulas of _apply_rule_of_three; the
   population arguments n = scores.nb_all_pos / scores.nb_all_neg at both call sites (roc_with_ci and
   pointwise_band_ci); ROC_CI_EXTRA_POINTS = 20; the argument order of both _aggregate_rectangles calls; which array
   goes into which ROCCurve slot; and that every call of _find_support_thresholds in experimental/roc_ci.py binds all
   parameters (through the defaults nb_extra_points = None, x_axis = "fnr") — the translator rejects a call that would
   raise TypeError. *)
From SA Require Import Model.RocCI.
From Gen Require Import Gen_rocci.
Open Scope Q_scope.

Lemma tie_extra_points : gen_roc_ci_extra_points = ROC_CI_EXTRA_POINTS.
Proof. reflexivity. Qed.

Lemma tie_rule_of_three : forall pow p ci alpha n,
  gen_apply_rule_of_three pow p ci alpha n = apply_rule_of_three pow p ci alpha n.
Proof. reflexivity. Qed.

Lemma tie_roc_with_ci : forall succ pred pow Phi PhiInv pow15 ksone H dc bs s fnr fpr thr nb x alpha cfg hist,
  gen_roc_with_ci succ pred pow Phi PhiInv pow15 ksone H dc bs s fnr fpr thr nb x alpha cfg hist
  = roc_with_ci succ pred pow Phi PhiInv pow15 H dc bs s fnr fpr thr nb x alpha cfg hist.
Proof.
  intros. unfold gen_roc_with_ci, roc_with_ci, pointwise_intervals, joint_ci, joint_metric.
  change (Some 20%Z) with (Some ROC_CI_EXTRA_POINTS).
  destruct (find_support_thresholds succ pred s fnr fpr thr nb (Some ROC_CI_EXTRA_POINTS) x) as [ths|]; [|reflexivity].
  cbn [rbind]. destruct (bootstrap_ci_m _ _ _ _ _ _ _ _ _ _ _ _ _ _ _ _) as [[sh data]|]; reflexivity.
Qed.

Lemma tie_pointwise_band_ci : forall succ pred pow Phi PhiInv pow15 ksone H dc bs s fnr fpr thr nb alpha cfg hist,
  gen_pointwise_band_ci succ pred pow Phi PhiInv pow15 ksone H dc bs s fnr fpr thr nb alpha cfg hist
  = pointwise_band_ci succ pred pow Phi PhiInv pow15 H dc bs s fnr fpr thr nb alpha cfg hist.
Proof.
  intros. unfold gen_pointwise_band_ci, pointwise_band_ci, pointwise_intervals, joint_ci, joint_metric.
  change (find_support_thresholds succ pred s fnr fpr thr nb None (XName XFnr))
    with (find_support_thresholds succ pred s fnr fpr thr nb default_nb_extra_points default_x_axis).
  destruct (find_support_thresholds succ pred s fnr fpr thr nb default_nb_extra_points default_x_axis) as [ths|]; [|reflexivity].
  cbn [rbind]. destruct (bootstrap_ci_m _ _ _ _ _ _ _ _ _ _ _ _ _ _ _ _) as [[sh data]|]; reflexivity.
Qed.

Lemma tie_simultaneous_joint_region_ci : forall succ pred pow Phi PhiInv pow15 ksone H dc bs s fnr fpr thr nb alpha cfg hist,
  gen_simultaneous_joint_region_ci succ pred pow Phi PhiInv pow15 ksone H dc bs s fnr fpr thr nb alpha cfg hist
  = simultaneous_joint_region_ci succ pred ksone s fnr fpr thr nb alpha.
Proof. reflexivity. Qed.

Lemma tie_fixed_width_support : forall succ pred s fnr fpr thr nb,
  gen_fixed_width_support succ pred s fnr fpr thr nb
  = find_support_thresholds succ pred s fnr fpr thr nb default_nb_extra_points default_x_axis.
Proof. reflexivity. Qed.
