From SA Require Import Model.Scores.
From Gen Require Import Gen_swap.
Lemma tie_swap : forall s, gen_swap s = swap s.
Proof. intro s. unfold gen_swap, swap. destruct (score_class s), (equal_class s); reflexivity. Qed.
