(* Tie lemmas: every definition regenerated from the current score_analysis/metrics.py and
   utils.binomial_ci (Gen_metrics.v, written by harness/translate/metrics_tr.py on every run) equals the
   hand model the theorems of Props/C04.v and Props/C05.v are proved about - for all inputs. *)
From Coq Require Import String.
From SA Require Import Model.Metrics Model.Multiclass.
From Gen Require Import Gen_metrics.
Open Scope Q_scope.

Lemma tie_tp : forall m, gen_tp m = Metrics.tp m.
Proof. reflexivity. Qed.
Lemma tie_tn : forall m, gen_tn m = Metrics.tn m.
Proof. reflexivity. Qed.
Lemma tie_fp : forall m, gen_fp m = Metrics.fp m.
Proof. reflexivity. Qed.
Lemma tie_fn : forall m, gen_fn m = Metrics.fn m.
Proof. reflexivity. Qed.
Lemma tie_p : forall m, gen_p m = Metrics.p m.
Proof. reflexivity. Qed.
Lemma tie_n : forall m, gen_n m = Metrics.n m.
Proof. reflexivity. Qed.
Lemma tie_top : forall m, gen_top m = Metrics.top m.
Proof. reflexivity. Qed.
Lemma tie_ton : forall m, gen_ton m = Metrics.ton m.
Proof. reflexivity. Qed.
Lemma tie_pop : forall m, gen_pop m = Metrics.pop m.
Proof. reflexivity. Qed.
Lemma tie_accuracy : forall m, gen_accuracy m = Metrics.accuracy m.
Proof. reflexivity. Qed.
Lemma tie_error_rate : forall m, gen_error_rate m = Metrics.error_rate m.
Proof. reflexivity. Qed.
Lemma tie_tpr : forall m, gen_tpr m = Metrics.tpr m.
Proof. reflexivity. Qed.
Lemma tie_tnr : forall m, gen_tnr m = Metrics.tnr m.
Proof. reflexivity. Qed.
Lemma tie_fpr : forall m, gen_fpr m = Metrics.fpr m.
Proof. reflexivity. Qed.
Lemma tie_fnr : forall m, gen_fnr m = Metrics.fnr m.
Proof. reflexivity. Qed.
Lemma tie_tar : forall m, gen_tar m = Metrics.tar m.
Proof. reflexivity. Qed.
Lemma tie_frr : forall m, gen_frr m = Metrics.frr m.
Proof. reflexivity. Qed.
Lemma tie_trr : forall m, gen_trr m = Metrics.trr m.
Proof. reflexivity. Qed.
Lemma tie_far : forall m, gen_far m = Metrics.far m.
Proof. reflexivity. Qed.
Lemma tie_topr : forall m, gen_topr m = Metrics.topr m.
Proof. reflexivity. Qed.
Lemma tie_tonr : forall m, gen_tonr m = Metrics.tonr m.
Proof. reflexivity. Qed.
Lemma tie_acceptance_rate : forall m, gen_acceptance_rate m = Metrics.acceptance_rate m.
Proof. reflexivity. Qed.
Lemma tie_rejection_rate : forall m, gen_rejection_rate m = Metrics.rejection_rate m.
Proof. reflexivity. Qed.
Lemma tie_ppv : forall m, gen_ppv m = Metrics.ppv m.
Proof. reflexivity. Qed.
Lemma tie_npv : forall m, gen_npv m = Metrics.npv m.
Proof. reflexivity. Qed.
Lemma tie_fdr : forall m, gen_fdr m = Metrics.fdr m.
Proof. reflexivity. Qed.
Lemma tie_for_ : forall m, gen_for_ m = Metrics.for_ m.
Proof. reflexivity. Qed.

(* 1 - p on a possibly-NaN value is emitted as [rcompl]; the model writes [rsub rone] *)
Lemma rsub_rone_rcompl r : rsub rone r = rcompl r.
Proof. destruct r; reflexivity. Qed.
Lemma tie_binomial_ci : forall isf sqrtQ count nobs alpha,
  gen_binomial_ci isf sqrtQ count nobs alpha = Metrics.binomial_ci isf sqrtQ count nobs alpha.
Proof. intros. unfold gen_binomial_ci, binomial_ci. unfold rdiv. destruct (Qeqb nobs 0); reflexivity. Qed.
Lemma tie_tpr_ci : forall isf sqrtQ m alpha, gen_tpr_ci isf sqrtQ m alpha = Metrics.tpr_ci isf sqrtQ m alpha.
Proof. intros. unfold gen_tpr_ci, Metrics.tpr_ci; repeat rewrite ?tie_tpr_ci, ?tie_tnr_ci, ?tie_fpr_ci, ?tie_fnr_ci; try apply tie_binomial_ci; reflexivity. Qed.
Lemma tie_tnr_ci : forall isf sqrtQ m alpha, gen_tnr_ci isf sqrtQ m alpha = Metrics.tnr_ci isf sqrtQ m alpha.
Proof. intros. unfold gen_tnr_ci, Metrics.tnr_ci; repeat rewrite ?tie_tpr_ci, ?tie_tnr_ci, ?tie_fpr_ci, ?tie_fnr_ci; try apply tie_binomial_ci; reflexivity. Qed.
Lemma tie_fpr_ci : forall isf sqrtQ m alpha, gen_fpr_ci isf sqrtQ m alpha = Metrics.fpr_ci isf sqrtQ m alpha.
Proof. intros. unfold gen_fpr_ci, Metrics.fpr_ci; repeat rewrite ?tie_tpr_ci, ?tie_tnr_ci, ?tie_fpr_ci, ?tie_fnr_ci; try apply tie_binomial_ci; reflexivity. Qed.
Lemma tie_fnr_ci : forall isf sqrtQ m alpha, gen_fnr_ci isf sqrtQ m alpha = Metrics.fnr_ci isf sqrtQ m alpha.
Proof. intros. unfold gen_fnr_ci, Metrics.fnr_ci; repeat rewrite ?tie_tpr_ci, ?tie_tnr_ci, ?tie_fpr_ci, ?tie_fnr_ci; try apply tie_binomial_ci; reflexivity. Qed.
Lemma tie_tar_ci : forall isf sqrtQ m alpha, gen_tar_ci isf sqrtQ m alpha = Metrics.tar_ci isf sqrtQ m alpha.
Proof. intros. unfold gen_tar_ci, Metrics.tar_ci; repeat rewrite ?tie_tpr_ci, ?tie_tnr_ci, ?tie_fpr_ci, ?tie_fnr_ci; try apply tie_binomial_ci; reflexivity. Qed.
Lemma tie_frr_ci : forall isf sqrtQ m alpha, gen_frr_ci isf sqrtQ m alpha = Metrics.frr_ci isf sqrtQ m alpha.
Proof. intros. unfold gen_frr_ci, Metrics.frr_ci; repeat rewrite ?tie_tpr_ci, ?tie_tnr_ci, ?tie_fpr_ci, ?tie_fnr_ci; try apply tie_binomial_ci; reflexivity. Qed.
Lemma tie_trr_ci : forall isf sqrtQ m alpha, gen_trr_ci isf sqrtQ m alpha = Metrics.trr_ci isf sqrtQ m alpha.
Proof. intros. unfold gen_trr_ci, Metrics.trr_ci; repeat rewrite ?tie_tpr_ci, ?tie_tnr_ci, ?tie_fpr_ci, ?tie_fnr_ci; try apply tie_binomial_ci; reflexivity. Qed.
Lemma tie_far_ci : forall isf sqrtQ m alpha, gen_far_ci isf sqrtQ m alpha = Metrics.far_ci isf sqrtQ m alpha.
Proof. intros. unfold gen_far_ci, Metrics.far_ci; repeat rewrite ?tie_tpr_ci, ?tie_tnr_ci, ?tie_fpr_ci, ?tie_fnr_ci; try apply tie_binomial_ci; reflexivity. Qed.

(* N x N forms of the functions that never select a cell (used by C05) *)
Lemma tie_pop_N : forall M, gen_pop_N M = popN M.
Proof. reflexivity. Qed.
Lemma tie_accuracy_N : forall M, gen_accuracy_N M = accuracyN M.
Proof. reflexivity. Qed.
Lemma tie_error_rate_N : forall M, gen_error_rate_N M = error_rateN M.
Proof. reflexivity. Qed.

(* exactly the rate functions reduce a 0-d result to a Python scalar (res.item()) *)
Lemma tie_scalar_reduced : gen_scalar_reduced =
  ["accuracy"; "fnr"; "fpr"; "npv"; "ppv"; "tnr"; "tonr"; "topr"; "tpr"]%string.
Proof. reflexivity. Qed.
