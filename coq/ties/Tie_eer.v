(* Tie lemma: Scores.eer regenerated from the current source = hand model, for all objects with both
   classes non-empty (for an empty class Python raises IndexError; the model returns Raise).  The body of
   Scores._find_root is compared textually with the loop that Model/Eer.v transcribes (the translator
   rejects any other text). *)
From SA Require Import Model.Eer.
From Gen Require Import Gen_eer.
Open Scope Q_scope.

Lemma tie_eer : forall succ pred fuel s, (len (pos s) <> 0)%Z -> (len (neg s) <> 0)%Z ->
  gen_eer succ pred fuel s = eer succ pred fuel s.
Proof.
  intros succ pred fuel s Hp Hn. unfold gen_eer, eer.
  apply Z.eqb_neq in Hp. apply Z.eqb_neq in Hn. rewrite Hp, Hn. cbn [orb]. cbv zeta.
  destruct (Qltb (nthZ (neg s) (len (neg s) - 1)) (nthZ (pos s) 0) && label_eqb (score_class s) Pos); [reflexivity|].
  destruct (Qltb (nthZ (pos s) (len (pos s) - 1)) (nthZ (neg s) 0) && label_eqb (score_class s) Neg); [reflexivity|].
  match goal with |- (if ?c then _ else _) = (if ?c' then _ else _) => change c' with c; destruct c end.
  - destruct (isclose (hard_pos_ratio s) (hard_neg_ratio s)); [reflexivity|].
    destruct (Qltb (hard_pos_ratio s) (hard_neg_ratio s)); reflexivity.
  - match goal with |- context [find_root fuel ?f 0 ?m true ?x] => destruct (find_root fuel f 0 m true x) end; [|reflexivity].
    match goal with |- context [find_root fuel ?f 0 ?m false ?x] => destruct (find_root fuel f 0 m false x) end; reflexivity.
Qed.
Lemma tie_find_root_text : gen_find_root_loop_is_the_modelled_one = true.
Proof. reflexivity. Qed.
