(* Tie lemmas: the definitions regenerated from the current score_analysis/experimental/datasets.py equal the hand
   model of Model/Datasets.v, for all inputs and all oracle functions (scipy.stats.norm.*, np.sqrt). *)
From SA Require Import Model.Datasets.
From Gen Require Import Gen_datasets.
Open Scope Q_scope.

Lemma tie_nd_fnr : forall Cdf d x, gen_nd_fnr Cdf d x = nd_fnr Cdf d x.
Proof. reflexivity. Qed.
Lemma tie_nd_fpr : forall Sf d x, gen_nd_fpr Sf d x = nd_fpr Sf d x.
Proof. reflexivity. Qed.
Lemma tie_nd_threshold_at_fnr : forall Ppf d x, gen_nd_threshold_at_fnr Ppf d x = nd_threshold_at_fnr Ppf d x.
Proof. reflexivity. Qed.
Lemma tie_nd_threshold_at_fpr : forall Isf d x, gen_nd_threshold_at_fpr Isf d x = nd_threshold_at_fpr Isf d x.
Proof. reflexivity. Qed.
Lemma tie_nd_roc : forall Cdf Ppf Sf Isf d fnr fpr, gen_nd_roc Cdf Ppf Sf Isf d fnr fpr = nd_roc Cdf Ppf Sf Isf d fnr fpr.
Proof. intros. destruct fnr, fpr; reflexivity. Qed.
Lemma tie_nd_from_metrics : forall Ppf fnr fpr a b sp sn,
  gen_nd_from_metrics Ppf fnr fpr a b sp sn = nd_from_metrics Ppf fnr fpr a b sp sn.
Proof. reflexivity. Qed.
Lemma tie_normal_defaults : gen_normal_defaults = normal_defaults.
Proof. reflexivity. Qed.
Lemma tie_nd_post_init : forall mp mn sp sn pp n sc,
  mu_neg (normal_dataset mp mn sp sn pp n sc) = gen_nd_post_init mp mn.
Proof. intros. destruct mn; reflexivity. Qed.
Lemma tie_corr_probs : forall sqrtQ p1 p2 rho, gen_corr_probs sqrtQ p1 p2 rho = corr_probs sqrtQ p1 p2 rho.
Proof. reflexivity. Qed.
(* the validity test of CorrelatedBernoullilDataset.sample is the one the model branches on *)
Lemma tie_corr_invalid : forall sqrtQ p1 p2 rho n_self n_arg random h n,
  n_or n_arg n_self = Some n -> gen_corr_invalid (corr_probs sqrtQ p1 p2 rho) = true ->
  corr_sample sqrtQ p1 p2 rho n_self n_arg random h = ErrValue.
Proof. intros * Hn H. unfold corr_sample. rewrite Hn. unfold gen_corr_invalid in H. rewrite H. reflexivity. Qed.
