(* Tie lemma: Scores.auc regenerated from the current source = hand model, for all inputs. *)
From SA Require Import Model.Auc.
From Gen Require Import Gen_auc.
Lemma tie_auc : forall succ pred s lower upper xa ya, gen_auc succ pred s lower upper xa ya = auc succ pred s lower upper xa ya.
Proof. intros. unfold gen_auc, auc, auc_points. reflexivity. Qed.
