(* Tie lemma: Scores.auc regenerated from the current source = hand model, for all inputs.  The second script
   covers a regenerated term in which part of the body sits in an inlined helper (the destructuring lets around an
   if-expression are then nested differently and only agree after a case split on the conditions). *)
From SA Require Import Model.Auc.
From Gen Require Import Gen_auc.
Lemma tie_auc : forall succ pred s lower upper xa ya, gen_auc succ pred s lower upper xa ya = auc succ pred s lower upper xa ya.
Proof.
  intros. unfold gen_auc, auc, auc_points.
  first [ reflexivity
        | cbv zeta; repeat (match goal with |- context [if ?c then _ else _] => destruct c eqn:? end); reflexivity ].
Qed.
