(* Tie lemmas: the comparisons and the arithmetic regenerated from the current invert_pl_function equal the hand model
   of Model/InvertPL.v for all inputs. *)
From SA Require Import Model.InvertPL.
From Gen Require Import Gen_invertpl.
Open Scope Q_scope.

Lemma tie_crossing_up : forall y0 y1 t, gen_crossing_up y0 y1 t = crossing_up y0 y1 t.
Proof. reflexivity. Qed.
Lemma tie_crossing_down : forall y0 y1 t, gen_crossing_down y0 y1 t = crossing_down y0 y1 t.
Proof. reflexivity. Qed.
Lemma tie_crossing : forall y0 y1 t, gen_crossing y0 y1 t = crossing y0 y1 t.
Proof. reflexivity. Qed.
Lemma tie_interp : forall x y t j, gen_interp x y t j = interp x y t j.
Proof. reflexivity. Qed.
Lemma tie_closest : forall x y t, closest x y t = nth (argmin (map (fun v => gen_absdiff v t) y)) x 0.
Proof. reflexivity. Qed.
(* Scores.threshold_at_metric is transcribed statement by statement in Model/InvertPL.v (select_points, threshold_at_metric);
   the translator accepts the source only if those statements are unchanged *)
Lemma tie_threshold_at_metric_pinned : gen_threshold_at_metric_pinned = true.
Proof. reflexivity. Qed.
