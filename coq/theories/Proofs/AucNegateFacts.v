(* Proofs/AucNegateFacts.v — C08: auc(lower, upper, x_axis, y_axis) — partial windows, x-axis any of the four
   class rates, any y-axis — is unchanged when the direction of the scores is reversed (scores negated,
   score_class flipped, equal_class kept), on every carrier whose nextafter is symmetric under negation on the
   object's scores (succ (-x) == - pred x, pred (-x) == - succ x: binary64 is sign-symmetric).
   The evaluation points of the reversed object are the negated evaluation points in reverse order (up to ==;
   both are sorted arrangements of the same multiset), the confusion matrix at a negated point is the confusion
   matrix at the point, and the orientation test of auc() restores the order in which the x-rate increases. *)
From SA Require Proofs.QuantileFacts Proofs.AucInvarianceFacts.
From SA Require Import Model.Auc Model.Symmetry Proofs.SymmetryFacts Proofs.CmFacts Proofs.SentinelFacts Proofs.TrapzFacts
  Proofs.WindowFacts Proofs.AucFacts.
Open Scope Q_scope.

(* ---------- sorted arrangements of one multiset agree elementwise ---------- *)
Lemma F2_of_nth (l1 : list Q) : forall l2, length l1 = length l2 ->
  (forall i, nth i l1 0 == nth i l2 0) -> Forall2 Qeq l1 l2.
Proof.
  induction l1 as [|x r IH]; intros [|y r'] L H; try discriminate L; constructor.
  - exact (H 0%nat).
  - apply IH; [now injection L|]. intro i. exact (H (S i)).
Qed.
Lemma sorted_perm_F2 l1 l2 : sorted l1 -> sorted l2 -> Permutation l1 l2 -> Forall2 Qeq l1 l2.
Proof.
  intros S1 S2 P. apply F2_of_nth; [apply Permutation_length, P|].
  intro i. apply QuantileFacts.sorted_perm_nth; assumption.
Qed.
Lemma Qleb_Qeq x x' y y' : x == x' -> y == y' -> Qleb x y = Qleb x' y'.
Proof. intros A B. destruct (Qleb x' y') eqn:E; qb; lra. Qed.
Lemma Qltb_Qeq x x' y y' : x == x' -> y == y' -> Qltb x y = Qltb x' y'.
Proof. intros A B. destruct (Qltb x' y') eqn:E; qb; lra. Qed.
Lemma insert_F2 x x' l l' : x == x' -> Forall2 Qeq l l' -> Forall2 Qeq (insert x l) (insert x' l').
Proof.
  intros Hx H. induction H as [|y y' r r' Hy Hr IH]; cbn [insert]; [constructor; [exact Hx|constructor]|].
  rewrite (Qleb_Qeq _ _ _ _ Hx Hy). destruct (Qleb x' y').
  - constructor; [exact Hx|]. constructor; assumption.
  - constructor; assumption.
Qed.
Lemma isort_F2 l l' : Forall2 Qeq l l' -> Forall2 Qeq (isort l) (isort l').
Proof. induction 1 as [|x x' r r' Hx Hr IH]; cbn [isort]; [constructor|]. apply insert_F2; assumption. Qed.
Lemma F2_trans (l1 l2 l3 : list Q) : Forall2 Qeq l1 l2 -> Forall2 Qeq l2 l3 -> Forall2 Qeq l1 l3.
Proof.
  intros H. revert l3. induction H as [|x y r r' E _ IH]; intros l3 H'; inversion H' as [|y' z r'' r3 E' H'' A B]; subst;
    constructor; [now rewrite E|now apply IH].
Qed.
Lemma sorted_rev_opp l : sorted l -> sorted (rev (map Qopp l)).
Proof.
  intro H. rewrite <- map_rev. apply (sorted_rev_map_anti Qopp l H). intros a b Hab. lra.
Qed.

Section Negate.
  Variable isD : Q -> Prop.
  Variable succ pred : Q -> Q.
  Hypothesis HC : carrier isD succ pred.

  (* nextafter is symmetric under negation on the values of a list *)
  Definition anticommutes_on (l : list Q) : Prop :=
    forall x, In x l -> succ (- x) == - pred x /\ pred (- x) == - succ x.

  Variable s : scores.
  Hypothesis G : good s.
  Hypothesis Hanti : anticommutes_on (pos s ++ neg s).
  Notation s' := (neg_scores s).
  Notation pts t := (auc_points succ pred t).

  Lemma good' : good s'.
  Proof.
    destruct G as [Hp Hn Hep Hen]. unfold neg_scores, mk_scores. constructor; cbn [pos neg easy_pos easy_neg]; try assumption.
    - apply AucInvarianceFacts.isort_ne'. intro E. apply map_eq_nil in E. contradiction.
    - apply AucInvarianceFacts.isort_ne'. intro E. apply map_eq_nil in E. contradiction.
  Qed.

  Lemma map_pred_opp l : anticommutes_on l -> Forall2 Qeq (map pred (map Qopp l)) (map Qopp (map succ l)).
  Proof.
    induction l as [|x r IH]; intro H; cbn [map]; [constructor|]. constructor.
    - apply (H x). now left.
    - apply IH. intros y Hy. apply H. now right.
  Qed.
  Lemma map_succ_opp l : anticommutes_on l -> Forall2 Qeq (map succ (map Qopp l)) (map Qopp (map pred l)).
  Proof.
    induction l as [|x r IH]; intro H; cbn [map]; [constructor|]. constructor.
    - apply (H x). now left.
    - apply IH. intros y Hy. apply H. now right.
  Qed.

  Lemma pts_negate : Forall2 Qeq (pts s') (rev (map Qopp (pts s))).
  Proof.
    unfold auc_points. cbv zeta. unfold neg_scores, mk_scores. cbn [pos neg].
    set (A := pos s ++ neg s).
    set (A' := isort (map Qopp (pos s)) ++ isort (map Qopp (neg s))).
    assert (PA : Permutation A' (map Qopp A)).
    { subst A A'. rewrite map_app. apply Permutation_app; apply Permutation_sym, isort_perm. }
    set (B1 := map pred (map Qopp A) ++ map succ (map Qopp A)).
    set (B2 := map Qopp (map succ A) ++ map Qopp (map pred A)).
    apply (F2_trans _ (isort B1)).
    { apply sorted_perm_F2; [apply isort_sorted|apply isort_sorted|].
      eapply Permutation_trans; [apply Permutation_sym, isort_perm|].
      eapply Permutation_trans; [|apply isort_perm].
      subst B1. apply Permutation_app; apply Permutation_map; exact PA. }
    apply (F2_trans _ (isort B2)).
    { apply isort_F2. subst B1 B2. apply Forall2_app; [apply map_pred_opp|apply map_succ_opp]; exact Hanti. }
    apply sorted_perm_F2; [apply isort_sorted|apply sorted_rev_opp, isort_sorted|].
    eapply Permutation_trans; [apply Permutation_sym, isort_perm|].
    eapply Permutation_trans; [|apply Permutation_rev].
    apply Permutation_sym. eapply Permutation_trans; [apply Permutation_map, Permutation_sym, isort_perm|].
    subst B2. rewrite map_app. apply Permutation_app_comm.
  Qed.

  Definition Rn (p' p : Q) : Prop := p' == - p.
  Lemma F2_Rn l : forall m, Forall2 Qeq l (map Qopp m) -> Forall2 Rn l m.
  Proof.
    induction l as [|x r IH]; intros [|y m] H; inversion H; subst; constructor; [assumption|]. now apply IH.
  Qed.
  Lemma Rn_rev l m : Forall2 Rn l m -> Forall2 Rn (rev l) (rev m).
  Proof.
    induction 1; cbn [rev]; [constructor|]. apply Forall2_app; [assumption|]. constructor; [assumption|constructor].
  Qed.

  Lemma opts_negate : Forall2 Rn (opts succ pred s') (opts succ pred s).
  Proof.
    pose proof pts_negate as H. rewrite <- map_rev in H. apply F2_Rn in H.
    unfold opts. change (score_class s') with (flip (score_class s)).
    destruct (score_class s); cbn [flip].
    - exact H.
    - apply Rn_rev in H. now rewrite rev_involutive in H.
  Qed.

  Lemma cm_Qeq (r : scores) t1 t2 : t1 == t2 -> cm r (Fin t1) = cm r (Fin t2).
  Proof.
    intro E. unfold cm, searchsorted.
    assert (A : forall l, count (fun x => lt_ext x (Fin t1)) l = count (fun x => lt_ext x (Fin t2)) l).
    { intro l. apply count_ext. intros x _. cbn [lt_ext]. apply Qltb_Qeq; [reflexivity|exact E]. }
    assert (B : forall l, count (fun x => le_ext x (Fin t1)) l = count (fun x => le_ext x (Fin t2)) l).
    { intro l. apply count_ext. intros x _. cbn [le_ext]. apply Qleb_Qeq; [reflexivity|exact E]. }
    destruct (cm_side r); now rewrite ?A, ?B.
  Qed.
  Lemma axis_Rn ax p' p : Rn p' p -> axis_at ax s' p' = axis_at ax s p.
  Proof.
    intro H. unfold axis_at, s_fpr, s_tpr, s_fnr, s_tnr, s_topr, s_tonr.
    rewrite (cm_Qeq s' p' (- p) H). change (Fin (- p)) with (neg_ext (Fin p)). rewrite neg_cm. reflexivity.
  Qed.
  Lemma map_axis_Rn ax l' l : Forall2 Rn l' l -> map (axis_at ax s') l' = map (axis_at ax s) l.
  Proof. induction 1 as [|x' x r' r Hx Hr IH]; cbn [map]; [reflexivity|]. now rewrite (axis_Rn ax _ _ Hx), IH. Qed.
  Lemma map_axis_Rn_rev ax l' l : Forall2 Rn l' l -> map (axis_at ax s') (rev l') = map (axis_at ax s) (rev l).
  Proof. intro H. apply map_axis_Rn, Rn_rev, H. Qed.

  Lemma auc_fnr r lo up ya : good r ->
    auc succ pred r lo up AFnr ya =
    Qabs (window (map (axis_at AFnr r) (rev (opts succ pred r))) (map (axis_at ya r) (rev (opts succ pred r))) lo up).
  Proof.
    intros Gr. rewrite auc_window. cbv zeta. rewrite (orient_ropts succ pred); [reflexivity|exact Gr|].
    rewrite !fnr_at, (tpr_ofirst isD succ pred HC), (tpr_olast isD succ pred HC) by exact Gr.
    pose proof (Pfrac_lt1 r Gr). lra.
  Qed.

  (* every window, x-axis any class rate, y-axis any rate *)
  Theorem auc_negate_full lo up xa ya :
    match xa with ATopr | ATonr => False | _ => True end ->
    auc succ pred s' lo up xa ya = auc succ pred s lo up xa ya.
  Proof.
    intro Hx. pose proof good' as G'. pose proof opts_negate as HO.
    destruct xa; try contradiction.
    - rewrite !(auc_fpr isD succ pred HC) by assumption. now rewrite !(map_axis_Rn _ _ _ HO).
    - rewrite !(auc_tpr isD succ pred HC) by assumption. now rewrite !(map_axis_Rn _ _ _ HO).
    - rewrite !auc_fnr by assumption. now rewrite !(map_axis_Rn_rev _ _ _ HO).
    - rewrite !(auc_tnr isD succ pred HC) by assumption. now rewrite !(map_axis_Rn_rev _ _ _ HO).
  Qed.
End Negate.
