(* Proofs/CmFacts.v — C01: the confusion matrix is counting by the decision rule. *)
From SA Require Import Model.Scores.
Open Scope Z_scope.

Definition ndec sc ec x t := negb (dec sc ec x t).

Lemma count_ge_ext l t : count (fun x => negb (lt_ext x t)) l = len l - count (fun x => lt_ext x t) l.
Proof. apply (count_negb (fun x => lt_ext x t)). Qed.
Lemma count_gt_ext l t : count (fun x => negb (le_ext x t)) l = len l - count (fun x => le_ext x t) l.
Proof. apply (count_negb (fun x => le_ext x t)). Qed.

(* every cell is the number of samples the decision rule places there *)
Theorem cm_counts (s : scores) (t : ext) :
  cm s t = mkCmz
    (count (fun x => dec (score_class s) (equal_class s) x t) (pos s) + easy_pos s)
    (count (fun x => ndec (score_class s) (equal_class s) x t) (pos s))
    (count (fun x => dec (score_class s) (equal_class s) x t) (neg s))
    (count (fun x => ndec (score_class s) (equal_class s) x t) (neg s) + easy_neg s).
Proof.
  unfold cm, cm_side, ndec, dec, searchsorted.
  destruct (score_class s), (equal_class s); cbn beta iota;
    rewrite ?count_ge_ext, ?count_gt_ext;
    repeat match goal with |- context [count (fun x => negb (negb (?f x t))) ?l] =>
      rewrite (count_ext (fun x => negb (negb (f x t))) (fun x => f x t) l) by (intros; apply negb_involutive) end;
    rewrite ?count_ge_ext, ?count_gt_ext; f_equal; lia.
Qed.

(* row sums do not depend on the threshold *)
Theorem cm_margins (s : scores) (t : ext) :
  ctp (cm s t) + cfn (cm s t) = len (pos s) + easy_pos s /\
  cfp (cm s t) + ctn (cm s t) = len (neg s) + easy_neg s.
Proof.
  unfold cm. destruct (score_class s); cbn [ctp cfn cfp ctn]; lia.
Qed.

Corollary cm_margins_const (s : scores) (t t' : ext) :
  ctp (cm s t) + cfn (cm s t) = ctp (cm s t') + cfn (cm s t') /\
  cfp (cm s t) + ctn (cm s t) = cfp (cm s t') + ctn (cm s t').
Proof. destruct (cm_margins s t), (cm_margins s t'). lia. Qed.

(* the constructor establishes well-formedness and keeps the multiset of scores *)
Lemma mk_scores_wf ps ns ep en sc ec : wf (mk_scores ps ns ep en sc ec false).
Proof. split; apply isort_sorted. Qed.
Lemma mk_scores_perm ps ns ep en sc ec b :
  sorted ps \/ b = false -> sorted ns \/ b = false ->
  Permutation ps (pos (mk_scores ps ns ep en sc ec b)) /\ Permutation ns (neg (mk_scores ps ns ep en sc ec b)).
Proof. intros _ _. unfold mk_scores. destruct b; simpl; split; auto using isort_perm. Qed.

(* ---------- pointwise_cm ---------- *)
Lemma pointwise_cm1_spec sc ec b x t :
  pointwise_cm1 sc ec b x t =
    mkCmz (b2z (b && dec sc ec x t)) (b2z (b && ndec sc ec x t))
          (b2z (negb b && dec sc ec x t)) (b2z (negb b && ndec sc ec x t)).
Proof.
  unfold pointwise_cm1, ndec, dec, ge_ext, gt_ext. destruct sc, ec; cbn beta iota; rewrite ?negb_involutive; reflexivity.
Qed.

Lemma pointwise_sum_counts sc ec labels xs t :
  let lx := combine labels xs in
  pointwise_sum sc ec labels xs t = mkCmz
    (count (fun x => dec sc ec x t) (map snd (filter (fun p => fst p) lx)))
    (count (fun x => ndec sc ec x t) (map snd (filter (fun p => fst p) lx)))
    (count (fun x => dec sc ec x t) (map snd (filter (fun p => negb (fst p)) lx)))
    (count (fun x => ndec sc ec x t) (map snd (filter (fun p => negb (fst p)) lx))).
Proof.
  unfold pointwise_sum. cbv zeta. induction (combine labels xs) as [|[b x] r IH]; [reflexivity|].
  cbn [map fold_right filter fst snd]. rewrite IH, pointwise_cm1_spec. unfold cmz_add, ndec.
  destruct b; cbn [negb andb map count b2z ctp cfn cfp ctn fst snd];
    destruct (dec sc ec x t); cbn [negb b2z]; f_equal; lia.
Qed.

(* summing the per-sample membership array over samples gives cm of the object built from the
   same labels and scores (no easy samples) *)
Theorem pointwise_sum_eq_cm sc ec labels xs t :
  pointwise_sum sc ec labels xs t = cm (from_labels labels xs 0 0 sc ec false) t.
Proof.
  rewrite pointwise_sum_counts, cm_counts. cbv zeta. unfold from_labels, mk_scores.
  cbn [pos neg easy_pos easy_neg score_class equal_class].
  rewrite <- !(count_perm _ _ _ (isort_perm _)). f_equal; lia.
Qed.
