(* Proofs/MaterialisePoolFacts.v — C09: thresholds of the two pooled metrics (topr, tonr) for the object with virtual
   easy samples vs the object in which they are actual scores.  The pooled sample sequence of the materialised object
   is the pooled scored sequence with the copies of one value below it and the copies of the other above it
   (np.sort of the concatenation, for both pooling orders); both calls interpolate at the same position, shifted by
   the number of copies on the left. *)
From SA Require Import Model.Threshold Model.Symmetry Proofs.SentinelFacts Proofs.ExtremeFacts Proofs.InvIncrFacts
  Proofs.EquivarianceFacts Proofs.TrapzFacts Proofs.MaterialiseAucFacts Proofs.NegationFacts Proofs.MaterialiseThrFacts.
Open Scope Q_scope.

(* ---------- np.sort of the pooled materialised arrays ---------- *)
Lemma insert_below_suffix x b k t : x < b -> insert x (t ++ repeat b k) = insert x t ++ repeat b k.
Proof.
  intro H. induction t as [|y t IH]; cbn [app insert].
  - destruct k as [|k]; cbn [repeat insert]; [reflexivity|].
    assert (E : Qleb x b = true) by (qb; lra). now rewrite E.
  - destruct (Qleb x y); [reflexivity|]. now rewrite IH.
Qed.

Lemma isort_app_repeat_above l b k : Forall (fun a => a < b) l -> isort (l ++ repeat b k) = isort l ++ repeat b k.
Proof.
  induction l as [|x r IH]; intro Ha; cbn [app isort].
  - apply isort_sorted_id. apply (sorted_app_repeat [] b k); constructor.
  - inversion Ha as [|? ? Hx Har]; subst. rewrite (IH Har). now apply insert_below_suffix.
Qed.

Lemma insert_le_head a S : (forall y, In y S -> a <= y) -> insert a S = a :: S.
Proof.
  intro H. destruct S as [|y S]; [reflexivity|]. cbn [insert].
  assert (E : Qleb a y = true) by (qb; apply H; now left). now rewrite E.
Qed.

Lemma isort_repeat_app_below a k R : Forall (fun y => a < y) R -> isort (repeat a k ++ R) = repeat a k ++ isort R.
Proof.
  intro Ha. induction k as [|k IH]; cbn [repeat app isort]; [reflexivity|].
  rewrite IH. apply insert_le_head. intros y Hy. apply in_app_or in Hy. destruct Hy as [Hy|Hy].
  - apply repeat_spec in Hy. subst. lra.
  - assert (In y R) by (eapply Permutation_in; [apply Permutation_sym, isort_perm|exact Hy]).
    rewrite Forall_forall in Ha. specialize (Ha y H). lra.
Qed.

(* pooled scores of the materialised object: a-copies, the pooled scored samples, b-copies *)
Lemma isort_pool (ns ps : list Q) a b ka kb :
  Forall (fun y => a < y) (ns ++ ps) -> Forall (fun y => y < b) (ns ++ ps) -> a < b ->
  isort ((repeat a ka ++ ns) ++ (ps ++ repeat b kb)) = repeat a ka ++ (isort (ns ++ ps) ++ repeat b kb).
Proof.
  intros Ha Hb Hab. rewrite <- app_assoc. rewrite isort_repeat_app_below.
  - f_equal. rewrite app_assoc. now apply isort_app_repeat_above.
  - rewrite app_assoc. apply Forall_app. split; [exact Ha|]. apply Forall_forall. intros y Hy. apply repeat_spec in Hy. subst. exact Hab.
Qed.

(* copies in the middle of the pooled list (score_class = neg: the classes are pooled as neg ++ pos) *)
Lemma isort_mid_below X a k Y : Forall (fun y => a < y) (X ++ Y) -> isort (X ++ repeat a k ++ Y) = repeat a k ++ isort (X ++ Y).
Proof.
  induction X as [|x X IH]; intro H; cbn [app isort].
  - now apply isort_repeat_app_below.
  - inversion H as [|? ? Hx Hr]; subst. rewrite (IH Hr). now apply insert_above_prefix.
Qed.

Lemma insert_above_all b T k : Forall (fun y => y < b) T -> insert b (T ++ repeat b k) = T ++ repeat b (S k).
Proof.
  induction T as [|y S' IH]; intro H; cbn [app].
  - destruct k as [|k]; cbn [repeat insert]; [reflexivity|].
    assert (E : Qleb b b = true) by (qb; lra). now rewrite E.
  - inversion H as [|? ? Hy Hr]; subst. cbn [insert].
    assert (E : Qleb b y = false) by (qb; lra). rewrite E, (IH Hr). reflexivity.
Qed.

Lemma isort_repeat_app_above b k Y : Forall (fun y => y < b) Y -> isort (repeat b k ++ Y) = isort Y ++ repeat b k.
Proof.
  intro H. induction k as [|k IH]; cbn [repeat app isort]; [now rewrite app_nil_r|].
  rewrite IH. apply insert_above_all.
  apply Forall_forall. intros y Hy. rewrite Forall_forall in H. apply H.
  eapply Permutation_in; [apply Permutation_sym, isort_perm|exact Hy].
Qed.

Lemma isort_mid_above X b k Y : Forall (fun y => y < b) (X ++ Y) -> isort (X ++ repeat b k ++ Y) = isort (X ++ Y) ++ repeat b k.
Proof.
  induction X as [|x X IH]; intro H; cbn [app isort].
  - now apply isort_repeat_app_above.
  - inversion H as [|? ? Hx Hr]; subst. rewrite (IH Hr). now apply insert_below_suffix.
Qed.

Lemma isort_pool_neg (ns ps : list Q) a b ka kb :
  Forall (fun y => a < y) (ns ++ ps) -> Forall (fun y => y < b) (ns ++ ps) -> a < b ->
  isort ((ns ++ repeat b kb) ++ (repeat a ka ++ ps)) = repeat a ka ++ (isort (ns ++ ps) ++ repeat b kb).
Proof.
  intros Ha Hb Hab. rewrite <- app_assoc.
  rewrite (isort_mid_above ns b kb (repeat a ka ++ ps)).
  - rewrite (isort_mid_below ns a ka ps Ha). now rewrite app_assoc.
  - apply Forall_app in Hb. destruct Hb as [H1 H2]. apply Forall_app. split; [exact H1|].
    apply Forall_app. split; [|exact H2]. apply Forall_forall. intros y Hy. apply repeat_spec in Hy. subst. exact Hab.
Qed.

Section Both.
  Variable succ pred : Q -> Q.
  Hypothesis Hsucc : forall x, x < succ x.
  Hypothesis Hpred : forall x, pred x < x.
  Notation inv := (inv_incr succ pred).

  (* materialised on both sides: ka >= 0 copies of a below, kb >= 0 copies of b above *)
  Lemma inv_both_ext l a b ka kb u' lc : (1 <= len l)%Z -> a < nthZ l 0 -> nthZ l (len l - 1) < b ->
    let l' := repeat a ka ++ (l ++ repeat b kb) in
    let t' := inv l' u' lc Linear in
    nthZ l 0 < t' -> t' < nthZ l (len l - 1) ->
    interior l' u' lc /\ inject_Z (Z.of_nat ka) < xpos l' u' lc /\
    xpos l' u' lc < inject_Z (Z.of_nat ka + len l - 1) /\
    t' == interpc l (xpos l' u' lc - inject_Z (Z.of_nat ka)).
  Proof.
    intros Hn Ha Hb l' t' Lo Hi. set (n := len l) in *. set (az := Z.of_nat ka) in *. set (bz := Z.of_nat kb) in *.
    assert (Az : (0 <= az)%Z) by (unfold az; lia). assert (Bz : (0 <= bz)%Z) by (unfold bz; lia).
    assert (La : len (repeat a ka) = az) by apply len_repeat.
    assert (Lb : len (repeat b kb) = bz) by apply len_repeat.
    assert (Ln' : len l' = (az + n + bz)%Z) by (unfold l'; rewrite !len_app, La, Lb; fold n; lia).
    assert (Hn' : (1 <= len l')%Z) by lia.
    (* the three zones of l' *)
    assert (Zl : forall i, (0 <= i < az)%Z -> nthZ l' i = a).
    { intros i Hi'. unfold l'. rewrite nthZ_app_l by (rewrite La; lia). apply nthZ_repeat. fold az. lia. }
    assert (Zm : forall i, (az <= i < az + n)%Z -> nthZ l' i = nthZ l (i - az)).
    { intros i Hi'. unfold l'. rewrite nthZ_app_r by (rewrite La; lia). rewrite La. apply nthZ_app_l. fold n. lia. }
    assert (Zr : forall i, (az + n <= i < az + n + bz)%Z -> nthZ l' i = b).
    { intros i Hi'. unfold l'. rewrite nthZ_app_r by (rewrite La; lia). rewrite La.
      rewrite nthZ_app_r by (fold n; lia). apply nthZ_repeat. fold n bz. lia. }
    assert (First : nthZ l' 0 <= nthZ l 0).
    { destruct (Z.eq_dec az 0) as [E|E]; [rewrite Zm by lia; replace (0 - az)%Z with 0%Z by lia; lra|rewrite Zl by lia; lra]. }
    assert (Last : nthZ l (n - 1) <= nthZ l' (len l' - 1)).
    { rewrite Ln'. destruct (Z.eq_dec bz 0) as [E|E].
      - rewrite Zm by lia. replace (az + n + bz - 1 - az)%Z with (n - 1)%Z by lia. lra.
      - rewrite Zr by lia. lra. }
    destruct (inv_cases l' u' lc) as [U|[[U1 U2]|Hint]].
    - exfalso. unfold t' in Hi. rewrite (inv_upper succ pred l' u' lc Linear U) in Hi.
      pose proof (Hsucc (nthZ l' (len l' - 1))). lra.
    - exfalso. unfold t' in Lo. rewrite (inv_low_sentinel succ pred l' u' lc Linear U1 U2) in Lo.
      pose proof (Hpred (nthZ l' 0)). lra.
    - split; [exact Hint|].
      pose proof (inv_interior succ pred l' u' lc Linear Hint) as E. fold t' in E.
      destruct (interior_idx l' u' lc Hn' Hint) as (A & B & C & D & _). cbv zeta in *.
      set (x := xpos l' u' lc) in *. rewrite C, D, Ln' in E.
      destruct (ceil_weight x) as [W0 W1]. set (la := inject_Z (Qceiling x) - x) in *.
      pose proof (floor_le_ceil x) as FC. pose proof (ceil_le_floor1 x) as CF.
      set (cc := Z.min (Qceiling x) (az + n + bz - 1)) in *.
      (* left neighbour is a scored sample *)
      assert (Cf : (az <= Qfloor x)%Z).
      { destruct (Z_le_gt_dec az (Qfloor x)) as [|G]; [assumption|exfalso].
        rewrite (Zl (Qfloor x)) in E by lia.
        destruct (Z.eq_dec (Qfloor x) (Qceiling x)) as [Q|Q].
        - assert (Ecc : nthZ l' cc = a) by (apply Zl; unfold cc; lia).
          rewrite Ecc in E. rewrite E in Lo. nra.
        - destruct (floor_lt_ceil x ltac:(lia)) as [F1 F2].
          assert (CE : Qceiling x = (Qfloor x + 1)%Z) by lia.
          assert (Wpos : 0 < la) by (unfold la; rewrite CE, inject_Z_plus; change (inject_Z 1) with 1; lra).
          assert (Ecc : nthZ l' cc <= nthZ l 0).
          { destruct (Z.eq_dec cc az) as [Q2|Q2].
            - rewrite Zm by (unfold cc in *; lia). rewrite Q2, Z.sub_diag. lra.
            - rewrite Zl by (unfold cc in *; lia). lra. }
          rewrite E in Lo. nra. }
      (* right neighbour is a scored sample *)
      assert (Cc : (cc <= az + n - 1)%Z).
      { destruct (Z_le_gt_dec cc (az + n - 1)) as [|G]; [assumption|exfalso].
        assert (Ecc : nthZ l' cc = b) by (apply Zr; unfold cc in *; lia).
        assert (Ecf : nthZ l (n - 1) <= nthZ l' (Qfloor x)).
        { destruct (Z.eq_dec (Qfloor x) (az + n - 1)) as [Q|Q].
          - rewrite Zm by lia. rewrite Q. replace (az + n - 1 - az)%Z with (n - 1)%Z by lia. lra.
          - rewrite Zr by (unfold cc in *; lia). lra. }
        rewrite Ecc in E. rewrite E in Hi. nra. }
      assert (Eint : t' == interpc l (x - inject_Z az)).
      { rewrite E. unfold interpc.
        assert (F1 : Qfloor (x - inject_Z az) = (Qfloor x - az)%Z).
        { assert (Q : x - inject_Z az == inject_Z (- az) + x) by (rewrite inject_Z_opp; ring).
          rewrite (Qfloor_comp _ _ Q), floor_shift. lia. }
        assert (F2 : Qceiling (x - inject_Z az) = (Qceiling x - az)%Z).
        { unfold Qceiling. assert (Q : - (x - inject_Z az) == inject_Z az + - x) by ring.
          rewrite (Qfloor_comp _ _ Q), floor_shift. lia. }
        rewrite F1, F2. fold n.
        assert (W : inject_Z (Qceiling x - az) - (x - inject_Z az) == la) by (unfold la; rewrite inject_Z_sub; ring).
        rewrite W. rewrite (Zm (Qfloor x)) by (unfold cc in *; lia). rewrite (Zm cc) by (unfold cc in *; lia).
        replace (cc - az)%Z with (Z.min (Qceiling x - az) (n - 1)) by (unfold cc in *; lia).
        reflexivity. }
      split; [|split; [|exact Eint]].
      + assert (Xge : inject_Z az <= x) by (destruct (floor_bounds x) as [Q _]; rewrite Zle_Qle in Cf; lra).
        destruct (Qlt_le_dec (inject_Z az) x) as [|G]; [assumption|exfalso].
        assert (Ex : x - inject_Z az == inject_Z 0) by (change (inject_Z 0) with 0; lra).
        rewrite (interpc_compat l _ _ Ex) in Eint. unfold interpc in Eint.
        rewrite Qfloor_Z, Qceiling_Z in Eint. fold n in Eint.
        replace (Z.min 0 (n - 1)) with 0%Z in Eint by lia. rewrite Eint in Lo. nra.
      + destruct (Qlt_le_dec x (inject_Z (az + n - 1))) as [|G]; [assumption|exfalso].
        assert (Ff : (az + n - 1 <= Qfloor x)%Z) by (apply floor_ge; exact G).
        assert (Q1 : Qfloor x = (az + n - 1)%Z) by (unfold cc in *; lia).
        assert (Q2 : cc = (az + n - 1)%Z) by (unfold cc in *; lia).
        rewrite Q1, Q2 in E. rewrite (Zm (az + n - 1)%Z) in E by lia.
        replace (az + n - 1 - az)%Z with (n - 1)%Z in E by lia. rewrite E in Hi. nra.
  Qed.
End Both.

(* the rescaling of threshold_at_topr / threshold_at_tonr: e = the class's easy samples over all samples, h = hard ratio *)
Definition uB3 (e h r : Q) : Q := Qmaximum (Qminimum (Qmaximum (r - e) 0 / h) 1) (b2q (Qleb 1 r)).

Lemma uB3_M e h r : e == 0 -> h == 1 -> 0 < uB3 e h r -> uB3 e h r < 1 -> uB3 e h r == r /\ 0 < r /\ r < 1.
Proof.
  intros He Hh. assert (D : forall v, v / h == v) by (intro v; rewrite Hh; field).
  unfold uB3, Qmaximum, Qminimum, b2q, Qmax2, Qmin2.
  destruct (Qleb 1 r) eqn:A; destruct (Qleb (r - e) 0) eqn:B; qb.
  - destruct (Qleb (0 / h) 1) eqn:C; [destruct (Qleb (0 / h) 1) eqn:D2|destruct (Qleb 1 1) eqn:D2]; qb; rewrite ?D in *; intros; lra.
  - destruct (Qleb ((r - e) / h) 1) eqn:C; [destruct (Qleb ((r - e) / h) 1) eqn:D2|destruct (Qleb 1 1) eqn:D2]; qb; rewrite ?D in *; intros; lra.
  - destruct (Qleb (0 / h) 1) eqn:C; [destruct (Qleb (0 / h) 0) eqn:D2|destruct (Qleb 1 0) eqn:D2]; qb; rewrite ?D in *; intros; lra.
  - destruct (Qleb ((r - e) / h) 1) eqn:C; [destruct (Qleb ((r - e) / h) 0) eqn:D2|destruct (Qleb 1 0) eqn:D2]; qb; rewrite ?D in *; intros; lra.
Qed.

Lemma uB3_s e h r nQ NQ c : 0 < h -> 0 < NQ -> 0 < nQ -> e * NQ == c -> h * NQ == nQ ->
  r < 1 -> c < r * NQ -> r * NQ - c < nQ ->
  uB3 e h r = (r - e) / h /\ ((r - e) / h) * nQ == r * NQ - c.
Proof.
  intros Hh HN Hn He Hh2 R1 R2 R3.
  assert (V : ((r - e) / h) * nQ == r * NQ - c).
  { rewrite <- Hh2, <- He. field. lra. }
  split; [|exact V]. unfold uB3, Qmaximum, Qminimum, b2q.
  assert (A : Qleb 1 r = false) by (qb; lra). rewrite A.
  assert (B : 0 < r - e) by nra.
  rewrite (Qmax2_of_pos _ B).
  assert (C : (r - e) / h < 1) by nra.
  rewrite (Qmin2_of_lt _ C). apply Qmax2_of_pos. nra.
Qed.

Section Pool.
  Variable succ pred : Q -> Q.
  Hypothesis Hsucc : forall x, x < succ x.
  Hypothesis Hpred : forall x, pred x < x.
  Notation inv := (inv_incr succ pred).

  Variable l : list Q.
  Variables a b : Q.
  Variables ka kb : nat.
  Hypothesis Hn : (1 <= len l)%Z.
  Hypothesis Ha : a < nthZ l 0.
  Hypothesis Hb : nthZ l (len l - 1) < b.
  Notation n := (len l).
  Notation l' := (repeat a ka ++ (l ++ repeat b kb)).
  Let nQ := inject_Z n.
  Let aQ := inject_Z (Z.of_nat ka).
  Let bQ := inject_Z (Z.of_nat kb).
  Let NQ := nQ + aQ + bQ.

  Lemma pool_n1 : 1 <= nQ. Proof. apply lenQ_pos; exact Hn. Qed.
  Lemma pool_a0 : 0 <= aQ. Proof. unfold aQ. change 0 with (inject_Z 0). rewrite <- Zle_Qle. lia. Qed.
  Lemma pool_b0 : 0 <= bQ. Proof. unfold bQ. change 0 with (inject_Z 0). rewrite <- Zle_Qle. lia. Qed.
  Lemma len_pool : len l' = (Z.of_nat ka + n + Z.of_nat kb)%Z.
  Proof. rewrite !len_app, !len_repeat. lia. Qed.
  Lemma lenQ_pool : inject_Z (len l') == NQ.
  Proof. rewrite len_pool. unfold NQ, nQ, aQ, bQ. rewrite !inject_Z_plus. ring. Qed.
  Lemma xpos_pool u lc : xpos l' u lc == u * NQ - (if lc then 0 else 1).
  Proof.
    assert (H : (1 <= len l')%Z) by (rewrite len_pool; lia).
    pose proof (xpos_u _ u lc H) as E. rewrite lenQ_pool in E. lra.
  Qed.
  Lemma upper_form : inject_Z (Z.of_nat ka + n - 1) == aQ + nQ - 1.
  Proof. unfold aQ, nQ. rewrite inject_Z_sub, inject_Z_plus. reflexivity. Qed.

  Lemma interior_bounds u lc : interior l' u lc -> 0 < u /\ u < 1.
  Proof.
    intros [U1 U2]. split; [|exact U1].
    assert (L1 : (1 <= len l')%Z) by (rewrite len_pool; lia).
    pose proof (lenQ_pos _ L1) as Q1. unfold shifted in U2.
    assert (0 < 1 / inject_Z (len l')) by (apply Qlt_shift_div_l; lra).
    destruct lc; cbn [negb] in U2; lra.
  Qed.

  (* no flip: the subtracted easy share is the one materialised on the left *)
  Lemma pool_BN eM hM e h r lc : eM == 0 -> hM == 1 -> 0 < h -> e * NQ == aQ -> h * NQ == nQ ->
    let t' := inv l' (uB3 eM hM r) lc Linear in
    nthZ l 0 < t' -> t' < nthZ l (n - 1) -> inv l (uB3 e h r) lc Linear == t'.
  Proof.
    intros HeM HhM Hh He Hh2 t' Lo Hi. pose proof pool_n1 as N1. pose proof pool_a0 as A0. pose proof pool_b0 as B0.
    destruct (inv_both_ext succ pred Hsucc Hpred l a b ka kb (uB3 eM hM r) lc Hn Ha Hb Lo Hi) as (Hint & X0 & X1 & Et).
    destruct (interior_bounds _ _ Hint) as [W0 W1].
    destruct (uB3_M eM hM r HeM HhM W0 W1) as (EB & R0 & R1). fold t' in Et. rewrite Et.
    fold aQ in X0. rewrite xpos_pool, EB in X0. rewrite xpos_pool, EB, upper_form in X1.
    assert (NP : 0 < NQ) by (unfold NQ; lra).
    assert (RN : aQ < r * NQ) by (destruct lc; lra).
    assert (RN2 : r * NQ - aQ < nQ) by (destruct lc; lra).
    destruct (uB3_s e h r nQ NQ aQ Hh NP ltac:(lra) He Hh2 R1 RN RN2) as [Es V]. rewrite Es.
    set (v := (r - e) / h) in *.
    assert (Ex : xpos l v lc == xpos l' (uB3 eM hM r) lc - inject_Z (Z.of_nat ka)).
    { fold aQ. rewrite (xpos_s l Hn), xpos_pool, EB. fold nQ. lra. }
    apply (inv_at_position succ pred l v lc _ Hn); [|exact Ex].
    apply (interior_s l Hn); [fold nQ in V; nra|]. rewrite (xpos_s l Hn). fold nQ. destruct lc; lra.
  Qed.

  (* flip: the subtracted easy share is the one materialised on the right *)
  Lemma pool_BF eM hM e h r lc : eM == 0 -> hM == 1 -> 0 < h -> e * NQ == bQ -> h * NQ == nQ ->
    let t' := inv l' (1 - uB3 eM hM r) lc Linear in
    nthZ l 0 < t' -> t' < nthZ l (n - 1) -> inv l (1 - uB3 e h r) lc Linear == t'.
  Proof.
    intros HeM HhM Hh He Hh2 t' Lo Hi. pose proof pool_n1 as N1. pose proof pool_a0 as A0. pose proof pool_b0 as B0.
    destruct (inv_both_ext succ pred Hsucc Hpred l a b ka kb (1 - uB3 eM hM r) lc Hn Ha Hb Lo Hi) as (Hint & X0 & X1 & Et).
    destruct (interior_bounds _ _ Hint) as [W0 W1].
    destruct (uB3_M eM hM r HeM HhM ltac:(lra) ltac:(lra)) as (EB & R0 & R1). fold t' in Et. rewrite Et.
    fold aQ in X0. rewrite xpos_pool, EB in X0. rewrite xpos_pool, EB, upper_form in X1.
    assert (NP : 0 < NQ) by (unfold NQ; lra).
    assert (RN : bQ < r * NQ) by (unfold NQ in *; destruct lc; lra).
    assert (RN2 : r * NQ - bQ < nQ) by (unfold NQ in *; destruct lc; lra).
    destruct (uB3_s e h r nQ NQ bQ Hh NP ltac:(lra) He Hh2 R1 RN RN2) as [Es V]. rewrite Es.
    set (v := (r - e) / h) in *.
    assert (Ex : xpos l (1 - v) lc == xpos l' (1 - uB3 eM hM r) lc - inject_Z (Z.of_nat ka)).
    { fold aQ. rewrite (xpos_s l Hn), xpos_pool, EB. fold nQ. unfold NQ in *. lra. }
    apply (inv_at_position succ pred l (1 - v) lc _ Hn); [|exact Ex].
    apply (interior_s l Hn); [fold nQ in V; nra|]. rewrite (xpos_s l Hn). fold nQ. unfold NQ in *. destruct lc; lra.
  Qed.
End Pool.

(* both materialised values lie strictly beyond ALL scored samples, each on its own side *)
Definition beyond_all (s : scores) (ppos pneg : Q) : Prop :=
  match score_class s with
  | Pos => Forall (fun y => pneg < y) (neg s ++ pos s) /\ Forall (fun y => y < ppos) (neg s ++ pos s) /\ pneg < ppos
  | Neg => Forall (fun y => ppos < y) (neg s ++ pos s) /\ Forall (fun y => y < pneg) (neg s ++ pos s) /\ ppos < pneg
  end.

Lemma len_isort (l : list Q) : len (isort l) = len l.
Proof. unfold len. now rewrite isort_length. Qed.

Lemma nthZ_isort_in l i : (0 <= i < len l)%Z -> In (nthZ (isort l) i) l.
Proof.
  intro H. apply (Permutation_in _ (Permutation_sym (isort_perm l))). apply nthZ_in. now rewrite len_isort.
Qed.

Lemma zero_div x : inject_Z 0 / x == 0.
Proof. unfold Qdiv. change (inject_Z 0) with 0. ring. Qed.

Section Lift2.
  Variable succ pred : Q -> Q.
  Hypothesis Hsucc : forall x, x < succ x.
  Hypothesis Hpred : forall x, pred x < x.

  Section Data.
    Variables ps ns : list Q.
    Variables ep en : Z.
    Hypothesis Hn : (1 <= len (isort (ns ++ ps)))%Z.
    Hypothesis Hep : (0 <= ep)%Z.
    Hypothesis Hen : (0 <= en)%Z.
    Hypothesis Hk : (1 <= ep + en)%Z.
    Notation l := (isort (ns ++ ps)).
    Notation Nall := (inject_Z (ep + en + (len ps + len ns))).

    Lemma lenl : len l = (len ps + len ns)%Z.
    Proof. rewrite len_isort, len_app. lia. Qed.
    Lemma Nall_pos : 0 < Nall.
    Proof. change 0 with (inject_Z 0). rewrite <- Zlt_Qlt. pose proof lenl. lia. Qed.
    Lemma h_form : 1 - inject_Z (ep + en) / Nall == inject_Z (len l) / Nall.
    Proof. pose proof Nall_pos. rewrite lenl. rewrite !inject_Z_plus in *. field. lra. Qed.
    Lemma h_pos' : 0 < 1 - inject_Z (ep + en) / Nall.
    Proof.
      rewrite h_form. apply Qlt_shift_div_l; [apply Nall_pos|]. rewrite Qmult_0_l.
      change 0 with (inject_Z 0). rewrite <- Zlt_Qlt. lia.
    Qed.
    (* N as the sum the pooled lemmas use: scored + left copies + right copies *)
    Lemma NQ_form ka kb : (Z.of_nat ka + Z.of_nat kb = ep + en)%Z ->
      inject_Z (len l) + inject_Z (Z.of_nat ka) + inject_Z (Z.of_nat kb) == Nall.
    Proof.
      intro E. rewrite <- !inject_Z_plus. rewrite lenl.
      replace (len ps + len ns + Z.of_nat ka + Z.of_nat kb)%Z with (ep + en + (len ps + len ns))%Z by lia. reflexivity.
    Qed.
    Lemma e_form k ka kb : (Z.of_nat ka + Z.of_nat kb = ep + en)%Z ->
      inject_Z k / Nall * (inject_Z (len l) + inject_Z (Z.of_nat ka) + inject_Z (Z.of_nat kb)) == inject_Z k.
    Proof. intro E. rewrite (NQ_form ka kb E). pose proof Nall_pos. field. lra. Qed.
    Lemma h_times ka kb : (Z.of_nat ka + Z.of_nat kb = ep + en)%Z ->
      (1 - inject_Z (ep + en) / Nall) * (inject_Z (len l) + inject_Z (Z.of_nat ka) + inject_Z (Z.of_nat kb)) == inject_Z (len l).
    Proof. intro E. rewrite (NQ_form ka kb E), h_form. pose proof Nall_pos. field. lra. Qed.
    Lemma first_gt a : Forall (fun y => a < y) (ns ++ ps) -> a < nthZ l 0.
    Proof. intro H. rewrite Forall_forall in H. apply H. apply nthZ_isort_in. pose proof (len_isort (ns ++ ps)) as E. lia. Qed.
    Lemma last_lt b : Forall (fun y => y < b) (ns ++ ps) -> nthZ l (len l - 1) < b.
    Proof.
      intro H. rewrite Forall_forall in H. apply (H (nthZ l (len l - 1))). apply nthZ_isort_in. pose proof (len_isort (ns ++ ps)) as E. lia.
    Qed.
  End Data.

  Ltac setup2 H :=
    unfold M, mat_sorted, threshold_at_topr, threshold_at_tonr, hard_ratio, easy_ratio, nb_all_samples, nb_easy_samples,
      nb_hard_samples in *;
    cbn [score_class pos neg easy_pos easy_neg equal_class] in *.

  Lemma topr_pos ps ns ep en ec ppos pneg r t' :
    (1 <= len (isort (ns ++ ps)))%Z -> (0 <= ep)%Z -> (0 <= en)%Z -> (1 <= ep + en)%Z ->
    beyond_all (M ps ns ep en Pos ec) ppos pneg ->
    threshold_at_topr succ pred (mat_sorted (M ps ns ep en Pos ec) ppos pneg) r Linear = Ret t' ->
    nthZ (isort (ns ++ ps)) 0 < t' -> t' < nthZ (isort (ns ++ ps)) (len (isort (ns ++ ps)) - 1) ->
    exists t, threshold_at_topr succ pred (M ps ns ep en Pos ec) r Linear = Ret t /\ t == t'.
  Proof.
    intros Hn Hep Hen Hk Hb H Lo Hi. unfold beyond_all in Hb. setup2 H. destruct Hb as (B1 & B2 & B3).
    rewrite (isort_pool ns ps pneg ppos (Z.to_nat en) (Z.to_nat ep) B1 B2 B3) in H.
    set (ka := Z.to_nat en) in *. set (kb := Z.to_nat ep) in *.
    assert (Ek : (Z.of_nat ka + Z.of_nat kb = ep + en)%Z) by (unfold ka, kb; lia).
    set (l := isort (ns ++ ps)) in *.
    assert (L' : (len (repeat pneg ka ++ l ++ repeat ppos kb) =? 0)%Z = false).
    { apply Z.eqb_neq. rewrite !len_app, !len_repeat. lia. }
    rewrite L' in H. change (0 <? 0 + 0)%Z with false in H. cbv iota in H. injection H as H.
    assert (L0 : (len l =? 0)%Z = false) by (apply Z.eqb_neq; lia). rewrite L0.
    assert (K0 : (0 <? ep + en)%Z = true) by (apply Z.ltb_lt; lia). rewrite K0.
    eexists; split; [reflexivity|]. rewrite tar_unfold in *.
    cbn [tar_target tar_lc tar_method score_class equal_class negb label_eqb reverse_method] in *.
    subst t'.
    refine (pool_BF succ pred Hsucc Hpred l pneg ppos ka kb Hn (first_gt ps ns Hn pneg B1) (last_lt ps ns Hn ppos B2)
              _ _ _ _ r _ (zero_div _) _ (h_pos' ps ns ep en Hn Hk) _ (h_times ps ns ep en Hn Hk ka kb Ek) Lo Hi).
    - ring.
    - replace ep with (Z.of_nat kb) at 1 by (unfold kb; lia). exact (e_form ps ns ep en Hn Hk (Z.of_nat kb) ka kb Ek).
  Qed.

  Lemma tonr_pos ps ns ep en ec ppos pneg r t' :
    (1 <= len (isort (ns ++ ps)))%Z -> (0 <= ep)%Z -> (0 <= en)%Z -> (1 <= ep + en)%Z ->
    beyond_all (M ps ns ep en Pos ec) ppos pneg ->
    threshold_at_tonr succ pred (mat_sorted (M ps ns ep en Pos ec) ppos pneg) r Linear = Ret t' ->
    nthZ (isort (ns ++ ps)) 0 < t' -> t' < nthZ (isort (ns ++ ps)) (len (isort (ns ++ ps)) - 1) ->
    exists t, threshold_at_tonr succ pred (M ps ns ep en Pos ec) r Linear = Ret t /\ t == t'.
  Proof.
    intros Hn Hep Hen Hk Hb H Lo Hi. unfold beyond_all in Hb. setup2 H. destruct Hb as (B1 & B2 & B3).
    rewrite (isort_pool ns ps pneg ppos (Z.to_nat en) (Z.to_nat ep) B1 B2 B3) in H.
    set (ka := Z.to_nat en) in *. set (kb := Z.to_nat ep) in *.
    assert (Ek : (Z.of_nat ka + Z.of_nat kb = ep + en)%Z) by (unfold ka, kb; lia).
    set (l := isort (ns ++ ps)) in *.
    assert (L' : (len (repeat pneg ka ++ l ++ repeat ppos kb) =? 0)%Z = false).
    { apply Z.eqb_neq. rewrite !len_app, !len_repeat. lia. }
    rewrite L' in H. change (0 <? 0 + 0)%Z with false in H. cbv iota in H. injection H as H.
    assert (L0 : (len l =? 0)%Z = false) by (apply Z.eqb_neq; lia). rewrite L0.
    assert (K0 : (0 <? ep + en)%Z = true) by (apply Z.ltb_lt; lia). rewrite K0.
    eexists; split; [reflexivity|]. rewrite tar_unfold in *.
    cbn [tar_target tar_lc tar_method score_class equal_class negb label_eqb reverse_method] in *.
    subst t'.
    refine (pool_BN succ pred Hsucc Hpred l pneg ppos ka kb Hn (first_gt ps ns Hn pneg B1) (last_lt ps ns Hn ppos B2)
              _ _ _ _ r _ (zero_div _) _ (h_pos' ps ns ep en Hn Hk) _ (h_times ps ns ep en Hn Hk ka kb Ek) Lo Hi).
    - ring.
    - replace en with (Z.of_nat ka) at 1 by (unfold ka; lia). exact (e_form ps ns ep en Hn Hk (Z.of_nat ka) ka kb Ek).
  Qed.

  Lemma topr_neg ps ns ep en ec ppos pneg r t' :
    (1 <= len (isort (ns ++ ps)))%Z -> (0 <= ep)%Z -> (0 <= en)%Z -> (1 <= ep + en)%Z ->
    beyond_all (M ps ns ep en Neg ec) ppos pneg ->
    threshold_at_topr succ pred (mat_sorted (M ps ns ep en Neg ec) ppos pneg) r Linear = Ret t' ->
    nthZ (isort (ns ++ ps)) 0 < t' -> t' < nthZ (isort (ns ++ ps)) (len (isort (ns ++ ps)) - 1) ->
    exists t, threshold_at_topr succ pred (M ps ns ep en Neg ec) r Linear = Ret t /\ t == t'.
  Proof.
    intros Hn Hep Hen Hk Hb H Lo Hi. unfold beyond_all in Hb. setup2 H. destruct Hb as (B1 & B2 & B3).
    rewrite (isort_pool_neg ns ps ppos pneg (Z.to_nat ep) (Z.to_nat en) B1 B2 B3) in H.
    set (ka := Z.to_nat ep) in *. set (kb := Z.to_nat en) in *.
    assert (Ek : (Z.of_nat ka + Z.of_nat kb = ep + en)%Z) by (unfold ka, kb; lia).
    set (l := isort (ns ++ ps)) in *.
    assert (L' : (len (repeat ppos ka ++ l ++ repeat pneg kb) =? 0)%Z = false).
    { apply Z.eqb_neq. rewrite !len_app, !len_repeat. lia. }
    rewrite L' in H. change (0 <? 0 + 0)%Z with false in H. cbv iota in H. injection H as H.
    assert (L0 : (len l =? 0)%Z = false) by (apply Z.eqb_neq; lia). rewrite L0.
    assert (K0 : (0 <? ep + en)%Z = true) by (apply Z.ltb_lt; lia). rewrite K0.
    eexists; split; [reflexivity|]. rewrite tar_unfold in *.
    cbn [tar_target tar_lc tar_method score_class equal_class negb label_eqb reverse_method] in *.
    subst t'.
    match goal with |- inv_incr _ _ _ (1 - (1 - ?u)) ?lc _ == inv_incr _ _ ?l' (1 - (1 - ?u')) _ _ =>
      rewrite (inv_compat succ pred l (1 - (1 - u)) u lc Linear) by ring;
      rewrite (inv_compat succ pred l' (1 - (1 - u')) u' lc Linear) by ring;
      rewrite (inv_compat succ pred l' (1 - (1 - u')) u' lc Linear) in Lo, Hi by ring end.
    refine (pool_BN succ pred Hsucc Hpred l ppos pneg ka kb Hn (first_gt ps ns Hn ppos B1) (last_lt ps ns Hn pneg B2)
              _ _ _ _ r _ (zero_div _) _ (h_pos' ps ns ep en Hn Hk) _ (h_times ps ns ep en Hn Hk ka kb Ek) Lo Hi).
    - ring.
    - replace ep with (Z.of_nat ka) at 1 by (unfold ka; lia). exact (e_form ps ns ep en Hn Hk (Z.of_nat ka) ka kb Ek).
  Qed.

  Lemma tonr_neg ps ns ep en ec ppos pneg r t' :
    (1 <= len (isort (ns ++ ps)))%Z -> (0 <= ep)%Z -> (0 <= en)%Z -> (1 <= ep + en)%Z ->
    beyond_all (M ps ns ep en Neg ec) ppos pneg ->
    threshold_at_tonr succ pred (mat_sorted (M ps ns ep en Neg ec) ppos pneg) r Linear = Ret t' ->
    nthZ (isort (ns ++ ps)) 0 < t' -> t' < nthZ (isort (ns ++ ps)) (len (isort (ns ++ ps)) - 1) ->
    exists t, threshold_at_tonr succ pred (M ps ns ep en Neg ec) r Linear = Ret t /\ t == t'.
  Proof.
    intros Hn Hep Hen Hk Hb H Lo Hi. unfold beyond_all in Hb. setup2 H. destruct Hb as (B1 & B2 & B3).
    rewrite (isort_pool_neg ns ps ppos pneg (Z.to_nat ep) (Z.to_nat en) B1 B2 B3) in H.
    set (ka := Z.to_nat ep) in *. set (kb := Z.to_nat en) in *.
    assert (Ek : (Z.of_nat ka + Z.of_nat kb = ep + en)%Z) by (unfold ka, kb; lia).
    set (l := isort (ns ++ ps)) in *.
    assert (L' : (len (repeat ppos ka ++ l ++ repeat pneg kb) =? 0)%Z = false).
    { apply Z.eqb_neq. rewrite !len_app, !len_repeat. lia. }
    rewrite L' in H. change (0 <? 0 + 0)%Z with false in H. cbv iota in H. injection H as H.
    assert (L0 : (len l =? 0)%Z = false) by (apply Z.eqb_neq; lia). rewrite L0.
    assert (K0 : (0 <? ep + en)%Z = true) by (apply Z.ltb_lt; lia). rewrite K0.
    eexists; split; [reflexivity|]. rewrite tar_unfold in *.
    cbn [tar_target tar_lc tar_method score_class equal_class negb label_eqb reverse_method] in *.
    subst t'.
    refine (pool_BF succ pred Hsucc Hpred l ppos pneg ka kb Hn (first_gt ps ns Hn ppos B1) (last_lt ps ns Hn pneg B2)
              _ _ _ _ r _ (zero_div _) _ (h_pos' ps ns ep en Hn Hk) _ (h_times ps ns ep en Hn Hk ka kb Ek) Lo Hi).
    - ring.
    - replace en with (Z.of_nat kb) at 1 by (unfold kb; lia). exact (e_form ps ns ep en Hn Hk (Z.of_nat kb) ka kb Ek).
  Qed.

  (* the two pooled metrics *)
  Theorem mat_thresholds_pooled_metrics s ppos pneg mt r t' :
    In mt [MTopr; MTonr] ->
    let l := isort (neg s ++ pos s) in
    (1 <= len l)%Z -> (0 <= easy_pos s)%Z -> (0 <= easy_neg s)%Z -> (1 <= easy_pos s + easy_neg s)%Z ->
    beyond_all s ppos pneg ->
    threshold_at succ pred mt (mat_sorted s ppos pneg) r Linear = Ret t' ->
    nthZ l 0 < t' -> t' < nthZ l (len l - 1) ->
    exists t, threshold_at succ pred mt s r Linear = Ret t /\ t == t'.
  Proof.
    intros Hmt l Hn Hep Hen Hk Hb H Lo Hi. destruct s as [ps ns ep en sc ec].
    change (mkScores ps ns ep en sc ec) with (M ps ns ep en sc ec) in *.
    unfold l in *. cbn [pos neg easy_pos easy_neg M] in Hn, Hep, Hen, Hk, Lo, Hi. cbn [In] in Hmt.
    destruct Hmt as [<-|[<-|[]]]; destruct sc; cbn [threshold_at] in *.
    - exact (topr_pos ps ns ep en ec ppos pneg r t' Hn Hep Hen Hk Hb H Lo Hi).
    - exact (topr_neg ps ns ep en ec ppos pneg r t' Hn Hep Hen Hk Hb H Lo Hi).
    - exact (tonr_pos ps ns ep en ec ppos pneg r t' Hn Hep Hen Hk Hb H Lo Hi).
    - exact (tonr_neg ps ns ep en ec ppos pneg r t' Hn Hep Hen Hk Hb H Lo Hi).
  Qed.
End Lift2.
