(* Proofs/RoundtripFacts.v — C02 lifted from the normalised core to the metrics of a Scores object. *)
From SA Require Import Model.Threshold Proofs.SentinelFacts Proofs.ExtremeFacts Proofs.InvIncrFacts.
Open Scope Q_scope.

Lemma clip01_compat u v : u == v -> clip01 u == clip01 v.
Proof.
  intro E. destruct (clip01_spec u) as (A0 & A1 & Am & _), (clip01_spec v) as (B0 & B1 & Bm & _).
  destruct (Qlt_le_dec u 0); [rewrite A0, B0; lra|].
  destruct (Qlt_le_dec 1 u); [rewrite A1, B1; lra|].
  rewrite Am, Bm; lra.
Qed.
Lemma clip01_compl u : clip01 (1 - u) == 1 - clip01 u.
Proof.
  destruct (clip01_spec u) as (A0 & A1 & Am & _), (clip01_spec (1 - u)) as (B0 & B1 & Bm & _).
  destruct (Qlt_le_dec u 0); [rewrite A0, B1; lra|].
  destruct (Qlt_le_dec 1 u); [rewrite A1, B0; lra|].
  rewrite Am, Bm; lra.
Qed.

Lemma within1_compat c v w : v == w -> within1 c v -> within1 c w.
Proof. unfold within1. intros E [A B]. split; lra. Qed.
Lemma within1_flip (n c : Z) (v : Q) : within1 c ((1 - v) * inject_Z n) -> within1 (n - c) (v * inject_Z n).
Proof. unfold within1. rewrite inject_Z_sub. intros [A B]. split; lra. Qed.

Definition below (sd : side) (l : list Q) (T : Q) : Z := searchsorted sd l (Fin T).

Section Lift.
  Variable succ pred : Q -> Q.
  Hypothesis Hsucc : forall x, x < succ x.
  Hypothesis Hpred : forall x, pred x < x.
  Notation inv := (inv_incr succ pred).
  Notation tar := (threshold_at_ratio succ pred).

  (* untied: the count of the relevant scores below the returned threshold — with either tie
     convention — is within one sample of the hard target, oriented by the flips *)
  Lemma tar_roundtrip s l u inc rc sd : ssorted l -> (1 <= len l)%Z ->
    let B := below sd l (tar s l u inc rc Linear) in
    within1 (if flipped s inc then len l - B else B)%Z (clip01 u * inject_Z (len l)).
  Proof.
    intros Hss H. cbv zeta. unfold threshold_at_ratio, flipped, below.
    destruct inc, (score_class s); cbn [negb label_eqb xorb reverse_method]; cbv iota beta;
    match goal with |- context [inv l ?t ?c Linear] =>
      destruct (roundtrip_untied succ pred Hsucc Hpred l t c Hss H) as [R1 R2] end.
    - destruct sd; [exact R1|exact R2].
    - apply within1_flip. destruct sd; [apply (within1_compat _ _ _ (Qmult_comp _ _ (clip01_compl u) _ _ (Qeq_refl _)) R1)
                                       |apply (within1_compat _ _ _ (Qmult_comp _ _ (clip01_compl u) _ _ (Qeq_refl _)) R2)].
    - apply within1_flip. destruct sd; [apply (within1_compat _ _ _ (Qmult_comp _ _ (clip01_compl u) _ _ (Qeq_refl _)) R1)
                                       |apply (within1_compat _ _ _ (Qmult_comp _ _ (clip01_compl u) _ _ (Qeq_refl _)) R2)].
    - assert (E : clip01 (1 - (1 - u)) == clip01 u) by (apply clip01_compat; ring).
      destruct sd; [apply (within1_compat _ _ _ (Qmult_comp _ _ E _ _ (Qeq_refl _)) R1)
                   |apply (within1_compat _ _ _ (Qmult_comp _ _ E _ _ (Qeq_refl _)) R2)].
  Qed.

  (* ties allowed: the two one-sided counts bracket the hard target *)
  Lemma tar_bracket s l u inc rc : sorted l -> (1 <= len l)%Z ->
    let T := tar s l u inc rc Linear in
    let v := (if flipped s inc then 1 - clip01 u else clip01 u) * inject_Z (len l) in
    inject_Z (below SLeft l T) - 1 <= v /\ v <= inject_Z (below SRight l T) + 1.
  Proof.
    intros Hs H. cbv zeta. unfold threshold_at_ratio, flipped, below.
    destruct inc, (score_class s); cbn [negb label_eqb xorb reverse_method]; cbv iota beta;
    match goal with |- context [inv l ?t ?c Linear] =>
      destruct (bracket succ pred Hsucc Hpred l t c Hs H) as [R1 R2] end; unfold searchsorted; cbn [lt_ext le_ext].
    - split; assumption.
    - rewrite <- clip01_compl. split; assumption.
    - rewrite <- clip01_compl. split; assumption.
    - assert (E : clip01 (1 - (1 - u)) == clip01 u) by (apply clip01_compat; ring). rewrite <- E. split; assumption.
  Qed.

  (* hard counts of the four class metrics in terms of [below] *)
  Lemma cm_fn s T : cfn (cm s (Fin T)) = (if flipped s true then len (pos s) - below (cm_side s) (pos s) T else below (cm_side s) (pos s) T)%Z.
  Proof. unfold cm, flipped, below. destruct (score_class s); reflexivity. Qed.
  Lemma cm_tp s T : (ctp (cm s (Fin T)) - easy_pos s = if flipped s false then len (pos s) - below (cm_side s) (pos s) T else below (cm_side s) (pos s) T)%Z.
  Proof. unfold cm, flipped, below. destruct (score_class s); cbn [ctp negb xorb label_eqb]; lia. Qed.
  Lemma cm_tn s T : (ctn (cm s (Fin T)) - easy_neg s = if flipped s true then len (neg s) - below (cm_side s) (neg s) T else below (cm_side s) (neg s) T)%Z.
  Proof. unfold cm, flipped, below. destruct (score_class s); cbn [ctn negb xorb label_eqb]; lia. Qed.
  Lemma cm_fp s T : cfp (cm s (Fin T)) = (if flipped s false then len (neg s) - below (cm_side s) (neg s) T else below (cm_side s) (neg s) T)%Z.
  Proof. unfold cm, flipped, below. destruct (score_class s); reflexivity. Qed.

  (* the hard targets handed to _threshold_at_ratio *)
  Definition hard_target_tpr s r := Qmaximum (Qminimum (Qmaximum (r - easy_pos_ratio s) 0 / hard_pos_ratio s) 1) (b2q (Qleb 1 r)).
  Definition hard_target_fnr s r := Qminimum (r / hard_pos_ratio s) 1.
  Definition hard_target_tnr s r := Qmaximum (Qminimum (Qmaximum (r - easy_neg_ratio s) 0 / hard_neg_ratio s) 1) (b2q (Qleb 1 r)).
  Definition hard_target_fpr s r := Qminimum (r / hard_neg_ratio s) 1.

  Theorem roundtrip_fnr s r T : ssorted (pos s) -> threshold_at_fnr succ pred s r Linear = Ret T ->
    within1 (cfn (cm s (Fin T))) (clip01 (hard_target_fnr s r) * inject_Z (len (pos s))).
  Proof.
    intros Hss. unfold threshold_at_fnr. destruct (len (pos s) =? 0)%Z eqn:E; [discriminate|].
    apply Z.eqb_neq in E. pose proof (len_nonneg (pos s)). cbv zeta. intro HT. injection HT as HT. subst T.
    rewrite cm_fn. apply tar_roundtrip; [exact Hss|lia].
  Qed.
  Theorem roundtrip_tpr s r T : ssorted (pos s) -> threshold_at_tpr succ pred s r Linear = Ret T ->
    within1 (ctp (cm s (Fin T)) - easy_pos s) (clip01 (hard_target_tpr s r) * inject_Z (len (pos s))).
  Proof.
    intros Hss. unfold threshold_at_tpr. destruct (len (pos s) =? 0)%Z eqn:E; [discriminate|].
    apply Z.eqb_neq in E. pose proof (len_nonneg (pos s)). cbv zeta. intro HT. injection HT as HT. subst T.
    rewrite cm_tp. apply tar_roundtrip; [exact Hss|lia].
  Qed.
  Theorem roundtrip_tnr s r T : ssorted (neg s) -> threshold_at_tnr succ pred s r Linear = Ret T ->
    within1 (ctn (cm s (Fin T)) - easy_neg s) (clip01 (hard_target_tnr s r) * inject_Z (len (neg s))).
  Proof.
    intros Hss. unfold threshold_at_tnr. destruct (len (neg s) =? 0)%Z eqn:E; [discriminate|].
    apply Z.eqb_neq in E. pose proof (len_nonneg (neg s)). cbv zeta. intro HT. injection HT as HT. subst T.
    rewrite cm_tn. apply tar_roundtrip; [exact Hss|lia].
  Qed.
  Theorem roundtrip_fpr s r T : ssorted (neg s) -> threshold_at_fpr succ pred s r Linear = Ret T ->
    within1 (cfp (cm s (Fin T))) (clip01 (hard_target_fpr s r) * inject_Z (len (neg s))).
  Proof.
    intros Hss. unfold threshold_at_fpr. destruct (len (neg s) =? 0)%Z eqn:E; [discriminate|].
    apply Z.eqb_neq in E. pose proof (len_nonneg (neg s)). cbv zeta. intro HT. injection HT as HT. subst T.
    rewrite cm_fp. apply tar_roundtrip; [exact Hss|lia].
  Qed.
End Lift.

Section LiftConcat.
  Variable succ pred : Q -> Q.
  Hypothesis Hsucc : forall x, x < succ x.
  Hypothesis Hpred : forall x, pred x < x.

  Definition concat_scores (s : scores) : list Q := isort (neg s ++ pos s).
  Lemma below_concat sd s T : below sd (concat_scores s) T = (below sd (neg s) T + below sd (pos s) T)%Z.
  Proof.
    unfold below, concat_scores, searchsorted.
    destruct sd; rewrite <- (count_perm _ _ _ (isort_perm (neg s ++ pos s))), count_app; reflexivity.
  Qed.
  Lemma len_concat_scores s : len (concat_scores s) = (len (neg s) + len (pos s))%Z.
  Proof. unfold concat_scores. rewrite (len_concat s). unfold nb_hard_samples. lia. Qed.

  Lemma cm_top s T : (ctp (cm s (Fin T)) + cfp (cm s (Fin T)) - easy_pos s =
    if flipped s false then len (concat_scores s) - below (cm_side s) (concat_scores s) T else below (cm_side s) (concat_scores s) T)%Z.
  Proof. rewrite below_concat, len_concat_scores. unfold cm, flipped, below. destruct (score_class s); cbn [ctp cfp negb xorb label_eqb]; lia. Qed.
  Lemma cm_ton s T : (cfn (cm s (Fin T)) + ctn (cm s (Fin T)) - easy_neg s =
    if flipped s true then len (concat_scores s) - below (cm_side s) (concat_scores s) T else below (cm_side s) (concat_scores s) T)%Z.
  Proof. rewrite below_concat, len_concat_scores. unfold cm, flipped, below. destruct (score_class s); cbn [cfn ctn negb xorb label_eqb]; lia. Qed.

  Definition hard_target_topr s r :=
    Qmaximum (Qminimum (Qmaximum (r - inject_Z (easy_pos s) / inject_Z (nb_all_samples s)) 0 / hard_ratio s) 1) (b2q (Qleb 1 r)).
  Definition hard_target_tonr s r :=
    Qmaximum (Qminimum (Qmaximum (r - inject_Z (easy_neg s) / inject_Z (nb_all_samples s)) 0 / hard_ratio s) 1) (b2q (Qleb 1 r)).

  Theorem roundtrip_topr s r T : ssorted (concat_scores s) -> threshold_at_topr succ pred s r Linear = Ret T ->
    within1 (ctp (cm s (Fin T)) + cfp (cm s (Fin T)) - easy_pos s) (clip01 (hard_target_topr s r) * inject_Z (len (concat_scores s))).
  Proof.
    intros Hss. unfold threshold_at_topr. cbv zeta. fold (concat_scores s).
    destruct (len (concat_scores s) =? 0)%Z eqn:E; [discriminate|].
    apply Z.eqb_neq in E. pose proof (len_nonneg (concat_scores s)). intro HT. injection HT as HT. subst T.
    rewrite cm_top. apply tar_roundtrip; [exact Hsucc|exact Hpred|exact Hss|lia].
  Qed.
  Theorem roundtrip_tonr s r T : ssorted (concat_scores s) -> threshold_at_tonr succ pred s r Linear = Ret T ->
    within1 (cfn (cm s (Fin T)) + ctn (cm s (Fin T)) - easy_neg s) (clip01 (hard_target_tonr s r) * inject_Z (len (concat_scores s))).
  Proof.
    intros Hss. unfold threshold_at_tonr. cbv zeta. fold (concat_scores s).
    destruct (len (concat_scores s) =? 0)%Z eqn:E; [discriminate|].
    apply Z.eqb_neq in E. pose proof (len_nonneg (concat_scores s)). intro HT. injection HT as HT. subst T.
    rewrite cm_ton. apply tar_roundtrip; [exact Hsucc|exact Hpred|exact Hss|lia].
  Qed.
End LiftConcat.

(* ---------- the hard target in terms of the requested rate (easy samples) ---------- *)
Definition clipQ (lo hi v : Q) : Q := Qmin2 (Qmax2 v lo) hi.
Lemma clipQ_spec lo hi v : lo <= hi ->
  (v <= lo -> clipQ lo hi v == lo) /\ (hi <= v -> clipQ lo hi v == hi) /\ (lo <= v -> v <= hi -> clipQ lo hi v == v).
Proof.
  intro H. unfold clipQ, Qmin2, Qmax2.
  destruct (Qleb v lo) eqn:A; [destruct (Qleb lo hi) eqn:B|destruct (Qleb v hi) eqn:B]; qb; repeat split; intros; lra.
Qed.
Lemma clipQ_compat lo hi a b : lo <= hi -> a == b -> clipQ lo hi a == clipQ lo hi b.
Proof.
  intros H E. destruct (clipQ_spec lo hi a H) as (A0 & A1 & Am), (clipQ_spec lo hi b H) as (B0 & B1 & Bm).
  destruct (Qlt_le_dec a lo); [rewrite A0, B0; lra|].
  destruct (Qlt_le_dec hi a); [rewrite A1, B1; lra|].
  rewrite Am, Bm; lra.
Qed.
Lemma clip01_scale y n : 0 < n -> clip01 y * n == clipQ 0 n (y * n).
Proof.
  intro Hn. destruct (clip01_spec y) as (A0 & A1 & Am & _), (clipQ_spec 0 n (y * n) ltac:(lra)) as (B0 & B1 & Bm).
  destruct (Qlt_le_dec y 0); [rewrite A0, B0; nra|].
  destruct (Qlt_le_dec 1 y); [rewrite A1, B1; nra|].
  rewrite Am, Bm; nra.
Qed.
Lemma pos_ratio_inv s : (1 <= len (pos s))%Z -> (0 <= easy_pos s)%Z ->
  inject_Z (len (pos s)) / hard_pos_ratio s == inject_Z (len (pos s) + easy_pos s).
Proof.
  intros Hn He. unfold hard_pos_ratio. destruct (0 <? easy_pos s)%Z eqn:E.
  - apply Z.ltb_lt in E. rewrite inject_Z_plus.
    assert (1 <= inject_Z (len (pos s))) by (change 1 with (inject_Z 1); rewrite <- Zle_Qle; lia).
    assert (0 < inject_Z (easy_pos s)) by (change 0 with (inject_Z 0); rewrite <- Zlt_Qlt; lia).
    field. split; lra.
  - apply Z.ltb_ge in E. assert (easy_pos s = 0)%Z by lia. rewrite H, Z.add_0_r. field.
Qed.

(* FNR: the false-negative count is within one sample of r * (N + e) clipped to [0, N] *)
Theorem roundtrip_fnr_rate (succ pred : Q -> Q) s r T :
  (forall x, x < succ x) -> (forall x, pred x < x) ->
  ssorted (pos s) -> (0 <= easy_pos s)%Z -> threshold_at_fnr succ pred s r Linear = Ret T ->
  within1 (cfn (cm s (Fin T))) (clipQ 0 (inject_Z (len (pos s))) (r * inject_Z (len (pos s) + easy_pos s))).
Proof.
  intros Hsucc Hpred Hss He HT. pose proof (roundtrip_fnr succ pred Hsucc Hpred s r T Hss HT) as R.
  assert (Hn : (1 <= len (pos s))%Z).
  { unfold threshold_at_fnr in HT. destruct (len (pos s) =? 0)%Z eqn:E; [discriminate|]. apply Z.eqb_neq in E.
    pose proof (len_nonneg (pos s)). lia. }
  destruct (hard_pos_ratio_range s Hn He) as [Hh0 Hh1].
  assert (HN : 0 < inject_Z (len (pos s))) by (change 0 with (inject_Z 0); rewrite <- Zlt_Qlt; lia).
  eapply within1_compat; [|exact R]. unfold hard_target_fnr.
  assert (E1 : clip01 (Qminimum (r / hard_pos_ratio s) 1) == clip01 (r / hard_pos_ratio s)).
  { unfold Qminimum, Qmin2. destruct (Qleb (r / hard_pos_ratio s) 1) eqn:A; [reflexivity|]. qb.
    destruct (clip01_spec 1) as (_ & A1 & _), (clip01_spec (r / hard_pos_ratio s)) as (_ & B1 & _). rewrite A1, B1; lra. }
  rewrite E1, clip01_scale by exact HN.
  assert (E2 : r / hard_pos_ratio s * inject_Z (len (pos s)) == r * inject_Z (len (pos s) + easy_pos s)).
  { rewrite <- (pos_ratio_inv s Hn He). field. lra. }
  apply clipQ_compat; [lra|exact E2].
Qed.

(* the threshold returned by _threshold_at_ratio is monotone in the target: non-decreasing for an
   increasing metric, non-increasing once the direction is flipped *)
Theorem tar_monotone (succ pred : Q -> Q) s l u u' inc rc m :
  (forall x, x < succ x) -> (forall x, pred x < x) -> sorted l -> (1 <= len l)%Z -> u <= u' ->
  if flipped s inc then threshold_at_ratio succ pred s l u' inc rc m <= threshold_at_ratio succ pred s l u inc rc m
  else threshold_at_ratio succ pred s l u inc rc m <= threshold_at_ratio succ pred s l u' inc rc m.
Proof.
  intros Hsucc Hpred Hs H Hu. unfold threshold_at_ratio, flipped.
  destruct inc, (score_class s); cbn [negb label_eqb xorb]; cbv iota beta;
    apply (inv_monotone succ pred Hsucc Hpred); try assumption; lra.
Qed.

(* ---------- explicit form of the rescaled targets for the metrics that subtract an easy share ---------- *)
Lemma clip01_min1 y : clip01 (Qmin2 y 1) == clip01 y.
Proof.
  unfold Qmin2. destruct (Qleb y 1) eqn:A; [reflexivity|]. qb.
  destruct (clip01_spec 1) as (_ & A1 & _), (clip01_spec y) as (_ & B1 & _). rewrite A1, B1; lra.
Qed.

Lemma hard_target_sub_spec r er h : 0 < h -> h <= 1 -> er <= 1 - h ->
  clip01 (Qmaximum (Qminimum (Qmaximum (r - er) 0 / h) 1) (b2q (Qleb 1 r))) == clip01 ((r - er) / h).
Proof.
  intros Hh Hh1 Her. unfold Qmaximum, Qminimum.
  destruct (Qleb 1 r) eqn:R; unfold b2q; qb.
  - (* r >= 1: both sides clip to 1 *)
    assert (Y : 1 <= (r - er) / h) by (apply Qle_shift_div_l; lra).
    assert (X : 1 <= Qmax2 (Qmin2 (Qmax2 (r - er) 0 / h) 1) 1) by apply Qmax2_ge_r.
    destruct (clip01_spec ((r - er) / h)) as (_ & A1 & _), (clip01_spec (Qmax2 (Qmin2 (Qmax2 (r - er) 0 / h) 1) 1)) as (_ & B1 & _).
    rewrite A1, B1; lra.
  - destruct (Qlt_le_dec 0 (r - er)) as [P|P].
    + assert (E1 : Qmax2 (r - er) 0 == r - er) by (unfold Qmax2; destruct (Qleb (r - er) 0) eqn:K; qb; lra).
      assert (Ypos : 0 < (r - er) / h) by (apply Qlt_shift_div_l; lra).
      assert (E2 : Qmax2 (r - er) 0 / h == (r - er) / h) by (rewrite E1; reflexivity).
      set (y := (r - er) / h) in *.
      assert (E3 : Qmin2 (Qmax2 (r - er) 0 / h) 1 == Qmin2 y 1).
      { unfold Qmin2. destruct (Qleb (Qmax2 (r - er) 0 / h) 1) eqn:K1, (Qleb y 1) eqn:K2; qb; lra. }
      assert (E4 : 0 < Qmin2 y 1) by (unfold Qmin2; destruct (Qleb y 1); lra).
      assert (E5 : Qmax2 (Qmin2 (Qmax2 (r - er) 0 / h) 1) 0 == Qmin2 y 1).
      { unfold Qmax2 at 1. destruct (Qleb (Qmin2 (Qmax2 (r - er) 0 / h) 1) 0) eqn:K; qb; lra. }
      rewrite (clip01_compat _ _ E5). apply clip01_min1.
    + assert (E1 : Qmax2 (r - er) 0 == 0) by (unfold Qmax2; destruct (Qleb (r - er) 0) eqn:K; qb; lra).
      assert (E2 : Qmax2 (r - er) 0 / h == 0) by (rewrite E1; unfold Qdiv; ring).
      assert (E3 : Qmin2 (Qmax2 (r - er) 0 / h) 1 == 0) by (unfold Qmin2; destruct (Qleb (Qmax2 (r - er) 0 / h) 1) eqn:K; qb; lra).
      assert (E4 : Qmax2 (Qmin2 (Qmax2 (r - er) 0 / h) 1) 0 == 0) by (unfold Qmax2 at 1; destruct (Qleb (Qmin2 (Qmax2 (r - er) 0 / h) 1) 0) eqn:K; qb; lra).
      assert (Y : (r - er) / h <= 0) by (apply Qle_shift_div_r; lra).
      destruct (clip01_spec ((r - er) / h)) as (A0 & _), (clip01_spec 0) as (B0 & _).
      rewrite (clip01_compat _ _ E4), A0, B0; lra.
Qed.

Lemma neg_ratio_inv' s : (1 <= len (neg s))%Z -> (0 <= easy_neg s)%Z ->
  inject_Z (len (neg s)) / hard_neg_ratio s == inject_Z (len (neg s) + easy_neg s).
Proof.
  intros Hn He. unfold hard_neg_ratio. destruct (0 <? easy_neg s)%Z eqn:E.
  - apply Z.ltb_lt in E. rewrite inject_Z_plus.
    assert (1 <= inject_Z (len (neg s))) by (change 1 with (inject_Z 1); rewrite <- Zle_Qle; lia).
    assert (0 < inject_Z (easy_neg s)) by (change 0 with (inject_Z 0); rewrite <- Zlt_Qlt; lia).
    field. split; lra.
  - apply Z.ltb_ge in E. assert (easy_neg s = 0)%Z by lia. rewrite H, Z.add_0_r. field.
Qed.

(* TPR: the true-positive count is within one sample of r * (N + e) clipped to the achievable range [e, N + e] *)
Theorem roundtrip_tpr_rate (succ pred : Q -> Q) s r T :
  (forall x, x < succ x) -> (forall x, pred x < x) ->
  ssorted (pos s) -> (0 <= easy_pos s)%Z -> threshold_at_tpr succ pred s r Linear = Ret T ->
  within1 (ctp (cm s (Fin T)) - easy_pos s)
          (clipQ 0 (inject_Z (len (pos s))) (r * inject_Z (len (pos s) + easy_pos s) - inject_Z (easy_pos s))).
Proof.
  intros Hsucc Hpred Hss He HT. pose proof (roundtrip_tpr succ pred Hsucc Hpred s r T Hss HT) as R.
  assert (Hn : (1 <= len (pos s))%Z).
  { unfold threshold_at_tpr in HT. destruct (len (pos s) =? 0)%Z eqn:E; [discriminate|]. apply Z.eqb_neq in E.
    pose proof (len_nonneg (pos s)). lia. }
  destruct (hard_pos_ratio_range s Hn He) as [Hh0 Hh1].
  assert (HN : 0 < inject_Z (len (pos s))) by (change 0 with (inject_Z 0); rewrite <- Zlt_Qlt; lia).
  eapply within1_compat; [|exact R]. unfold hard_target_tpr.
  rewrite (hard_target_sub_spec r (easy_pos_ratio s) (hard_pos_ratio s) Hh0 Hh1) by (unfold easy_pos_ratio; lra).
  rewrite clip01_scale by exact HN. apply clipQ_compat; [lra|].
  pose proof (pos_ratio_inv s Hn He) as Hinv. unfold easy_pos_ratio.
  assert (E : (r - (1 - hard_pos_ratio s)) / hard_pos_ratio s * inject_Z (len (pos s))
              == (r - 1) * (inject_Z (len (pos s)) / hard_pos_ratio s) + inject_Z (len (pos s))) by (field; lra).
  rewrite E, Hinv, inject_Z_plus. ring.
Qed.

(* TNR: symmetric on the negatives *)
Theorem roundtrip_tnr_rate (succ pred : Q -> Q) s r T :
  (forall x, x < succ x) -> (forall x, pred x < x) ->
  ssorted (neg s) -> (0 <= easy_neg s)%Z -> threshold_at_tnr succ pred s r Linear = Ret T ->
  within1 (ctn (cm s (Fin T)) - easy_neg s)
          (clipQ 0 (inject_Z (len (neg s))) (r * inject_Z (len (neg s) + easy_neg s) - inject_Z (easy_neg s))).
Proof.
  intros Hsucc Hpred Hss He HT. pose proof (roundtrip_tnr succ pred Hsucc Hpred s r T Hss HT) as R.
  assert (Hn : (1 <= len (neg s))%Z).
  { unfold threshold_at_tnr in HT. destruct (len (neg s) =? 0)%Z eqn:E; [discriminate|]. apply Z.eqb_neq in E.
    pose proof (len_nonneg (neg s)). lia. }
  destruct (hard_neg_ratio_range s Hn He) as [Hh0 Hh1].
  assert (HN : 0 < inject_Z (len (neg s))) by (change 0 with (inject_Z 0); rewrite <- Zlt_Qlt; lia).
  eapply within1_compat; [|exact R]. unfold hard_target_tnr.
  rewrite (hard_target_sub_spec r (easy_neg_ratio s) (hard_neg_ratio s) Hh0 Hh1) by (unfold easy_neg_ratio; lra).
  rewrite clip01_scale by exact HN. apply clipQ_compat; [lra|].
  pose proof (neg_ratio_inv' s Hn He) as Hinv. unfold easy_neg_ratio.
  assert (E : (r - (1 - hard_neg_ratio s)) / hard_neg_ratio s * inject_Z (len (neg s))
              == (r - 1) * (inject_Z (len (neg s)) / hard_neg_ratio s) + inject_Z (len (neg s))) by (field; lra).
  rewrite E, Hinv, inject_Z_plus. ring.
Qed.

(* FPR: like FNR on the negatives *)
Theorem roundtrip_fpr_rate (succ pred : Q -> Q) s r T :
  (forall x, x < succ x) -> (forall x, pred x < x) ->
  ssorted (neg s) -> (0 <= easy_neg s)%Z -> threshold_at_fpr succ pred s r Linear = Ret T ->
  within1 (cfp (cm s (Fin T))) (clipQ 0 (inject_Z (len (neg s))) (r * inject_Z (len (neg s) + easy_neg s))).
Proof.
  intros Hsucc Hpred Hss He HT. pose proof (roundtrip_fpr succ pred Hsucc Hpred s r T Hss HT) as R.
  assert (Hn : (1 <= len (neg s))%Z).
  { unfold threshold_at_fpr in HT. destruct (len (neg s) =? 0)%Z eqn:E; [discriminate|]. apply Z.eqb_neq in E.
    pose proof (len_nonneg (neg s)). lia. }
  destruct (hard_neg_ratio_range s Hn He) as [Hh0 Hh1].
  assert (HN : 0 < inject_Z (len (neg s))) by (change 0 with (inject_Z 0); rewrite <- Zlt_Qlt; lia).
  eapply within1_compat; [|exact R]. unfold hard_target_fpr, Qminimum.
  rewrite clip01_min1, clip01_scale by exact HN. apply clipQ_compat; [lra|].
  rewrite <- (neg_ratio_inv' s Hn He). field. lra.
Qed.

(* ---------- TOPR / TONR: explicit form ---------- *)
Lemma all_samples_pos s : (1 <= nb_hard_samples s)%Z -> (0 <= easy_pos s)%Z -> (0 <= easy_neg s)%Z ->
  0 < inject_Z (nb_all_samples s).
Proof. intros. change 0 with (inject_Z 0). rewrite <- Zlt_Qlt. unfold nb_all_samples, nb_easy_samples. lia. Qed.

Lemma concat_ratio_inv s : (1 <= nb_hard_samples s)%Z -> (0 <= easy_pos s)%Z -> (0 <= easy_neg s)%Z ->
  inject_Z (nb_hard_samples s) / hard_ratio s == inject_Z (nb_all_samples s).
Proof.
  intros Hh Hp Hn. unfold hard_ratio, easy_ratio, nb_all_samples.
  assert (Hq : 1 <= inject_Z (nb_hard_samples s)) by (change 1 with (inject_Z 1); rewrite <- Zle_Qle; lia).
  destruct (0 <? nb_easy_samples s)%Z eqn:E.
  - apply Z.ltb_lt in E. rewrite inject_Z_plus.
    assert (0 < inject_Z (nb_easy_samples s)) by (change 0 with (inject_Z 0); rewrite <- Zlt_Qlt; lia).
    field. split; lra.
  - apply Z.ltb_ge in E. assert (nb_easy_samples s = 0)%Z by (unfold nb_easy_samples in *; lia).
    rewrite H, Z.add_0_l. field.
Qed.

Lemma easy_share_le s (e : Z) : (1 <= nb_hard_samples s)%Z -> (0 <= easy_pos s)%Z -> (0 <= easy_neg s)%Z ->
  (0 <= e <= nb_easy_samples s)%Z -> inject_Z e / inject_Z (nb_all_samples s) <= 1 - hard_ratio s.
Proof.
  intros Hh Hp Hn He. pose proof (all_samples_pos s Hh Hp Hn) as Ha. unfold hard_ratio, easy_ratio.
  destruct (0 <? nb_easy_samples s)%Z eqn:E.
  - assert (inject_Z e <= inject_Z (nb_easy_samples s)) by (rewrite <- Zle_Qle; lia).
    assert (inject_Z e / inject_Z (nb_all_samples s) <= inject_Z (nb_easy_samples s) / inject_Z (nb_all_samples s)).
    { apply Qle_shift_div_l; [exact Ha|]. unfold Qdiv. rewrite <- Qmult_assoc, (Qmult_comm (/ _)), Qmult_inv_r by lra. lra. }
    lra.
  - apply Z.ltb_ge in E. assert (e = 0)%Z by lia. subst e. unfold Qdiv. change (inject_Z 0) with 0. lra.
Qed.

Theorem roundtrip_topr_rate (succ pred : Q -> Q) s r T :
  (forall x, x < succ x) -> (forall x, pred x < x) ->
  ssorted (concat_scores s) -> (0 <= easy_pos s)%Z -> (0 <= easy_neg s)%Z ->
  threshold_at_topr succ pred s r Linear = Ret T ->
  within1 (ctp (cm s (Fin T)) + cfp (cm s (Fin T)) - easy_pos s)
          (clipQ 0 (inject_Z (nb_hard_samples s)) (r * inject_Z (nb_all_samples s) - inject_Z (easy_pos s))).
Proof.
  intros Hsucc Hpred Hss Hp Hn HT. pose proof (roundtrip_topr succ pred Hsucc Hpred s r T Hss HT) as R.
  assert (Hh : (1 <= nb_hard_samples s)%Z).
  { unfold threshold_at_topr in HT. cbv zeta in HT. rewrite (len_concat s) in HT.
    destruct (nb_hard_samples s =? 0)%Z eqn:E; [discriminate|]. apply Z.eqb_neq in E.
    unfold nb_hard_samples in *. pose proof (len_nonneg (pos s)). pose proof (len_nonneg (neg s)). lia. }
  destruct (hard_ratio_range s Hh Hp Hn) as [Hh0 Hh1]. pose proof (all_samples_pos s Hh Hp Hn) as Ha.
  assert (EL : len (concat_scores s) = nb_hard_samples s) by apply len_concat.
  rewrite EL in R.
  assert (HN : 0 < inject_Z (nb_hard_samples s)) by (change 0 with (inject_Z 0); rewrite <- Zlt_Qlt; lia).
  eapply within1_compat; [|exact R]. unfold hard_target_topr.
  rewrite (hard_target_sub_spec r _ (hard_ratio s) Hh0 Hh1)
    by (apply easy_share_le; try assumption; unfold nb_easy_samples; lia).
  rewrite clip01_scale by exact HN. apply clipQ_compat; [lra|].
  pose proof (concat_ratio_inv s Hh Hp Hn) as Hinv.
  set (q := inject_Z (easy_pos s) / inject_Z (nb_all_samples s)).
  assert (E : (r - q) / hard_ratio s * inject_Z (nb_hard_samples s) == (r - q) * (inject_Z (nb_hard_samples s) / hard_ratio s)) by (field; lra).
  rewrite E, Hinv. unfold q. field. lra.
Qed.

Theorem roundtrip_tonr_rate (succ pred : Q -> Q) s r T :
  (forall x, x < succ x) -> (forall x, pred x < x) ->
  ssorted (concat_scores s) -> (0 <= easy_pos s)%Z -> (0 <= easy_neg s)%Z ->
  threshold_at_tonr succ pred s r Linear = Ret T ->
  within1 (cfn (cm s (Fin T)) + ctn (cm s (Fin T)) - easy_neg s)
          (clipQ 0 (inject_Z (nb_hard_samples s)) (r * inject_Z (nb_all_samples s) - inject_Z (easy_neg s))).
Proof.
  intros Hsucc Hpred Hss Hp Hn HT. pose proof (roundtrip_tonr succ pred Hsucc Hpred s r T Hss HT) as R.
  assert (Hh : (1 <= nb_hard_samples s)%Z).
  { unfold threshold_at_tonr in HT. cbv zeta in HT. rewrite (len_concat s) in HT.
    destruct (nb_hard_samples s =? 0)%Z eqn:E; [discriminate|]. apply Z.eqb_neq in E.
    unfold nb_hard_samples in *. pose proof (len_nonneg (pos s)). pose proof (len_nonneg (neg s)). lia. }
  destruct (hard_ratio_range s Hh Hp Hn) as [Hh0 Hh1]. pose proof (all_samples_pos s Hh Hp Hn) as Ha.
  assert (EL : len (concat_scores s) = nb_hard_samples s) by apply len_concat.
  rewrite EL in R.
  assert (HN : 0 < inject_Z (nb_hard_samples s)) by (change 0 with (inject_Z 0); rewrite <- Zlt_Qlt; lia).
  eapply within1_compat; [|exact R]. unfold hard_target_tonr.
  rewrite (hard_target_sub_spec r _ (hard_ratio s) Hh0 Hh1)
    by (apply easy_share_le; try assumption; unfold nb_easy_samples; lia).
  rewrite clip01_scale by exact HN. apply clipQ_compat; [lra|].
  pose proof (concat_ratio_inv s Hh Hp Hn) as Hinv.
  set (q := inject_Z (easy_neg s) / inject_Z (nb_all_samples s)).
  assert (E : (r - q) / hard_ratio s * inject_Z (nb_hard_samples s) == (r - q) * (inject_Z (nb_hard_samples s) / hard_ratio s)) by (field; lra).
  rewrite E, Hinv. unfold q. field. lra.
Qed.
