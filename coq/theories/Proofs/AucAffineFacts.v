(* Proofs/AucAffineFacts.v — C08: auc(lower, upper, x_axis, y_axis) — partial windows and every pair of axes —
   is unchanged (Leibniz equal) under an increasing affine map of the scores that commutes with np.nextafter on the
   object's scores (commutes_on: power-of-two scalings of normal binary64 scores, integer translations).
   The evaluation points of the mapped object are the mapped evaluation points (up to ==), the confusion matrix
   at a mapped point is the confusion matrix at the point, hence both rate vectors are the same lists, and
   everything downstream of them (reversal test, the two searchsorted, clamps, slices, trapezoid) is the same term. *)
From SA Require Import Model.Auc Model.Symmetry Proofs.EerEquivarianceFacts.
Open Scope Q_scope.

Section AucAffine.
  Variable succ pred : Q -> Q.
  Variables a b : Q.
  Notation f := (fun x => a * x + b).
  Variables s s' : scores.
  Hypothesis Hpos : pos s' = map f (pos s).
  Hypothesis Hneg : neg s' = map f (neg s).
  Hypothesis Hep : easy_pos s' = easy_pos s.
  Hypothesis Hen : easy_neg s' = easy_neg s.
  Hypothesis Hsc : score_class s' = score_class s.
  Hypothesis Hec : equal_class s' = equal_class s.
  Hypothesis Hcomm : commutes_on succ pred a b (pos s ++ neg s).
  Hypothesis a_pos : 0 < a.

  Definition R (p' p : Q) : Prop := p' == f p.

  Lemma Qleb_R x' x y' y : R x' x -> R y' y -> Qleb x' y' = Qleb x y.
  Proof. unfold R. intros A B. destruct (Qleb x y) eqn:E; qb; nra. Qed.
  Lemma Qltb_R x' x y' y : R x' x -> R y' y -> Qltb x' y' = Qltb x y.
  Proof. unfold R. intros A B. destruct (Qltb x y) eqn:E; qb; nra. Qed.

  Lemma insert_R x' x l' l : R x' x -> Forall2 R l' l -> Forall2 R (insert x' l') (insert x l).
  Proof.
    intros Hx H. induction H as [|y' y r' r Hy Hr IH]; cbn [insert]; [constructor; [exact Hx|constructor]|].
    rewrite (Qleb_R _ _ _ _ Hx Hy). destruct (Qleb x y).
    - constructor; [exact Hx|]. constructor; assumption.
    - constructor; assumption.
  Qed.
  Lemma isort_R l' l : Forall2 R l' l -> Forall2 R (isort l') (isort l).
  Proof. induction 1 as [|x' x r' r Hx Hr IH]; cbn [isort]; [constructor|]. apply insert_R; assumption. Qed.

  Lemma map_pred_R l : commutes_on succ pred a b l -> Forall2 R (map pred (map f l)) (map pred l).
  Proof.
    induction l as [|x r IH]; intro H; cbn [map]; [constructor|]. constructor.
    - unfold R. apply (H x). now left.
    - apply IH. intros y Hy. apply H. now right.
  Qed.
  Lemma map_succ_R l : commutes_on succ pred a b l -> Forall2 R (map succ (map f l)) (map succ l).
  Proof.
    induction l as [|x r IH]; intro H; cbn [map]; [constructor|]. constructor.
    - unfold R. apply (H x). now left.
    - apply IH. intros y Hy. apply H. now right.
  Qed.

  Lemma points_R : Forall2 R (auc_points succ pred s') (auc_points succ pred s).
  Proof.
    unfold auc_points. cbv zeta. rewrite Hpos, Hneg, <- map_app. apply isort_R.
    apply Forall2_app; [apply map_pred_R|apply map_succ_R]; exact Hcomm.
  Qed.

  Lemma ss_R sd l t' t : R t' t -> searchsorted sd (map f l) (Fin t') = searchsorted sd l (Fin t).
  Proof.
    intro Ht. unfold searchsorted. destruct sd; rewrite count_map; apply count_ext; intros x _; cbn [lt_ext le_ext].
    - apply Qltb_R; [unfold R; reflexivity|exact Ht].
    - apply Qleb_R; [unfold R; reflexivity|exact Ht].
  Qed.

  Lemma cm_R t' t : R t' t -> cm s' (Fin t') = cm s (Fin t).
  Proof.
    intro Ht. unfold cm, cm_side. rewrite Hsc, Hec, Hep, Hen, Hpos, Hneg, !len_map.
    rewrite !(ss_R _ _ t' t Ht). reflexivity.
  Qed.

  Lemma axis_R ax t' t : R t' t -> axis_at ax s' t' = axis_at ax s t.
  Proof.
    intro Ht. unfold axis_at, s_fpr, s_tpr, s_fnr, s_tnr, s_topr, s_tonr. rewrite (cm_R t' t Ht). reflexivity.
  Qed.

  Lemma map_axis_R ax l' l : Forall2 R l' l -> map (axis_at ax s') l' = map (axis_at ax s) l.
  Proof. induction 1 as [|x' x r' r Hx Hr IH]; cbn [map]; [reflexivity|]. now rewrite (axis_R ax _ _ Hx), IH. Qed.

  (* every window, every pair of axes *)
  Theorem auc_affine_full lower upper xa ya :
    auc succ pred s' lower upper xa ya = auc succ pred s lower upper xa ya.
  Proof.
    unfold auc. cbv zeta.
    rewrite (map_axis_R xa _ _ points_R), (map_axis_R ya _ _ points_R). reflexivity.
  Qed.
End AucAffine.

Theorem auc_affine_scores succ pred a b s lower upper xa ya : 0 < a -> wf s ->
  commutes_on succ pred a b (pos s ++ neg s) ->
  auc succ pred (affine_scores a b s) lower upper xa ya = auc succ pred s lower upper xa ya.
Proof.
  intros Ha Hw Hc. destruct (affine_scores_fields a b s Ha Hw) as [P N].
  apply (auc_affine_full succ pred a b s (affine_scores a b s) P N); try reflexivity; assumption.
Qed.
