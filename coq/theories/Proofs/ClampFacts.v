(* Proofs/ClampFacts.v — the integration window of Scores.auc on an axis-parallel polyline equals the
   trapezoid sum over ALL vertices with the abscissae clamped to [lo, up] (DESIGN A.3,
   cut_extension_eq_step). *)
From SA Require Import Model.Auc Proofs.SentinelFacts Proofs.TrapzFacts Proofs.WindowFacts.
Open Scope Q_scope.

(* ---------- the window on an axis-parallel polyline = trapezoid sum over ALL vertices with the
   abscissae clamped to [lo, up] (DESIGN A.3 cut_extension_eq_step) ---------- *)
Definition clampQ (lo up u : Q) : Q := Qmin2 (Qmax2 u lo) up.
Lemma clampQ_spec lo up u : lo <= up ->
  (u <= lo /\ clampQ lo up u == lo) \/ (lo <= u <= up /\ clampQ lo up u == u) \/ (up <= u /\ clampQ lo up u == up).
Proof.
  intros H. unfold clampQ, Qmin2, Qmax2.
  destruct (Qleb u lo) eqn:E1; qb.
  - rewrite (proj2 (Qleb_le lo up) H). left. split; [exact E1|reflexivity].
  - destruct (Qleb u up) eqn:E2; qb; [right; left|right; right]; (split; [lra|reflexivity]).
Qed.
Lemma clampQ_compat lo up u v : u == v -> clampQ lo up u == clampQ lo up v.
Proof.
  intros E. unfold clampQ, Qmin2, Qmax2.
  destruct (Qleb u lo) eqn:E1, (Qleb v lo) eqn:E2; qb; try lra;
  try (destruct (Qleb lo up); lra);
  destruct (Qleb u up) eqn:E3, (Qleb v up) eqn:E4; qb; lra.
Qed.

(* every edge is horizontal or vertical *)
Inductive axpar : list Q -> list Q -> Prop :=
| axpar_nil : axpar [] []
| axpar_one x y : axpar [x] [y]
| axpar_cons x0 x1 xr y0 y1 yr :
    x0 == x1 \/ y0 == y1 -> axpar (x1 :: xr) (y1 :: yr) -> axpar (x0 :: x1 :: xr) (y0 :: y1 :: yr).

Lemma trapz_const_x c ys : forall xs, Forall (fun v => v == c) xs -> trapz ys xs == 0.
Proof.
  induction ys as [|y0 [|y1 yr] IH]; intros [|x0 [|x1 xr]] H; try reflexivity.
  rewrite trapz_cons2. inversion H as [|? ? H0 H']; subst. inversion H' as [|? ? H1 _]; subst.
  rewrite (IH (x1 :: xr) H'), H0, H1. lra.
Qed.

Lemma nthZ_cons_S a (l : list Q) i : (0 <= i)%Z -> nthZ (a :: l) (1 + i) = nthZ l i.
Proof. intros H. unfold nthZ. replace (Z.to_nat (1 + i)) with (S (Z.to_nat i)) by lia. reflexivity. Qed.
Lemma slice_cons_S {A} (a : A) l i j : (0 <= i)%Z -> slice (a :: l) (1 + i) (1 + j) = slice l i j.
Proof.
  intros H. unfold slice. replace (Z.to_nat (1 + i)) with (S (Z.to_nat i)) by lia.
  replace (1 + j - (1 + i))%Z with (j - i)%Z by lia. reflexivity.
Qed.
Lemma slice_cons_0 {A} (a : A) l j : (0 <= j)%Z -> slice (a :: l) 0 (1 + j) = a :: slice l 0 j.
Proof.
  intros H. unfold slice. rewrite !Z.sub_0_r. replace (Z.to_nat (1 + j)) with (S (Z.to_nat j)) by lia. reflexivity.
Qed.

Lemma sorted_head_le (x : Q) l : sorted (x :: l) -> Forall (fun v => x <= v) l.
Proof. intros H. inversion H; subst. assumption. Qed.
Lemma count_lt_above lo (l : list Q) : Forall (fun v => lo <= v) l -> count (fun v => Qltb v lo) l = 0%Z.
Proof. intros H. apply count_none. eapply Forall_impl; [|exact H]. simpl. intros; qb; lra. Qed.
Lemma count_le_above up (l : list Q) : Forall (fun v => up < v) l -> count (fun v => Qleb v up) l = 0%Z.
Proof. intros H. apply count_none. eapply Forall_impl; [|exact H]. simpl. intros; qb; lra. Qed.

(* only one vertex kept, at index 0 *)
Lemma window_first x0 X' y0 Y' lo up :
  wleft (x0 :: X') (y0 :: Y') lo = 0%Z -> wright (x0 :: X') up = 1%Z ->
  window (x0 :: X') (y0 :: Y') lo up == (up - lo) * y0.
Proof.
  intros El Er. unfold window. cbv zeta. rewrite El, Er.
  change 1%Z with (0 + 1)%Z at 1 3. rewrite !slice_single by (rewrite len_cons; pose proof (len_nonneg X'); pose proof (len_nonneg Y'); lia).
  replace (0 + 1 - 1)%Z with 0%Z by lia. unfold nthZ. simpl. lra.
Qed.

(* a vertex left of the window that is not the last one is dropped *)
Lemma window_drop x0 X' y0 Y' lo up :
  x0 < lo -> lo <= up -> (1 <= count (fun v => Qleb v up) X')%Z -> (1 <= len Y')%Z ->
  window (x0 :: X') (y0 :: Y') lo up = window X' Y' lo up.
Proof.
  intros H0 Hlu Hc HY. unfold window. cbv zeta.
  assert (El : wleft (x0 :: X') (y0 :: Y') lo = (1 + wleft X' Y' lo)%Z).
  { unfold wleft. cbn [count]. rewrite (proj2 (Qltb_lt x0 lo) H0), len_cons. lia. }
  assert (Er : wright (x0 :: X') up = (1 + wright X' up)%Z).
  { unfold wright. cbn [count]. assert (E : Qleb x0 up = true) by (qb; lra). rewrite E. lia. }
  assert (Hl : (0 <= wleft X' Y' lo)%Z) by (apply wleft_range; lia).
  assert (Hr : (1 <= wright X' up)%Z) by (unfold wright; lia).
  rewrite El, Er. rewrite !slice_cons_S by lia. rewrite nthZ_cons_S by lia.
  replace (1 + wright X' up - 1)%Z with (1 + (wright X' up - 1))%Z by lia.
  rewrite nthZ_cons_S by lia. reflexivity.
Qed.

(* two consecutive vertices inside the window *)
Lemma window_peel x0 x1 xr y0 y1 yr lo up :
  sorted (x0 :: x1 :: xr) -> lo <= x0 -> x1 <= up ->
  window (x0 :: x1 :: xr) (y0 :: y1 :: yr) lo up ==
  (x0 - lo) * y0 + (x1 - x0) * (y0 + y1) * (1#2) - (x1 - lo) * y1 + window (x1 :: xr) (y1 :: yr) lo up.
Proof.
  intros Hs H0 H1. unfold window. cbv zeta.
  pose proof (sorted_head_le _ _ Hs) as Hall. inversion Hall as [|? ? H01 _]; subst.
  assert (Cl : count (fun v => Qltb v lo) (x0 :: x1 :: xr) = 0%Z).
  { apply count_lt_above. constructor; [exact H0|]. eapply Forall_impl; [|exact Hall]. simpl. intros. lra. }
  assert (Cl' : count (fun v => Qltb v lo) (x1 :: xr) = 0%Z).
  { apply count_lt_above. eapply Forall_impl; [|exact Hall]. simpl. intros. lra. }
  set (cr := count (fun v => Qleb v up) xr).
  assert (Hcr : (0 <= cr)%Z) by apply count_nonneg.
  assert (Cr' : count (fun v => Qleb v up) (x1 :: xr) = (1 + cr)%Z).
  { cbn [count]. fold cr. now rewrite (proj2 (Qleb_le x1 up) H1). }
  assert (Cr : count (fun v => Qleb v up) (x0 :: x1 :: xr) = (1 + (1 + cr))%Z).
  { change (count (fun v => Qleb v up) (x0 :: x1 :: xr)) with ((if Qleb x0 up then 1 else 0) + count (fun v => Qleb v up) (x1 :: xr))%Z.
    rewrite Cr'. assert (E : Qleb x0 up = true) by (qb; lra). now rewrite E. }
  unfold wleft, wright. rewrite Cl, Cl', Cr, Cr'. rewrite !len_cons.
  pose proof (len_nonneg yr).
  replace (Z.min 0 (1 + (1 + len yr) - 1)) with 0%Z by lia.
  replace (Z.min 0 (1 + len yr - 1)) with 0%Z by lia.
  replace (Z.max (1 + (1 + cr)) 1) with (1 + (1 + cr))%Z by lia.
  replace (Z.max (1 + cr) 1) with (1 + cr)%Z by lia.
  rewrite !slice_cons_0 by lia.
  replace (1 + (1 + cr) - 1)%Z with (1 + (1 + cr - 1))%Z by lia.
  rewrite (nthZ_cons_S y0 (y1 :: yr)) by lia.
  unfold nthZ at 1 3. cbn [Z.to_nat nth app].
  rewrite !trapz_cons2. lra.
Qed.

Lemma window_clamp X : forall Y lo up,
  sorted X -> axpar X Y -> X <> [] -> lo <= up ->
  window X Y lo up == trapz ([hd 0 Y] ++ Y ++ [last Y 0]) ([lo] ++ map (clampQ lo up) X ++ [up]).
Proof.
  induction X as [|x0 [|x1 xr] IH]; intros Y lo up Hs Hax Hne Hlu; [congruence| |].
  - (* a single vertex *)
    inversion Hax; subst.
    rewrite window_first.
    + cbn [hd last map app]. rewrite !trapz_cons2. simpl. lra.
    + unfold wleft. rewrite len_cons. change (len (@nil Q)) with 0%Z. pose proof (count_nonneg (fun v => Qltb v lo) [x0]). lia.
    + unfold wright. pose proof (count_le_len (fun v => Qleb v up) [x0]). rewrite len_cons in H. change (len (@nil Q)) with 0%Z in H. lia.
  - inversion Hax as [| |? ? ? y0 y1 yr Hstep Hax']; subst.
    pose proof (sorted_head_le _ _ Hs) as Hall. inversion Hall as [|? ? H01 Hall0]; subst.
    assert (Hs' : sorted (x1 :: xr)) by (inversion Hs; assumption).
    pose proof (sorted_head_le _ _ Hs') as Hall1.
    specialize (IH (y1 :: yr) lo up Hs' Hax' ltac:(discriminate) Hlu).
    (* the right-hand side, one step unfolded *)
    assert (RHS : trapz ([hd 0 (y0 :: y1 :: yr)] ++ (y0 :: y1 :: yr) ++ [last (y0 :: y1 :: yr) 0])
                        ([lo] ++ map (clampQ lo up) (x0 :: x1 :: xr) ++ [up]) ==
                  (clampQ lo up x0 - lo) * y0 + (clampQ lo up x1 - clampQ lo up x0) * (y0 + y1) * (1#2)
                  - (clampQ lo up x1 - lo) * y1
                  + trapz ([hd 0 (y1 :: yr)] ++ (y1 :: yr) ++ [last (y1 :: yr) 0]) ([lo] ++ map (clampQ lo up) (x1 :: xr) ++ [up])).
    { change (last (y0 :: y1 :: yr) 0) with (last (y1 :: yr) 0). cbn [hd map app].
      rewrite !trapz_cons2. lra. }
    rewrite RHS, <- IH. clear RHS IH.
    pose proof (clampQ_spec lo up x0 Hlu) as S0. pose proof (clampQ_spec lo up x1 Hlu) as S1.
    set (c0 := clampQ lo up x0) in *. set (c1 := clampQ lo up x1) in *.
    pose proof (len_nonneg yr) as Hyr.
    destruct (Qlt_le_dec up x1) as [U1|U1]; destruct (Qlt_le_dec x0 lo) as [L0|L0].
    + (* x0 < lo, up < x1: the slice is empty *)
      assert (C1 : count (fun v => Qleb v up) (x1 :: xr) = 0%Z).
      { apply count_le_above. constructor; [exact U1|]. eapply Forall_impl; [|exact Hall1]. simpl. intros. lra. }
      assert (C2 : count (fun v => Qltb v lo) (x1 :: xr) = 0%Z).
      { apply count_lt_above. constructor; [lra|]. eapply Forall_impl; [|exact Hall1]. simpl. intros. lra. }
      rewrite (window_first x1 xr y1 yr).
      2:{ unfold wleft. rewrite C2, len_cons. lia. }
      2:{ unfold wright. rewrite C1. reflexivity. }
      assert (E0 : c0 == lo) by (destruct S0 as [[? ?]|[[? ?]|[? ?]]]; lra).
      assert (E1 : c1 == up) by (destruct S1 as [[? ?]|[[? ?]|[? ?]]]; lra).
      rewrite E0, E1.
      unfold window, wleft, wright. cbv zeta.
      change (count (fun v => Qltb v lo) (x0 :: x1 :: xr)) with ((if Qltb x0 lo then 1 else 0) + count (fun v => Qltb v lo) (x1 :: xr))%Z.
      change (count (fun v => Qleb v up) (x0 :: x1 :: xr)) with ((if Qleb x0 up then 1 else 0) + count (fun v => Qleb v up) (x1 :: xr))%Z.
      rewrite C1, C2. rewrite (proj2 (Qltb_lt x0 lo) L0). assert (E : Qleb x0 up = true) by (qb; lra). rewrite E.
      rewrite !len_cons.
      replace (Z.min (1 + 0) (1 + (1 + len yr) - 1)) with 1%Z by lia.
      replace (Z.max (1 + 0) 1) with 1%Z by lia.
      unfold slice, nthZ. replace (Z.to_nat (1 - 1)) with 0%nat by lia.
      change (Z.to_nat 1) with 1%nat. cbn [firstn skipn app nth].
      rewrite !trapz_cons2. cbn [trapz]. ring.
    + (* lo <= x0, up < x1: only x0 is kept *)
      assert (C1 : count (fun v => Qleb v up) (x1 :: xr) = 0%Z).
      { apply count_le_above. constructor; [exact U1|]. eapply Forall_impl; [|exact Hall1]. simpl. intros. lra. }
      assert (C2 : count (fun v => Qltb v lo) (x1 :: xr) = 0%Z).
      { apply count_lt_above. constructor; [lra|]. eapply Forall_impl; [|exact Hall1]. simpl. intros. lra. }
      rewrite (window_first x1 xr y1 yr).
      2:{ unfold wleft. rewrite C2, len_cons. lia. }
      2:{ unfold wright. rewrite C1. reflexivity. }
      rewrite (window_first x0 (x1 :: xr) y0 (y1 :: yr)).
      2:{ unfold wleft. change (count (fun v => Qltb v lo) (x0 :: x1 :: xr)) with ((if Qltb x0 lo then 1 else 0) + count (fun v => Qltb v lo) (x1 :: xr))%Z.
          rewrite C2. assert (E : Qltb x0 lo = false) by (qb; lra). rewrite E, !len_cons. lia. }
      2:{ unfold wright. change (count (fun v => Qleb v up) (x0 :: x1 :: xr)) with ((if Qleb x0 up then 1 else 0) + count (fun v => Qleb v up) (x1 :: xr))%Z.
          rewrite C1. destruct (Qleb x0 up); reflexivity. }
      assert (E1 : c1 == up) by (destruct S1 as [[? ?]|[[? ?]|[? ?]]]; lra).
      rewrite E1.
      destruct (Qlt_le_dec x0 up) as [U0|U0].
      * assert (E0 : c0 == x0) by (destruct S0 as [[? ?]|[[? ?]|[? ?]]]; lra).
        destruct Hstep as [Hx|Hy]; [lra|]. rewrite E0, Hy. ring.
      * assert (E0 : c0 == up) by (destruct S0 as [[? ?]|[[? ?]|[? ?]]]; lra).
        rewrite E0. ring.
    + (* x0 < lo, x1 <= up: x0 is dropped *)
      rewrite window_drop; [|exact L0|exact Hlu| |rewrite len_cons; lia].
      2:{ cbn [count]. assert (E : Qleb x1 up = true) by (qb; lra). rewrite E.
          pose proof (count_nonneg (fun v => Qleb v up) xr). lia. }
      generalize (window (x1 :: xr) (y1 :: yr) lo up). intros W.
      assert (E0 : c0 == lo) by (destruct S0 as [[? ?]|[[? ?]|[? ?]]]; lra).
      rewrite E0.
      destruct Hstep as [Hx|Hy].
      * assert (E1 : c1 == lo) by (destruct S1 as [[? ?]|[[? ?]|[? ?]]]; lra). rewrite E1. ring.
      * rewrite Hy. ring.
    + (* lo <= x0, x1 <= up: both kept *)
      rewrite window_peel by assumption.
      generalize (window (x1 :: xr) (y1 :: yr) lo up). intros W.
      assert (E0 : c0 == x0) by (destruct S0 as [[? ?]|[[? ?]|[? ?]]]; lra).
      assert (E1 : c1 == x1) by (destruct S1 as [[? ?]|[[? ?]|[? ?]]]; lra).
      rewrite E0, E1. ring.
Qed.

(* ---------- a relation between all neighbours of a list ---------- *)
Inductive adjall (R : Q -> Q -> Prop) : list Q -> Prop :=
| adj_nil : adjall R []
| adj_one a : adjall R [a]
| adj_cons a b r : R a b -> adjall R (b :: r) -> adjall R (a :: b :: r).

(* neighbours a <= b of a sorted list have no element of the list strictly between them *)
Lemma adjall_sorted (R : Q -> Q -> Prop) (pts0 : list Q) : forall pts,
  sorted pts ->
  (forall t, In t pts0 -> In t pts \/ (forall u, In u pts -> t <= u)) ->
  (forall a b, a <= b -> (forall t, In t pts0 -> t <= a \/ b <= t) -> R a b) ->
  adjall R pts.
Proof.
  induction pts as [|a [|b r] IH]; intros Hs Hcov Hstep; try constructor.
  - inversion Hs as [|? ? Hs' Hall]; subst. rewrite Forall_forall in Hall.
    apply Hstep; [apply Hall; now left|]. intros t Ht.
    destruct (Hcov t Ht) as [[->|Hin]|Hlow].
    + left. lra.
    + right. inversion Hs' as [|? ? _ Hall']; subst. rewrite Forall_forall in Hall'.
      destruct Hin as [->|Hin]; [lra|]. now apply Hall'.
    + left. apply Hlow. now left.
  - inversion Hs as [|? ? Hs' Hall]; subst. rewrite Forall_forall in Hall.
    apply IH; [exact Hs'| |exact Hstep].
    intros t Ht. destruct (Hcov t Ht) as [[->|Hin]|Hlow].
    + right. exact Hall.
    + now left.
    + right. intros u Hu. apply Hlow. now right.
Qed.

Lemma adjall_snoc (R : Q -> Q -> Prop) l : forall b a, adjall R (l ++ [b]) -> R b a -> adjall R ((l ++ [b]) ++ [a]).
Proof.
  induction l as [|c [|d r] IH]; intros b a H Hba.
  - simpl. constructor; [exact Hba|constructor].
  - simpl in *. inversion H; subst. constructor; [assumption|]. constructor; [exact Hba|constructor].
  - change (((c :: d :: r) ++ [b]) ++ [a]) with (c :: ((d :: r) ++ [b]) ++ [a]).
    change ((c :: d :: r) ++ [b]) with (c :: d :: (r ++ [b])) in H. inversion H; subst.
    change (c :: ((d :: r) ++ [b]) ++ [a]) with (c :: d :: ((r ++ [b]) ++ [a])).
    constructor; [assumption|]. change (d :: (r ++ [b]) ++ [a]) with (((d :: r) ++ [b]) ++ [a]). apply IH; assumption.
Qed.
Lemma adjall_rev (R : Q -> Q -> Prop) l : (forall a b, R a b -> R b a) -> adjall R l -> adjall R (rev l).
Proof.
  intros Hsym. induction 1 as [|a|a b r Hab Hr IH]; simpl; try constructor.
  simpl in IH. apply adjall_snoc; [exact IH|]. apply Hsym, Hab.
Qed.
Lemma axpar_map (fx fy : Q -> Q) l :
  adjall (fun a b => fx a == fx b \/ fy a == fy b) l -> axpar (map fx l) (map fy l).
Proof. induction 1; simpl; constructor; assumption. Qed.

(* ---------- sums weighted by position ---------- *)
Fixpoint wsum (w : Z -> Q) (j : Z) (l : list Q) (g : Q -> Q) : Q :=
  match l with [] => 0 | v :: r => w j * g v + wsum w (j + 1) r g end.

Lemma wsum_ext w w' l g g' : forall j,
  (forall i, w i == w' i) -> (forall v, In v l -> g v == g' v) -> wsum w j l g == wsum w' j l g'.
Proof.
  induction l as [|v r IH]; intros j Hw Hg; simpl; [reflexivity|].
  rewrite (Hw j), (Hg v) by now left. rewrite (IH (j + 1)%Z Hw); [reflexivity|]. intros u Hu. apply Hg. now right.
Qed.
Lemma wsum_add_w w1 w2 l g : forall j, wsum (fun i => w1 i + w2 i) j l g == wsum w1 j l g + wsum w2 j l g.
Proof. induction l as [|v r IH]; intros j; simpl; [lra|]. rewrite IH. lra. Qed.
Lemma wsum_zero w l g : forall j, Forall (fun v => g v == 0) l -> wsum w j l g == 0.
Proof.
  induction l as [|v r IH]; intros j H; simpl; [reflexivity|]. inversion H as [|? ? Hv Hr]; subst.
  rewrite Hv, IH by assumption. lra.
Qed.
Lemma trapzf_wsum {T} (w : Z -> Q) (g : Q -> T -> Q) (c0 : Q) (y : T -> Q) (L : list T) l : forall j,
  trapzf (fun t => c0 + wsum w j l (fun v => g v t)) y L == wsum w j l (fun v => trapzf (g v) y L).
Proof.
  induction l as [|v r IH]; intros j.
  - cbn [wsum]. rewrite (trapzf_ext _ (fun _ => c0) y y L); [apply trapzf_const_x|intros; ring|intros; reflexivity].
  - cbn [wsum]. rewrite <- (IH (j + 1)%Z).
    rewrite (trapzf_ext _ (fun t => w j * g v t + (c0 + wsum w (j + 1) r (fun v0 => g v0 t))) y y L);
      [|intros; ring|intros; reflexivity].
    rewrite (trapzf_add_x (fun t => w j * g v t) (fun t => c0 + wsum w (j + 1) r (fun v0 => g v0 t)) y L).
    rewrite (trapzf_scale_x (w j) (g v) y L). reflexivity.
Qed.

(* telescoping along a list on which the accepted elements form a prefix *)
Fixpoint pref (f : Q -> bool) (l : list Q) : Prop :=
  match l with [] => True | v :: r => (f v = false -> Forall (fun u => f u = false) r) /\ pref f r end.
Lemma wsum_prefix (Phi : Z -> Q) (f : Q -> bool) l : forall j, pref f l ->
  wsum (fun i => Phi (i + 1)%Z - Phi i) j l (fun v => b2q (f v)) == Phi (j + count f l)%Z - Phi j.
Proof.
  induction l as [|v r IH]; intros j Hp.
  - simpl. rewrite Z.add_0_r. lra.
  - destruct Hp as [Hv Hr]. cbn [wsum count]. destruct (f v) eqn:E; cbn [b2q].
    + rewrite (IH (j + 1)%Z Hr). replace (j + (1 + count f r))%Z with (j + 1 + count f r)%Z by lia. lra.
    + specialize (Hv eq_refl). rewrite wsum_zero.
      * rewrite (count_none f r Hv). rewrite !Z.add_0_r. lra.
      * eapply Forall_impl; [|exact Hv]. simpl. intros u Hu. rewrite Hu. reflexivity.
Qed.
Lemma pref_sorted (R : Q -> Q -> Prop) (f : Q -> bool) l :
  StronglySorted R l -> (forall a b, R a b -> f a = false -> f b = false) -> pref f l.
Proof.
  intros Hs Hf. induction Hs as [|a r Hr IH Hall]; simpl; [exact I|]. split; [|exact IH].
  intros Ha. eapply Forall_impl; [|exact Hall]. simpl. intros b Hab. now apply (Hf a b).
Qed.
Lemma sorted_rev_desc (l : list Q) : sorted l -> StronglySorted (fun a b => b <= a) (rev l).
Proof.
  unfold sorted. induction 1 as [|a r Hr IH Hall]; simpl; [constructor|].
  assert (G : forall l' : list Q, StronglySorted (fun a b => b <= a) l' -> Forall (fun v => a <= v) l' ->
              StronglySorted (fun a b => b <= a) (l' ++ [a])).
  { induction l' as [|c l' IHl]; intros Hs Hge; simpl; [constructor; constructor|].
    inversion Hs; subst. inversion Hge; subst. constructor; [now apply IHl|].
    apply Forall_app. split; [assumption|]. constructor; [assumption|constructor]. }
  apply G; [exact IH|]. apply Forall_forall. intros v Hv. rewrite Forall_forall in Hall. apply Hall. now apply in_rev.
Qed.

(* length of the intersection of [a,b] with [lo,up] *)
Definition ovl (a b lo up : Q) : Q := Qmax2 0 (Qmin2 b up - Qmax2 a lo).
Lemma ovl_clamp a b lo up : a <= b -> lo <= up -> ovl a b lo up == clampQ lo up b - clampQ lo up a.
Proof.
  intros Hab Hlu. unfold ovl, clampQ, Qmin2, Qmax2.
  destruct (Qleb a lo) eqn:E1, (Qleb b lo) eqn:E2, (Qleb b up) eqn:E3; qb; try lra;
  repeat match goal with |- context [Qleb ?x ?y] => destruct (Qleb x y) eqn:?; qb; try lra end.
Qed.
Lemma ovl_additive a b lo mid up : a <= b -> lo <= mid -> mid <= up ->
  ovl a b lo mid + ovl a b mid up == ovl a b lo up.
Proof.
  intros Hab H1 H2. rewrite !ovl_clamp by lra.
  destruct (clampQ_spec lo mid a H1) as [[? E1]|[[? E1]|[? E1]]];
  destruct (clampQ_spec mid up a H2) as [[? E2]|[[? E2]|[? E2]]];
  destruct (clampQ_spec lo up a ltac:(lra)) as [[? E3]|[[? E3]|[? E3]]];
  destruct (clampQ_spec lo mid b H1) as [[? E4]|[[? E4]|[? E4]]];
  destruct (clampQ_spec mid up b H2) as [[? E5]|[[? E5]|[? E5]]];
  destruct (clampQ_spec lo up b ltac:(lra)) as [[? E6]|[[? E6]|[? E6]]]; lra.
Qed.
Lemma ovl_nonneg a b lo up : 0 <= ovl a b lo up.
Proof. unfold ovl, Qmax2. destruct (Qleb 0 _) eqn:E; qb; lra. Qed.
