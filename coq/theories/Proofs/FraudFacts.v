(* Proofs/FraudFacts.v — lemmas about Model/Fraud.v (property C19). *)
From Coq Require Import Strings.String.
From SA Require Import Model.Fraud.
Open Scope Q_scope.

(* ------------------------------------------------------------------ label translations *)
Lemma doc_to_binary_member d : doc_to_binary_label (DMember d) = Ok (match d with DocPos => Pos | DocNeg => Neg end).
Proof. destruct d; reflexivity. Qed.
Lemma binary_to_doc_member l : binary_to_doc_label (BMember l) = Ok (match l with Pos => DocPos | Neg => DocNeg end).
Proof. destruct l; reflexivity. Qed.
Lemma doc_to_binary_str_member d : doc_to_binary_label (DStr (doc_value d)) = doc_to_binary_label (DMember d).
Proof. destruct d; reflexivity. Qed.
Lemma binary_to_doc_str_member l : binary_to_doc_label (BStr (binary_value l)) = binary_to_doc_label (BMember l).
Proof. destruct l; reflexivity. Qed.

Lemma translations_inverse_doc d :
  bind (doc_to_binary_label (DMember d)) (fun b => binary_to_doc_label (BMember b)) = Ok d.
Proof. destruct d; reflexivity. Qed.
Lemma translations_inverse_bin l :
  bind (binary_to_doc_label (BMember l)) (fun d => doc_to_binary_label (DMember d)) = Ok l.
Proof. destruct l; reflexivity. Qed.

Lemma translation_table :
  doc_to_binary_label (DStr "genuine") = Ok Pos /\ doc_to_binary_label (DStr "fraud") = Ok Neg /\
  binary_to_doc_label (BStr "pos") = Ok DocPos /\ binary_to_doc_label (BStr "neg") = Ok DocNeg /\
  doc_value DocPos = "genuine"%string /\ doc_value DocNeg = "fraud"%string.
Proof. repeat split; reflexivity. Qed.

(* a string is accepted exactly when it is one of the two member values *)
Lemma doc_to_binary_str_ok s b : doc_to_binary_label (DStr s) = Ok b ->
  (s = "genuine"%string /\ b = Pos) \/ (s = "fraud"%string /\ b = Neg).
Proof.
  unfold doc_to_binary_label, DocLabel_call, enum_lookup. cbn [find doc_value].
  destruct (String.eqb "genuine" s) eqn:E1.
  - apply String.eqb_eq in E1. subst s. cbn. intros [= <-]. now left.
  - destruct (String.eqb "fraud" s) eqn:E2; [|discriminate].
    apply String.eqb_eq in E2. subst s. cbn. intros [= <-]. now right.
Qed.

(* ------------------------------------------------------------------ range validation *)
Lemma any_b_true f l : any_b f l = true <-> exists v, In v l /\ f v = true.
Proof. apply existsb_exists. Qed.
Lemma any_b_false f l : any_b f l = false <-> forall v, In v l -> f v = false.
Proof.
  split.
  - intros H v Hv. destruct (f v) eqn:E; [|reflexivity].
    assert (any_b f l = true) by (apply any_b_true; eauto). congruence.
  - intro H. destruct (any_b f l) eqn:E; [|reflexivity]. apply any_b_true in E. destruct E as (v & Hv & E).
    rewrite (H v Hv) in E. discriminate.
Qed.

Definition range_bad (l : list Q) : bool := any_b (fun v => Qltb v 0) l || any_b (fun v => Qltb 1 v) l.

Lemma range_bad_true l : range_bad l = true <-> exists v, In v l /\ ~ in_unit v.
Proof.
  unfold range_bad, in_unit. rewrite orb_true_iff, !any_b_true. split.
  - intros [(v & Hv & E)|(v & Hv & E)]; qb; exists v; (split; [exact Hv|lra]).
  - intros (v & Hv & N). destruct (Qlt_le_dec v 0) as [L|L]; [left; exists v; split; [exact Hv|qb; exact L]|].
    right. exists v. split; [exact Hv|]. qb. destruct (Qlt_le_dec 1 v) as [G|G]; [exact G|]. exfalso. apply N. split; assumption.
Qed.
Lemma range_bad_false l : range_bad l = false <-> forall v, In v l -> in_unit v.
Proof.
  split.
  - intros H v Hv. destruct (Qlt_le_dec v 0) as [L|L].
    + assert (range_bad l = true) by (apply range_bad_true; exists v; split; [exact Hv|unfold in_unit; lra]). congruence.
    + destruct (Qlt_le_dec 1 v) as [G|G].
      * assert (range_bad l = true) by (apply range_bad_true; exists v; split; [exact Hv|unfold in_unit; lra]). congruence.
      * split; assumption.
  - intro H. destruct (range_bad l) eqn:E; [|reflexivity]. apply range_bad_true in E.
    destruct E as (v & Hv & N). exfalso. apply N, H, Hv.
Qed.
Lemma range_bad_perm l l' : Permutation l l' -> range_bad l = range_bad l'.
Proof.
  intro P. destruct (range_bad l') eqn:E.
  - apply range_bad_true. apply range_bad_true in E. destruct E as (v & Hv & N). exists v. split; [|exact N].
    eapply Permutation_in; [apply Permutation_sym, P|exact Hv].
  - apply range_bad_false. rewrite range_bad_false in E. intros v Hv. apply E. eapply Permutation_in; [exact P|exact Hv].
Qed.

(* the constructor, unfolded once the label is resolved *)
Lemma fraud_scores_unfold g f eg ef sc b : doc_to_binary_label sc = Ok b ->
  fraud_scores g f eg ef sc =
  if range_bad g then ErrValue else if range_bad f then ErrValue else Ok (mk_scores g f eg ef b Pos false).
Proof.
  intro H. unfold fraud_scores. rewrite H. cbn [bind].
  change (doc_to_binary_label (DStr "genuine")) with (Ok Pos). cbn [bind].
  unfold mk_scores, genuines, frauds. cbn [pos neg].
  fold (range_bad (isort g)). fold (range_bad (isort f)).
  now rewrite <- (range_bad_perm g (isort g) (isort_perm g)), <- (range_bad_perm f (isort f) (isort_perm f)).
Qed.

Lemma fraud_scores_bad_label g f eg ef sc : doc_to_binary_label sc = ErrValue -> fraud_scores g f eg ef sc = ErrValue.
Proof. intro H. unfold fraud_scores. now rewrite H. Qed.

(* Construction fails with ValueError exactly when some score lies outside [0,1] *)
Lemma fraud_scores_err_iff g f eg ef sc b : doc_to_binary_label sc = Ok b ->
  (fraud_scores g f eg ef sc = ErrValue <-> exists v, In v (g ++ f) /\ ~ in_unit v).
Proof.
  intro H. rewrite (fraud_scores_unfold g f eg ef sc b H). split.
  - destruct (range_bad g) eqn:Eg.
    + intros _. apply range_bad_true in Eg. destruct Eg as (v & Hv & N). exists v. split; [apply in_or_app; now left|exact N].
    + destruct (range_bad f) eqn:Ef; [|discriminate].
      intros _. apply range_bad_true in Ef. destruct Ef as (v & Hv & N). exists v. split; [apply in_or_app; now right|exact N].
  - intros (v & Hv & N). apply in_app_or in Hv. destruct Hv as [Hv|Hv].
    + assert (E : range_bad g = true) by (apply range_bad_true; eauto). now rewrite E.
    + assert (E : range_bad f = true) by (apply range_bad_true; eauto). rewrite E. now destruct (range_bad g).
Qed.

(* otherwise the object is the Scores object with pos=genuines, neg=frauds, translated score_class,
   equal_class = pos *)
Lemma fraud_scores_ok g f eg ef sc b : doc_to_binary_label sc = Ok b ->
  (forall v, In v (g ++ f) -> in_unit v) ->
  fraud_scores g f eg ef sc = Ok (mk_scores g f eg ef b Pos false).
Proof.
  intros H Hall. rewrite (fraud_scores_unfold g f eg ef sc b H).
  assert (Eg : range_bad g = false) by (apply range_bad_false; intros v Hv; apply Hall, in_or_app; now left).
  assert (Ef : range_bad f = false) by (apply range_bad_false; intros v Hv; apply Hall, in_or_app; now right).
  now rewrite Eg, Ef.
Qed.

Lemma fraud_scores_ok_inv g f eg ef sc s : fraud_scores g f eg ef sc = Ok s ->
  exists b, doc_to_binary_label sc = Ok b /\ s = mk_scores g f eg ef b Pos false /\
            forall v, In v (g ++ f) -> in_unit v.
Proof.
  intro H. destruct (doc_to_binary_label sc) as [b|] eqn:E.
  - exists b. split; [reflexivity|]. rewrite (fraud_scores_unfold g f eg ef sc b E) in H.
    destruct (range_bad g) eqn:Eg; [discriminate|]. destruct (range_bad f) eqn:Ef; [discriminate|].
    injection H as <-. split; [reflexivity|].
    intros v Hv. apply in_app_or in Hv. rewrite range_bad_false in Eg, Ef. destruct Hv; auto.
  - rewrite (fraud_scores_bad_label g f eg ef sc E) in H. discriminate.
Qed.

(* every query of the constructed object is the query of that Scores object *)
Lemma fraud_scores_queries g f eg ef sc s : fraud_scores g f eg ef sc = Ok s ->
  exists b, doc_to_binary_label sc = Ok b /\
    forall (A : Type) (query : scores -> A), query s = query (mk_scores g f eg ef b Pos false).
Proof.
  intro H. destruct (fraud_scores_ok_inv _ _ _ _ _ _ H) as (b & Hb & -> & _).
  exists b. split; [exact Hb|reflexivity].
Qed.

Lemma aliases s : genuines s = pos s /\ frauds s = neg s /\
  (forall v, pos (set_genuines s v) = v /\ neg (set_genuines s v) = neg s) /\
  (forall v, neg (set_frauds s v) = v /\ pos (set_frauds s v) = pos s).
Proof. repeat split. Qed.

(* ------------------------------------------------------------------ from_labels *)
Lemma mask_select_neg (g : Z -> bool) labels xs :
  mask_select (map (fun l => negb (g l)) labels) xs =
  map snd (filter (fun p => negb (fst p)) (combine (map g labels) xs)).
Proof.
  unfold mask_select. revert xs. induction labels as [|l r IH]; intros xs; [reflexivity|].
  destruct xs as [|x xs']; [reflexivity|]. cbn [map combine filter fst]. destruct (g l); cbn [negb map snd]; now rewrite IH.
Qed.

Lemma fraud_from_labels_eq labels xs gl eg ef sc :
  fraud_from_labels labels xs gl eg ef sc =
  fraud_scores (map snd (filter (fun p => Z.eqb (fst p) gl) (combine labels xs)))
               (map snd (filter (fun p => negb (Z.eqb (fst p) gl)) (combine labels xs))) eg ef sc.
Proof.
  unfold fraud_from_labels, mask_select. f_equal.
  - revert xs. induction labels as [|l r IH]; intros xs; [reflexivity|]. destruct xs as [|x xs']; [reflexivity|].
    cbn [map combine filter fst]. destruct (Z.eqb l gl); cbn [map snd]; now rewrite IH.
  - revert xs. induction labels as [|l r IH]; intros xs; [reflexivity|]. destruct xs as [|x xs']; [reflexivity|].
    cbn [map combine filter fst]. destruct (Z.eqb l gl); cbn [negb map snd]; now rewrite IH.
Qed.

(* the object built by FraudScores.from_labels is the one Scores.from_labels builds from the flags
   "label == genuine_label" *)
Lemma fraud_from_labels_scores labels xs gl eg ef sc s :
  fraud_from_labels labels xs gl eg ef sc = Ok s ->
  exists b, doc_to_binary_label sc = Ok b /\
    s = from_labels (map (fun l => Z.eqb l gl) labels) xs eg ef b Pos false.
Proof.
  unfold fraud_from_labels. intro H. destruct (fraud_scores_ok_inv _ _ _ _ _ _ H) as (b & Hb & -> & _).
  exists b. split; [exact Hb|]. unfold from_labels. now rewrite mask_select_neg.
Qed.

(* every sample goes to exactly one side *)
Lemma from_labels_partition (labels : list Z) (xs : list Q) (gl : Z) :
  List.length labels = List.length xs ->
  Permutation xs (mask_select (map (fun l => Z.eqb l gl) labels) xs ++
                  mask_select (map (fun l => negb (Z.eqb l gl)) labels) xs)%list.
Proof.
  unfold mask_select. revert xs. induction labels as [|l r IH]; intros xs Hl; destruct xs as [|x xs']; try discriminate; [constructor|].
  cbn [map combine filter fst]. injection Hl as Hl. specialize (IH xs' Hl). destruct (Z.eqb l gl); cbn [negb map snd app].
  - now constructor.
  - apply Permutation_cons_app. exact IH.
Qed.
