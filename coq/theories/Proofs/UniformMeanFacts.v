(* Proofs/UniformMeanFacts.v — C11, "resampling is unbiased", for index draws with replacement under the uniform law:
   over ALL index vectors of length k in [0, n) — the equally likely results of np.random.choice(n, size=k) — a fixed
   source index i is drawn k * n^(k-1) times in total, i.e. k / n times per vector on average; with k = n (stratification
   by label, replacement sampling) exactly once per sample on average.  The vectors are exactly the histories the
   sampling model accepts for that call ([draw_ok]), and under by_label the index lists of the sample ARE the two
   recorded vectors.  This is a counting theorem about the model's histories; that NumPy's generator draws them with
   equal probability is NumPy's documented contract, not proved. *)
From SA Require Import Model.Sampling.
Open Scope Z_scope.

(* all index vectors of length k over [0, n) *)
Fixpoint vectors (n k : nat) : list (list Z) :=
  match k with
  | O => [[]]
  | S k' => flat_map (fun a => map (cons a) (vectors n k')) (zseq n)
  end.

Definition mult (i : Z) (v : list Z) : Z := count (Z.eqb i) v.

Lemma Zsum_app a b : Zsum (a ++ b) = Zsum a + Zsum b.
Proof. unfold Zsum. induction a as [|x a IH]; cbn [app fold_right]; lia. Qed.

Lemma length_flat_map_const {A B} (f : A -> list B) l c : (forall a, length (f a) = c) -> length (flat_map f l) = (length l * c)%nat.
Proof. intro H. induction l as [|a l IH]; cbn [flat_map length]; [reflexivity|]. rewrite app_length, H, IH. lia. Qed.

Lemma length_zseq n : length (zseq n) = n.
Proof. unfold zseq. now rewrite map_length, seq_length. Qed.

Lemma length_vectors n k : length (vectors n k) = (n ^ k)%nat.
Proof.
  induction k as [|k IH]; [reflexivity|]. cbn [vectors].
  rewrite (length_flat_map_const _ _ (n ^ k)%nat) by (intro a; now rewrite map_length).
  rewrite length_zseq. cbn [Nat.pow]. reflexivity.
Qed.

(* sum over the vectors that start with a *)
Lemma sum_cons i a V : Zsum (map (mult i) (map (cons a) V)) = (if Z.eqb i a then 1 else 0) * Z.of_nat (length V) + Zsum (map (mult i) V).
Proof.
  induction V as [|v V IH]; [cbn; lia|].
  cbn [map length]. unfold Zsum in *. cbn [fold_right]. rewrite IH. unfold mult at 1. cbn [count].
  fold (mult i v). rewrite Nat2Z.inj_succ. destruct (Z.eqb i a); lia.
Qed.

Lemma sum_flat i V l : Zsum (map (mult i) (flat_map (fun a => map (cons a) V) l))
  = count (Z.eqb i) l * Z.of_nat (length V) + Z.of_nat (length l) * Zsum (map (mult i) V).
Proof.
  induction l as [|a l IH]; [cbn; lia|].
  cbn [flat_map]. rewrite map_app, Zsum_app, sum_cons, IH. cbn [count length]. rewrite Nat2Z.inj_succ.
  destruct (Z.eqb i a); lia.
Qed.

(* i occurs exactly once in 0 .. n-1 *)
Lemma count_zseq_gen i m : forall s, count (Z.eqb i) (map Z.of_nat (seq s m))
  = if (Z.of_nat s <=? i) && (i <? Z.of_nat (s + m)) then 1 else 0.
Proof.
  induction m as [|m IH]; intro s.
  - cbn [seq map count]. replace (s + 0)%nat with s by lia.
    destruct (Z.leb_spec (Z.of_nat s) i), (Z.ltb_spec i (Z.of_nat s)); cbn [andb]; try reflexivity. lia.
  - cbn [seq map count]. rewrite IH.
    destruct (Z.eqb_spec i (Z.of_nat s)); destruct (Z.leb_spec (Z.of_nat (S s)) i); destruct (Z.ltb_spec i (Z.of_nat (S s + m)));
      destruct (Z.leb_spec (Z.of_nat s) i); destruct (Z.ltb_spec i (Z.of_nat (s + S m))); cbn [andb]; lia.
Qed.
Lemma count_zseq i n : 0 <= i < Z.of_nat n -> count (Z.eqb i) (zseq n) = 1.
Proof.
  unfold zseq. intro H. rewrite count_zseq_gen. replace (0 + n)%nat with n by lia.
  destruct (Z.leb_spec (Z.of_nat 0) i), (Z.ltb_spec i (Z.of_nat n)); cbn [andb]; lia.
Qed.

(* total multiplicity of a fixed index over all vectors: n * total = k * n^k *)
Theorem total_multiplicity n k i : 0 <= i < Z.of_nat n ->
  Z.of_nat n * Zsum (map (mult i) (vectors n k)) = Z.of_nat k * Z.of_nat (n ^ k).
Proof.
  intro H. induction k as [|k IH]; [cbn; lia|].
  cbn [vectors]. rewrite sum_flat, (count_zseq i n H), length_zseq, length_vectors.
  rewrite Z.mul_add_distr_l. rewrite (Z.mul_assoc (Z.of_nat n) (Z.of_nat n)), <- (Z.mul_assoc (Z.of_nat n) (Z.of_nat n) _).
  rewrite IH. cbn [Nat.pow]. rewrite !Nat2Z.inj_mul, Nat2Z.inj_succ. lia.
Qed.

(* k = n draws from n: every index is drawn once per vector on average (total = number of vectors) *)
Corollary mean_multiplicity_one n i : 0 <= i < Z.of_nat n ->
  Zsum (map (mult i) (vectors n n)) = Z.of_nat (length (vectors n n)).
Proof.
  intro H. pose proof (total_multiplicity n n i H) as T. rewrite length_vectors.
  assert (0 < Z.of_nat n) by lia. nia.
Qed.

(* the vectors are exactly the results the model accepts for choice(n, size = k) *)
Lemma vectors_ok n k v : In v (vectors n k) -> draw_ok (DChoice (Z.of_nat n) (Z.of_nat k) v).
Proof.
  revert v. induction k as [|k IH]; intros v Hv.
  - destruct Hv as [<-|[]]. split; [reflexivity | constructor].
  - cbn [vectors] in Hv. apply in_flat_map in Hv. destruct Hv as (a & Ha & Hv). apply in_map_iff in Hv.
    destruct Hv as (w & <- & Hw). destruct (IH w Hw) as [L F]. split.
    + unfold len in *. cbn [length]. lia.
    + constructor; [|exact F]. unfold zseq in Ha. apply in_map_iff in Ha. destruct Ha as (j & <- & Hj). apply in_seq in Hj.
      unfold in_range. lia.
Qed.
Lemma vectors_complete n k v : draw_ok (DChoice (Z.of_nat n) (Z.of_nat k) v) -> In v (vectors n k).
Proof.
  revert v. induction k as [|k IH]; intros v [L F].
  - destruct v; [left; reflexivity | unfold len in L; cbn in L; lia].
  - destruct v as [|a w]; [unfold len in L; cbn in L; lia|]. inversion F as [|? ? Ha Fw]; subst.
    cbn [vectors]. apply in_flat_map. exists a. split.
    + unfold zseq. apply in_map_iff. exists (Z.to_nat a). unfold in_range in Ha. split; [lia | apply in_seq; lia].
    + apply in_map. apply IH. split; [unfold len in *; cbn [length] in L; lia | exact Fw].
Qed.

(* stratified by label, sampling with replacement: the index lists of the sample are the two recorded vectors *)
Lemma by_label_indices s vp vn : 0 < len (pos s) -> 0 < len (neg s) ->
  sample_indices s true false [DChoice (len (pos s)) (len (pos s)) vp; DChoice (len (neg s)) (len (neg s)) vn]
  = Ok (mkSidx vp vn (easy_pos s) (easy_neg s), [], [DChoice (len (pos s)) (len (pos s)) vp; DChoice (len (neg s)) (len (neg s)) vn]).
Proof.
  intros Hp Hn. unfold sample_indices, sample_counts, bind, ret, choice, nb_hard_pos, nb_hard_neg. cbn [c_hard_pos c_hard_neg c_easy_pos c_easy_neg].
  assert (A : ((len (pos s) <? 0) || (len (pos s) <=? 0) && negb (len (pos s) =? 0)) = false).
  { destruct (len (pos s) <? 0) eqn:E1; [lia|]. destruct (len (pos s) <=? 0) eqn:E2; [lia|]. reflexivity. }
  assert (B : ((len (neg s) <? 0) || (len (neg s) <=? 0) && negb (len (neg s) =? 0)) = false).
  { destruct (len (neg s) <? 0) eqn:E1; [lia|]. destruct (len (neg s) <=? 0) eqn:E2; [lia|]. reflexivity. }
  rewrite A, B. reflexivity.
Qed.

(* ... hence, over all equally likely index draws, every scored positive (negative) of the source appears in the sample
   exactly once on average *)
Theorem by_label_replacement_unbiased s i : 0 <= i < len (pos s) -> 0 < len (neg s) ->
  let np := length (pos s) in
  forall vn,
  Zsum (map (fun vp => match sample_indices s true false [DChoice (len (pos s)) (len (pos s)) vp; DChoice (len (neg s)) (len (neg s)) vn] with
                       | Ok (r, _, _) => mult i (pos_idx r) | Err _ => 0 end) (vectors np np))
  = Z.of_nat (length (vectors np np)).
Proof.
  intros Hi Hn np vn. rewrite <- (mean_multiplicity_one np i) by (unfold len in Hi; exact Hi).
  f_equal. apply map_ext. intro vp. rewrite by_label_indices by (unfold len in *; lia). reflexivity.
Qed.

Theorem by_label_replacement_unbiased_neg s j : 0 <= j < len (neg s) -> 0 < len (pos s) ->
  let nn := length (neg s) in
  forall vp,
  Zsum (map (fun vn => match sample_indices s true false [DChoice (len (pos s)) (len (pos s)) vp; DChoice (len (neg s)) (len (neg s)) vn] with
                       | Ok (r, _, _) => mult j (neg_idx r) | Err _ => 0 end) (vectors nn nn))
  = Z.of_nat (length (vectors nn nn)).
Proof.
  intros Hj Hp nn vp. rewrite <- (mean_multiplicity_one nn j) by (unfold len in Hj; exact Hj).
  f_equal. apply map_ext. intro vn. rewrite by_label_indices by (unfold len in *; lia). reflexivity.
Qed.
