(* Proofs/CarrierB64.v — the executable binary64 nextafter of Base/Carrier.v (succ64 / pred64 on exact rationals)
   satisfies the [carrier] record for the set of binary64-representable rationals (no overflow bound: the model has
   no infinities; subnormals included).  Pure Q / Z arithmetic, no axioms. *)
From SA Require Import Base.Carrier.
Open Scope Q_scope.

Ltac zq := change (inject_Z 0) with 0 in *; change (inject_Z 1) with 1 in *; change (inject_Z 2) with 2 in *.

(* ---------- powers of two ---------- *)
Lemma two_pow_pos k : 0 < two_pow k.
Proof.
  unfold two_pow. destruct (0 <=? k)%Z eqn:E.
  - apply Z.leb_le in E. assert (0 < 2 ^ k)%Z by (apply Z.pow_pos_nonneg; lia).
    rewrite Zlt_Qlt in H. exact H.
  - apply Z.leb_gt in E. assert (0 < 2 ^ (- k))%Z by (apply Z.pow_pos_nonneg; lia).
    rewrite Zlt_Qlt in H. apply Qinv_lt_0_compat. exact H.
Qed.

Lemma two_pow_nonneg_exp k : (0 <= k)%Z -> two_pow k = inject_Z (2 ^ k).
Proof. intro H. unfold two_pow. apply Z.leb_le in H. now rewrite H. Qed.

Lemma two_pow_S k : two_pow (k + 1) == 2 * two_pow k.
Proof.
  unfold two_pow. destruct (0 <=? k)%Z eqn:E; destruct (0 <=? k + 1)%Z eqn:E1;
    try apply Z.leb_le in E; try apply Z.leb_gt in E; try apply Z.leb_le in E1; try apply Z.leb_gt in E1; try lia.
  - rewrite Z.pow_add_r by lia. rewrite inject_Z_mult. change (inject_Z (2 ^ 1)) with 2. ring.
  - assert (k = -1)%Z by lia. subst k. reflexivity.
  - replace (- k)%Z with (- (k + 1) + 1)%Z by lia. rewrite Z.pow_add_r by lia. rewrite inject_Z_mult.
    change (inject_Z (2 ^ 1)) with 2.
    assert (0 < 2 ^ (- (k + 1)))%Z by (apply Z.pow_pos_nonneg; lia). rewrite Zlt_Qlt in H. zq.
    field. lra.
Qed.

Lemma two_pow_add_nat k (n : nat) : two_pow (k + Z.of_nat n) == inject_Z (2 ^ Z.of_nat n) * two_pow k.
Proof.
  induction n as [|n IH].
  - replace (k + Z.of_nat 0)%Z with k by lia. change (inject_Z (2 ^ Z.of_nat 0)) with 1. ring.
  - replace (k + Z.of_nat (S n))%Z with (k + Z.of_nat n + 1)%Z by lia. rewrite two_pow_S, IH.
    replace (Z.of_nat (S n)) with (Z.of_nat n + 1)%Z by lia. rewrite Z.pow_add_r by lia. rewrite inject_Z_mult.
    change (inject_Z (2 ^ 1)) with 2. ring.
Qed.

Lemma two_pow_add k j : (0 <= j)%Z -> two_pow (k + j) == inject_Z (2 ^ j) * two_pow k.
Proof. intro H. rewrite <- (Z2Nat.id j H). apply two_pow_add_nat. Qed.

Lemma two_pow_le a b : (a <= b)%Z -> two_pow a <= two_pow b.
Proof.
  intro H. replace b with (a + (b - a))%Z by lia. rewrite two_pow_add by lia.
  assert (0 < 2 ^ (b - a))%Z by (apply Z.pow_pos_nonneg; lia). assert (H0' : (1 <= 2 ^ (b - a))%Z) by lia. clear H0. rename H0' into H0. rewrite Zle_Qle in H0.
  pose proof (two_pow_pos a). zq. nra.
Qed.

Lemma two_pow_lt a b : (a < b)%Z -> two_pow a < two_pow b.
Proof.
  intro H. replace b with (a + (b - a))%Z by lia. rewrite two_pow_add by lia.
  assert (2 <= 2 ^ (b - a))%Z.
  { replace (b - a)%Z with (1 + (b - a - 1))%Z by lia. rewrite Z.pow_add_r by lia.
    assert (0 < 2 ^ (b - a - 1))%Z by (apply Z.pow_pos_nonneg; lia). change (2 ^ 1)%Z with 2%Z. lia. }
  rewrite Zle_Qle in H0. pose proof (two_pow_pos a). zq. nra.
Qed.

Lemma two_pow_lt_inv a b : two_pow a < two_pow b -> (a < b)%Z.
Proof. intro H. destruct (Z_lt_le_dec a b) as [L|L]; [exact L|]. pose proof (two_pow_le b a L). lra. Qed.

(* ---------- floor(log2 x) ---------- *)
Lemma ilog2_spec x : 0 < x -> two_pow (ilog2 x) <= x /\ x < two_pow (ilog2 x + 1).
Proof.
  intro Hx. destruct x as [n d]. unfold ilog2. cbn [Qnum Qden].
  assert (Hn : (0 < n)%Z) by (unfold Qlt in Hx; cbn in Hx; lia).
  set (ln := Z.log2 n). set (ld := Z.log2 (Zpos d)).
  destruct (Z.log2_spec n Hn) as [N1 N2]. destruct (Z.log2_spec (Zpos d) (Pos2Z.is_pos d)) as [D1 D2].
  fold ln in N1, N2. fold ld in D1, D2.
  pose proof (Z.log2_nonneg n) as Ln. pose proof (Z.log2_nonneg (Zpos d)) as Ld. fold ln in Ln. fold ld in Ld.
  (* n/d as a Q between the powers *)
  assert (Qx : n # d == inject_Z n / inject_Z (Zpos d)) by (rewrite (Qmake_Qdiv n d); reflexivity).
  assert (Dpos : 0 < inject_Z (Zpos d)) by (change 0 with (inject_Z 0); rewrite <- Zlt_Qlt; lia).
  (* upper: n < 2^(ln+1), d >= 2^ld  => n/d < 2^(ln+1-ld) *)
  assert (U : n # d < two_pow (ln - ld + 1)).
  { rewrite Qx. apply Qlt_shift_div_r; [exact Dpos|].
    assert (E : two_pow (ln + 1) == inject_Z (2 ^ ld) * two_pow (ln - ld + 1)).
    { replace (ln + 1)%Z with (ln - ld + 1 + ld)%Z by lia. apply two_pow_add. exact Ld. }
    rewrite two_pow_nonneg_exp in E by lia.
    rewrite Zlt_Qlt in N2. replace (Z.succ ln) with (ln + 1)%Z in N2 by lia. rewrite Zle_Qle in D1.
    pose proof (two_pow_pos (ln - ld + 1)). nra. }
  (* lower: n >= 2^ln, d < 2^(ld+1) => n/d > 2^(ln-ld-1) *)
  assert (L : two_pow (ln - ld - 1) < n # d).
  { rewrite Qx. apply Qlt_shift_div_l; [exact Dpos|].
    assert (E : two_pow ln == inject_Z (2 ^ (ld + 1)) * two_pow (ln - ld - 1)).
    { replace ln with (ln - ld - 1 + (ld + 1))%Z at 1 by lia. apply two_pow_add. lia. }
    rewrite two_pow_nonneg_exp in E by lia.
    rewrite Zle_Qle in N1. rewrite Zlt_Qlt in D2. replace (Z.succ ld) with (ld + 1)%Z in D2 by lia.
    pose proof (two_pow_pos (ln - ld - 1)). nra. }
  destruct (Qle_bool (two_pow (ln - ld)) (n # d)) eqn:B.
  - apply Qle_bool_iff in B. split; [exact B|exact U].
  - assert (B' : n # d < two_pow (ln - ld)).
    { destruct (Qlt_le_dec (n # d) (two_pow (ln - ld))) as [K|K]; [exact K|]. apply Qle_bool_iff in K. congruence. }
    split; [apply Qlt_le_weak; exact L|]. replace (ln - ld - 1 + 1)%Z with (ln - ld)%Z by lia. exact B'.
Qed.

Lemma ilog2_unique x e : two_pow e <= x -> x < two_pow (e + 1) -> ilog2 x = e.
Proof.
  intros A B. assert (Hx : 0 < x) by (pose proof (two_pow_pos e); lra).
  destruct (ilog2_spec x Hx) as [C D].
  assert (e < ilog2 x + 1)%Z by (apply two_pow_lt_inv; lra).
  assert (ilog2 x < e + 1)%Z by (apply two_pow_lt_inv; lra).
  lia.
Qed.

Lemma ilog2_compat x y : 0 < x -> x == y -> ilog2 x = ilog2 y.
Proof.
  intros Hx E. destruct (ilog2_spec x Hx) as [A B]. symmetry. apply ilog2_unique; rewrite <- E; assumption.
Qed.

(* ---------- ulps ---------- *)
Definition ulp_exp (e : Z) : Z := Z.max e (-1022) - 52.
Lemma ulp_at_eq e : ulp_at e = two_pow (ulp_exp e).
Proof. reflexivity. Qed.
Lemma ulp_at_pos e : 0 < ulp_at e.
Proof. apply two_pow_pos. Qed.
Lemma ulp_exp_mono e1 e2 : (e1 <= e2)%Z -> (ulp_exp e1 <= ulp_exp e2)%Z.
Proof. unfold ulp_exp. lia. Qed.
Lemma ulp_at_mult e1 e2 : (e1 <= e2)%Z -> ulp_at e2 == inject_Z (2 ^ (ulp_exp e2 - ulp_exp e1)) * ulp_at e1.
Proof.
  intro H. rewrite !ulp_at_eq. pose proof (ulp_exp_mono e1 e2 H).
  replace (ulp_exp e2) with (ulp_exp e1 + (ulp_exp e2 - ulp_exp e1))%Z at 1 by lia. apply two_pow_add. lia.
Qed.
(* a power of two above the ulp exponent is a multiple of the ulp *)
Lemma two_pow_mult_ulp k e : (ulp_exp e <= k)%Z -> two_pow k == inject_Z (2 ^ (k - ulp_exp e)) * ulp_at e.
Proof.
  intro H. rewrite ulp_at_eq. replace k with (ulp_exp e + (k - ulp_exp e))%Z at 1 by lia. apply two_pow_add. lia.
Qed.

Lemma int_mult_pos M u : 0 < u -> 0 < inject_Z M * u -> u <= inject_Z M * u.
Proof.
  intros Hu H. assert (1 <= M)%Z.
  { destruct (Z_lt_le_dec M 1) as [L|L]; [|exact L]. assert (M <= 0)%Z by lia.
    rewrite Zle_Qle in H0. zq. nra. }
  rewrite Zle_Qle in H0. zq. nra.
Qed.
Lemma int_lt_mult A B u : 0 < u -> inject_Z A * u < inject_Z B * u -> inject_Z A * u + u <= inject_Z B * u.
Proof.
  intros Hu H. assert (A < B)%Z.
  { destruct (Z_lt_le_dec A B) as [L|L]; [exact L|]. rewrite Zle_Qle in L. nra. }
  assert (A + 1 <= B)%Z by lia. rewrite Zle_Qle, inject_Z_plus in H1. zq. nra.
Qed.

(* ---------- representable rationals ---------- *)
Definition isDpos (x : Q) : Prop := exists m : Z, x == inject_Z m * ulp_at (ilog2 x).
Definition isD64 (x : Q) : Prop := x == 0 \/ (0 < x /\ isDpos x) \/ (x < 0 /\ isDpos (- x)).

Lemma isDpos_compat x y : 0 < x -> x == y -> isDpos x -> isDpos y.
Proof. intros Hx E [m Hm]. exists m. rewrite <- (ilog2_compat x y Hx E). transitivity x; [symmetry; exact E | exact Hm]. Qed.

Lemma isD64_compat x y : x == y -> isD64 x -> isD64 y.
Proof.
  intros E [H|[[H1 H2]|[H1 H2]]].
  - left. lra.
  - right. left. split; [lra|]. apply (isDpos_compat x y H1 E H2).
  - right. right. split; [lra|]. apply (isDpos_compat (- x) (- y)); [lra | rewrite E; reflexivity | exact H2].
Qed.

Lemma isD64_opp x : isD64 x -> isD64 (- x).
Proof.
  intros [H|[[H1 H2]|[H1 H2]]].
  - left. lra.
  - right. right. split; [lra|]. apply (isDpos_compat x (- - x) H1); [ring | exact H2].
  - right. left. split; [lra | exact H2].
Qed.

(* the exponent of a positive representable number is at least that of its ulp *)
Lemma isDpos_exp x : 0 < x -> isDpos x -> (ulp_exp (ilog2 x) <= ilog2 x)%Z.
Proof.
  intros Hx [m Hm]. destruct (ilog2_spec x Hx) as [A B].
  pose proof (ulp_at_pos (ilog2 x)) as U. set (u := ulp_at (ilog2 x)) in *.
  assert (u <= inject_Z m * u) by (apply int_mult_pos; [exact U | rewrite <- Hm; exact Hx]).
  rewrite <- Hm in H. unfold u in H. rewrite ulp_at_eq in H. assert (ulp_exp (ilog2 x) < ilog2 x + 1)%Z by (apply two_pow_lt_inv; lra). lia.
Qed.

Lemma two_pow_isDpos k : (-1074 <= k)%Z -> isDpos (two_pow k).
Proof.
  intro H. assert (E : ilog2 (two_pow k) = k).
  { apply ilog2_unique; [lra | apply two_pow_lt; lia]. }
  exists (2 ^ (k - ulp_exp k))%Z. rewrite E. apply two_pow_mult_ulp. unfold ulp_exp. lia.
Qed.

(* ---------- positive side: successor ---------- *)
Lemma succ_pos_eq x : succ_pos x == x + ulp_at (ilog2 x).
Proof. unfold succ_pos. apply Qred_correct. Qed.

Lemma gap_pos x y : 0 < x -> isDpos x -> isDpos y -> x < y -> x + ulp_at (ilog2 x) <= y.
Proof.
  intros Hx [mx Hmx] [my Hmy] L. assert (Hy : 0 < y) by lra.
  destruct (ilog2_spec x Hx) as [A B]. destruct (ilog2_spec y Hy) as [C D].
  assert (E : (ilog2 x <= ilog2 y)%Z).
  { assert (ilog2 x < ilog2 y + 1)%Z by (apply two_pow_lt_inv; lra). lia. }
  pose proof (ulp_at_mult _ _ E) as M. set (ux := ulp_at (ilog2 x)) in *. pose proof (ulp_at_pos (ilog2 x)) as U. fold ux in U.
  set (K := (2 ^ (ulp_exp (ilog2 y) - ulp_exp (ilog2 x)))%Z) in *.
  assert (Y : y == inject_Z (my * K) * ux) by (rewrite Hmy, M, inject_Z_mult; ring).
  rewrite Y. rewrite Hmx at 1. apply int_lt_mult; [exact U|]. rewrite <- Y, <- Hmx. exact L.
Qed.

Lemma succ_pos_D x : 0 < x -> isDpos x -> isDpos (x + ulp_at (ilog2 x)).
Proof.
  intros Hx Dx. pose proof Dx as [m Hm]. destruct (ilog2_spec x Hx) as [A B].
  set (e := ilog2 x) in *. set (u := ulp_at e) in *. pose proof (ulp_at_pos e) as U. fold u in U.
  pose proof (isDpos_exp x Hx Dx) as Ex. fold e in Ex.
  assert (T : two_pow (e + 1) == inject_Z (2 ^ (e + 1 - ulp_exp e)) * u) by (apply two_pow_mult_ulp; lia).
  assert (LE : x + u <= two_pow (e + 1)).
  { rewrite T. rewrite Hm at 1. apply int_lt_mult; [exact U|]. rewrite <- T, <- Hm. exact B. }
  destruct (Qlt_le_dec (x + u) (two_pow (e + 1))) as [Lt|Ge].
  - assert (E' : ilog2 (x + u) = e) by (apply ilog2_unique; lra).
    exists (m + 1)%Z. rewrite E'. fold u. rewrite inject_Z_plus, Hm. zq. ring.
  - assert (Eq : two_pow (e + 1) == x + u) by lra.
    apply (isDpos_compat (two_pow (e + 1))); [apply two_pow_pos | exact Eq |].
    apply two_pow_isDpos. unfold ulp_exp in Ex. lia.
Qed.

(* ---------- positive side: predecessor ---------- *)
Lemma pred_pos_cases x : let e := ilog2 x in
  (x == two_pow e /\ (-1022 < e)%Z /\ pred_pos x == x - ulp_at (e - 1)) \/
  (~ (x == two_pow e /\ (-1022 < e)%Z) /\ pred_pos x == x - ulp_at e).
Proof.
  cbv zeta. unfold pred_pos. destruct (Qeq_bool x (two_pow (ilog2 x))) eqn:Q1; destruct (-1022 <? ilog2 x)%Z eqn:Z1; cbn [andb].
  - left. apply Qeq_bool_iff in Q1. apply Z.ltb_lt in Z1. repeat split; try assumption. apply Qred_correct.
  - right. apply Z.ltb_ge in Z1. split; [intros [_ K]; lia | apply Qred_correct].
  - right. apply Qeq_bool_neq in Q1. split; [intros [K _]; contradiction | apply Qred_correct].
  - right. apply Qeq_bool_neq in Q1. split; [intros [K _]; contradiction | apply Qred_correct].
Qed.

Lemma pred_pos_lt x : pred_pos x < x.
Proof.
  destruct (pred_pos_cases x) as [(_ & _ & E)|(_ & E)]; rewrite E.
  - pose proof (ulp_at_pos (ilog2 x - 1)). lra.
  - pose proof (ulp_at_pos (ilog2 x)). lra.
Qed.

(* 0 <= pred_pos x, and it is representable (or zero) *)
Lemma pred_pos_D x : 0 < x -> isDpos x -> pred_pos x == 0 \/ (0 < pred_pos x /\ isDpos (pred_pos x)).
Proof.
  intros Hx Dx. pose proof Dx as [m Hm]. destruct (ilog2_spec x Hx) as [A B].
  pose proof (isDpos_exp x Hx Dx) as Ex.
  destruct (pred_pos_cases x) as [(P2 & En & E)|(NP & E)]; cbv zeta in *; set (e := ilog2 x) in *.
  - (* x = 2^e, e > -1022: pred = 2^e - 2^(e-53) = (2^53 - 1) * 2^(e-53), in the binade e-1 *)
    right. assert (Ue : ulp_exp (e - 1) = (e - 53)%Z) by (unfold ulp_exp; lia).
    assert (T : two_pow e == inject_Z (2 ^ 53) * ulp_at (e - 1)).
    { rewrite (two_pow_mult_ulp e (e - 1)) by lia. rewrite Ue. replace (e - (e - 53))%Z with 53%Z by lia. reflexivity. }
    assert (T1 : two_pow (e - 1) == inject_Z (2 ^ 52) * ulp_at (e - 1)).
    { rewrite (two_pow_mult_ulp (e - 1) (e - 1)) by lia. rewrite Ue. replace (e - 1 - (e - 53))%Z with 52%Z by lia. reflexivity. }
    pose proof (ulp_at_pos (e - 1)) as U. set (u := ulp_at (e - 1)) in *.
    assert (V : pred_pos x == inject_Z (2 ^ 53 - 1) * u).
    { rewrite E, P2, T. rewrite inject_Z_sub. zq. ring. }
    assert (I52 : inject_Z (2 ^ 52) == 4503599627370496) by reflexivity.
    assert (I53 : inject_Z (2 ^ 53) == 9007199254740992) by reflexivity.
    assert (I53' : inject_Z (2 ^ 53 - 1) == 9007199254740991) by reflexivity.
    assert (Lo : two_pow (e - 1) <= pred_pos x) by (rewrite V, T1, I52, I53'; nra).
    assert (Hi : pred_pos x < two_pow (e - 1 + 1)).
    { replace (e - 1 + 1)%Z with e by lia. rewrite V, T, I53, I53'. nra. }
    split; [pose proof (two_pow_pos (e - 1)); lra|].
    exists (2 ^ 53 - 1)%Z. rewrite (ilog2_unique _ _ Lo Hi). exact V.
  - (* pred = x - ulp *)
    pose proof (ulp_at_pos e) as U. set (u := ulp_at e) in *.
    assert (V : pred_pos x == inject_Z (m - 1) * u) by (rewrite E, inject_Z_sub; zq; rewrite Hm at 1; ring).
    assert (M1 : (1 <= m)%Z).
    { destruct (Z_lt_le_dec m 1) as [L|L]; [|exact L]. assert (m <= 0)%Z by lia. rewrite Zle_Qle in H. zq. nra. }
    destruct (Z.eq_dec m 1) as [->|M2].
    { left. rewrite V. zq. change (inject_Z (1 - 1)) with 0. ring. }
    right. assert (Ppos : 0 < pred_pos x).
    { rewrite V. assert (1 <= m - 1)%Z by lia. rewrite Zle_Qle in H. zq. nra. }
    split; [exact Ppos|].
    assert (T : two_pow e == inject_Z (2 ^ (e - ulp_exp e)) * u) by (apply two_pow_mult_ulp; exact Ex).
    destruct (Qlt_le_dec (pred_pos x) (two_pow e)) as [Lt|Ge].
    + (* pred falls below the binade: then x = 2^e, so e <= -1022 and the ulp is 2^-1074 throughout *)
      assert (Xe : x == two_pow e).
      { assert (pred_pos x + u <= two_pow e).
        { rewrite T. rewrite V at 1. apply int_lt_mult; [exact U|]. rewrite <- T, <- V. exact Lt. }
        rewrite E in H. lra. }
      assert (En : (e <= -1022)%Z).
      { destruct (Z_lt_le_dec (-1022) e) as [L|L]; [|exact L]. exfalso. apply NP. split; assumption. }
      destruct (ilog2_spec (pred_pos x) Ppos) as [C D].
      assert (E' : (ilog2 (pred_pos x) < e)%Z) by (apply two_pow_lt_inv; lra).
      exists (m - 1)%Z. rewrite V at 1. unfold u. rewrite !ulp_at_eq.
      replace (ulp_exp (ilog2 (pred_pos x))) with (ulp_exp e) by (unfold ulp_exp; lia). reflexivity.
    + exists (m - 1)%Z. assert (E' : ilog2 (pred_pos x) = e) by (apply ilog2_unique; [exact Ge | pose proof (pred_pos_lt x); lra]).
      rewrite E'. exact V.
Qed.

Lemma pred_pos_nonneg x : 0 < x -> isDpos x -> 0 <= pred_pos x.
Proof. intros Hx Dx. destruct (pred_pos_D x Hx Dx) as [H|[H _]]; lra. Qed.

(* no representable value strictly between pred_pos x and x *)
Lemma gap_pred_pos x y : 0 < x -> isDpos x -> 0 < y -> isDpos y -> y < x -> y <= pred_pos x.
Proof.
  intros Hx Dx Hy Dy L. pose proof Dx as [m Hm]. pose proof Dy as [my Hmy].
  destruct (ilog2_spec x Hx) as [A B]. destruct (ilog2_spec y Hy) as [C D].
  pose proof (isDpos_exp x Hx Dx) as Ex. pose proof (isDpos_exp y Hy Dy) as Ey.
  assert (Eyx : (ilog2 y <= ilog2 x)%Z).
  { assert (ilog2 y < ilog2 x + 1)%Z by (apply two_pow_lt_inv; lra). lia. }
  destruct (pred_pos_cases x) as [(P2 & En & E)|(NP & E)]; cbv zeta in *; set (e := ilog2 x) in *; set (ey := ilog2 y) in *.
  - (* x = 2^e: y lives in a binade below *)
    assert (Ly : (ey <= e - 1)%Z).
    { assert (ey < e)%Z by (apply two_pow_lt_inv; lra). lia. }
    rewrite E. pose proof (ulp_at_pos (e - 1)) as U.
    pose proof (ulp_at_mult ey (e - 1) Ly) as M. set (K := (2 ^ (ulp_exp (e - 1) - ulp_exp ey))%Z) in *.
    (* both y and x are multiples of ulp_at ey; x - ulp(e-1) too *)
    pose proof (ulp_at_pos ey) as Uy. set (uy := ulp_at ey) in *.
    assert (Ue : ulp_exp (e - 1) = (e - 53)%Z) by (unfold ulp_exp; lia).
    assert (T : two_pow e == inject_Z (2 ^ 53) * ulp_at (e - 1)).
    { rewrite (two_pow_mult_ulp e (e - 1)) by lia. rewrite Ue. replace (e - (e - 53))%Z with 53%Z by lia. reflexivity. }
    assert (X : x - ulp_at (e - 1) == inject_Z ((2 ^ 53 - 1) * K) * uy).
    { rewrite P2, T, M, inject_Z_mult, inject_Z_sub. zq. ring. }
    assert (X1 : x == inject_Z (2 ^ 53 * K) * uy) by (rewrite P2, T, M, inject_Z_mult; ring).
    (* y < x, integers: my < 2^53 K; and K >= 1 so my <= (2^53-1) K requires more: use binade bound instead *)
    destruct (Z.eq_dec ey (e - 1)) as [Eq|Ne].
    + (* same ulp: K = 1 *)
      assert (K1 : K = 1%Z) by (unfold K; rewrite Eq; replace (ulp_exp (e - 1) - ulp_exp (e - 1))%Z with 0%Z by lia; reflexivity).
      rewrite K1 in *. replace (2 ^ 53 * 1)%Z with (2 ^ 53)%Z in X1 by lia. replace ((2 ^ 53 - 1) * 1)%Z with (2 ^ 53 - 1)%Z in X by lia.
      rewrite X. assert (G : inject_Z my * uy + uy <= inject_Z (2 ^ 53) * uy).
      { apply int_lt_mult; [exact Uy|]. rewrite <- X1, <- Hmy. exact L. }
      rewrite Hmy. rewrite inject_Z_sub. zq. lra.
    + (* y < 2^(ey+1) <= 2^(e-1) <= x - ulp(e-1) *)
      assert (two_pow (ey + 1) <= two_pow (e - 1)) by (apply two_pow_le; lia).
      assert (T1 : two_pow (e - 1) == inject_Z (2 ^ 52) * ulp_at (e - 1)).
      { rewrite (two_pow_mult_ulp (e - 1) (e - 1)) by lia. rewrite Ue. replace (e - 1 - (e - 53))%Z with 52%Z by lia. reflexivity. }
      assert (I52 : inject_Z (2 ^ 52) == 4503599627370496) by reflexivity.
      assert (I53 : inject_Z (2 ^ 53) == 9007199254740992) by reflexivity.
      rewrite P2, T, I53. rewrite T1, I52 in H. nra.
  - rewrite E. pose proof (ulp_at_pos e) as U. set (u := ulp_at e) in *.
    destruct (Z.eq_dec ey e) as [Eq|Ne].
    + (* same binade: both multiples of u *)
      assert (Uy : ulp_at ey = u) by (unfold u; rewrite Eq; reflexivity).
      rewrite Uy in Hmy.
      assert (G : inject_Z my * u + u <= inject_Z m * u).
      { apply int_lt_mult; [exact U|]. rewrite <- Hmy, <- Hm. exact L. }
      rewrite <- Hmy, <- Hm in G. lra.
    + (* y < 2^e ; x is a multiple of u and either > 2^e, or = 2^e with e <= -1022 (then everything is a multiple of 2^-1074) *)
      assert (Ly : (ey < e)%Z) by lia.
      assert (Y2 : y < two_pow e) by (assert (two_pow (ey + 1) <= two_pow e) by (apply two_pow_le; lia); lra).
      assert (T : two_pow e == inject_Z (2 ^ (e - ulp_exp e)) * u) by (apply two_pow_mult_ulp; exact Ex).
      destruct (Qlt_le_dec (two_pow e) x) as [Gt|Le].
      * assert (two_pow e + u <= x).
        { rewrite T. rewrite Hm. apply int_lt_mult; [exact U|]. rewrite <- T, <- Hm. exact Gt. }
        lra.
      * assert (Xe : x == two_pow e) by lra.
        assert (En : (e <= -1022)%Z).
        { destruct (Z_lt_le_dec (-1022) e) as [L1|L1]; [|exact L1]. exfalso. apply NP. split; assumption. }
        assert (Uy : ulp_at ey = u) by (unfold u; rewrite !ulp_at_eq; f_equal; unfold ulp_exp; lia).
        rewrite Uy in Hmy.
        assert (G : inject_Z my * u + u <= inject_Z m * u).
        { apply int_lt_mult; [exact U|]. rewrite <- Hmy, <- Hm. exact L. }
        rewrite <- Hmy, <- Hm in G. lra.
Qed.

(* ---------- the two functions, by sign ---------- *)
Lemma minsub_pos : 0 < minsub.
Proof. apply two_pow_pos. Qed.
Lemma minsub_D : isDpos minsub.
Proof. apply two_pow_isDpos. lia. Qed.
Lemma ulp_ge_minsub e : minsub <= ulp_at e.
Proof. rewrite ulp_at_eq. apply two_pow_le. unfold ulp_exp. lia. Qed.
Lemma pos_D_ge_minsub y : 0 < y -> isDpos y -> minsub <= y.
Proof.
  intros Hy [m Hm]. pose proof (ulp_at_pos (ilog2 y)) as U. pose proof (ulp_ge_minsub (ilog2 y)).
  set (u := ulp_at (ilog2 y)) in *. assert (u <= inject_Z m * u) by (apply int_mult_pos; [exact U | rewrite <- Hm; exact Hy]).
  rewrite <- Hm in H0. lra.
Qed.

Lemma succ64_zero x : x == 0 -> succ64 x = minsub.
Proof. intro H. unfold succ64. destruct (Qcompare_spec x 0); [reflexivity | lra | lra]. Qed.
Lemma succ64_pos x : 0 < x -> succ64 x == x + ulp_at (ilog2 x).
Proof. intro H. unfold succ64. destruct (Qcompare_spec x 0); [lra | lra | apply succ_pos_eq]. Qed.
Lemma succ64_neg x : x < 0 -> succ64 x == - pred_pos (- x).
Proof. intro H. unfold succ64. destruct (Qcompare_spec x 0); [lra | apply Qred_correct | lra]. Qed.
Lemma pred64_zero x : x == 0 -> pred64 x == - minsub.
Proof. intro H. unfold pred64. destruct (Qcompare_spec x 0); [apply Qred_correct | lra | lra]. Qed.
Lemma pred64_pos x : 0 < x -> pred64 x = pred_pos x.
Proof. intro H. unfold pred64. destruct (Qcompare_spec x 0); [lra | lra | reflexivity]. Qed.
Lemma pred64_neg x : x < 0 -> pred64 x == - (- x + ulp_at (ilog2 (- x))).
Proof. intro H. unfold pred64. destruct (Qcompare_spec x 0); [lra | rewrite Qred_correct, succ_pos_eq; reflexivity | lra]. Qed.

Lemma sign_cases x : x == 0 \/ 0 < x \/ x < 0.
Proof. destruct (Qcompare_spec x 0); auto. Qed.

Theorem succ64_gt x : x < succ64 x.
Proof.
  destruct (sign_cases x) as [H|[H|H]].
  - rewrite (succ64_zero x H). pose proof minsub_pos. lra.
  - rewrite (succ64_pos x H). pose proof (ulp_at_pos (ilog2 x)). lra.
  - rewrite (succ64_neg x H). pose proof (pred_pos_lt (- x)). lra.
Qed.
Theorem pred64_lt x : pred64 x < x.
Proof.
  destruct (sign_cases x) as [H|[H|H]].
  - rewrite (pred64_zero x H). pose proof minsub_pos. lra.
  - rewrite (pred64_pos x H). apply pred_pos_lt.
  - rewrite (pred64_neg x H). pose proof (ulp_at_pos (ilog2 (- x))). lra.
Qed.

Lemma isD64_pos x : 0 < x -> isD64 x -> isDpos x.
Proof. intros H [K|[[_ K]|[K _]]]; [lra | exact K | lra]. Qed.
Lemma isD64_neg x : x < 0 -> isD64 x -> isDpos (- x).
Proof. intros H [K|[[K _]|[_ K]]]; [lra | lra | exact K]. Qed.
Lemma isD64_of_pos x : 0 < x -> isDpos x -> isD64 x.
Proof. intros. right. left. split; assumption. Qed.
Lemma isD64_of_nonneg x : x == 0 \/ (0 < x /\ isDpos x) -> isD64 x.
Proof. intros [H|H]; [left; exact H | right; left; exact H]. Qed.

Theorem succ64_D x : isD64 x -> isD64 (succ64 x).
Proof.
  intro Dx. destruct (sign_cases x) as [H|[H|H]].
  - rewrite (succ64_zero x H). apply isD64_of_pos; [apply minsub_pos | apply minsub_D].
  - apply (isD64_compat (x + ulp_at (ilog2 x))); [symmetry; apply succ64_pos; exact H|].
    pose proof (ulp_at_pos (ilog2 x)). apply isD64_of_pos; [lra | apply succ_pos_D; [exact H | apply isD64_pos; assumption]].
  - apply (isD64_compat (- pred_pos (- x))); [symmetry; apply succ64_neg; exact H|].
    apply isD64_opp, isD64_of_nonneg. apply pred_pos_D; [lra | apply isD64_neg; assumption].
Qed.
Theorem pred64_D x : isD64 x -> isD64 (pred64 x).
Proof.
  intro Dx. destruct (sign_cases x) as [H|[H|H]].
  - apply (isD64_compat (- minsub)); [symmetry; apply pred64_zero; exact H|].
    apply isD64_opp, isD64_of_pos; [apply minsub_pos | apply minsub_D].
  - rewrite (pred64_pos x H). apply isD64_of_nonneg, pred_pos_D; [exact H | apply isD64_pos; assumption].
  - apply (isD64_compat (- (- x + ulp_at (ilog2 (- x))))); [symmetry; apply pred64_neg; exact H|].
    pose proof (ulp_at_pos (ilog2 (- x))). apply isD64_opp, isD64_of_pos; [lra | apply succ_pos_D; [lra | apply isD64_neg; assumption]].
Qed.

Theorem succ64_least x y : isD64 x -> isD64 y -> x < y -> succ64 x <= y.
Proof.
  intros Dx Dy L. destruct (sign_cases x) as [H|[H|H]].
  - rewrite (succ64_zero x H). apply pos_D_ge_minsub; [lra | apply isD64_pos; [lra | exact Dy]].
  - rewrite (succ64_pos x H). apply gap_pos; [exact H | apply isD64_pos; assumption | apply isD64_pos; [lra | exact Dy] | exact L].
  - rewrite (succ64_neg x H). pose proof (pred_pos_nonneg (- x) ltac:(lra) (isD64_neg x H Dx)) as P.
    destruct (sign_cases y) as [Hy|[Hy|Hy]]; [lra | lra |].
    assert (- y <= pred_pos (- x)) by (apply gap_pred_pos; [lra | apply isD64_neg; assumption | lra | apply isD64_neg; assumption | lra]).
    lra.
Qed.
Theorem pred64_greatest x y : isD64 x -> isD64 y -> y < x -> y <= pred64 x.
Proof.
  intros Dx Dy L. destruct (sign_cases x) as [H|[H|H]].
  - rewrite (pred64_zero x H). assert (minsub <= - y) by (apply pos_D_ge_minsub; [lra | apply isD64_neg; [lra | exact Dy]]). lra.
  - rewrite (pred64_pos x H). pose proof (pred_pos_nonneg x H (isD64_pos x H Dx)) as P.
    destruct (sign_cases y) as [Hy|[Hy|Hy]]; [lra | | lra].
    apply gap_pred_pos; [exact H | apply isD64_pos; assumption | exact Hy | apply isD64_pos; assumption | exact L].
  - rewrite (pred64_neg x H).
    assert (- x + ulp_at (ilog2 (- x)) <= - y).
    { apply gap_pos; [lra | apply isD64_neg; assumption | apply isD64_neg; [lra | exact Dy] | lra]. }
    lra.
Qed.

(* ---------- compatibility with == ---------- *)
Lemma pred_pos_compat x y : 0 < x -> x == y -> pred_pos x == pred_pos y.
Proof.
  intros Hx E. pose proof (ilog2_compat x y Hx E) as Ee.
  destruct (pred_pos_cases x) as [(P1 & N1 & E1)|(NP1 & E1)]; destruct (pred_pos_cases y) as [(P2 & N2 & E2)|(NP2 & E2)];
    cbv zeta in *; rewrite E1, E2, <- Ee.
  - lra.
  - exfalso. apply NP2. rewrite <- Ee. split; [rewrite <- E; exact P1 | exact N1].
  - exfalso. apply NP1. rewrite Ee. split; [rewrite E; exact P2 | exact N2].
  - lra.
Qed.
Theorem succ64_compat x y : x == y -> succ64 x == succ64 y.
Proof.
  intro E. destruct (sign_cases x) as [H|[H|H]].
  - rewrite (succ64_zero x H), (succ64_zero y) by lra. reflexivity.
  - rewrite (succ64_pos x H), (succ64_pos y) by lra. rewrite (ilog2_compat x y H E). lra.
  - rewrite (succ64_neg x H), (succ64_neg y) by lra. rewrite (pred_pos_compat (- x) (- y)) by lra. reflexivity.
Qed.
Theorem pred64_compat x y : x == y -> pred64 x == pred64 y.
Proof.
  intro E. destruct (sign_cases x) as [H|[H|H]].
  - rewrite (pred64_zero x H), (pred64_zero y) by lra. reflexivity.
  - rewrite (pred64_pos x H), (pred64_pos y) by lra. apply pred_pos_compat; assumption.
  - rewrite (pred64_neg x H), (pred64_neg y) by lra. rewrite (ilog2_compat (- x) (- y)) by lra. lra.
Qed.

(* ---------- the round trips follow from the order facts ---------- *)
Theorem pred64_succ64 x : isD64 x -> pred64 (succ64 x) == x.
Proof.
  intro Dx. pose proof (succ64_gt x) as G. pose proof (succ64_D x Dx) as Ds.
  pose proof (pred64_greatest (succ64 x) x Ds Dx G) as A.
  destruct (Qlt_le_dec x (pred64 (succ64 x))) as [L|L]; [|lra].
  pose proof (succ64_least x (pred64 (succ64 x)) Dx (pred64_D _ Ds) L). pose proof (pred64_lt (succ64 x)). lra.
Qed.
Theorem succ64_pred64 x : isD64 x -> succ64 (pred64 x) == x.
Proof.
  intro Dx. pose proof (pred64_lt x) as G. pose proof (pred64_D x Dx) as Dp.
  pose proof (succ64_least (pred64 x) x Dp Dx G) as A.
  destruct (Qlt_le_dec (succ64 (pred64 x)) x) as [L|L]; [|lra].
  pose proof (pred64_greatest x (succ64 (pred64 x)) Dx (succ64_D _ Dp) L). pose proof (succ64_gt (pred64 x)). lra.
Qed.

(* ---------- the instance ---------- *)
Theorem b64_carrier : carrier isD64 succ64 pred64.
Proof.
  constructor.
  - exact succ64_gt.
  - exact pred64_lt.
  - exact succ64_least.
  - exact pred64_greatest.
  - exact succ64_D.
  - exact pred64_D.
  - exact pred64_succ64.
  - exact succ64_pred64.
  - exact succ64_compat.
  - exact pred64_compat.
  - exact isD64_compat.
Qed.
Print Assumptions b64_carrier.

(* the set is the binary64 one: integers below 2^53 in absolute value, halves, 0.1's double, the smallest subnormal
   are in it; 2^53 + 1 and 0.1 are not *)
Lemma isDpos_dec_witness x m : 0 < x -> x == inject_Z m * ulp_at (ilog2 x) -> isDpos x.
Proof. intros _ H. exists m. exact H. Qed.
Lemma not_isDpos x : 0 < x -> (forall m : Z, ~ x == inject_Z m * ulp_at (ilog2 x)) -> ~ isDpos x.
Proof. intros _ H [m Hm]. exact (H m Hm). Qed.
(* membership examples *)
Example isD64_one : isD64 1.
Proof. right. left. split; [reflexivity|]. exists (2 ^ 52)%Z. vm_compute. reflexivity. Qed.
Example isD64_tenth : isD64 (3602879701896397 # 36028797018963968).
Proof. right. left. split; [reflexivity|]. exists 7205759403792794%Z. vm_compute. reflexivity. Qed.
Example isD64_minsub_neg : isD64 (- minsub).
Proof. apply isD64_opp. right. left. split; [apply minsub_pos | apply minsub_D]. Qed.
Example not_isD64_third : ~ isD64 (1 # 3).
Proof.
  intros [H|[[_ [m Hm]]|[H _]]]; [discriminate H | | discriminate H].
  assert (E : ilog2 (1 # 3) = (-2)%Z) by (vm_compute; reflexivity). rewrite E in Hm.
  unfold ulp_at, two_pow in Hm. cbn in Hm. unfold Qeq in Hm. cbn in Hm. lia.
Qed.
Example not_isD64_2p53_1 : ~ isD64 (inject_Z (2 ^ 53 + 1)).
Proof.
  intros [H|[[_ [m Hm]]|[H _]]]; [discriminate H | | discriminate H].
  assert (E : ilog2 (inject_Z (2 ^ 53 + 1)) = 53%Z) by (vm_compute; reflexivity). rewrite E in Hm.
  unfold ulp_at, two_pow in Hm. cbn in Hm. unfold Qeq in Hm. cbn in Hm. lia.
Qed.

(* ---------- sign symmetry: nextafter(-x, +inf) = -nextafter(x, -inf) ---------- *)
Lemma succ64_opp x : succ64 (- x) == - pred64 x.
Proof.
  destruct (sign_cases x) as [H|[H|H]].
  - rewrite (succ64_zero (- x)) by lra. rewrite (pred64_zero x H). ring.
  - rewrite (succ64_neg (- x)) by lra. rewrite (pred64_pos x H).
    rewrite (pred_pos_compat (- - x) x) by lra. reflexivity.
  - rewrite (succ64_pos (- x)) by lra. rewrite (pred64_neg x H). ring.
Qed.
Lemma pred64_opp x : pred64 (- x) == - succ64 x.
Proof.
  destruct (sign_cases x) as [H|[H|H]].
  - rewrite (pred64_zero (- x)) by lra. rewrite (succ64_zero x H). reflexivity.
  - rewrite (pred64_neg (- x)) by lra. rewrite (succ64_pos x H).
    rewrite (ilog2_compat (- - x) x) by lra. ring.
  - rewrite (pred64_pos (- x)) by lra. rewrite (succ64_neg x H). ring.
Qed.

(* ---------- instantiating a theorem that only needs x < succ x and pred x < x ---------- *)
Definition on_binary64 {P : (Q -> Q) -> (Q -> Q) -> Prop}
  (thm : forall succ pred : Q -> Q, (forall x, x < succ x) -> (forall x, pred x < x) -> P succ pred) : P succ64 pred64 :=
  thm succ64 pred64 succ64_gt pred64_lt.
