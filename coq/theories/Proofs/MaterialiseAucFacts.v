(* Proofs/MaterialiseAucFacts.v — C09 for the full AUC: an object with k easy positives and m easy
   negatives has the same full AUC as the object in which they are actual scores beyond all others
   on their own side.  Both equal their Mann-Whitney statistic (C07), and the two statistics agree. *)
From SA Require Import Model.Auc Model.Symmetry Proofs.TrapzFacts Proofs.AucFacts.
Open Scope Q_scope.

Notation K := kpair.

Lemma Qsum_perm l l' : Permutation l l' -> Qsum l == Qsum l'.
Proof. induction 1 as [|x l l' _ IH|x y l|l l' l'' _ IH1 _ IH2]; simpl; try lra. Qed.
Lemma pair_sum_perm sc ps ps' ns ns' : Permutation ps ps' -> Permutation ns ns' -> pair_sum sc ps ns == pair_sum sc ps' ns'.
Proof.
  intros Hp Hn. unfold pair_sum. rewrite (Qsum_perm _ _ (Permutation_map _ Hp)).
  apply Qsum_map_ext. intros p _. apply Qsum_perm. now apply Permutation_map.
Qed.
Lemma pair_sum_app_l sc p1 p2 ns : pair_sum sc (p1 ++ p2) ns == pair_sum sc p1 ns + pair_sum sc p2 ns.
Proof. unfold pair_sum. rewrite map_app. apply Qsum_app. Qed.
Lemma pair_sum_app_r sc ps n1 n2 : pair_sum sc ps (n1 ++ n2) == pair_sum sc ps n1 + pair_sum sc ps n2.
Proof.
  unfold pair_sum. induction ps as [|p r IH]; simpl; [lra|].
  rewrite map_app, Qsum_app. simpl in IH. lra.
Qed.
Lemma pair_sum_all_one sc ps ns : (forall p n, In p ps -> In n ns -> K sc p n == 1) ->
  pair_sum sc ps ns == inject_Z (len ps * len ns).
Proof.
  intro H. unfold pair_sum.
  rewrite (Qsum_map_ext _ (fun _ => inject_Z (len ns)) ps).
  - rewrite Qsum_map_const, inject_Z_mult. ring.
  - intros p Hp. rewrite (Qsum_map_ext _ (fun _ => 1) ns) by (intros n Hn; now apply H).
    rewrite Qsum_map_const. ring.
Qed.
Lemma len_repeat {A} (x : A) n : len (repeat x n) = Z.of_nat n.
Proof. unfold len. now rewrite repeat_length. Qed.

(* "beyond all others on their own side": the materialised positives are strictly on the positive
   side of every negative (scored or materialised), the materialised negatives strictly on the
   negative side of every scored positive *)
Definition beyond (s : scores) (ppos pneg : Q) : Prop :=
  match score_class s with
  | Pos => Forall (fun n => n < ppos) (neg s) /\ Forall (fun p => pneg < p) (pos s) /\ pneg < ppos
  | Neg => Forall (fun n => ppos < n) (neg s) /\ Forall (fun p => p < pneg) (pos s) /\ ppos < pneg
  end.

Lemma K_one_pos p n : n < p -> K Pos p n == 1.
Proof. intro H. unfold kpair. assert (E : Qltb n p = true) by (qb; exact H). now rewrite E. Qed.
Lemma K_one_neg p n : p < n -> K Neg p n == 1.
Proof. intro H. unfold kpair. assert (E : Qltb p n = true) by (qb; exact H). now rewrite E. Qed.

Lemma mw_num_materialise s ppos pneg : (0 <= easy_pos s)%Z -> (0 <= easy_neg s)%Z -> beyond s ppos pneg ->
  mw_num (materialise s ppos pneg) == mw_num s.
Proof.
  intros Hp Hn Hb. unfold mw_num, materialise, mk_scores. cbn [pos neg easy_pos easy_neg score_class].
  rewrite (pair_sum_perm _ _ _ _ _ (Permutation_sym (isort_perm _)) (Permutation_sym (isort_perm _))).
  rewrite pair_sum_app_l, !pair_sum_app_r.
  set (k := Z.to_nat (easy_pos s)). set (m := Z.to_nat (easy_neg s)).
  assert (A1 : pair_sum (score_class s) (pos s) (repeat pneg m) == inject_Z (len (pos s) * Z.of_nat m)).
  { rewrite pair_sum_all_one; [now rewrite len_repeat|]. intros p n Hp' Hn'. apply repeat_spec in Hn'. subst n.
    unfold beyond in Hb. destruct (score_class s); destruct Hb as (_ & B & _); rewrite Forall_forall in B;
      [apply K_one_pos|apply K_one_neg]; now apply B. }
  assert (A2 : pair_sum (score_class s) (repeat ppos k) (neg s) == inject_Z (Z.of_nat k * len (neg s))).
  { rewrite pair_sum_all_one; [now rewrite len_repeat|]. intros p n Hp' Hn'. apply repeat_spec in Hp'. subst p.
    unfold beyond in Hb. destruct (score_class s); destruct Hb as (B & _ & _); rewrite Forall_forall in B;
      [apply K_one_pos|apply K_one_neg]; now apply B. }
  assert (A3 : pair_sum (score_class s) (repeat ppos k) (repeat pneg m) == inject_Z (Z.of_nat k * Z.of_nat m)).
  { rewrite pair_sum_all_one; [now rewrite !len_repeat|]. intros p n Hp' Hn'. apply repeat_spec in Hp', Hn'. subst p n.
    unfold beyond in Hb. destruct (score_class s); destruct Hb as (_ & _ & B); [apply K_one_pos|apply K_one_neg]; exact B. }
  rewrite A1, A2, A3. unfold k, m. rewrite !Z2Nat.id by assumption.
  rewrite !inject_Z_plus, !inject_Z_mult, !inject_Z_plus. change (inject_Z 0) with 0. ring.
Qed.

Lemma app_ne_l {A} (l1 l2 : list A) : l1 <> [] -> l1 ++ l2 <> [].
Proof. destruct l1; [congruence|discriminate]. Qed.
Lemma isort_ne l : l <> [] -> isort l <> [].
Proof. intros H E. apply H. apply Permutation_nil. rewrite <- E. apply Permutation_sym, isort_perm. Qed.

Theorem materialise_full_auc (isD : Q -> Prop) (succ pred : Q -> Q) : carrier isD succ pred ->
  forall (s : scores) (ppos pneg : Q),
  pos s <> [] -> neg s <> [] -> (0 <= easy_pos s)%Z -> (0 <= easy_neg s)%Z ->
  Forall isD (pos s ++ neg s) -> isD ppos -> isD pneg -> beyond s ppos pneg ->
  auc succ pred (materialise s ppos pneg) 0 1 AFpr ATpr == auc succ pred s 0 1 AFpr ATpr.
Proof.
  intros HC s ppos pneg Hp Hn Ep En HD Dp Dn Hb.
  rewrite (full_auc_mw isD succ pred HC s (Build_good s Hp Hn Ep En) HD).
  assert (G : good (materialise s ppos pneg)).
  { constructor; unfold materialise, mk_scores; cbn [pos neg easy_pos easy_neg]; try lia;
      apply isort_ne, app_ne_l; assumption. }
  assert (HD' : Forall isD (pos (materialise s ppos pneg) ++ neg (materialise s ppos pneg))).
  { unfold materialise, mk_scores. cbn [pos neg]. apply Forall_app in HD. destruct HD as [H1 H2].
    apply Forall_app. split; apply (Permutation_Forall (isort_perm _)); apply Forall_app; split; try assumption;
      apply Forall_forall; intros x Hx; apply repeat_spec in Hx; subst x; assumption. }
  rewrite (full_auc_mw isD succ pred HC _ G HD').
  unfold mw. rewrite (mw_num_materialise s ppos pneg Ep En Hb).
  assert (E : (Pall (materialise s ppos pneg) * Nall (materialise s ppos pneg) = Pall s * Nall s)%Z).
  { unfold Pall, Nall, materialise, mk_scores. cbn [pos neg easy_pos easy_neg]. unfold len.
    rewrite !isort_length, !app_length, !repeat_length. lia. }
  rewrite E. reflexivity.
Qed.
