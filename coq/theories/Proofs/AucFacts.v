(* Proofs/AucFacts.v — C07: the full AUC is the Mann-Whitney statistic (ties 1/2, easy samples
   beyond every scored sample), independent of equal_class; complement of the y-axis, mirror of the
   x-axis, exchange of the axes.  DESIGN Appendix A.1 (step lemma) and A.3. *)
From SA Require Import Model.Auc Proofs.CmFacts Proofs.SentinelFacts Proofs.TrapzFacts Proofs.WindowFacts.
Open Scope Q_scope.

(* ---------- indicator of the decision rule, pair kernel, reference value ---------- *)
Definition ind (sc ec : label) (v t : Q) : Q := b2q (dec sc ec v (Fin t)).

(* 1 if p lies on the positive side of n, 0 on the other side, 1/2 for a tie *)
Definition kpair (sc : label) (p n : Q) : Q :=
  match sc with
  | Pos => if Qltb n p then 1 else if Qltb p n then 0 else 1#2
  | Neg => if Qltb p n then 1 else if Qltb n p then 0 else 1#2
  end.
Definition pair_sum (sc : label) (ps ns : list Q) : Q :=
  Qsum (map (fun p => Qsum (map (fun n => kpair sc p n) ns)) ps).
Definition Pall (s : scores) : Z := (len (pos s) + easy_pos s)%Z.
Definition Nall (s : scores) : Z := (len (neg s) + easy_neg s)%Z.
(* Mann-Whitney numerator: scored pairs, easy positives against every negative (scored or easy),
   easy negatives against every scored positive *)
Definition mw_num (s : scores) : Q :=
  pair_sum (score_class s) (pos s) (neg s)
  + inject_Z (easy_pos s * (len (neg s) + easy_neg s) + easy_neg s * len (pos s)).
Definition mw (s : scores) : Q := mw_num s / inject_Z (Pall s * Nall s).

Record good (s : scores) : Prop := {
  pos_ne : pos s <> []; neg_ne : neg s <> [];
  ep_nn : (0 <= easy_pos s)%Z; en_nn : (0 <= easy_neg s)%Z }.

Lemma kpair_range sc p n : 0 <= kpair sc p n <= 1.
Proof. unfold kpair. destruct sc; destruct (Qltb _ _); try destruct (Qltb _ _); lra. Qed.

Lemma inject_count {A} (f : A -> bool) l : inject_Z (count f l) == Qsum (map (fun v => b2q (f v)) l).
Proof.
  induction l as [|a r IH]; [reflexivity|]. cbn [count map Qsum fold_right].
  rewrite inject_Z_plus. change (fold_right Qplus 0 (map (fun v => b2q (f v)) r)) with (Qsum (map (fun v => b2q (f v)) r)).
  rewrite IH. destruct (f a); cbn [b2q]; [change (inject_Z 1) with 1|change (inject_Z 0) with 0]; lra.
Qed.

Lemma Pall_pos s : good s -> (0 < Pall s)%Z.
Proof. intros [H _ H1 _]. unfold Pall. pose proof (len_pos_ne _ H). lia. Qed.
Lemma Nall_pos s : good s -> (0 < Nall s)%Z.
Proof. intros [_ H _ H1]. unfold Nall. pose proof (len_pos_ne _ H). lia. Qed.
Lemma inject_Z_pos z : (0 < z)%Z -> 0 < inject_Z z.
Proof. intros H. change 0 with (inject_Z 0). now rewrite <- Zlt_Qlt. Qed.

(* ---------- closed forms of the four rates ---------- *)
Definition cpos (s : scores) (t : Q) : Z := count (fun x => dec (score_class s) (equal_class s) x (Fin t)) (pos s).
Definition cneg (s : scores) (t : Q) : Z := count (fun x => dec (score_class s) (equal_class s) x (Fin t)) (neg s).

Lemma tpr_at s t : good s -> axis_at ATpr s t == inject_Z (cpos s t + easy_pos s) / inject_Z (Pall s).
Proof.
  intros G. pose proof (inject_Z_pos _ (Pall_pos s G)) as HP.
  unfold axis_at, s_tpr, tpr, to_cm2. cbn [m00 m01].
  destruct (cm_margins s (Fin t)) as [M _]. fold (Pall s) in M.
  rewrite <- inject_Z_plus, M. rewrite rdiv_some by lra. cbn [rate_q].
  rewrite cm_counts. cbn [ctp]. reflexivity.
Qed.
Lemma fpr_at s t : good s -> axis_at AFpr s t == inject_Z (cneg s t) / inject_Z (Nall s).
Proof.
  intros G. pose proof (inject_Z_pos _ (Nall_pos s G)) as HP.
  unfold axis_at, s_fpr, fpr, to_cm2. cbn [m10 m11].
  destruct (cm_margins s (Fin t)) as [_ M]. fold (Nall s) in M.
  rewrite <- inject_Z_plus, M. rewrite rdiv_some by lra. cbn [rate_q].
  rewrite cm_counts. cbn [cfp]. reflexivity.
Qed.
Lemma fnr_at s t : good s -> axis_at AFnr s t == 1 - axis_at ATpr s t.
Proof.
  intros G. pose proof (inject_Z_pos _ (Pall_pos s G)) as HP.
  unfold axis_at, s_tpr, s_fnr, tpr, fnr, to_cm2. cbn [m00 m01].
  destruct (cm_margins s (Fin t)) as [M _]. fold (Pall s) in M.
  rewrite <- inject_Z_plus, M. rewrite !rdiv_some by lra. cbn [rate_q].
  assert (E : inject_Z (cfn (cm s (Fin t))) == inject_Z (Pall s) - inject_Z (ctp (cm s (Fin t)))).
  { rewrite <- M, inject_Z_plus. lra. }
  rewrite E. field. lra.
Qed.
Lemma tnr_at s t : good s -> axis_at ATnr s t == 1 - axis_at AFpr s t.
Proof.
  intros G. pose proof (inject_Z_pos _ (Nall_pos s G)) as HP.
  unfold axis_at, s_fpr, s_tnr, fpr, tnr, to_cm2. cbn [m10 m11].
  destruct (cm_margins s (Fin t)) as [_ M]. fold (Nall s) in M.
  rewrite <- inject_Z_plus, M. rewrite !rdiv_some by lra. cbn [rate_q].
  assert (E : inject_Z (ctn (cm s (Fin t))) == inject_Z (Nall s) - inject_Z (cfp (cm s (Fin t)))).
  { rewrite <- M, inject_Z_plus. lra. }
  rewrite E. field. lra.
Qed.

Lemma cpos_range s t : (0 <= cpos s t <= len (pos s))%Z.
Proof. split; [apply count_nonneg|apply count_le_len]. Qed.
Lemma cneg_range s t : (0 <= cneg s t <= len (neg s))%Z.
Proof. split; [apply count_nonneg|apply count_le_len]. Qed.

Lemma Qdiv_range a d : 0 <= a -> a <= d -> 0 < d -> 0 <= a / d /\ a / d <= 1.
Proof.
  intros H0 H1 Hd. split.
  - apply Qle_shift_div_l; lra.
  - apply Qle_shift_div_r; lra.
Qed.
Lemma tpr_range s t : good s -> 0 <= axis_at ATpr s t /\ axis_at ATpr s t <= 1.
Proof.
  intros G. rewrite tpr_at by exact G. pose proof (cpos_range s t). pose proof (ep_nn s G).
  apply Qdiv_range; [| |apply inject_Z_pos, Pall_pos, G].
  - change 0 with (inject_Z 0). rewrite <- Zle_Qle. lia.
  - rewrite <- Zle_Qle. unfold Pall. lia.
Qed.
Lemma fpr_range s t : good s -> 0 <= axis_at AFpr s t /\ axis_at AFpr s t <= 1.
Proof.
  intros G. rewrite fpr_at by exact G. pose proof (cneg_range s t). pose proof (en_nn s G).
  apply Qdiv_range; [| |apply inject_Z_pos, Nall_pos, G].
  - change 0 with (inject_Z 0). rewrite <- Zle_Qle. lia.
  - rewrite <- Zle_Qle. unfold Nall. lia.
Qed.

(* ---------- monotonicity of the decision rule in the threshold ---------- *)
Lemma dec_mono_pos ec v t t' : t <= t' -> dec Pos ec v (Fin t') = true -> dec Pos ec v (Fin t) = true.
Proof.
  intros H. destruct ec; cbn [dec lt_ext le_ext]; rewrite !negb_true_iff; intros E; qb; lra.
Qed.
Lemma dec_mono_neg ec v t t' : t <= t' -> dec Neg ec v (Fin t) = true -> dec Neg ec v (Fin t') = true.
Proof.
  intros H. destruct ec; cbn [dec lt_ext le_ext]; intros E; qb; lra.
Qed.
Lemma count_dec_mono sc ec l t t' : t <= t' ->
  match sc with
  | Pos => (count (fun x => dec sc ec x (Fin t')) l <= count (fun x => dec sc ec x (Fin t)) l)%Z
  | Neg => (count (fun x => dec sc ec x (Fin t)) l <= count (fun x => dec sc ec x (Fin t')) l)%Z
  end.
Proof.
  intros H. destruct sc; apply count_impl; intros x; [apply dec_mono_pos|apply dec_mono_neg]; exact H.
Qed.

Lemma sorted_snoc (l : list Q) x : sorted l -> Forall (fun v => v <= x) l -> sorted (l ++ [x]).
Proof.
  unfold sorted. induction l as [|a r IH]; intros Hs Hx; simpl.
  - constructor; constructor.
  - inversion Hs; subst. inversion Hx; subst. constructor; [now apply IH|].
    apply Forall_app. split; [assumption|]. constructor; [assumption|constructor].
Qed.
Lemma sorted_map_mono (f : Q -> Q) pts :
  sorted pts -> (forall a b, a <= b -> f a <= f b) -> sorted (map f pts).
Proof.
  unfold sorted. intros Hs Hf. induction Hs as [|a r Hr IH Hall]; simpl; constructor; [exact IH|].
  apply Forall_forall. intros v Hv. apply in_map_iff in Hv. destruct Hv as [w [<- Hw]].
  rewrite Forall_forall in Hall. apply Hf, Hall, Hw.
Qed.
Lemma sorted_rev_map_anti (f : Q -> Q) pts :
  sorted pts -> (forall a b, a <= b -> f b <= f a) -> sorted (map f (rev pts)).
Proof.
  unfold sorted. intros Hs Hf. induction Hs as [|a r Hr IH Hall]; simpl; [constructor|].
  rewrite map_app. apply sorted_snoc; [exact IH|].
  apply Forall_forall. intros v Hv. apply in_map_iff in Hv. destruct Hv as [w [<- Hw]].
  rewrite Forall_forall in Hall. apply Hf, Hall. now apply in_rev.
Qed.

Section WithCarrier.
  Variable isD : Q -> Prop.
  Variable succ pred : Q -> Q.
  Hypothesis HC : carrier isD succ pred.

  (* ---------- A.1 step lemma in the form used here: across one step a <= b of the sorted point
     list (no pred/succ of p or n strictly between a and b), if the indicator of n changes then
     the indicator of p is k(p,n) on average ---------- *)
  Ltac dbool := match goal with
    | |- context [Qltb ?x ?y] => destruct (Qltb x y) eqn:?; qb
    | |- context [Qleb ?x ?y] => destruct (Qleb x y) eqn:?; qb
    end.

  Lemma step_pair sc ec p n a b :
    isD p -> isD n -> a <= b ->
    (pred n <= a \/ b <= pred n) -> (succ n <= a \/ b <= succ n) ->
    (pred p <= a \/ b <= pred p) -> (succ p <= a \/ b <= succ p) ->
    (ind sc ec n b - ind sc ec n a) * (ind sc ec p a + ind sc ec p b) ==
    (ind sc ec n b - ind sc ec n a) * (kpair sc p n + kpair sc p n).
  Proof.
    intros Dp Dn Hab G1 G2 G3 G4.
    pose proof (succ_gt _ _ _ HC n) as Sn. pose proof (pred_lt _ _ _ HC n) as Pn.
    pose proof (succ_gt _ _ _ HC p) as Sp. pose proof (pred_lt _ _ _ HC p) as Pp.
    assert (L1 : p < n -> succ p <= n /\ p <= pred n).
    { intros H. split; [apply (succ_least _ _ _ HC)|apply (pred_greatest _ _ _ HC)]; assumption. }
    assert (L2 : n < p -> succ n <= p /\ n <= pred p).
    { intros H. split; [apply (succ_least _ _ _ HC)|apply (pred_greatest _ _ _ HC)]; assumption. }
    destruct (Qlt_le_dec p n) as [Hpn|Hpn]; [destruct (L1 Hpn)|];
    (destruct (Qlt_le_dec n p) as [Hnp|Hnp]; [destruct (L2 Hnp)|]); clear L1 L2;
    set (pa := ind sc ec p a); set (pb := ind sc ec p b); set (k := kpair sc p n);
    unfold ind, dec; destruct sc, ec; cbn [lt_ext le_ext];
    repeat dbool; cbn [negb b2q]; try lra;
    subst pa pb k; unfold ind, dec, kpair; cbn [lt_ext le_ext];
    destruct G1, G2; try lra; destruct G3; try lra; destruct G4; try lra;
    repeat (dbool; try lra); cbn [negb b2q]; lra.
  Qed.

  (* ---------- the evaluation points ---------- *)
  Definition allsc (s : scores) : list Q := pos s ++ neg s.
  Notation pts s := (auc_points succ pred s).

  Lemma pts_sorted s : sorted (pts s).
  Proof. apply isort_sorted. Qed.
  Lemma pts_pred s v : In v (allsc s) -> In (pred v) (pts s).
  Proof.
    intros H. unfold auc_points. eapply Permutation_in; [apply isort_perm|].
    apply in_or_app. left. now apply in_map.
  Qed.
  Lemma pts_succ s v : In v (allsc s) -> In (succ v) (pts s).
  Proof.
    intros H. unfold auc_points. eapply Permutation_in; [apply isort_perm|].
    apply in_or_app. right. now apply in_map.
  Qed.
  Lemma pts_len s : len (pts s) = (2 * (len (pos s) + len (neg s)))%Z.
  Proof.
    unfold auc_points, len. rewrite isort_length, app_length, !map_length, app_length. lia.
  Qed.
  Lemma pts_ne s : good s -> pts s <> [].
  Proof.
    intros G E. pose proof (pts_len s) as H. rewrite E in H.
    pose proof (len_pos_ne _ (pos_ne s G)). pose proof (len_nonneg (neg s)). change (len (@nil Q)) with 0%Z in H. lia.
  Qed.
  Lemma pts_bounds s t : In t (pts s) -> hd 0 (pts s) <= t <= last (pts s) 0.
  Proof.
    intros H. pose proof (sorted_bounds _ (pts_sorted s)) as Hb. rewrite Forall_forall in Hb.
    specialize (Hb t H). now rewrite nthZ_0, nthZ_last in Hb.
  Qed.
  Lemma pts_outside s v : In v (allsc s) -> hd 0 (pts s) < v < last (pts s) 0.
  Proof.
    intros H. pose proof (pts_bounds s _ (pts_pred s v H)). pose proof (pts_bounds s _ (pts_succ s v H)).
    pose proof (succ_gt _ _ _ HC v). pose proof (pred_lt _ _ _ HC v). lra.
  Qed.

  Lemma dec_first s sc ec v : In v (allsc s) ->
    dec sc ec v (Fin (hd 0 (pts s))) = match sc with Pos => true | Neg => false end.
  Proof.
    intros H. pose proof (pts_outside s v H). destruct sc, ec; cbn [dec lt_ext le_ext];
      rewrite ?negb_true_iff; qb; lra.
  Qed.
  Lemma dec_last s sc ec v : In v (allsc s) ->
    dec sc ec v (Fin (last (pts s) 0)) = match sc with Pos => false | Neg => true end.
  Proof.
    intros H. pose proof (pts_outside s v H). destruct sc, ec; cbn [dec lt_ext le_ext];
      rewrite ?negb_false_iff; qb; lra.
  Qed.

  (* the points in the order in which the rates increase *)
  Definition opts (s : scores) : list Q :=
    match score_class s with Pos => rev (pts s) | Neg => pts s end.
  Lemma opts_ne s : good s -> opts s <> [].
  Proof.
    intros G E. apply (pts_ne s G). unfold opts in E. destruct (score_class s); [|exact E].
    rewrite <- (rev_involutive (pts s)), E. reflexivity.
  Qed.
  Lemma opts_len s : len (opts s) = len (pts s).
  Proof. unfold opts. destruct (score_class s); [apply len_rev|reflexivity]. Qed.
  Lemma opts_in s t : In t (opts s) <-> In t (pts s).
  Proof. unfold opts. destruct (score_class s); [symmetry; apply in_rev|reflexivity]. Qed.
  Lemma dec_ofirst s v : In v (allsc s) ->
    dec (score_class s) (equal_class s) v (Fin (hd 0 (opts s))) = false.
  Proof.
    intros H. unfold opts. destruct (score_class s) eqn:SC.
    - rewrite hd_rev. apply (dec_last s Pos _ v H).
    - apply (dec_first s Neg _ v H).
  Qed.
  Lemma dec_olast s v : In v (allsc s) ->
    dec (score_class s) (equal_class s) v (Fin (last (opts s) 0)) = true.
  Proof.
    intros H. unfold opts. destruct (score_class s) eqn:SC.
    - rewrite last_rev. apply (dec_first s Pos _ v H).
    - apply (dec_last s Neg _ v H).
  Qed.
  Lemma cpos_ofirst s : cpos s (hd 0 (opts s)) = 0%Z.
  Proof. apply count_none, Forall_forall. intros v Hv. apply dec_ofirst, in_or_app. now left. Qed.
  Lemma cneg_ofirst s : cneg s (hd 0 (opts s)) = 0%Z.
  Proof. apply count_none, Forall_forall. intros v Hv. apply dec_ofirst, in_or_app. now right. Qed.
  Lemma cpos_olast s : cpos s (last (opts s) 0) = len (pos s).
  Proof. apply count_all, Forall_forall. intros v Hv. apply dec_olast, in_or_app. now left. Qed.
  Lemma cneg_olast s : cneg s (last (opts s) 0) = len (neg s).
  Proof. apply count_all, Forall_forall. intros v Hv. apply dec_olast, in_or_app. now right. Qed.

  (* rates at the two ends of the oriented point list *)
  Lemma fpr_ofirst s : good s -> axis_at AFpr s (hd 0 (opts s)) == 0.
  Proof. intros G. rewrite fpr_at, cneg_ofirst by exact G. unfold Qdiv. change (inject_Z 0) with 0. lra. Qed.
  Lemma fpr_olast s : good s -> axis_at AFpr s (last (opts s) 0) == inject_Z (len (neg s)) / inject_Z (Nall s).
  Proof. intros G. rewrite fpr_at, cneg_olast by exact G. reflexivity. Qed.
  Lemma tpr_ofirst s : good s -> axis_at ATpr s (hd 0 (opts s)) == inject_Z (easy_pos s) / inject_Z (Pall s).
  Proof. intros G. rewrite tpr_at, cpos_ofirst by exact G. reflexivity. Qed.
  Lemma tpr_olast s : good s -> axis_at ATpr s (last (opts s) 0) == 1.
  Proof.
    intros G. rewrite tpr_at, cpos_olast by exact G. fold (Pall s).
    pose proof (inject_Z_pos _ (Pall_pos s G)). field. lra.
  Qed.

  (* monotonicity along the oriented list *)
  Lemma Qdiv_le_mono a b d : a <= b -> 0 < d -> a / d <= b / d.
  Proof. intros H Hd. unfold Qdiv. apply Qmult_le_compat_r; [exact H|]. apply Qlt_le_weak, Qinv_lt_0_compat, Hd. Qed.

  Lemma opts_sorted_by s (f : Q -> Q) (c : Q -> Z) (d : Q) (e : Z) :
    0 < d -> (forall t, f t == inject_Z (c t + e) / d) ->
    (forall t t', t <= t' -> match score_class s with Pos => (c t' <= c t)%Z | Neg => (c t <= c t')%Z end) ->
    sorted (map f (opts s)).
  Proof.
    intros Hd Hf Hm. unfold opts. destruct (score_class s).
    - apply sorted_rev_map_anti; [apply pts_sorted|]. intros a b Hab. rewrite !Hf.
      apply Qdiv_le_mono; [|exact Hd]. rewrite <- Zle_Qle. specialize (Hm a b Hab). lia.
    - apply sorted_map_mono; [apply pts_sorted|]. intros a b Hab. rewrite !Hf.
      apply Qdiv_le_mono; [|exact Hd]. rewrite <- Zle_Qle. specialize (Hm a b Hab). lia.
  Qed.
  Lemma fpr_sorted s : good s -> sorted (map (axis_at AFpr s) (opts s)).
  Proof.
    intros G. apply (opts_sorted_by s _ (cneg s) (inject_Z (Nall s)) 0%Z).
    - apply inject_Z_pos, Nall_pos, G.
    - intros t. rewrite Z.add_0_r. apply fpr_at, G.
    - intros t t' H. unfold cneg. apply (count_dec_mono (score_class s) (equal_class s) (neg s) t t' H).
  Qed.
  Lemma tpr_sorted s : good s -> sorted (map (axis_at ATpr s) (opts s)).
  Proof.
    intros G. apply (opts_sorted_by s _ (cpos s) (inject_Z (Pall s)) (easy_pos s)).
    - apply inject_Z_pos, Pall_pos, G.
    - intros t. apply tpr_at, G.
    - intros t t' H. unfold cpos. apply (count_dec_mono (score_class s) (equal_class s) (pos s) t t' H).
  Qed.

  (* ---------- the orientation test ---------- *)
  Lemma orient_map (fx fy : Q -> Q) l : l <> [] ->
    (fx (last l 0) < fx (hd 0 l) -> orient (map fx l) (map fy l) = (map fx (rev l), map fy (rev l))) /\
    (fx (hd 0 l) <= fx (last l 0) -> orient (map fx l) (map fy l) = (map fx l, map fy l)).
  Proof.
    intros Hne. unfold orient. rewrite nthZ_last, nthZ_0, (last_map fx l 0 Hne), (hd_map fx l 0 Hne).
    split; intros H; destruct (Qltb _ _) eqn:E; qb; try lra; [now rewrite !map_rev|reflexivity].
  Qed.

  Lemma Nfrac_pos s : good s -> 0 < inject_Z (len (neg s)) / inject_Z (Nall s).
  Proof.
    intros G. apply Qlt_shift_div_l; [apply inject_Z_pos, Nall_pos, G|]. ring_simplify.
    apply inject_Z_pos. pose proof (len_pos_ne _ (neg_ne s G)). lia.
  Qed.
  Lemma Pfrac_lt1 s : good s -> inject_Z (easy_pos s) / inject_Z (Pall s) < 1.
  Proof.
    intros G. apply Qlt_shift_div_r; [apply inject_Z_pos, Pall_pos, G|]. ring_simplify.
    rewrite <- Zlt_Qlt. unfold Pall. pose proof (len_pos_ne _ (pos_ne s G)). lia.
  Qed.

  (* x strictly larger at the oriented end than at the oriented start: the model orients to [opts] *)
  Lemma orient_opts s (fx fy : Q -> Q) : good s ->
    fx (hd 0 (opts s)) < fx (last (opts s) 0) ->
    orient (map fx (pts s)) (map fy (pts s)) = (map fx (opts s), map fy (opts s)).
  Proof.
    intros G H. destruct (orient_map fx fy (pts s) (pts_ne s G)) as [A B].
    unfold opts in *. destruct (score_class s).
    - rewrite hd_rev, last_rev in H. apply A, H.
    - apply B. lra.
  Qed.
  (* x strictly smaller: the model orients to [rev opts] *)
  Lemma orient_ropts s (fx fy : Q -> Q) : good s ->
    fx (last (opts s) 0) < fx (hd 0 (opts s)) ->
    orient (map fx (pts s)) (map fy (pts s)) = (map fx (rev (opts s)), map fy (rev (opts s))).
  Proof.
    intros G H. destruct (orient_map fx fy (pts s) (pts_ne s G)) as [A B].
    unfold opts in *. destruct (score_class s).
    - rewrite hd_rev, last_rev in H. rewrite rev_involutive. apply B. lra.
    - apply A, H.
  Qed.

  Lemma auc_fpr s lo up ya : good s ->
    auc succ pred s lo up AFpr ya = Qabs (window (map (axis_at AFpr s) (opts s)) (map (axis_at ya s) (opts s)) lo up).
  Proof.
    intros G. rewrite auc_window. cbv zeta. rewrite orient_opts; [reflexivity|exact G|].
    rewrite fpr_ofirst, fpr_olast by exact G. apply Nfrac_pos, G.
  Qed.
  Lemma auc_tpr s lo up ya : good s ->
    auc succ pred s lo up ATpr ya = Qabs (window (map (axis_at ATpr s) (opts s)) (map (axis_at ya s) (opts s)) lo up).
  Proof.
    intros G. rewrite auc_window. cbv zeta. rewrite orient_opts; [reflexivity|exact G|].
    rewrite tpr_ofirst, tpr_olast by exact G. apply Pfrac_lt1, G.
  Qed.
  Lemma auc_tnr s lo up ya : good s ->
    auc succ pred s lo up ATnr ya =
    Qabs (window (map (axis_at ATnr s) (rev (opts s))) (map (axis_at ya s) (rev (opts s))) lo up).
  Proof.
    intros G. rewrite auc_window. cbv zeta. rewrite orient_ropts; [reflexivity|exact G|].
    rewrite !tnr_at, fpr_ofirst, fpr_olast by exact G. pose proof (Nfrac_pos s G). lra.
  Qed.

  (* ---------- one (positive, negative) pair: the trapezoid sum of the two indicators ---------- *)
  Lemma pair_trapz_pts s sc ec p n :
    Forall isD (allsc s) -> In p (allsc s) -> In n (allsc s) ->
    trapzf (ind sc ec n) (ind sc ec p) (pts s) ==
    kpair sc p n * (ind sc ec n (last (pts s) 0) - ind sc ec n (hd 0 (pts s))).
  Proof.
    intros HD Hp Hn. rewrite Forall_forall in HD.
    rewrite (trapzf_adj_ext (ind sc ec n) (ind sc ec p) (fun _ => kpair sc p n) (pts s) (pts s)).
    - apply trapzf_const_y.
    - apply pts_sorted.
    - intros t Ht. now left.
    - intros a b Hab Hg. apply step_pair; auto using pts_pred, pts_succ.
  Qed.

  Lemma pair_trapz s p n :
    Forall isD (allsc s) -> In p (allsc s) -> In n (allsc s) ->
    trapzf (ind (score_class s) (equal_class s) n) (ind (score_class s) (equal_class s) p) (opts s) ==
    kpair (score_class s) p n.
  Proof.
    intros HD Hp Hn. unfold opts. destruct (score_class s) eqn:SC.
    - rewrite trapzf_rev, (pair_trapz_pts s Pos _ p n HD Hp Hn). unfold ind.
      rewrite (dec_first s Pos _ n Hn), (dec_last s Pos _ n Hn). cbn [b2q]. lra.
    - rewrite (pair_trapz_pts s Neg _ p n HD Hp Hn). unfold ind.
      rewrite (dec_first s Neg _ n Hn), (dec_last s Neg _ n Hn). cbn [b2q]. lra.
  Qed.

  (* ---------- bilinear expansion of the trapezoid sum of two averaged indicator sums ---------- *)
  Lemma trapzf_rates (g : Q -> Q -> Q) (ps ns : list Q) (a b c : Q) (L : list Q) :
    trapzf (fun t => a * Qsum (map (fun n => g n t) ns)) (fun t => b * Qsum (map (fun p => g p t) ps) + c) L ==
    a * b * Qsum (map (fun p => Qsum (map (fun n => trapzf (g n) (g p) L) ns)) ps)
    + c * (a * Qsum (map (fun n => g n (last L 0)) ns) - a * Qsum (map (fun n => g n (hd 0 L)) ns)).
  Proof.
    set (SX := fun t => Qsum (map (fun n => g n t) ns)).
    set (SY := fun t => Qsum (map (fun p => g p t) ps)).
    change (trapzf (fun t => a * SX t) (fun t => b * SY t + c) L ==
      a * b * Qsum (map (fun p => Qsum (map (fun n => trapzf (g n) (g p) L) ns)) ps)
      + c * (a * SX (last L 0) - a * SX (hd 0 L))).
    rewrite (trapzf_add_y (fun t => a * SX t) (fun t => b * SY t) (fun _ => c) L).
    rewrite (trapzf_const_y 0 (fun t => a * SX t) c L).
    rewrite (trapzf_scale_y b (fun t => a * SX t) SY L).
    rewrite (trapzf_scale_x a SX SY L).
    unfold SY at 1. rewrite (trapzf_sum_y g ps SX L).
    rewrite (Qsum_map_ext (fun p => trapzf SX (g p) L) (fun p => Qsum (map (fun n => trapzf (g n) (g p) L) ns)) ps).
    - ring.
    - intros p _. unfold SX. apply (trapzf_sum_x g ns (g p) L).
  Qed.

  Lemma fpr_as_sum s t : good s ->
    axis_at AFpr s t == / inject_Z (Nall s) * Qsum (map (fun n => ind (score_class s) (equal_class s) n t) (neg s)).
  Proof.
    intros G. rewrite fpr_at by exact G. unfold cneg. rewrite inject_count. unfold Qdiv, ind. ring.
  Qed.
  Lemma tpr_as_sum s t : good s ->
    axis_at ATpr s t == / inject_Z (Pall s) * Qsum (map (fun p => ind (score_class s) (equal_class s) p t) (pos s))
                        + / inject_Z (Pall s) * inject_Z (easy_pos s).
  Proof.
    intros G. rewrite tpr_at by exact G. unfold cpos. rewrite inject_Z_plus, inject_count. unfold Qdiv, ind. ring.
  Qed.

  (* the polyline part: trapezoid sum of tpr against fpr along the oriented points *)
  Lemma trapzf_fpr_tpr s : good s -> Forall isD (allsc s) ->
    trapzf (axis_at AFpr s) (axis_at ATpr s) (opts s) ==
    (pair_sum (score_class s) (pos s) (neg s) + inject_Z (easy_pos s) * inject_Z (len (neg s)))
    / (inject_Z (Pall s) * inject_Z (Nall s)).
  Proof.
    intros G HD.
    pose proof (inject_Z_pos _ (Pall_pos s G)) as HP. pose proof (inject_Z_pos _ (Nall_pos s G)) as HN.
    rewrite (trapzf_ext _ (fun t => / inject_Z (Nall s) * Qsum (map (fun n => ind (score_class s) (equal_class s) n t) (neg s)))
               _ (fun t => / inject_Z (Pall s) * Qsum (map (fun p => ind (score_class s) (equal_class s) p t) (pos s))
                           + / inject_Z (Pall s) * inject_Z (easy_pos s)) (opts s));
      [|intros; apply fpr_as_sum, G|intros; apply tpr_as_sum, G].
    rewrite (trapzf_rates (ind (score_class s) (equal_class s))).
    rewrite <- !fpr_as_sum by exact G. rewrite fpr_ofirst, fpr_olast by exact G.
    rewrite (Qsum_map_ext _ (fun p => Qsum (map (fun n => kpair (score_class s) p n) (neg s))) (pos s)).
    - fold (pair_sum (score_class s) (pos s) (neg s)). field. lra.
    - intros p Hp. apply Qsum_map_ext. intros n Hn. apply pair_trapz; [exact HD| |]; apply in_or_app; auto.
  Qed.

  Lemma opts_lens s (f g : Q -> Q) : good s ->
    len (map g (opts s)) = len (map f (opts s)) /\ (1 <= len (map f (opts s)))%Z.
  Proof.
    intros G. rewrite !len_map. split; [reflexivity|]. apply len_pos_ne, opts_ne, G.
  Qed.
  Lemma Forall_map_range (f : Q -> Q) l (P : Q -> Prop) : (forall t, P (f t)) -> Forall P (map f l).
  Proof. intros H. apply Forall_forall. intros v Hv. apply in_map_iff in Hv. destruct Hv as [w [<- _]]. apply H. Qed.

  (* the signed window value for (fpr, tpr) is non-negative, so Qabs is the identity *)
  Lemma window_fpr_tpr_nonneg s lo up : good s -> lo <= up ->
    0 <= window (map (axis_at AFpr s) (opts s)) (map (axis_at ATpr s) (opts s)) lo up.
  Proof.
    intros G H. destruct (opts_lens s (axis_at AFpr s) (axis_at ATpr s) G).
    apply window_nonneg; auto; [apply fpr_sorted, G|].
    apply Forall_map_range. intros t. apply tpr_range, G.
  Qed.

  (* ---------- C07, clause 1: full AUC = Mann-Whitney ---------- *)
  Theorem full_auc_mw s : good s -> Forall isD (allsc s) ->
    auc succ pred s 0 1 AFpr ATpr == mw s.
  Proof.
    intros G HD. rewrite auc_fpr by exact G.
    rewrite Qabs_pos by (apply window_fpr_tpr_nonneg; [exact G|lra]).
    destruct (opts_lens s (axis_at AFpr s) (axis_at ATpr s) G) as [HL H1].
    rewrite window_full; [|exact HL|exact H1|apply Forall_map_range; intros t; apply fpr_range, G].
    rewrite trapz_map, !hd_map, !last_map by (apply opts_ne, G).
    rewrite trapzf_fpr_tpr by assumption.
    rewrite fpr_ofirst, fpr_olast, tpr_olast by exact G.
    pose proof (inject_Z_pos _ (Pall_pos s G)) as HP. pose proof (inject_Z_pos _ (Nall_pos s G)) as HN.
    unfold mw, mw_num. rewrite !inject_Z_mult, !inject_Z_plus, !inject_Z_mult.
    unfold Pall, Nall in *. rewrite !inject_Z_plus in *. field. lra.
  Qed.

  (* the value does not depend on equal_class *)
  Definition with_ec (s : scores) (ec : label) : scores :=
    mkScores (pos s) (neg s) (easy_pos s) (easy_neg s) (score_class s) ec.
  Corollary full_auc_indep_equal_class s ec : good s -> Forall isD (allsc s) ->
    auc succ pred (with_ec s ec) 0 1 AFpr ATpr == auc succ pred s 0 1 AFpr ATpr.
  Proof.
    intros G HD. rewrite !full_auc_mw; try assumption; [reflexivity|].
    destruct G; constructor; assumption.
  Qed.

  (* ---------- C07, clause: complementing the y-axis ---------- *)
  Theorem complement_y s lo up : good s -> lo <= up ->
    auc succ pred s lo up AFpr AFnr == (up - lo) - auc succ pred s lo up AFpr ATpr.
  Proof.
    intros G H. rewrite !auc_fpr by exact G.
    destruct (opts_lens s (axis_at AFpr s) (axis_at ATpr s) G) as [HL H1].
    set (X := map (axis_at AFpr s) (opts s)) in *. set (Y := map (axis_at ATpr s) (opts s)) in *.
    assert (E : window X (map (axis_at AFnr s) (opts s)) lo up == (up - lo) - window X Y lo up).
    { rewrite <- window_compl by assumption. apply window_F2; [apply F2_refl|].
      unfold Y. rewrite map_map. apply F2_map. intros t. apply fnr_at, G. }
    rewrite E.
    assert (0 <= window X Y lo up) by (apply window_fpr_tpr_nonneg; assumption).
    assert (window X Y lo up <= up - lo).
    { apply window_le; auto; [apply fpr_sorted, G|]. apply Forall_map_range. intros t. apply tpr_range, G. }
    rewrite !Qabs_pos by lra. reflexivity.
  Qed.

  (* ---------- C07, clause: complementing the x-axis mirrors the interval ---------- *)
  Theorem mirror_x s lo up : good s ->
    auc succ pred s (1 - up) (1 - lo) ATnr ATpr == auc succ pred s lo up AFpr ATpr.
  Proof.
    intros G. rewrite auc_fpr, auc_tnr by exact G.
    destruct (opts_lens s (axis_at AFpr s) (axis_at ATpr s) G) as [HL H1].
    assert (E : window (map (axis_at ATnr s) (rev (opts s))) (map (axis_at ATpr s) (rev (opts s))) (1 - up) (1 - lo)
                == window (map (axis_at AFpr s) (opts s)) (map (axis_at ATpr s) (opts s)) lo up).
    { rewrite <- (window_mirror _ _ lo up) by assumption.
      apply window_F2.
      - rewrite map_rev. apply F2_rev. rewrite map_map. apply F2_map. intros t. apply tnr_at, G.
      - rewrite map_rev. apply F2_refl. }
    rewrite E. reflexivity.
  Qed.

  (* ---------- C07, clause: exchanging the axes over the full range ---------- *)
  Theorem swap_axes_full s : good s ->
    auc succ pred s 0 1 ATpr AFpr == 1 - auc succ pred s 0 1 AFpr ATpr.
  Proof.
    intros G. rewrite auc_fpr, auc_tpr by exact G.
    destruct (opts_lens s (axis_at AFpr s) (axis_at ATpr s) G) as [HL H1].
    destruct (opts_lens s (axis_at ATpr s) (axis_at AFpr s) G) as [HL' H1'].
    assert (N1 : 0 <= window (map (axis_at AFpr s) (opts s)) (map (axis_at ATpr s) (opts s)) 0 1)
      by (apply window_fpr_tpr_nonneg; [exact G|lra]).
    assert (N2 : 0 <= window (map (axis_at ATpr s) (opts s)) (map (axis_at AFpr s) (opts s)) 0 1).
    { apply window_nonneg; auto; [apply tpr_sorted, G| |lra]. apply Forall_map_range. intros t. apply fpr_range, G. }
    rewrite !Qabs_pos by assumption.
    rewrite !window_full; try assumption; try (apply Forall_map_range; intros t; first [apply fpr_range, G|apply tpr_range, G]).
    rewrite !trapz_map, !hd_map, !last_map by (apply opts_ne, G).
    pose proof (trapzf_swap_axes 0 (axis_at AFpr s) (axis_at ATpr s) (opts s)) as SW.
    rewrite fpr_ofirst, fpr_olast, tpr_olast in * by exact G. lra.
  Qed.
End WithCarrier.
