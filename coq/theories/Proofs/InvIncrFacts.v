(* Proofs/InvIncrFacts.v — the normalised core of threshold setting (_invert_increasing_function):
   bracket (ties allowed), one-sample round trip (untied), coherence of the three methods. *)
From SA Require Import Model.Threshold Proofs.SentinelFacts Proofs.ExtremeFacts.
Open Scope Q_scope.

(* ---------- floor / ceiling bridges between Z and Q ---------- *)
Lemma floor_ge0 x : 0 <= x -> (0 <= Qfloor x)%Z.
Proof. intro H. apply Qfloor_resp_le in H. change 0 with (inject_Z 0) in H. now rewrite Qfloor_Z in H. Qed.
Lemma floor_lt x n : x < inject_Z n -> (Qfloor x < n)%Z.
Proof. intro H. pose proof (Qfloor_le x). rewrite Zlt_Qlt. lra. Qed.
Lemma floor_ge x n : inject_Z n <= x -> (n <= Qfloor x)%Z.
Proof. intro H. apply Qfloor_resp_le in H. now rewrite Qfloor_Z in H. Qed.
Lemma ceil_le x n : x <= inject_Z n -> (Qceiling x <= n)%Z.
Proof. intro H. apply Qceiling_resp_le in H. now rewrite Qceiling_Z in H. Qed.
Lemma ceil_gt x n : inject_Z n < x -> (n < Qceiling x)%Z.
Proof. intro H. pose proof (Qle_ceiling x). rewrite Zlt_Qlt. lra. Qed.
Lemma floor_bounds x : inject_Z (Qfloor x) <= x /\ x < inject_Z (Qfloor x) + 1.
Proof.
  split; [apply Qfloor_le|]. pose proof (Qlt_floor x) as H. rewrite inject_Z_plus in H. exact H.
Qed.
Lemma ceil_bounds x : inject_Z (Qceiling x) - 1 < x /\ x <= inject_Z (Qceiling x).
Proof.
  split; [|apply Qle_ceiling]. pose proof (Qceiling_lt x) as H. rewrite inject_Z_sub in H. exact H.
Qed.
Lemma floor_le_ceil x : (Qfloor x <= Qceiling x)%Z.
Proof. destruct (floor_bounds x), (ceil_bounds x). rewrite Zle_Qle. lra. Qed.
Lemma ceil_le_floor1 x : (Qceiling x <= Qfloor x + 1)%Z.
Proof.
  destruct (floor_bounds x), (ceil_bounds x).
  assert (inject_Z (Qceiling x) < inject_Z (Qfloor x + 2)) by (rewrite inject_Z_plus; change (inject_Z 2) with 2; lra).
  rewrite <- Zlt_Qlt in H3. lia.
Qed.
Lemma floor_eq_ceil x : Qfloor x = Qceiling x -> x == inject_Z (Qfloor x).
Proof. intro E. destruct (floor_bounds x), (ceil_bounds x). rewrite <- E in *. lra. Qed.
Lemma floor_lt_ceil x : (Qfloor x < Qceiling x)%Z -> inject_Z (Qfloor x) < x /\ x < inject_Z (Qfloor x) + 1.
Proof.
  intro H. destruct (floor_bounds x) as [A B], (ceil_bounds x) as [C D]. split; [|exact B].
  destruct (Qlt_le_dec (inject_Z (Qfloor x)) x) as [L|L]; [exact L|].
  assert (x == inject_Z (Qfloor x)) by lra. assert (Qceiling x <= Qfloor x)%Z by (apply ceil_le; lra). lia.
Qed.

(* ---------- counting on strictly sorted lists ---------- *)
Definition ssorted (l : list Q) : Prop := StronglySorted Qlt l.
Lemma ssorted_sorted l : ssorted l -> sorted l.
Proof.
  unfold ssorted, sorted. induction 1 as [|x r Hr IH Hall]; constructor; [exact IH|].
  eapply Forall_impl; [|exact Hall]. simpl. intros. lra.
Qed.
Lemma ssorted_nth_lt (l : list Q) i j : ssorted l -> (i < j)%nat -> (j < length l)%nat -> nth i l 0 < nth j l 0.
Proof.
  unfold ssorted. revert i j. induction l as [|x r IH]; intros i j Hs Hij Hj; simpl in Hj; [lia|].
  inversion Hs as [|? ? Hr Hall]; subst.
  destruct i as [|i], j as [|j]; simpl; try lia.
  - rewrite Forall_forall in Hall. apply Hall, nth_In. lia.
  - apply IH; [exact Hr|lia|lia].
Qed.

Notation cntlt l t := (count (fun x => Qltb x t) l).
Notation cntle l t := (count (fun x => Qleb x t) l).

Lemma cntlt_compat l t t' : t == t' -> cntlt l t = cntlt l t'.
Proof.
  intro E. apply count_ext. intros x _. destruct (Qltb x t) eqn:A, (Qltb x t') eqn:B; try reflexivity; qb; lra.
Qed.
Lemma cntle_compat l t t' : t == t' -> cntle l t = cntle l t'.
Proof.
  intro E. apply count_ext. intros x _. destruct (Qleb x t) eqn:A, (Qleb x t') eqn:B; try reflexivity; qb; lra.
Qed.
Lemma cntlt_le_cntle l t : (cntlt l t <= cntle l t)%Z.
Proof. apply count_impl. intros x H. qb. lra. Qed.

(* at the i-th element of a strictly sorted list exactly i elements are below, i+1 at or below *)
Lemma ssorted_counts_at (l : list Q) (i : nat) : ssorted l -> (i < length l)%nat ->
  cntlt l (nth i l 0) = Z.of_nat i /\ cntle l (nth i l 0) = (Z.of_nat i + 1)%Z.
Proof.
  intros Hs Hi. pose proof (ssorted_sorted l Hs) as Hs'. split.
  - apply Z.le_antisymm.
    + apply count_lt_le_index; [exact Hs'|exact Hi|lra].
    + destruct i as [|i]; [apply count_nonneg|].
      pose proof (count_lt_ge_index l i (nth (S i) l 0) Hs' ltac:(lia) (ssorted_nth_lt l i (S i) Hs ltac:(lia) Hi)). lia.
  - apply Z.le_antisymm.
    + destruct (Nat.eq_dec (S i) (length l)) as [E|E].
      * pose proof (count_le_len (fun x => Qleb x (nth i l 0)) l). unfold len in H. lia.
      * pose proof (count_le_le_index l (S i) (nth i l 0) Hs' ltac:(lia) (ssorted_nth_lt l i (S i) Hs ltac:(lia) ltac:(lia))). lia.
    + apply count_le_ge_index; [exact Hs'|exact Hi|lra].
Qed.
(* strictly between two neighbours: i+1 elements below and at-or-below *)
Lemma sorted_counts_between (l : list Q) (i : nat) (t : Q) : sorted l -> (S i < length l)%nat ->
  nth i l 0 < t -> t < nth (S i) l 0 ->
  cntlt l t = (Z.of_nat i + 1)%Z /\ cntle l t = (Z.of_nat i + 1)%Z.
Proof.
  intros Hs Hi H1 H2.
  pose proof (count_lt_ge_index l i t Hs ltac:(lia) H1).
  pose proof (count_le_le_index l (S i) t Hs Hi H2).
  pose proof (cntlt_le_cntle l t). lia.
Qed.

Definition clip01 (u : Q) : Q := Qmin2 (Qmax2 u 0) 1.
Lemma clip01_spec u :
  (u <= 0 -> clip01 u == 0) /\ (1 <= u -> clip01 u == 1) /\ (0 <= u -> u <= 1 -> clip01 u == u) /\
  0 <= clip01 u /\ clip01 u <= 1.
Proof.
  unfold clip01, Qmin2, Qmax2.
  destruct (Qleb u 0) eqn:A; [destruct (Qleb 0 1) eqn:B|destruct (Qleb u 1) eqn:B]; qb; repeat split; intros; lra.
Qed.

Definition shifted (l : list Q) (u : Q) (lc : bool) : Q := if negb lc then u - 1 / inject_Z (len l) else u.
Definition xpos (l : list Q) (u : Q) (lc : bool) : Q := shifted l u lc * inject_Z (len l).
Definition clampZ (n i : Z) : Z := Z.max (Z.min i (n - 1)) 0.
Definition interior (l : list Q) (u : Q) (lc : bool) : Prop := u < 1 /\ 0 < shifted l u lc.

Lemma inv_cases l u lc : 1 <= u \/ (u < 1 /\ shifted l u lc <= 0) \/ interior l u lc.
Proof.
  destruct (Qlt_le_dec u 1) as [A|A]; [|left; exact A]. right.
  destruct (Qlt_le_dec 0 (shifted l u lc)) as [B|B]; [right; split; assumption|left; split; assumption].
Qed.

Lemma lenQ_pos (l : list Q) : (1 <= len l)%Z -> 1 <= inject_Z (len l).
Proof. intro H. change 1 with (inject_Z 1). now rewrite <- Zle_Qle. Qed.

Lemma xpos_u l u lc : (1 <= len l)%Z -> u * inject_Z (len l) == xpos l u lc + (if lc then 0 else 1).
Proof.
  intro H. pose proof (lenQ_pos l H). unfold xpos, shifted. destruct lc; cbn [negb]; [ring|].
  field. lra.
Qed.

Lemma interior_x l u lc : (1 <= len l)%Z -> interior l u lc ->
  0 < xpos l u lc /\ xpos l u lc < inject_Z (len l) /\ (lc = false -> xpos l u lc < inject_Z (len l) - 1) /\ 0 < u.
Proof.
  intros H [H1 H2]. pose proof (lenQ_pos l H) as HN. pose proof (xpos_u l u lc H) as E.
  assert (P : 0 < xpos l u lc) by (unfold xpos; apply Qmult_lt_0_compat; lra).
  assert (U : u * inject_Z (len l) < inject_Z (len l)) by nra.
  assert (0 < 1 / inject_Z (len l)) by (apply Qlt_shift_div_l; lra).
  destruct lc; cbn [negb] in *; unfold shifted in H2; cbn [negb] in H2; repeat split; try lra; try discriminate.
Qed.

Section Core.
  Variable succ pred : Q -> Q.
  Hypothesis Hsucc : forall x, x < succ x.
  Hypothesis Hpred : forall x, pred x < x.
  Notation inv := (inv_incr succ pred).

  Lemma inv_interior l u lc m : interior l u lc ->
    inv l u lc m =
      match m with
      | Linear => (inject_Z (Qceiling (xpos l u lc)) - xpos l u lc) * nthZ l (clampZ (len l) (Qfloor (xpos l u lc)))
                  + (1 - (inject_Z (Qceiling (xpos l u lc)) - xpos l u lc)) * nthZ l (clampZ (len l) (Qceiling (xpos l u lc)))
      | Lower => nthZ l (clampZ (len l) (Qfloor (xpos l u lc)))
      | Higher => nthZ l (clampZ (len l) (Qceiling (xpos l u lc)))
      end.
  Proof.
    intros [H1 H2]. unfold inv_incr, xpos, shifted, clampZ in *. cbv zeta.
    assert (A : Qleb 1 u = false) by (qb; lra). rewrite A.
    assert (B : Qleb (if negb lc then u - 1 / inject_Z (len l) else u) 0 = false) by (qb; lra). rewrite B.
    reflexivity.
  Qed.
  Lemma inv_low_sentinel l u lc m : u < 1 -> shifted l u lc <= 0 -> inv l u lc m = pred (nthZ l 0).
  Proof.
    intros H1 H2. unfold inv_incr, shifted in *. cbv zeta.
    assert (A : Qleb 1 u = false) by (qb; lra). rewrite A.
    assert (B : Qleb (if negb lc then u - 1 / inject_Z (len l) else u) 0 = true) by (qb; lra). rewrite B.
    reflexivity.
  Qed.

  (* index facts in the interior *)
  Lemma interior_idx l u lc : (1 <= len l)%Z -> interior l u lc ->
    let x := xpos l u lc in
    (0 <= Qfloor x <= len l - 1)%Z /\ (1 <= Qceiling x <= len l)%Z /\
    clampZ (len l) (Qfloor x) = Qfloor x /\ clampZ (len l) (Qceiling x) = Z.min (Qceiling x) (len l - 1) /\
    (lc = false -> Qceiling x <= len l - 1)%Z.
  Proof.
    intros H Hi. cbv zeta. destruct (interior_x l u lc H Hi) as (P & Q1 & Q2 & _).
    assert (0 <= Qfloor (xpos l u lc))%Z by (apply floor_ge0; lra).
    assert (Qfloor (xpos l u lc) < len l)%Z by (apply floor_lt; exact Q1).
    assert (0 < Qceiling (xpos l u lc))%Z by (apply ceil_gt; exact P).
    assert (Qceiling (xpos l u lc) <= len l)%Z by (apply ceil_le; lra).
    unfold clampZ. repeat split; try lia.
    intro E. apply ceil_le. rewrite inject_Z_sub. specialize (Q2 E). change (inject_Z 1) with 1. lra.
  Qed.

  Lemma nthZ_mono l i j : sorted l -> (0 <= i <= j)%Z -> (j < len l)%Z -> nthZ l i <= nthZ l j.
  Proof. intros Hs Hij Hj. unfold nthZ, len in *. apply sorted_nth_mono; [exact Hs|lia|lia]. Qed.

  (* the interpolated threshold lies between the two selected order statistics *)
  Lemma linear_between l u lc : sorted l -> (1 <= len l)%Z -> interior l u lc ->
    let x := xpos l u lc in
    nthZ l (clampZ (len l) (Qfloor x)) <= inv l u lc Linear /\ inv l u lc Linear <= nthZ l (clampZ (len l) (Qceiling x)).
  Proof.
    intros Hs H Hi. cbv zeta. rewrite (inv_interior l u lc Linear Hi).
    destruct (interior_idx l u lc H Hi) as (A & B & C & D & _). cbv zeta in *.
    set (x := xpos l u lc) in *. rewrite C, D.
    pose proof (floor_le_ceil x). destruct (ceil_bounds x) as [L1 L2].
    assert (M : nthZ l (Qfloor x) <= nthZ l (Z.min (Qceiling x) (len l - 1))) by (apply nthZ_mono; [exact Hs|lia|lia]).
    set (a := nthZ l (Qfloor x)) in *. set (b := nthZ l (Z.min (Qceiling x) (len l - 1))) in *.
    set (la := inject_Z (Qceiling x) - x) in *. assert (0 <= la) by (unfold la; lra). assert (la < 1) by (unfold la; lra).
    split; nra.
  Qed.

  Lemma counts_low_sentinel l : sorted l ->
    cntlt l (pred (nthZ l 0)) = 0%Z /\ cntle l (pred (nthZ l 0)) = 0%Z.
  Proof. intro Hs. apply (count_below_all l). apply below_lower_sentinel; assumption. Qed.
  Lemma counts_high_sentinel l : sorted l ->
    cntlt l (succ (nthZ l (len l - 1))) = len l /\ cntle l (succ (nthZ l (len l - 1))) = len l.
  Proof. intro Hs. apply (count_above_all l). apply above_upper_sentinel; assumption. Qed.

  (* ----- the bracket: ties allowed ----- *)
  Theorem bracket l u lc : sorted l -> (1 <= len l)%Z ->
    inject_Z (cntlt l (inv l u lc Linear)) - 1 <= clip01 u * inject_Z (len l) /\
    clip01 u * inject_Z (len l) <= inject_Z (cntle l (inv l u lc Linear)) + 1.
  Proof.
    intros Hs H. pose proof (lenQ_pos l H) as HN. destruct (clip01_spec u) as (C0 & C1 & Cm & Cl & Ch).
    destruct (inv_cases l u lc) as [A|[[A B]|Hi]].
    - rewrite inv_upper by exact A. destruct (counts_high_sentinel l Hs) as [E1 E2]. rewrite E1, E2, (C1 A). lra.
    - rewrite inv_low_sentinel by assumption. destruct (counts_low_sentinel l Hs) as [E1 E2]. rewrite E1, E2.
      change (inject_Z 0) with 0.
      assert (clip01 u * inject_Z (len l) <= 1).
      { destruct lc; unfold shifted in B; cbn [negb] in B.
        - rewrite (C0 B). lra.
        - assert (0 < 1 / inject_Z (len l)) by (apply Qlt_shift_div_l; lra).
          destruct (Qlt_le_dec u 0) as [L|L]; [rewrite (C0 ltac:(lra)); lra|].
          rewrite (Cm L ltac:(lra)). assert (u * inject_Z (len l) <= 1 / inject_Z (len l) * inject_Z (len l)) by nra.
          assert (1 / inject_Z (len l) * inject_Z (len l) == 1) by (field; lra). lra. }
      assert (0 <= clip01 u * inject_Z (len l)) by nra. lra.
    - destruct (linear_between l u lc Hs H Hi) as [L1 L2]. cbv zeta in *.
      destruct (interior_idx l u lc H Hi) as (A & B & C & D & _). cbv zeta in *.
      destruct (interior_x l u lc H Hi) as (P & Q1 & _ & Up). destruct Hi as [U1 U2].
      rewrite (Cm ltac:(lra) ltac:(lra)). rewrite (xpos_u l u lc H).
      set (x := xpos l u lc) in *. set (T := inv l u lc Linear) in *.
      rewrite C in L1. rewrite D in L2.
      assert (K1 : (cntlt l T <= Z.min (Qceiling x) (len l - 1))%Z).
      { pose proof (count_lt_le_index l (Z.to_nat (Z.min (Qceiling x) (len l - 1))) T Hs) as K.
        unfold nthZ in L2. unfold len in *. specialize (K ltac:(lia) L2). lia. }
      assert (K2 : (Qfloor x + 1 <= cntle l T)%Z).
      { pose proof (count_le_ge_index l (Z.to_nat (Qfloor x)) T Hs) as K.
        unfold nthZ in L1. unfold len in *. specialize (K ltac:(lia) L1). lia. }
      assert (K1' : inject_Z (cntlt l T) <= inject_Z (Qceiling x)) by (rewrite <- Zle_Qle; lia).
      assert (K2' : inject_Z (Qfloor x) + 1 <= inject_Z (cntle l T)).
      { change 1 with (inject_Z 1). rewrite <- inject_Z_plus, <- Zle_Qle. exact K2. }
      destruct (floor_bounds x), (ceil_bounds x). destruct lc; lra.
  Qed.
End Core.

Section Untied.
  Variable succ pred : Q -> Q.
  Hypothesis Hsucc : forall x, x < succ x.
  Hypothesis Hpred : forall x, pred x < x.
  Notation inv := (inv_incr succ pred).

  Definition within1 (c : Z) (v : Q) : Prop := inject_Z c - 1 <= v /\ v <= inject_Z c + 1.

  (* ----- untied scores: BOTH one-sided counts at the returned threshold are within one sample of
     the clipped target, whatever the continuity flag; so the metric is, whichever of the two it is ----- *)
  Theorem roundtrip_untied l u lc : ssorted l -> (1 <= len l)%Z ->
    within1 (cntlt l (inv l u lc Linear)) (clip01 u * inject_Z (len l)) /\
    within1 (cntle l (inv l u lc Linear)) (clip01 u * inject_Z (len l)).
  Proof.
    intros Hss H. pose proof (ssorted_sorted l Hss) as Hs. pose proof (lenQ_pos l H) as HN.
    destruct (clip01_spec u) as (C0 & C1 & Cm & Cl & Ch). unfold within1.
    destruct (inv_cases l u lc) as [A|[[A B]|Hi]].
    - rewrite inv_upper by exact A. destruct (counts_high_sentinel succ Hsucc l Hs) as [E1 E2]. rewrite E1, E2, (C1 A). lra.
    - rewrite inv_low_sentinel by assumption. destruct (counts_low_sentinel pred Hpred l Hs) as [E1 E2]. rewrite E1, E2.
      change (inject_Z 0) with 0.
      assert (clip01 u * inject_Z (len l) <= 1).
      { destruct lc; unfold shifted in B; cbn [negb] in B.
        - rewrite (C0 B). lra.
        - assert (0 < 1 / inject_Z (len l)) by (apply Qlt_shift_div_l; lra).
          destruct (Qlt_le_dec u 0) as [L|L]; [rewrite (C0 ltac:(lra)); lra|].
          rewrite (Cm L ltac:(lra)). assert (u * inject_Z (len l) <= 1 / inject_Z (len l) * inject_Z (len l)) by nra.
          assert (1 / inject_Z (len l) * inject_Z (len l) == 1) by (field; lra). lra. }
      assert (0 <= clip01 u * inject_Z (len l)) by nra. lra.
    - destruct (interior_idx l u lc H Hi) as (A & B & C & D & E). cbv zeta in *.
      destruct (interior_x l u lc H Hi) as (P & Q1 & _ & Up). pose proof Hi as [U1 U2].
      rewrite (Cm ltac:(lra) ltac:(lra)). rewrite (xpos_u l u lc H).
      rewrite (inv_interior succ pred l u lc Linear Hi). rewrite C, D.
      set (x := xpos l u lc) in *.
      destruct (Z.eq_dec (Qfloor x) (Qceiling x)) as [Eq|Ne].
      + (* x is an integer k: T == l[k] *)
        pose proof (floor_eq_ceil x Eq) as Ex. rewrite <- Eq.
        assert (Hk : (Qfloor x <= len l - 1)%Z) by lia. rewrite Z.min_l by lia.
        set (k := Qfloor x) in *.
        assert (ET : (inject_Z k - x) * nthZ l k + (1 - (inject_Z k - x)) * nthZ l k == nthZ l k) by ring.
        rewrite (cntlt_compat l _ _ ET), (cntle_compat l _ _ ET).
        destruct (ssorted_counts_at l (Z.to_nat k) Hss) as [F1 F2]; [unfold len in *; lia|].
        unfold nthZ. rewrite F1, F2. rewrite Z2Nat.id by lia.
        rewrite inject_Z_plus. change (inject_Z 1) with 1. destruct lc; lra.
      + assert (Hlt : (Qfloor x < Qceiling x)%Z) by (pose proof (floor_le_ceil x); lia).
        destruct (floor_lt_ceil x Hlt) as [X1 X2]. pose proof (ceil_le_floor1 x) as Hc.
        assert (Ec : Qceiling x = (Qfloor x + 1)%Z) by lia. set (k := Qfloor x) in *.
        destruct (Z.eq_dec k (len l - 1)) as [Last|NotLast].
        * (* beyond the last score: T == l[N-1]; only the left-continuous flag reaches here *)
          destruct lc; [|specialize (E eq_refl); lia].
          rewrite Z.min_r by lia. rewrite <- Last.
          assert (ET : (inject_Z (Qceiling x) - x) * nthZ l k + (1 - (inject_Z (Qceiling x) - x)) * nthZ l k == nthZ l k) by ring.
          rewrite (cntlt_compat l _ _ ET), (cntle_compat l _ _ ET).
          destruct (ssorted_counts_at l (Z.to_nat k) Hss) as [F1 F2]; [unfold len in *; lia|].
          unfold nthZ. rewrite F1, F2. rewrite Z2Nat.id by lia.
          rewrite inject_Z_plus. change (inject_Z 1) with 1. lra.
        * (* strictly between l[k] and l[k+1] *)
          rewrite Z.min_l by lia. rewrite Ec.
          assert (Hn : nthZ l k < nthZ l (k + 1)).
          { unfold nthZ. replace (Z.to_nat (k + 1)) with (S (Z.to_nat k)) by lia.
            apply ssorted_nth_lt; [exact Hss|lia|unfold len in *; lia]. }
          set (a := nthZ l k) in *. set (b := nthZ l (k + 1)) in *.
          rewrite inject_Z_plus. change (inject_Z 1) with 1.
          set (la := inject_Z k + 1 - x). assert (0 < la) by (unfold la; lra). assert (la < 1) by (unfold la; lra).
          assert (T1 : a < la * a + (1 - la) * b) by nra.
          assert (T2 : la * a + (1 - la) * b < b) by nra.
          destruct (sorted_counts_between l (Z.to_nat k) (la * a + (1 - la) * b) Hs) as [F1 F2].
          { unfold len in *. lia. }
          { exact T1. }
          { assert (Eb : b = nth (S (Z.to_nat k)) l 0) by (unfold b, nthZ; f_equal; lia). rewrite <- Eb. exact T2. }
          rewrite F1, F2. rewrite Z2Nat.id by lia.
          rewrite inject_Z_plus. change (inject_Z 1) with 1. destruct lc; lra.
  Qed.

  (* ----- coherence of the three methods (normalised, increasing metric) ----- *)
  Theorem lower_higher_in_list l u lc : (1 <= len l)%Z ->
    (In (inv l u lc Lower) l \/ inv l u lc Lower = pred (nthZ l 0) \/ inv l u lc Lower = succ (nthZ l (len l - 1))) /\
    (In (inv l u lc Higher) l \/ inv l u lc Higher = pred (nthZ l 0) \/ inv l u lc Higher = succ (nthZ l (len l - 1))).
  Proof.
    intro H. destruct (inv_cases l u lc) as [A|[[A B]|Hi]].
    - rewrite !inv_upper by exact A. split; right; right; reflexivity.
    - rewrite !inv_low_sentinel by assumption. split; right; left; reflexivity.
    - rewrite !(inv_interior succ pred l u lc _ Hi).
      destruct (interior_idx l u lc H Hi) as (A & B & C & D & _). cbv zeta in *.
      split; left; unfold nthZ; apply nth_In; unfold clampZ, len in *; lia.
  Qed.

  Theorem lower_le_linear_le_higher l u lc : sorted l -> (1 <= len l)%Z ->
    inv l u lc Lower <= inv l u lc Linear /\ inv l u lc Linear <= inv l u lc Higher.
  Proof.
    intros Hs H. destruct (inv_cases l u lc) as [A|[[A B]|Hi]].
    - rewrite !inv_upper by exact A. lra.
    - rewrite !inv_low_sentinel by assumption. lra.
    - destruct (linear_between succ pred l u lc Hs H Hi) as [L1 L2]. cbv zeta in *.
      rewrite (inv_interior succ pred l u lc Lower Hi), (inv_interior succ pred l u lc Higher Hi). split; assumption.
  Qed.

  (* linear is the convex combination of lower and higher weighted by ceil(x) - x, x = target index *)
  Theorem linear_convex l u lc :
    let la := inject_Z (Qceiling (xpos l u lc)) - xpos l u lc in
    inv l u lc Linear == la * inv l u lc Lower + (1 - la) * inv l u lc Higher.
  Proof.
    cbv zeta. destruct (inv_cases l u lc) as [A|[[A B]|Hi]].
    - rewrite !inv_upper by exact A. ring.
    - rewrite !inv_low_sentinel by assumption. ring.
    - rewrite !(inv_interior succ pred l u lc _ Hi). reflexivity.
  Qed.

  (* counts are monotone in the threshold, hence metric(lower) <= metric(higher) for the
     normalised increasing metric *)
  Lemma cntlt_mono l t t' : t <= t' -> (cntlt l t <= cntlt l t')%Z.
  Proof. intro H. apply count_impl. intros x Hx. qb. lra. Qed.
  Lemma cntle_mono l t t' : t <= t' -> (cntle l t <= cntle l t')%Z.
  Proof. intro H. apply count_impl. intros x Hx. qb. lra. Qed.
  Theorem lower_higher_counts l u lc : sorted l -> (1 <= len l)%Z ->
    (cntlt l (inv l u lc Lower) <= cntlt l (inv l u lc Higher))%Z /\
    (cntle l (inv l u lc Lower) <= cntle l (inv l u lc Higher))%Z.
  Proof.
    intros Hs H. destruct (lower_le_linear_le_higher l u lc Hs H).
    split; [apply cntlt_mono|apply cntle_mono]; lra.
  Qed.
End Untied.

(* ----- the returned threshold is a monotone function of the target ----- *)
Lemma floor_mono x y : x <= y -> (Qfloor x <= Qfloor y)%Z.
Proof. apply Qfloor_resp_le. Qed.
Lemma ceil_mono x y : x <= y -> (Qceiling x <= Qceiling y)%Z.
Proof. apply Qceiling_resp_le. Qed.
Lemma cell_cases x y : x <= y ->
  (Qceiling x <= Qfloor y)%Z \/ (Qfloor x = Qfloor y /\ Qceiling x = Qceiling y).
Proof.
  intro H. destruct (Z_le_gt_dec (Qceiling x) (Qfloor y)) as [L|G]; [left; exact L|right].
  pose proof (floor_mono x y H). pose proof (ceil_mono x y H).
  pose proof (ceil_le_floor1 x). pose proof (ceil_le_floor1 y). pose proof (floor_le_ceil x). pose proof (floor_le_ceil y).
  split; lia.
Qed.

Section Monotone.
  Variable succ pred : Q -> Q.
  Hypothesis Hsucc : forall x, x < succ x.
  Hypothesis Hpred : forall x, pred x < x.
  Notation inv := (inv_incr succ pred).

  Lemma shifted_mono l u u' lc : u <= u' -> shifted l u lc <= shifted l u' lc.
  Proof. intro H. unfold shifted. destruct lc; cbn [negb]; lra. Qed.
  Lemma xpos_mono l u u' lc : (1 <= len l)%Z -> u <= u' -> xpos l u lc <= xpos l u' lc.
  Proof. intros Hn H. pose proof (lenQ_pos l Hn). pose proof (shifted_mono l u u' lc H). unfold xpos. nra. Qed.

  Lemma interior_in_range l u lc m : sorted l -> (1 <= len l)%Z -> interior l u lc ->
    nthZ l 0 <= inv l u lc m /\ inv l u lc m <= nthZ l (len l - 1).
  Proof.
    intros Hs H Hi. destruct (interior_idx l u lc H Hi) as (A & B & C & D & _). cbv zeta in *.
    destruct (linear_between succ pred l u lc Hs H Hi) as [L1 L2]. cbv zeta in *.
    rewrite C in L1. rewrite D in L2.
    assert (M1 : nthZ l 0 <= nthZ l (Qfloor (xpos l u lc))) by (apply (nthZ_mono l); [exact Hs|lia|lia]).
    assert (M2 : nthZ l (Z.min (Qceiling (xpos l u lc)) (len l - 1)) <= nthZ l (len l - 1)) by (apply (nthZ_mono l); [exact Hs|lia|lia]).
    assert (M3 : nthZ l (Qfloor (xpos l u lc)) <= nthZ l (len l - 1)) by (apply (nthZ_mono l); [exact Hs|lia|lia]).
    assert (M4 : nthZ l 0 <= nthZ l (Z.min (Qceiling (xpos l u lc)) (len l - 1))) by (apply (nthZ_mono l); [exact Hs|lia|lia]).
    rewrite (inv_interior succ pred l u lc m Hi). rewrite C, D.
    destruct m; [split; lra|split; lra|].
    rewrite (inv_interior succ pred l u lc Linear Hi), C, D in L1, L2. split; lra.
  Qed.

  Theorem inv_monotone l u u' lc m : sorted l -> (1 <= len l)%Z -> u <= u' -> inv l u lc m <= inv l u' lc m.
  Proof.
    intros Hs H Hu. pose proof (shifted_mono l u u' lc Hu) as Hsh.
    destruct (inv_cases l u' lc) as [A'|[[A' B']|Hi']].
    - (* upper sentinel on the right *)
      rewrite (inv_upper succ pred l u' lc m A').
      destruct (inv_cases l u lc) as [A|[[A B]|Hi]].
      + rewrite (inv_upper succ pred l u lc m A). lra.
      + rewrite (inv_low_sentinel succ pred l u lc m A B).
        pose proof (Hpred (nthZ l 0)). pose proof (Hsucc (nthZ l (len l - 1))).
        assert (nthZ l 0 <= nthZ l (len l - 1)) by (apply (nthZ_mono l); [exact Hs|lia|lia]). lra.
      + destruct (interior_in_range l u lc m Hs H Hi). pose proof (Hsucc (nthZ l (len l - 1))). lra.
    - (* lower sentinel on the right: then also on the left *)
      rewrite (inv_low_sentinel succ pred l u' lc m A' B').
      rewrite (inv_low_sentinel succ pred l u lc m); [lra|lra|lra].
    - destruct (inv_cases l u lc) as [A|[[A B]|Hi]].
      + destruct Hi' as [U1 _]. lra.
      + rewrite (inv_low_sentinel succ pred l u lc m A B).
        destruct (interior_in_range l u' lc m Hs H Hi'). pose proof (Hpred (nthZ l 0)). lra.
      + (* both interior *)
        destruct (interior_idx l u lc H Hi) as (A & B & C & D & _).
        destruct (interior_idx l u' lc H Hi') as (A' & B' & C' & D' & _). cbv zeta in *.
        pose proof (xpos_mono l u u' lc H Hu) as Hx.
        set (x := xpos l u lc) in *. set (x' := xpos l u' lc) in *.
        destruct (linear_between succ pred l u lc Hs H Hi) as [L1 L2].
        destruct (linear_between succ pred l u' lc Hs H Hi') as [L1' L2']. cbv zeta in *.
        fold x in L1, L2. fold x' in L1', L2'. rewrite C in L1. rewrite D in L2. rewrite C' in L1'. rewrite D' in L2'.
        assert (Hlow : nthZ l (Qfloor x) <= inv l u lc m /\ inv l u lc m <= nthZ l (Z.min (Qceiling x) (len l - 1))).
        { rewrite (inv_interior succ pred l u lc m Hi). fold x. rewrite C, D.
          assert (nthZ l (Qfloor x) <= nthZ l (Z.min (Qceiling x) (len l - 1))) by (apply (nthZ_mono l); [exact Hs|pose proof (floor_le_ceil x); lia|lia]).
          destruct m; [split; lra|split; lra|].
          rewrite (inv_interior succ pred l u lc Linear Hi) in L1, L2. fold x in L1, L2. rewrite C, D in L1, L2. split; lra. }
        assert (Hhigh : nthZ l (Qfloor x') <= inv l u' lc m /\ inv l u' lc m <= nthZ l (Z.min (Qceiling x') (len l - 1))).
        { rewrite (inv_interior succ pred l u' lc m Hi'). fold x'. rewrite C', D'.
          assert (nthZ l (Qfloor x') <= nthZ l (Z.min (Qceiling x') (len l - 1))) by (apply (nthZ_mono l); [exact Hs|pose proof (floor_le_ceil x'); lia|lia]).
          destruct m; [split; lra|split; lra|].
          rewrite (inv_interior succ pred l u' lc Linear Hi') in L1', L2'. fold x' in L1', L2'. rewrite C', D' in L1', L2'. split; lra. }
        destruct (cell_cases x x' Hx) as [Sep|[Ef Ec]].
        * (* different cells: inv u <= l[ceil x] <= l[floor x'] <= inv u' *)
          assert (nthZ l (Z.min (Qceiling x) (len l - 1)) <= nthZ l (Qfloor x')) by (apply (nthZ_mono l); [exact Hs|lia|lia]).
          destruct Hlow, Hhigh. lra.
        * (* same cell: same indices, weights ordered *)
          rewrite (inv_interior succ pred l u lc m Hi), (inv_interior succ pred l u' lc m Hi'). fold x x'.
          rewrite C, D, C', D', Ef, Ec.
          destruct m; [lra|lra|].
          assert (Hab : nthZ l (Qfloor x') <= nthZ l (Z.min (Qceiling x') (len l - 1))) by (apply (nthZ_mono l); [exact Hs|pose proof (floor_le_ceil x'); lia|lia]).
          set (a := nthZ l (Qfloor x')) in *. set (b := nthZ l (Z.min (Qceiling x') (len l - 1))) in *.
          set (c := inject_Z (Qceiling x')). nra.
  Qed.
End Monotone.
