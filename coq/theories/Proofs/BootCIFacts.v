(* Proofs/BootCIFacts.v — facts about the model of utils.bootstrap_ci (Model/BootCI.v). *)
From SA Require Import Model.BootCI Proofs.QuantileFacts.
Open Scope Q_scope.

(* ---------- relations on possibly-NaN / extended values and on results ---------- *)
Definition req2 (a b : rate * rate) : Prop := req (fst a) (fst b) /\ req (snd a) (snd b).
Definition res_rel {A} (R : A -> A -> Prop) (x y : res A) : Prop :=
  match x, y with Ok a, Ok b => R a b | Err, Err => True | _, _ => False end.

Definition ext_eq (a b : ext) : Prop :=
  match a, b with NegInf, NegInf | PosInf, PosInf => True | Fin x, Fin y => x == y | _, _ => False end.
Definition ext_le (a b : ext) : Prop :=
  match a, b with
  | NegInf, _ => True
  | _, PosInf => True
  | Fin x, Fin y => x <= y
  | _, _ => False
  end.
Definition xeq (a b : xval) : Prop :=
  match a, b with Some x, Some y => ext_eq x y | None, None => True | _, _ => False end.
Definition xle (a b : xval) : Prop :=
  match a, b with Some x, Some y => ext_le x y | None, None => True | _, _ => False end.

Lemma req_refl a : req a a.
Proof. destruct a; simpl; [reflexivity|exact I]. Qed.
Lemma req_sym a b : req a b -> req b a.
Proof. destruct a, b; simpl; auto. intro H; now symmetry. Qed.
Lemma req_trans a b c : req a b -> req b c -> req a c.
Proof. destruct a, b, c; simpl; auto; try tauto. intros H1 H2. now rewrite H1. Qed.
Lemma rle_refl a : rle a a.
Proof. destruct a; simpl; [apply Qle_refl|exact I]. Qed.
Lemma rle_trans a b c : rle a b -> rle b c -> rle a c.
Proof. destruct a, b, c; simpl; auto; try tauto. apply Qle_trans. Qed.
Lemma req_rle a b : req a b -> rle a b.
Proof. destruct a, b; simpl; auto. intro H. rewrite H. apply Qle_refl. Qed.
Lemma rle_req_l a a' b : req a a' -> rle a b -> rle a' b.
Proof. destruct a, a', b; simpl; auto; try tauto. intros H. now rewrite H. Qed.
Lemma rle_req_r a b b' : req b b' -> rle a b -> rle a b'.
Proof. destruct a, b, b'; simpl; auto; try tauto. intros H. now rewrite H. Qed.
Lemma xeq_refl a : xeq a a.
Proof. destruct a as [[| |]|]; simpl; auto. reflexivity. Qed.

Lemma Qleb_comp a a' b b' : a == a' -> b == b' -> Qleb a b = Qleb a' b'.
Proof.
  intros Ha Hb. destruct (Qleb a b) eqn:E1, (Qleb a' b') eqn:E2; auto; qb; exfalso; lra.
Qed.
Lemma Qltb_comp a a' b b' : a == a' -> b == b' -> Qltb a b = Qltb a' b'.
Proof. intros Ha Hb. unfold Qltb. f_equal. now apply Qleb_comp. Qed.
Lemma Qeqb_comp a a' b b' : a == a' -> b == b' -> Qeqb a b = Qeqb a' b'.
Proof.
  intros Ha Hb. destruct (Qeqb a b) eqn:E1, (Qeqb a' b') eqn:E2; auto.
  - qb. assert (X : a' == b') by lra. apply Qeqb_eq in X. congruence.
  - qb. assert (X : a == b) by lra. apply Qeqb_eq in X. congruence.
Qed.
Lemma Qeqb_false a b : Qeqb a b = false -> ~ a == b.
Proof. intros E H. apply Qeqb_eq in H. congruence. Qed.
Lemma q_valid_comp q q' : q == q' -> q_valid q = q_valid q'.
Proof. intro E. unfold q_valid. f_equal; apply Qleb_comp; auto; reflexivity. Qed.
Lemma q_valid_iff q : q_valid q = true <-> 0 <= q /\ q <= 1.
Proof.
  unfold q_valid. rewrite andb_true_iff. split; intros [A B]; split; qb; auto.
Qed.

(* ---------- sums ---------- *)
Lemma Qsum_perm l1 l2 : Permutation l1 l2 -> Qsum l1 == Qsum l2.
Proof.
  unfold Qsum. induction 1 as [|x l l' _ IH|x y l|l l' l'' _ IH1 _ IH2]; simpl.
  - reflexivity.
  - now rewrite IH.
  - ring.
  - now rewrite IH1.
Qed.
Lemma Qsum_map_scale (c : Q) (f g : Q -> Q) l :
  (forall x, g x == c * f x) -> Qsum (map g l) == c * Qsum (map f l).
Proof.
  intro H. unfold Qsum. induction l as [|x r IH]; simpl; [ring|]. rewrite IH, H. ring.
Qed.

(* ---------- p0 ---------- *)
Lemma len_somes_nonneg col : (0 <= len (somes col))%Z.
Proof. apply len_nonneg. Qed.
Lemma len_zero_nil {A} (l : list A) : len l = 0%Z -> l = [].
Proof. unfold len. destruct l; [reflexivity|simpl length; lia]. Qed.

Lemma p0_none col th : p0_of col th = None <-> somes col = [].
Proof.
  unfold p0_of. rewrite rdiv_none. split.
  - intro H. apply (proj1 (inject_Z_injective _ 0%Z)) in H. now apply len_zero_nil.
  - intro H. rewrite H. reflexivity.
Qed.

Lemma p0_range col th p : p0_of col th = Some p -> 0 <= p /\ p <= 1.
Proof.
  unfold p0_of, rdiv. destruct (Qeqb _ 0) eqn:E; [discriminate|]. intro H. injection H as <-.
  apply Qeqb_false in E.
  pose proof (count_nonneg (le_hat th) (somes col)) as C0.
  pose proof (count_le_len (le_hat th) (somes col)) as C1.
  pose proof (len_nonneg (somes col)) as L0.
  set (c := count (le_hat th) (somes col)) in *. set (n := len (somes col)) in *.
  assert (Hn : 0 < inject_Z n).
  { assert (n <> 0)%Z by (intro Z; apply E; rewrite Z; reflexivity).
    change 0 with (inject_Z 0). rewrite <- Zlt_Qlt. lia. }
  assert (Hc0 : 0 <= inject_Z c) by (change 0 with (inject_Z 0); rewrite <- Zle_Qle; exact C0).
  assert (Hc1 : inject_Z c <= inject_Z n) by (rewrite <- Zle_Qle; exact C1).
  split.
  - apply Qle_shift_div_l; [exact Hn|lra].
  - apply Qle_shift_div_r; [exact Hn|lra].
Qed.

(* the count over the finite replicates is the count over the column with NaN <= x False *)
Lemma p0_count_nan col t :
  count (le_hat (Some t)) (somes col) =
  count (fun r : rate => match r with Some x => Qleb x t | None => false end) col.
Proof. induction col as [|[x|] r IH]; simpl; [reflexivity|now rewrite IH|exact IH]. Qed.
Lemma nb_not_nan col :
  len (somes col) = count (fun r : rate => match r with Some _ => true | None => false end) col.
Proof.
  unfold len. induction col as [|[x|] r IH]; cbn [somes length count]; [reflexivity| |exact IH].
  rewrite <- IH. lia.
Qed.

Lemma p0_perm c1 c2 th : Permutation (somes c1) (somes c2) -> p0_of c1 th = p0_of c2 th.
Proof.
  intro P. unfold p0_of, len. now rewrite (count_perm _ _ _ P), (Permutation_length P).
Qed.

Lemma p0_affine a b col th :
  0 < a -> p0_of (map (rmap (fun x => a * x + b)) col) (rmap (fun x => a * x + b) th) = p0_of col th.
Proof.
  intro Ha. unfold p0_of. rewrite somes_map, len_map, count_map. f_equal. f_equal.
  apply count_ext. intros x _. destruct th as [t|]; simpl; [|reflexivity].
  destruct (Qleb x t) eqn:E; qb; nra.
Qed.

Section BootFacts.
  Variables Phi PhiInv pow15 : Q -> Q.

  Notation ppf_x := (ppf_x PhiInv).
  Notation cdf_x := (cdf_x Phi).
  Notation accel := (accel pow15).
  Notation level_args := (level_args PhiInv pow15).
  Notation levels := (levels Phi PhiInv pow15).
  Notation ci_col := (ci_col Phi PhiInv pow15).

  (* the argument of norm.cdf as a function of the normal score z_alpha *)
  Definition arg_of (m : method) (col : list rate) (th : rate) (za : Q) : xval :=
    match m with
    | MBc => bc_arg (ppf_x (p0_of col th)) za
    | _ => bca_arg (accel col th) (ppf_x (p0_of col th)) za
    end.
  Definition lvl (m : method) (col : list rate) (th : rate) (p : Q) : rate :=
    cdf_x (arg_of m col th (PhiInv p)).

  Lemma levels_lvl m col th alpha :
    levels m col th alpha = (lvl m col th (alpha * (1#2)), lvl m col th (1 - alpha * (1#2))).
  Proof. unfold levels, BootCI.levels, BootCI.level_args, lvl, arg_of. destruct m; reflexivity. Qed.

  (* the side condition of the property text: the acceleration term stays on one side of its pole *)
  Definition side (m : method) (col : list rate) (th : rate) (za : Q) : Prop :=
    match m with
    | MBc => True
    | _ => match ppf_x (p0_of col th) with
           | Some (Fin z) => -1 < accel col th * (z + za) /\ accel col th * (z + za) < 1
           | _ => True
           end
    end.

  (* ---------- ppf / cdf on extended values ---------- *)
  Lemma ppf_x_some col th : somes col <> [] -> exists e, ppf_x (p0_of col th) = Some e.
  Proof.
    intro Hne. destruct (p0_of col th) as [p|] eqn:E; [|apply p0_none in E; contradiction].
    destruct (p0_range _ _ _ E) as [P0 P1]. unfold BootCI.ppf_x.
    destruct (Qeqb p 0) eqn:E0; [eauto|]. destruct (Qeqb p 1) eqn:E1; [eauto|].
    apply Qeqb_false in E0. apply Qeqb_false in E1.
    assert (A : Qltb 0 p = true) by (qb; lra). assert (B : Qltb p 1 = true) by (qb; lra).
    rewrite A, B. simpl. eauto.
  Qed.
  Lemma ppf_x_none col th : somes col = [] -> ppf_x (p0_of col th) = None.
  Proof. intro H. apply (p0_none col th) in H. now rewrite H. Qed.

  Lemma arg_of_none m col th za : somes col = [] -> arg_of m col th za = None.
  Proof. intro H. unfold arg_of. rewrite (ppf_x_none col th H). destruct m; reflexivity. Qed.
  Lemma arg_of_some m col th za : somes col <> [] -> exists e, arg_of m col th za = Some e.
  Proof.
    intro H. destruct (ppf_x_some col th H) as [e E]. unfold arg_of. rewrite E.
    destruct m, e; simpl; eauto; destruct (Qeqb _ 0); eauto.
  Qed.

  Lemma lvl_is_some m col th p : somes col <> [] -> exists v, lvl m col th p = Some v.
  Proof.
    intro H. destruct (arg_of_some m col th (PhiInv p) H) as [e E]. unfold lvl. rewrite E. destruct e; simpl; eauto.
  Qed.
  Lemma lvl_none m col th p : somes col = [] -> lvl m col th p = None.
  Proof. intro H. unfold lvl. now rewrite arg_of_none. Qed.

  Hypothesis Phi_range : forall x, 0 <= Phi x /\ Phi x <= 1.

  Lemma cdf_x_range z v : cdf_x z = Some v -> 0 <= v /\ v <= 1.
  Proof.
    destruct z as [[| x |]|]; simpl; intro H; try discriminate; injection H as <-; try lra. apply Phi_range.
  Qed.
  Lemma lvl_some m col th p : somes col <> [] -> exists v, lvl m col th p = Some v /\ 0 <= v /\ v <= 1.
  Proof.
    intro H. destruct (arg_of_some m col th (PhiInv p) H) as [e E].
    unfold lvl. rewrite E. destruct e; simpl; eexists; (split; [reflexivity|]); try lra. apply Phi_range.
  Qed.
  (* with at least one finite replicate both bc/bca limits are numbers *)
  Lemma ci_col_bcx_ok m col th alpha :
    m <> MQuantile -> somes col <> [] ->
    exists ql qu lo hi, levels m col th alpha = (Some ql, Some qu) /\
      ci_col m col th alpha = Ok (Some lo, Some hi) /\
      nanquantile col ql = Some lo /\ nanquantile col qu = Some hi.
  Proof.
    intros Hm Hne. rewrite levels_lvl.
    destruct (lvl_some m col th (alpha * (1#2)) Hne) as (ql & El & L0 & L1).
    destruct (lvl_some m col th (1 - alpha * (1#2)) Hne) as (qu & Eu & U0 & U1).
    exists ql, qu, (quantile_sorted (isort (somes col)) ql), (quantile_sorted (isort (somes col)) qu).
    rewrite El, Eu. split; [reflexivity|].
    assert (V : q_valid ql && q_valid qu = true).
    { apply andb_true_iff. split; apply q_valid_iff; auto. }
    split; [|split; now apply nanquantile_some].
    destruct m; [congruence| |]; unfold ci_col, BootCI.ci_col; rewrite levels_lvl, El, Eu;
      unfold ci_at_levels; rewrite V, !nanquantile_some by exact Hne; reflexivity.
  Qed.
  (* a component without a finite replicate gets NaN limits (no exception) *)
  Lemma ci_col_bcx_nan m col th alpha :
    m <> MQuantile -> somes col = [] -> ci_col m col th alpha = Ok (None, None).
  Proof.
    intros Hm He. destruct m; [congruence| |]; unfold ci_col, BootCI.ci_col; rewrite levels_lvl, !lvl_none by exact He; reflexivity.
  Qed.

  (* ---------- monotonicity of the adjusted levels ---------- *)
  Hypothesis Phi_mono : forall x y, x <= y -> Phi x <= Phi y.

  Lemma cdf_x_mono a b : xle a b -> rle (cdf_x a) (cdf_x b).
  Proof.
    destruct a as [[| x |]|], b as [[| y |]|]; simpl; try tauto; intros H; try lra;
      try apply Phi_range; try apply Phi_mono; auto.
  Qed.

  Lemma bc_arg_mono z0 za za' : za <= za' -> xle (bc_arg z0 za) (bc_arg z0 za').
  Proof. intro H. destruct z0 as [[| z |]|]; simpl; auto. lra. Qed.

  Lemma div_le_cross s s' d d' : 0 < d -> 0 < d' -> s * d' <= s' * d -> s / d <= s' / d'.
  Proof.
    intros Hd Hd' H. apply Qle_shift_div_r; [exact Hd|].
    assert (E : s' / d' * d == s' * d / d') by (field; lra). rewrite E.
    apply Qle_shift_div_l; [exact Hd'|exact H].
  Qed.

  Lemma bca_arg_mono a z0 za za' :
    za <= za' ->
    (forall z, z0 = Some (Fin z) -> (-1 < a * (z + za) /\ a * (z + za) < 1) /\ (-1 < a * (z + za') /\ a * (z + za') < 1)) ->
    xle (bca_arg a z0 za) (bca_arg a z0 za').
  Proof.
    intros H Hs. destruct z0 as [[| z |]|]; simpl; auto.
    destruct (Hs z eq_refl) as [[A1 A2] [B1 B2]].
    destruct (Qeqb (1 - a * (z + za)) 0) eqn:E1; [qb; exfalso; lra|].
    destruct (Qeqb (1 - a * (z + za')) 0) eqn:E2; [qb; exfalso; lra|].
    simpl.
    assert (D : (z + za) / (1 - a * (z + za)) <= (z + za') / (1 - a * (z + za'))).
    { apply div_le_cross; [lra|lra|]. nra. }
    lra.
  Qed.

  Lemma arg_of_mono m col th za za' :
    za <= za' -> side m col th za -> side m col th za' -> xle (arg_of m col th za) (arg_of m col th za').
  Proof.
    intros H S1 S2. unfold arg_of, side in *. destruct m; try (apply bc_arg_mono; exact H);
      (apply bca_arg_mono; [exact H|]; intros z Ez; rewrite Ez in S1, S2; split; assumption).
  Qed.

  Lemma lvl_mono_z m col th za za' :
    za <= za' -> side m col th za -> side m col th za' ->
    rle (cdf_x (arg_of m col th za)) (cdf_x (arg_of m col th za')).
  Proof. intros. now apply cdf_x_mono, arg_of_mono. Qed.

  Hypothesis PhiInv_mono : forall p p', 0 < p -> p <= p' -> p' < 1 -> PhiInv p <= PhiInv p'.

  Lemma lvl_mono m col th p p' :
    0 < p -> p <= p' -> p' < 1 -> side m col th (PhiInv p) -> side m col th (PhiInv p') ->
    rle (lvl m col th p) (lvl m col th p').
  Proof. intros. unfold lvl. apply lvl_mono_z; auto. Qed.

  (* ---------- what an Ok result of the per-component step says ---------- *)
  Lemma ci_at_levels_some col ql qu lo hi :
    ci_at_levels col (Some ql, Some qu) = Ok (lo, hi) ->
    (0 <= ql /\ ql <= 1) /\ (0 <= qu /\ qu <= 1) /\ lo = nanquantile col ql /\ hi = nanquantile col qu.
  Proof.
    unfold ci_at_levels. destruct (q_valid ql && q_valid qu) eqn:V; [|discriminate].
    apply andb_true_iff in V. destruct V as [V1 V2]. apply q_valid_iff in V1, V2.
    intro H. injection H as <- <-. auto.
  Qed.
  Lemma nil_dec {A} (l : list A) : {l = []} + {l <> []}.
  Proof. destruct l; [left; reflexivity|right; discriminate]. Qed.

  Definition side_cond (m : method) (col : list rate) (th : rate) (alpha : Q) : Prop :=
    match m with
    | MBca => side MBca col th (PhiInv (alpha * (1#2))) /\ side MBca col th (PhiInv (1 - alpha * (1#2)))
    | _ => True
    end.

  Lemma side_of_cond m col th alpha :
    m <> MQuantile -> side_cond m col th alpha ->
    side m col th (PhiInv (alpha * (1#2))) /\ side m col th (PhiInv (1 - alpha * (1#2))).
  Proof. destruct m; [congruence|intros _ _; split; exact I|intros _ H; exact H]. Qed.

  Lemma ci_col_levels m col th alpha :
    ci_col m col th alpha =
    match m with
    | MQuantile => ci_at_levels col (Some (alpha * (1#2)), Some (1 - alpha * (1#2)))
    | _ => ci_at_levels col (lvl m col th (alpha * (1#2)), lvl m col th (1 - alpha * (1#2)))
    end.
  Proof. unfold ci_col, BootCI.ci_col. destruct m; try reflexivity; now rewrite levels_lvl. Qed.

  (* lower <= upper *)
  Lemma ci_col_ordered m col th alpha lo hi :
    0 < alpha -> alpha < 1 -> side_cond m col th alpha ->
    ci_col m col th alpha = Ok (lo, hi) -> rle lo hi.
  Proof.
    intros A0 A1 Sd. rewrite ci_col_levels.
    assert (Hq : 0 < alpha * (1#2) /\ alpha * (1#2) <= 1 - alpha * (1#2) /\ 1 - alpha * (1#2) < 1) by (repeat split; lra).
    destruct Hq as (Q0 & Q1 & Q2).
    assert (G : forall mm, mm <> MQuantile ->
              side mm col th (PhiInv (alpha * (1#2))) -> side mm col th (PhiInv (1 - alpha * (1#2))) ->
              ci_at_levels col (lvl mm col th (alpha * (1#2)), lvl mm col th (1 - alpha * (1#2))) = Ok (lo, hi) -> rle lo hi).
    { intros mm Hm S1 S2. destruct (nil_dec (somes col)) as [E|NE].
      - rewrite !lvl_none by exact E. cbn [ci_at_levels]. intro H. injection H as <- <-. exact I.
      - destruct (lvl_is_some mm col th (alpha * (1#2)) NE) as [ql El].
        destruct (lvl_is_some mm col th (1 - alpha * (1#2)) NE) as [qu Eu].
        pose proof (lvl_mono mm col th _ _ Q0 Q1 Q2 S1 S2) as M. rewrite El, Eu in *. simpl in M.
        intro H. apply ci_at_levels_some in H. destruct H as ([L0 L1] & [U0 U1] & -> & ->).
        now apply nanquantile_mono. }
    destruct m.
    - intro H. apply ci_at_levels_some in H. destruct H as (_ & _ & -> & ->). apply nanquantile_mono; lra.
    - apply G; [discriminate|exact I|exact I].
    - destruct Sd as [S1 S2]. apply G; [discriminate|exact S1|exact S2].
  Qed.

  (* nested in alpha: a larger alpha gives an interval inside the one of a smaller alpha *)
  Lemma ci_col_nested m col th alpha alpha' lo hi lo' hi' :
    0 < alpha -> alpha <= alpha' -> alpha' < 1 ->
    side_cond m col th alpha -> side_cond m col th alpha' ->
    ci_col m col th alpha = Ok (lo, hi) -> ci_col m col th alpha' = Ok (lo', hi') ->
    rle lo lo' /\ rle hi' hi.
  Proof.
    intros A0 A1 A2 Sd Sd'. rewrite !ci_col_levels.
    assert (Hq : 0 < alpha * (1#2) /\ alpha * (1#2) <= alpha' * (1#2) /\ alpha' * (1#2) < 1) by (repeat split; lra).
    assert (Hr : 0 < 1 - alpha' * (1#2) /\ 1 - alpha' * (1#2) <= 1 - alpha * (1#2) /\ 1 - alpha * (1#2) < 1) by (repeat split; lra).
    destruct Hq as (Q0 & Q1 & Q2). destruct Hr as (R0 & R1 & R2).
    assert (G : forall mm, mm <> MQuantile ->
              side mm col th (PhiInv (alpha * (1#2))) -> side mm col th (PhiInv (1 - alpha * (1#2))) ->
              side mm col th (PhiInv (alpha' * (1#2))) -> side mm col th (PhiInv (1 - alpha' * (1#2))) ->
              ci_at_levels col (lvl mm col th (alpha * (1#2)), lvl mm col th (1 - alpha * (1#2))) = Ok (lo, hi) ->
              ci_at_levels col (lvl mm col th (alpha' * (1#2)), lvl mm col th (1 - alpha' * (1#2))) = Ok (lo', hi') ->
              rle lo lo' /\ rle hi' hi).
    { intros mm Hm S1 S2 S1' S2'. destruct (nil_dec (somes col)) as [E|NE].
      - rewrite !lvl_none by exact E. cbn [ci_at_levels]. intros H H'. injection H as <- <-. injection H' as <- <-. split; exact I.
      - destruct (lvl_is_some mm col th (alpha * (1#2)) NE) as [ql El].
        destruct (lvl_is_some mm col th (1 - alpha * (1#2)) NE) as [qu Eu].
        destruct (lvl_is_some mm col th (alpha' * (1#2)) NE) as [ql' El'].
        destruct (lvl_is_some mm col th (1 - alpha' * (1#2)) NE) as [qu' Eu'].
        pose proof (lvl_mono mm col th _ _ Q0 Q1 Q2 S1 S1') as M.
        pose proof (lvl_mono mm col th _ _ R0 R1 R2 S2' S2) as N.
        rewrite El, Eu, El', Eu' in *. simpl in M, N.
        intros H H'. apply ci_at_levels_some in H, H'.
        destruct H as ([L0 L1] & [U0 U1] & -> & ->). destruct H' as ([L0' L1'] & [U0' U1'] & -> & ->).
        split; now apply nanquantile_mono. }
    destruct m.
    - intros H H'. apply ci_at_levels_some in H, H'.
      destruct H as (_ & _ & -> & ->). destruct H' as (_ & _ & -> & ->). split; apply nanquantile_mono; lra.
    - apply G; try exact I. discriminate.
    - destruct Sd as [S1 S2], Sd' as [S1' S2']. apply G; auto. discriminate.
  Qed.
End BootFacts.

(* within the range of the finite replicates: needs no hypothesis on the oracles, because
   np.nanquantile itself rejects levels outside [0,1] *)
Definition in_range (col : list rate) (r : rate) : Prop :=
  match r with
  | None => somes col = []
  | Some v => (exists a b, In (Some a) col /\ In (Some b) col /\ a <= v /\ v <= b) /\
              (forall m, (forall x, In (Some x) col -> m <= x) -> m <= v) /\
              (forall M, (forall x, In (Some x) col -> x <= M) -> v <= M)
  end.

Lemma nanquantile_in_range col q : 0 <= q -> q <= 1 -> in_range col (nanquantile col q).
Proof.
  intros H0 H1. destruct (nanquantile col q) as [v|] eqn:E; simpl.
  - now apply (nanquantile_range col q v).
  - now apply (nanquantile_none col q).
Qed.

Lemma ci_at_levels_some_in_range col ql qu lo hi :
  ci_at_levels col (Some ql, Some qu) = Ok (lo, hi) -> in_range col lo /\ in_range col hi.
Proof.
  unfold ci_at_levels. destruct (q_valid ql && q_valid qu) eqn:V; [|discriminate].
  apply andb_true_iff in V. destruct V as [V1 V2]. apply q_valid_iff in V1, V2.
  intro H. injection H as <- <-. split; apply nanquantile_in_range; tauto.
Qed.

Lemma ci_col_in_range Phi PhiInv pow15 m col th alpha lo hi :
  ci_col Phi PhiInv pow15 m col th alpha = Ok (lo, hi) -> in_range col lo /\ in_range col hi.
Proof.
  rewrite ci_col_levels.
  assert (G : forall mm,
            ci_at_levels col (lvl Phi PhiInv pow15 mm col th (alpha * (1#2)), lvl Phi PhiInv pow15 mm col th (1 - alpha * (1#2))) = Ok (lo, hi) ->
            in_range col lo /\ in_range col hi).
  { intros mm. destruct (nil_dec (somes col)) as [E|NE].
    - rewrite !lvl_none by exact E. cbn [ci_at_levels]. intro H. injection H as <- <-. split; exact E.
    - destruct (lvl_is_some Phi PhiInv pow15 mm col th (alpha * (1#2)) NE) as [ql El].
      destruct (lvl_is_some Phi PhiInv pow15 mm col th (1 - alpha * (1#2)) NE) as [qu Eu].
      rewrite El, Eu. apply ci_at_levels_some_in_range. }
  destruct m; [apply ci_at_levels_some_in_range|apply G|apply G].
Qed.

(* ---------- invariance: reordering / NaN replicates; affine maps ---------- *)
Definition pair_map {A B} (f : A -> B) (p : A * A) : B * B := (f (fst p), f (snd p)).

Lemma ci_at_levels_rel c1 c2 lv lv' :
  Permutation (somes c1) (somes c2) -> req2 lv lv' ->
  res_rel req2 (ci_at_levels c1 lv) (ci_at_levels c2 lv').
Proof.
  intros P [H1 H2]. destruct lv as [a b], lv' as [a' b']. simpl in H1, H2. unfold ci_at_levels.
  destruct a as [ql|], a' as [ql'|], b as [qu|], b' as [qu'|]; simpl in H1, H2; try tauto; try (simpl; split; exact I).
  rewrite (q_valid_comp _ _ H1), (q_valid_comp _ _ H2).
  destruct (q_valid ql' && q_valid qu'); simpl; [|exact I].
  split; simpl.
  - eapply req_trans; [apply (nanquantile_comp c1 _ _ H1)|now apply nanquantile_perm].
  - eapply req_trans; [apply (nanquantile_comp c1 _ _ H2)|now apply nanquantile_perm].
Qed.

Lemma ci_at_levels_affine a b col lv lv' :
  0 < a -> req2 lv' lv ->
  res_rel req2 (ci_at_levels (map (rmap (fun x => a * x + b)) col) lv')
               (res_map (pair_map (rmap (fun x => a * x + b))) (ci_at_levels col lv)).
Proof.
  intros Ha [H1 H2]. destruct lv as [u v], lv' as [u' v']. simpl in H1, H2. unfold ci_at_levels.
  destruct u as [ql|], u' as [ql'|], v as [qu|], v' as [qu'|]; simpl in H1, H2; try tauto; try (simpl; split; exact I).
  rewrite (q_valid_comp _ _ H1), (q_valid_comp _ _ H2).
  destruct (q_valid ql && q_valid qu) eqn:V; simpl; [|exact I].
  apply andb_true_iff in V. destruct V as [V1 V2]. apply q_valid_iff in V1, V2.
  split; unfold pair_map; simpl.
  - eapply req_trans; [apply (nanquantile_comp _ _ _ H1)|]. apply nanquantile_affine; tauto.
  - eapply req_trans; [apply (nanquantile_comp _ _ _ H2)|]. apply nanquantile_affine; tauto.
Qed.

Lemma accel_core_comp num num' den den' :
  num == num' -> den == den' ->
  (if Qeqb den 0 then 0 else num / den) == (if Qeqb den' 0 then 0 else num' / den').
Proof.
  intros Hn Hd. rewrite (Qeqb_comp den den' 0 0 Hd (Qeq_refl 0)).
  destruct (Qeqb den' 0); [reflexivity|]. now rewrite Hn, Hd.
Qed.

Lemma accel_core_scale k num den :
  0 < k -> (if Qeqb (k * den) 0 then 0 else (k * num) / (k * den)) == (if Qeqb den 0 then 0 else num / den).
Proof.
  intro Hk. destruct (Qeqb den 0) eqn:E.
  - qb. assert (X : k * den == 0) by (rewrite E; ring). apply Qeqb_eq in X. now rewrite X.
  - apply Qeqb_false in E. destruct (Qeqb (k * den) 0) eqn:E'.
    + qb. exfalso. apply E. nra.
    + field. split; [exact E|lra].
Qed.

Section BootInvariance.
  Variables Phi PhiInv pow15 : Q -> Q.
  Hypothesis Phi_comp : forall x y, x == y -> Phi x == Phi y.
  Hypothesis pow15_comp : forall x y, x == y -> pow15 x == pow15 y.

  Notation ppf_x := (ppf_x PhiInv).
  Notation cdf_x := (cdf_x Phi).
  Notation accel := (accel pow15).
  Notation levels := (levels Phi PhiInv pow15).
  Notation ci_col := (ci_col Phi PhiInv pow15).

  Lemma cdf_x_comp a b : xeq a b -> req (cdf_x a) (cdf_x b).
  Proof.
    destruct a as [[| x |]|], b as [[| y |]|]; simpl; try tauto; try reflexivity. apply Phi_comp.
  Qed.

  Lemma bca_arg_comp a a' z0 za : a == a' -> xeq (bca_arg a z0 za) (bca_arg a' z0 za).
  Proof.
    intro H. destruct z0 as [[| z |]|]; simpl; auto.
    assert (D : 1 - a * (z + za) == 1 - a' * (z + za)) by (rewrite H; reflexivity).
    rewrite (Qeqb_comp _ _ 0 0 D (Qeq_refl 0)).
    destruct (Qeqb (1 - a' * (z + za)) 0); simpl.
    - destruct (Qltb 0 (z + za)); exact I.
    - now rewrite D.
  Qed.

  Lemma accel_perm c1 c2 th : Permutation (somes c1) (somes c2) -> accel c1 th == accel c2 th.
  Proof.
    intro P. unfold accel, BootCI.accel.
    assert (PD : Permutation (devs c1 th) (devs c2 th)).
    { unfold devs. destruct th; [now apply Permutation_map|constructor]. }
    apply accel_core_comp.
    - apply Qsum_perm. now apply Permutation_map.
    - assert (S : Qsum (map sq (devs c1 th)) == Qsum (map sq (devs c2 th))) by (apply Qsum_perm; now apply Permutation_map).
      now rewrite (pow15_comp _ _ S).
  Qed.

  Lemma levels_perm m c1 c2 th alpha :
    Permutation (somes c1) (somes c2) -> req2 (levels m c1 th alpha) (levels m c2 th alpha).
  Proof.
    intro P. unfold levels, BootCI.levels, level_args. rewrite (p0_perm c1 c2 th P).
    destruct m; simpl; split; simpl; try apply req_refl; apply cdf_x_comp, bca_arg_comp, accel_perm, P.
  Qed.

  (* limits depend only on the multiset of finite replicates: reordering and NaN replicates change nothing *)
  Lemma ci_col_perm m c1 c2 th alpha :
    Permutation (somes c1) (somes c2) -> res_rel req2 (ci_col m c1 th alpha) (ci_col m c2 th alpha).
  Proof.
    intro P. unfold ci_col, BootCI.ci_col. destruct m.
    - apply ci_at_levels_rel; [exact P|split; apply req_refl].
    - apply ci_at_levels_rel; [exact P|now apply levels_perm].
    - apply ci_at_levels_rel; [exact P|now apply levels_perm].
  Qed.

  (* homogeneity of x ** 1.5 *)
  Hypothesis pow15_homog : forall c x, 0 < c -> pow15 (c * c * x) == c * c * c * pow15 x.

  Lemma accel_affine a b col th :
    0 < a -> accel (map (rmap (fun x => a * x + b)) col) (rmap (fun x => a * x + b) th) == accel col th.
  Proof.
    intro Ha. unfold accel, BootCI.accel, devs. destruct th as [t|]; [|reflexivity].
    cbn [rmap option_map]. rewrite somes_map, !map_map.
    set (l := somes col).
    assert (N : Qsum (map (fun x => cube (a * x + b - (a * t + b))) l) == (a * a * a) * Qsum (map (fun x => cube (x - t)) l)).
    { apply Qsum_map_scale. intro x. unfold cube. ring. }
    assert (S : Qsum (map (fun x => sq (a * x + b - (a * t + b))) l) == (a * a) * Qsum (map (fun x => sq (x - t)) l)).
    { apply Qsum_map_scale. intro x. unfold sq. ring. }
    set (S0 := Qsum (map (fun x => sq (x - t)) l)) in *. set (N0 := Qsum (map (fun x => cube (x - t)) l)) in *.
    assert (D : 6 * pow15 (Qsum (map (fun x => sq (a * x + b - (a * t + b))) l)) == (a * a * a) * (6 * pow15 S0)).
    { rewrite (pow15_comp _ _ S), (pow15_homog a S0 Ha). ring. }
    rewrite (accel_core_comp _ _ _ _ N D). apply accel_core_scale.
    assert (A2 : 0 < a * a) by nra. nra.
  Qed.

  Lemma levels_affine m a b col th alpha :
    0 < a ->
    req2 (levels m (map (rmap (fun x => a * x + b)) col) (rmap (fun x => a * x + b) th) alpha) (levels m col th alpha).
  Proof.
    intro Ha. unfold levels, BootCI.levels, level_args. rewrite (p0_affine a b col th Ha).
    destruct m; simpl; split; simpl; try apply req_refl; apply cdf_x_comp, bca_arg_comp, accel_affine, Ha.
  Qed.

  (* equivariance under increasing affine maps of replicates and estimate *)
  Lemma ci_col_affine m a b col th alpha :
    0 < a ->
    res_rel req2 (ci_col m (map (rmap (fun x => a * x + b)) col) (rmap (fun x => a * x + b) th) alpha)
                 (res_map (pair_map (rmap (fun x => a * x + b))) (ci_col m col th alpha)).
  Proof.
    intro Ha. unfold ci_col, BootCI.ci_col. destruct m.
    - apply ci_at_levels_affine; [exact Ha|split; apply req_refl].
    - apply ci_at_levels_affine; [exact Ha|now apply levels_affine].
    - apply ci_at_levels_affine; [exact Ha|now apply levels_affine].
  Qed.
End BootInvariance.

(* ---------- the array level: shapes, element placement, per-component independence ---------- *)
Lemma map_seq_nth {A B} (g : A -> B) (l : list A) (d : A) :
  map (fun i => g (nth i l d)) (seq 0 (length l)) = map g l.
Proof.
  induction l as [|x r IH]; [reflexivity|]. cbn [length seq map]. f_equal.
  rewrite <- seq_shift, map_map. exact IH.
Qed.

Lemma nth_map_in {A B} (f : A -> B) (l : list A) (i : nat) (d : B) (d' : A) :
  (i < length l)%nat -> nth i (map f l) d = f (nth i l d').
Proof. intro H. rewrite (nth_indep _ d (f d')) by (rewrite map_length; exact H). apply map_nth. Qed.

Lemma length_flat_map_const {A B} (f : A -> list B) (n : nat) (l : list A) :
  (forall x, In x l -> length (f x) = n) -> length (flat_map f l) = (length l * n)%nat.
Proof.
  induction l as [|x r IH]; intro H; [reflexivity|]. cbn [flat_map length]. rewrite app_length, IH, H.
  - lia.
  - now left.
  - intros y Hy. apply H. now right.
Qed.

Lemma nth_flat_map_const {A B} (f : A -> list B) (n : nat) (l : list A) (i r : nat) (d : B) (dx : A) :
  (forall x, length (f x) = n) -> (i < length l)%nat -> (r < n)%nat ->
  nth (i * n + r) (flat_map f l) d = nth r (f (nth i l dx)) d.
Proof.
  intros Hn. revert i. induction l as [|x t IH]; intros i Hi Hr; [simpl in Hi; lia|].
  cbn [flat_map]. destruct i as [|i].
  - simpl. rewrite app_nth1 by (rewrite Hn; exact Hr). reflexivity.
  - rewrite app_nth2 by (rewrite Hn; simpl; lia). rewrite Hn.
    replace (S i * n + r - n)%nat with (i * n + r)%nat by (simpl; lia).
    cbn [nth]. apply IH; [simpl in Hi; lia|exact Hr].
Qed.

Lemma sequence_res_ok {A} (l : list (res A)) s : sequence_res l = Ok s <-> l = map Ok s.
Proof.
  revert s. induction l as [|[a|] r IH]; intros s; simpl.
  - split; [intro H; injection H as <-; reflexivity|destruct s; [reflexivity|discriminate]].
  - destruct (sequence_res r) as [s'|] eqn:E.
    + split.
      * intro H. injection H as <-. simpl. f_equal. now apply IH.
      * destruct s as [|b s]; [discriminate|]. simpl. intro H. injection H as -> H.
        apply IH in H. injection H as <-. reflexivity.
    + split; [discriminate|]. destruct s as [|b s]; [discriminate|]. simpl. intro H. injection H as _ H.
      apply IH in H. discriminate.
  - split; [discriminate|]. destruct s; discriminate.
Qed.
Lemma sequence_res_err {A} (l : list (res A)) : sequence_res l = Err <-> In Err l.
Proof.
  induction l as [|[a|] r IH]; simpl.
  - split; [discriminate|tauto].
  - destruct (sequence_res r) eqn:E.
    + split; [discriminate|]. intros [H|H]; [discriminate|]. apply IH in H. discriminate.
    + split; [intros _; right; now apply IH|reflexivity].
  - split; [auto|reflexivity].
Qed.

Lemma prod_shape_app s1 s2 : prod_shape (s1 ++ s2) = (prod_shape s1 * prod_shape s2)%nat.
Proof. unfold prod_shape. induction s1 as [|x r IH]; simpl; [lia|rewrite IH; lia]. Qed.

Lemma columns_length rows size : length (columns rows size) = size.
Proof. unfold columns. now rewrite map_length, seq_length. Qed.
Lemma columns_nth rows size j : (j < size)%nat -> nth j (columns rows size) [] = column rows j.
Proof.
  intro H. unfold columns. rewrite (nth_map_in _ _ _ _ 0%nat) by (rewrite seq_length; exact H).
  now rewrite seq_nth.
Qed.

(* the quantile branch: the moveaxis/reshape bookkeeping puts, row-major, for every component y and
   every alpha k the pair (alpha_k/2-quantile, (1-alpha_k/2)-quantile) of column y *)
Definition quantile_pairs (cols : list (list rate)) (alphas : list Q) : list rate :=
  flat_map (fun col => flat_map (fun a => [nanquantile col (a * (1#2)); nanquantile col (1 - a * (1#2))]) alphas) cols.

Lemma moveaxis_flat cols alphas :
  flatten3 (moveaxis_01_m1m2
              (nanquantile_axis0 cols [map (fun a => a * (1#2)) alphas; map (fun a => 1 - a * (1#2)) alphas])
              2 (length alphas) (length cols))
  = quantile_pairs cols alphas.
Proof.
  unfold flatten3, moveaxis_01_m1m2, nanquantile_axis0, quantile_pairs.
  rewrite map_map, flat_map_concat_map.
  rewrite (map_ext _ _ (fun col => flat_map_concat_map (fun a => [nanquantile col (a * (1#2)); nanquantile col (1 - a * (1#2))]) alphas)).
  f_equal.
  rewrite <- (map_seq_nth (fun col => concat (map (fun a => [nanquantile col (a * (1#2)); nanquantile col (1 - a * (1#2))]) alphas)) cols []).
  apply map_ext_in. intros y Hy. apply in_seq in Hy. f_equal.
  rewrite <- (map_seq_nth (fun a => [nanquantile (nth y cols []) (a * (1#2)); nanquantile (nth y cols []) (1 - a * (1#2))]) alphas 0).
  apply map_ext_in. intros k Hk. apply in_seq in Hk.
  cbn [seq map nth].
  rewrite (nth_map_in _ _ k [] 0) by (rewrite map_length; lia).
  rewrite (nth_map_in _ _ k [] 0) by (rewrite map_length; lia).
  set (ql := nth k (map (fun a => a * (1#2)) alphas) 0). set (qu := nth k (map (fun a => 1 - a * (1#2)) alphas) 0).
  rewrite (nth_map_in (fun col => nanquantile col ql) cols y None []) by lia.
  rewrite (nth_map_in (fun col => nanquantile col qu) cols y None []) by lia.
  subst ql qu.
  rewrite (nth_map_in (fun a => a * (1#2)) alphas k 0 0) by lia.
  rewrite (nth_map_in (fun a => 1 - a * (1#2)) alphas k 0 0) by lia. reflexivity.
Qed.

Lemma quantile_pairs_length cols alphas :
  length (quantile_pairs cols alphas) = (length cols * (length alphas * 2))%nat.
Proof.
  unfold quantile_pairs. apply length_flat_map_const. intros col _.
  apply length_flat_map_const. reflexivity.
Qed.

Lemma quantile_pairs_nth cols alphas j k :
  (j < length cols)%nat -> (k < length alphas)%nat ->
  nth (j * (length alphas * 2) + (k * 2 + 0)) (quantile_pairs cols alphas) None
    = nanquantile (nth j cols []) (nth k alphas 0 * (1#2)) /\
  nth (j * (length alphas * 2) + (k * 2 + 1)) (quantile_pairs cols alphas) None
    = nanquantile (nth j cols []) (1 - nth k alphas 0 * (1#2)).
Proof.
  intros Hj Hk. unfold quantile_pairs.
  set (G := fun (col : list rate) (a : Q) => [nanquantile col (a * (1#2)); nanquantile col (1 - a * (1#2))]).
  set (F := fun col : list rate => flat_map (G col) alphas).
  assert (L : forall col, length (F col) = (length alphas * 2)%nat).
  { intro col. apply length_flat_map_const. reflexivity. }
  change (flat_map _ cols) with (flat_map F cols).
  split.
  - rewrite (nth_flat_map_const F (length alphas * 2) cols j (k * 2 + 0) None []) by (auto; lia).
    unfold F. rewrite (nth_flat_map_const (G (nth j cols [])) 2 alphas k 0 None 0) by (auto; lia). reflexivity.
  - rewrite (nth_flat_map_const F (length alphas * 2) cols j (k * 2 + 1) None []) by (auto; lia).
    unfold F. rewrite (nth_flat_map_const (G (nth j cols [])) 2 alphas k 1 None 0) by (auto; lia). reflexivity.
Qed.

Lemma bootstrap_ci_quantile_ok yshape rows ashape alphas :
  Forall (fun a => 0 <= a /\ a <= 1) alphas ->
  bootstrap_ci_quantile yshape rows ashape alphas
  = Ok (yshape ++ ashape ++ [2%nat], quantile_pairs (columns rows (prod_shape yshape)) alphas).
Proof.
  intro Ha. unfold bootstrap_ci_quantile.
  assert (V : forallb q_valid (map (fun a => a * (1#2)) alphas ++ map (fun a => 1 - a * (1#2)) alphas) = true).
  { rewrite forallb_app. apply andb_true_iff.
    rewrite Forall_forall in Ha.
    split; apply forallb_forall; intros q Hq; apply in_map_iff in Hq; destruct Hq as (a & <- & Hin);
      apply q_valid_iff; specialize (Ha a Hin); lra. }
  rewrite V. now rewrite moveaxis_flat.
Qed.

Lemma bootstrap_ci_quantile_shape yshape rows ashape alphas sh data :
  length alphas = prod_shape ashape ->
  bootstrap_ci_quantile yshape rows ashape alphas = Ok (sh, data) ->
  sh = yshape ++ ashape ++ [2%nat] /\ length data = prod_shape sh.
Proof.
  intros Hl H. unfold bootstrap_ci_quantile in H. destruct (forallb _ _) in H; [|discriminate].
  rewrite moveaxis_flat in H. injection H as <- <-. split; [reflexivity|].
  rewrite quantile_pairs_length, columns_length, !prod_shape_app, Hl. simpl. lia.
Qed.

Section BootArray.
  Variables Phi PhiInv pow15 : Q -> Q.
  Notation ci_col := (ci_col Phi PhiInv pow15).
  Notation levels := (levels Phi PhiInv pow15).
  Notation bootstrap_ci_bcx := (bootstrap_ci_bcx Phi PhiInv pow15).

  Lemma ci_col_bcx_unfold m col th alpha :
    m <> MQuantile -> ci_col m col th alpha = ci_at_levels col (levels m col th alpha).
  Proof. destruct m; [congruence|reflexivity|reflexivity]. Qed.

  Definition pairs_flat (cis : list (rate * rate)) : list rate := flat_map (fun c => [fst c; snd c]) cis.

  (* bc / bca: the result is the row-major list of per-component pairs; it is an error exactly when
     some component's own computation is an error *)
  Lemma bootstrap_ci_bcx_ok m yshape rows hs alpha sh data :
    m <> MQuantile ->
    bootstrap_ci_bcx m yshape rows (Some hs) alpha = Ok (sh, data) ->
    sh = yshape ++ [2%nat] /\
    exists cis, data = pairs_flat cis /\
      map (fun ch => ci_col m (fst ch) (snd ch) alpha) (combine (columns rows (prod_shape yshape)) hs) = map Ok cis.
  Proof.
    intros Hm. unfold bootstrap_ci_bcx, BootCI.bootstrap_ci_bcx.
    destruct (sequence_res _) as [cis|] eqn:E; [|discriminate].
    intro H. injection H as <- <-. split; [reflexivity|]. exists cis. split; [reflexivity|].
    apply sequence_res_ok in E. rewrite <- E. apply map_ext. intros [c h]. now apply ci_col_bcx_unfold.
  Qed.

  Lemma bootstrap_ci_bcx_err m yshape rows hs alpha :
    m <> MQuantile ->
    (bootstrap_ci_bcx m yshape rows (Some hs) alpha = Err <->
     exists c h, In (c, h) (combine (columns rows (prod_shape yshape)) hs) /\ ci_col m c h alpha = Err).
  Proof.
    intros Hm. unfold bootstrap_ci_bcx, BootCI.bootstrap_ci_bcx.
    destruct (sequence_res _) as [cis|] eqn:E.
    - split; [discriminate|]. intros (c & h & Hin & He). exfalso.
      apply sequence_res_ok in E.
      assert (X : In Err (map Ok cis)).
      { rewrite <- E. apply in_map_iff. exists (c, h). split; [|exact Hin]. simpl. now rewrite <- ci_col_bcx_unfold. }
      apply in_map_iff in X. destruct X as (? & ? & _). discriminate.
    - split; [intros _|reflexivity]. apply sequence_res_err in E. apply in_map_iff in E.
      destruct E as ([c h] & He & Hin). exists c, h. split; [exact Hin|]. now rewrite ci_col_bcx_unfold.
  Qed.

  (* per-component independence: entry j of an Ok result is the one-component computation on column j *)
  Lemma bootstrap_ci_bcx_component m yshape rows hs alpha sh data j :
    m <> MQuantile -> length hs = prod_shape yshape -> (j < prod_shape yshape)%nat ->
    bootstrap_ci_bcx m yshape rows (Some hs) alpha = Ok (sh, data) ->
    ci_col m (column rows j) (nth j hs None) alpha = Ok (nth (j * 2 + 0) data None, nth (j * 2 + 1) data None) /\
    length data = prod_shape sh.
  Proof.
    intros Hm Hl Hj H. destruct (bootstrap_ci_bcx_ok _ _ _ _ _ _ _ Hm H) as (-> & cis & -> & E).
    assert (Lc : length (combine (columns rows (prod_shape yshape)) hs) = prod_shape yshape).
    { rewrite combine_length, columns_length, Hl. lia. }
    assert (Lcis : length cis = prod_shape yshape).
    { rewrite <- Lc. rewrite <- (map_length (fun ch => ci_col m (fst ch) (snd ch) alpha)), E. now rewrite map_length. }
    split.
    - assert (N := f_equal (fun l => nth j l Err) E). cbv beta in N.
      rewrite (nth_map_in (fun ch : list rate * rate => ci_col m (fst ch) (snd ch) alpha) _ j Err ([], None)) in N by lia.
      rewrite (nth_map_in (@Ok (rate * rate)) cis j Err (None, None)) in N by lia.
      rewrite combine_nth in N by (rewrite columns_length; symmetry; exact Hl).
      cbn [fst snd] in N. rewrite columns_nth in N by exact Hj. eapply eq_trans; [exact N|].
      unfold pairs_flat.
      rewrite (nth_flat_map_const (fun c : rate * rate => [fst c; snd c]) 2 cis j 0 None (None, None)) by (auto; lia).
      rewrite (nth_flat_map_const (fun c : rate * rate => [fst c; snd c]) 2 cis j 1 None (None, None)) by (auto; lia).
      cbn [nth]. now destruct (nth j cis (None, None)).
    - unfold pairs_flat. rewrite (length_flat_map_const _ 2) by reflexivity.
      rewrite prod_shape_app, Lcis. simpl. lia.
  Qed.
End BootArray.

(* ---------- the documented formulas, spelled out (agreement is unconditional) ---------- *)
Section BootFormulas.
  Variables Phi PhiInv pow15 : Q -> Q.
  Notation ppf_x := (ppf_x PhiInv).
  Notation accel := (accel pow15).
  Notation levels := (levels Phi PhiInv pow15).
  Notation ci_col := (ci_col Phi PhiInv pow15).

  (* p0 = #{theta <= theta_hat} / #{non-NaN}, NaN comparisons False *)
  Lemma p0_formula col t :
    p0_of col (Some t) =
    rdiv (inject_Z (count (fun r : rate => match r with Some x => Qleb x t | None => false end) col))
         (inject_Z (count (fun r : rate => match r with Some _ => true | None => false end) col)).
  Proof. unfold p0_of. now rewrite p0_count_nan, nb_not_nan. Qed.

  (* z0 = ppf(p0): finite strictly inside (0,1), -inf at 0, +inf at 1 *)
  Lemma ppf_x_formula p :
    ppf_x (Some p) = if Qeqb p 0 then Some NegInf else if Qeqb p 1 then Some PosInf
                     else if Qltb 0 p && Qltb p 1 then Some (Fin (PhiInv p)) else None.
  Proof. reflexivity. Qed.
  Lemma ppf_x_inside p : 0 < p -> p < 1 -> ppf_x (Some p) = Some (Fin (PhiInv p)).
  Proof.
    intros H0 H1. unfold BootCI.ppf_x.
    destruct (Qeqb p 0) eqn:E0; [qb; lra|]. destruct (Qeqb p 1) eqn:E1; [qb; lra|].
    assert (A : Qltb 0 p = true) by (qb; lra). assert (B : Qltb p 1 = true) by (qb; lra).
    now rewrite A, B.
  Qed.

  (* a = sum d^3 / (6 (sum d^2)^1.5), d = theta - theta_hat over the non-NaN replicates; 0 if the denominator is 0 *)
  Lemma accel_formula col t :
    accel col (Some t) =
    let d := map (fun x => x - t) (somes col) in
    let den := 6 * pow15 (Qsum (map (fun x => x * x) d)) in
    if Qeqb den 0 then 0 else Qsum (map (fun x => x * x * x) d) / den.
  Proof. reflexivity. Qed.

  (* quantile: levels alpha/2 and 1-alpha/2 *)
  Lemma quantile_formula col th alpha :
    0 < alpha -> alpha < 1 ->
    ci_col MQuantile col th alpha = Ok (nanquantile col (alpha * (1#2)), nanquantile col (1 - alpha * (1#2))).
  Proof.
    intros A0 A1. unfold ci_col, BootCI.ci_col, ci_at_levels.
    assert (V1 : q_valid (alpha * (1#2)) = true) by (apply q_valid_iff; lra).
    assert (V2 : q_valid (1 - alpha * (1#2)) = true) by (apply q_valid_iff; lra).
    now rewrite V1, V2.
  Qed.

  (* bc: levels Phi(2 z0 + z_alpha) *)
  Lemma bc_formula col th alpha :
    levels MBc col th alpha =
    match ppf_x (p0_of col th) with
    | Some (Fin z0) => (Some (Phi (2 * z0 + PhiInv (alpha * (1#2)))), Some (Phi (2 * z0 + PhiInv (1 - alpha * (1#2)))))
    | Some NegInf => (Some 0, Some 0)
    | Some PosInf => (Some 1, Some 1)
    | None => (None, None)
    end.
  Proof. unfold levels, BootCI.levels, level_args. destruct (ppf_x _) as [[| z |]|]; reflexivity. Qed.

  (* bca: levels Phi(z0 + (z0 + z_alpha) / (1 - a (z0 + z_alpha))) away from the pole *)
  Lemma bca_formula col th alpha :
    levels MBca col th alpha =
    match ppf_x (p0_of col th) with
    | Some (Fin z0) =>
        let a := accel col th in
        let lev za := let s := z0 + za in
                      if Qeqb (1 - a * s) 0 then Some (if Qltb 0 s then 1 else 0)
                      else Some (Phi (z0 + s / (1 - a * s))) in
        (lev (PhiInv (alpha * (1#2))), lev (PhiInv (1 - alpha * (1#2))))
    | Some NegInf => (Some 0, Some 0)
    | Some PosInf => (Some 1, Some 1)
    | None => (None, None)
    end.
  Proof.
    unfold levels, BootCI.levels, level_args. destruct (ppf_x _) as [[| z |]|]; try reflexivity.
    cbv zeta. unfold bca_arg. cbv zeta.
    destruct (Qeqb (1 - accel col th * (z + PhiInv (alpha * (1#2)))) 0), (Qeqb (1 - accel col th * (z + PhiInv (1 - alpha * (1#2)))) 0);
      simpl; repeat match goal with |- context [Qltb 0 ?s] => destruct (Qltb 0 s) end; reflexivity.
  Qed.

  (* the limits are the empirical quantiles at those levels *)
  Lemma bcx_limits m col th alpha :
    m <> MQuantile -> ci_col m col th alpha = ci_at_levels col (levels m col th alpha).
  Proof. destruct m; [congruence|reflexivity|reflexivity]. Qed.

  (* "If a=0, the method reduces to the non-accelerated bias correction" *)
  Lemma bca_arg_a0 a z0 za : a == 0 -> xeq (bca_arg a z0 za) (bc_arg z0 za).
  Proof.
    intro H. destruct z0 as [[| z |]|]; simpl; auto.
    assert (D : 1 - a * (z + za) == 1) by (rewrite H; ring).
    rewrite (Qeqb_comp _ 1 0 0 D (Qeq_refl 0)). simpl. rewrite H. field.
  Qed.
End BootFormulas.

(* ---------- shape of the result of the dispatcher ---------- *)
Definition alpha_shape (al : alpha_arg) : list nat := match al with AScalar _ => [] | AArray s _ => s end.
Definition alpha_consistent (al : alpha_arg) : Prop :=
  match al with AScalar _ => True | AArray s d => length d = prod_shape s end.
Definition hats_consistent (m : method) (yshape : list nat) (hats : option (list rate)) : Prop :=
  match m, hats with
  | MQuantile, _ => True
  | _, Some hs => length hs = prod_shape yshape
  | _, None => True
  end.

Lemma bootstrap_ci_shape Phi PhiInv pow15 yshape rows hats al m sh data :
  alpha_consistent al -> hats_consistent m yshape hats ->
  bootstrap_ci Phi PhiInv pow15 yshape rows hats al m = Ok (sh, data) ->
  sh = yshape ++ alpha_shape al ++ [2%nat] /\ length data = prod_shape sh.
Proof.
  intros Ha Hh. unfold bootstrap_ci.
  assert (Q : forall s d, length d = prod_shape s ->
              bootstrap_ci_quantile yshape rows s d = Ok (sh, data) ->
              sh = yshape ++ s ++ [2%nat] /\ length data = prod_shape sh).
  { intros s d. apply bootstrap_ci_quantile_shape. }
  assert (B : forall mm a, mm <> MQuantile -> hats_consistent mm yshape hats ->
              bootstrap_ci_bcx Phi PhiInv pow15 mm yshape rows hats a = Ok (sh, data) ->
              sh = yshape ++ [] ++ [2%nat] /\ length data = prod_shape sh).
  { intros mm a Hm Hc H. destruct hats as [hs|]; [|discriminate].
    assert (Hl : length hs = prod_shape yshape) by (destruct mm; [congruence|exact Hc|exact Hc]).
    destruct (bootstrap_ci_bcx_ok _ _ _ _ _ _ _ _ _ _ Hm H) as (-> & cis & -> & E). split; [reflexivity|].
    assert (Lcis : length cis = prod_shape yshape).
    { rewrite <- (map_length (@Ok (rate * rate)) cis), <- E, map_length, combine_length, columns_length, Hl. apply Nat.min_id. }
    unfold pairs_flat. rewrite (length_flat_map_const _ 2) by reflexivity.
    simpl app. rewrite prod_shape_app, Lcis. simpl. lia. }
  destruct m, al as [a|s d]; simpl alpha_shape; try discriminate.
  - apply Q. reflexivity.
  - apply Q. exact Ha.
  - apply B; [discriminate|exact Hh].
  - apply B; [discriminate|exact Hh].
Qed.

(* ---------- a concrete instance of the oracle hypotheses (non-vacuity) ---------- *)
Definition Phi0 (x : Q) : Q := Qmax2 0 (Qmin2 1 ((x + 4) * (1#8))).
Definition PhiInv0 (p : Q) : Q := 8 * p - 4.
Definition pow0 (x : Q) : Q := 0.

Lemma Phi0_range x : 0 <= Phi0 x /\ Phi0 x <= 1.
Proof.
  unfold Phi0, Qmin2. destruct (Qleb 1 ((x + 4) * (1#8))) eqn:E1; unfold Qmax2;
  repeat match goal with |- context [Qleb ?a ?b] => let E := fresh "E" in destruct (Qleb a b) eqn:E end; qb; lra.
Qed.
Lemma Phi0_mono x y : x <= y -> Phi0 x <= Phi0 y.
Proof.
  intro H. unfold Phi0, Qmin2.
  destruct (Qleb 1 ((x + 4) * (1#8))) eqn:E1, (Qleb 1 ((y + 4) * (1#8))) eqn:E2; unfold Qmax2;
  repeat match goal with |- context [Qleb ?a ?b] => let E := fresh "E" in destruct (Qleb a b) eqn:E end; qb; lra.
Qed.
Lemma Phi0_comp x y : x == y -> Phi0 x == Phi0 y.
Proof. intro H. apply Qle_antisym; apply Phi0_mono; lra. Qed.
Lemma PhiInv0_mono p p' : 0 < p -> p <= p' -> p' < 1 -> PhiInv0 p <= PhiInv0 p'.
Proof. unfold PhiInv0. intros. lra. Qed.
Lemma pow0_comp x y : x == y -> pow0 x == pow0 y.
Proof. reflexivity. Qed.
Lemma pow0_homog c x : 0 < c -> pow0 (c * c * x) == c * c * c * pow0 x.
Proof. intros _. unfold pow0. ring. Qed.

(* ---------- after the repairs: the array call always succeeds; integer dtype is irrelevant ---------- *)
Section BootTotal.
  Variables Phi PhiInv pow15 : Q -> Q.
  Hypothesis Phi_range : forall x, 0 <= Phi x /\ Phi x <= 1.
  Notation ci_col := (ci_col Phi PhiInv pow15).
  Notation bootstrap_ci_bcx := (bootstrap_ci_bcx Phi PhiInv pow15).

  (* a single component never raises: NaN limits without finite replicates, numbers otherwise *)
  Lemma ci_col_bcx_total m col th alpha :
    m <> MQuantile -> exists lo hi, ci_col m col th alpha = Ok (lo, hi) /\ (lo = None <-> somes col = []) /\ (hi = None <-> somes col = []).
  Proof.
    intro Hm. destruct (nil_dec (somes col)) as [E|NE].
    - exists None, None. rewrite (ci_col_bcx_nan Phi PhiInv pow15 m col th alpha Hm E). tauto.
    - destruct (ci_col_bcx_ok Phi PhiInv pow15 Phi_range m col th alpha Hm NE) as (ql & qu & lo & hi & _ & E & _).
      exists (Some lo), (Some hi). split; [exact E|]. split; split; intro H; congruence.
  Qed.

  (* the whole array: never an exception; every entry is the one-component computation on its own column and
     estimate, so components are computed independently *)
  Lemma bootstrap_ci_bcx_total m yshape rows hs alpha :
    m <> MQuantile -> length hs = prod_shape yshape ->
    exists data, bootstrap_ci_bcx m yshape rows (Some hs) alpha = Ok (yshape ++ [2%nat], data) /\
      length data = prod_shape (yshape ++ [2%nat]) /\
      forall j, (j < prod_shape yshape)%nat ->
        ci_col m (column rows j) (nth j hs None) alpha = Ok (nth (j * 2 + 0) data None, nth (j * 2 + 1) data None).
  Proof.
    intros Hm Hl.
    destruct (bootstrap_ci_bcx m yshape rows (Some hs) alpha) as [[sh data]|] eqn:E.
    - assert (Hs := bootstrap_ci_shape Phi PhiInv pow15 yshape rows (Some hs) (AScalar alpha) m sh data I).
      assert (Hc : hats_consistent m yshape (Some hs)) by (destruct m; [exact I|exact Hl|exact Hl]).
      assert (Ed : bootstrap_ci Phi PhiInv pow15 yshape rows (Some hs) (AScalar alpha) m = Ok (sh, data))
        by (destruct m; [congruence|exact E|exact E]).
      destruct (Hs Hc Ed) as [-> L]. simpl app in *. exists data. split; [reflexivity|]. split; [exact L|].
      intros j Hj. exact (proj1 (bootstrap_ci_bcx_component _ _ _ _ _ _ _ _ _ _ j Hm Hl Hj E)).
    - exfalso. apply (bootstrap_ci_bcx_err _ _ _ _ _ _ _ _ Hm) in E. destruct E as (c & h & _ & He).
      destruct (ci_col_bcx_total m c h alpha Hm) as (lo & hi & E' & _). congruence.
  Qed.
End BootTotal.

Lemma int_dtype_same Phi PhiInv pow15 dt yshape rows hats al m :
  bootstrap_ci_dt Phi PhiInv pow15 dt yshape rows hats al m = bootstrap_ci Phi PhiInv pow15 yshape rows hats al m.
Proof. reflexivity. Qed.
