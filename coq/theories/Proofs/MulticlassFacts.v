(* Proofs/MulticlassFacts.v — C05: construction of multiclass confusion matrices, equivalence of the
   input forms, one-vs-all binarisation, per-class metrics, as_dict, accuracy. *)
From SA Require Import Model.Multiclass Proofs.MetricsFacts.
Open Scope Q_scope.

(* ================================================================ sums *)
Lemma sumQ_cons x l : sumQ (x :: l) = x + sumQ l.
Proof. reflexivity. Qed.
Lemma sumQ_app l1 l2 : sumQ (l1 ++ l2) == sumQ l1 + sumQ l2.
Proof. induction l1 as [|x r IH]; simpl; [ring|rewrite IH; ring]. Qed.
Lemma sumQ_perm l1 l2 : Permutation l1 l2 -> sumQ l1 == sumQ l2.
Proof. induction 1 as [|x l l' _ IH|x y l|l l' l'' _ IH1 _ IH2]; simpl; try rewrite IH; try ring. now rewrite IH1. Qed.
Lemma sumQ_map_ext {A} (f g : A -> Q) l : (forall x, In x l -> f x == g x) -> sumQ (map f l) == sumQ (map g l).
Proof.
  induction l as [|x r IH]; intro H; simpl; [reflexivity|].
  rewrite (H x (or_introl eq_refl)), IH; [reflexivity|]. intros y Hy. apply H. now right.
Qed.
Lemma sumQ_map_perm {A} (f : A -> Q) l1 l2 : Permutation l1 l2 -> sumQ (map f l1) == sumQ (map f l2).
Proof. intro H. apply sumQ_perm. now apply Permutation_map. Qed.

(* ================================================================ lists as maps over their indices *)
Lemma map_as_seq {A B} (g : A -> B) (d : A) l : map g l = map (fun i => g (nth i l d)) (seq 0 (length l)).
Proof.
  induction l as [|x r IH]; simpl; [reflexivity|]. f_equal. rewrite <- seq_shift, map_map. exact IH.
Qed.
Lemma list_as_seq {A} (d : A) l : l = map (fun i => nth i l d) (seq 0 (length l)).
Proof. rewrite <- (map_as_seq (fun x => x) d l). now rewrite map_id. Qed.
Lemma nth_map_in {A B} (g : A -> B) l (d : A) (e : B) k : (k < length l)%nat -> nth k (map g l) e = g (nth k l d).
Proof. intro H. rewrite (nth_indep _ e (g d)) by (now rewrite map_length). apply map_nth. Qed.
Lemma Forall2_map_seq {A B} (R : A -> B -> Prop) (g1 : nat -> A) (g2 : nat -> B) s n :
  (forall k, (s <= k < s + n)%nat -> R (g1 k) (g2 k)) -> Forall2 R (map g1 (seq s n)) (map g2 (seq s n)).
Proof.
  revert s. induction n as [|n IH]; intros s H; simpl; constructor.
  - apply H. lia.
  - apply IH. intros k Hk. apply H. lia.
Qed.
Lemma perm_seq_bound sigma n : Permutation sigma (seq 0 n) -> forall k, (k < n)%nat -> (nth k sigma 0 < n)%nat.
Proof.
  intros H k Hk. assert (Hl : length sigma = n) by (rewrite (Permutation_length H); apply seq_length).
  assert (In (nth k sigma 0%nat) (seq 0 n)) by (eapply Permutation_in; [exact H|apply nth_In; lia]).
  apply in_seq in H0. lia.
Qed.

(* ================================================================ square matrices *)
Definition square (n : nat) (M : mat) : Prop := length M = n /\ Forall (fun r => length r = n) M.

Lemma square_row n M i : square n M -> (i < n)%nat -> length (nth i M []) = n.
Proof. intros [Hl Hr] Hi. rewrite Forall_forall in Hr. apply Hr. apply nth_In. lia. Qed.
Lemma row_as_seq n M i : square n M -> (i < n)%nat -> nth i M [] = map (fun j => entry M i j) (seq 0 n).
Proof.
  intros H Hi. unfold entry.
  transitivity (map (fun j => nth j (nth i M []) 0) (seq 0 (length (nth i M [])))); [apply list_as_seq|].
  now rewrite (square_row n M i H Hi).
Qed.
Lemma row_sum_seq n M i : square n M -> (i < n)%nat -> row_sum M i = sumQ (map (fun j => entry M i j) (seq 0 n)).
Proof. intros H Hi. unfold row_sum. now rewrite (row_as_seq n M i H Hi). Qed.
Lemma col_sum_seq M j : col_sum M j = sumQ (map (fun i => entry M i j) (seq 0 (length M))).
Proof. unfold col_sum, entry. now rewrite (map_as_seq (fun r => nth j r 0) [] M). Qed.
Lemma total_seq n M : square n M ->
  total M == sumQ (map (fun i => sumQ (map (fun j => entry M i j) (seq 0 n))) (seq 0 n)).
Proof.
  intros H. unfold total. rewrite (map_as_seq sumQ [] M). destruct H as [Hl Hr]. rewrite Hl.
  apply sumQ_map_ext. intros i Hi. apply in_seq in Hi. rewrite (row_as_seq n M i); [reflexivity|now split|lia].
Qed.
Lemma total_rows M : total M = sumQ (map (row_sum M) (seq 0 (length M))).
Proof. unfold total, row_sum. now rewrite (map_as_seq sumQ [] M). Qed.

(* ================================================================ tabulate and permute *)
Lemma entry_tabulate f cs i j : (i < length cs)%nat -> (j < length cs)%nat ->
  entry (tabulate f cs) i j = f (nth i cs 0%Z) (nth j cs 0%Z).
Proof.
  intros Hi Hj. unfold entry, tabulate.
  rewrite (nth_map_in (fun r => map (fun c => f r c) cs) cs 0%Z [] i Hi).
  now rewrite (nth_map_in (fun c => f (nth i cs 0%Z) c) cs 0%Z 0 j Hj).
Qed.
Lemma square_tabulate f cs : square (length cs) (tabulate f cs).
Proof.
  unfold square, tabulate. split; [apply map_length|]. apply Forall_forall. intros r Hr.
  apply in_map_iff in Hr. destruct Hr as (x & <- & _). apply map_length.
Qed.
Lemma entry_permute M sigma a b : (a < length sigma)%nat -> (b < length sigma)%nat ->
  entry (permute M sigma) a b = entry M (nth a sigma 0%nat) (nth b sigma 0%nat).
Proof.
  intros Ha Hb. unfold permute. unfold entry at 1.
  rewrite (nth_map_in (fun i => map (fun j => entry M i j) sigma) sigma 0%nat [] a Ha).
  now rewrite (nth_map_in (fun j => entry M (nth a sigma 0%nat) j) sigma 0%nat 0 b Hb).
Qed.
Lemma square_permute M sigma : square (length sigma) (permute M sigma).
Proof.
  unfold square, permute. split; [apply map_length|]. apply Forall_forall. intros r Hr.
  apply in_map_iff in Hr. destruct Hr as (x & <- & _). apply map_length.
Qed.

(* reordering the classes by any index list sigma permutes rows and columns *)
Theorem tabulate_reorder f cs sigma : Forall (fun i => (i < length cs)%nat) sigma ->
  tabulate f (map (fun i => nth i cs 0%Z) sigma) = permute (tabulate f cs) sigma.
Proof.
  intro H. rewrite Forall_forall in H. unfold tabulate at 1. unfold permute. rewrite map_map.
  apply map_ext_in. intros i Hi. rewrite map_map. apply map_ext_in. intros j Hj.
  symmetry. apply entry_tabulate; now apply H.
Qed.

(* ================================================================ idx_map *)
Lemma idx_from_some k cl c i : idx_from k cl c = Some i ->
  (k <= i)%nat /\ (i < k + length cl)%nat /\ nth (i - k) cl 0%Z = c.
Proof.
  revert k. induction cl as [|x r IH]; intros k H; simpl in H; [discriminate|].
  destruct (idx_from (S k) r c) as [j|] eqn:E.
  - injection H as <-. destruct (IH _ E) as (A & B & C). simpl length. repeat split; try lia.
    replace (j - k)%nat with (S (j - S k)) by lia. exact C.
  - destruct (Z.eqb x c) eqn:Ex; [|discriminate]. injection H as <-. apply Z.eqb_eq in Ex.
    simpl length. repeat split; try lia. now rewrite Nat.sub_diag.
Qed.
Lemma idx_from_none k cl c : ~ In c cl -> idx_from k cl c = None.
Proof.
  revert k. induction cl as [|x r IH]; intros k H; simpl; [reflexivity|].
  rewrite IH by (intro K; apply H; now right).
  destruct (Z.eqb x c) eqn:E; [|reflexivity]. apply Z.eqb_eq in E. exfalso. apply H. now left.
Qed.
Lemma idx_from_in k cl c : In c cl -> exists i, idx_from k cl c = Some i.
Proof.
  revert k. induction cl as [|x r IH]; intros k H; [destruct H|]. simpl.
  destruct (idx_from (S k) r c) as [j|] eqn:E; [now exists j|].
  destruct H as [->|H]; [rewrite Z.eqb_refl; now exists k|].
  destruct (IH (S k) H) as [j Hj]. congruence.
Qed.
Lemma idx_from_nodup k cl j : NoDup cl -> (j < length cl)%nat -> idx_from k cl (nth j cl 0%Z) = Some (k + j)%nat.
Proof.
  revert k j. induction cl as [|x r IH]; intros k j Hn Hj; simpl in Hj; [lia|].
  inversion Hn as [|? ? Hx Hr]; subst. destruct j as [|j]; simpl.
  - rewrite idx_from_none by exact Hx. rewrite Z.eqb_refl. f_equal. lia.
  - rewrite (IH (S k) j Hr) by lia. f_equal. lia.
Qed.
Lemma idx_map_some cl c i : idx_map cl c = Some i -> (i < length cl)%nat /\ nth i cl 0%Z = c.
Proof. intro H. destruct (idx_from_some 0 cl c i H) as (_ & B & C). rewrite Nat.sub_0_r in C. split; [lia|exact C]. Qed.
Lemma idx_map_nth cl j : NoDup cl -> (j < length cl)%nat -> idx_map cl (nth j cl 0%Z) = Some j.
Proof. intros. unfold idx_map. now rewrite idx_from_nodup. Qed.

(* ================================================================ upd / add_at / zeros *)
Lemma upd_length {A} (l : list A) i f : length (upd l i f) = length l.
Proof. revert i. induction l as [|x r IH]; intros [|i]; simpl; auto. Qed.
Lemma nth_upd_same {A} (l : list A) i f d : (i < length l)%nat -> nth i (upd l i f) d = f (nth i l d).
Proof. revert i. induction l as [|x r IH]; intros [|i] H; simpl in *; try lia; [reflexivity|]. apply IH. lia. Qed.
Lemma nth_upd_other {A} (l : list A) i j f d : i <> j -> nth j (upd l i f) d = nth j l d.
Proof.
  revert i j. induction l as [|x r IH]; intros [|i] [|j] H; simpl; try reflexivity; try congruence.
  apply IH. congruence.
Qed.
Lemma entry_add_at M i j w a b : (i < length M)%nat -> (j < length (nth i M []))%nat ->
  entry (add_at M i j w) a b = if (Nat.eqb a i && Nat.eqb b j)%bool then entry M a b + w else entry M a b.
Proof.
  intros Hi Hj. unfold entry, add_at.
  destruct (Nat.eqb a i) eqn:Ea.
  - apply Nat.eqb_eq in Ea. subst a. rewrite nth_upd_same by exact Hi.
    destruct (Nat.eqb b j) eqn:Eb; simpl.
    + apply Nat.eqb_eq in Eb. subst b. now rewrite nth_upd_same by exact Hj.
    + apply Nat.eqb_neq in Eb. rewrite nth_upd_other by congruence. reflexivity.
  - apply Nat.eqb_neq in Ea. simpl. rewrite nth_upd_other by congruence. reflexivity.
Qed.
Lemma square_add_at n M i j w : square n M -> square n (add_at M i j w).
Proof.
  intros [Hl Hr]. unfold add_at. split; [now rewrite upd_length|].
  clear Hl. revert i. induction Hr as [|r M' Hr0 Hr' IH]; intros [|i]; simpl; try constructor.
  - now rewrite upd_length.
  - exact Hr'.
  - exact Hr0.
  - apply IH.
Qed.
Lemma square_zeros n : square n (zeros n).
Proof.
  unfold zeros. split; [apply repeat_length|]. apply Forall_forall. intros r Hr.
  apply repeat_spec in Hr. subst. apply repeat_length.
Qed.
Lemma nth_repeat {A} (x d : A) n k : (k < n)%nat -> nth k (repeat x n) d = x.
Proof. revert k. induction n as [|n IH]; intros [|k] H; simpl; try lia; [reflexivity|]. apply IH. lia. Qed.
Lemma entry_zeros n i j : (i < n)%nat -> (j < n)%nat -> entry (zeros n) i j = 0.
Proof. intros Hi Hj. unfold entry, zeros. rewrite nth_repeat by exact Hi. now rewrite nth_repeat by exact Hj. Qed.

(* ================================================================ construction from labels *)
(* total weight of the samples with label ci and prediction cj *)
Definition wsum (ci cj : cls) (samples : list sample) : Q :=
  sumQ (map s_weight (filter (fun s => Z.eqb (s_label s) ci && Z.eqb (s_pred s) cj)%bool samples)).

Lemma fold_assign_none classes samples : fold_left (assign_step classes) samples None = None.
Proof. induction samples as [|s r IH]; simpl; [reflexivity|exact IH]. Qed.

Lemma assign_fold classes : NoDup classes -> forall samples M0 M,
  square (length classes) M0 ->
  fold_left (assign_step classes) samples (Some M0) = Some M ->
  square (length classes) M /\
  forall i j, (i < length classes)%nat -> (j < length classes)%nat ->
    entry M i j == entry M0 i j + wsum (nth i classes 0%Z) (nth j classes 0%Z) samples.
Proof.
  intros Hn. induction samples as [|s r IH]; intros M0 M Hsq H; simpl in H.
  - injection H as <-. split; [exact Hsq|]. intros. unfold wsum. simpl. ring.
  - destruct (idx_map classes (s_label s)) as [a|] eqn:Ea; [|rewrite fold_assign_none in H; discriminate].
    destruct (idx_map classes (s_pred s)) as [b|] eqn:Eb; [|rewrite fold_assign_none in H; discriminate].
    destruct (idx_map_some _ _ _ Ea) as [Ha Hla]. destruct (idx_map_some _ _ _ Eb) as [Hb Hlb].
    destruct (IH _ _ (square_add_at _ _ a b (s_weight s) Hsq) H) as [Hsq' Hent].
    split; [exact Hsq'|]. intros i j Hi Hj. rewrite (Hent i j Hi Hj).
    rewrite entry_add_at; [|destruct Hsq; lia|rewrite (square_row _ _ a Hsq Ha); exact Hb].
    unfold wsum at 2. simpl filter.
    assert (Ei : Z.eqb (s_label s) (nth i classes 0%Z) = Nat.eqb i a).
    { destruct (Nat.eqb i a) eqn:E.
      - apply Nat.eqb_eq in E. subst i. apply Z.eqb_eq. now symmetry.
      - apply Nat.eqb_neq in E. apply Z.eqb_neq. intro K. apply E.
        rewrite <- Hla in K. apply (proj1 (NoDup_nth classes 0%Z) Hn); auto. }
    assert (Ej : Z.eqb (s_pred s) (nth j classes 0%Z) = Nat.eqb j b).
    { destruct (Nat.eqb j b) eqn:E.
      - apply Nat.eqb_eq in E. subst j. apply Z.eqb_eq. now symmetry.
      - apply Nat.eqb_neq in E. apply Z.eqb_neq. intro K. apply E.
        rewrite <- Hlb in K. apply (proj1 (NoDup_nth classes 0%Z) Hn); auto. }
    rewrite Ei, Ej. destruct (Nat.eqb i a && Nat.eqb j b)%bool; simpl; unfold wsum; ring.
Qed.

(* entry [i][j] = total weight of the samples with label class i and predicted class j *)
Theorem assign_entry classes samples M : NoDup classes ->
  assign_from_predictions classes samples = Some M ->
  square (length classes) M /\
  forall i j, (i < length classes)%nat -> (j < length classes)%nat ->
    entry M i j == wsum (nth i classes 0%Z) (nth j classes 0%Z) samples.
Proof.
  intros Hn H. destruct (assign_fold classes Hn samples _ M (square_zeros _) H) as [Hsq Hent].
  split; [exact Hsq|]. intros i j Hi Hj. rewrite (Hent i j Hi Hj), entry_zeros by assumption. ring.
Qed.

(* the construction succeeds exactly when every label and prediction is one of the classes *)
Theorem assign_defined classes samples :
  (exists M, assign_from_predictions classes samples = Some M) <->
  Forall (fun s => In (s_label s) classes /\ In (s_pred s) classes) samples.
Proof.
  unfold assign_from_predictions. generalize (zeros (length classes)) as M0.
  induction samples as [|s r IH]; intro M0; simpl.
  - split; [constructor|intros _; now exists M0].
  - destruct (idx_map classes (s_label s)) as [a|] eqn:Ea.
    + destruct (idx_map classes (s_pred s)) as [b|] eqn:Eb.
      * rewrite IH. split; intro H.
        -- constructor; [|exact H]. split.
           ++ destruct (idx_map_some _ _ _ Ea) as [A <-]. now apply nth_In.
           ++ destruct (idx_map_some _ _ _ Eb) as [A <-]. now apply nth_In.
        -- now inversion H.
      * rewrite fold_assign_none. split; [intros [M K]; discriminate|].
        intro H. inversion H as [|? ? [_ Hp] _]; subst.
        destruct (idx_from_in 0 classes _ Hp) as [j Hj]. unfold idx_map in Eb. congruence.
    + rewrite fold_assign_none. split; [intros [M K]; discriminate|].
      intro H. inversion H as [|? ? [Hl _] _]; subst.
      destruct (idx_from_in 0 classes _ Hl) as [j Hj]. unfold idx_map in Ea. congruence.
Qed.

(* np.unique: strictly increasing (hence duplicate-free) and with the same elements *)
Lemma zinsert_uniq_in x y l : In y (zinsert_uniq x l) <-> y = x \/ In y l.
Proof.
  induction l as [|z r IH]; simpl; [intuition|].
  destruct (Z.ltb x z) eqn:E1; simpl; [intuition|].
  destruct (Z.eqb x z) eqn:E2; simpl.
  - apply Z.eqb_eq in E2. subst. intuition.
  - rewrite IH. intuition.
Qed.
Lemma zinsert_uniq_sorted x l : StronglySorted Z.lt l -> StronglySorted Z.lt (zinsert_uniq x l).
Proof.
  induction l as [|z r IH]; intro H; simpl; [repeat constructor|].
  inversion H as [|? ? Hr Hall]; subst.
  destruct (Z.ltb x z) eqn:E1.
  - apply Z.ltb_lt in E1. constructor; [exact H|]. constructor; [exact E1|].
    eapply Forall_impl; [|exact Hall]. simpl. intros a Ha. lia.
  - destruct (Z.eqb x z) eqn:E2; [exact H|].
    apply Z.ltb_ge in E1. apply Z.eqb_neq in E2. constructor; [now apply IH|].
    apply Forall_forall. intros a Ha. apply zinsert_uniq_in in Ha. destruct Ha as [->|Ha]; [lia|].
    rewrite Forall_forall in Hall. now apply Hall.
Qed.
Lemma np_unique_in l y : In y (np_unique l) <-> In y l.
Proof. induction l as [|x r IH]; simpl; [tauto|]. rewrite zinsert_uniq_in, IH. intuition. Qed.
Lemma np_unique_sorted l : StronglySorted Z.lt (np_unique l).
Proof. induction l as [|x r IH]; simpl; [constructor|now apply zinsert_uniq_sorted]. Qed.
Lemma sorted_lt_nodup l : StronglySorted Z.lt l -> NoDup l.
Proof.
  induction 1 as [|x r _ IH Hall]; constructor; [|exact IH].
  intro K. rewrite Forall_forall in Hall. specialize (Hall _ K). lia.
Qed.
Theorem implicit_classes_ok samples :
  NoDup (implicit_classes samples) /\ StronglySorted Z.lt (implicit_classes samples) /\
  Forall (fun s => In (s_label s) (implicit_classes samples) /\ In (s_pred s) (implicit_classes samples)) samples.
Proof.
  unfold implicit_classes. split; [apply sorted_lt_nodup, np_unique_sorted|]. split; [apply np_unique_sorted|].
  apply Forall_forall. intros s Hs. split; apply np_unique_in, in_or_app; [left|right]; apply np_unique_in, in_map; exact Hs.
Qed.

(* ================================================================ dict of dicts, DataFrame, array *)
Lemma memz_in x l : memz x l = true <-> In x l.
Proof.
  unfold memz. rewrite existsb_exists. split.
  - intros (y & Hy & E). apply Z.eqb_eq in E. now subst.
  - intro H. exists x. split; [exact H|apply Z.eqb_refl].
Qed.
Lemma set_eqb_spec a b : set_eqb a b = true <-> (forall x, In x a <-> In x b).
Proof.
  unfold set_eqb. rewrite andb_true_iff, !forallb_forall. split.
  - intros [H1 H2] x. split; intro H; apply memz_in; auto.
  - intro H. split; intros x Hx; apply memz_in, H, Hx.
Qed.
Lemma nodupb_spec l : nodupb l = true <-> NoDup l.
Proof.
  induction l as [|x r IH]; simpl; [split; [constructor|reflexivity]|].
  rewrite andb_true_iff, negb_true_iff, IH. split.
  - intros [H1 H2]. constructor; [|exact H2]. intro K. apply memz_in in K. congruence.
  - intro H. inversion H as [|? ? Hx Hr]; subst. split; [|exact Hr].
    destruct (memz x r) eqn:E; [|reflexivity]. apply memz_in in E. contradiction.
Qed.
Lemma assoc_in {A} k (v : A) d : NoDup (map fst d) -> In (k, v) d -> assoc k d = Some v.
Proof.
  induction d as [|[k' v'] r IH]; intros Hn Hi; [destruct Hi|]. simpl in *.
  inversion Hn as [|? ? Hx Hr]; subst. destruct Hi as [E|Hi].
  - injection E as -> ->. now rewrite Z.eqb_refl.
  - destruct (Z.eqb k k') eqn:E; [|now apply IH].
    apply Z.eqb_eq in E. subst. exfalso. apply Hx. apply (in_map fst) in Hi. exact Hi.
Qed.

(* the dict d represents the function f on its key set *)
Definition dict_repr (d : dict2) (f : cls -> cls -> Q) : Prop :=
  NoDup (map fst d) /\
  forall r row, In (r, row) d ->
    NoDup (map fst row) /\ (forall c, In c (map fst row) <-> In c (map fst d)) /\
    forall c v, In (c, v) row -> v = f r c.

Lemma dict_get2_repr d f r c : dict_repr d f -> In r (map fst d) -> In c (map fst d) -> dict_get2 d r c = f r c.
Proof.
  intros [Hn H] Hr Hc. apply in_map_iff in Hr. destruct Hr as ([r' row] & E & Hin). simpl in E. subst r'.
  destruct (H r row Hin) as (Hn' & Hk & Hv).
  unfold dict_get2. rewrite (assoc_in r row d Hn Hin).
  apply Hk in Hc. apply in_map_iff in Hc. destruct Hc as ([c' v] & E & Hin'). simpl in E. subst c'.
  rewrite (assoc_in c v row Hn' Hin'). now apply Hv.
Qed.
Lemma tabulate_ext f g cs : (forall r c, In r cs -> In c cs -> f r c = g r c) -> tabulate f cs = tabulate g cs.
Proof. intro H. unfold tabulate. apply map_ext_in. intros r Hr. apply map_ext_in. intros c Hc. now apply H. Qed.

Theorem from_dict_explicit d f cs : dict_repr d f -> (forall c, In c cs <-> In c (map fst d)) ->
  from_dict d (Some cs) = Some (tabulate f cs, cs).
Proof.
  intros Hd Hs. unfold from_dict. rewrite (proj2 (set_eqb_spec cs (map fst d)) Hs).
  assert (Hrows : forallb (fun kv => set_eqb (map fst (snd kv)) cs) d = true).
  { apply forallb_forall. intros [r row] Hin. simpl. apply set_eqb_spec. intro c.
    destruct Hd as [_ H]. destruct (H r row Hin) as (_ & Hk & _). rewrite Hk. symmetry. apply Hs. }
  rewrite Hrows. f_equal. f_equal. apply tabulate_ext. intros r c Hr Hc.
  apply dict_get2_repr; [exact Hd|now apply Hs|now apply Hs].
Qed.
Theorem from_dict_implicit d f : dict_repr d f -> from_dict d None = Some (tabulate f (map fst d), map fst d).
Proof.
  intros Hd. unfold from_dict.
  assert (Hrows : forallb (fun kv => set_eqb (map fst (snd kv)) (map fst d)) d = true).
  { apply forallb_forall. intros [r row] Hin. simpl. apply set_eqb_spec. intro c.
    destruct Hd as [_ H]. destruct (H r row Hin) as (_ & Hk & _). apply Hk. }
  rewrite Hrows. f_equal. f_equal. apply tabulate_ext. intros r c Hr Hc. now apply dict_get2_repr.
Qed.

Lemma index_of_spec c l : In c l -> (index_of c l < length l)%nat /\ nth (index_of c l) l 0%Z = c.
Proof.
  induction l as [|x r IH]; intro H; [destruct H|]. simpl.
  destruct (Z.eqb c x) eqn:E.
  - apply Z.eqb_eq in E. subst. split; [lia|reflexivity].
  - apply Z.eqb_neq in E. destruct H as [->|H]; [congruence|]. destruct (IH H). split; [lia|assumption].
Qed.
(* the DataFrame represents f: values[i][j] = f rows[i] cols[j]; rows and columns may be ordered differently *)
Definition df_repr (df : dframe) (f : cls -> cls -> Q) : Prop :=
  NoDup (df_rows df) /\ NoDup (df_cols df) /\ (forall c, In c (df_rows df) <-> In c (df_cols df)) /\
  df_vals df = map (fun r => map (fun c => f r c) (df_cols df)) (df_rows df).
Lemma df_get_repr df f r c : df_repr df f -> In r (df_rows df) -> In c (df_cols df) -> df_get df r c = f r c.
Proof.
  intros (_ & _ & _ & Hv) Hr Hc. unfold df_get. rewrite Hv.
  destruct (index_of_spec r _ Hr) as [Hi Er]. destruct (index_of_spec c _ Hc) as [Hj Ec].
  unfold entry.
  rewrite (nth_map_in (fun r => map (fun c => f r c) (df_cols df)) (df_rows df) 0%Z [] _ Hi).
  rewrite (nth_map_in (fun c0 => f (nth (index_of r (df_rows df)) (df_rows df) 0%Z) c0) (df_cols df) 0%Z 0 _ Hj).
  now rewrite Er, Ec.
Qed.
Theorem from_df_explicit df f cs : df_repr df f -> (forall c, In c cs <-> In c (df_rows df)) ->
  from_df df (Some cs) = Some (tabulate f cs, cs).
Proof.
  intros Hd Hs. pose proof Hd as (Hn1 & Hn2 & Hrc & Hv). unfold from_df.
  rewrite (proj2 (set_eqb_spec _ _) Hrc), (proj2 (nodupb_spec _) Hn1), (proj2 (nodupb_spec _) Hn2). simpl.
  rewrite (proj2 (set_eqb_spec cs _) Hs). f_equal. f_equal. apply tabulate_ext. intros r c Hr Hc.
  apply df_get_repr; [exact Hd|now apply Hs|apply Hrc; now apply Hs].
Qed.
Theorem from_df_implicit df f : df_repr df f -> from_df df None = Some (tabulate f (df_rows df), df_rows df).
Proof.
  intros Hd. pose proof Hd as (Hn1 & Hn2 & Hrc & Hv). unfold from_df.
  rewrite (proj2 (set_eqb_spec _ _) Hrc), (proj2 (nodupb_spec _) Hn1), (proj2 (nodupb_spec _) Hn2). simpl.
  f_equal. f_equal. apply tabulate_ext. intros r c Hr Hc. apply df_get_repr; [exact Hd|exact Hr|now apply Hrc].
Qed.

(* ================================================================ one_vs_all *)
(* the entries outside row j and column j: population - row j - column j + the diagonal cell counted twice *)
Lemma sumQ_remove_nth j l : sumQ (remove_nth j l) == sumQ l - nth j l 0.
Proof.
  revert j. induction l as [|x r IH]; intros [|j]; simpl; try ring. rewrite IH. ring.
Qed.
Lemma map_remove_nth {A B} (f : A -> B) j l : map f (remove_nth j l) = remove_nth j (map f l).
Proof. revert j. induction l as [|x r IH]; intros [|j]; simpl; try reflexivity. now rewrite IH. Qed.
Lemma sumQ_map_minus {A} (f g : A -> Q) l : sumQ (map (fun x => f x - g x) l) == sumQ (map f l) - sumQ (map g l).
Proof. induction l as [|x r IH]; simpl; [ring|rewrite IH; ring]. Qed.
Lemma total_others M j : total (others M j) == total M - row_sum M j - col_sum M j + entry M j j.
Proof.
  unfold total, others. rewrite map_remove_nth, map_map, sumQ_remove_nth.
  rewrite (sumQ_map_ext (fun r => sumQ (remove_nth j r)) (fun r => sumQ r - nth j r 0) M)
    by (intros; apply sumQ_remove_nth).
  rewrite sumQ_map_minus.
  assert (E : nth j (map (fun r => sumQ (remove_nth j r)) M) 0 = sumQ (remove_nth j (nth j M [])))
    by exact (map_nth (fun r => sumQ (remove_nth j r)) M [] j).
  rewrite E, sumQ_remove_nth.
  unfold row_sum, col_sum, entry. ring.
Qed.

Theorem ova_one_facts M j :
  msum (ova_one M j) == total M /\ tp (ova_one M j) = entry M j j /\
  p (ova_one M j) == row_sum M j /\ top (ova_one M j) == col_sum M j.
Proof.
  unfold ova_one, msum, tp, p, top. simpl. rewrite total_others. repeat split; try ring.
Qed.
Lemma one_vs_all_length M n : length (one_vs_all M n) = n.
Proof. unfold one_vs_all. now rewrite map_length, seq_length. Qed.
Lemma one_vs_all_nth M n j d : (j < n)%nat -> nth j (one_vs_all M n) d = ova_one M j.
Proof.
  intro H. unfold one_vs_all. rewrite (nth_map_in (ova_one M) (seq 0 n) 0%nat d j) by (now rewrite seq_length).
  now rewrite seq_nth.
Qed.
(* non-negative matrix: the 2x2 matrices are non-negative too, so every per-class rate lies in [0,1] (C04) *)
Definition mat_nonneg (M : mat) : Prop := Forall (Forall (fun x => 0 <= x)) M.
Lemma sumQ_nonneg l : Forall (fun x => 0 <= x) l -> 0 <= sumQ l.
Proof. induction 1 as [|x r Hx _ IH]; simpl; lra. Qed.
Lemma sumQ_ge_nth l k : Forall (fun x => 0 <= x) l -> nth k l 0 <= sumQ l.
Proof.
  intro H. revert k. induction H as [|x r Hx Hr IH]; intros [|k]; simpl; try lra.
  - pose proof (sumQ_nonneg r Hr). lra.
  - specialize (IH k). lra.
Qed.
Lemma Forall_remove_nth {A} (P : A -> Prop) j l : Forall P l -> Forall P (remove_nth j l).
Proof. intro H. revert j. induction H as [|x r Hx Hr IH]; intros [|j]; simpl; auto. Qed.
Lemma nth_nonneg l k : Forall (fun x => 0 <= x) l -> 0 <= nth k l 0.
Proof. intro H. revert k. induction H as [|x r Hx Hr IH]; intros [|k]; simpl; auto; lra. Qed.
Lemma row_nonneg M j : mat_nonneg M -> Forall (fun x => 0 <= x) (nth j M []).
Proof. intro H. revert j. induction H as [|r M' Hr _ IH]; intros [|j]; simpl; auto. Qed.
Theorem ova_one_nonneg M j : mat_nonneg M -> nonneg (ova_one M j).
Proof.
  intro H. unfold nonneg, ova_one. simpl. repeat split.
  - apply nth_nonneg, row_nonneg, H.
  - unfold row_sum, entry. pose proof (sumQ_ge_nth (nth j M []) j (row_nonneg M j H)). lra.
  - unfold col_sum, entry.
    assert (Hc : Forall (fun x => 0 <= x) (map (fun r => nth j r 0) M)).
    { apply Forall_forall. intros x Hx. apply in_map_iff in Hx. destruct Hx as (r & <- & Hr).
      apply nth_nonneg. unfold mat_nonneg in H. rewrite Forall_forall in H. now apply H. }
    pose proof (sumQ_ge_nth _ j Hc) as K.
    destruct (Nat.lt_ge_cases j (length M)) as [L|L].
    + rewrite (nth_map_in (fun r => nth j r 0) M [] 0 j L) in K. lra.
    + rewrite (nth_overflow M [] L). destruct j; simpl; pose proof (sumQ_nonneg _ Hc); lra.
  - unfold total. apply sumQ_nonneg. apply Forall_forall. intros x Hx. apply in_map_iff in Hx.
    destruct Hx as (r & <- & Hr). apply sumQ_nonneg. unfold others in Hr.
    assert (Hall : mat_nonneg (remove_nth j (map (remove_nth j) M))).
    { apply Forall_remove_nth. apply Forall_forall. intros y Hy. apply in_map_iff in Hy.
      destruct Hy as (r0 & <- & Hr0). apply Forall_remove_nth. unfold mat_nonneg in H. rewrite Forall_forall in H. now apply H. }
    unfold mat_nonneg in Hall. rewrite Forall_forall in Hall. now apply Hall.
Qed.
(* every per-class rate of a non-negative matrix lies in [0,1] (or is NaN) *)
Theorem per_class_rates_in01 M n0 : mat_nonneg M ->
  Forall (fun m => in01 (tpr m) /\ in01 (fnr m) /\ in01 (tnr m) /\ in01 (fpr m) /\ in01 (ppv m) /\ in01 (npv m) /\
                   in01 (fdr m) /\ in01 (for_ m) /\ in01 (topr m) /\ in01 (tonr m) /\ in01 (accuracy m) /\
                   in01 (error_rate m)) (one_vs_all M n0).
Proof.
  intro H. unfold one_vs_all. apply Forall_forall. intros m Hm. apply in_map_iff in Hm.
  destruct Hm as (j & <- & _). apply rates_in01. now apply ova_one_nonneg.
Qed.

(* ================================================================ permutation equivariance *)
Definition cm2_eq (a b : cm2) : Prop := m00 a == m00 b /\ m01 a == m01 b /\ m10 a == m10 b /\ m11 a == m11 b.

Section Permute.
  Variables (n : nat) (M : mat) (sigma : list nat).
  Hypothesis Hsq : square n M.
  Hypothesis Hperm : Permutation sigma (seq 0 n).

  Lemma sigma_length : length sigma = n.
  Proof. rewrite (Permutation_length Hperm). apply seq_length. Qed.

  Lemma row_sum_permute k : (k < n)%nat -> row_sum (permute M sigma) k == row_sum M (nth k sigma 0%nat).
  Proof.
    intro Hk. pose proof sigma_length as Hl.
    rewrite (row_sum_seq n M _ Hsq (perm_seq_bound sigma n Hperm k Hk)).
    unfold row_sum, permute.
    rewrite (nth_map_in (fun i => map (fun j => entry M i j) sigma) sigma 0%nat [] k) by lia.
    now apply sumQ_map_perm.
  Qed.
  Lemma col_sum_permute k : (k < n)%nat -> col_sum (permute M sigma) k == col_sum M (nth k sigma 0%nat).
  Proof.
    intro Hk. pose proof sigma_length as Hl. rewrite (col_sum_seq M). destruct Hsq as [HlM _]. rewrite HlM.
    unfold col_sum, permute. rewrite map_map.
    rewrite <- (sumQ_map_perm (fun i => entry M i (nth k sigma 0%nat)) sigma (seq 0 n) Hperm).
    apply sumQ_map_ext. intros i Hi.
    rewrite (nth_map_in (fun j => entry M i j) sigma 0%nat 0 k) by lia. reflexivity.
  Qed.
  Lemma total_permute : total (permute M sigma) == total M.
  Proof.
    rewrite (total_seq n M Hsq). unfold total, permute. rewrite map_map.
    rewrite <- (sumQ_map_perm (fun i => sumQ (map (fun j => entry M i j) (seq 0 n))) sigma (seq 0 n) Hperm).
    apply sumQ_map_ext. intros i Hi. now apply sumQ_map_perm.
  Qed.
  Lemma ova_one_permute k : (k < n)%nat -> cm2_eq (ova_one (permute M sigma) k) (ova_one M (nth k sigma 0%nat)).
  Proof.
    intro Hk. pose proof sigma_length as Hl. unfold cm2_eq, ova_one. simpl. rewrite !total_others.
    rewrite entry_permute by lia. rewrite (row_sum_permute k Hk), (col_sum_permute k Hk), total_permute.
    repeat split; reflexivity.
  Qed.

  (* per-class metric vector of the permuted matrix = the vector of M re-indexed by sigma *)
  Theorem class_metric_permute {A} (R : A -> A -> Prop) (f : cm2 -> A) (d : A) :
    (forall a b, cm2_eq a b -> R (f a) (f b)) ->
    Forall2 R (map f (one_vs_all (permute M sigma) n)) (map (fun i => nth i (map f (one_vs_all M n)) d) sigma).
  Proof.
    intro Hf. pose proof sigma_length as Hl.
    rewrite (map_as_seq (fun i => nth i (map f (one_vs_all M n)) d) 0%nat sigma), Hl.
    unfold one_vs_all at 1. rewrite map_map. apply Forall2_map_seq. intros k Hk.
    assert (Hb := perm_seq_bound sigma n Hperm k (proj2 Hk)).
    rewrite (nth_map_in f (one_vs_all M n) (Build_cm2 0 0 0 0) d) by (now rewrite one_vs_all_length).
    rewrite one_vs_all_nth by exact Hb. apply Hf. apply ova_one_permute. lia.
  Qed.
End Permute.

(* every metric respects cell-wise equality *)
Lemma rdiv_compat a b c d : a == c -> b == d -> req (rdiv a b) (rdiv c d).
Proof.
  intros H1 H2. unfold rdiv.
  assert (E : Qeqb b 0 = Qeqb d 0).
  { destruct (Qeqb b 0) eqn:A, (Qeqb d 0) eqn:B; try reflexivity.
    - apply Qeqb_eq in A. assert (K : d == 0) by lra. apply Qeqb_eq in K. congruence.
    - apply Qeqb_eq in B. assert (K : b == 0) by lra. apply Qeqb_eq in K. congruence. }
  rewrite E. destruct (Qeqb d 0); simpl; [exact I|]. now rewrite H1, H2.
Qed.
Lemma rcompl_compat r s : req r s -> req (rcompl r) (rcompl s).
Proof. destruct r, s; simpl; try tauto. intro H. now rewrite H. Qed.

Ltac cells H := destruct H as (H00 & H01 & H10 & H11).
Lemma compat_counts a b : cm2_eq a b ->
  tp a == tp b /\ tn a == tn b /\ fp a == fp b /\ fn a == fn b /\ p a == p b /\ n a == n b /\
  top a == top b /\ ton a == ton b /\ pop a == pop b.
Proof. intro H. cells H. unfold tp, tn, fp, fn, p, n, top, ton, pop, msum. repeat split; lra. Qed.
Lemma compat_rates a b : cm2_eq a b ->
  req (tpr a) (tpr b) /\ req (tnr a) (tnr b) /\ req (fpr a) (fpr b) /\ req (fnr a) (fnr b) /\
  req (topr a) (topr b) /\ req (tonr a) (tonr b) /\ req (ppv a) (ppv b) /\ req (npv a) (npv b) /\
  req (fdr a) (fdr b) /\ req (for_ a) (for_ b) /\ req (accuracy a) (accuracy b) /\ req (error_rate a) (error_rate b).
Proof.
  intro H. cells H.
  unfold fdr, for_, error_rate, tpr, tnr, fpr, fnr, topr, tonr, ppv, npv, accuracy, top, ton, pop, msum, mtrace.
  repeat split; try apply rcompl_compat; apply rdiv_compat; lra.
Qed.

Section CICompat.
  Variables isf sqrtQ : Q -> Q.
  Hypothesis sqrt_compat : forall x y, x == y -> sqrtQ x == sqrtQ y.
  Definition ci_req (x y : rate * rate) : Prop := req (fst x) (fst y) /\ req (snd x) (snd y).
  Lemma binomial_ci_compat c1 n1 c2 n2 alpha : c1 == c2 -> n1 == n2 ->
    ci_req (binomial_ci isf sqrtQ c1 n1 alpha) (binomial_ci isf sqrtQ c2 n2 alpha).
  Proof.
    intros Hc Hn. unfold ci_req, binomial_ci, rdiv, rdivr.
    assert (E : Qeqb n1 0 = Qeqb n2 0).
    { destruct (Qeqb n1 0) eqn:A, (Qeqb n2 0) eqn:B; try reflexivity.
      - apply Qeqb_eq in A. assert (K : n2 == 0) by lra. apply Qeqb_eq in K. congruence.
      - apply Qeqb_eq in B. assert (K : n1 == 0) by lra. apply Qeqb_eq in K. congruence. }
    rewrite E. destruct (Qeqb n2 0); simpl; [split; exact I|].
    assert (Hs : sqrtQ (c1 / n1 * (1 - c1 / n1) / n1) == sqrtQ (c2 / n2 * (1 - c2 / n2) / n2))
      by (apply sqrt_compat; now rewrite Hc, Hn).
    split; now rewrite Hs, Hc, Hn.
  Qed.
  Lemma compat_cis alpha a b : cm2_eq a b ->
    ci_req (tpr_ci isf sqrtQ a alpha) (tpr_ci isf sqrtQ b alpha) /\
    ci_req (tnr_ci isf sqrtQ a alpha) (tnr_ci isf sqrtQ b alpha) /\
    ci_req (fpr_ci isf sqrtQ a alpha) (fpr_ci isf sqrtQ b alpha) /\
    ci_req (fnr_ci isf sqrtQ a alpha) (fnr_ci isf sqrtQ b alpha).
  Proof.
    intro H. cells H. unfold tpr_ci, tnr_ci, fpr_ci, fnr_ci, tp, tn, fp, fn, p, n.
    repeat split; apply binomial_ci_compat; lra.
  Qed.
End CICompat.

(* ================================================================ as_dict *)
Lemma as_dict_keys {A} (d : A) classes arr : map fst (class_metric_as_dict d classes arr) = classes.
Proof.
  unfold class_metric_as_dict. generalize 0%nat. induction classes as [|c r IH]; intro k; simpl; [reflexivity|].
  f_equal. apply IH.
Qed.
Lemma dict_last_notin {A} (g : nat * cls -> cls * A) c k cl :
  (forall jc, fst (g jc) = snd jc) -> ~ In c cl -> dict_last c (map g (enumerate_from k cl)) = None.
Proof.
  intros Hg. revert k. induction cl as [|x r IH]; intros k H; simpl; [reflexivity|].
  destruct (g (k, x)) as [k' v] eqn:E. rewrite IH by (intro K; apply H; now right).
  assert (k' = x) by (specialize (Hg (k, x)); rewrite E in Hg; exact Hg). subst k'.
  destruct (Z.eqb c x) eqn:Ec; [|reflexivity]. apply Z.eqb_eq in Ec. subst. exfalso. apply H. now left.
Qed.
Theorem as_dict_agrees {A} (d : A) classes arr j : NoDup classes -> (j < length classes)%nat ->
  dict_last (nth j classes 0%Z) (class_metric_as_dict d classes arr) = Some (nth j arr d).
Proof.
  unfold class_metric_as_dict. intros Hn Hj.
  change (nth j arr d) with (nth (0 + j) arr d). generalize 0%nat as k.
  revert j Hj. induction classes as [|x r IH]; intros j Hj k; simpl in Hj; [lia|].
  inversion Hn as [|? ? Hx Hr]; subst. destruct j as [|j]; simpl.
  - rewrite (dict_last_notin (fun jc => (snd jc, nth (fst jc) arr d)) x (S k) r) by (auto; exact Hx).
    rewrite Z.eqb_refl. now rewrite Nat.add_0_r.
  - rewrite (IH Hr j ltac:(lia) (S k)). f_equal. f_equal. lia.
Qed.

(* the wrapper: shapes and agreement of the dict form with the array form *)
Theorem cm_class_metric_forms {A} (dflt : A) (metric : cm2 -> A) M classes :
  NoDup classes ->
  exists l, cm_class_metric dflt metric M classes false false = PerClass l /\ length l = length classes /\
    (forall j, (j < length classes)%nat -> nth j l dflt = metric (ova_one M j)) /\
    exists dct, cm_class_metric dflt metric M classes false true = AsDict dct /\ map fst dct = classes /\
      forall j, (j < length classes)%nat -> dict_last (nth j classes 0%Z) dct = Some (nth j l dflt).
Proof.
  intro Hn. unfold cm_class_metric. simpl.
  exists (map metric (one_vs_all M (length classes))). split; [reflexivity|].
  split; [now rewrite map_length, one_vs_all_length|]. split.
  - intros j Hj. rewrite (nth_map_in metric _ (Build_cm2 0 0 0 0) dflt) by (now rewrite one_vs_all_length).
    now rewrite one_vs_all_nth.
  - eexists. split; [reflexivity|]. split; [apply as_dict_keys|]. intros j Hj. now apply as_dict_agrees.
Qed.

(* ================================================================ accuracy *)
Theorem accuracyN_trace M : accuracyN M = rdiv (traceN M) (popN M) /\
  traceN M = sumQ (map tp (one_vs_all M (length M))).
Proof. split; [reflexivity|]. unfold traceN, one_vs_all. now rewrite map_map. Qed.
(* for a 2x2 matrix the N-class accuracy is the binary accuracy *)
Theorem accuracyN_binary M : square 2 M -> req (accuracyN M) (accuracy (cm2_of_mat M)).
Proof.
  intros [Hl Hr]. destruct M as [|r0 [|r1 [|]]]; try discriminate.
  inversion Hr as [|? ? H0 Hr']; subst. inversion Hr' as [|? ? H1 _]; subst.
  destruct r0 as [|a [|b [|]]]; try discriminate. destruct r1 as [|c [|d [|]]]; try discriminate.
  unfold accuracyN, accuracy, traceN, total, cm2_of_mat, entry, mtrace, msum. simpl.
  apply rdiv_compat; ring.
Qed.

(* ================================================================ the statements of Props/C05.v *)
Lemma c05_inputs_agree_proof : forall f d df cs,
  dict_repr d f -> df_repr df f ->
  (forall c, In c cs <-> In c (map fst d)) -> (forall c, In c cs <-> In c (df_rows df)) ->
  from_dict d (Some cs) = Some (tabulate f cs, cs) /\
  from_df df (Some cs) = Some (tabulate f cs, cs) /\
  from_array (tabulate f cs) (Some cs) false = (tabulate f cs, cs) /\
  from_dict d None = Some (tabulate f (map fst d), map fst d) /\
  from_df df None = Some (tabulate f (df_rows df), df_rows df).
Proof.
  intros f d df cs Hd Hf H1 H2. repeat split;
    [now apply from_dict_explicit|now apply from_df_explicit|now apply from_dict_implicit|now apply from_df_implicit].
Qed.

Lemma c05_labels_agree_proof : forall cs samples M, NoDup cs -> assign_from_predictions cs samples = Some M ->
  square (length cs) M /\ square (length cs) (tabulate (fun a b => wsum a b samples) cs) /\
  forall i j, (i < length cs)%nat -> (j < length cs)%nat ->
    entry M i j == entry (tabulate (fun a b => wsum a b samples) cs) i j.
Proof.
  intros cs samples M Hn H. destruct (assign_entry cs samples M Hn H) as [Hsq He].
  split; [exact Hsq|]. split; [apply square_tabulate|]. intros i j Hi Hj.
  rewrite entry_tabulate by assumption. now apply He.
Qed.

Lemma c05_reorder_proof : forall f cs sigma, Forall (fun i => (i < length cs)%nat) sigma ->
  tabulate f (map (fun i => nth i cs 0%Z) sigma) = permute (tabulate f cs) sigma /\
  forall a b, (a < length sigma)%nat -> (b < length sigma)%nat ->
    entry (permute (tabulate f cs) sigma) a b = entry (tabulate f cs) (nth a sigma 0%nat) (nth b sigma 0%nat).
Proof.
  intros f cs sigma H. split; [now apply tabulate_reorder|]. intros a b Ha Hb. now apply entry_permute.
Qed.

Lemma c05_one_vs_all_proof : forall n M, square n M ->
  length (one_vs_all M n) = n /\
  forall j, (j < n)%nat ->
    let m := nth j (one_vs_all M n) (Build_cm2 0 0 0 0) in
    pop m == total M /\ tp m = entry M j j /\
    p m == sumQ (map (fun k => entry M j k) (seq 0 n)) /\
    top m == sumQ (map (fun i => entry M i j) (seq 0 n)).
Proof.
  intros n M Hsq. split; [apply one_vs_all_length|]. intros j Hj. cbv zeta. rewrite one_vs_all_nth by exact Hj.
  destruct (ova_one_facts M j) as (A & B & C & D). repeat split; try assumption.
  - now rewrite C, (row_sum_seq n M j Hsq Hj).
  - rewrite D, col_sum_seq. destruct Hsq as [-> _]. reflexivity.
Qed.

Lemma c05_per_class_permute_proof : forall N M sigma, square N M -> Permutation sigma (seq 0 N) ->
  (forall f, In f [tp; tn; fp; fn; p; n; top; ton; pop] ->
     Forall2 Qeq (map f (one_vs_all (permute M sigma) N)) (map (fun i => nth i (map f (one_vs_all M N)) 0) sigma)) /\
  (forall f, In f [tpr; tnr; fpr; fnr; tar; frr; trr; far; topr; tonr; acceptance_rate; rejection_rate;
                   ppv; npv; fdr; for_; accuracy; error_rate] ->
     Forall2 req (map f (one_vs_all (permute M sigma) N)) (map (fun i => nth i (map f (one_vs_all M N)) None) sigma)).
Proof.
  intros n0 M sigma Hsq Hp. split; intros f Hf; apply (class_metric_permute n0 M sigma Hsq Hp); intros a b Hab;
    [pose proof (compat_counts a b Hab) as H|pose proof (compat_rates a b Hab) as H]; simpl in Hf;
    repeat (destruct Hf as [<-|Hf]; [tauto|]); destruct Hf.
Qed.

Lemma c05_per_class_permute_ci_proof : forall (isf sqrtQ : Q -> Q), (forall x y, x == y -> sqrtQ x == sqrtQ y) ->
  forall alpha n M sigma, square n M -> Permutation sigma (seq 0 n) ->
  forall f, In f [tpr_ci isf sqrtQ; tnr_ci isf sqrtQ; fpr_ci isf sqrtQ; fnr_ci isf sqrtQ] ->
    Forall2 ci_req (map (fun m => f m alpha) (one_vs_all (permute M sigma) n))
                   (map (fun i => nth i (map (fun m => f m alpha) (one_vs_all M n)) (None, None)) sigma).
Proof.
  intros isf sqrtQ Hs alpha n0 M sigma Hsq Hp f Hf.
  apply (class_metric_permute n0 M sigma Hsq Hp ci_req (fun m => f m alpha)). intros a b Hab.
  pose proof (compat_cis isf sqrtQ Hs alpha a b Hab) as H. simpl in Hf.
  repeat (destruct Hf as [<-|Hf]; [tauto|]). destruct Hf.
Qed.

Lemma c05_accuracy_proof : forall M,
  accuracyN M = rdiv (traceN M) (popN M) /\ traceN M = sumQ (map tp (one_vs_all M (length M))) /\
  (square 2 M -> req (accuracyN M) (accuracy (cm2_of_mat M))).
Proof.
  intro M. destruct (accuracyN_trace M) as [A B]. split; [exact A|split; [exact B|apply accuracyN_binary]].
Qed.

Lemma c05_example_proof :
  let classes := [2; 0; 1]%Z in
  let samples : list sample := [(0%Z, 0%Z, 1); (0%Z, 1%Z, 2); (1%Z, 1%Z, 1#2); (2%Z, 0%Z, 3); (2%Z, 2%Z, 1); (0%Z, 1%Z, 1)] in
  NoDup classes /\
  assign_from_predictions classes samples = Some [[1; 3; 0]; [0; 1; 0 + 2 + 1]; [0; 0; 1#2]] /\
  implicit_classes samples = [0; 1; 2]%Z /\
  Permutation [1; 2; 0]%nat (seq 0 3) /\
  Forall2 cm2_eq (one_vs_all [[1; 3; 0]; [0; 1; 3]; [0; 0; 1#2]] 3)
    [Build_cm2 1 3 0 (9#2); Build_cm2 1 3 3 (3#2); Build_cm2 (1#2) 0 3 5] /\
  map tpr (one_vs_all [[1; 3; 0]; [0; 1; 3]; [0; 0; 1#2]] 3) <> map tpr (one_vs_all (permute [[1; 3; 0]; [0; 1; 3]; [0; 0; 1#2]] [1; 2; 0]%nat) 3).
Proof.
  cbv zeta. split; [repeat constructor; simpl; intuition; discriminate|]. split; [reflexivity|]. split; [reflexivity|].
  split; [apply Permutation_sym; change (seq 0 3) with [0;1;2]%nat;
          apply (perm_trans (l' := [1;0;2]%nat)); [apply perm_swap|apply perm_skip, perm_swap]|].
  split; [repeat constructor; vm_compute; reflexivity|]. vm_compute. discriminate.
Qed.

Lemma c05_tn_direct_sum_proof : forall M j,
  tn (ova_one M j) = total (others M j) /\
  total (others M j) == total M - row_sum M j - col_sum M j + entry M j j.
Proof. intros M j. split; [reflexivity|apply total_others]. Qed.
