(* Proofs/MetricsFacts.v — C04: algebra of the binary metrics, NaN rule, normal-approximation CIs. *)
From SA Require Import Model.Metrics.
Open Scope Q_scope.

Lemma counts_add (m : cm2) : p m + n m == pop m /\ top m + ton m == pop m.
Proof. unfold p, n, top, ton, pop, msum. split; ring. Qed.

(* a pair of rates r1 = a/d, r2 = b/d with a + b = d sums to one; both NaN exactly when d = 0 *)
Definition sum_to_one (r1 r2 : rate) : Prop :=
  match r1, r2 with Some x, Some y => x + y == 1 | None, None => True | _, _ => False end.

Lemma rdiv_pair_sum a b d : a + b == d -> sum_to_one (rdiv a d) (rdiv b d).
Proof.
  intro H. unfold sum_to_one, rdiv. destruct (Qeqb d 0) eqn:E; [exact I|].
  assert (~ d == 0) by (intro K; apply Qeqb_eq in K; congruence). field_simplify_eq; [|exact H0]. lra.
Qed.
Lemma rcompl_sum r : sum_to_one r (rcompl r).
Proof. destruct r; simpl; [ring|exact I]. Qed.

Lemma tpr_fnr m : sum_to_one (tpr m) (fnr m).
Proof. apply rdiv_pair_sum. ring. Qed.
Lemma tnr_fpr m : sum_to_one (tnr m) (fpr m).
Proof. unfold tnr, fpr. apply rdiv_pair_sum. ring. Qed.
Lemma ppv_fdr m : sum_to_one (ppv m) (fdr m).
Proof. apply rcompl_sum. Qed.
Lemma npv_for m : sum_to_one (npv m) (for_ m).
Proof. apply rcompl_sum. Qed.
Lemma topr_tonr m : sum_to_one (topr m) (tonr m).
Proof. apply rdiv_pair_sum. unfold top, ton, pop, msum. ring. Qed.
Lemma acc_err m : sum_to_one (accuracy m) (error_rate m).
Proof. apply rcompl_sum. Qed.

Definition in01 (r : rate) : Prop := match r with Some x => 0 <= x <= 1 | None => True end.

Lemma rdiv_in01 a d : 0 <= a -> a <= d -> in01 (rdiv a d).
Proof.
  intros Ha Hd. unfold in01, rdiv. destruct (Qeqb d 0) eqn:E; [exact I|].
  assert (Hn : ~ d == 0) by (intro K; apply Qeqb_eq in K; congruence).
  assert (0 < d) by lra.
  split.
  - apply Qle_shift_div_l; [assumption|lra].
  - apply Qle_shift_div_r; [assumption|lra].
Qed.
Lemma rcompl_in01 r : in01 r -> in01 (rcompl r).
Proof. destruct r; simpl; [lra|trivial]. Qed.

Theorem rates_in01 m : nonneg m ->
  in01 (tpr m) /\ in01 (fnr m) /\ in01 (tnr m) /\ in01 (fpr m) /\ in01 (ppv m) /\ in01 (npv m) /\
  in01 (fdr m) /\ in01 (for_ m) /\ in01 (topr m) /\ in01 (tonr m) /\ in01 (accuracy m) /\ in01 (error_rate m).
Proof.
  intros (H0 & H1 & H2 & H3).
  repeat split; try apply rcompl_in01; unfold tpr, fnr, tnr, fpr, ppv, npv, topr, tonr, accuracy, top, ton, pop, msum, mtrace;
    apply rdiv_in01; lra.
Qed.

(* NaN exactly when the denominator is zero *)
Theorem nan_rule m :
  (tpr m = None <-> p m == 0) /\ (fnr m = None <-> p m == 0) /\
  (tnr m = None <-> n m == 0) /\ (fpr m = None <-> n m == 0) /\
  (ppv m = None <-> top m == 0) /\ (fdr m = None <-> top m == 0) /\
  (npv m = None <-> ton m == 0) /\ (for_ m = None <-> ton m == 0) /\
  (topr m = None <-> pop m == 0) /\ (tonr m = None <-> pop m == 0) /\
  (accuracy m = None <-> pop m == 0) /\ (error_rate m = None <-> pop m == 0).
Proof.
  assert (Hc : forall r, rcompl r = None <-> r = None) by (intros [x|]; simpl; split; congruence).
  unfold fdr, for_, error_rate. rewrite !Hc.
  unfold tpr, fnr, tnr, fpr, ppv, npv, topr, tonr, accuracy, p, n, top, ton, pop.
  repeat split; try (apply rdiv_none); intro H; try (apply rdiv_none in H);
    try (apply rdiv_none); try lra.
Qed.

(* the defining quotients *)
Theorem rate_definitions m :
  tpr m = rdiv (tp m) (p m) /\ fnr m = rdiv (fn m) (p m) /\ tnr m = rdiv (tn m) (n m) /\
  fpr m = rdiv (fp m) (n m) /\ ppv m = rdiv (tp m) (top m) /\ topr m = rdiv (top m) (pop m) /\
  tonr m = rdiv (ton m) (pop m) /\ accuracy m = rdiv (tp m + tn m) (pop m).
Proof. repeat split. Qed.
Lemma npv_definition m : req (npv m) (rdiv (tn m) (ton m)).
Proof.
  unfold npv, tn, ton, rdiv.
  assert (E : Qeqb (m11 m + m01 m) 0 = Qeqb (m01 m + m11 m) 0).
  { destruct (Qeqb (m11 m + m01 m) 0) eqn:A, (Qeqb (m01 m + m11 m) 0) eqn:B; try reflexivity.
    - apply Qeqb_eq in A. assert (K : m01 m + m11 m == 0) by lra. apply Qeqb_eq in K. congruence.
    - apply Qeqb_eq in B. assert (K : m11 m + m01 m == 0) by lra. apply Qeqb_eq in K. congruence. }
  rewrite E. destruct (Qeqb (m01 m + m11 m) 0) eqn:B; simpl; [exact I|].
  assert (~ m01 m + m11 m == 0) by (intro K; apply Qeqb_eq in K; congruence).
  field_simplify_eq; lra.
Qed.

(* ---------- confidence intervals ---------- *)
Section CIFacts.
  Variable isf : Q -> Q.
  Variable sqrtQ : Q -> Q.
  Hypothesis sqrt_compat : forall x y, x == y -> sqrtQ x == sqrtQ y.
  Hypothesis sqrt_nonneg : forall x, 0 <= sqrtQ x.
  (* the upper-tail quantile is antitone in its argument *)
  Hypothesis isf_antitone : forall a b, a <= b -> isf b <= isf a.
  Hypothesis isf_compat : forall a b, a == b -> isf a == isf b.

  Notation bci := (binomial_ci isf sqrtQ).

  (* shape of the interval: centred on the rate, half-width z * sqrt(p(1-p)/n), NaN iff the rate is *)
  Theorem ci_formula count nobs alpha :
    match rdiv count nobs, bci count nobs alpha with
    | None, (None, None) => True
    | Some pr, (Some lo, Some hi) =>
        lo == pr - isf (alpha / 2) * sqrtQ (pr * (1 - pr) / nobs) /\
        hi == pr + isf (alpha / 2) * sqrtQ (pr * (1 - pr) / nobs) /\
        (lo + hi) * (1#2) == pr
    | _, _ => False
    end.
  Proof.
    unfold binomial_ci, rdiv, rdivr. destruct (Qeqb nobs 0) eqn:E; simpl; [exact I|].
    repeat split; try reflexivity. ring.
  Qed.

  Theorem ci_nan_iff count nobs alpha :
    (fst (bci count nobs alpha) = None <-> rdiv count nobs = None) /\
    (snd (bci count nobs alpha) = None <-> rdiv count nobs = None).
  Proof.
    unfold binomial_ci, rdiv, rdivr. destruct (Qeqb nobs 0) eqn:E; simpl; split; split; congruence.
  Qed.

  (* interval of the complementary rate is the mirrored interval *)
  Theorem ci_mirror a b nobs alpha : a + b == nobs ->
    req (fst (bci b nobs alpha)) (rcompl (snd (bci a nobs alpha))) /\
    req (snd (bci b nobs alpha)) (rcompl (fst (bci a nobs alpha))).
  Proof.
    intro H. unfold binomial_ci, rdiv, rdivr. destruct (Qeqb nobs 0) eqn:E; simpl; [split; exact I|].
    assert (Hn : ~ nobs == 0) by (intro K; apply Qeqb_eq in K; congruence).
    assert (Hs : sqrtQ (b / nobs * (1 - b / nobs) / nobs) == sqrtQ (a / nobs * (1 - a / nobs) / nobs)).
    { apply sqrt_compat. field_simplify_eq; [|exact Hn].
      setoid_replace b with (nobs - a) by lra. ring. }
    assert (Hb : b / nobs == 1 - a / nobs) by (field_simplify_eq; [lra|exact Hn]).
    split; rewrite Hs, Hb; ring.
  Qed.

  Theorem fnr_ci_mirrors_tpr_ci m alpha :
    req (fst (fnr_ci isf sqrtQ m alpha)) (rcompl (snd (tpr_ci isf sqrtQ m alpha))) /\
    req (snd (fnr_ci isf sqrtQ m alpha)) (rcompl (fst (tpr_ci isf sqrtQ m alpha))).
  Proof. apply ci_mirror. unfold tp, fn, p. ring. Qed.
  Theorem fpr_ci_mirrors_tnr_ci m alpha :
    req (fst (fpr_ci isf sqrtQ m alpha)) (rcompl (snd (tnr_ci isf sqrtQ m alpha))) /\
    req (snd (fpr_ci isf sqrtQ m alpha)) (rcompl (fst (tnr_ci isf sqrtQ m alpha))).
  Proof. apply ci_mirror. unfold tn, fp, n. ring. Qed.

  (* nested in alpha: a smaller alpha gives a wider interval *)
  Theorem ci_nested count nobs a1 a2 : a1 <= a2 ->
    match bci count nobs a1, bci count nobs a2 with
    | (Some lo1, Some hi1), (Some lo2, Some hi2) => lo1 <= lo2 /\ hi2 <= hi1
    | (None, None), (None, None) => True
    | _, _ => False
    end.
  Proof.
    intro H. unfold binomial_ci, rdiv, rdivr. destruct (Qeqb nobs 0) eqn:E; simpl; [exact I|].
    assert (Hz : isf (a2 / 2) <= isf (a1 / 2)) by (apply isf_antitone; unfold Qdiv; apply Qmult_le_compat_r; [exact H|discriminate]).
    pose proof (sqrt_nonneg (count / nobs * (1 - count / nobs) / nobs)) as Hs.
    set (s := sqrtQ _) in *. set (z1 := isf (a1 / 2)) in *. set (z2 := isf (a2 / 2)) in *.
    assert (0 <= (z1 - z2) * s) by (apply Qmult_le_0_compat; lra).
    split; lra.
  Qed.

  (* ordered whenever z >= 0, i.e. alpha <= 1 for the normal distribution *)
  Theorem ci_ordered count nobs alpha : 0 <= isf (alpha / 2) ->
    match bci count nobs alpha with
    | (Some lo, Some hi) => lo <= hi | (None, None) => True | _ => False end.
  Proof.
    intro Hz. unfold binomial_ci, rdiv, rdivr. destruct (Qeqb nobs 0) eqn:E; simpl; [exact I|].
    pose proof (sqrt_nonneg (count / nobs * (1 - count / nobs) / nobs)) as Hs. nra.
  Qed.
End CIFacts.
