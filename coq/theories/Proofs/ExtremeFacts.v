(* Proofs/ExtremeFacts.v — C03: targets at or beyond either end of the scale give the threshold at
   which the metric takes its lowest / highest achievable value (the value at -inf / +inf). *)
From SA Require Import Model.Threshold Proofs.SentinelFacts.
Open Scope Q_scope.

Definition pos_row (c : cmz) : Z * Z := (ctp c, cfn c).
Definition neg_row (c : cmz) : Z * Z := (cfp c, ctn c).
(* thresholds at which no scored sample / every scored sample is "test outcome positive" *)
Definition reject_all (s : scores) : ext := match score_class s with Pos => PosInf | Neg => NegInf end.
Definition accept_all (s : scores) : ext := match score_class s with Pos => NegInf | Neg => PosInf end.
Definition flipped (s : scores) (increasing : bool) : bool :=
  xorb (negb increasing) (negb (label_eqb (score_class s) Pos)).

Lemma Qmax2_ge_r a b : b <= Qmax2 a b. Proof. apply Qmax2_spec. Qed.
Lemma Qmax2_ge_l a b : a <= Qmax2 a b. Proof. apply Qmax2_spec. Qed.
Lemma Qmax2_lub a b c : a <= c -> b <= c -> Qmax2 a b <= c.
Proof. intros. destruct (Qmax2_spec a b) as (_ & _ & [E|E]); rewrite E; assumption. Qed.
Lemma Qmin2_glb a b c : c <= a -> c <= b -> c <= Qmin2 a b.
Proof. intros. destruct (Qmin2_spec a b) as (_ & _ & [E|E]); rewrite E; assumption. Qed.
Lemma Qmin2_le_l a b : Qmin2 a b <= a. Proof. apply Qmin2_spec. Qed.
Lemma Qmin2_le_r a b : Qmin2 a b <= b. Proof. apply Qmin2_spec. Qed.

(* rescaled targets keep the ends of the scale *)
Lemma rescale_sub_low r e h : 0 <= e -> 0 < h -> r <= 0 ->
  Qmaximum (Qminimum (Qmaximum (r - e) 0 / h) 1) (b2q (Qleb 1 r)) <= 0.
Proof.
  intros He Hh Hr. assert (E : Qleb 1 r = false) by (qb; lra). rewrite E. unfold Qmaximum, Qminimum, b2q.
  apply Qmax2_lub; [|lra]. eapply Qle_trans; [apply Qmin2_le_l|].
  assert (Qmax2 (r - e) 0 <= 0) by (apply Qmax2_lub; lra).
  assert (0 <= Qmax2 (r - e) 0) by apply Qmax2_ge_r.
  assert (Qmax2 (r - e) 0 == 0) by lra. rewrite H1. unfold Qdiv. lra.
Qed.
Lemma rescale_sub_high r e h : 1 <= r ->
  1 <= Qmaximum (Qminimum (Qmaximum (r - e) 0 / h) 1) (b2q (Qleb 1 r)).
Proof. intros Hr. assert (E : Qleb 1 r = true) by (qb; lra). rewrite E. apply Qmax2_ge_r. Qed.
Lemma rescale_div_low r h : 0 < h -> r <= 0 -> Qminimum (r / h) 1 <= 0.
Proof.
  intros Hh Hr. eapply Qle_trans; [apply Qmin2_le_l|].
  apply Qle_shift_div_r; [exact Hh|lra].
Qed.
Lemma rescale_div_high r h : 0 < h -> h <= 1 -> 1 <= r -> 1 <= Qminimum (r / h) 1.
Proof.
  intros Hh Hh1 Hr. apply Qmin2_glb; [|lra]. apply Qle_shift_div_l; [exact Hh|lra].
Qed.

(* the hard/easy ratios are proper fractions *)
Lemma frac_pos_le1 (a b : Z) : (1 <= a)%Z -> (0 <= b)%Z -> 0 < inject_Z a / inject_Z (a + b) /\ inject_Z a / inject_Z (a + b) <= 1.
Proof.
  intros Ha Hb. assert (0 < inject_Z (a + b)) by (change 0 with (inject_Z 0); rewrite <- Zlt_Qlt; lia).
  assert (0 < inject_Z a) by (change 0 with (inject_Z 0); rewrite <- Zlt_Qlt; lia).
  assert (inject_Z a <= inject_Z (a + b)) by (rewrite <- Zle_Qle; lia).
  split; [apply Qlt_shift_div_l; lra|apply Qle_shift_div_r; lra].
Qed.
Lemma hard_pos_ratio_range s : (1 <= len (pos s))%Z -> (0 <= easy_pos s)%Z -> 0 < hard_pos_ratio s /\ hard_pos_ratio s <= 1.
Proof. intros. unfold hard_pos_ratio. destruct (0 <? easy_pos s)%Z; [apply frac_pos_le1; assumption|lra]. Qed.
Lemma hard_neg_ratio_range s : (1 <= len (neg s))%Z -> (0 <= easy_neg s)%Z -> 0 < hard_neg_ratio s /\ hard_neg_ratio s <= 1.
Proof. intros. unfold hard_neg_ratio. destruct (0 <? easy_neg s)%Z; [apply frac_pos_le1; assumption|lra]. Qed.
Lemma hard_ratio_range s : (1 <= nb_hard_samples s)%Z -> (0 <= easy_pos s)%Z -> (0 <= easy_neg s)%Z ->
  0 < hard_ratio s /\ hard_ratio s <= 1.
Proof.
  intros Hh Hp Hn. unfold hard_ratio, easy_ratio. destruct (0 <? nb_easy_samples s)%Z eqn:E; [|lra].
  apply Z.ltb_lt in E. unfold nb_all_samples.
  assert (A : 0 < inject_Z (nb_easy_samples s + nb_hard_samples s)) by (change 0 with (inject_Z 0); rewrite <- Zlt_Qlt; lia).
  assert (B : inject_Z (nb_easy_samples s + nb_hard_samples s) == inject_Z (nb_easy_samples s) + inject_Z (nb_hard_samples s)) by (rewrite inject_Z_plus; reflexivity).
  assert (C : 1 <= inject_Z (nb_hard_samples s)) by (change 1 with (inject_Z 1); rewrite <- Zle_Qle; lia).
  assert (D : 0 < inject_Z (nb_easy_samples s)) by (change 0 with (inject_Z 0); rewrite <- Zlt_Qlt; lia).
  set (a := inject_Z (nb_easy_samples s)) in *. set (d := inject_Z (nb_easy_samples s + nb_hard_samples s)) in *.
  assert (a / d < 1) by (apply Qlt_shift_div_r; lra).
  assert (0 <= a / d) by (apply Qle_shift_div_l; lra).
  lra.
Qed.

Section Extremes.
  Variable succ pred : Q -> Q.
  Hypothesis Hsucc : forall x, x < succ x.
  Hypothesis Hpred : forall x, pred x < x.
  Notation inv := (inv_incr succ pred).
  Notation tar := (threshold_at_ratio succ pred).

  Lemma inv_upper l u lc m : 1 <= u -> inv l u lc m = succ (nthZ l (len l - 1)).
  Proof. intro H. unfold inv_incr. assert (E : Qleb 1 u = true) by (qb; exact H). cbv zeta. rewrite E. reflexivity. Qed.

  Lemma inv_lower l u lc m : (1 <= len l)%Z -> u <= 0 -> inv l u lc m = pred (nthZ l 0).
  Proof.
    intros Hn H. unfold inv_incr. assert (E : Qleb 1 u = false) by (qb; lra). cbv zeta. rewrite E.
    assert (Hp : 0 < 1 / inject_Z (len l)).
    { apply Qlt_shift_div_l; [change 0 with (inject_Z 0); rewrite <- Zlt_Qlt; lia|lra]. }
    assert (E2 : Qleb (if negb lc then u - 1 / inject_Z (len l) else u) 0 = true) by (qb; destruct lc; simpl; lra).
    rewrite E2. reflexivity.
  Qed.

  Lemma tar_low s l u inc rc m : (1 <= len l)%Z -> u <= 0 ->
    tar s l u inc rc m = if flipped s inc then succ (nthZ l (len l - 1)) else pred (nthZ l 0).
  Proof.
    intros Hn Hu. unfold threshold_at_ratio, flipped.
    destruct inc, (score_class s); cbn [negb label_eqb xorb]; cbv iota beta;
      first [apply inv_upper; lra | apply inv_lower; [exact Hn|lra]].
  Qed.
  Lemma tar_high s l u inc rc m : (1 <= len l)%Z -> 1 <= u ->
    tar s l u inc rc m = if flipped s inc then pred (nthZ l 0) else succ (nthZ l (len l - 1)).
  Proof.
    intros Hn Hu. unfold threshold_at_ratio, flipped.
    destruct inc, (score_class s); cbn [negb label_eqb xorb]; cbv iota beta;
      first [apply inv_upper; lra | apply inv_lower; [exact Hn|lra]].
  Qed.

  (* the class row of the confusion matrix at a sentinel equals the row at -inf / +inf *)
  Lemma pos_row_lower s : sorted (pos s) -> pos_row (cm s (Fin (pred (nthZ (pos s) 0)))) = pos_row (cm s NegInf).
  Proof.
    intro Hs. unfold cm, pos_row. rewrite (searchsorted_below_all _ (pos s)) by (apply below_lower_sentinel; assumption).
    destruct (score_class s); reflexivity.
  Qed.
  Lemma pos_row_upper s : sorted (pos s) -> pos_row (cm s (Fin (succ (nthZ (pos s) (len (pos s) - 1))))) = pos_row (cm s PosInf).
  Proof.
    intro Hs. unfold cm, pos_row. rewrite (searchsorted_above_all _ (pos s)) by (apply above_upper_sentinel; assumption).
    destruct (score_class s); reflexivity.
  Qed.
  Lemma neg_row_lower s : sorted (neg s) -> neg_row (cm s (Fin (pred (nthZ (neg s) 0)))) = neg_row (cm s NegInf).
  Proof.
    intro Hs. unfold cm, neg_row. rewrite (searchsorted_below_all _ (neg s)) by (apply below_lower_sentinel; assumption).
    destruct (score_class s); reflexivity.
  Qed.
  Lemma neg_row_upper s : sorted (neg s) -> neg_row (cm s (Fin (succ (nthZ (neg s) (len (neg s) - 1))))) = neg_row (cm s PosInf).
  Proof.
    intro Hs. unfold cm, neg_row. rewrite (searchsorted_above_all _ (neg s)) by (apply above_upper_sentinel; assumption).
    destruct (score_class s); reflexivity.
  Qed.
  (* sentinels of the sorted concatenation are outside both classes: the whole matrix agrees *)
  Lemma cm_concat_lower s : let l := isort (neg s ++ pos s) in cm s (Fin (pred (nthZ l 0))) = cm s NegInf.
  Proof.
    cbv zeta. set (l := isort (neg s ++ pos s)).
    assert (H : Forall (fun x => pred (nthZ l 0) < x) (neg s ++ pos s)).
    { apply Forall_isort. apply below_lower_sentinel; [exact Hpred|apply isort_sorted]. }
    apply Forall_app in H. destruct H as [Hn Hp]. unfold cm.
    rewrite (searchsorted_below_all _ (pos s)), (searchsorted_below_all _ (neg s)) by assumption. reflexivity.
  Qed.
  Lemma cm_concat_upper s : let l := isort (neg s ++ pos s) in cm s (Fin (succ (nthZ l (len l - 1)))) = cm s PosInf.
  Proof.
    cbv zeta. set (l := isort (neg s ++ pos s)).
    assert (H : Forall (fun x => x < succ (nthZ l (len l - 1))) (neg s ++ pos s)).
    { apply Forall_isort. apply above_upper_sentinel; [exact Hsucc|apply isort_sorted]. }
    apply Forall_app in H. destruct H as [Hn Hp]. unfold cm.
    rewrite (searchsorted_above_all _ (pos s)), (searchsorted_above_all _ (neg s)) by assumption. reflexivity.
  Qed.

  Ltac ends s := unfold reject_all, accept_all, flipped; destruct (score_class s); cbn [negb label_eqb xorb].

  Theorem extremes_tpr s r m T : sorted (pos s) -> (0 <= easy_pos s)%Z ->
    threshold_at_tpr succ pred s r m = Ret T ->
    (r <= 0 -> pos_row (cm s (Fin T)) = pos_row (cm s (reject_all s))) /\
    (1 <= r -> pos_row (cm s (Fin T)) = pos_row (cm s (accept_all s))).
  Proof.
    intros Hs He. unfold threshold_at_tpr. destruct (len (pos s) =? 0)%Z eqn:E; [discriminate|].
    apply Z.eqb_neq in E. pose proof (len_nonneg (pos s)). assert (Hn : (1 <= len (pos s))%Z) by lia.
    destruct (hard_pos_ratio_range s Hn He) as [Hh0 Hh1].
    cbv zeta. intro HT. injection HT as HT. subst T. split; intro Hr.
    - rewrite tar_low; [|exact Hn|apply rescale_sub_low; [unfold easy_pos_ratio; lra|exact Hh0|exact Hr]].
      ends s; [apply pos_row_upper|apply pos_row_lower]; exact Hs.
    - rewrite tar_high; [|exact Hn|apply rescale_sub_high; exact Hr].
      ends s; [apply pos_row_lower|apply pos_row_upper]; exact Hs.
  Qed.

  Theorem extremes_fnr s r m T : sorted (pos s) -> (0 <= easy_pos s)%Z ->
    threshold_at_fnr succ pred s r m = Ret T ->
    (r <= 0 -> pos_row (cm s (Fin T)) = pos_row (cm s (accept_all s))) /\
    (1 <= r -> pos_row (cm s (Fin T)) = pos_row (cm s (reject_all s))).
  Proof.
    intros Hs He. unfold threshold_at_fnr. destruct (len (pos s) =? 0)%Z eqn:E; [discriminate|].
    apply Z.eqb_neq in E. pose proof (len_nonneg (pos s)). assert (Hn : (1 <= len (pos s))%Z) by lia.
    destruct (hard_pos_ratio_range s Hn He) as [Hh0 Hh1].
    cbv zeta. intro HT. injection HT as HT. subst T. split; intro Hr.
    - rewrite tar_low; [|exact Hn|apply rescale_div_low; assumption].
      ends s; [apply pos_row_lower|apply pos_row_upper]; exact Hs.
    - rewrite tar_high; [|exact Hn|apply rescale_div_high; assumption].
      ends s; [apply pos_row_upper|apply pos_row_lower]; exact Hs.
  Qed.

  Theorem extremes_tnr s r m T : sorted (neg s) -> (0 <= easy_neg s)%Z ->
    threshold_at_tnr succ pred s r m = Ret T ->
    (r <= 0 -> neg_row (cm s (Fin T)) = neg_row (cm s (accept_all s))) /\
    (1 <= r -> neg_row (cm s (Fin T)) = neg_row (cm s (reject_all s))).
  Proof.
    intros Hs He. unfold threshold_at_tnr. destruct (len (neg s) =? 0)%Z eqn:E; [discriminate|].
    apply Z.eqb_neq in E. pose proof (len_nonneg (neg s)). assert (Hn : (1 <= len (neg s))%Z) by lia.
    destruct (hard_neg_ratio_range s Hn He) as [Hh0 Hh1].
    cbv zeta. intro HT. injection HT as HT. subst T. split; intro Hr.
    - rewrite tar_low; [|exact Hn|apply rescale_sub_low; [unfold easy_neg_ratio; lra|exact Hh0|exact Hr]].
      ends s; [apply neg_row_lower|apply neg_row_upper]; exact Hs.
    - rewrite tar_high; [|exact Hn|apply rescale_sub_high; exact Hr].
      ends s; [apply neg_row_upper|apply neg_row_lower]; exact Hs.
  Qed.

  Theorem extremes_fpr s r m T : sorted (neg s) -> (0 <= easy_neg s)%Z ->
    threshold_at_fpr succ pred s r m = Ret T ->
    (r <= 0 -> neg_row (cm s (Fin T)) = neg_row (cm s (reject_all s))) /\
    (1 <= r -> neg_row (cm s (Fin T)) = neg_row (cm s (accept_all s))).
  Proof.
    intros Hs He. unfold threshold_at_fpr. destruct (len (neg s) =? 0)%Z eqn:E; [discriminate|].
    apply Z.eqb_neq in E. pose proof (len_nonneg (neg s)). assert (Hn : (1 <= len (neg s))%Z) by lia.
    destruct (hard_neg_ratio_range s Hn He) as [Hh0 Hh1].
    cbv zeta. intro HT. injection HT as HT. subst T. split; intro Hr.
    - rewrite tar_low; [|exact Hn|apply rescale_div_low; assumption].
      ends s; [apply neg_row_upper|apply neg_row_lower]; exact Hs.
    - rewrite tar_high; [|exact Hn|apply rescale_div_high; assumption].
      ends s; [apply neg_row_lower|apply neg_row_upper]; exact Hs.
  Qed.

  Lemma len_concat s : len (isort (neg s ++ pos s)) = nb_hard_samples s.
  Proof. unfold len, nb_hard_samples. rewrite isort_length, app_length. unfold len. lia. Qed.

  Lemma easy_total_nonneg (e : Z) s : (0 <= e)%Z -> (1 <= nb_hard_samples s)%Z -> (0 <= easy_pos s)%Z -> (0 <= easy_neg s)%Z ->
    0 <= inject_Z e / inject_Z (nb_all_samples s).
  Proof.
    intros. apply Qle_shift_div_l.
    - change 0 with (inject_Z 0). rewrite <- Zlt_Qlt. unfold nb_all_samples, nb_easy_samples. lia.
    - rewrite Qmult_0_l. change 0 with (inject_Z 0). rewrite <- Zle_Qle. assumption.
  Qed.

  Theorem extremes_topr s r m T : (0 <= easy_pos s)%Z -> (0 <= easy_neg s)%Z ->
    threshold_at_topr succ pred s r m = Ret T ->
    (r <= 0 -> cm s (Fin T) = cm s (reject_all s)) /\ (1 <= r -> cm s (Fin T) = cm s (accept_all s)).
  Proof.
    intros Hep Hen. unfold threshold_at_topr. cbv zeta. rewrite len_concat.
    destruct (nb_hard_samples s =? 0)%Z eqn:E; [discriminate|].
    apply Z.eqb_neq in E. assert (Hn : (1 <= nb_hard_samples s)%Z) by (unfold nb_hard_samples in *; pose proof (len_nonneg (pos s)); pose proof (len_nonneg (neg s)); lia).
    destruct (hard_ratio_range s Hn Hep Hen) as [Hh0 Hh1].
    intro HT. injection HT as HT. subst T. split; intro Hr.
    - rewrite tar_low; [|rewrite len_concat; exact Hn|apply rescale_sub_low; [apply easy_total_nonneg; assumption|exact Hh0|exact Hr]].
      ends s; [apply cm_concat_upper|apply cm_concat_lower].
    - rewrite tar_high; [|rewrite len_concat; exact Hn|apply rescale_sub_high; exact Hr].
      ends s; [apply cm_concat_lower|apply cm_concat_upper].
  Qed.

  Theorem extremes_tonr s r m T : (0 <= easy_pos s)%Z -> (0 <= easy_neg s)%Z ->
    threshold_at_tonr succ pred s r m = Ret T ->
    (r <= 0 -> cm s (Fin T) = cm s (accept_all s)) /\ (1 <= r -> cm s (Fin T) = cm s (reject_all s)).
  Proof.
    intros Hep Hen. unfold threshold_at_tonr. cbv zeta. rewrite len_concat.
    destruct (nb_hard_samples s =? 0)%Z eqn:E; [discriminate|].
    apply Z.eqb_neq in E. assert (Hn : (1 <= nb_hard_samples s)%Z) by (unfold nb_hard_samples in *; pose proof (len_nonneg (pos s)); pose proof (len_nonneg (neg s)); lia).
    destruct (hard_ratio_range s Hn Hep Hen) as [Hh0 Hh1].
    intro HT. injection HT as HT. subst T. split; intro Hr.
    - rewrite tar_low; [|rewrite len_concat; exact Hn|apply rescale_sub_low; [apply easy_total_nonneg; assumption|exact Hh0|exact Hr]].
      ends s; [apply cm_concat_lower|apply cm_concat_upper].
    - rewrite tar_high; [|rewrite len_concat; exact Hn|apply rescale_sub_high; exact Hr].
      ends s; [apply cm_concat_upper|apply cm_concat_lower].
  Qed.
End Extremes.

(* what the two ends are: nothing / everything scored is accepted *)
Lemma cm_reject_all s : cm s (reject_all s) = mkCmz (easy_pos s) (len (pos s)) 0 (len (neg s) + easy_neg s).
Proof.
  unfold cm, reject_all, cm_side. destruct (score_class s), (equal_class s); unfold searchsorted;
    destruct (count_posinf (pos s)), (count_posinf (neg s)), (count_neginf (pos s)), (count_neginf (neg s));
    repeat match goal with H : count _ _ = _ |- _ => rewrite H; clear H end; f_equal; lia.
Qed.
Lemma cm_accept_all s : cm s (accept_all s) = mkCmz (len (pos s) + easy_pos s) 0 (len (neg s)) (easy_neg s).
Proof.
  unfold cm, accept_all, cm_side. destruct (score_class s), (equal_class s); unfold searchsorted;
    destruct (count_posinf (pos s)), (count_posinf (neg s)), (count_neginf (pos s)), (count_neginf (neg s));
    repeat match goal with H : count _ _ = _ |- _ => rewrite H; clear H end; f_equal; lia.
Qed.

(* rates depend on the class row only *)
Lemma pos_row_rates s t t' : pos_row (cm s t) = pos_row (cm s t') -> s_tpr s t = s_tpr s t' /\ s_fnr s t = s_fnr s t'.
Proof. unfold pos_row, s_tpr, s_fnr, tpr, fnr, to_cm2. cbn [m00 m01]. intro H. injection H as H1 H2. rewrite H1, H2. split; reflexivity. Qed.
Lemma neg_row_rates s t t' : neg_row (cm s t) = neg_row (cm s t') -> s_tnr s t = s_tnr s t' /\ s_fpr s t = s_fpr s t'.
Proof. unfold neg_row, s_tnr, s_fpr, tnr, fpr, to_cm2. cbn [m10 m11]. intro H. injection H as H1 H2. rewrite H1, H2. split; reflexivity. Qed.

Section ExtremeRates.
  Variable succ pred : Q -> Q.
  Hypothesis Hsucc : forall x, x < succ x.
  Hypothesis Hpred : forall x, pred x < x.

  (* the six metrics at their extreme targets: metric(T) = metric(+-inf) *)
  Definition low_end (mt : metric6) (s : scores) : ext :=
    match mt with MTpr | MFpr | MTopr => reject_all s | MFnr | MTnr | MTonr => accept_all s end.
  Definition high_end (mt : metric6) (s : scores) : ext :=
    match mt with MTpr | MFpr | MTopr => accept_all s | MFnr | MTnr | MTonr => reject_all s end.

  Theorem extremes_all mt s r m T : wf s -> (0 <= easy_pos s)%Z -> (0 <= easy_neg s)%Z ->
    threshold_at succ pred mt s r m = Ret T ->
    (r <= 0 -> metric_at mt s (Fin T) = metric_at mt s (low_end mt s)) /\
    (1 <= r -> metric_at mt s (Fin T) = metric_at mt s (high_end mt s)).
  Proof.
    intros [Hp Hn] Hep Hen HT. destruct mt; cbn [threshold_at metric_at low_end high_end] in *.
    - destruct (extremes_tpr succ pred Hsucc Hpred s r m T Hp Hep HT) as [A B].
      split; intro Hr; [apply (pos_row_rates s _ _ (A Hr))|apply (pos_row_rates s _ _ (B Hr))].
    - destruct (extremes_fnr succ pred Hsucc Hpred s r m T Hp Hep HT) as [A B].
      split; intro Hr; [apply (pos_row_rates s _ _ (A Hr))|apply (pos_row_rates s _ _ (B Hr))].
    - destruct (extremes_tnr succ pred Hsucc Hpred s r m T Hn Hen HT) as [A B].
      split; intro Hr; [apply (neg_row_rates s _ _ (A Hr))|apply (neg_row_rates s _ _ (B Hr))].
    - destruct (extremes_fpr succ pred Hsucc Hpred s r m T Hn Hen HT) as [A B].
      split; intro Hr; [apply (neg_row_rates s _ _ (A Hr))|apply (neg_row_rates s _ _ (B Hr))].
    - destruct (extremes_topr succ pred Hsucc Hpred s r m T Hep Hen HT) as [A B].
      split; intro Hr; unfold s_topr; [rewrite (A Hr)|rewrite (B Hr)]; reflexivity.
    - destruct (extremes_tonr succ pred Hsucc Hpred s r m T Hep Hen HT) as [A B].
      split; intro Hr; unfold s_tonr; [rewrite (A Hr)|rewrite (B Hr)]; reflexivity.
  Qed.

  (* threshold setting returns a value exactly when the relevant class is non-empty *)
  Lemma threshold_at_defined mt s r m :
    (exists T, threshold_at succ pred mt s r m = Ret T) <->
    match mt with MTpr | MFnr => (len (pos s) <> 0)%Z | MTnr | MFpr => (len (neg s) <> 0)%Z
             | MTopr | MTonr => (nb_hard_samples s <> 0)%Z end.
  Proof.
    destruct mt; cbn [threshold_at]; unfold threshold_at_tpr, threshold_at_fnr, threshold_at_tnr, threshold_at_fpr,
      threshold_at_topr, threshold_at_tonr; cbv zeta; rewrite ?len_concat;
    match goal with |- context [(?a =? 0)%Z] => destruct (a =? 0)%Z eqn:E end;
    (apply Z.eqb_eq in E || apply Z.eqb_neq in E); split; intro H;
    try (destruct H as [T H]; discriminate); try contradiction; try (eexists; reflexivity); try assumption.
  Qed.
End ExtremeRates.
