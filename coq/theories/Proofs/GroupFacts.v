(* Proofs/GroupFacts.v — C12: lemmas about Model/Group.v (labels stay attached; groups partition the data). *)
From SA Require Import Model.Group Proofs.CmFacts Proofs.SamplingFacts.
Open Scope Z_scope.

(* ---------- indexing two parallel arrays by the same positions ---------- *)
Lemma take_nat_combine {A B} (da : A) (db : B) a b idx :
  length a = length b ->
  combine (take_nat da a idx) (take_nat db b idx) = take_nat (da, db) (combine a b) idx.
Proof.
  intro H. unfold take_nat. induction idx as [|i r IH]; simpl; [reflexivity|].
  rewrite IH. f_equal. symmetry. now apply combine_nth.
Qed.
Lemma take_idx_combine {A B} (da : A) (db : B) a b idx :
  length a = length b ->
  combine (take_idx da a idx) (take_idx db b idx) = take_idx (da, db) (combine a b) idx.
Proof.
  intro H. unfold take_idx. induction idx as [|i r IH]; simpl; [reflexivity|].
  rewrite IH. f_equal. symmetry. now apply combine_nth.
Qed.
Lemma take_nat_length {A} (d : A) l idx : length (take_nat d l idx) = length idx.
Proof. unfold take_nat. apply map_length. Qed.
Lemma take_idx_length {A} (d : A) l idx : length (take_idx d l idx) = length idx.
Proof. unfold take_idx. apply map_length. Qed.

Lemma map_nth_seq {A} (d : A) l : map (fun i => nth i l d) (seq 0 (length l)) = l.
Proof.
  apply nth_ext with (d := d) (d' := d).
  - now rewrite map_length, seq_length.
  - intros n Hn. rewrite map_length, seq_length in Hn.
    rewrite (nth_indep _ d (nth 0%nat l d)) by (now rewrite map_length, seq_length).
    rewrite (map_nth (fun x => nth x l d) (seq 0 (length l)) 0%nat n).
    now rewrite seq_nth by exact Hn.
Qed.
Lemma take_nat_perm {A} (d : A) l idx :
  Permutation idx (seq 0 (length l)) -> Permutation (take_nat d l idx) l.
Proof.
  intro H. unfold take_nat. eapply Permutation_trans; [apply Permutation_map; exact H|]. rewrite map_nth_seq. apply Permutation_refl.
Qed.

Lemma map_fst_combine {A B} (a : list A) (b : list B) : length a = length b -> map fst (combine a b) = a.
Proof.
  revert b. induction a as [|x r IH]; intros [|y s] H; simpl in *; try discriminate; [reflexivity|].
  f_equal. apply IH. lia.
Qed.
Lemma map_snd_combine {A B} (a : list A) (b : list B) : length a = length b -> map snd (combine a b) = b.
Proof.
  revert b. induction a as [|x r IH]; intros [|y s] H; simpl in *; try discriminate; [reflexivity|].
  f_equal. apply IH. lia.
Qed.

(* ---------- sorted(set(..)) ---------- *)
Lemma zinsert_in x l y : In y (zinsert x l) <-> y = x \/ In y l.
Proof.
  induction l as [|z r IH]; simpl; [intuition|].
  destruct (Z.ltb_spec x z); [simpl; intuition|].
  destruct (Z.eqb_spec x z); simpl; [subst; intuition|]. rewrite IH. intuition.
Qed.
Lemma zinsert_sorted x l : StronglySorted Z.lt l -> StronglySorted Z.lt (zinsert x l).
Proof.
  induction l as [|z r IH]; intro H; simpl; [repeat constructor|].
  inversion H as [|? ? Hr Hall]; subst.
  destruct (Z.ltb_spec x z).
  - constructor; [exact H|]. constructor; [assumption|]. eapply Forall_impl; [|exact Hall]. simpl; intros; lia.
  - destruct (Z.eqb_spec x z); [exact H|].
    constructor; [now apply IH|]. apply Forall_forall. intros y Hy. apply zinsert_in in Hy.
    destruct Hy as [->|Hy]; [lia|]. rewrite Forall_forall in Hall. now apply Hall.
Qed.
Lemma sorted_set_in l y : In y (sorted_set l) <-> In y l.
Proof.
  unfold sorted_set. induction l as [|x r IH]; simpl; [tauto|]. rewrite zinsert_in, IH. intuition.
Qed.
Lemma sorted_set_sorted l : StronglySorted Z.lt (sorted_set l).
Proof. unfold sorted_set. induction l as [|x r IH]; simpl; [constructor|now apply zinsert_sorted]. Qed.
Lemma strictly_sorted_NoDup l : StronglySorted Z.lt l -> NoDup l.
Proof.
  induction 1 as [|x r Hr IH Hall]; constructor; [|exact IH].
  intro Hin. rewrite Forall_forall in Hall. specialize (Hall x Hin). lia.
Qed.
Lemma sorted_set_NoDup l : NoDup (sorted_set l).
Proof. apply strictly_sorted_NoDup, sorted_set_sorted. Qed.

(* ---------- the constructor ---------- *)
Section WithArgsort.
Variable argsort : list Q -> list nat.
Hypothesis argsort_perm : forall l, Permutation (argsort l) (seq 0 (length l)).
Hypothesis argsort_sorted : forall l, sorted (take_nat 0%Q l (argsort l)).

Theorem mk_gscores_pairs ps ns pg ng sc ec names srt :
  length ps = length pg -> length ns = length ng ->
  let g := mk_gscores argsort ps ns pg ng sc ec names srt in
  Permutation (pairs_pos g) (combine ps pg) /\ Permutation (pairs_neg g) (combine ns ng) /\ gwf g /\
  score_class (base g) = sc /\ equal_class (base g) = ec /\ easy_pos (base g) = 0 /\ easy_neg (base g) = 0 /\
  (srt = false -> wf (base g)) /\
  (srt = true -> pos (base g) = ps /\ neg (base g) = ns /\ pos_groups g = pg /\ neg_groups g = ng) /\
  groups g = match names with None => sorted_set (pg ++ ng) | Some n => n end.
Proof.
  intros Hp Hn. unfold mk_gscores, mk_scores, pairs_pos, pairs_neg, gwf. destruct srt; cbn [base pos neg pos_groups neg_groups groups score_class equal_class easy_pos easy_neg].
  - repeat split; auto; try apply Permutation_refl; discriminate.
  - rewrite !take_nat_combine by assumption. rewrite !take_nat_length.
    repeat split; auto; try discriminate.
    + apply take_nat_perm. rewrite combine_length, <- Hp, Nat.min_id. apply argsort_perm.
    + apply take_nat_perm. rewrite combine_length, <- Hn, Nat.min_id. apply argsort_perm.
    + apply argsort_sorted.
    + apply argsort_sorted.
Qed.

End WithArgsort.

(* ---------- __getitem__ ---------- *)
Lemma select_in {A} g (xs : list A) gl x : In x (select g xs gl) <-> In (x, g) (combine xs gl).
Proof.
  unfold select. rewrite in_map_iff. split.
  - intros ([y l] & <- & H). apply filter_In in H. destruct H as [H E]. simpl in E. apply Z.eqb_eq in E. now subst.
  - intro H. exists (x, g). split; [reflexivity|]. apply filter_In. split; [exact H|]. simpl. apply Z.eqb_refl.
Qed.
Lemma select_len g (xs : list Q) gl : len (select g xs gl) = count (has_label g) (combine xs gl).
Proof.
  unfold select, len, has_label, G in *. rewrite map_length. induction (combine xs gl) as [|p r IH]; [reflexivity|].
  cbn [filter count]. cbv beta. destruct (snd p =? g); cbn [length]; lia.
Qed.
Lemma count_select g (f : Q -> bool) xs gl :
  count f (select g xs gl) = count (fun p => has_label g p && f (fst p)) (combine xs gl).
Proof.
  unfold select, has_label, G in *. induction (combine xs gl) as [|p r IH]; [reflexivity|].
  cbn [filter count map]. cbv beta. destruct (snd p =? g); cbn [map count andb fst]; rewrite IH; reflexivity.
Qed.
Lemma sorted_map_fst_filter {B} (f : Q * B -> bool) (l : list (Q * B)) :
  sorted (map fst l) -> sorted (map fst (filter f l)).
Proof.
  unfold sorted. induction l as [|p r IH]; simpl; intro H; [constructor|].
  inversion H as [|? ? Hr Hall]; subst. destruct (f p); simpl; [|now apply IH].
  constructor; [now apply IH|]. rewrite Forall_forall in *. intros y Hy. apply Hall.
  apply in_map_iff in Hy. destruct Hy as (q & <- & Hq). apply filter_In in Hq. apply in_map. tauto.
Qed.

Theorem group_scores_spec gs g : gwf gs ->
  (forall x, In x (pos (group_scores gs g)) <-> In (x, g) (pairs_pos gs)) /\
  (forall x, In x (neg (group_scores gs g)) <-> In (x, g) (pairs_neg gs)) /\
  len (pos (group_scores gs g)) = count (has_label g) (pairs_pos gs) /\
  len (neg (group_scores gs g)) = count (has_label g) (pairs_neg gs) /\
  score_class (group_scores gs g) = score_class (base gs) /\ equal_class (group_scores gs g) = equal_class (base gs) /\
  easy_pos (group_scores gs g) = 0 /\ easy_neg (group_scores gs g) = 0 /\
  (wf (base gs) -> wf (group_scores gs g)).
Proof.
  intros [Lp Ln]. unfold group_scores, mk_scores, pairs_pos, pairs_neg. cbn [pos neg score_class equal_class easy_pos easy_neg].
  split; [intro x; apply select_in|]. split; [intro x; apply select_in|].
  split; [apply select_len|]. split; [apply select_len|].
  do 4 (split; [reflexivity|]).
  intros [Wp Wn]. unfold wf. cbn [pos neg]. unfold select.
  split; apply sorted_map_fst_filter; now rewrite map_fst_combine.
Qed.

Lemma getitem_ok gs g : In g (groups gs) -> getitem gs g = Ok (group_scores gs g).
Proof.
  intro H. unfold getitem. assert (E : existsb (Z.eqb g) (groups gs) = true).
  { apply existsb_exists. exists g. split; [exact H|apply Z.eqb_refl]. }
  now rewrite E.
Qed.
Lemma getitem_err gs g : ~ In g (groups gs) -> getitem gs g = Err EValueError.
Proof.
  intro H. unfold getitem. destruct (existsb (Z.eqb g) (groups gs)) eqn:E; [|reflexivity].
  apply existsb_exists in E. destruct E as (x & Hx & E). apply Z.eqb_eq in E. subst. contradiction.
Qed.

Lemma map_res_ok {A B} (f : A -> res B) (f' : A -> B) l :
  (forall x, In x l -> f x = Ok (f' x)) -> map_res f l = Ok (map f' l).
Proof.
  induction l as [|x r IH]; intro H; simpl; [reflexivity|].
  rewrite (H x (or_introl eq_refl)), IH; [reflexivity|]. intros y Hy. apply H. now right.
Qed.

Theorem group_cm_spec gs t : group_cm gs t = Ok (map (fun g => cm (group_scores gs g) t) (groups gs)).
Proof. unfold group_cm. apply map_res_ok. intros g Hg. now rewrite getitem_ok. Qed.
Theorem groupwise_spec {A} (metric : scores -> A) gs :
  groupwise metric gs = Ok (map (fun g => metric (group_scores gs g)) (groups gs)).
Proof. unfold groupwise. apply map_res_ok. intros g Hg. now rewrite getitem_ok. Qed.

(* per-group matrix = counting over the pairs that carry the label *)
Theorem group_cm_counts gs g t : gwf gs ->
  let sc := score_class (base gs) in let ec := equal_class (base gs) in
  cm (group_scores gs g) t = mkCmz
    (count (fun p => has_label g p && dec sc ec (fst p) t) (pairs_pos gs))
    (count (fun p => has_label g p && ndec sc ec (fst p) t) (pairs_pos gs))
    (count (fun p => has_label g p && dec sc ec (fst p) t) (pairs_neg gs))
    (count (fun p => has_label g p && ndec sc ec (fst p) t) (pairs_neg gs)).
Proof.
  intros _. rewrite cm_counts. unfold group_scores, mk_scores, pairs_pos, pairs_neg.
  cbn [pos neg score_class equal_class easy_pos easy_neg]. rewrite !count_select. f_equal; lia.
Qed.

(* ---------- the groups partition the data ---------- *)
Lemma one_label_sum (lbl : G) (b : bool) gl :
  NoDup gl -> In lbl gl -> Zsum (map (fun g => if (lbl =? g) && b then 1 else 0) gl) = if b then 1 else 0.
Proof.
  induction gl as [|g r IH]; intros Hnd Hin; [destruct Hin|].
  inversion Hnd as [|? ? Hnot Hnd']; subst. simpl. destruct Hin as [->|Hin].
  - rewrite Z.eqb_refl. simpl andb.
    assert (E : Zsum (map (fun g => if (lbl =? g) && b then 1 else 0) r) = 0).
    { clear IH Hnd' Hnd. induction r as [|h r IH]; simpl; [reflexivity|].
      destruct (Z.eqb_spec lbl h) as [->|]; [exfalso; apply Hnot; now left|]. simpl. apply IH. intro H; apply Hnot; now right. }
    rewrite E. lia.
  - destruct (Z.eqb_spec lbl g) as [->|]; [contradiction|]. simpl. now apply IH.
Qed.
Lemma Zsum_map_add {A} (a b : A -> Z) l : Zsum (map (fun g => a g + b g) l) = Zsum (map a l) + Zsum (map b l).
Proof. induction l as [|x r IH]; simpl; [reflexivity|]. rewrite IH. lia. Qed.
Lemma partition_count (f : Q * G -> bool) l gl :
  NoDup gl -> (forall p, In p l -> In (snd p) gl) ->
  Zsum (map (fun g => count (fun p => has_label g p && f p) l) gl) = count f l.
Proof.
  intros Hnd. induction l as [|p r IH]; intro Hin.
  - simpl. clear. induction gl; simpl; auto.
  - assert (Hp := Hin p (or_introl eq_refl)).
    rewrite (map_ext (fun g => count (fun q => has_label g q && f q) (p :: r))
                     (fun g => (if (snd p =? g) && f p then 1 else 0) + count (fun q => has_label g q && f q) r))
      by reflexivity.
    rewrite Zsum_map_add, one_label_sum by assumption.
    rewrite IH by (intros q Hq; apply Hin; now right). reflexivity.
Qed.
Lemma cmz_sum_map {A} (a b c d : A -> Z) l :
  cmz_sum (map (fun g => mkCmz (a g) (b g) (c g) (d g)) l) =
  mkCmz (Zsum (map a l)) (Zsum (map b l)) (Zsum (map c l)) (Zsum (map d l)).
Proof. induction l as [|x r IH]; simpl; [reflexivity|]. rewrite IH. reflexivity. Qed.

Theorem group_cm_sum gs t :
  gwf gs -> easy_pos (base gs) = 0 -> easy_neg (base gs) = 0 -> NoDup (groups gs) ->
  (forall p, In p (pairs_pos gs ++ pairs_neg gs) -> In (snd p) (groups gs)) ->
  cmz_sum (map (fun g => cm (group_scores gs g) t) (groups gs)) = cm (base gs) t.
Proof.
  intros W Ep En Hnd Hin.
  rewrite (map_ext _ _ (fun g => group_cm_counts gs g t W)). cbv zeta.
  rewrite (cmz_sum_map (fun g => count (fun p => has_label g p && dec _ _ (fst p) t) (pairs_pos gs))).
  rewrite !partition_count by (auto; intros p Hp; apply Hin, in_or_app; auto).
  rewrite cm_counts, Ep, En. destruct W as [Lp Ln]. unfold pairs_pos, pairs_neg.
  rewrite <- (map_fst_combine (pos (base gs)) (pos_groups gs) Lp) at 3 4.
  rewrite <- (map_fst_combine (neg (base gs)) (neg_groups gs) Ln) at 3 4.
  rewrite !count_map. f_equal; lia.
Qed.

(* ---------- what _sample_indices returns, both modes ---------- *)
Lemma zero_easy_ratio hard : (1 - hard_ratio_of hard 0 == 0)%Q.
Proof. unfold hard_ratio_of. simpl. ring. Qed.

Lemma sample_counts_no_easy s h c h' calls :
  sample_counts s false h = Ok (c, h', calls) -> Forall draw_ok calls ->
  easy_pos s = 0 -> easy_neg s = 0 -> c_hard_pos c + c_hard_neg c = len (pos s) + len (neg s).
Proof.
  intros H Hok Ep En. pose proof (sample_counts_total _ _ _ _ _ _ H) as T.
  apply sample_counts_false_spec in H. destruct H as (k & ep & en & -> & ->).
  inversion Hok as [|? ? H1 Hok1]; subst. inversion Hok1 as [|? ? H2 Hok2]; subst.
  inversion Hok2 as [|? ? H3 _]; subst. clear Hok Hok1 Hok2.
  destruct H1 as (H1 & _ & _). destruct H2 as (H2 & Z2 & _). destruct H3 as (H3 & Z3 & _).
  assert (ep = 0) by (apply Z2; unfold easy_pos_ratio, hard_pos_ratio; rewrite Ep; apply zero_easy_ratio).
  assert (en = 0) by (apply Z3; unfold easy_neg_ratio, hard_neg_ratio; rewrite En; apply zero_easy_ratio).
  subst ep en. cbn [c_easy_pos c_easy_neg c_hard_pos c_hard_neg] in *.
  pose proof (len_nonneg (pos s)) as Lp. pose proof (len_nonneg (neg s)) as Ln.
  revert T H2 H3. unfold fix_pos_neg, fix_hard, nb_all_samples, nb_all_pos, nb_all_neg, nb_hard_pos, nb_hard_neg in *.
  rewrite Ep, En in *.
  repeat (match goal with
    | |- context [(?a =? ?b)] => let E := fresh "E" in destruct (Z.eqb_spec a b) as [E|E]
    | |- context [(?a <? ?b)] => let E := fresh "E" in destruct (Z.ltb_spec a b) as [E|E]
    end; cbn [andb fst snd] in *); intros; lia.
Qed.

Lemma sample_indices_idx s bl sp h r h1 calls :
  sample_indices s bl sp h = Ok (r, h1, calls) -> Forall draw_ok calls ->
  Forall (in_range (len (pos s))) (pos_idx r) /\ Forall (in_range (len (neg s))) (neg_idx r) /\
  (sp = true -> StronglySorted Z.le (pos_idx r) /\ StronglySorted Z.le (neg_idx r)) /\
  (sp = false -> bl = false -> easy_pos s = 0 -> easy_neg s = 0 ->
     len (pos_idx r) + len (neg_idx r) = len (pos s) + len (neg s)).
Proof.
  intros H Hok. destruct sp.
  - destruct (sp_idx_ok _ _ _ _ _ _ H Hok) as (cn & h0 & c0 & ks1 & ks2 & _ & _ & E1 & E2 & L1 & L2 & _).
    rewrite E1, E2. split; [rewrite <- L1; apply repeat_idx_in_range|]. split; [rewrite <- L2; apply repeat_idx_in_range|].
    split; [intros _; split; apply repeat_idx_sorted|discriminate].
  - destruct (repl_idx_ok _ _ _ _ _ _ H Hok) as (cn & h0 & c0 & Hc & Ok0 & Lp & Ln & Rp & Rn & _).
    split; [exact Rp|]. split; [exact Rn|]. split; [discriminate|].
    intros _ -> Ep En. rewrite Lp, Ln. eapply sample_counts_no_easy; eauto.
Qed.

(* ---------- the by_group loop ---------- *)
Definition part_ok (gs : gscores) (sp : bool) (p : gpart) : Prop :=
  incl (p_pos p) (pos (group_scores gs (p_group p))) /\ incl (p_neg p) (neg (group_scores gs (p_group p))) /\
  (sp = false -> len (p_pos p) + len (p_neg p)
                 = len (pos (group_scores gs (p_group p))) + len (neg (group_scores gs (p_group p)))).

Lemma sample_groups_spec gs sp names : forall h parts rest calls,
  sample_groups gs sp names h = Ok (parts, rest, calls) -> Forall draw_ok calls ->
  map p_group parts = names /\ Forall (part_ok gs sp) parts.
Proof.
  induction names as [|g names IH]; intros h parts rest calls H Hok; simpl in H.
  - minv. subst. split; [reflexivity|constructor].
  - minv. subst.
    match goal with H : sample_indices _ _ _ _ = Ok _ |- _ => rename H into Hi end.
    match goal with H : sample_groups _ _ _ _ = Ok _ |- _ => rename H into Hg end.
    rewrite app_nil_r in Hok. apply Forall_app in Hok. destruct Hok as [Ok1 Ok2].
    destruct (IH _ _ _ _ Hg Ok2) as [E F]. simpl. rewrite E. split; [reflexivity|].
    constructor; [|exact F].
    destruct (sample_indices_idx _ _ _ _ _ _ _ Hi Ok1) as (Rp & Rn & _ & T).
    unfold part_ok. cbn [p_group p_pos p_neg]. split; [now apply take_idx_incl|]. split; [now apply take_idx_incl|].
    intros ->. rewrite !take_idx_len. apply T; auto; unfold group_scores, mk_scores; reflexivity.
Qed.

Definition ppairs (sel : gpart -> list Q) (parts : list gpart) : list (Q * G) :=
  concat (map (fun p => map (fun x => (x, p_group p)) (sel p)) parts).

Lemma combine_labels g (l : list Q) : combine l (labels_of g l) = map (fun x => (x, g)) l.
Proof. unfold labels_of. induction l as [|x r IH]; simpl; [reflexivity|]. now rewrite IH. Qed.
Lemma combine_app_eq {A B} (a a' : list A) (b b' : list B) :
  length a = length b -> combine (a ++ a') (b ++ b') = combine a b ++ combine a' b'.
Proof.
  revert b. induction a as [|x r IH]; intros [|y s] H; simpl in *; try discriminate; [reflexivity|].
  f_equal. apply IH. lia.
Qed.
Lemma labels_of_length {A} g (l : list A) : length (labels_of g l) = length l.
Proof. unfold labels_of. apply map_length. Qed.
Lemma combine_parts (sel : gpart -> list Q) parts :
  combine (concat (map sel parts)) (concat (map (fun p => labels_of (p_group p) (sel p)) parts)) = ppairs sel parts /\
  length (concat (map sel parts)) = length (concat (map (fun p => labels_of (p_group p) (sel p)) parts)).
Proof.
  unfold ppairs. induction parts as [|p r [IH1 IH2]]; simpl; [auto|].
  rewrite combine_app_eq by (now rewrite labels_of_length). rewrite combine_labels, IH1.
  split; [reflexivity|]. rewrite !app_length, labels_of_length, IH2. reflexivity.
Qed.

Lemma ppairs_in sel parts x g :
  In (x, g) (ppairs sel parts) <-> exists p, In p parts /\ p_group p = g /\ In x (sel p).
Proof.
  unfold ppairs. rewrite in_concat. split.
  - intros (l & Hl & Hx). apply in_map_iff in Hl. destruct Hl as (p & <- & Hp).
    apply in_map_iff in Hx. destruct Hx as (y & E & Hy). inversion E; subst. now exists p.
  - intros (p & Hp & <- & Hx). exists (map (fun x => (x, p_group p)) (sel p)). split.
    + apply in_map_iff. now exists p.
    + apply in_map_iff. now exists x.
Qed.
Lemma ppairs_count sel parts g :
  count (has_label g) (ppairs sel parts) = Zsum (map (fun p => if p_group p =? g then len (sel p) else 0) parts).
Proof.
  unfold ppairs. induction parts as [|p r IH]; simpl; [reflexivity|].
  rewrite count_app, IH. f_equal. unfold has_label, len. induction (sel p) as [|x l IHl]; simpl.
  - destruct (p_group p =? g); reflexivity.
  - rewrite IHl. destruct (p_group p =? g); lia.
Qed.
Lemma one_part_sum (F : gpart -> Z) parts g v :
  NoDup (map p_group parts) -> In g (map p_group parts) ->
  (forall p, In p parts -> p_group p = g -> F p = v) ->
  Zsum (map (fun p => if p_group p =? g then F p else 0) parts) = v.
Proof.
  induction parts as [|p r IH]; simpl; intros Hnd Hin HF; [destruct Hin|].
  inversion Hnd as [|? ? Hnot Hnd']; subst. destruct (Z.eqb_spec (p_group p) g) as [E|E].
  - assert (Z0 : Zsum (map (fun p => if p_group p =? g then F p else 0) r) = 0).
    { clear IH HF Hnd' Hnd Hin. induction r as [|q r IH]; simpl; [reflexivity|].
      destruct (Z.eqb_spec (p_group q) g) as [E'|E']; [exfalso; apply Hnot; left; congruence|].
      apply IH. intro H. apply Hnot. now right. }
    rewrite Z0, (HF p (or_introl eq_refl) E). lia.
  - destruct Hin as [Hin|Hin]; [contradiction|]. rewrite IH; auto.
Qed.

Section Sampling.
Variable argsort : list Q -> list nat.
Hypothesis argsort_perm : forall l, Permutation (argsort l) (seq 0 (length l)).
Hypothesis argsort_sorted : forall l, sorted (take_nat 0%Q l (argsort l)).

(* ---------- swap ---------- *)
Theorem gswap_spec gs :
  pairs_pos (gswap argsort gs) = pairs_neg gs /\ pairs_neg (gswap argsort gs) = pairs_pos gs /\
  score_class (base (gswap argsort gs)) = flip (score_class (base gs)) /\
  equal_class (base (gswap argsort gs)) = flip (equal_class (base gs)) /\
  (gwf gs -> gwf (gswap argsort gs)) /\ (wf (base gs) -> wf (base (gswap argsort gs))).
Proof.
  unfold gswap, mk_gscores, mk_scores, pairs_pos, pairs_neg, gwf, wf. cbn [base pos neg pos_groups neg_groups score_class equal_class].
  repeat split; try tauto; destruct (score_class (base gs)), (equal_class (base gs)); reflexivity.
Qed.

(* ---------- bootstrap_sample: the two shapes ---------- *)

Lemma g_resolve_cases gs c gf h b rest calls :
  not_callable c -> g_bootstrap_sample argsort c gf gs h = Ok (b, rest, calls) ->
  smoothing c = false /\ (g_resolve_method gs c = MReplacement \/ g_resolve_method gs c = MSinglePass).
Proof.
  intros Hn H. unfold g_bootstrap_sample in H. destruct (smoothing c); [exfalso; exact (raise_ok _ _ _ H)|].
  split; [reflexivity|].
  assert (Hc : match g_resolve_method gs c with MCallable _ => False | _ => True end).
  { unfold not_callable, g_resolve_method in *. destruct (sampling_method c); auto.
    destruct (stratified_sampling c); auto;
    destruct ((nb_hard_pos (base gs) <? SINGLE_PASS_SAMPLE_THRESHOLD) || (nb_hard_neg (base gs) <? SINGLE_PASS_SAMPLE_THRESHOLD)); auto. }
  destruct (g_resolve_method gs c); auto; try (exfalso; exact (raise_ok _ _ _ H)); contradiction.
Qed.

Lemma g_bs_shape gs c gf h b rest calls :
  not_callable c -> g_bootstrap_sample argsort c gf gs h = Ok (b, rest, calls) ->
  let sp := is_sp (g_resolve_method gs c) in
  (stratified_sampling c <> SByGroup /\ exists r,
     sample_indices (base gs) (is_by_label c) sp h = Ok (r, rest, calls) /\
     b = mk_gscores argsort (take_idx 0%Q (pos (base gs)) (pos_idx r)) (take_idx 0%Q (neg (base gs)) (neg_idx r))
                    (take_idx 0 (pos_groups gs) (pos_idx r)) (take_idx 0 (neg_groups gs) (neg_idx r))
                    (score_class (base gs)) (equal_class (base gs)) (Some (groups gs)) sp) \/
  (stratified_sampling c = SByGroup /\ exists parts,
     sample_groups gs sp (groups gs) h = Ok (parts, rest, calls) /\
     b = mk_gscores argsort (concat (map p_pos parts)) (concat (map p_neg parts))
                    (concat (map (fun p => labels_of (p_group p) (p_pos p)) parts))
                    (concat (map (fun p => labels_of (p_group p) (p_neg p)) parts))
                    (score_class (base gs)) (equal_class (base gs)) (Some (groups gs)) false).
Proof.
  intros Hn H. destruct (g_resolve_cases _ _ _ _ _ _ _ Hn H) as [Hs Hr].
  unfold g_bootstrap_sample in H. rewrite Hs in H.
  assert (Hrun : (let sp := is_sp (g_resolve_method gs c) in
    match stratified_sampling c with
    | SByGroup =>
        parts <- sample_groups gs sp (groups gs) ;;
        match parts with
        | [] => raise EValueError
        | _ => ret (mk_gscores argsort (concat (map p_pos parts)) (concat (map p_neg parts))
                          (concat (map (fun p => labels_of (p_group p) (p_pos p)) parts))
                          (concat (map (fun p => labels_of (p_group p) (p_neg p)) parts))
                          (score_class (base gs)) (equal_class (base gs)) (Some (groups gs)) false)
        end
    | SOther => raise EValueError
    | _ => r <- sample_indices (base gs) (is_by_label c) sp ;;
        ret (mk_gscores argsort (take_idx 0%Q (pos (base gs)) (pos_idx r)) (take_idx 0%Q (neg (base gs)) (neg_idx r))
                        (take_idx 0 (pos_groups gs) (pos_idx r)) (take_idx 0 (neg_groups gs) (neg_idx r))
                        (score_class (base gs)) (equal_class (base gs)) (Some (groups gs)) sp)
    end) h = Ok (b, rest, calls)).
  { destruct Hr as [Hr|Hr]; rewrite Hr in *; cbn [is_sp]; destruct (stratified_sampling c); exact H. }
  clear H. cbv zeta in *. destruct (stratified_sampling c) eqn:Est.
  - left. split; [discriminate|]. minv. subst. rewrite app_nil_r. eauto.
  - left. split; [discriminate|]. minv. subst. rewrite app_nil_r. eauto.
  - right. split; [reflexivity|]. minv. destruct a; [exfalso; eapply raise_ok; eauto|]. minv. subst. rewrite app_nil_r. eauto.
  - exfalso. eapply raise_ok; eauto.
Qed.

Lemma pairs_len gs : gwf gs -> len (pairs_pos gs) = len (pos (base gs)) /\ len (pairs_neg gs) = len (neg (base gs)).
Proof.
  intros [Lp Ln]. unfold pairs_pos, pairs_neg, len. rewrite !combine_length, <- Lp, <- Ln, !Nat.min_id. auto.
Qed.

(* every sampling mode keeps each score with its label; names and flags are kept; the sample is aligned *)
Theorem g_bs_pairs gs c gf h b rest calls :
  not_callable c -> gwf gs ->
  g_bootstrap_sample argsort c gf gs h = Ok (b, rest, calls) -> Forall draw_ok calls ->
  incl (pairs_pos b) (pairs_pos gs) /\ incl (pairs_neg b) (pairs_neg gs) /\ gwf b /\
  groups b = groups gs /\
  score_class (base b) = score_class (base gs) /\ equal_class (base b) = equal_class (base gs) /\
  easy_pos (base b) = 0 /\ easy_neg (base b) = 0.
Proof.
  intros Hn W H Hok. destruct (g_bs_shape _ _ _ _ _ _ _ Hn H) as [(_ & r & Hi & ->)|(_ & parts & Hg & ->)].
  - destruct W as [Lp Ln].
    match goal with |- context [mk_gscores argsort ?ps ?ns ?pg ?ng ?sc ?ec ?nm ?srt] =>
      destruct (mk_gscores_pairs argsort argsort_perm argsort_sorted ps ns pg ng sc ec nm srt)
        as (Pp & Pn & Wb & Fs & Fe & E1 & E2 & _ & _ & Gn); [now rewrite !take_idx_length|now rewrite !take_idx_length|] end.
    destruct (sample_indices_idx _ _ _ _ _ _ _ Hi Hok) as (Rp & Rn & _).
    destruct (pairs_len gs (conj Lp Ln)) as [Q1 Q2].
    rewrite (take_idx_combine 0%Q 0 _ _ _ Lp) in Pp. rewrite (take_idx_combine 0%Q 0 _ _ _ Ln) in Pn.
    split; [|split; [|split; [exact Wb|repeat split; auto]]].
    + intros x Hx. apply (take_idx_incl (0%Q, (0:G)) (pairs_pos gs) (pos_idx r)); [now rewrite Q1|].
      eapply Permutation_in; [exact Pp|exact Hx].
    + intros x Hx. apply (take_idx_incl (0%Q, (0:G)) (pairs_neg gs) (neg_idx r)); [now rewrite Q2|].
      eapply Permutation_in; [exact Pn|exact Hx].
  - destruct (combine_parts p_pos parts) as [Cp Lp']. destruct (combine_parts p_neg parts) as [Cn Ln'].
    match goal with |- context [mk_gscores argsort ?ps ?ns ?pg ?ng ?sc ?ec ?nm ?srt] =>
      destruct (mk_gscores_pairs argsort argsort_perm argsort_sorted ps ns pg ng sc ec nm srt Lp' Ln')
        as (Pp & Pn & Wb & Fs & Fe & E1 & E2 & _ & _ & Gn) end.
    rewrite Cp in Pp. rewrite Cn in Pn.
    destruct (sample_groups_spec _ _ _ _ _ _ _ Hg Hok) as [_ F]. rewrite Forall_forall in F.
    split; [|split; [|split; [exact Wb|repeat split; auto]]].
    + intros [x g] Hx. apply (Permutation_in _ Pp), ppairs_in in Hx. destruct Hx as (p & Hp & <- & Hx).
      apply (group_scores_spec gs (p_group p) W). apply (F p Hp). exact Hx.
    + intros [x g] Hx. apply (Permutation_in _ Pn), ppairs_in in Hx. destruct Hx as (p & Hp & <- & Hx).
      apply (group_scores_spec gs (p_group p) W). apply (F p Hp). exact Hx.
Qed.

(* None / by_label: the sampled pairs are exactly the source pairs at the drawn indices *)
Theorem g_bs_image gs c gf h b rest calls :
  not_callable c -> gwf gs -> stratified_sampling c <> SByGroup ->
  g_bootstrap_sample argsort c gf gs h = Ok (b, rest, calls) ->
  exists r, sample_indices (base gs) (is_by_label c) (is_sp (g_resolve_method gs c)) h = Ok (r, rest, calls) /\
    Permutation (pairs_pos b) (take_idx (0%Q, 0) (pairs_pos gs) (pos_idx r)) /\
    Permutation (pairs_neg b) (take_idx (0%Q, 0) (pairs_neg gs) (neg_idx r)).
Proof.
  intros Hn [Lp Ln] Hst H. destruct (g_bs_shape _ _ _ _ _ _ _ Hn H) as [(_ & r & Hi & ->)|(Hg & _)]; [|contradiction].
  exists r. split; [exact Hi|].
  match goal with |- context [mk_gscores argsort ?ps ?ns ?pg ?ng ?sc ?ec ?nm ?srt] =>
    destruct (mk_gscores_pairs argsort argsort_perm argsort_sorted ps ns pg ng sc ec nm srt)
      as (Pp & Pn & _); [now rewrite !take_idx_length|now rewrite !take_idx_length|] end.
  rewrite (take_idx_combine 0%Q 0 _ _ _ Lp) in Pp. rewrite (take_idx_combine 0%Q 0 _ _ _ Ln) in Pn. auto.
Qed.

(* the sample's scores are sorted (single pass relies on the source being sorted: is_sorted=True) *)
Theorem g_bs_wf gs c gf h b rest calls :
  not_callable c -> wf (base gs) ->
  g_bootstrap_sample argsort c gf gs h = Ok (b, rest, calls) -> Forall draw_ok calls -> wf (base b).
Proof.
  intros Hn [Wp Wn] H Hok. destruct (g_bs_shape _ _ _ _ _ _ _ Hn H) as [(_ & r & Hi & ->)|(_ & parts & Hg & ->)].
  - destruct (sample_indices_idx _ _ _ _ _ _ _ Hi Hok) as (Rp & Rn & S & _).
    destruct (is_sp (g_resolve_method gs c)).
    + destruct (S eq_refl) as [Sp Sn]. unfold mk_gscores, mk_scores, wf. cbn [base pos neg].
      split; apply take_idx_sorted; auto.
    + unfold mk_gscores, mk_scores, wf. cbn [base pos neg]. split; apply argsort_sorted.
  - unfold mk_gscores, mk_scores, wf. cbn [base pos neg]. split; apply argsort_sorted.
Qed.

(* by_group + replacement: every group keeps its sample count *)
Theorem g_bs_by_group_count gs c gf h b rest calls g :
  not_callable c -> gwf gs -> stratified_sampling c = SByGroup -> g_resolve_method gs c = MReplacement ->
  NoDup (groups gs) -> In g (groups gs) ->
  g_bootstrap_sample argsort c gf gs h = Ok (b, rest, calls) -> Forall draw_ok calls ->
  group_count g b = group_count g gs.
Proof.
  intros Hn W Hst Hr Hnd Hin H Hok.
  destruct (g_bs_shape _ _ _ _ _ _ _ Hn H) as [(Hne & _)|(_ & parts & Hg & ->)]; [contradiction|].
  rewrite Hr in Hg. cbn [is_sp] in Hg.
  destruct (combine_parts p_pos parts) as [Cp Lp']. destruct (combine_parts p_neg parts) as [Cn Ln'].
  match goal with |- context [mk_gscores argsort ?ps ?ns ?pg ?ng ?sc ?ec ?nm ?srt] =>
    destruct (mk_gscores_pairs argsort argsort_perm argsort_sorted ps ns pg ng sc ec nm srt Lp' Ln')
      as (Pp & Pn & _) end.
  rewrite Cp in Pp. rewrite Cn in Pn.
  destruct (sample_groups_spec _ _ _ _ _ _ _ Hg Hok) as [E F]. rewrite Forall_forall in F.
  unfold group_count. rewrite (count_perm _ _ _ Pp), (count_perm _ _ _ Pn), !ppairs_count.
  rewrite <- Zsum_map_add.
  rewrite (map_ext _ (fun p => if p_group p =? g then len (p_pos p) + len (p_neg p) else 0))
    by (intro p; destruct (p_group p =? g); lia).
  destruct (group_scores_spec gs g W) as (_ & _ & <- & <- & _).
  apply one_part_sum; rewrite ?E; auto.
  intros p Hp <-. apply (F p Hp). reflexivity.
Qed.

End Sampling.

(* ---------- the executable instance satisfies the argsort hypotheses ---------- *)
Lemma kinsert_perm {A} (x : Q * A) l : Permutation (x :: l) (kinsert x l).
Proof.
  induction l as [|y r IH]; simpl; [apply Permutation_refl|].
  destruct (Qleb (fst x) (fst y)); [apply Permutation_refl|].
  eapply Permutation_trans; [apply perm_swap|]. now apply perm_skip.
Qed.
Lemma ksort_perm {A} (l : list (Q * A)) : Permutation l (ksort l).
Proof.
  unfold ksort. induction l as [|x r IH]; simpl; [constructor|].
  eapply Permutation_trans; [apply perm_skip, IH|apply kinsert_perm].
Qed.
Lemma kinsert_sorted {A} (x : Q * A) l : sorted (map fst l) -> sorted (map fst (kinsert x l)).
Proof.
  unfold sorted. induction l as [|y r IH]; intros Hs; simpl.
  - constructor; constructor.
  - simpl in Hs. inversion Hs as [|? ? Hr Hall]; subst.
    destruct (Qleb (fst x) (fst y)) eqn:E; qb; simpl.
    + constructor; [exact Hs|]. constructor; [exact E|].
      eapply Forall_impl; [|exact Hall]. simpl. intros a Ha. lra.
    + constructor; [now apply IH|].
      assert (Hp := Permutation_map fst (kinsert_perm x r)).
      apply (Permutation_Forall Hp). simpl. constructor; [lra|exact Hall].
Qed.
Lemma ksort_sorted {A} (l : list (Q * A)) : sorted (map fst (ksort l)).
Proof. unfold ksort. induction l as [|x r IH]; simpl; [constructor|now apply kinsert_sorted]. Qed.

Lemma iargsort_perm l : Permutation (iargsort l) (seq 0 (length l)).
Proof.
  unfold iargsort. eapply Permutation_trans; [apply Permutation_map, Permutation_sym, ksort_perm|].
  rewrite map_snd_combine by (now rewrite seq_length). apply Permutation_refl.
Qed.
Lemma iargsort_sorted l : sorted (take_nat 0%Q l (iargsort l)).
Proof.
  unfold iargsort, take_nat. rewrite map_map.
  assert (E : forall p, In p (ksort (combine l (seq 0 (length l)))) -> nth (snd p) l 0%Q = fst p).
  { intros p Hp. apply (Permutation_in _ (Permutation_sym (ksort_perm _))) in Hp.
    destruct p as [x i]. simpl.
    assert (Hn := Hp). apply (In_nth _ _ (0%Q, 0%nat)) in Hn. destruct Hn as (n & Hn & En).
    rewrite combine_nth in En by (now rewrite seq_length). inversion En as [[E1 E2]].
    rewrite combine_length, seq_length, Nat.min_id in Hn. rewrite seq_nth in * by exact Hn. simpl. reflexivity. }
  rewrite (map_ext_in _ fst _ E). apply ksort_sorted.
Qed.
