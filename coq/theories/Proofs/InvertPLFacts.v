(* Proofs/InvertPLFacts.v — lemmas about Model/InvertPL.v (property C17). *)
From SA Require Import Model.InvertPL.
Open Scope Q_scope.

(* ------------------------------------------------------------------ nonzero *)
Lemma nonzero_from_in i m j :
  In j (nonzero_from i m) <-> (i <= j)%nat /\ (j - i < length m)%nat /\ nth (j - i) m false = true.
Proof.
  revert i. induction m as [|b r IH]; intros i; simpl.
  - split; [tauto|]. intros (_ & H & _). lia.
  - destruct b; simpl; rewrite ?IH; split.
    + intros [<-|(H1 & H2 & H3)].
      * rewrite Nat.sub_diag. repeat split; lia.
      * replace (j - i)%nat with (S (j - S i)) by lia. repeat split; try lia. exact H3.
    + intros (H1 & H2 & H3). destruct (Nat.eq_dec i j) as [->|Hne]; [now left|right].
      replace (j - i)%nat with (S (j - S i)) in H2, H3 by lia. repeat split; try lia. exact H3.
    + intros (H1 & H2 & H3). replace (j - i)%nat with (S (j - S i)) by lia. repeat split; try lia. exact H3.
    + intros (H1 & H2 & H3). destruct (Nat.eq_dec i j) as [->|Hne].
      * rewrite Nat.sub_diag in H3. discriminate.
      * replace (j - i)%nat with (S (j - S i)) in H2, H3 by lia. repeat split; try lia. exact H3.
Qed.

Lemma nonzero_in m j : In j (nonzero m) <-> (j < length m)%nat /\ nth j m false = true.
Proof. unfold nonzero. rewrite nonzero_from_in, Nat.sub_0_r. split; [tauto|]. intros [? ?]; repeat split; auto; lia. Qed.

Lemma nonzero_from_sorted i m : StronglySorted lt (nonzero_from i m).
Proof.
  revert i. induction m as [|b r IH]; intros i; simpl; [constructor|].
  destruct b; [|apply IH]. constructor; [apply IH|].
  apply Forall_forall. intros j Hj. apply nonzero_from_in in Hj. lia.
Qed.
Lemma nonzero_sorted m : StronglySorted lt (nonzero m).
Proof. apply nonzero_from_sorted. Qed.

(* ------------------------------------------------------------------ the mask *)
Lemma removelast_length {A} (l : list A) : length (removelast l) = (length l - 1)%nat.
Proof.
  induction l as [|a r IH]; [reflexivity|]. destruct r as [|b r']; [reflexivity|].
  change (removelast (a :: b :: r')) with (a :: removelast (b :: r')). simpl length in *. lia.
Qed.
Lemma removelast_nth {A} (l : list A) d j : (S j < length l)%nat -> nth j (removelast l) d = nth j l d.
Proof.
  revert j. induction l as [|a r IH]; intros j Hj; [simpl in Hj; lia|].
  destruct r as [|b r']; [simpl in Hj; lia|].
  change (removelast (a :: b :: r')) with (a :: removelast (b :: r')).
  destruct j as [|j]; [reflexivity|]. simpl nth. apply IH. simpl length in *. lia.
Qed.
Lemma tl_nth {A} (l : list A) d j : nth j (tl l) d = nth (S j) l d.
Proof. destruct l; [destruct j; reflexivity|reflexivity]. Qed.
Lemma tl_length {A} (l : list A) : length (tl l) = (length l - 1)%nat.
Proof. destruct l; simpl; lia. Qed.

Lemma crossing_mask_length y t : length (crossing_mask y t) = (length y - 1)%nat.
Proof. unfold crossing_mask. rewrite map_length, combine_length, removelast_length, tl_length. lia. Qed.

Lemma crossing_mask_nth y t j : (S j < length y)%nat ->
  nth j (crossing_mask y t) false = crossing (nth j y 0) (nth (S j) y 0) t.
Proof.
  intro Hj. unfold crossing_mask.
  set (f := fun p : Q * Q => crossing (fst p) (snd p) t).
  rewrite (nth_indep _ false (f (0, 0))) by (rewrite map_length, combine_length, removelast_length, tl_length; lia).
  rewrite map_nth. rewrite combine_nth by (rewrite removelast_length, tl_length; reflexivity).
  unfold f; simpl. now rewrite removelast_nth, tl_nth by exact Hj.
Qed.

Lemma in_crossings y t j : In j (nonzero (crossing_mask y t)) <-> is_crossing y t j.
Proof.
  rewrite nonzero_in, crossing_mask_length. unfold is_crossing. split.
  - intros [H1 H2]. assert (H : (S j < length y)%nat) by lia. split; [exact H|]. now rewrite <- crossing_mask_nth.
  - intros [H1 H2]. split; [lia|]. now rewrite crossing_mask_nth.
Qed.

(* ------------------------------------------------------------------ one crossing segment *)
Lemma crossing_cases y0 y1 t : crossing y0 y1 t = true ->
  (y0 <= t /\ t < y1) \/ (y1 < t /\ t <= y0).
Proof.
  unfold crossing, crossing_up, crossing_down. intro H.
  apply orb_true_iff in H. destruct H as [H|H]; apply andb_true_iff in H; destruct H as [A B]; qb; [left|right]; split; assumption.
Qed.
Lemma crossing_iff y0 y1 t : crossing y0 y1 t = true <->
  (y0 <= t /\ t < y1) \/ (y1 < t /\ t <= y0).
Proof.
  split; [apply crossing_cases|]. unfold crossing, crossing_up, crossing_down.
  intros [[A B]|[A B]]; apply orb_true_iff; [left|right]; apply andb_true_iff; split; qb; assumption.
Qed.

(* la = (t - y0)/(y1 - y0) lies in [0,1) and solves the chord equation *)
Lemma la_facts y0 y1 t : crossing y0 y1 t = true ->
  let la := (t - y0) / (y1 - y0) in
  0 <= la /\ la < 1 /\ la * (y1 - y0) == t - y0 /\ (la == 0 <-> y0 == t).
Proof.
  intros H la. apply crossing_cases in H.
  assert (Hne : ~ y1 - y0 == 0) by (destruct H; lra).
  assert (E : la * (y1 - y0) == t - y0) by (unfold la; field; exact Hne).
  repeat split.
  - destruct H as [[A B]|[A B]]; nra.
  - destruct H as [[A B]|[A B]]; nra.
  - exact E.
  - intro Z. rewrite Z in E. lra.
  - intro Z. destruct H as [[A B]|[A B]]; nra.
Qed.

Lemma sorted_nth_le x i j : sorted x -> (i <= j)%nat -> (j < length x)%nat -> nth i x 0 <= nth j x 0.
Proof. apply sorted_nth_mono. Qed.

(* on a crossing segment the abscissae are strictly ordered *)
Lemma crossing_x_lt x y t j : pl_wf x y -> is_crossing y t j -> nth j x 0 < nth (S j) x 0.
Proof.
  intros (Hl & Hs & He) [Hj Hc]. rewrite <- Hl in Hj.
  assert (Hle := sorted_nth_le x j (S j) Hs ltac:(lia) Hj).
  destruct (Qlt_le_dec (nth j x 0) (nth (S j) x 0)) as [L|L]; [exact L|].
  assert (Heq : nth j x 0 == nth (S j) x 0) by lra.
  specialize (He j Hj Heq). apply crossing_cases in Hc. lra.
Qed.

Lemma interp_bounds x y t j : pl_wf x y -> is_crossing y t j ->
  nth j x 0 <= interp x y t j /\ interp x y t j < nth (S j) x 0.
Proof.
  intros Hw Hc. pose proof (crossing_x_lt x y t j Hw Hc) as Hx.
  destruct Hc as [Hj Hc]. pose proof (la_facts _ _ _ Hc) as (L0 & L1 & _ & _).
  unfold interp. set (la := (t - nth j y 0) / (nth (S j) y 0 - nth j y 0)) in *.
  split; nra.
Qed.

Lemma interp_on_chord x y t j : pl_wf x y -> is_crossing y t j ->
  t == nth j y 0 + (nth (S j) y 0 - nth j y 0) *
       ((interp x y t j - nth j x 0) / (nth (S j) x 0 - nth j x 0)).
Proof.
  intros Hw Hc. pose proof (crossing_x_lt x y t j Hw Hc) as Hx.
  destruct Hc as [Hj Hc]. pose proof (la_facts _ _ _ Hc) as (_ & _ & E & _).
  unfold interp. set (la := (t - nth j y 0) / (nth (S j) y 0 - nth j y 0)) in *.
  assert (Hd : ~ nth (S j) x 0 - nth j x 0 == 0) by lra.
  assert (R : ((1 - la) * nth j x 0 + la * nth (S j) x 0 - nth j x 0) / (nth (S j) x 0 - nth j x 0) == la)
    by (field; exact Hd).
  rewrite R. lra.
Qed.

Lemma interp_on_graph x y t j : pl_wf x y -> is_crossing y t j -> on_graph x y (interp x y t j) t.
Proof.
  intros Hw Hc. right. exists j.
  pose proof (interp_bounds x y t j Hw Hc) as [B1 B2].
  destruct Hw as (Hl & Hw'). destruct Hc as [Hj Hc].
  repeat split.
  - now rewrite Hl.
  - apply (crossing_x_lt x y t j); [exact (conj Hl Hw')|split; assumption].
  - exact B1.
  - lra.
  - apply interp_on_chord; [exact (conj Hl Hw')|split; assumption].
Qed.

(* a touch from the left end of the segment is reported as the sample itself *)
Lemma interp_touch x y t j : is_crossing y t j -> nth j y 0 == t -> interp x y t j == nth j x 0.
Proof.
  intros [Hj Hc] Ht. pose proof (la_facts _ _ _ Hc) as (_ & _ & _ & Z).
  unfold interp. set (la := (t - nth j y 0) / (nth (S j) y 0 - nth j y 0)) in *.
  apply Z in Ht. rewrite Ht. ring.
Qed.
Lemma interp_strict x y t j : pl_wf x y -> is_crossing y t j -> ~ nth j y 0 == t ->
  nth j x 0 < interp x y t j.
Proof.
  intros Hw Hc Ht. pose proof (crossing_x_lt x y t j Hw Hc) as Hx.
  destruct Hc as [Hj Hc]. pose proof (la_facts _ _ _ Hc) as (L0 & L1 & _ & Z).
  unfold interp. set (la := (t - nth j y 0) / (nth (S j) y 0 - nth j y 0)) in *.
  assert (0 < la). { destruct (Qlt_le_dec 0 la) as [G|G]; [exact G|]. exfalso. apply Ht, Z. lra. }
  nra.
Qed.

(* ------------------------------------------------------------------ strictly increasing *)
Lemma interp_lt x y t i j : pl_wf x y -> is_crossing y t i -> is_crossing y t j -> (i < j)%nat ->
  interp x y t i < interp x y t j.
Proof.
  intros Hw Hi Hj Hij.
  pose proof (interp_bounds x y t i Hw Hi) as [_ U].
  pose proof (interp_bounds x y t j Hw Hj) as [L _].
  destruct Hw as (Hl & Hs & _). destruct Hj as [Hj _]. rewrite <- Hl in Hj.
  assert (M := sorted_nth_le x (S i) j Hs ltac:(lia) ltac:(lia)). lra.
Qed.

Lemma map_strictly_increasing (f : nat -> Q) (l : list nat) :
  StronglySorted lt l ->
  (forall i j, In i l -> In j l -> (i < j)%nat -> f i < f j) ->
  strictly_increasing (map f l).
Proof.
  unfold strictly_increasing. induction 1 as [|a r Hr IH Ha]; intros Hf; simpl; [constructor|].
  constructor.
  - apply IH. intros i j Hi Hj. apply Hf; now right.
  - apply Forall_forall. intros z Hz. apply in_map_iff in Hz. destruct Hz as (k & <- & Hk).
    apply Hf; [now left|now right|]. rewrite Forall_forall in Ha. now apply Ha.
Qed.

Definition crossings (x y : list Q) (t : Q) : list Q := map (interp x y t) (nonzero (crossing_mask y t)).

Lemma invert1_cases x y t :
  (crossings x y t = [] /\ invert1 x y t = [closest x y t]) \/
  (crossings x y t <> [] /\ invert1 x y t = crossings x y t).
Proof. unfold invert1, crossings. destruct (map _ _); [left|right]; split; auto; discriminate. Qed.

Lemma crossings_nil_iff x y t : crossings x y t = [] <-> forall j, ~ is_crossing y t j.
Proof.
  unfold crossings. split.
  - intros H j Hj. apply in_crossings in Hj. apply map_eq_nil in H. rewrite H in Hj. exact Hj.
  - intros H. destruct (nonzero (crossing_mask y t)) as [|j r] eqn:E; [reflexivity|].
    exfalso. apply (H j). apply in_crossings. rewrite E. now left.
Qed.

Lemma crossings_increasing x y t : pl_wf x y -> strictly_increasing (crossings x y t).
Proof.
  intro Hw. unfold crossings. apply map_strictly_increasing; [apply nonzero_sorted|].
  intros i j Hi Hj. apply in_crossings in Hi, Hj. now apply interp_lt.
Qed.

Lemma invert1_increasing x y t : pl_wf x y -> strictly_increasing (invert1 x y t).
Proof.
  intro Hw. destruct (invert1_cases x y t) as [[_ ->]|[_ ->]].
  - constructor; constructor.
  - now apply crossings_increasing.
Qed.

(* ------------------------------------------------------------------ argmin *)
Lemma argmin_from_spec l : forall i best bv,
  (best < i)%nat ->
  let k := argmin_from i best bv l in
  let v := if (k <? i)%nat then bv else nth (k - i) l 0 in
  ((k = best) \/ (i <= k /\ k - i < length l)%nat) /\
  v <= bv /\ (forall m, (m < length l)%nat -> v <= nth m l 0) /\
  (forall m, (m < length l)%nat -> (i + m < k)%nat -> v < nth m l 0) /\
  ((k <> best) -> v < bv).
Proof.
  induction l as [|a r IH]; intros i best bv Hb; cbn [argmin_from].
  - cbv zeta. assert (E : (best <? i)%nat = true) by (apply Nat.ltb_lt; exact Hb). rewrite E.
    repeat split; try (left; reflexivity); try lra; try (intros; simpl in *; lia).
  - destruct (Qltb a bv) eqn:C; qb.
    + specialize (IH (S i) i a ltac:(lia)). cbv zeta in IH |- *.
      set (k := argmin_from (S i) i a r) in *.
      destruct IH as (K & V1 & V2 & V3 & V4).
      destruct (k <? S i)%nat eqn:E1.
      * apply Nat.ltb_lt in E1. assert (k = i) by (destruct K; lia). subst k.
        assert (E2 : (i <? i)%nat = false) by (apply Nat.ltb_ge; lia).
        rewrite H, E2, Nat.sub_diag. cbn [nth].
        repeat split.
        -- right. simpl. lia.
        -- lra.
        -- intros m Hm. destruct m as [|m]; cbn [nth]; [lra|]. apply V2. simpl in Hm; lia.
        -- intros m Hm Hlt. lia.
        -- intros _. exact C.
      * apply Nat.ltb_ge in E1. assert (E2 : (k <? i)%nat = false) by (apply Nat.ltb_ge; lia). rewrite E2.
        replace (k - i)%nat with (S (k - S i)) by lia. cbn [nth].
        assert (Hk : k <> i) by lia. specialize (V4 Hk).
        repeat split.
        -- right. simpl. destruct K; lia.
        -- lra.
        -- intros m Hm. destruct m as [|m]; cbn [nth]; [lra|]. apply V2. simpl in Hm; lia.
        -- intros m Hm Hlt. destruct m as [|m]; cbn [nth]; [lra|]. apply V3; [simpl in Hm; lia|lia].
        -- intros _. lra.
    + specialize (IH (S i) best bv ltac:(lia)). cbv zeta in IH |- *.
      set (k := argmin_from (S i) best bv r) in *.
      destruct IH as (K & V1 & V2 & V3 & V4).
      destruct (k <? S i)%nat eqn:E1.
      * apply Nat.ltb_lt in E1. assert (k = best) by (destruct K; lia).
        assert (E2 : (k <? i)%nat = true) by (apply Nat.ltb_lt; lia). rewrite E2.
        repeat split.
        -- now left.
        -- lra.
        -- intros m Hm. destruct m as [|m]; cbn [nth]; [lra|]. apply V2. simpl in Hm; lia.
        -- intros m Hm Hlt. lia.
        -- intros Hk. contradiction.
      * apply Nat.ltb_ge in E1. assert (E2 : (k <? i)%nat = false) by (apply Nat.ltb_ge; lia). rewrite E2.
        replace (k - i)%nat with (S (k - S i)) by lia. cbn [nth].
        assert (Hk : k <> best) by lia. specialize (V4 Hk).
        repeat split.
        -- right. simpl. destruct K; lia.
        -- lra.
        -- intros m Hm. destruct m as [|m]; cbn [nth]; [lra|]. apply V2. simpl in Hm; lia.
        -- intros m Hm Hlt. destruct m as [|m]; cbn [nth]; [lra|]. apply V3; [simpl in Hm; lia|lia].
        -- intros _. exact V4.
Qed.

(* argmin l is an index of l whose element is minimal, and the first such *)
Lemma argmin_spec l : l <> [] ->
  (argmin l < length l)%nat /\
  (forall m, (m < length l)%nat -> nth (argmin l) l 0 <= nth m l 0) /\
  (forall m, (m < argmin l)%nat -> nth (argmin l) l 0 < nth m l 0).
Proof.
  destruct l as [|a r]; [congruence|intros _]. unfold argmin.
  pose proof (argmin_from_spec r 1 0 a ltac:(lia)) as H. cbv zeta in H.
  set (k := argmin_from 1 0 a r) in *. destruct H as (K & V1 & V2 & V3 & V4).
  destruct (k <? 1)%nat eqn:E.
  - apply Nat.ltb_lt in E. assert (k = 0)%nat by lia. rewrite H. cbn [nth length].
    repeat split; [lia| |intros; lia].
    intros m Hm. destruct m as [|m]; cbn [nth]; [lra|]. apply V2. simpl in Hm; lia.
  - apply Nat.ltb_ge in E. destruct k as [|k]; [lia|]. cbn [nth length].
    replace (S k - 1)%nat with k in * by lia.
    assert (Hk : S k <> 0%nat) by lia. specialize (V4 Hk).
    repeat split.
    + destruct K; lia.
    + intros m Hm. destruct m as [|m]; cbn [nth]; [lra|]. apply V2. simpl in Hm; lia.
    + intros m Hm. destruct m as [|m]; cbn [nth]; [lra|]. apply V3; [destruct K; lia|lia].
Qed.

Lemma closest_spec x y t : y <> [] -> length x = length y ->
  exists k, (k < length x)%nat /\ closest x y t = nth k x 0 /\
    (forall m, (m < length y)%nat -> Qabs (nth k y 0 - t) <= Qabs (nth m y 0 - t)) /\
    (forall m, (m < k)%nat -> Qabs (nth k y 0 - t) < Qabs (nth m y 0 - t)).
Proof.
  intros Hy Hl. set (d := map (fun v => Qabs (v - t)) y).
  assert (Hd : d <> []) by (unfold d; destruct y; [congruence|discriminate]).
  destruct (argmin_spec d Hd) as (K & M1 & M2).
  assert (Ld : length d = length y) by (unfold d; apply map_length).
  assert (N : forall m, (m < length y)%nat -> nth m d 0 = Qabs (nth m y 0 - t)).
  { intros m Hm. unfold d. rewrite (nth_indep _ 0 (Qabs (0 - t))) by (rewrite map_length; exact Hm).
    exact (map_nth (fun v => Qabs (v - t)) y 0 m). }
  exists (argmin d). repeat split.
  - lia.
  - intros m Hm. rewrite <- !N by lia. apply M1. lia.
  - intros m Hm. rewrite <- !N by lia. now apply M2.
Qed.

(* ------------------------------------------------------------------ main facts on invert1 *)
Lemma in_crossings_interp x y t z : In z (crossings x y t) <-> exists j, is_crossing y t j /\ z = interp x y t j.
Proof.
  unfold crossings. rewrite in_map_iff. split; intros (j & A & B).
  - exists j. split; [now apply in_crossings|now symmetry].
  - exists j. split; [now symmetry|now apply in_crossings].
Qed.

(* each returned point of the crossing case lies in its crossing segment, on the chord *)
Lemma invert1_crossing_sound x y t z : pl_wf x y -> (exists j, is_crossing y t j) -> In z (invert1 x y t) ->
  exists j, is_crossing y t j /\ z = interp x y t j /\
    nth j x 0 <= z /\ z < nth (S j) x 0 /\
    t == nth j y 0 + (nth (S j) y 0 - nth j y 0) * ((z - nth j x 0) / (nth (S j) x 0 - nth j x 0)).
Proof.
  intros Hw [j0 Hj0] Hz. destruct (invert1_cases x y t) as [[E _]|[_ E]].
  - exfalso. rewrite crossings_nil_iff in E. exact (E j0 Hj0).
  - rewrite E in Hz. apply in_crossings_interp in Hz. destruct Hz as (j & Hj & ->).
    exists j. pose proof (interp_bounds x y t j Hw Hj) as [B1 B2].
    split; [exact Hj|]. split; [reflexivity|]. split; [exact B1|]. split; [exact B2|].
    now apply interp_on_chord.
Qed.

Lemma invert1_no_crossing x y t : (forall j, ~ is_crossing y t j) -> invert1 x y t = [closest x y t].
Proof.
  intro H. destruct (invert1_cases x y t) as [[_ E]|[E _]]; [exact E|].
  exfalso. apply E. now apply crossings_nil_iff.
Qed.

(* a strict sign change between consecutive samples is a crossing *)
Lemma strict_change_crossing y t j : (S j < length y)%nat ->
  (nth j y 0 < t /\ t < nth (S j) y 0) \/ (nth (S j) y 0 < t /\ t < nth j y 0) -> is_crossing y t j.
Proof. intros Hj H. split; [exact Hj|]. apply crossing_iff. destruct H as [[A B]|[A B]]; [left|right]; split; lra. Qed.
(* a sample equal to t followed by a sample different from t is a crossing *)
Lemma touch_crossing y t j : (S j < length y)%nat -> nth j y 0 == t -> ~ nth (S j) y 0 == t -> is_crossing y t j.
Proof.
  intros Hj H N. split; [exact Hj|]. apply crossing_iff.
  destruct (Qlt_le_dec t (nth (S j) y 0)) as [L|L]; [left; split; lra|right; split; [|lra]].
  destruct (Qlt_le_dec (nth (S j) y 0) t) as [G|G]; [exact G|]. exfalso. apply N. lra.
Qed.

(* every point returned is a solution as soon as some sample touches t or two consecutive samples
   lie strictly on either side of it *)
Lemma invert1_solutions x y t : pl_wf x y -> y <> [] ->
  (exists j, (j < length y)%nat /\ nth j y 0 == t) \/
  (exists j, (S j < length y)%nat /\
     ((nth j y 0 < t /\ t < nth (S j) y 0) \/ (nth (S j) y 0 < t /\ t < nth j y 0))) ->
  Forall (fun z => on_graph x y z t) (invert1 x y t).
Proof.
  intros Hw Hy H. destruct (invert1_cases x y t) as [[E ->]|[_ ->]].
  - rewrite crossings_nil_iff in E. destruct H as [(j & Hj & Ht)|(j & Hj & Hc)].
    + constructor; [|constructor]. destruct Hw as (Hl & _).
      destruct (closest_spec x y t Hy Hl) as (k & K1 & -> & K3 & _).
      left. exists k. split; [exact K1|]. split; [reflexivity|].
      specialize (K3 j Hj).
      assert (A0 : Qabs (nth j y 0 - t) == 0).
      { rewrite Ht. setoid_replace (t - t) with 0 by ring. reflexivity. }
      pose proof (Qle_Qabs (nth k y 0 - t)) as P1.
      pose proof (Qle_Qabs (- (nth k y 0 - t))) as P2. rewrite Qabs_opp in P2.
      lra.
    + exfalso. exact (E j (strict_change_crossing y t j Hj Hc)).
  - apply Forall_forall. intros z Hz. apply in_crossings_interp in Hz. destruct Hz as (j & Hj & ->).
    now apply interp_on_graph.
Qed.

(* completeness on strict sign changes *)
Lemma invert1_complete_strict x y t j : pl_wf x y -> (S j < length y)%nat ->
  (nth j y 0 < t /\ t < nth (S j) y 0) \/ (nth (S j) y 0 < t /\ t < nth j y 0) ->
  exists z, In z (invert1 x y t) /\ nth j x 0 < z /\ z < nth (S j) x 0.
Proof.
  intros Hw Hj H. pose proof (strict_change_crossing y t j Hj H) as Hc.
  exists (interp x y t j). destruct (invert1_cases x y t) as [[E _]|[_ ->]].
  - exfalso. rewrite crossings_nil_iff in E. exact (E j Hc).
  - split; [apply in_crossings_interp; exists j; now split|].
    pose proof (interp_bounds x y t j Hw Hc) as [_ B]. split; [|exact B].
    apply interp_strict; auto. lra.
Qed.

Definition qcount (v : Q) (l : list Q) : Z := count (fun z => Qeqb z v) l.

Lemma strictly_increasing_count_le1 l v : strictly_increasing l -> (qcount v l <= 1)%Z.
Proof.
  unfold strictly_increasing, qcount. induction 1 as [|a r Hr IH Ha]; simpl; [lia|].
  destruct (Qeqb a v) eqn:E; [|lia]. qb.
  rewrite count_none; [lia|]. eapply Forall_impl; [|exact Ha]. simpl. intros z Hz.
  destruct (Qeqb z v) eqn:E'; [qb; lra|reflexivity].
Qed.
Lemma count_in_ge1 l v z : In z l -> z == v -> (1 <= qcount v l)%Z.
Proof.
  unfold qcount. induction l as [|a r IH]; intros Hin Hv; [destruct Hin|]. simpl.
  pose proof (count_nonneg (fun z => Qeqb z v) r).
  destruct Hin as [->|Hin].
  - assert (E : Qeqb z v = true) by (qb; exact Hv). rewrite E. lia.
  - specialize (IH Hin Hv). destruct (Qeqb a v); lia.
Qed.

(* a touch at a sample that is not the last one and whose successor leaves t is reported exactly once *)
Lemma invert1_touch_once x y t j : pl_wf x y -> (S j < length y)%nat ->
  nth j y 0 == t -> ~ nth (S j) y 0 == t -> qcount (nth j x 0) (invert1 x y t) = 1%Z.
Proof.
  intros Hw Hj Ht Hn. pose proof (touch_crossing y t j Hj Ht Hn) as Hc.
  pose proof (strictly_increasing_count_le1 _ (nth j x 0) (invert1_increasing x y t Hw)) as U.
  assert (L : (1 <= qcount (nth j x 0%Q) (invert1 x y t))%Z).
  { apply (count_in_ge1 _ _ (interp x y t j)); [|now apply interp_touch].
    destruct (invert1_cases x y t) as [[E _]|[_ ->]].
    - exfalso. rewrite crossings_nil_iff in E. exact (E j Hc).
    - apply in_crossings_interp. exists j. now split. }
  lia.
Qed.

(* inside a plateau at the target no crossing is recorded *)
Lemma plateau_no_crossing y t j : nth j y 0 == t -> nth (S j) y 0 == t -> ~ is_crossing y t j.
Proof. intros A B [_ C]. apply crossing_cases in C. lra. Qed.

(* all returned points lie in the sampled range *)
Lemma invert1_in_range x y t z : pl_wf x y -> y <> [] -> In z (invert1 x y t) ->
  nth 0 x 0 <= z /\ z <= nth (length x - 1) x 0.
Proof.
  intros Hw Hy Hz. destruct (invert1_cases x y t) as [[_ E]|[_ E]]; rewrite E in Hz.
  - destruct Hz as [<-|[]]. destruct Hw as (Hl & Hs & _).
    destruct (closest_spec x y t Hy Hl) as (k & K1 & -> & _).
    split; apply sorted_nth_le; auto; lia.
  - apply in_crossings_interp in Hz. destruct Hz as (j & Hj & ->).
    pose proof (interp_bounds x y t j Hw Hj) as [B1 B2].
    destruct Hw as (Hl & Hs & _). destruct Hj as [Hj _]. rewrite <- Hl in Hj.
    pose proof (sorted_nth_le x 0 j Hs ltac:(lia) ltac:(lia)).
    pose proof (sorted_nth_le x (S j) (length x - 1) Hs ltac:(lia) ltac:(lia)). lra.
Qed.

Lemma invert1_nonempty x y t : invert1 x y t <> [].
Proof. destruct (invert1_cases x y t) as [[_ ->]|[N ->]]; [discriminate|exact N]. Qed.

(* ------------------------------------------------------------------ invert_pl, threshold_at_metric *)
Lemma invert_pl_shape x y tg : y <> [] ->
  match tg with
  | TScalar t => invert_pl x y tg = Ok (Bare (invert1 x y t))
  | TArray ts => exists s, invert_pl x y tg = Ok (ListOf s) /\ length s = length ts /\
                   forall k, (k < length ts)%nat -> nth k s [] = invert1 x y (nth k ts 0)
  end.
Proof.
  intro Hy. destruct y as [|a r]; [congruence|]. destruct tg as [t|ts]; simpl; [reflexivity|].
  eexists; split; [reflexivity|]. split; [apply map_length|].
  intros k Hk. rewrite (nth_indep _ [] (invert1 x (a :: r) 0)) by (rewrite map_length; exact Hk).
  now rewrite map_nth.
Qed.

Lemma invert_pl_err x y tg : invert_pl x y tg = ErrValue <-> y = [].
Proof. destruct y; simpl; [tauto|]. destruct tg; split; discriminate. Qed.

Lemma threshold_at_metric_is_inversion metric s tg p :
  threshold_at_metric metric s tg p =
  match select_points s p with
  | ErrValue => ErrValue
  | Ok points => invert_pl points (metric s points) tg
  end.
Proof. reflexivity. Qed.

Lemma select_points_none s : select_points s PNone =
  if (len (pos s ++ neg s) <? 2)%Z then ErrValue else Ok (isort (pos s ++ neg s)).
Proof. unfold select_points, len. now rewrite isort_length. Qed.

Lemma select_points_none_sorted s pts : select_points s PNone = Ok pts ->
  sorted pts /\ Permutation (pos s ++ neg s) pts /\ (2 <= length pts)%nat.
Proof.
  unfold select_points. destruct (len (isort (pos s ++ neg s)) <? 2)%Z eqn:E; [discriminate|].
  intros [= <-]. apply Z.ltb_ge in E. unfold len in E.
  repeat split; [apply isort_sorted|apply isort_perm|lia].
Qed.

Lemma select_points_arr s pts : select_points s (PArr pts) = Ok pts.
Proof. reflexivity. Qed.

Lemma linspace_spec a b k : (2 <= k)%Z -> exists l, linspace a b k = Ok l /\ length l = Z.to_nat k /\
  nth 0 l 0 == a /\ nth (Z.to_nat k - 1) l 0 == b /\
  forall i, (i < Z.to_nat k)%nat -> nth i l 0 == a + inject_Z (Z.of_nat i) * ((b - a) / inject_Z (k - 1)).
Proof.
  intro Hk. unfold linspace. assert (E : (k <? 0)%Z = false) by (apply Z.ltb_ge; lia). rewrite E.
  eexists; split; [reflexivity|].
  set (f := fun i : nat => a + inject_Z (Z.of_nat i) * ((b - a) / inject_Z (k - 1))).
  assert (N : forall i, (i < Z.to_nat k)%nat -> nth i (map f (seq 0 (Z.to_nat k))) 0 = f i).
  { intros i Hi. rewrite (nth_indep _ 0 (f 0%nat)) by (rewrite map_length, seq_length; exact Hi).
    rewrite map_nth, seq_nth by exact Hi. reflexivity. }
  split; [now rewrite map_length, seq_length|].
  split; [rewrite N by lia; unfold f; simpl; ring|].
  split; [|intros i Hi; now rewrite N].
  rewrite N by lia. unfold f.
  replace (Z.of_nat (Z.to_nat k - 1)) with (k - 1)%Z by lia.
  assert (P : 0 < inject_Z (k - 1)) by (change 0 with (inject_Z 0); rewrite <- Zlt_Qlt; lia).
  field. lra.
Qed.

Lemma linspace_sorted a b k l : a < b -> (2 <= k)%Z -> linspace a b k = Ok l -> sorted l.
Proof.
  intros Hab Hk. unfold linspace. assert (E : (k <? 0)%Z = false) by (apply Z.ltb_ge; lia). rewrite E.
  intros [= <-]. set (st := (b - a) / inject_Z (k - 1)).
  assert (Hst : 0 < st).
  { unfold st. apply Qlt_shift_div_l; [change 0 with (inject_Z 0); rewrite <- Zlt_Qlt; lia|lra]. }
  generalize (Z.to_nat k). intro n. generalize 0%nat as o.
  induction n as [|n IH]; intro o; simpl; [constructor|].
  constructor; [apply IH|]. apply Forall_forall. intros z Hz. apply in_map_iff in Hz.
  destruct Hz as (i & <- & Hi). apply in_seq in Hi.
  assert (inject_Z (Z.of_nat o) <= inject_Z (Z.of_nat i)) by (rewrite <- Zle_Qle; lia). nra.
Qed.

(* the error branches of the point selection *)
Lemma select_points_err_none s : select_points s PNone = ErrValue <-> (length (pos s) + length (neg s) < 2)%nat.
Proof.
  rewrite select_points_none. unfold len. rewrite app_length.
  destruct (Z.of_nat (length (pos s) + length (neg s)) <? 2)%Z eqn:E.
  - apply Z.ltb_lt in E. split; [lia|reflexivity].
  - apply Z.ltb_ge in E. split; [discriminate|lia].
Qed.

(* ------------------------------------------------------------------ points = int: min / max of all scores *)
Lemma last_nth (l : list Q) d : l <> [] -> last l d = nth (length l - 1) l d.
Proof.
  induction l as [|a r IH]; [congruence|intros _]. destruct r as [|b r']; [reflexivity|].
  change (last (a :: b :: r') d) with (last (b :: r') d). rewrite IH by discriminate.
  simpl length. replace (S (S (length r')) - 1)%nat with (S (S (length r') - 1)) by lia. reflexivity.
Qed.

Lemma sorted_first_min l a : sorted l -> first_opt l = Some a -> In a l /\ forall v, In v l -> a <= v.
Proof.
  destruct l as [|b r]; [discriminate|]. intros Hs [= <-]. split; [now left|].
  intros v [<-|Hv]; [lra|]. inversion Hs as [|? ? _ Hall]; subst. rewrite Forall_forall in Hall. now apply Hall.
Qed.
Lemma sorted_last_max l a : sorted l -> last_opt l = Some a -> In a l /\ forall v, In v l -> v <= a.
Proof.
  destruct l as [|b r]; [discriminate|]. intros Hs H. set (l := b :: r) in *.
  assert (Hl : l <> []) by discriminate. change (Some (last l 0) = Some a) in H.
  rewrite (last_nth l 0 Hl) in H.
  assert (Ha : nth (length l - 1) l 0 = a) by congruence. rewrite <- Ha. clear H Ha.
  split; [apply nth_In; unfold l; simpl; lia|].
  intros v Hv. destruct (In_nth l v 0 Hv) as (i & Hi & <-). apply sorted_nth_mono; auto; lia.
Qed.

Lemma select_points_int s k l : wf s -> select_points s (PInt k) = Ok l ->
  exists mn mx, In mn (pos s ++ neg s) /\ In mx (pos s ++ neg s) /\
    (forall v, In v (pos s ++ neg s) -> mn <= v /\ v <= mx) /\ mn < mx /\ linspace mn mx k = Ok l.
Proof.
  intros [Hp Hn]. unfold select_points.
  destruct (first_opt (pos s)) as [fp|] eqn:Efp; destruct (first_opt (neg s)) as [fn|] eqn:Efn;
  destruct (last_opt (pos s)) as [lp|] eqn:Elp; destruct (last_opt (neg s)) as [ln|] eqn:Eln;
  cbn [min_opt max_opt]; try discriminate;
  try (destruct (pos s); discriminate); try (destruct (neg s); discriminate).
  - destruct (Qleb (Qmax2 lp ln) (Qmin2 fp fn)) eqn:C; [discriminate|]. qb. intro H.
    destruct (sorted_first_min _ _ Hp Efp) as [I1 M1]. destruct (sorted_first_min _ _ Hn Efn) as [I2 M2].
    destruct (sorted_last_max _ _ Hp Elp) as [I3 M3]. destruct (sorted_last_max _ _ Hn Eln) as [I4 M4].
    exists (Qmin2 fp fn), (Qmax2 lp ln).
    destruct (Qmin2_spec fp fn) as (A1 & A2 & A3). destruct (Qmax2_spec lp ln) as (B1 & B2 & B3).
    split; [destruct A3 as [-> | ->]; apply in_or_app; auto|].
    split; [destruct B3 as [-> | ->]; apply in_or_app; auto|].
    split; [|split; [exact C|exact H]].
    intros v Hv. apply in_app_or in Hv. destruct Hv as [Hv|Hv].
    + specialize (M1 v Hv). specialize (M3 v Hv). lra.
    + specialize (M2 v Hv). specialize (M4 v Hv). lra.
  - destruct (Qleb lp fp) eqn:C; [discriminate|]. qb. intro H.
    destruct (sorted_first_min _ _ Hp Efp) as [I1 M1]. destruct (sorted_last_max _ _ Hp Elp) as [I3 M3].
    assert (En : neg s = []) by (destruct (neg s); [reflexivity|discriminate]). rewrite En, app_nil_r.
    exists fp, lp. split; [exact I1|]. split; [exact I3|]. split; [|split; [exact C|exact H]].
    intros v Hv. split; [apply M1|apply M3]; assumption.
  - destruct (Qleb ln fn) eqn:C; [discriminate|]. qb. intro H.
    destruct (sorted_first_min _ _ Hn Efn) as [I1 M1]. destruct (sorted_last_max _ _ Hn Eln) as [I3 M3].
    assert (En : pos s = []) by (destruct (pos s); [reflexivity|discriminate]). rewrite En. cbn [app].
    exists fn, ln. split; [exact I1|]. split; [exact I3|]. split; [|split; [exact C|exact H]].
    intros v Hv. split; [apply M1|apply M3]; assumption.
Qed.

(* ValueError of the int mode: fewer than two distinct scores (or a negative count) *)
Lemma select_points_int_err s k : wf s -> (0 <= k)%Z ->
  (select_points s (PInt k) = ErrValue <-> forall u v, In u (pos s ++ neg s) -> In v (pos s ++ neg s) -> u == v).
Proof.
  intros Hw Hk. split.
  - intros He u v Hu Hv. destruct Hw as [Hp Hn]. unfold select_points in He.
    assert (Lk : forall a b, linspace a b k <> ErrValue).
    { intros a b. unfold linspace. assert (E : (k <? 0)%Z = false) by (apply Z.ltb_ge; lia). rewrite E. discriminate. }
    destruct (first_opt (pos s)) as [fp|] eqn:Efp; destruct (first_opt (neg s)) as [fn|] eqn:Efn;
    destruct (last_opt (pos s)) as [lp|] eqn:Elp; destruct (last_opt (neg s)) as [ln|] eqn:Eln;
    cbn [min_opt max_opt] in He;
    try (destruct (pos s); discriminate); try (destruct (neg s); discriminate).
    + destruct (Qleb (Qmax2 lp ln) (Qmin2 fp fn)) eqn:C; [|exfalso; eapply Lk; exact He]. qb.
      destruct (sorted_first_min _ _ Hp Efp) as [_ M1]. destruct (sorted_first_min _ _ Hn Efn) as [_ M2].
      destruct (sorted_last_max _ _ Hp Elp) as [_ M3]. destruct (sorted_last_max _ _ Hn Eln) as [_ M4].
      destruct (Qmin2_spec fp fn) as (A1 & A2 & _). destruct (Qmax2_spec lp ln) as (B1 & B2 & _).
      assert (R : forall w, In w (pos s ++ neg s) -> Qmin2 fp fn <= w /\ w <= Qmax2 lp ln).
      { intros w Hw'. apply in_app_or in Hw'. destruct Hw' as [Hw'|Hw'].
        - specialize (M1 w Hw'). specialize (M3 w Hw'). lra.
        - specialize (M2 w Hw'). specialize (M4 w Hw'). lra. }
      destruct (R u Hu), (R v Hv). lra.
    + destruct (Qleb lp fp) eqn:C; [|exfalso; eapply Lk; exact He]. qb.
      destruct (sorted_first_min _ _ Hp Efp) as [_ M1]. destruct (sorted_last_max _ _ Hp Elp) as [_ M3].
      assert (En : neg s = []) by (destruct (neg s); [reflexivity|discriminate]). rewrite En, app_nil_r in Hu, Hv.
      pose proof (M1 u Hu). pose proof (M3 u Hu). pose proof (M1 v Hv). pose proof (M3 v Hv). lra.
    + destruct (Qleb ln fn) eqn:C; [|exfalso; eapply Lk; exact He]. qb.
      destruct (sorted_first_min _ _ Hn Efn) as [_ M1]. destruct (sorted_last_max _ _ Hn Eln) as [_ M3].
      assert (En : pos s = []) by (destruct (pos s); [reflexivity|discriminate]). rewrite En in Hu, Hv. cbn [app] in Hu, Hv.
      pose proof (M1 u Hu). pose proof (M3 u Hu). pose proof (M1 v Hv). pose proof (M3 v Hv). lra.
    + assert (E1 : pos s = []) by (destruct (pos s); [reflexivity|discriminate]). rewrite E1 in Hu.
      assert (E2 : neg s = []) by (destruct (neg s); [reflexivity|discriminate]). rewrite E2 in Hu. destruct Hu.
  - intro Hall. destruct (select_points s (PInt k)) as [l|] eqn:E; [exfalso|reflexivity].
    destruct (select_points_int s k l Hw E) as (mn & mx & I1 & I2 & _ & Hlt & _).
    specialize (Hall mn mx I1 I2). lra.
Qed.

Lemma invert1_fallback x y t : y <> [] -> length x = length y -> (forall j, ~ is_crossing y t j) ->
  exists k, (k < length x)%nat /\ invert1 x y t = [nth k x 0] /\
    (forall m, (m < length y)%nat -> Qabs (nth k y 0 - t) <= Qabs (nth m y 0 - t)) /\
    (forall m, (m < k)%nat -> Qabs (nth k y 0 - t) < Qabs (nth m y 0 - t)).
Proof.
  intros Hy Hl Hn. destruct (closest_spec x y t Hy Hl) as (k & K1 & K2 & K3 & K4).
  exists k. rewrite (invert1_no_crossing x y t Hn), K2. auto.
Qed.
