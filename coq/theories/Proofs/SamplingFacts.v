(* Proofs/SamplingFacts.v — C11: lemmas about Model/Sampling.v (bootstrap samples over draw histories). *)
From SA Require Import Model.Sampling Proofs.CmFacts.
Open Scope Z_scope.

(* ---------- inversion of the history monad ---------- *)
Lemma bind_ok {A B} (m : M A) (f : A -> M B) h b h2 c :
  bind m f h = Ok (b, h2, c) ->
  exists a h1 c1 c2, m h = Ok (a, h1, c1) /\ f a h1 = Ok (b, h2, c2) /\ c = c1 ++ c2.
Proof.
  unfold bind. destruct (m h) as [[[a h1] c1]|e]; [|discriminate].
  destruct (f a h1) as [[[b' h2'] c2]|e] eqn:E; [|discriminate].
  intro H; inversion H; subst. now exists a, h1, c1, c2.
Qed.
Lemma ret_ok {A} (a : A) h b h2 c : ret a h = Ok (b, h2, c) -> b = a /\ h2 = h /\ c = [].
Proof. unfold ret. intro H; inversion H; auto. Qed.
Lemma raise_ok {A} e h (x : A * list draw * list draw) : raise e h = Ok x -> False.
Proof. discriminate. Qed.

Lemma binomial_ok n p h k h2 c : binomial n p h = Ok (k, h2, c) -> c = [DBinom n p k].
Proof.
  unfold binomial. destruct ((n <? 0) || bad_prob p); [discriminate|].
  destruct h as [|[] r]; try discriminate. intro H; inversion H; reflexivity.
Qed.
Lemma binomial_vec_ok size n p h ks h2 c : binomial_vec size n p h = Ok (ks, h2, c) -> c = [DBinomVec size n p ks].
Proof.
  unfold binomial_vec. destruct ((size <? 0) || (n <? 0) || bad_prob p); [discriminate|].
  destruct h as [|[] r]; try discriminate. intro H; inversion H; reflexivity.
Qed.
Lemma poisson_vec_ok size lam h ks h2 c : poisson_vec size lam h = Ok (ks, h2, c) -> c = [DPoissonVec size lam ks].
Proof.
  unfold poisson_vec. destruct ((size <? 0) || Qltb lam 0); [discriminate|].
  destruct h as [|[] r]; try discriminate. intro H; inversion H; reflexivity.
Qed.
Lemma choice_ok n size h ix h2 c : choice n size h = Ok (ix, h2, c) -> c = [DChoice n size ix].
Proof.
  unfold choice. destruct ((size <? 0) || ((n <=? 0) && negb (size =? 0))); [discriminate|].
  destruct h as [|[] r]; try discriminate. intro H; inversion H; reflexivity.
Qed.
Lemma choice_norepl_ok n size h ix h2 c :
  choice_norepl n size h = Ok (ix, h2, c) -> c = [DChoiceNoRepl n size ix].
Proof.
  unfold choice_norepl. destruct ((size <? 0) || ((n <=? 0) && negb (size =? 0)) || (n <? size)); [discriminate|].
  destruct h as [|[] r]; try discriminate. intro H; inversion H; reflexivity.
Qed.
Lemma normal_ok size h vs h2 c : normal size h = Ok (vs, h2, c) -> c = [DNormal size vs].
Proof. unfold normal. destruct h as [|[] r]; try discriminate. intro H; inversion H; reflexivity. Qed.
Lemma choice1_ok n h i h2 c : choice1 n h = Ok (i, h2, c) -> c = [DChoice1 n i].
Proof.
  unfold choice1. destruct (n <=? 0); [discriminate|].
  destruct h as [|[] r]; try discriminate. intro H; inversion H; reflexivity.
Qed.
Lemma one_over_ok n h q h2 c : one_over n h = Ok (q, h2, c) -> n <> 0 /\ q = (1 / inject_Z n)%Q /\ h2 = h /\ c = [].
Proof.
  unfold one_over. destruct (n =? 0) eqn:E; [discriminate|]. intro H. apply ret_ok in H. apply Z.eqb_neq in E. tauto.
Qed.
Lemma single_pass_sampling_ok size n h ks h2 c :
  single_pass_sampling size n (1 / inject_Z size)%Q h = Ok (ks, h2, c) -> c = [sp_call size n ks].
Proof.
  unfold single_pass_sampling, sp_call. destruct (n <? 100).
  - apply binomial_vec_ok.
  - apply poisson_vec_ok.
Qed.

(* repeatedly invert binds / rets in hypotheses *)
Ltac minv :=
  repeat match goal with
  | H : bind _ _ _ = Ok _ |- _ =>
      let a := fresh "a" in let h1 := fresh "h" in let c1 := fresh "c" in let c2 := fresh "c" in
      let H1 := fresh "Hm" in let H2 := fresh "Hm" in let Hc := fresh "Hc" in
      apply bind_ok in H; destruct H as (a & h1 & c1 & c2 & H1 & H2 & Hc)
  | H : ret _ _ = Ok _ |- _ => apply ret_ok in H; destruct H as (? & ? & ?)
  | H : raise _ _ = Ok _ |- _ => exfalso; exact (raise_ok _ _ _ H)
  end.

(* ---------- a[idx], np.repeat(np.arange(n), ks) ---------- *)
Lemma take_idx_len {A} (d : A) l idx : len (take_idx d l idx) = len idx.
Proof. unfold take_idx. apply len_map. Qed.

Lemma take_idx_incl {A} (d : A) l idx :
  Forall (in_range (len l)) idx -> incl (take_idx d l idx) l.
Proof.
  unfold take_idx, in_range, len. intros H x Hx. apply in_map_iff in Hx. destruct Hx as (i & <- & Hi).
  rewrite Forall_forall in H. specialize (H i Hi). apply nth_In. lia.
Qed.

Lemma len_nil_iff {A} (l : list A) : len l = 0 <-> l = [].
Proof. unfold len. destruct l; simpl; split; intro; try reflexivity; try discriminate; lia. Qed.
Lemma len_pos_cons {A} (l : list A) : 0 < len l -> exists x r, l = x :: r.
Proof. destruct l as [|x r]; unfold len; simpl; [lia|]. intros _. now exists x, r. Qed.

Lemma repeat_idx_range i ks :
  Forall (fun j => i <= j < i + len ks) (repeat_idx i ks).
Proof.
  revert i. induction ks as [|k r IH]; intro i; simpl; [constructor|].
  apply Forall_app. split.
  - apply Forall_forall. intros x Hx. apply repeat_spec in Hx. subst. unfold len. simpl length. lia.
  - eapply Forall_impl; [|apply IH]. simpl. intros j Hj. unfold len in *. simpl length. lia.
Qed.

Lemma repeat_idx_sorted i ks : StronglySorted Z.le (repeat_idx i ks).
Proof.
  revert i. induction ks as [|k r IH]; intro i; simpl; [constructor|].
  induction (Z.to_nat k) as [|n IHn]; simpl; [apply IH|].
  constructor; [exact IHn|].
  apply Forall_app. split.
  - apply Forall_forall. intros x Hx. apply repeat_spec in Hx. subst. lia.
  - eapply Forall_impl; [|apply (repeat_idx_range (i + 1) r)]. simpl. intros; lia.
Qed.

Lemma take_idx_sorted l idx :
  sorted l -> StronglySorted Z.le idx -> Forall (in_range (len l)) idx -> sorted (take_idx 0%Q l idx).
Proof.
  intros Hl Hs Hr. unfold sorted, take_idx. induction Hs as [|i r Hsr IH Hall]; simpl; [constructor|].
  inversion Hr as [|? ? Hi Hr']; subst. constructor; [now apply IH|].
  rewrite Forall_map. rewrite Forall_forall in *. intros j Hj.
  specialize (Hall j Hj). specialize (Hr' j Hj). unfold in_range, len in *.
  apply sorted_nth_mono; [exact Hl|lia|lia].
Qed.

Lemma repeat_idx_len_ones i n : repeat_idx i (repeat 1 n) = map (fun j => i + Z.of_nat j) (seq 0 n).
Proof.
  revert i. induction n as [|n IH]; intro i; simpl; [reflexivity|].
  change (Pos.to_nat 1) with 1%nat. simpl. f_equal; [lia|].
  rewrite IH, <- seq_shift, map_map. apply map_ext. intros; lia.
Qed.
Lemma repeat_idx_ones n : repeat_idx 0 (repeat 1 n) = zseq n.
Proof. rewrite repeat_idx_len_ones. unfold zseq. apply map_ext. intros; lia. Qed.

Lemma take_idx_zseq {A} (d : A) l : take_idx d l (zseq (length l)) = l.
Proof.
  unfold take_idx, zseq. rewrite map_map.
  apply nth_ext with (d := d) (d' := d).
  - now rewrite map_length, seq_length.
  - intros n Hn. rewrite map_length, seq_length in Hn.
    rewrite (nth_indep _ d (nth (Z.to_nat (Z.of_nat 0)) l d)) by (now rewrite map_length, seq_length).
    rewrite (map_nth (fun x => nth (Z.to_nat (Z.of_nat x)) l d) (seq 0 (length l)) 0%nat n).
    rewrite seq_nth by exact Hn. now rewrite Nat2Z.id.
Qed.
Lemma zseq_len n : len (zseq n) = Z.of_nat n.
Proof. unfold zseq, len. now rewrite map_length, seq_length. Qed.
Lemma zseq_range n : Forall (in_range (Z.of_nat n)) (zseq n).
Proof.
  unfold zseq, in_range. apply Forall_forall. intros x Hx. apply in_map_iff in Hx.
  destruct Hx as (j & <- & Hj). apply in_seq in Hj. lia.
Qed.
Lemma zseq_NoDup n : NoDup (zseq n).
Proof.
  unfold zseq. apply FinFun.Injective_map_NoDup; [|apply seq_NoDup]. intros a b. lia.
Qed.

(* ---------- the class / stratum size draws ---------- *)
Lemma fix_pos_neg_sum s k : fst (fix_pos_neg s k) + snd (fix_pos_neg s k) = nb_all_samples s.
Proof.
  unfold fix_pos_neg.
  destruct ((k =? 0) && (0 <? nb_all_pos s)); cbn beta iota;
  match goal with |- context [if ?c then _ else _] => destruct c end; cbn [fst snd]; lia.
Qed.
Lemma fix_hard_sum h n e : fst (fix_hard h n e) + snd (fix_hard h n e) = n.
Proof. unfold fix_hard. destruct ((n - e =? 0) && (0 <? h)); cbn [fst snd]; lia. Qed.

(* shape of the calls of the non-stratified branch *)
Lemma sample_counts_false_spec s h c h' calls :
  sample_counts s false h = Ok (c, h', calls) ->
  exists k ep en,
    calls = [DBinom (nb_all_samples s) (pos_neg_ratio s) k;
             DBinom (fst (fix_pos_neg s k)) (easy_pos_ratio s) ep;
             DBinom (snd (fix_pos_neg s k)) (easy_neg_ratio s) en] /\
    c = mkCounts (snd (fix_hard (nb_hard_pos s) (fst (fix_pos_neg s k)) ep))
                 (snd (fix_hard (nb_hard_neg s) (snd (fix_pos_neg s k)) en))
                 (fst (fix_hard (nb_hard_pos s) (fst (fix_pos_neg s k)) ep))
                 (fst (fix_hard (nb_hard_neg s) (snd (fix_pos_neg s k)) en)).
Proof.
  unfold sample_counts. intro H. minv.
  match goal with H : context [fix_pos_neg s ?k] |- _ => destruct (fix_pos_neg s k) as [nbp nbn] eqn:Ef end. minv.
  match goal with H : _ = Ok (c, h', _) |- _ => revert H end.
  match goal with |- context [fix_hard (nb_hard_pos s) ?b ?e] =>
    rewrite (surjective_pairing (fix_hard (nb_hard_pos s) b e)) end.
  match goal with |- context [fix_hard (nb_hard_neg s) ?b ?e] =>
    rewrite (surjective_pairing (fix_hard (nb_hard_neg s) b e)) end.
  cbn iota. intro Hr. minv. subst.
  repeat match goal with H : binomial _ _ _ = Ok _ |- _ => apply binomial_ok in H end. subst.
  exists a, a0, a1. rewrite Ef. cbn [fst snd app]. split; reflexivity.
Qed.
Lemma sample_counts_true_spec s h c h' calls :
  sample_counts s true h = Ok (c, h', calls) ->
  calls = [] /\ h' = h /\ c = mkCounts (easy_pos s) (easy_neg s) (nb_hard_pos s) (nb_hard_neg s).
Proof. unfold sample_counts. intro H. minv. auto. Qed.

Lemma sample_counts_total s bl h c h' calls :
  sample_counts s bl h = Ok (c, h', calls) ->
  c_easy_pos c + c_hard_pos c + (c_easy_neg c + c_hard_neg c) = nb_all_samples s.
Proof.
  destruct bl; intro H.
  - apply sample_counts_true_spec in H. destruct H as (_ & _ & ->). unfold nb_all_samples, nb_hard_pos, nb_hard_neg. simpl. lia.
  - apply sample_counts_false_spec in H. destruct H as (k & ep & en & _ & ->). simpl.
    pose proof (fix_pos_neg_sum s k).
    pose proof (fix_hard_sum (nb_hard_pos s) (fst (fix_pos_neg s k)) ep).
    pose proof (fix_hard_sum (nb_hard_neg s) (snd (fix_pos_neg s k)) en). lia.
Qed.

(* within NumPy's contract: sizes are non-negative and every non-empty class keeps a hard sample *)
Lemma sample_counts_bounds s bl h c h' calls :
  sample_counts s bl h = Ok (c, h', calls) -> Forall draw_ok calls ->
  0 <= easy_pos s -> 0 <= easy_neg s ->
  0 <= c_easy_pos c /\ 0 <= c_easy_neg c /\ 0 <= c_hard_pos c /\ 0 <= c_hard_neg c /\
  (0 < len (pos s) -> 1 <= c_hard_pos c) /\ (0 < len (neg s) -> 1 <= c_hard_neg c).
Proof.
  destruct bl; intros H Hok Hep Hen.
  - apply sample_counts_true_spec in H. destruct H as (_ & _ & ->). unfold nb_hard_pos, nb_hard_neg. simpl.
    pose proof (len_nonneg (pos s)). pose proof (len_nonneg (neg s)). lia.
  - apply sample_counts_false_spec in H. destruct H as (k & ep & en & -> & ->).
    inversion Hok as [|? ? H1 Hok1]; subst. inversion Hok1 as [|? ? H2 Hok2]; subst.
    inversion Hok2 as [|? ? H3 _]; subst. clear Hok Hok1 Hok2.
    destruct H1 as (H1 & _ & _). destruct H2 as (H2 & _ & _). destruct H3 as (H3 & _ & _).
    pose proof (len_nonneg (pos s)) as Lp. pose proof (len_nonneg (neg s)) as Ln.
    revert H2 H3. unfold fix_pos_neg, fix_hard, nb_all_samples, nb_all_pos, nb_all_neg, nb_hard_pos, nb_hard_neg in *.
    cbn [c_easy_pos c_easy_neg c_hard_pos c_hard_neg].
    repeat (match goal with
    | |- context [(?a =? ?b)] => let E := fresh "E" in destruct (Z.eqb_spec a b) as [E|E]
    | |- context [(?a <? ?b)] => let E := fresh "E" in destruct (Z.ltb_spec a b) as [E|E]
    end; cbn [andb fst snd] in *); intros; lia.
Qed.

(* ---------- _sample_indices: shape of result and calls ---------- *)
Lemma sample_indices_repl_spec s bl h r h' calls :
  sample_indices s bl false h = Ok (r, h', calls) ->
  exists cn h1 calls1 pi ni,
    sample_counts s bl h = Ok (cn, h1, calls1) /\
    calls = calls1 ++ [DChoice (nb_hard_pos s) (c_hard_pos cn) pi; DChoice (nb_hard_neg s) (c_hard_neg cn) ni] /\
    r = mkSidx pi ni (c_easy_pos cn) (c_easy_neg cn).
Proof.
  unfold sample_indices. intro H. minv. subst.
  repeat match goal with H : choice _ _ _ = Ok _ |- _ => apply choice_ok in H end. subst.
  do 5 eexists. split; [eassumption|]. split; reflexivity.
Qed.

(* the single-pass at-least-one correction: ks' is ks, or ks with one entry set to 1 when ks is all zero;
   c is the extra call made *)
Definition fixup_of (n : Z) (ks ks' : list Z) (c : list draw) : Prop :=
  (all_zero ks = false /\ ks' = ks /\ c = []) \/
  (all_zero ks = true /\ exists i, ks' = set_at (Z.to_nat i) 1 ks /\ c = [DChoice1 n i]).
Lemma fix_empty_spec n ks h ks' h2 c : fix_empty n ks h = Ok (ks', h2, c) -> fixup_of n ks ks' c.
Proof.
  unfold fix_empty, fixup_of. destruct (all_zero ks); intro H; minv; subst.
  - right. split; [reflexivity|]. match goal with H : choice1 _ _ = Ok _ |- _ => apply choice1_ok in H end. subst.
    eexists. rewrite app_nil_r. split; reflexivity.
  - left. auto.
Qed.
Lemma fixup_is_fixup n ks ks' c : fixup_of n ks ks' c -> Forall is_fixup c.
Proof. intros [(_ & _ & ->)|(_ & i & _ & ->)]; repeat constructor. Qed.

Lemma sample_indices_sp_spec s bl h r h' calls :
  sample_indices s bl true h = Ok (r, h', calls) ->
  exists cn h1 calls1 ks1 ks2 ks1' ks2' c1 c2,
    sample_counts s bl h = Ok (cn, h1, calls1) /\ nb_hard_pos s <> 0 /\ nb_hard_neg s <> 0 /\
    calls = calls1 ++ [sp_call (nb_hard_pos s) (c_hard_pos cn) ks1; sp_call (nb_hard_neg s) (c_hard_neg cn) ks2]
                   ++ (c1 ++ c2) /\
    fixup_of (nb_hard_pos s) ks1 ks1' c1 /\ fixup_of (nb_hard_neg s) ks2 ks2' c2 /\
    r = mkSidx (repeat_idx 0 ks1') (repeat_idx 0 ks2') (c_easy_pos cn) (c_easy_neg cn).
Proof.
  unfold sample_indices. intro H. minv. subst.
  repeat match goal with H : one_over _ _ = Ok _ |- _ => apply one_over_ok in H; destruct H as (? & ? & ? & ?) end. subst.
  repeat match goal with H : single_pass_sampling _ _ _ _ = Ok _ |- _ => apply single_pass_sampling_ok in H end. subst.
  repeat match goal with H : fix_empty _ _ _ = Ok _ |- _ => apply fix_empty_spec in H end.
  do 9 eexists. split; [eassumption|]. split; [assumption|]. split; [assumption|].
  split; [|split; [eassumption|split; [eassumption|reflexivity]]].
  cbn [app]. rewrite app_nil_r. reflexivity.
Qed.

(* ---------- Scores.__init__ ---------- *)
Lemma mk_scores_flags p n ep en sc ec srt :
  score_class (mk_scores p n ep en sc ec srt) = sc /\ equal_class (mk_scores p n ep en sc ec srt) = ec /\
  easy_pos (mk_scores p n ep en sc ec srt) = ep /\ easy_neg (mk_scores p n ep en sc ec srt) = en.
Proof. unfold mk_scores. destruct srt; simpl; auto. Qed.
Lemma mk_scores_unsorted_wf p n ep en sc ec : wf (mk_scores p n ep en sc ec false).
Proof. unfold mk_scores, wf. simpl. split; apply isort_sorted. Qed.
Lemma mk_scores_perm p n ep en sc ec srt :
  Permutation (pos (mk_scores p n ep en sc ec srt)) p /\ Permutation (neg (mk_scores p n ep en sc ec srt)) n.
Proof.
  unfold mk_scores. destruct srt; simpl; split; try apply Permutation_refl; apply Permutation_sym, isort_perm.
Qed.
Lemma perm_len {A} (l l' : list A) : Permutation l l' -> len l = len l'.
Proof. intro H. unfold len. now rewrite (Permutation_length H). Qed.
Lemma mk_scores_len p n ep en sc ec srt :
  len (pos (mk_scores p n ep en sc ec srt)) = len p /\ len (neg (mk_scores p n ep en sc ec srt)) = len n.
Proof. destruct (mk_scores_perm p n ep en sc ec srt) as [H1 H2]. split; now apply perm_len. Qed.

Lemma add_noise_len xs es : len es = len xs -> len (add_noise xs es) = len xs.
Proof.
  unfold len. revert es. induction xs as [|x r IH]; intros [|e er] H; simpl in *; try lia.
  specialize (IH er). lia.
Qed.

(* ---------- bootstrap_sample, per resolved method ---------- *)

Lemma resolve_not_callable s c : not_callable c -> match resolve_method s c with MCallable _ => False | _ => True end.
Proof.
  unfold not_callable, resolve_method. destruct (sampling_method c); auto.
  destruct ((nb_hard_pos s <? SINGLE_PASS_SAMPLE_THRESHOLD) || (nb_hard_neg s <? SINGLE_PASS_SAMPLE_THRESHOLD) || smoothing c); auto.
Qed.
Lemma resolve_not_dynamic s c : resolve_method s c <> MDynamic.
Proof.
  unfold resolve_method. destruct (sampling_method c); try discriminate.
  destruct ((nb_hard_pos s <? SINGLE_PASS_SAMPLE_THRESHOLD) || (nb_hard_neg s <? SINGLE_PASS_SAMPLE_THRESHOLD) || smoothing c); discriminate.
Qed.

Lemma bs_replacement_spec c s h b rest calls :
  resolve_method s c = MReplacement -> bootstrap_sample c s h = Ok (b, rest, calls) ->
  exists r h1 calls1,
    sample_indices s (is_by_label c) false h = Ok (r, h1, calls1) /\
    ((smoothing c = false /\ calls = calls1 /\
      b = mk_scores (take_idx 0%Q (pos s) (pos_idx r)) (take_idx 0%Q (neg s) (neg_idx r))
                    (s_easy_pos r) (s_easy_neg r) (score_class s) (equal_class s) false) \/
     (smoothing c = true /\ exists ep en,
      calls = calls1 ++ [DNormal (len (pos_idx r)) ep; DNormal (len (neg_idx r)) en] /\
      b = mk_scores (add_noise (take_idx 0%Q (pos s) (pos_idx r)) ep) (add_noise (take_idx 0%Q (neg s) (neg_idx r)) en)
                    (s_easy_pos r) (s_easy_neg r) (score_class s) (equal_class s) false)).
Proof.
  intros Hr H. unfold bootstrap_sample in H. rewrite Hr in H. minv.
  destruct (smoothing c) eqn:Es; minv; subst.
  - repeat match goal with H : normal _ _ = Ok _ |- _ => apply normal_ok in H end. subst.
    do 3 eexists. split; [eassumption|]. right. split; [reflexivity|].
    rewrite !take_idx_len. do 2 eexists. split; reflexivity.
  - do 3 eexists. split; [eassumption|]. left. rewrite app_nil_r. auto.
Qed.

Lemma bs_single_pass_spec c s h b rest calls :
  resolve_method s c = MSinglePass -> bootstrap_sample c s h = Ok (b, rest, calls) ->
  exists r h1,
    sample_indices s (is_by_label c) true h = Ok (r, h1, calls) /\ smoothing c = false /\
    b = mk_scores (take_idx 0%Q (pos s) (pos_idx r)) (take_idx 0%Q (neg s) (neg_idx r))
                  (s_easy_pos r) (s_easy_neg r) (score_class s) (equal_class s) true.
Proof.
  intros Hr H. unfold bootstrap_sample in H. rewrite Hr in H. minv.
  destruct (smoothing c) eqn:Es; minv; subst.
  do 2 eexists. rewrite app_nil_r. split; [eassumption|]. auto.
Qed.

Lemma bs_proportion_spec c s h b rest calls :
  resolve_method s c = MProportion -> bootstrap_sample c s h = Ok (b, rest, calls) ->
  exists rt pi ni,
    ratio c = Some rt /\
    calls = [DChoiceNoRepl (len (pos s)) (proportion_size rt (len (pos s))) pi;
             DChoiceNoRepl (len (neg s)) (proportion_size rt (len (neg s))) ni] /\
    b = mk_scores (take_idx 0%Q (pos s) pi) (take_idx 0%Q (neg s) ni)
                  (Qtrunc (rt * inject_Z (easy_pos s))) (Qtrunc (rt * inject_Z (easy_neg s)))
                  (score_class s) (equal_class s) false.
Proof.
  intros Hr H. unfold bootstrap_sample in H. rewrite Hr in H.
  destruct (ratio c) as [rt|]; minv. subst.
  repeat match goal with H : choice_norepl _ _ _ = Ok _ |- _ => apply choice_norepl_ok in H end. subst.
  exists rt. do 2 eexists. split; [reflexivity|]. split; reflexivity.
Qed.

Lemma Forall_app_l {A} (P : A -> Prop) l1 l2 : Forall P (l1 ++ l2) -> Forall P l1.
Proof. rewrite Forall_app. tauto. Qed.
Lemma Forall_app_r {A} (P : A -> Prop) l1 l2 : Forall P (l1 ++ l2) -> Forall P l2.
Proof. rewrite Forall_app. tauto. Qed.
Lemma Forall_two {A} (P : A -> Prop) a b : Forall P [a; b] -> P a /\ P b.
Proof. intro H. inversion H as [|? ? Ha H']; subst. inversion H'; subst. auto. Qed.

(* the four cases a built-in method can resolve to *)
Lemma resolve_cases s c h b rest calls :
  not_callable c -> bootstrap_sample c s h = Ok (b, rest, calls) ->
  resolve_method s c = MReplacement \/ resolve_method s c = MSinglePass \/ resolve_method s c = MProportion.
Proof.
  intros Hn H. pose proof (resolve_not_callable s c Hn) as Hc. unfold bootstrap_sample in H.
  destruct (resolve_method s c); auto; try (exfalso; exact (raise_ok _ _ _ H)); contradiction.
Qed.

(* ---- flags ---- *)
Theorem bs_flags c s h b rest calls :
  not_callable c -> bootstrap_sample c s h = Ok (b, rest, calls) ->
  score_class b = score_class s /\ equal_class b = equal_class s.
Proof.
  intros Hn H. destruct (resolve_cases _ _ _ _ _ _ Hn H) as [Hr|[Hr|Hr]].
  - destruct (bs_replacement_spec _ _ _ _ _ _ Hr H) as (r & h1 & c1 & _ & [(_ & _ & ->)|(_ & ep & en & _ & ->)]);
      split; apply mk_scores_flags.
  - destruct (bs_single_pass_spec _ _ _ _ _ _ Hr H) as (r & h1 & _ & _ & ->). split; apply mk_scores_flags.
  - destruct (bs_proportion_spec _ _ _ _ _ _ Hr H) as (rt & pi & ni & _ & _ & ->). split; apply mk_scores_flags.
Qed.

(* ---- index draws are in range (within contract) ---- *)
Lemma repl_idx_ok s bl h r h1 calls :
  sample_indices s bl false h = Ok (r, h1, calls) -> Forall draw_ok calls ->
  exists cn h0 calls0, sample_counts s bl h = Ok (cn, h0, calls0) /\ Forall draw_ok calls0 /\
    len (pos_idx r) = c_hard_pos cn /\ len (neg_idx r) = c_hard_neg cn /\
    Forall (in_range (len (pos s))) (pos_idx r) /\ Forall (in_range (len (neg s))) (neg_idx r) /\
    s_easy_pos r = c_easy_pos cn /\ s_easy_neg r = c_easy_neg cn.
Proof.
  intros H Hok. destruct (sample_indices_repl_spec _ _ _ _ _ _ H) as (cn & h0 & calls0 & pi & ni & Hc & -> & ->).
  exists cn, h0, calls0. split; [exact Hc|]. split; [eapply Forall_app_l; eauto|].
  apply Forall_app_r, Forall_two in Hok. destruct Hok as [[L1 R1] [L2 R2]]. simpl. auto 10.
Qed.

Lemma repeat_idx_in_range ks : Forall (in_range (len ks)) (repeat_idx 0 ks).
Proof. eapply Forall_impl; [|apply repeat_idx_range]. unfold in_range. simpl. intros; lia. Qed.

Lemma sp_call_len size n ks : draw_ok (sp_call size n ks) -> len ks = size.
Proof. unfold sp_call. destruct (n <? 100); simpl; tauto. Qed.

Lemma sp_call_nonneg size n ks : draw_ok (sp_call size n ks) -> Forall (fun k => 0 <= k) ks.
Proof.
  unfold sp_call. destruct (n <? 100); simpl; intros [_ H]; [|exact H].
  eapply Forall_impl; [|exact H]. simpl. intros; lia.
Qed.
Lemma set_at_len i v ks : len (set_at i v ks) = len ks.
Proof.
  unfold len. f_equal. revert i. induction ks as [|k r IH]; intros [|i]; simpl; auto.
Qed.
Lemma repeat_idx_nonempty i ks :
  all_zero ks = false -> Forall (fun k => 0 <= k) ks -> 1 <= len (repeat_idx i ks).
Proof.
  revert i. induction ks as [|k r IH]; intros i Hz Hn; [discriminate|].
  inversion Hn as [|? ? Hk Hr]; subst. simpl in Hz. simpl repeat_idx. rewrite len_app.
  pose proof (len_nonneg (repeat_idx (i + 1) r)). pose proof (len_nonneg (repeat i (Z.to_nat k))).
  destruct (Z.eqb_spec 0 k) as [<-|Hk0].
  - simpl in Hz. specialize (IH (i + 1) Hz Hr). lia.
  - unfold len at 1. rewrite repeat_length. lia.
Qed.
Lemma repeat_idx_set_nonempty i j ks : (j < length ks)%nat -> 1 <= len (repeat_idx i (set_at j 1 ks)).
Proof.
  revert i j. induction ks as [|k r IH]; intros i j Hj; simpl in Hj; [lia|].
  destruct j as [|j]; cbn [set_at repeat_idx]; rewrite len_app.
  - pose proof (len_nonneg (repeat_idx (i + 1) r)). change (Z.to_nat 1) with 1%nat. unfold len at 1. cbn [repeat length]. lia.
  - pose proof (len_nonneg (repeat i (Z.to_nat k))). specialize (IH (i + 1) j ltac:(lia)). lia.
Qed.
Lemma fixup_len n ks ks' c : fixup_of n ks ks' c -> len ks' = len ks.
Proof. intros [(_ & -> & _)|(_ & i & -> & _)]; [reflexivity|apply set_at_len]. Qed.
Lemma fixup_nonempty ks ks' c i0 :
  fixup_of (len ks) ks ks' c -> Forall draw_ok c -> Forall (fun k => 0 <= k) ks -> 1 <= len (repeat_idx i0 ks').
Proof.
  intros [(Hz & -> & _)|(_ & i & -> & ->)] Hok Hn.
  - now apply repeat_idx_nonempty.
  - inversion Hok as [|? ? Hi _]; subst. simpl in Hi. unfold in_range, len in Hi.
    apply repeat_idx_set_nonempty. lia.
Qed.

Lemma sp_idx_ok s bl h r h1 calls :
  sample_indices s bl true h = Ok (r, h1, calls) -> Forall draw_ok calls ->
  exists cn h0 calls0 ks1 ks2, sample_counts s bl h = Ok (cn, h0, calls0) /\ Forall draw_ok calls0 /\
    pos_idx r = repeat_idx 0 ks1 /\ neg_idx r = repeat_idx 0 ks2 /\ len ks1 = len (pos s) /\ len ks2 = len (neg s) /\
    0 < len (pos s) /\ 0 < len (neg s) /\
    s_easy_pos r = c_easy_pos cn /\ s_easy_neg r = c_easy_neg cn /\
    1 <= len (pos_idx r) /\ 1 <= len (neg_idx r).
Proof.
  intros H Hok.
  destruct (sample_indices_sp_spec _ _ _ _ _ _ H)
    as (cn & h0 & calls0 & ks1 & ks2 & ks1' & ks2' & c1 & c2 & Hc & Np & Nn & -> & F1 & F2 & ->).
  exists cn, h0, calls0, ks1', ks2'. split; [exact Hc|]. split; [eapply Forall_app_l; eauto|].
  apply Forall_app_r in Hok. pose proof (Forall_app_r _ _ _ Hok) as Hfix. apply Forall_app_l, Forall_two in Hok.
  destruct Hok as [O1 O2]. pose proof (sp_call_nonneg _ _ _ O1) as N1. pose proof (sp_call_nonneg _ _ _ O2) as N2.
  apply sp_call_len in O1, O2. unfold nb_hard_pos, nb_hard_neg in *.
  pose proof (fixup_len _ _ _ _ F1) as L1. pose proof (fixup_len _ _ _ _ F2) as L2.
  rewrite <- O1 in F1. rewrite <- O2 in F2.
  pose proof (fixup_nonempty _ _ _ 0 F1 (Forall_app_l _ _ _ Hfix) N1).
  pose proof (fixup_nonempty _ _ _ 0 F2 (Forall_app_r _ _ _ Hfix) N2).
  pose proof (len_nonneg (pos s)). pose proof (len_nonneg (neg s)). cbn [pos_idx neg_idx s_easy_pos s_easy_neg].
  repeat split; auto; lia.
Qed.

(* ---- membership (smoothing off) ---- *)
Theorem bs_membership c s h b rest calls :
  not_callable c -> smoothing c = false ->
  bootstrap_sample c s h = Ok (b, rest, calls) -> Forall draw_ok calls ->
  incl (pos b) (pos s) /\ incl (neg b) (neg s).
Proof.
  intros Hn Hs H Hok. destruct (resolve_cases _ _ _ _ _ _ Hn H) as [Hr|[Hr|Hr]].
  - destruct (bs_replacement_spec _ _ _ _ _ _ Hr H) as (r & h1 & c1 & Hi & [(_ & -> & ->)|(Hs' & _)]); [|congruence].
    destruct (repl_idx_ok _ _ _ _ _ _ Hi Hok) as (cn & h0 & c0 & _ & _ & _ & _ & Rp & Rn & _).
    destruct (mk_scores_perm (take_idx 0%Q (pos s) (pos_idx r)) (take_idx 0%Q (neg s) (neg_idx r))
                (s_easy_pos r) (s_easy_neg r) (score_class s) (equal_class s) false) as [Pp Pn].
    split; intros x Hx.
    + apply (take_idx_incl 0%Q (pos s) _ Rp). eapply Permutation_in; eauto.
    + apply (take_idx_incl 0%Q (neg s) _ Rn). eapply Permutation_in; eauto.
  - destruct (bs_single_pass_spec _ _ _ _ _ _ Hr H) as (r & h1 & Hi & _ & ->).
    destruct (sp_idx_ok _ _ _ _ _ _ Hi Hok) as (cn & h0 & c0 & ks1 & ks2 & _ & _ & E1 & E2 & L1 & L2 & _).
    unfold mk_scores. simpl. rewrite E1, E2. split; apply take_idx_incl.
    + rewrite <- L1. apply repeat_idx_in_range.
    + rewrite <- L2. apply repeat_idx_in_range.
  - destruct (bs_proportion_spec _ _ _ _ _ _ Hr H) as (rt & pi & ni & _ & -> & ->).
    apply Forall_two in Hok. destruct Hok as [(_ & Rp & _) (_ & Rn & _)].
    destruct (mk_scores_perm (take_idx 0%Q (pos s) pi) (take_idx 0%Q (neg s) ni)
                (Qtrunc (rt * inject_Z (easy_pos s))) (Qtrunc (rt * inject_Z (easy_neg s)))
                (score_class s) (equal_class s) false) as [Pp Pn].
    split; intros x Hx.
    + apply (take_idx_incl 0%Q (pos s) _ Rp). eapply Permutation_in; eauto.
    + apply (take_idx_incl 0%Q (neg s) _ Rn). eapply Permutation_in; eauto.
Qed.

(* ---- the sample is sorted; single pass: this is what justifies is_sorted=True ---- *)
Theorem bs_wf c s h b rest calls :
  not_callable c -> wf s ->
  bootstrap_sample c s h = Ok (b, rest, calls) -> Forall draw_ok calls -> wf b.
Proof.
  intros Hn [Wp Wn] H Hok. destruct (resolve_cases _ _ _ _ _ _ Hn H) as [Hr|[Hr|Hr]].
  - destruct (bs_replacement_spec _ _ _ _ _ _ Hr H) as (r & h1 & c1 & _ & [(_ & _ & ->)|(_ & ep & en & _ & ->)]);
      apply mk_scores_unsorted_wf.
  - destruct (bs_single_pass_spec _ _ _ _ _ _ Hr H) as (r & h1 & Hi & _ & ->).
    destruct (sp_idx_ok _ _ _ _ _ _ Hi Hok) as (cn & h0 & c0 & ks1 & ks2 & _ & _ & E1 & E2 & L1 & L2 & _).
    unfold mk_scores, wf. simpl. rewrite E1, E2. split; apply take_idx_sorted; auto using repeat_idx_sorted.
    + rewrite <- L1. apply repeat_idx_in_range.
    + rewrite <- L2. apply repeat_idx_in_range.
  - destruct (bs_proportion_spec _ _ _ _ _ _ Hr H) as (rt & pi & ni & _ & _ & ->). apply mk_scores_unsorted_wf.
Qed.

(* ---- replacement: total count, strata, non-empty classes ---- *)
Lemma bs_replacement_sizes c s h b rest calls :
  resolve_method s c = MReplacement ->
  bootstrap_sample c s h = Ok (b, rest, calls) -> Forall draw_ok calls ->
  exists cn h0 calls0, sample_counts s (is_by_label c) h = Ok (cn, h0, calls0) /\ Forall draw_ok calls0 /\
    len (pos b) = c_hard_pos cn /\ len (neg b) = c_hard_neg cn /\
    easy_pos b = c_easy_pos cn /\ easy_neg b = c_easy_neg cn.
Proof.
  intros Hr H Hok.
  destruct (bs_replacement_spec _ _ _ _ _ _ Hr H) as (r & h1 & c1 & Hi & [(_ & -> & ->)|(_ & ep & en & -> & ->)]).
  - destruct (repl_idx_ok _ _ _ _ _ _ Hi Hok) as (cn & h0 & c0 & Hc & Ok0 & Lp & Ln & _ & _ & Ep & En).
    exists cn, h0, c0. split; [exact Hc|]. split; [exact Ok0|].
    match goal with |- context [mk_scores ?p ?n ?a ?b ?sc ?ec ?f] =>
      destruct (mk_scores_len p n a b sc ec f) as [-> ->]; destruct (mk_scores_flags p n a b sc ec f) as (_ & _ & -> & ->) end.
    rewrite !take_idx_len. auto.
  - pose proof (Forall_app_l _ _ _ Hok) as Hok1. apply Forall_app_r, Forall_two in Hok. destruct Hok as [N1 N2]. simpl in N1, N2.
    destruct (repl_idx_ok _ _ _ _ _ _ Hi Hok1) as (cn & h0 & c0 & Hc & Ok0 & Lp & Ln & _ & _ & Ep & En).
    exists cn, h0, c0. split; [exact Hc|]. split; [exact Ok0|].
    match goal with |- context [mk_scores ?p ?n ?a ?b ?sc ?ec ?f] =>
      destruct (mk_scores_len p n a b sc ec f) as [-> ->]; destruct (mk_scores_flags p n a b sc ec f) as (_ & _ & -> & ->) end.
    rewrite !add_noise_len by (now rewrite take_idx_len). rewrite !take_idx_len. auto.
Qed.

Theorem bs_replacement_total c s h b rest calls :
  resolve_method s c = MReplacement ->
  bootstrap_sample c s h = Ok (b, rest, calls) -> Forall draw_ok calls ->
  len (pos b) + len (neg b) + (easy_pos b + easy_neg b) = nb_all_samples s.
Proof.
  intros Hr H Hok. destruct (bs_replacement_sizes _ _ _ _ _ _ Hr H Hok) as (cn & h0 & c0 & Hc & _ & -> & -> & -> & ->).
  pose proof (sample_counts_total _ _ _ _ _ _ Hc). lia.
Qed.

Theorem bs_replacement_by_label c s h b rest calls :
  resolve_method s c = MReplacement -> stratified_sampling c = SByLabel ->
  bootstrap_sample c s h = Ok (b, rest, calls) -> Forall draw_ok calls ->
  len (pos b) = len (pos s) /\ len (neg b) = len (neg s) /\ easy_pos b = easy_pos s /\ easy_neg b = easy_neg s.
Proof.
  intros Hr Hs H Hok. destruct (bs_replacement_sizes _ _ _ _ _ _ Hr H Hok) as (cn & h0 & c0 & Hc & _ & -> & -> & -> & ->).
  unfold is_by_label in Hc. rewrite Hs in Hc. apply sample_counts_true_spec in Hc. destruct Hc as (_ & _ & ->). simpl. auto.
Qed.

Theorem bs_replacement_nonempty c s h b rest calls :
  resolve_method s c = MReplacement -> 0 <= easy_pos s -> 0 <= easy_neg s ->
  bootstrap_sample c s h = Ok (b, rest, calls) -> Forall draw_ok calls ->
  (0 < len (pos s) -> 1 <= len (pos b)) /\ (0 < len (neg s) -> 1 <= len (neg b)) /\
  0 <= easy_pos b /\ 0 <= easy_neg b.
Proof.
  intros Hr Ep En H Hok. destruct (bs_replacement_sizes _ _ _ _ _ _ Hr H Hok) as (cn & h0 & c0 & Hc & Ok0 & -> & -> & -> & ->).
  pose proof (sample_counts_bounds _ _ _ _ _ _ Hc Ok0 Ep En). tauto.
Qed.

(* ---- single pass, by_label: easy strata exact ---- *)
Theorem bs_single_pass_by_label_easy c s h b rest calls :
  resolve_method s c = MSinglePass -> stratified_sampling c = SByLabel ->
  bootstrap_sample c s h = Ok (b, rest, calls) ->
  easy_pos b = easy_pos s /\ easy_neg b = easy_neg s.
Proof.
  intros Hr Hs H. destruct (bs_single_pass_spec _ _ _ _ _ _ Hr H) as (r & h1 & Hi & _ & ->).
  destruct (sample_indices_sp_spec _ _ _ _ _ _ Hi) as (cn & h0 & c0 & ks1 & ks2 & ks1' & ks2' & c1 & c2 & Hc & _ & _ & _ & _ & _ & ->).
  unfold is_by_label in Hc. rewrite Hs in Hc. apply sample_counts_true_spec in Hc. destruct Hc as (_ & _ & ->).
  unfold mk_scores. simpl. auto.
Qed.

(* ---- proportion ---- *)
Theorem bs_proportion c s h b rest calls rt :
  resolve_method s c = MProportion -> ratio c = Some rt ->
  bootstrap_sample c s h = Ok (b, rest, calls) -> Forall draw_ok calls ->
  len (pos b) = proportion_size rt (len (pos s)) /\ len (neg b) = proportion_size rt (len (neg s)) /\
  easy_pos b = Qtrunc (rt * inject_Z (easy_pos s)) /\ easy_neg b = Qtrunc (rt * inject_Z (easy_neg s)) /\
  1 <= len (pos b) /\ 1 <= len (neg b) /\
  exists pi ni, NoDup pi /\ NoDup ni /\ Forall (in_range (len (pos s))) pi /\ Forall (in_range (len (neg s))) ni /\
    Permutation (pos b) (take_idx 0%Q (pos s) pi) /\ Permutation (neg b) (take_idx 0%Q (neg s) ni).
Proof.
  intros Hr Hrt H Hok. destruct (bs_proportion_spec _ _ _ _ _ _ Hr H) as (rt' & pi & ni & Hrt' & -> & ->).
  assert (rt' = rt) by congruence. subst rt'.
  apply Forall_two in Hok. destruct Hok as [(Lp & Rp & Dp) (Ln & Rn & Dn)].
  match goal with |- context [mk_scores ?p ?n ?a ?b ?sc ?ec ?f] =>
    destruct (mk_scores_len p n a b sc ec f) as [E1 E2]; destruct (mk_scores_flags p n a b sc ec f) as (_ & _ & E3 & E4);
    destruct (mk_scores_perm p n a b sc ec f) as [P1 P2] end.
  rewrite E1, E2, E3, E4, !take_idx_len, Lp, Ln.
  repeat split; auto; try (unfold proportion_size; lia).
  exists pi, ni. auto 10.
Qed.

(* ---- single pass: at least one scored sample per class (after the repair of the multiplicities) ---- *)
Theorem bs_single_pass_nonempty c s h b rest calls :
  resolve_method s c = MSinglePass ->
  bootstrap_sample c s h = Ok (b, rest, calls) -> Forall draw_ok calls ->
  1 <= len (pos b) /\ 1 <= len (neg b) /\ 0 < len (pos s) /\ 0 < len (neg s).
Proof.
  intros Hr H Hok. destruct (bs_single_pass_spec _ _ _ _ _ _ Hr H) as (r & h1 & Hi & _ & ->).
  destruct (sp_idx_ok _ _ _ _ _ _ Hi Hok) as (cn & h0 & c0 & ks1 & ks2 & _ & _ & _ & _ & _ & _ & Pp & Pn & _ & _ & N1 & N2).
  unfold mk_scores. cbn [pos neg]. rewrite !take_idx_len. auto.
Qed.

(* ---------- rational facts about the ratios handed to the generator ---------- *)
Lemma injZ_neq0 n : n <> 0 -> ~ (inject_Z n == 0)%Q.
Proof. intros Hn H. apply Hn. unfold Qeq in H. simpl in H. lia. Qed.
Lemma injZ_pos n : 0 < n -> (0 < inject_Z n)%Q.
Proof. intro H. change 0%Q with (inject_Z 0). now rewrite <- Zlt_Qlt. Qed.

Lemma frac_bounds a b : 0 <= a <= b -> 0 < b -> (0 <= inject_Z a / inject_Z b /\ inject_Z a / inject_Z b <= 1)%Q.
Proof.
  intros [Ha Hab] Hb. pose proof (injZ_pos b Hb) as Pb. split.
  - apply Qle_shift_div_l; [exact Pb|]. rewrite Qmult_0_l. change 0%Q with (inject_Z 0). now rewrite <- Zle_Qle.
  - apply Qle_shift_div_r; [exact Pb|]. rewrite Qmult_1_l. now rewrite <- Zle_Qle.
Qed.
Lemma frac_eq0 a b : 0 < b -> (inject_Z a / inject_Z b == 0)%Q -> a = 0.
Proof.
  intros Hb H. assert (E : (inject_Z a == 0)%Q).
  { setoid_replace (inject_Z a) with (inject_Z a / inject_Z b * inject_Z b)%Q by (field; apply injZ_neq0; lia).
    rewrite H. ring. }
  unfold Qeq in E. simpl in E. lia.
Qed.
Lemma frac_eq1 a b : 0 < b -> (inject_Z a / inject_Z b == 1)%Q -> a = b.
Proof.
  intros Hb H. assert (E : (inject_Z a == inject_Z b)%Q).
  { setoid_replace (inject_Z a) with (inject_Z a / inject_Z b * inject_Z b)%Q by (field; apply injZ_neq0; lia).
    rewrite H. ring. }
  unfold Qeq in E. simpl in E. lia.
Qed.

Lemma easy_ratio_eq hard easy : 0 <= easy -> 0 <= hard -> 0 < hard + easy ->
  (1 - hard_ratio_of hard easy == inject_Z easy / inject_Z (hard + easy))%Q.
Proof.
  intros He Hh Hs. unfold hard_ratio_of. destruct (Z.ltb_spec 0 easy) as [E|E].
  - rewrite inject_Z_plus. field. rewrite <- inject_Z_plus. apply injZ_neq0. lia.
  - assert (easy = 0) by lia. subst. change (inject_Z 0) with 0%Q. field. apply injZ_neq0. lia.
Qed.

(* ---------- C11 mean parameters ---------- *)
Theorem mean_parameters_counts s h c h' calls :
  sample_counts s false h = Ok (c, h', calls) -> 0 <= easy_pos s -> 0 <= easy_neg s ->
  exists k ep en d1 d2 d3,
    calls = [d1; d2; d3] /\
    d1 = DBinom (nb_all_samples s) (pos_neg_ratio s) k /\
    d2 = DBinom (fst (fix_pos_neg s k)) (easy_pos_ratio s) ep /\
    d3 = DBinom (snd (fix_pos_neg s k)) (easy_neg_ratio s) en /\
    (0 < nb_all_samples s -> (draw_mean d1 == inject_Z (nb_all_pos s))%Q) /\
    (0 < nb_all_pos s ->
       (draw_mean d2 == inject_Z (fst (fix_pos_neg s k)) * (inject_Z (easy_pos s) / inject_Z (nb_all_pos s)))%Q) /\
    (0 < nb_all_neg s ->
       (draw_mean d3 == inject_Z (snd (fix_pos_neg s k)) * (inject_Z (easy_neg s) / inject_Z (nb_all_neg s)))%Q).
Proof.
  intros H Ep En. apply sample_counts_false_spec in H. destruct H as (k & ep & en & -> & _).
  exists k, ep, en. do 3 eexists. split; [reflexivity|]. split; [reflexivity|]. split; [reflexivity|]. split; [reflexivity|].
  pose proof (len_nonneg (pos s)) as Lp. pose proof (len_nonneg (neg s)) as Ln.
  simpl draw_mean. repeat split.
  - intro HN. unfold pos_neg_ratio. destruct (Z.ltb_spec 0 (nb_all_samples s)); [|lia].
    field. apply injZ_neq0. lia.
  - intro HP. unfold easy_pos_ratio, hard_pos_ratio, nb_all_pos in *.
    rewrite easy_ratio_eq by lia. rewrite (Z.add_comm (len (pos s)) (easy_pos s)). reflexivity.
  - intro HP. unfold easy_neg_ratio, hard_neg_ratio, nb_all_neg in *.
    rewrite easy_ratio_eq by lia. rewrite (Z.add_comm (len (neg s)) (easy_neg s)). reflexivity.
Qed.

Lemma sp_call_mean size n ks : size <> 0 -> (draw_mean (sp_call size n ks) == inject_Z n / inject_Z size)%Q.
Proof.
  intro Hs. unfold sp_call. destruct (n <? 100); simpl; field; now apply injZ_neq0.
Qed.

Theorem mean_parameters_index s bl sp h r h' calls :
  sample_indices s bl sp h = Ok (r, h', calls) -> 0 < len (pos s) -> 0 < len (neg s) ->
  exists cn h1 calls1 dp dn,
    sample_counts s bl h = Ok (cn, h1, calls1) /\
    (exists extra, calls = calls1 ++ [dp; dn] ++ extra /\ Forall is_fixup extra /\ (sp = false -> extra = [])) /\
    (draw_mean dp == inject_Z (c_hard_pos cn) / inject_Z (len (pos s)))%Q /\
    (draw_mean dn == inject_Z (c_hard_neg cn) / inject_Z (len (neg s)))%Q /\
    (bl = true -> (draw_mean dp == 1)%Q /\ (draw_mean dn == 1)%Q).
Proof.
  intros H Lp Ln.
  assert (Hbl : forall cn h1 calls1, sample_counts s bl h = Ok (cn, h1, calls1) -> bl = true ->
                c_hard_pos cn = len (pos s) /\ c_hard_neg cn = len (neg s)).
  { intros cn h1 calls1 Hc ->. apply sample_counts_true_spec in Hc. destruct Hc as (_ & _ & ->). auto. }
  assert (One : forall n, 0 < n -> (inject_Z n / inject_Z n == 1)%Q).
  { intros n Hn. field. apply injZ_neq0. lia. }
  destruct sp.
  - destruct (sample_indices_sp_spec _ _ _ _ _ _ H) as (cn & h1 & calls1 & ks1 & ks2 & ks1' & ks2' & c1 & c2 & Hc & Np & Nn & -> & F1 & F2 & _).
    exists cn, h1, calls1. do 2 eexists. split; [exact Hc|].
    split; [exists (c1 ++ c2); split; [reflexivity|split; [|discriminate]];
            apply Forall_app; split; eapply fixup_is_fixup; eauto|].
    unfold nb_hard_pos, nb_hard_neg in *. rewrite !sp_call_mean by assumption.
    split; [reflexivity|]. split; [reflexivity|]. intro B. destruct (Hbl _ _ _ Hc B) as [-> ->]. split; now apply One.
  - destruct (sample_indices_repl_spec _ _ _ _ _ _ H) as (cn & h1 & calls1 & pi & ni & Hc & -> & _).
    exists cn, h1, calls1. do 2 eexists. split; [exact Hc|].
    split; [exists []; rewrite app_nil_r; split; [reflexivity|split; [constructor|reflexivity]]|].
    unfold nb_hard_pos, nb_hard_neg. simpl draw_mean.
    split; [reflexivity|]. split; [reflexivity|]. intro B. destruct (Hbl _ _ _ Hc B) as [-> ->]. split; now apply One.
Qed.

(* ---------- running the model on a given history ---------- *)
Lemma bad_prob_false p : (0 <= p)%Q -> (p <= 1)%Q -> bad_prob p = false.
Proof.
  intros H0 H1. unfold bad_prob. apply orb_false_iff. split; qb; assumption.
Qed.
Lemma binomial_run n p x y k r : 0 <= n -> (0 <= p)%Q -> (p <= 1)%Q ->
  binomial n p (DBinom x y k :: r) = Ok (k, r, [DBinom n p k]).
Proof.
  intros Hn H0 H1. unfold binomial. rewrite (bad_prob_false p H0 H1).
  destruct (Z.ltb_spec n 0); [lia|]. reflexivity.
Qed.
Lemma choice_run n size x y ix r : 0 <= size -> (0 < n \/ size = 0) ->
  choice n size (DChoice x y ix :: r) = Ok (ix, r, [DChoice n size ix]).
Proof.
  intros Hs Hn. unfold choice. destruct (Z.ltb_spec size 0); [lia|].
  destruct (Z.leb_spec n 0), (Z.eqb_spec size 0); simpl; try reflexivity; lia.
Qed.
Lemma bind_run {A B} (m : M A) (f : A -> M B) h a h1 c1 :
  m h = Ok (a, h1, c1) -> bind m f h = match f a h1 with Err e => Err e | Ok (b, h2, c2) => Ok (b, h2, c1 ++ c2) end.
Proof. intro H. unfold bind. now rewrite H. Qed.

Lemma hard_ratio_bounds hard easy : 0 <= easy -> 0 <= hard ->
  (0 <= 1 - hard_ratio_of hard easy /\ 1 - hard_ratio_of hard easy <= 1)%Q.
Proof.
  intros He Hh. unfold hard_ratio_of. destruct (Z.ltb_spec 0 easy) as [E|E].
  - destruct (frac_bounds hard (hard + easy)) as [A B]; [lia|lia|]. split; lra.
  - split; lra.
Qed.

(* the "identity" draws: class sizes and easy counts equal to the source's *)
Definition id_counts_hist (s : scores) (bl : bool) : list draw :=
  if bl then [] else
  [DBinom (nb_all_samples s) (pos_neg_ratio s) (nb_all_pos s);
   DBinom (nb_all_pos s) (easy_pos_ratio s) (easy_pos s);
   DBinom (nb_all_neg s) (easy_neg_ratio s) (easy_neg s)].

Lemma fix_pos_neg_id s : fix_pos_neg s (nb_all_pos s) = (nb_all_pos s, nb_all_neg s).
Proof.
  unfold fix_pos_neg.
  assert (E1 : (nb_all_pos s =? 0) && (0 <? nb_all_pos s) = false).
  { destruct (Z.eqb_spec (nb_all_pos s) 0), (Z.ltb_spec 0 (nb_all_pos s)); simpl; auto; lia. }
  rewrite E1.
  assert (E : nb_all_samples s - nb_all_pos s = nb_all_neg s) by (unfold nb_all_samples, nb_all_pos, nb_all_neg; lia).
  rewrite E.
  assert (E2 : (nb_all_neg s =? 0) && (0 <? nb_all_neg s) = false).
  { destruct (Z.eqb_spec (nb_all_neg s) 0), (Z.ltb_spec 0 (nb_all_neg s)); simpl; auto; lia. }
  rewrite E2. reflexivity.
Qed.
Lemma fix_hard_id hard easy : fix_hard hard (easy + hard) easy = (hard, easy).
Proof.
  unfold fix_hard. replace (easy + hard - easy) with hard by lia.
  destruct (Z.eqb_spec hard 0), (Z.ltb_spec 0 hard); simpl; auto; lia.
Qed.

Lemma easy_draw_ok hard easy : 0 <= easy -> 0 <= hard ->
  draw_ok (DBinom (easy + hard) (1 - hard_ratio_of hard easy) easy).
Proof.
  intros He Hh. simpl. split; [lia|]. unfold hard_ratio_of. destruct (Z.ltb_spec 0 easy) as [E|E]; split; intro H.
  - assert (H' : (inject_Z hard / inject_Z (hard + easy) == 1)%Q) by lra. apply frac_eq1 in H'; lia.
  - assert (H' : (inject_Z hard / inject_Z (hard + easy) == 0)%Q) by lra. apply frac_eq0 in H'; lia.
  - lia.
  - exfalso. lra.
Qed.

Lemma sample_counts_id s bl r :
  0 <= easy_pos s -> 0 <= easy_neg s ->
  exists calls,
    sample_counts s bl (id_counts_hist s bl ++ r) =
      Ok (mkCounts (easy_pos s) (easy_neg s) (nb_hard_pos s) (nb_hard_neg s), r, calls) /\ Forall draw_ok calls.
Proof.
  intros Ep En. pose proof (len_nonneg (pos s)) as Lp. pose proof (len_nonneg (neg s)) as Ln.
  destruct bl; [exists []; split; [reflexivity|constructor]|].
  eexists. unfold sample_counts, id_counts_hist.
  assert (BP : (0 <= pos_neg_ratio s /\ pos_neg_ratio s <= 1)%Q).
  { unfold pos_neg_ratio. destruct (Z.ltb_spec 0 (nb_all_samples s)); [|split; lra].
    apply frac_bounds; unfold nb_all_samples, nb_all_pos in *; lia. }
  destruct (hard_ratio_bounds (len (pos s)) (easy_pos s) Ep Lp) as [A1 A2].
  destruct (hard_ratio_bounds (len (neg s)) (easy_neg s) En Ln) as [B1 B2].
  simpl app.
  erewrite bind_run by (apply binomial_run; [unfold nb_all_samples; lia|tauto|tauto]).
  rewrite fix_pos_neg_id.
  erewrite bind_run by (apply binomial_run; [unfold nb_all_pos; lia|exact A1|exact A2]).
  erewrite bind_run by (apply binomial_run; [unfold nb_all_neg; lia|exact B1|exact B2]).
  unfold nb_all_pos, nb_all_neg, nb_hard_pos, nb_hard_neg. rewrite !fix_hard_id. unfold ret. simpl app.
  split; [reflexivity|].
  constructor; [|constructor; [apply easy_draw_ok; assumption|constructor; [apply easy_draw_ok; assumption|constructor]]].
  simpl. split; [unfold nb_all_samples; lia|]. unfold pos_neg_ratio.
  destruct (Z.ltb_spec 0 (nb_all_samples s)) as [E|E]; split; intro H.
  - apply frac_eq0 in H; auto.
  - apply frac_eq1 in H; auto.
  - unfold nb_all_samples in *. lia.
  - exfalso. lra.
Qed.

Lemma binomial_vec_run size n p x y z ks r : 0 <= size -> 0 <= n -> (0 <= p)%Q -> (p <= 1)%Q ->
  binomial_vec size n p (DBinomVec x y z ks :: r) = Ok (ks, r, [DBinomVec size n p ks]).
Proof.
  intros Hs Hn H0 H1. unfold binomial_vec. rewrite (bad_prob_false p H0 H1).
  destruct (Z.ltb_spec size 0), (Z.ltb_spec n 0); try lia. reflexivity.
Qed.
Lemma poisson_vec_run size lam x y ks r : 0 <= size -> (0 <= lam)%Q ->
  poisson_vec size lam (DPoissonVec x y ks :: r) = Ok (ks, r, [DPoissonVec size lam ks]).
Proof.
  intros Hs Hl. unfold poisson_vec. destruct (Z.ltb_spec size 0); [lia|].
  assert (E : Qltb lam 0 = false) by (qb; exact Hl). rewrite E. reflexivity.
Qed.
Lemma one_over_run n h : n <> 0 -> one_over n h = Ok ((1 / inject_Z n)%Q, h, []).
Proof. intro H. unfold one_over. destruct (Z.eqb_spec n 0); [contradiction|]. reflexivity. Qed.

(* the draw in which every source index is selected exactly once *)
Definition sp_id_draw (n : nat) : draw := sp_call (Z.of_nat n) (Z.of_nat n) (repeat 1 n).

Lemma single_pass_run_id (l : list Q) r : 0 < len l ->
  single_pass_sampling (len l) (len l) (1 / inject_Z (len l))%Q (sp_id_draw (length l) :: r)
  = Ok (repeat 1 (length l), r, [sp_id_draw (length l)]) /\ draw_ok (sp_id_draw (length l)).
Proof.
  intro Hl. unfold single_pass_sampling, sp_id_draw, sp_call, len in *.
  assert (B : (0 <= 1 / inject_Z (Z.of_nat (length l)) /\ 1 / inject_Z (Z.of_nat (length l)) <= 1)%Q).
  { change 1%Q with (inject_Z 1) at 1 3. apply frac_bounds; lia. }
  assert (RL : forall k : Z, len (repeat k (length l)) = Z.of_nat (length l)) by (intro; unfold len; now rewrite repeat_length).
  destruct (Z.of_nat (length l) <? 100).
  - split; [apply binomial_vec_run; try lia; tauto|]. simpl. split; [apply RL|].
    apply Forall_forall. intros x Hx. apply repeat_spec in Hx. lia.
  - split; [apply poisson_vec_run; [lia|]|].
    + destruct B as [B0 _]. apply Qmult_le_0_compat; [|exact B0]. change 0%Q with (inject_Z 0). rewrite <- Zle_Qle. lia.
    + simpl. split; [apply RL|]. apply Forall_forall. intros x Hx. apply repeat_spec in Hx. lia.
Qed.

Lemma fix_empty_run n ks h : all_zero ks = false -> fix_empty n ks h = Ok (ks, h, []).
Proof. intro H. unfold fix_empty. now rewrite H. Qed.
Lemma all_zero_ones (l : list Q) : 0 < len l -> all_zero (repeat 1 (length l)) = false.
Proof. unfold len. destruct l; simpl; [lia|reflexivity]. Qed.

Definition id_hist (s : scores) (bl sp : bool) : list draw :=
  id_counts_hist s bl ++
  (if sp then [sp_id_draw (length (pos s)); sp_id_draw (length (neg s))]
   else [DChoice (len (pos s)) (len (pos s)) (zseq (length (pos s)));
         DChoice (len (neg s)) (len (neg s)) (zseq (length (neg s)))]).

Lemma sample_indices_id s bl sp :
  0 <= easy_pos s -> 0 <= easy_neg s -> (sp = true -> 0 < len (pos s) /\ 0 < len (neg s)) ->
  exists r calls,
    sample_indices s bl sp (id_hist s bl sp) = Ok (r, [], calls) /\ Forall draw_ok calls /\
    pos_idx r = zseq (length (pos s)) /\ neg_idx r = zseq (length (neg s)) /\
    s_easy_pos r = easy_pos s /\ s_easy_neg r = easy_neg s.
Proof.
  intros Ep En Hsp. unfold id_hist, sample_indices.
  destruct (sample_counts_id s bl
              (if sp then [sp_id_draw (length (pos s)); sp_id_draw (length (neg s))]
               else [DChoice (len (pos s)) (len (pos s)) (zseq (length (pos s)));
                     DChoice (len (neg s)) (len (neg s)) (zseq (length (neg s)))]) Ep En) as (c0 & Hc & Ok0).
  erewrite bind_run by exact Hc. cbn [c_hard_pos c_hard_neg c_easy_pos c_easy_neg].
  pose proof (len_nonneg (pos s)) as Lp. pose proof (len_nonneg (neg s)) as Ln.
  unfold nb_hard_pos, nb_hard_neg. destruct sp.
  - destruct (Hsp eq_refl) as [Pp Pn].
    destruct (single_pass_run_id (pos s) [sp_id_draw (length (neg s))] Pp) as [R1 O1].
    destruct (single_pass_run_id (neg s) [] Pn) as [R2 O2].
    erewrite bind_run by (apply one_over_run; lia).
    erewrite bind_run by exact R1.
    erewrite bind_run by (apply one_over_run; lia).
    erewrite bind_run by exact R2.
    erewrite bind_run by (apply fix_empty_run, all_zero_ones; lia).
    erewrite bind_run by (apply fix_empty_run, all_zero_ones; lia).
    unfold ret. do 2 eexists. split; [reflexivity|]. cbn [pos_idx neg_idx s_easy_pos s_easy_neg].
    rewrite !repeat_idx_ones. split; [|auto].
    simpl app. apply Forall_app. split; [exact Ok0|]. constructor; [exact O1|constructor; [exact O2|constructor]].
  - erewrite bind_run by (apply choice_run; lia).
    erewrite bind_run by (apply choice_run; lia).
    unfold ret. do 2 eexists. split; [reflexivity|]. cbn [pos_idx neg_idx s_easy_pos s_easy_neg].
    split; [|auto]. simpl app. apply Forall_app. split; [exact Ok0|].
    constructor; [|constructor; [|constructor]]; simpl; unfold len at 2; (split; [apply zseq_len|apply zseq_range]).
Qed.

(* every source score is reachable: some history within NumPy's contract selects the whole source *)
Theorem reachable_identity c s :
  (sampling_method c = MReplacement \/ sampling_method c = MSinglePass \/ sampling_method c = MDynamic) ->
  smoothing c = false -> 0 <= easy_pos s -> 0 <= easy_neg s -> wf s ->
  (resolve_method s c = MSinglePass -> 0 < len (pos s) /\ 0 < len (neg s)) ->
  exists h b calls,
    bootstrap_sample c s h = Ok (b, [], calls) /\ Forall draw_ok calls /\
    pos b = pos s /\ neg b = neg s /\ easy_pos b = easy_pos s /\ easy_neg b = easy_neg s.
Proof.
  intros Hm Hs Ep En [Wp Wn] Hne.
  assert (Hres : resolve_method s c = MReplacement \/ resolve_method s c = MSinglePass).
  { unfold resolve_method. destruct Hm as [ -> | [ -> | -> ] ]; auto.
    destruct ((nb_hard_pos s <? SINGLE_PASS_SAMPLE_THRESHOLD) || (nb_hard_neg s <? SINGLE_PASS_SAMPLE_THRESHOLD) || smoothing c); auto. }
  destruct Hres as [Hr|Hr].
  - destruct (sample_indices_id s (is_by_label c) false Ep En ltac:(discriminate)) as (r & calls & Hi & Ok0 & E1 & E2 & E3 & E4).
    exists (id_hist s (is_by_label c) false). do 2 eexists. unfold bootstrap_sample. rewrite Hr.
    erewrite bind_run by exact Hi. rewrite Hs. unfold ret. rewrite app_nil_r.
    split; [reflexivity|]. split; [exact Ok0|]. rewrite E1, E2, E3, E4, !take_idx_zseq.
    unfold mk_scores. simpl. rewrite !isort_sorted_id by assumption. auto.
  - destruct (sample_indices_id s (is_by_label c) true Ep En ltac:(intros _; exact (Hne Hr))) as (r & calls & Hi & Ok0 & E1 & E2 & E3 & E4).
    exists (id_hist s (is_by_label c) true). do 2 eexists. unfold bootstrap_sample. rewrite Hr.
    erewrite bind_run by exact Hi. rewrite Hs. unfold ret. rewrite app_nil_r.
    split; [reflexivity|]. split; [exact Ok0|]. rewrite E1, E2, E3, E4, !take_idx_zseq.
    unfold mk_scores. simpl. auto.
Qed.

Lemma choice_norepl_run n size x y ix r : 0 <= size -> size <= n -> (0 < n \/ size = 0) ->
  choice_norepl n size (DChoiceNoRepl x y ix :: r) = Ok (ix, r, [DChoiceNoRepl n size ix]).
Proof.
  intros Hs Hn Hp. unfold choice_norepl. destruct (Z.ltb_spec size 0); [lia|].
  destruct (Z.ltb_spec n size); [lia|].
  destruct (Z.leb_spec n 0), (Z.eqb_spec size 0); simpl; try reflexivity; lia.
Qed.

(* m distinct indices below n, one of them i *)
Definition pick_with (i : Z) (m : nat) : list Z :=
  if i <? Z.of_nat m then zseq m else i :: zseq (m - 1).

Lemma zseq_in x n : In x (zseq n) <-> 0 <= x < Z.of_nat n.
Proof.
  unfold zseq. rewrite in_map_iff. split.
  - intros (j & <- & Hj). apply in_seq in Hj. lia.
  - intros Hx. exists (Z.to_nat x). split; [lia|]. apply in_seq. lia.
Qed.
Lemma pick_with_spec i m n : (1 <= m)%nat -> Z.of_nat m <= n -> 0 <= i < n ->
  len (pick_with i m) = Z.of_nat m /\ In i (pick_with i m) /\ NoDup (pick_with i m) /\
  Forall (in_range n) (pick_with i m).
Proof.
  intros Hm Hmn Hi. unfold pick_with. destruct (Z.ltb_spec i (Z.of_nat m)) as [E|E].
  - split; [apply zseq_len|]. split; [apply zseq_in; lia|]. split; [apply zseq_NoDup|].
    apply Forall_forall. intros x Hx. apply zseq_in in Hx. unfold in_range. lia.
  - split; [pose proof (zseq_len (m - 1)) as Z1; unfold len in *; simpl length; lia|].
    split; [now left|]. split.
    + constructor; [|apply zseq_NoDup]. rewrite zseq_in. lia.
    + constructor; [exact Hi|]. apply Forall_forall. intros x Hx. apply zseq_in in Hx. unfold in_range. lia.
Qed.

Lemma proportion_size_bounds rt n : (0 <= rt)%Q -> (rt <= 1)%Q -> 1 <= n -> 1 <= proportion_size rt n <= n.
Proof.
  intros H0 H1 Hn. unfold proportion_size, Qtrunc.
  assert (P : (0 <= inject_Z n)%Q) by (change 0%Q with (inject_Z 0); rewrite <- Zle_Qle; lia).
  assert (A : (0 <= rt * inject_Z n)%Q) by (apply Qmult_le_0_compat; assumption).
  assert (E : Qltb (rt * inject_Z n) 0 = false) by (qb; exact A). rewrite E.
  assert (B : (rt * inject_Z n <= inject_Z n)%Q) by nra.
  apply Qfloor_resp_le in B. rewrite Qfloor_Z in B. lia.
Qed.

Theorem reachable_proportion c s rt i j :
  sampling_method c = MProportion -> ratio c = Some rt -> (0 <= rt)%Q -> (rt <= 1)%Q ->
  0 <= i < len (pos s) -> 0 <= j < len (neg s) ->
  exists h b calls,
    bootstrap_sample c s h = Ok (b, [], calls) /\ Forall draw_ok calls /\
    In (nth (Z.to_nat i) (pos s) 0%Q) (pos b) /\ In (nth (Z.to_nat j) (neg s) 0%Q) (neg b).
Proof.
  intros Hm Hr R0 R1 Hi Hj.
  assert (Hres : resolve_method s c = MProportion) by (unfold resolve_method; now rewrite Hm).
  pose proof (proportion_size_bounds rt (len (pos s)) R0 R1 ltac:(lia)) as Bp.
  pose proof (proportion_size_bounds rt (len (neg s)) R0 R1 ltac:(lia)) as Bn.
  set (mp := Z.to_nat (proportion_size rt (len (pos s)))).
  set (mn := Z.to_nat (proportion_size rt (len (neg s)))).
  destruct (pick_with_spec i mp (len (pos s))) as (Lp & Ip & Dp & Rp); [lia|lia|lia|].
  destruct (pick_with_spec j mn (len (neg s))) as (Ln & In_ & Dn & Rn); [lia|lia|lia|].
  exists [DChoiceNoRepl (len (pos s)) (proportion_size rt (len (pos s))) (pick_with i mp);
          DChoiceNoRepl (len (neg s)) (proportion_size rt (len (neg s))) (pick_with j mn)].
  do 2 eexists. unfold bootstrap_sample. rewrite Hres, Hr.
  erewrite bind_run by (apply choice_norepl_run; lia).
  erewrite bind_run by (apply choice_norepl_run; lia).
  unfold ret. simpl app. split; [reflexivity|]. split.
  - constructor; [|constructor; [|constructor]]; simpl; (split; [lia|split; assumption]).
  - match goal with |- context [mk_scores ?p ?n ?a ?b ?sc ?ec ?f] => destruct (mk_scores_perm p n a b sc ec f) as [P1 P2] end.
    split.
    + eapply Permutation_in; [apply Permutation_sym; exact P1|]. unfold take_idx. apply in_map_iff. now exists i.
    + eapply Permutation_in; [apply Permutation_sym; exact P2|]. unfold take_idx. apply in_map_iff. now exists j.
Qed.
