(* Proofs/NegationFacts.v — C08: thresholds returned by threshold setting are negated when all scores are
   negated and score_class is flipped, for targets that neither object answers by a one-ulp sentinel
   (two-sided interior targets), every method (the flipped object uses the reversed method, as the code does).
   At a sentinel, and in the last 1/N of the scale where one object returns its end sample and the mirrored one
   the sentinel one ulp beyond it, the two thresholds differ by that ulp: the property grants it, the harness
   checks it on the implementation. *)
From SA Require Import Model.Threshold Model.Symmetry Proofs.SentinelFacts Proofs.ExtremeFacts Proofs.InvIncrFacts
  Proofs.EquivarianceFacts Proofs.TrapzFacts.
Open Scope Q_scope.

Lemma floor_unique q z : inject_Z z <= q -> q < inject_Z z + 1 -> Qfloor q = z.
Proof.
  intros A B. destruct (floor_bounds q) as [C D].
  assert (Qfloor q < z + 1)%Z.
  { rewrite Zlt_Qlt, inject_Z_plus. change (inject_Z 1) with 1. lra. }
  assert (z < Qfloor q + 1)%Z.
  { rewrite Zlt_Qlt, inject_Z_plus. change (inject_Z 1) with 1. lra. }
  lia.
Qed.

Lemma floor_shift k y : Qfloor (inject_Z k + y) = (k + Qfloor y)%Z.
Proof.
  destruct (floor_bounds y) as [C D]. apply floor_unique; rewrite inject_Z_plus; lra.
Qed.

Lemma floor_mirror k x : Qfloor (inject_Z k - x) = (k - Qceiling x)%Z.
Proof.
  unfold Qceiling. replace (k - - Qfloor (- x))%Z with (k + Qfloor (- x))%Z by lia.
  rewrite <- floor_shift. apply Qfloor_comp. ring.
Qed.

Lemma ceil_mirror k x : Qceiling (inject_Z k - x) = (k - Qfloor x)%Z.
Proof.
  unfold Qceiling.
  assert (E : - (inject_Z k - x) == inject_Z (- k) + x) by (rewrite inject_Z_opp; ring).
  rewrite (Qfloor_comp _ _ E), floor_shift. lia.
Qed.

Definition mirror (l : list Q) : list Q := rev (map Qopp l).
Lemma len_mirror l : len (mirror l) = len l.
Proof. unfold mirror, len. now rewrite rev_length, map_length. Qed.
Lemma nthZ_mirror l i : (0 <= i < len l)%Z -> nthZ (mirror l) i = - nthZ l (len l - 1 - i).
Proof.
  intro H. unfold mirror. assert (L : len (map Qopp l) = len l) by apply len_map.
  rewrite nthZ_rev by (rewrite L; exact H). rewrite L. apply nthZ_map. lia.
Qed.

Section Negation.
  Variable succ pred : Q -> Q.
  Notation inv := (inv_incr succ pred).

  (* both the object and its mirror image answer from the interior *)
  Definition interior2 (l : list Q) (u : Q) (lc : bool) : Prop := interior l u lc /\ interior l (1 - u) (negb lc).

  Lemma xpos_mirror l u u' lc : (1 <= len l)%Z -> u' == 1 - u ->
    xpos (mirror l) u' (negb lc) == inject_Z (len l - 1) - xpos l u lc.
  Proof.
    intros H E. pose proof (lenQ_pos l H) as P. unfold xpos, shifted. rewrite len_mirror.
    rewrite inject_Z_sub. change (inject_Z 1) with 1.
    destruct lc; cbn [negb]; rewrite E; field; lra.
  Qed.

  Lemma interior_mirror l u u' lc : u' == 1 - u -> interior l (1 - u) (negb lc) -> interior (mirror l) u' (negb lc).
  Proof.
    intros E [A B]. unfold interior, shifted in *. rewrite len_mirror.
    destruct lc; cbn [negb] in *; rewrite E; split; assumption.
  Qed.

  Lemma interior2_x l u lc : (1 <= len l)%Z -> interior2 l u lc ->
    0 < xpos l u lc /\ xpos l u lc < inject_Z (len l - 1).
  Proof.
    intros H [[A B] [C D]]. pose proof (lenQ_pos l H) as P. unfold xpos, shifted in *.
    rewrite inject_Z_sub. change (inject_Z 1) with 1.
    destruct lc; cbn [negb] in *.
    - split; [nra|]. assert (u < 1 - 1 / inject_Z (len l)) by lra.
      assert (X : (1 - 1 / inject_Z (len l)) * inject_Z (len l) == inject_Z (len l) - 1) by (field; lra).
      rewrite <- X. apply Qmult_lt_compat_r; lra.
    - split; [nra|]. assert (X : (u - 1 / inject_Z (len l)) * inject_Z (len l) == u * inject_Z (len l) - 1) by (field; lra).
      rewrite X. nra.
  Qed.

  Theorem inv_mirror l u u' lc m : (1 <= len l)%Z -> u' == 1 - u -> interior2 l u lc ->
    inv (mirror l) u' (negb lc) (reverse_method m) == - inv l u lc m.
  Proof.
    intros H E Hi. pose proof Hi as [Hi1 Hi2].
    pose proof (interior_mirror l u u' lc E Hi2) as Hi'.
    rewrite (inv_interior succ pred _ u' (negb lc) (reverse_method m) Hi'), (inv_interior succ pred l u lc m Hi1).
    pose proof (xpos_mirror l u u' lc H E) as X.
    destruct (interior2_x l u lc H Hi) as [X0 X1].
    set (x := xpos l u lc) in *. set (x' := xpos (mirror l) u' (negb lc)) in *. set (n := len l) in *.
    assert (F' : Qfloor x' = (n - 1 - Qceiling x)%Z) by (rewrite (Qfloor_comp _ _ X); apply floor_mirror).
    assert (C' : Qceiling x' = (n - 1 - Qfloor x)%Z).
    { unfold Qceiling at 1. assert (Y : - x' == - (inject_Z (n - 1) - x)) by (rewrite X; reflexivity).
      rewrite (Qfloor_comp _ _ Y). fold (Qceiling (inject_Z (n - 1) - x)). apply ceil_mirror. }
    assert (Fx : (0 <= Qfloor x)%Z) by (apply floor_ge0; lra).
    assert (Fx2 : (Qfloor x < n - 1)%Z) by (apply floor_lt; exact X1).
    assert (Cx : (0 < Qceiling x)%Z) by (apply ceil_gt; exact X0).
    assert (Cx2 : (Qceiling x <= n - 1)%Z) by (apply ceil_le; lra).
    rewrite len_mirror. fold n. rewrite F', C'. unfold clampZ.
    replace (Z.max (Z.min (n - 1 - Qceiling x) (n - 1)) 0) with (n - 1 - Qceiling x)%Z by lia.
    replace (Z.max (Z.min (n - 1 - Qfloor x) (n - 1)) 0) with (n - 1 - Qfloor x)%Z by lia.
    replace (Z.max (Z.min (Qceiling x) (n - 1)) 0) with (Qceiling x) by lia.
    replace (Z.max (Z.min (Qfloor x) (n - 1)) 0) with (Qfloor x) by lia.
    rewrite !nthZ_mirror by (fold n; lia). fold n.
    replace (n - 1 - (n - 1 - Qceiling x))%Z with (Qceiling x) by lia.
    replace (n - 1 - (n - 1 - Qfloor x))%Z with (Qfloor x) by lia.
    destruct m; cbn [reverse_method]; try reflexivity.
    (* Linear: weight of the left neighbour is ceil - x; mirrored it is x - floor *)
    rewrite X. rewrite !inject_Z_sub. change (inject_Z 1) with 1.
    destruct (Z.eq_dec (Qfloor x) (Qceiling x)) as [EQ|NE].
    - rewrite <- EQ. ring.
    - assert (CE : Qceiling x = (Qfloor x + 1)%Z) by (pose proof (floor_le_ceil x); pose proof (ceil_le_floor1 x); lia).
      rewrite CE, inject_Z_plus. change (inject_Z 1) with 1. ring.
  Qed.
End Negation.

(* through _threshold_at_ratio *)
Lemma tar_target_flip s s' inc u : score_class s' = flip (score_class s) ->
  tar_target s' inc u == 1 - tar_target s inc u.
Proof. intro H. unfold tar_target. rewrite H. destruct (score_class s), inc; cbn [flip label_eqb negb]; ring. Qed.
Lemma tar_lc_flip s s' rc : score_class s' = flip (score_class s) -> equal_class s' = equal_class s ->
  tar_lc s' rc = negb (tar_lc s rc).
Proof.
  intros H E. unfold tar_lc. rewrite H, E.
  destruct (score_class s), (equal_class s), rc; reflexivity.
Qed.
Lemma tar_method_flip s s' inc m : score_class s' = flip (score_class s) ->
  tar_method s' inc m = reverse_method (tar_method s inc m).
Proof. intro H. unfold tar_method. rewrite H. destruct (score_class s), inc, m; reflexivity. Qed.

(* negating all scores and flipping score_class negates the returned threshold: every metric direction,
   configuration and method, for two-sided interior targets; s' is any object with the flipped direction and the
   same equal_class (e.g. neg_scores s), [mirror l] the negated scores in ascending order *)
Theorem tar_negate_interior succ pred s s' l u inc rc m :
  score_class s' = flip (score_class s) -> equal_class s' = equal_class s -> (1 <= len l)%Z ->
  interior2 l (tar_target s inc u) (tar_lc s rc) ->
  threshold_at_ratio succ pred s' (mirror l) u inc rc m == - threshold_at_ratio succ pred s l u inc rc m.
Proof.
  intros Hsc Hec Hn Hi. rewrite !tar_unfold.
  rewrite (tar_lc_flip s s' rc Hsc Hec), (tar_method_flip s s' inc m Hsc).
  apply inv_mirror; [exact Hn | apply tar_target_flip; exact Hsc | exact Hi].
Qed.
