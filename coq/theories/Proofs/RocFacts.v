(* Proofs/RocFacts.v — C15: facts about the model of roc() / _find_support_thresholds (Model/Roc.v). *)
From SA Require Import Model.Roc Proofs.CmFacts.
Open Scope Q_scope.

(* order on possibly-NaN rates: both defined and <=, or both NaN (a rate method is NaN at every threshold or at none) *)
Definition rle (a b : rate) : Prop :=
  match a, b with Some x, Some y => x <= y | None, None => True | _, _ => False end.
Definition nondecreasing (l : list rate) : Prop := StronglySorted rle l.

(* ---------- generic list facts ---------- *)
Lemma SS_app {A} (R : A -> A -> Prop) l1 l2 :
  StronglySorted R l1 -> StronglySorted R l2 -> (forall a b, In a l1 -> In b l2 -> R a b) ->
  StronglySorted R (l1 ++ l2).
Proof.
  induction l1 as [|x r IH]; simpl; intros H1 H2 H; [exact H2|].
  inversion H1 as [|? ? Hr Hall]; subst. constructor.
  - apply IH; auto.
  - rewrite Forall_app. split; [exact Hall|]. rewrite Forall_forall. intros b Hb. apply H; auto.
Qed.
Lemma SS_rev {A} (R : A -> A -> Prop) l :
  StronglySorted R l -> StronglySorted (fun a b => R b a) (rev l).
Proof.
  induction 1 as [|x r Hr IH Hall]; simpl; [constructor|].
  apply SS_app; [exact IH|repeat constructor|].
  intros a b Ha Hb. destruct Hb as [<-|[]]. rewrite Forall_forall in Hall. apply Hall. now apply in_rev.
Qed.
Lemma SS_map {A B} (R : A -> A -> Prop) (R' : B -> B -> Prop) (f : A -> B) l :
  (forall a b, R a b -> R' (f a) (f b)) -> StronglySorted R l -> StronglySorted R' (map f l).
Proof.
  intros Hf. induction 1 as [|x r Hr IH Hall]; simpl; constructor; [exact IH|].
  rewrite Forall_forall in *. intros y Hy. apply in_map_iff in Hy. destruct Hy as (a & <- & Ha). auto.
Qed.
Lemma SS_impl {A} (R R' : A -> A -> Prop) l :
  (forall a b, R a b -> R' a b) -> StronglySorted R l -> StronglySorted R' l.
Proof.
  intros H. induction 1 as [|x r Hr IH Hall]; constructor; [exact IH|].
  eapply Forall_impl; [|exact Hall]. auto.
Qed.

(* ---------- res plumbing ---------- *)
Lemma rbind_ret {A B} (r : res A) (f : A -> res B) b :
  rbind r f = Ret b -> exists a, r = Ret a /\ f a = Ret b.
Proof. destruct r as [a|]; simpl; [eauto|discriminate]. Qed.
Lemma map_res_ret {A B} (f : A -> res B) l ys :
  map_res f l = Ret ys -> Forall2 (fun x y => f x = Ret y) l ys.
Proof.
  revert ys. induction l as [|x r IH]; simpl; intros ys H.
  - injection H as <-. constructor.
  - apply rbind_ret in H. destruct H as (y & Hy & H). apply rbind_ret in H. destruct H as (ys' & Hys & H).
    injection H as <-. constructor; auto.
Qed.
Lemma map_res_total {A B} (f : A -> res B) l :
  (forall x, exists y, f x = Ret y) -> exists ys, map_res f l = Ret ys.
Proof.
  intros Hf. induction l as [|x r [ys IH]]; simpl; [eauto|].
  destruct (Hf x) as [y ->]. simpl. rewrite IH. simpl. eauto.
Qed.
Lemma Forall2_In_l {A B} (P : A -> B -> Prop) l1 l2 x :
  Forall2 P l1 l2 -> In x l1 -> exists y, P x y /\ In y l2.
Proof.
  induction 1 as [|a b l1 l2 Hab _ IH]; simpl; [tauto|].
  intros [<-|Hx]; [eauto|]. destruct (IH Hx) as (y & Hy & Hin). eauto.
Qed.

Lemma linspace_len a b n e l : linspace a b n e = Ret l -> len l = n.
Proof.
  unfold linspace. destruct (n <? 0)%Z eqn:E; [discriminate|]. intro H. injection H as <-.
  unfold len. rewrite map_length, seq_length. apply Z.ltb_ge in E. lia.
Qed.
Lemma linspace_total a b n e : (0 <= n)%Z -> exists l, linspace a b n e = Ret l.
Proof. intro H. unfold linspace. apply Z.ltb_ge in H. rewrite H. eauto. Qed.

Section Facts.
  Variable succ pred : Q -> Q.

  Lemma arr_threshold_at_ret (f : Q -> res Q) l ys :
    arr_threshold_at f l = Ret ys -> Forall2 (fun x y => f x = Ret y) l ys.
  Proof. unfold arr_threshold_at. destruct (f 0); [apply map_res_ret|discriminate]. Qed.
  Lemma arr_threshold_at_total (f : Q -> res Q) l :
    (forall x, exists y, f x = Ret y) -> exists ys, arr_threshold_at f l = Ret ys.
  Proof. intro Hf. unfold arr_threshold_at. destruct (Hf 0) as [y ->]. now apply map_res_total. Qed.

  Lemma thresholds_at_fnr_ret s l ys : thresholds_at_fnr succ pred s l = Ret ys ->
    Forall2 (fun x y => threshold_at_fnr succ pred s x Linear = Ret y) l ys.
  Proof. apply arr_threshold_at_ret. Qed.
  Lemma thresholds_at_fpr_ret s l ys : thresholds_at_fpr succ pred s l = Ret ys ->
    Forall2 (fun x y => threshold_at_fpr succ pred s x Linear = Ret y) l ys.
  Proof. apply arr_threshold_at_ret. Qed.

  Lemma threshold_at_fnr_total s r m : len (pos s) <> 0%Z -> exists t, threshold_at_fnr succ pred s r m = Ret t.
  Proof. intro H. unfold threshold_at_fnr. apply Z.eqb_neq in H. rewrite H. eauto. Qed.
  Lemma threshold_at_fpr_total s r m : len (neg s) <> 0%Z -> exists t, threshold_at_fpr succ pred s r m = Ret t.
  Proof. intro H. unfold threshold_at_fpr. apply Z.eqb_neq in H. rewrite H. eauto. Qed.

  Lemma Forall2_len {A B} (P : A -> B -> Prop) l1 l2 : Forall2 P l1 l2 -> len l2 = len l1.
  Proof. intro H. unfold len. f_equal. induction H; simpl; congruence. Qed.

  (* ---------- the tail: sort, validity, reversals ---------- *)
  Lemma support_tail_ret s x th th' :
    support_tail s x th = Ret th' ->
    exists a, x = XName a /\
      th' = (if label_eqb (score_class s) Neg then @rev Q else fun l => l)
              ((if xaxis_in x decreasing_axes then @rev Q else fun l => l) (isort th)).
  Proof.
    unfold support_tail. destruct x as [a|]; [|discriminate]. intro H. exists a. split; [reflexivity|].
    destruct a; cbn in H |- *; destruct (label_eqb (score_class s) Neg); injection H as <-; reflexivity.
  Qed.
  Lemma support_tail_perm s x th th' : support_tail s x th = Ret th' -> Permutation th th'.
  Proof.
    intro H. apply support_tail_ret in H. destruct H as (a & _ & ->).
    eapply Permutation_trans; [apply isort_perm|].
    destruct (label_eqb (score_class s) Neg), (xaxis_in x decreasing_axes);
      repeat (eapply Permutation_trans; [|apply Permutation_rev]); apply Permutation_refl.
  Qed.
  Lemma support_tail_other s th : support_tail s XOther th = Raise.
  Proof. reflexivity. Qed.
  Lemma support_tail_total s a th : exists th', support_tail s (XName a) th = Ret th'.
  Proof.
    unfold support_tail. replace (xaxis_in (XName a) valid_axes) with true by (destruct a; reflexivity).
    cbn [negb]. eauto.
  Qed.

  (* ---------- containment ---------- *)
  Definition opt_list (o : option (list Q)) : list Q := match o with Some l => l | None => [] end.

  Lemma support_base_contains s fnr fpr thresholds nb_points b :
    support_base succ pred s fnr fpr thresholds nb_points = Ret b ->
    (forall t, In t (opt_list thresholds) -> In t b) /\
    (forall r, In r (opt_list fnr) -> exists t, threshold_at_fnr succ pred s r Linear = Ret t /\ In t b) /\
    (forall r, In r (opt_list fpr) -> exists t, threshold_at_fpr succ pred s r Linear = Ret t /\ In t b).
  Proof.
    unfold support_base. intro H.
    apply rbind_ret in H. destruct H as (th1 & H1 & H). apply rbind_ret in H. destruct H as (th2 & H2 & H).
    assert (A1 : (forall t, In t (opt_list thresholds) -> In t th1) /\
                 (forall r, In r (opt_list fnr) -> exists t, threshold_at_fnr succ pred s r Linear = Ret t /\ In t th1)).
    { destruct fnr as [f|]; simpl in *.
      - apply rbind_ret in H1. destruct H1 as (ft & Hft & H1). injection H1 as <-.
        apply thresholds_at_fnr_ret in Hft. split.
        + intros t Ht. apply in_or_app. left. destruct thresholds; exact Ht.
        + intros r Hr. destruct (Forall2_In_l _ _ _ _ Hft Hr) as (t & Ht & Hin). exists t. split; [exact Ht|].
          apply in_or_app. now right.
      - injection H1 as <-. split; [destruct thresholds; auto|tauto]. }
    destruct A1 as [A1 A1'].
    assert (A2 : (forall t, In t th1 -> In t th2) /\
                 (forall r, In r (opt_list fpr) -> exists t, threshold_at_fpr succ pred s r Linear = Ret t /\ In t th2)).
    { destruct fpr as [f|]; simpl in *.
      - apply rbind_ret in H2. destruct H2 as (ft & Hft & H2). injection H2 as <-.
        apply thresholds_at_fpr_ret in Hft. split.
        + intros t Ht. apply in_or_app. now left.
        + intros r Hr. destruct (Forall2_In_l _ _ _ _ Hft Hr) as (t & Ht & Hin). exists t. split; [exact Ht|].
          apply in_or_app. now right.
      - injection H2 as <-. split; [auto|tauto]. }
    destruct A2 as [A2 A2'].
    destruct (len th2 =? 0)%Z eqn:E.
    - (* nothing supplied (or only empty arrays): all three claims are vacuous *)
      assert (th2 = []) by (apply Z.eqb_eq in E; unfold len in E; destruct th2; [reflexivity|simpl in E; lia]).
      subst th2. repeat split.
      + intros t Ht. destruct (A2 t (A1 t Ht)).
      + intros r Hr. destruct (A1' r Hr) as (t & _ & Hin). destruct (A2 t Hin).
      + intros r Hr. destruct (A2' r Hr) as (t & _ & []).
    - injection H as <-. repeat split.
      + intros t Ht. auto.
      + intros r Hr. destruct (A1' r Hr) as (t & Ht & Hin). eauto.
      + exact A2'.
  Qed.

  Lemma support_extra_contains s a b th th' :
    support_extra succ pred s a b th = Ret th' -> forall t, In t th -> In t th'.
  Proof.
    unfold support_extra. destruct (len (isort th) =? 0)%Z; [discriminate|]. intro H.
    repeat (apply rbind_ret in H; destruct H as (? & _ & H)). injection H as <-.
    intros t Ht. apply in_or_app. left. apply in_or_app. left.
    eapply Permutation_in; [apply isort_perm|exact Ht].
  Qed.

  Theorem find_support_contains s fnr fpr thresholds nb_points nb_extra x th :
    find_support_thresholds succ pred s fnr fpr thresholds nb_points nb_extra x = Ret th ->
    (forall t, In t (opt_list thresholds) -> In t th) /\
    (forall r, In r (opt_list fnr) -> exists t, threshold_at_fnr succ pred s r Linear = Ret t /\ In t th) /\
    (forall r, In r (opt_list fpr) -> exists t, threshold_at_fpr succ pred s r Linear = Ret t /\ In t th).
  Proof.
    unfold find_support_thresholds. destruct (extra_split nb_extra) as [ea eb]. intro H.
    apply rbind_ret in H. destruct H as (b & Hb & H). apply rbind_ret in H. destruct H as (b' & Hb' & H).
    apply support_base_contains in Hb. destruct Hb as (C1 & C2 & C3).
    assert (I : forall t, In t b -> In t th).
    { intros t Ht. eapply Permutation_in; [eapply support_tail_perm; exact H|].
      destruct nb_extra; [eapply support_extra_contains; eauto|injection Hb' as <-; exact Ht]. }
    repeat split.
    - auto.
    - intros r Hr. destruct (C2 r Hr) as (t & Ht & Hin). eauto.
    - intros r Hr. destruct (C3 r Hr) as (t & Ht & Hin). eauto.
  Qed.

  (* ---------- lengths ---------- *)
  Lemma find_support_len_nb_points s n x th :
    find_support_thresholds succ pred s None None None (Some n) None x = Ret th -> len th = n.
  Proof.
    unfold find_support_thresholds, extra_split, support_base. simpl rbind. cbn [len length Z.of_nat Z.eqb].
    unfold points_split. intro H.
    apply rbind_ret in H. destruct H as (b & Hb & H). simpl in H.
    apply rbind_ret in Hb. destruct Hb as (df & Hdf & Hb). apply rbind_ret in Hb. destruct Hb as (ft & Hft & Hb).
    apply rbind_ret in Hb. destruct Hb as (dp & Hdp & Hb). apply rbind_ret in Hb. destruct Hb as (pt & Hpt & Hb).
    injection Hb as <-.
    apply linspace_len in Hdf, Hdp. apply thresholds_at_fnr_ret, Forall2_len in Hft. apply thresholds_at_fpr_ret, Forall2_len in Hpt.
    apply support_tail_perm, Permutation_length in H. unfold len in *. rewrite <- H, app_length. lia.
  Qed.
  Lemma find_support_len_all_scores s x th :
    find_support_thresholds succ pred s None None None None None x = Ret th -> len th = (len (pos s) + len (neg s))%Z.
  Proof.
    unfold find_support_thresholds, extra_split, support_base. simpl. intro H.
    apply support_tail_perm, Permutation_length in H. unfold len. rewrite <- H, app_length. lia.
  Qed.

  (* ---------- definedness ---------- *)
  Lemma thresholds_at_fnr_total s l : len (pos s) <> 0%Z -> exists ys, thresholds_at_fnr succ pred s l = Ret ys.
  Proof. intro H. apply arr_threshold_at_total. intro r. now apply threshold_at_fnr_total. Qed.
  Lemma thresholds_at_fpr_total s l : len (neg s) <> 0%Z -> exists ys, thresholds_at_fpr succ pred s l = Ret ys.
  Proof. intro H. apply arr_threshold_at_total. intro r. now apply threshold_at_fpr_total. Qed.

  Lemma support_base_total s fnr fpr thresholds nb_points :
    len (pos s) <> 0%Z -> len (neg s) <> 0%Z -> (forall n, nb_points = Some n -> (0 <= n)%Z) ->
    exists b, support_base succ pred s fnr fpr thresholds nb_points = Ret b.
  Proof.
    intros Hp Hn Hnb. unfold support_base.
    set (t0 := match thresholds with Some t => t | None => [] end).
    assert (E1 : exists th1, match fnr with
                  | Some f => rbind (thresholds_at_fnr succ pred s f) (fun ft => Ret (t0 ++ ft))
                  | None => Ret t0 end = Ret th1).
    { destruct fnr as [f|]; [|eauto]. destruct (thresholds_at_fnr_total s f Hp) as [ys ->]. simpl. eauto. }
    destruct E1 as [th1 ->]. cbn [rbind].
    assert (E2 : exists th2, match fpr with
                  | Some f => rbind (thresholds_at_fpr succ pred s f) (fun ft => Ret (th1 ++ ft))
                  | None => Ret th1 end = Ret th2).
    { destruct fpr as [f|]; [|eauto]. destruct (thresholds_at_fpr_total s f Hn) as [ys ->]. simpl. eauto. }
    destruct E2 as [th2 ->]. cbn [rbind].
    destruct (len th2 =? 0)%Z; [|eauto].
    destruct nb_points as [n|]; [|eauto]. specialize (Hnb n eq_refl). unfold points_split.
    assert (0 <= n / 2)%Z by (apply Z.div_pos; lia).
    assert (0 <= n - n / 2)%Z by (pose proof (Z.div_le_upper_bound n 2 n); lia).
    destruct (linspace_total 0 1 (n / 2) true H) as [df ->]. cbn [rbind].
    destruct (thresholds_at_fnr_total s df Hp) as [ft ->]. cbn [rbind].
    destruct (linspace_total 0 1 (n - n / 2) true H0) as [dp ->]. cbn [rbind].
    destruct (thresholds_at_fpr_total s dp Hn) as [pt ->]. cbn [rbind]. eauto.
  Qed.

  Theorem roc_defined s fnr fpr thresholds nb_points a :
    len (pos s) <> 0%Z -> len (neg s) <> 0%Z -> (forall n, nb_points = Some n -> (0 <= n)%Z) ->
    exists c, roc succ pred s fnr fpr thresholds nb_points (XName a) = Ret c.
  Proof.
    intros Hp Hn Hnb. unfold roc, find_support_thresholds. cbn [extra_split].
    destruct (support_base_total s fnr fpr thresholds nb_points Hp Hn Hnb) as [b ->]. cbn [rbind].
    destruct (support_tail_total s a b) as [th ->]. cbn [rbind]. eauto.
  Qed.
  Theorem roc_unknown_axis_raises s fnr fpr thresholds nb_points :
    roc succ pred s fnr fpr thresholds nb_points XOther = Raise.
  Proof.
    unfold roc, find_support_thresholds. cbn [extra_split].
    destruct (support_base succ pred s fnr fpr thresholds nb_points); [|reflexivity]. reflexivity.
  Qed.

  (* ---------- roc: rates at the returned thresholds ---------- *)
  Theorem roc_rates s fnr fpr thresholds nb_points x c :
    roc succ pred s fnr fpr thresholds nb_points x = Ret c ->
    find_support_thresholds succ pred s fnr fpr thresholds nb_points None x = Ret (rc_thresholds c) /\
    rc_fnr c = map (fun t => s_fnr s (Fin t)) (rc_thresholds c) /\
    rc_fpr c = map (fun t => s_fpr s (Fin t)) (rc_thresholds c) /\
    length (rc_fnr c) = length (rc_thresholds c) /\ length (rc_fpr c) = length (rc_thresholds c) /\
    rc_fnr_ci c = None /\ rc_fpr_ci c = None.
  Proof.
    unfold roc. intro H. apply rbind_ret in H. destruct H as (th & Hth & H). injection H as <-.
    cbn [rc_fnr rc_fpr rc_thresholds rc_fnr_ci rc_fpr_ci]. unfold rates_at. rewrite !map_length. auto 10.
  Qed.
End Facts.

(* ---------- monotonicity of the rates in the threshold ---------- *)
Lemma dec_pos_antitone ec x t1 t2 : t1 <= t2 -> dec Pos ec x (Fin t2) = true -> dec Pos ec x (Fin t1) = true.
Proof.
  intros Ht. unfold dec, lt_ext, le_ext. destruct ec; rewrite !negb_true_iff; intro H; qb; lra.
Qed.
Lemma dec_neg_monotone ec x t1 t2 : t1 <= t2 -> dec Neg ec x (Fin t1) = true -> dec Neg ec x (Fin t2) = true.
Proof. intros Ht. unfold dec, lt_ext, le_ext. destruct ec; intro H; qb; lra. Qed.

Lemma count_dec_pos ec l t1 t2 : t1 <= t2 ->
  (count (fun x => dec Pos ec x (Fin t2)) l <= count (fun x => dec Pos ec x (Fin t1)) l)%Z.
Proof. intro H. apply count_impl. intro x. now apply dec_pos_antitone. Qed.
Lemma count_dec_neg ec l t1 t2 : t1 <= t2 ->
  (count (fun x => dec Neg ec x (Fin t1)) l <= count (fun x => dec Neg ec x (Fin t2)) l)%Z.
Proof. intro H. apply count_impl. intro x. now apply dec_neg_monotone. Qed.
Lemma count_ndec sc ec l t : count (fun x => ndec sc ec x t) l = (len l - count (fun x => dec sc ec x t) l)%Z.
Proof. unfold ndec. apply (count_negb (fun x => dec sc ec x t)). Qed.

(* false negatives grow, false positives shrink with the threshold when high scores are positive; the other way
   round when low scores are positive *)
Lemma cfn_mono s t1 t2 : t1 <= t2 ->
  match score_class s with
  | Pos => (cfn (cm s (Fin t1)) <= cfn (cm s (Fin t2)))%Z
  | Neg => (cfn (cm s (Fin t2)) <= cfn (cm s (Fin t1)))%Z
  end.
Proof.
  intro H. rewrite !cm_counts. cbn [cfn]. rewrite !count_ndec.
  destruct (score_class s).
  - pose proof (count_dec_pos (equal_class s) (pos s) t1 t2 H). lia.
  - pose proof (count_dec_neg (equal_class s) (pos s) t1 t2 H). lia.
Qed.
Lemma cfp_mono s t1 t2 : t1 <= t2 ->
  match score_class s with
  | Pos => (cfp (cm s (Fin t2)) <= cfp (cm s (Fin t1)))%Z
  | Neg => (cfp (cm s (Fin t1)) <= cfp (cm s (Fin t2)))%Z
  end.
Proof.
  intro H. rewrite !cm_counts. cbn [cfp].
  destruct (score_class s).
  - apply count_dec_pos, H.
  - apply count_dec_neg, H.
Qed.

Lemma rle_rdiv n1 n2 d1 d2 : d1 == d2 -> 0 <= d1 -> n1 <= n2 -> rle (rdiv n1 d1) (rdiv n2 d2).
Proof.
  intros Hd H0 Hn. unfold rdiv, rle.
  destruct (Qeqb d1 0) eqn:E1, (Qeqb d2 0) eqn:E2; auto.
  - apply Qeqb_eq in E1. assert (X : Qeqb d2 0 = true) by (apply Qeqb_eq; lra). congruence.
  - apply Qeqb_eq in E2. assert (X : Qeqb d1 0 = true) by (apply Qeqb_eq; lra). congruence.
  - assert (Hp : 0 < d1). { destruct (Qlt_le_dec 0 d1) as [L|L]; [exact L|]. exfalso.
      assert (X : Qeqb d1 0 = true) by (apply Qeqb_eq; lra). congruence. }
    unfold Qdiv. rewrite <- Hd. apply Qmult_le_compat_r; [exact Hn|]. apply Qinv_le_0_compat. lra.
Qed.
Lemma rle_rcompl a b : rle a b -> rle (rcompl b) (rcompl a).
Proof. destruct a, b; simpl; auto. intro. lra. Qed.
Lemma rle_refl a : rle a a.
Proof. destruct a; simpl; auto. lra. Qed.

Lemma fnr_den_const s t : inject_Z (ctp (cm s t)) + inject_Z (cfn (cm s t)) == inject_Z (len (pos s) + easy_pos s).
Proof. destruct (cm_margins s t) as [H _]. rewrite <- inject_Z_plus, H. reflexivity. Qed.
Lemma fpr_den_const s t : inject_Z (cfp (cm s t)) + inject_Z (ctn (cm s t)) == inject_Z (len (neg s) + easy_neg s).
Proof. destruct (cm_margins s t) as [_ H]. rewrite <- inject_Z_plus, H. reflexivity. Qed.

Definition easy_ok (s : scores) : Prop := (0 <= easy_pos s)%Z /\ (0 <= easy_neg s)%Z.

Lemma s_fnr_mono s t1 t2 : easy_ok s -> t1 <= t2 ->
  match score_class s with
  | Pos => rle (s_fnr s (Fin t1)) (s_fnr s (Fin t2))
  | Neg => rle (s_fnr s (Fin t2)) (s_fnr s (Fin t1))
  end.
Proof.
  intros [He _] Ht. pose proof (cfn_mono s t1 t2 Ht) as M. unfold s_fnr, fnr, to_cm2. cbn [m00 m01].
  pose proof (len_nonneg (pos s)).
  destruct (score_class s); apply rle_rdiv.
  1,4: rewrite !fnr_den_const; reflexivity.
  1,3: rewrite fnr_den_const; change 0 with (inject_Z 0); rewrite <- Zle_Qle; lia.
  all: rewrite <- Zle_Qle; exact M.
Qed.
Lemma s_fpr_mono s t1 t2 : easy_ok s -> t1 <= t2 ->
  match score_class s with
  | Pos => rle (s_fpr s (Fin t2)) (s_fpr s (Fin t1))
  | Neg => rle (s_fpr s (Fin t1)) (s_fpr s (Fin t2))
  end.
Proof.
  intros [_ He] Ht. pose proof (cfp_mono s t1 t2 Ht) as M. unfold s_fpr, fpr, to_cm2. cbn [m10 m11].
  pose proof (len_nonneg (neg s)).
  destruct (score_class s); apply rle_rdiv.
  1,4: rewrite !fpr_den_const; reflexivity.
  1,3: rewrite fpr_den_const; change 0 with (inject_Z 0); rewrite <- Zle_Qle; lia.
  all: rewrite <- Zle_Qle; exact M.
Qed.

(* the metric named by an x_axis string, as a function of the threshold *)
Definition view_fn (a : axis8) (s : scores) (t : Q) : rate :=
  match a with
  | XFnr | XFrr => s_fnr s (Fin t)
  | XFpr | XFar => s_fpr s (Fin t)
  | XTnr | XTrr => rcompl (s_fpr s (Fin t))
  | XTpr | XTar => rcompl (s_fnr s (Fin t))
  end.
(* does the metric grow with the threshold *)
Definition grows (a : axis8) (s : scores) : bool :=
  match a with
  | XFnr | XFrr | XTnr | XTrr => label_eqb (score_class s) Pos
  | _ => label_eqb (score_class s) Neg
  end.
Lemma view_fn_mono a s t1 t2 : easy_ok s -> t1 <= t2 ->
  if grows a s then rle (view_fn a s t1) (view_fn a s t2) else rle (view_fn a s t2) (view_fn a s t1).
Proof.
  intros He Ht. pose proof (s_fnr_mono s t1 t2 He Ht) as F. pose proof (s_fpr_mono s t1 t2 He Ht) as P.
  unfold grows, view_fn. destruct a, (score_class s); cbn [label_eqb]; auto using rle_rcompl.
Qed.

Lemma view_roc a s ths : view a (mkROC (rates_at s_fnr s ths) (rates_at s_fpr s ths) ths None None) = map (view_fn a s) ths.
Proof.
  unfold view, v_tar, v_trr, v_far, v_frr, v_tpr, v_tnr, rates_at. cbn [rc_fnr rc_fpr].
  destruct a; rewrite ?map_map; reflexivity.
Qed.

Theorem roc_monotone succ pred s fnr fpr thresholds nb_points a c :
  easy_ok s -> roc succ pred s fnr fpr thresholds nb_points (XName a) = Ret c -> nondecreasing (view a c).
Proof.
  intros He H. unfold roc in H. apply rbind_ret in H. destruct H as (th & Hth & H). injection H as <-.
  rewrite view_roc. unfold find_support_thresholds in Hth. cbn [extra_split] in Hth.
  apply rbind_ret in Hth. destruct Hth as (b & _ & Hth). cbn [rbind] in Hth.
  apply support_tail_ret in Hth. destruct Hth as (a' & Ea & ->). injection Ea as <-.
  pose proof (isort_sorted b) as Hs. unfold sorted in Hs.
  pose proof (fun t1 t2 => view_fn_mono a s t1 t2 He) as M.
  assert (Up : grows a s = true -> forall l, StronglySorted Qle l -> nondecreasing (map (view_fn a s) l)).
  { intros G l Hl. eapply SS_map; [|exact Hl]. intros t1 t2 Ht. specialize (M t1 t2 Ht). now rewrite G in M. }
  assert (Dn : grows a s = false -> forall l, StronglySorted (fun x y => y <= x) l -> nondecreasing (map (view_fn a s) l)).
  { intros G l Hl. eapply SS_map; [|exact Hl]. intros t1 t2 Ht. specialize (M t2 t1 Ht). now rewrite G in M. }
  assert (R1 : StronglySorted (fun x y => y <= x) (rev (isort b))) by (apply SS_rev; exact Hs).
  assert (R2 : StronglySorted Qle (rev (rev (isort b)))) by (rewrite rev_involutive; exact Hs).
  unfold grows in Up, Dn.
  destruct a, (score_class s); cbn [label_eqb xaxis_in existsb decreasing_axes axis8_eqb orb] in *; auto.
Qed.

(* ---------- derived views ---------- *)
Lemma rcompl_fnr_is_tpr s t : req (rcompl (s_fnr s t)) (s_tpr s t).
Proof.
  unfold s_fnr, s_tpr, fnr, tpr, rcompl, rdiv. set (m := to_cm2 (cm s t)).
  destruct (Qeqb (m00 m + m01 m) 0) eqn:E; simpl; [exact I|].
  assert (~ m00 m + m01 m == 0) by (intro X; apply Qeqb_eq in X; congruence). field. exact H.
Qed.
Lemma rcompl_fpr_is_tnr s t : req (rcompl (s_fpr s t)) (s_tnr s t).
Proof.
  unfold s_fpr, s_tnr, fpr, tnr, rcompl, rdiv. set (m := to_cm2 (cm s t)).
  destruct (Qeqb (m10 m + m11 m) 0) eqn:E; simpl; [exact I|].
  assert (~ m10 m + m11 m == 0) by (intro X; apply Qeqb_eq in X; congruence). field. exact H.
Qed.

Theorem roc_views succ pred s fnr fpr thresholds nb_points x c :
  roc succ pred s fnr fpr thresholds nb_points x = Ret c ->
  v_tpr c = map rcompl (rc_fnr c) /\ v_tnr c = map rcompl (rc_fpr c) /\
  v_frr c = rc_fnr c /\ v_far c = rc_fpr c /\ v_tar c = v_tpr c /\ v_trr c = v_tnr c /\
  Forall2 req (v_tpr c) (map (fun t => s_tpr s (Fin t)) (rc_thresholds c)) /\
  Forall2 req (v_tnr c) (map (fun t => s_tnr s (Fin t)) (rc_thresholds c)) /\
  v_tpr_ci c = None /\ v_tnr_ci c = None /\ v_frr_ci c = None /\ v_far_ci c = None /\ v_tar_ci c = None /\ v_trr_ci c = None.
Proof.
  intro H. unfold roc in H. apply rbind_ret in H. destruct H as (th & _ & H). injection H as <-.
  unfold v_tar_ci, v_trr_ci, v_tpr_ci, v_tnr_ci, v_frr_ci, v_far_ci, v_tar, v_trr, v_tpr, v_tnr, v_frr, v_far, rates_at.
  cbn [rc_fnr rc_fpr rc_thresholds rc_fnr_ci rc_fpr_ci option_map]. repeat split; rewrite map_map.
  - induction th; simpl; constructor; [apply rcompl_fnr_is_tpr|assumption].
  - induction th; simpl; constructor; [apply rcompl_fpr_is_tnr|assumption].
Qed.

(* complement views of a confidence band: lower/upper swapped and complemented, so an ordered band stays ordered *)
Lemma compl_ci_nth ci j lo hi : nth j ci (None, None) = (lo, hi) -> nth j (compl_ci ci) (None, None) = (rcompl hi, rcompl lo).
Proof.
  unfold compl_ci. revert j. induction ci as [|p r IH]; intros [|j] H; simpl in *;
    try (injection H as <- <-; reflexivity); try (rewrite H; reflexivity); auto.
Qed.
