(* Proofs/MaterialisePartialAucFacts.v — C09: the partial AUC of the object with virtual easy samples equals that of the
   object in which they are actual scores, for every window 0 <= lo <= up <= 1, when no value is shared between the
   classes.  Route: both equal their exact step area (C07); the step area of the materialised object has the same
   cells and the same levels over the scored negatives, and its extra cells (materialised negatives, level 1)
   telescope to the flat extension of the virtual object. *)
From SA Require Import Model.Auc Model.Threshold Model.Symmetry Proofs.CmFacts Proofs.SentinelFacts Proofs.TrapzFacts Proofs.WindowFacts
  Proofs.ClampFacts Proofs.AucFacts Proofs.AucStepFacts Proofs.SymmetryFacts Proofs.MaterialiseAucFacts Proofs.MaterialiseThrFacts
  Proofs.MaterialisePoolFacts.
Open Scope Q_scope.

Lemma wsum_app w l1 l2 g : forall j, wsum w j (l1 ++ l2) g == wsum w j l1 g + wsum w (j + len l1) l2 g.
Proof.
  induction l1 as [|v r IH]; intro j; cbn [app wsum].
  - change (len (@nil Q)) with 0%Z. rewrite Z.add_0_r. ring.
  - rewrite IH. replace (j + 1 + len r)%Z with (j + len (v :: r))%Z by (unfold len; cbn [length]; lia). ring.
Qed.

(* cells of height 1 telescope *)
Lemma cells_telescope s lo up v g k : lo <= up -> (0 < Nall s)%Z -> g v == 1 -> forall j, (0 <= j)%Z ->
  wsum (cell s lo up) j (repeat v k) g
  == clampQ lo up (inject_Z (j + Z.of_nat k) / inject_Z (Nall s)) - clampQ lo up (inject_Z j / inject_Z (Nall s)).
Proof.
  intros Hlu HN Hg. assert (NQ : 0 < inject_Z (Nall s)) by (change 0 with (inject_Z 0); now rewrite <- Zlt_Qlt).
  induction k as [|k IH]; intros j Hj; cbn [repeat wsum].
  - rewrite Z.add_0_r. ring.
  - rewrite (IH (j + 1)%Z) by lia. rewrite Hg. unfold cell.
    rewrite ovl_clamp; [|apply Qmult_le_compat_r; [rewrite <- Zle_Qle; lia|apply Qlt_le_weak, Qinv_lt_0_compat; exact NQ]|exact Hlu].
    replace (j + 1 + Z.of_nat k)%Z with (j + Z.of_nat (S k))%Z by lia. ring.
Qed.

Lemma ovl_same a lo up : lo <= up -> ovl a a lo up == 0.
Proof. intro H. rewrite ovl_clamp by (lra || exact H). ring. Qed.

Lemma rev_repeat {A} (x : A) k : rev (repeat x k) = repeat x k.
Proof.
  induction k as [|k IH]; [reflexivity|]. cbn [repeat rev]. rewrite IH.
  clear IH. induction k as [|k IH]; [reflexivity|]. cbn [repeat app]. now rewrite IH.
Qed.

Section StepMat.
  Variables ps ns : list Q.
  Variables ep en : Z.
  Variable ec : label.
  Variables ppos pneg : Q.
  Hypothesis Hp : ps <> [].
  Hypothesis Hnn : ns <> [].
  Hypothesis Hep : (0 <= ep)%Z.
  Hypothesis Hen : (0 <= en)%Z.

  Lemma lenps : (1 <= len ps)%Z. Proof. destruct ps; [congruence|unfold len; cbn [length]; lia]. Qed.
  Lemma lenns : (1 <= len ns)%Z. Proof. destruct ns; [congruence|unfold len; cbn [length]; lia]. Qed.

  Section OneClass.
    Variable sc : label.
    Notation s := (M ps ns ep en sc ec).
    Notation sM := (mat_sorted s ppos pneg).
    Hypothesis Hb : beyond_all s ppos pneg.

    Lemma b_neg_lt : forall n, In n ns -> AucStepFacts.beyond sc ppos n = true.
    Proof.
      intros n Hn. unfold beyond_all, M in Hb. cbn [score_class pos neg] in Hb. unfold AucStepFacts.beyond.
      destruct sc; destruct Hb as (B1 & B2 & B3); qb.
      - rewrite Forall_forall in B2. apply B2. apply in_or_app. now left.
      - rewrite Forall_forall in B1. apply B1. apply in_or_app. now left.
    Qed.
    Lemma b_pneg_pos : forall p, In p ps -> AucStepFacts.beyond sc p pneg = true.
    Proof.
      intros p Hp'. unfold beyond_all, M in Hb. cbn [score_class pos neg] in Hb. unfold AucStepFacts.beyond.
      destruct sc; destruct Hb as (B1 & B2 & B3); qb.
      - rewrite Forall_forall in B1. apply B1. apply in_or_app. now right.
      - rewrite Forall_forall in B2. apply B2. apply in_or_app. now right.
    Qed.
    Lemma b_pneg_ppos : AucStepFacts.beyond sc ppos pneg = true.
    Proof.
      unfold beyond_all, M in Hb. cbn [score_class] in Hb. unfold AucStepFacts.beyond. destruct sc; destruct Hb as (B1 & B2 & B3); qb; exact B3.
    Qed.

    Lemma PallM : Pall sM = Pall s.
    Proof.
      unfold Pall, mat_sorted, M. cbn [score_class pos neg easy_pos easy_neg].
      destruct sc; cbn [pos easy_pos]; rewrite len_app, len_repeat; lia.
    Qed.
    Lemma NallM : Nall sM = Nall s.
    Proof.
      unfold Nall, mat_sorted, M. cbn [score_class pos neg easy_pos easy_neg].
      destruct sc; cbn [neg easy_neg]; rewrite len_app, len_repeat; lia.
    Qed.
    Lemma len_negM : len (neg sM) = Nall s.
    Proof. rewrite <- NallM. unfold Nall, mat_sorted, M. cbn [score_class]. destruct sc; cbn [neg easy_neg]; lia. Qed.
    Lemma onegM : oneg sM = oneg s ++ repeat pneg (Z.to_nat en).
    Proof.
      unfold oneg, mat_sorted, M. cbn [score_class pos neg easy_pos easy_neg].
      destruct sc; cbn [score_class neg]; [rewrite rev_app_distr, rev_repeat|]; reflexivity.
    Qed.
    Lemma count_posM f : (count f (pos sM) = count f ps + (if f ppos then Z.of_nat (Z.to_nat ep) else 0))%Z.
    Proof.
      unfold mat_sorted, M. cbn [score_class pos neg easy_pos easy_neg].
      destruct sc; cbn [pos]; rewrite count_app, count_repeat; lia.
    Qed.
    Lemma score_classM : score_class sM = sc.
    Proof. unfold mat_sorted, M. cbn [score_class]. destruct sc; reflexivity. Qed.
    Lemma easy_posM : easy_pos sM = 0%Z.
    Proof. unfold mat_sorted, M. cbn [score_class]. destruct sc; reflexivity. Qed.

    Lemma hlevelM_neg n : In n ns -> hlevel sM n == hlevel s n.
    Proof.
      intro Hn. unfold hlevel. rewrite PallM, score_classM, easy_posM, count_posM, (b_neg_lt n Hn).
      unfold M. cbn [pos easy_pos score_class]. rewrite Z2Nat.id by exact Hep. rewrite Z.add_0_r. reflexivity.
    Qed.
    Lemma hlevelM_pneg : hlevel sM pneg == 1.
    Proof.
      unfold hlevel. rewrite PallM, score_classM, easy_posM, count_posM, b_pneg_ppos.
      rewrite (count_all _ ps) by (apply Forall_forall; exact b_pneg_pos).
      rewrite Z2Nat.id by exact Hep. rewrite Z.add_0_r. unfold Pall, M. cbn [pos easy_pos].
      pose proof lenps. field. change 0 with (inject_Z 0). intro E. apply eq_Qeq_inject_Z || (rewrite inject_Z_injective in E; lia).
    Qed.
  End OneClass.
End StepMat.

Section Area.
  Variables ps ns : list Q.
  Variables ep en : Z.
  Variables sc ec : label.
  Variables ppos pneg : Q.
  Hypothesis Hp : ps <> [].
  Hypothesis Hnn : ns <> [].
  Hypothesis Hep : (0 <= ep)%Z.
  Hypothesis Hen : (0 <= en)%Z.
  Notation s := (M ps ns ep en sc ec).
  Notation sM := (mat_sorted s ppos pneg).
  Hypothesis Hb : beyond_all s ppos pneg.

  Lemma oneg_sub n : In n (oneg s) -> In n ns.
  Proof. unfold oneg, M. cbn [score_class neg]. destruct sc; [intro H; now apply in_rev in H|auto]. Qed.
  Lemma len_oneg : len (oneg s) = len ns.
  Proof. unfold oneg, M. cbn [score_class neg]. destruct sc; [unfold len; now rewrite rev_length|reflexivity]. Qed.

  Lemma step_area_mat lo up : lo <= up -> step_area sM lo up == step_area s lo up.
  Proof.
    intro Hlu. unfold step_area.
    assert (NP : (0 < Nall s)%Z) by (unfold Nall, M; cbn [neg easy_neg]; pose proof (lenns ns Hnn); lia).
    assert (NQ : 0 < inject_Z (Nall s)) by (change 0 with (inject_Z 0); now rewrite <- Zlt_Qlt).
    assert (CE : forall j, cell sM lo up j = cell s lo up j) by (intro j; unfold cell; now rewrite (NallM ps ns ep en ec ppos pneg Hen sc Hb)).
    rewrite (onegM ps ns ep en ec ppos pneg sc Hb), wsum_app.
    assert (W1 : wsum (cell sM lo up) 0 (oneg s) (hlevel sM) == wsum (cell s lo up) 0 (oneg s) (hlevel s)).
    { apply wsum_ext; [intro i; rewrite CE; reflexivity|].
      intros v Hv. apply (hlevelM_neg ps ns ep en ec ppos pneg Hep sc Hb). now apply oneg_sub. }
    assert (W2 : wsum (cell sM lo up) (0 + len (oneg s)) (repeat pneg (Z.to_nat en)) (hlevel sM)
                 == wsum (cell s lo up) (0 + len (oneg s)) (repeat pneg (Z.to_nat en)) (hlevel sM)).
    { apply wsum_ext; [intro i; rewrite CE; reflexivity|reflexivity]. }
    rewrite W1, W2.
    rewrite (cells_telescope s lo up pneg (hlevel sM) (Z.to_nat en) Hlu NP
               (hlevelM_pneg ps ns ep en ec ppos pneg Hp Hep sc Hb)) by (rewrite len_oneg; pose proof (lenns ns Hnn); lia).
    rewrite (len_negM ps ns ep en ec ppos pneg Hen sc Hb), (NallM ps ns ep en ec ppos pneg Hen sc Hb).
    rewrite len_oneg, Z.add_0_l, Z2Nat.id by exact Hen.
    assert (E1 : inject_Z (len ns + en) / inject_Z (Nall s) == 1) by (unfold Nall, M; cbn [neg easy_neg]; field; unfold Nall, M in NQ; cbn [neg easy_neg] in NQ; lra).
    assert (E2 : inject_Z (Nall s) / inject_Z (Nall s) == 1) by (field; lra).
    rewrite (clampQ_compat lo up _ _ E1).
    assert (O1 : ovl (inject_Z (Nall s) / inject_Z (Nall s)) 1 lo up == 0).
    { rewrite ovl_clamp by (lra || exact Hlu). rewrite (clampQ_compat lo up _ _ E2). ring. }
    rewrite O1.
    change (len (neg s)) with (len ns).
    assert (Le : inject_Z (len ns) / inject_Z (Nall s) <= 1).
    { apply Qle_shift_div_r; [exact NQ|]. rewrite Qmult_1_l, <- Zle_Qle. unfold Nall, M. cbn [neg easy_neg]. lia. }
    rewrite (ovl_clamp (inject_Z (len ns) / inject_Z (Nall s)) 1 lo up Le Hlu). ring.
  Qed.
End Area.

Lemma sorted_repeat_app a k l : sorted l -> Forall (fun y => a <= y) l -> sorted (repeat a k ++ l).
Proof.
  unfold sorted. intros Hs Ha. induction k as [|k IH]; cbn [repeat app]; [exact Hs|].
  constructor; [exact IH|]. apply Forall_app. split; [|exact Ha].
  clear. induction k as [|k IH]; cbn [repeat]; constructor; [lra|exact IH].
Qed.

Lemma Forall_lt_le' (l : list Q) p : Forall (fun a => p < a) l -> Forall (fun a => p <= a) l.
Proof. apply Forall_impl. intros a H. lra. Qed.

Lemma beyond_all_own s ppos pneg : beyond_all s ppos pneg -> beyond_own s ppos pneg.
Proof.
  unfold beyond_all, beyond_own. destruct (score_class s); intros (B1 & B2 & B3);
    apply Forall_app in B1; apply Forall_app in B2; destruct B1 as [B1n B1p], B2 as [B2n B2p]; split; assumption.
Qed.

Lemma mat_sorted_wf s ppos pneg : wf s -> beyond_all s ppos pneg -> wf (mat_sorted s ppos pneg).
Proof.
  intros [Wp Wn] Hb. pose proof (beyond_all_own s ppos pneg Hb) as Ho. unfold beyond_own, mat_sorted, wf in *.
  destruct (score_class s); destruct Ho as [Bp Bn]; cbn [pos neg]; split.
  - apply sorted_app_repeat; [exact Wp|now apply Forall_lt_le].
  - apply sorted_repeat_app; [exact Wn|now apply Forall_lt_le'].
  - apply sorted_repeat_app; [exact Wp|now apply Forall_lt_le'].
  - apply sorted_app_repeat; [exact Wn|now apply Forall_lt_le].
Qed.

Section Final.
  Variable isD : Q -> Prop.
  Variable succ pred : Q -> Q.
  Hypothesis HC : carrier isD succ pred.

  Theorem materialise_partial_auc s ppos pneg lo up :
    wf s -> pos s <> [] -> neg s <> [] -> (0 <= easy_pos s)%Z -> (0 <= easy_neg s)%Z ->
    Forall isD (pos s ++ neg s) -> isD ppos -> isD pneg ->
    (forall p n, In p (pos s) -> In n (neg s) -> ~ p == n) -> beyond_all s ppos pneg ->
    0 <= lo -> lo <= up -> up <= 1 ->
    auc succ pred (materialise s ppos pneg) lo up AFpr ATpr == auc succ pred s lo up AFpr ATpr.
  Proof.
    intros W Hp Hn Hep Hen HD Dp Dn NT Hb L0 Lu U1.
    rewrite (materialise_is_mat_sorted s ppos pneg W (beyond_all_own s ppos pneg Hb)).
    rewrite (stmt_partial_step_area isD succ pred HC s lo up W Hp Hn Hep Hen HD NT L0 Lu U1).
    destruct s as [ps ns ep en sc ec]. change (mkScores ps ns ep en sc ec) with (M ps ns ep en sc ec) in *.
    cbn [pos neg easy_pos easy_neg M] in Hp, Hn, Hep, Hen, HD, NT.
    rewrite <- (step_area_mat ps ns ep en sc ec ppos pneg Hp Hn Hep Hen Hb lo up Lu).
    pose proof (beyond_all_own _ _ _ Hb) as Ho.
    apply (stmt_partial_step_area isD succ pred HC); try assumption.
    - apply mat_sorted_wf; assumption.
    - unfold mat_sorted, M. cbn [score_class pos neg easy_pos]. destruct sc; cbn [pos]; intro E; apply app_eq_nil in E; destruct E; congruence.
    - unfold mat_sorted, M. cbn [score_class pos neg easy_neg]. destruct sc; cbn [neg]; intro E; apply app_eq_nil in E; destruct E; congruence.
    - unfold mat_sorted, M. cbn [score_class]. destruct sc; cbn [easy_pos]; lia.
    - unfold mat_sorted, M. cbn [score_class]. destruct sc; cbn [easy_neg]; lia.
    - apply Forall_app in HD. destruct HD as [HDp HDn].
      assert (Rp : forall k, Forall isD (repeat ppos k)) by (intro k; apply Forall_forall; intros y Hy; apply repeat_spec in Hy; now subst).
      assert (Rn : forall k, Forall isD (repeat pneg k)) by (intro k; apply Forall_forall; intros y Hy; apply repeat_spec in Hy; now subst).
      unfold mat_sorted, M. cbn [score_class pos neg easy_pos easy_neg]. destruct sc; cbn [pos neg]; repeat (apply Forall_app; split); auto.
    - (* no value shared between the classes of the materialised object *)
      unfold beyond_all, M in Hb. cbn [score_class pos neg] in Hb.
      intros p n Hpi Hni.
      assert (Pin : In p ps \/ p = ppos).
      { unfold mat_sorted, M in Hpi. cbn [score_class pos neg easy_pos easy_neg] in Hpi.
        destruct sc; cbn [pos] in Hpi; apply in_app_or in Hpi; destruct Hpi as [H|H]; auto; apply repeat_spec in H; auto. }
      assert (Nin : In n ns \/ n = pneg).
      { unfold mat_sorted, M in Hni. cbn [score_class pos neg easy_pos easy_neg] in Hni.
        destruct sc; cbn [neg] in Hni; apply in_app_or in Hni; destruct Hni as [H|H]; auto; apply repeat_spec in H; auto. }
      destruct sc; destruct Hb as (B1 & B2 & B3); rewrite Forall_forall in B1, B2;
        destruct Pin as [Pi|Pi], Nin as [Ni|Ni]; subst.
      + now apply NT.
      + specialize (B1 p (in_or_app _ _ _ (or_intror Pi))). lra.
      + specialize (B2 n (in_or_app _ _ _ (or_introl Ni))). lra.
      + lra.
      + now apply NT.
      + specialize (B2 p (in_or_app _ _ _ (or_intror Pi))). lra.
      + specialize (B1 n (in_or_app _ _ _ (or_introl Ni))). lra.
      + lra.
  Qed.
End Final.
