(* Proofs/SentinelFacts.v — counts at thresholds outside the range of a list; used by C03, C06, C09. *)
From SA Require Import Model.Threshold.
Open Scope Q_scope.

Lemma count_below_all (l : list Q) (t : Q) :
  Forall (fun x => t < x) l ->
  count (fun x => lt_ext x (Fin t)) l = 0%Z /\ count (fun x => le_ext x (Fin t)) l = 0%Z.
Proof.
  intro H. split; apply count_none; eapply Forall_impl; [|exact H| |exact H]; simpl; intros a Ha; qb; lra.
Qed.
Lemma count_above_all (l : list Q) (t : Q) :
  Forall (fun x => x < t) l ->
  count (fun x => lt_ext x (Fin t)) l = len l /\ count (fun x => le_ext x (Fin t)) l = len l.
Proof.
  intro H. split; apply count_all; eapply Forall_impl; [|exact H| |exact H]; simpl; intros a Ha; qb; lra.
Qed.
Lemma count_neginf (l : list Q) :
  count (fun x => lt_ext x NegInf) l = 0%Z /\ count (fun x => le_ext x NegInf) l = 0%Z.
Proof. split; apply count_none; apply Forall_forall; reflexivity. Qed.
Lemma count_posinf (l : list Q) :
  count (fun x => lt_ext x PosInf) l = len l /\ count (fun x => le_ext x PosInf) l = len l.
Proof. split; apply count_all; apply Forall_forall; reflexivity. Qed.

Lemma searchsorted_below_all sd l t : Forall (fun x => t < x) l -> searchsorted sd l (Fin t) = searchsorted sd l NegInf.
Proof.
  intro H. destruct (count_below_all l t H) as [A B], (count_neginf l) as [C D].
  unfold searchsorted; destruct sd; congruence.
Qed.
Lemma searchsorted_above_all sd l t : Forall (fun x => x < t) l -> searchsorted sd l (Fin t) = searchsorted sd l PosInf.
Proof.
  intro H. destruct (count_above_all l t H) as [A B], (count_posinf l) as [C D].
  unfold searchsorted; destruct sd; congruence.
Qed.

(* first / last element bound a sorted list *)
Lemma sorted_bounds (l : list Q) :
  sorted l -> Forall (fun x => nthZ l 0 <= x /\ x <= nthZ l (len l - 1)) l.
Proof.
  intro Hs. apply Forall_forall. intros x Hx.
  destruct (In_nth l x 0 Hx) as [i [Hi Hnth]]. subst x. unfold nthZ, len.
  replace (Z.to_nat 0) with 0%nat by reflexivity.
  replace (Z.to_nat (Z.of_nat (length l) - 1)) with (length l - 1)%nat by lia.
  split; apply sorted_nth_mono; try assumption; lia.
Qed.

Section Sentinels.
  Variable succ pred : Q -> Q.
  Hypothesis Hsucc : forall x, x < succ x.
  Hypothesis Hpred : forall x, pred x < x.

  Lemma below_lower_sentinel l : sorted l -> Forall (fun x => pred (nthZ l 0) < x) l.
  Proof.
    intro Hs. eapply Forall_impl; [|apply sorted_bounds, Hs]. simpl. intros a [Ha _].
    pose proof (Hpred (nthZ l 0)). lra.
  Qed.
  Lemma above_upper_sentinel l : sorted l -> Forall (fun x => x < succ (nthZ l (len l - 1))) l.
  Proof.
    intro Hs. eapply Forall_impl; [|apply sorted_bounds, Hs]. simpl. intros a [_ Ha].
    pose proof (Hsucc (nthZ l (len l - 1))). lra.
  Qed.
End Sentinels.

(* sentinels of the sorted concatenation lie outside both classes *)
Lemma Forall_isort (P : Q -> Prop) l : Forall P (isort l) <-> Forall P l.
Proof. split; apply Permutation_Forall; [apply Permutation_sym|]; apply isort_perm. Qed.
