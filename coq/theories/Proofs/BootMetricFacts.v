(* Proofs/BootMetricFacts.v — facts about the model of Scores.bootstrap_metric / bootstrap_ci. *)
From SA Require Import Model.BootMetric Proofs.QuantileFacts Proofs.BootCIFacts.
Open Scope Q_scope.

(* rows of a successful loop: as many as iterations, row j is the j-th body *)
Lemma for_rows_spec {A} n (body : nat -> res A) rows (d : A) :
  for_rows n body = Ok rows ->
  length rows = n /\ forall j, (j < n)%nat -> body j = Ok (nth j rows d).
Proof.
  unfold for_rows. intro H. apply sequence_res_ok in H.
  assert (L : length rows = n).
  { rewrite <- (map_length (@Ok A) rows), <- H, map_length, seq_length. reflexivity. }
  split; [exact L|]. intros j Hj.
  assert (E := f_equal (fun l => nth j l Err) H). cbv beta in E.
  rewrite (nth_map_in body (seq 0 n) j Err 0%nat) in E by (rewrite seq_length; exact Hj).
  rewrite seq_nth in E by exact Hj.
  rewrite (nth_map_in (@Ok A) rows j Err d) in E by lia. exact E.
Qed.

Lemma for_rows_all_ok {A} n (body : nat -> res A) (f : nat -> A) :
  (forall j, (j < n)%nat -> body j = Ok (f j)) -> for_rows n body = Ok (map f (seq 0 n)).
Proof.
  intro Hb. unfold for_rows. apply sequence_res_ok. rewrite map_map.
  apply map_ext_in. intros j Hj. apply in_seq in Hj. apply Hb. lia.
Qed.

Lemma for_rows_ext {A} n (b1 b2 : nat -> res A) :
  (forall j, (j < n)%nat -> b1 j = b2 j) -> for_rows n b1 = for_rows n b2.
Proof.
  intro Hb. unfold for_rows. f_equal. apply map_ext_in. intros j Hj. apply in_seq in Hj. apply Hb. lia.
Qed.

Lemma map_const_seq {A} (c : A) n s : map (fun _ => c) (seq s n) = repeat c n.
Proof. revert s. induction n as [|n IH]; intro s; simpl; [reflexivity|now rewrite IH]. Qed.

Section Facts.
  Variables S K V N H R : Type.
  Variable dynamic_choice : S -> config S -> sampling S.
  Variable builtin_sample : sampling S -> S -> config S -> H -> res S.
  Variable getattr_type : S -> N -> metric_fn S K V.
  Variable utils_bootstrap_ci : list V -> option V -> Q -> method -> res R.

  Notation bootstrap_sample := (bootstrap_sample S H dynamic_choice builtin_sample).
  Notation bootstrap_metric := (bootstrap_metric S K V N H dynamic_choice builtin_sample getattr_type).
  Notation bootstrap_ci_m := (bootstrap_ci_m S K V N H R dynamic_choice builtin_sample getattr_type utils_bootstrap_ci).
  Notation resolve_metric := (resolve_metric S K V N getattr_type).

  (* one row per bootstrap sample; row j is the metric, with the caller's kwargs, of the j-th sample
     produced by the configured sampler *)
  Lemma bootstrap_metric_rows self metric cfg hist kw rows d :
    bootstrap_metric self metric cfg hist kw = Ok rows ->
    length rows = nb_samples cfg /\
    forall j, (j < nb_samples cfg)%nat ->
      exists sample, bootstrap_sample self cfg (hist j) j = Ok sample /\
                     nth j rows d = resolve_metric self metric sample kw.
  Proof.
    unfold bootstrap_metric, BootMetric.bootstrap_metric. cbv zeta. intro Hr.
    destruct (for_rows_spec _ _ _ d Hr) as [L Hj]. split; [exact L|].
    intros j Hlt. specialize (Hj j Hlt).
    destruct (bootstrap_sample self cfg (hist j) j) as [sample|]; [|discriminate].
    exists sample. split; [reflexivity|]. simpl in Hj. now injection Hj as <-.
  Qed.

  (* conversely, if every sampling call succeeds the result is exactly that list of rows *)
  Lemma bootstrap_metric_ok self metric cfg hist kw (samples : nat -> S) :
    (forall j, (j < nb_samples cfg)%nat -> bootstrap_sample self cfg (hist j) j = Ok (samples j)) ->
    bootstrap_metric self metric cfg hist kw
    = Ok (map (fun j => resolve_metric self metric (samples j) kw) (seq 0 (nb_samples cfg))).
  Proof.
    intro Hs. unfold bootstrap_metric, BootMetric.bootstrap_metric. cbv zeta.
    apply for_rows_all_ok. intros j Hj. now rewrite (Hs j Hj).
  Qed.

  (* a sampling failure (ValueError) propagates *)
  Lemma bootstrap_metric_err self metric cfg hist kw j :
    (j < nb_samples cfg)%nat -> bootstrap_sample self cfg (hist j) j = Err ->
    bootstrap_metric self metric cfg hist kw = Err.
  Proof.
    intros Hj He. unfold bootstrap_metric, BootMetric.bootstrap_metric, for_rows. cbv zeta.
    apply sequence_res_err. apply in_map_iff. exists j. split; [now rewrite He|apply in_seq; lia].
  Qed.

  (* keyword arguments are forwarded unchanged: fixing them inside the metric gives the same rows *)
  Lemma bootstrap_metric_kwargs self (f : metric_fn S K V) cfg hist kw kw' :
    bootstrap_metric self (Callable f) cfg hist kw
    = bootstrap_metric self (Callable (fun x _ => f x kw)) cfg hist kw'.
  Proof. reflexivity. Qed.

  (* a metric given by name is the attribute of the object's own class *)
  Lemma bootstrap_metric_by_name self nm cfg hist kw :
    bootstrap_metric self (ByName nm) cfg hist kw
    = bootstrap_metric self (Callable (getattr_type self nm)) cfg hist kw.
  Proof. reflexivity. Qed.

  (* custom sampler dispatch: a callable sampling_method is called on self, once per iteration *)
  Lemma custom_sampler_dispatch self cfg f h j :
    sampling_method cfg = SCallable f -> bootstrap_sample self cfg h j = Ok (f j self).
  Proof.
    intro E. unfold bootstrap_sample, BootMetric.bootstrap_sample, resolved_sampling. now rewrite E.
  Qed.
  Lemma unsupported_sampler_raises self cfg h j :
    sampling_method cfg = SUnsupportedStr \/ sampling_method cfg = SOther -> bootstrap_sample self cfg h j = Err.
  Proof.
    intros [E|E]; unfold bootstrap_sample, BootMetric.bootstrap_sample, resolved_sampling; now rewrite E.
  Qed.

  Lemma bootstrap_metric_custom self metric cfg f hist kw :
    sampling_method cfg = SCallable f ->
    bootstrap_metric self metric cfg hist kw
    = Ok (map (fun j => resolve_metric self metric (f j self) kw) (seq 0 (nb_samples cfg))).
  Proof. intro E. apply bootstrap_metric_ok. intros j _. now apply custom_sampler_dispatch. Qed.

  (* bootstrap_ci = the CI routine applied to those replicates, the metric of the original object as estimate,
     the caller's alpha and the configured method *)
  Lemma bootstrap_ci_m_spec self metric alpha cfg hist kw :
    bootstrap_ci_m self metric alpha cfg hist kw =
    match bootstrap_metric self metric cfg hist kw with
    | Ok rows => utils_bootstrap_ci rows (Some (resolve_metric self metric self kw)) alpha (bootstrap_method cfg)
    | Err => Err
    end.
  Proof. destruct metric; reflexivity. Qed.

  (* identity sampler: every replicate row is the point estimate *)
  Lemma bootstrap_metric_identity self metric cfg hist kw :
    (forall j, (j < nb_samples cfg)%nat -> bootstrap_sample self cfg (hist j) j = Ok self) ->
    bootstrap_metric self metric cfg hist kw = Ok (repeat (resolve_metric self metric self kw) (nb_samples cfg)).
  Proof.
    intro Hs. rewrite (bootstrap_metric_ok self metric cfg hist kw (fun _ => self) Hs). f_equal.
    apply map_const_seq.
  Qed.

  (* determinism: the result is a function of the arguments and of the draw histories of the calls made *)
  Lemma bootstrap_metric_deterministic self metric cfg hist hist' kw :
    (forall j, (j < nb_samples cfg)%nat -> hist j = hist' j) ->
    bootstrap_metric self metric cfg hist kw = bootstrap_metric self metric cfg hist' kw.
  Proof.
    intro Hh. unfold bootstrap_metric, BootMetric.bootstrap_metric. cbv zeta.
    apply for_rows_ext. intros j Hj. now rewrite (Hh j Hj).
  Qed.
  Lemma bootstrap_ci_m_deterministic self metric alpha cfg hist hist' kw :
    (forall j, (j < nb_samples cfg)%nat -> hist j = hist' j) ->
    bootstrap_ci_m self metric alpha cfg hist kw = bootstrap_ci_m self metric alpha cfg hist' kw.
  Proof.
    intro Hh. rewrite !bootstrap_ci_m_spec. now rewrite (bootstrap_metric_deterministic self metric cfg hist hist' kw Hh).
  Qed.
End Facts.

(* ---------- name resolution along the class chain ---------- *)
Section Chain.
  Variables N F : Type.
  Variable N_eqb : N -> N -> bool.
  Notation lookup := (lookup N F N_eqb).
  Notation lookup_mro := (lookup_mro N F N_eqb).

  (* an attribute defined by the object's own class wins over the base classes *)
  Lemma lookup_mro_subclass own bases nm f : lookup own nm = Some f -> lookup_mro (own :: bases) nm = Some f.
  Proof. intro H. simpl. now rewrite H. Qed.
  (* otherwise it is inherited *)
  Lemma lookup_mro_inherited own bases nm : lookup own nm = None -> lookup_mro (own :: bases) nm = lookup_mro bases nm.
  Proof. intro H. simpl. now rewrite H. Qed.
End Chain.

(* ---------- identity sampler + the C13 routine: the interval collapses to the point estimate ---------- *)
Lemma count_repeat_true {A} (f : A -> bool) c n : f c = true -> count f (repeat c n) = Z.of_nat n.
Proof.
  intro H. induction n as [|n IH]; [reflexivity|]. cbn [repeat count]. rewrite H, IH. lia.
Qed.
Lemma somes_repeat c n : somes (repeat (Some c) n) = repeat c n.
Proof. induction n as [|n IH]; simpl; [reflexivity|now rewrite IH]. Qed.

Section Collapse.
  Variables Phi PhiInv pow15 : Q -> Q.
  Notation ci_col := (ci_col Phi PhiInv pow15).

  (* one component whose finite replicates all equal the estimate c *)
  Lemma p0_const col c : somes col <> [] -> (forall x, In (Some x) col -> x == c) ->
    exists p, p0_of col (Some c) = Some p /\ p == 1.
  Proof.
    intros Hne Hc. unfold p0_of.
    assert (C : count (le_hat (Some c)) (somes col) = len (somes col)).
    { apply count_all. apply Forall_forall. intros x Hx. apply somes_In in Hx. simpl. qb. rewrite (Hc x Hx). apply Qle_refl. }
    rewrite C.
    assert (NZ : ~ inject_Z (len (somes col)) == 0).
    { intro E. apply (proj1 (inject_Z_injective _ 0%Z)) in E. apply len_zero_nil in E. contradiction. }
    rewrite rdiv_some by exact NZ. eexists. split; [reflexivity|]. field. exact NZ.
  Qed.

  Lemma ci_col_const m col c alpha :
    0 < alpha -> alpha < 1 -> somes col <> [] -> (forall x, In (Some x) col -> x == c) ->
    exists lo hi, ci_col m col (Some c) alpha = Ok (Some lo, Some hi) /\ lo == c /\ hi == c.
  Proof.
    intros A0 A1 Hne Hc.
    assert (Q1 : forall q, 0 <= q -> q <= 1 -> exists v, nanquantile col q = Some v /\ v == c).
    { intros q H0 H1. now apply nanquantile_const. }
    destruct m.
    - rewrite quantile_formula by assumption.
      destruct (Q1 (alpha * (1#2))) as (lo & El & Hl); [lra|lra|].
      destruct (Q1 (1 - alpha * (1#2))) as (hi & Eh & Hh); [lra|lra|].
      exists lo, hi. rewrite El, Eh. auto.
    - destruct (p0_const col c Hne Hc) as (p & Ep & Hp).
      destruct (Q1 1) as (v & Ev & Hv); [lra|lra|].
      exists v, v. split; [|auto].
      unfold ci_col, BootCI.ci_col, levels, level_args. rewrite Ep. unfold ppf_x.
      assert (E0 : Qeqb p 0 = false) by (destruct (Qeqb p 0) eqn:E; [qb; lra|reflexivity]).
      assert (E1 : Qeqb p 1 = true) by (qb; exact Hp).
      rewrite E0, E1. cbn [bc_arg cdf_x ci_at_levels]. rewrite Ev. reflexivity.
    - destruct (p0_const col c Hne Hc) as (p & Ep & Hp).
      destruct (Q1 1) as (v & Ev & Hv); [lra|lra|].
      exists v, v. split; [|auto].
      unfold ci_col, BootCI.ci_col, levels, level_args. rewrite Ep. unfold ppf_x.
      assert (E0 : Qeqb p 0 = false) by (destruct (Qeqb p 0) eqn:E; [qb; lra|reflexivity]).
      assert (E1 : Qeqb p 1 = true) by (qb; exact Hp).
      rewrite E0, E1. cbn [bca_arg cdf_x ci_at_levels]. rewrite Ev. reflexivity.
  Qed.

  (* all rows equal to the estimate vector [hat] *)
  Lemma column_repeat (hat : list rate) n j : column (repeat hat n) j = repeat (nth j hat None) n.
  Proof. unfold column. induction n as [|n IH]; simpl; [reflexivity|now rewrite IH]. Qed.

  Lemma In_repeat {A} (x c : A) n : In x (repeat c n) -> x = c.
  Proof. induction n as [|n IH]; simpl; [tauto|intros [E|E]; auto]. Qed.

  Lemma ci_col_repeat m c n alpha :
    0 < alpha -> alpha < 1 -> (0 < n)%nat ->
    exists lo hi, ci_col m (repeat (Some c) n) (Some c) alpha = Ok (Some lo, Some hi) /\ lo == c /\ hi == c.
  Proof.
    intros A0 A1 Hn. apply ci_col_const; auto.
    - rewrite somes_repeat. destruct n; [lia|discriminate].
    - intros x Hx. apply In_repeat in Hx. injection Hx as ->. reflexivity.
  Qed.

  Lemma identity_collapse_bcx yshape (hat : list rate) n alpha m :
    m <> MQuantile -> 0 < alpha -> alpha < 1 -> (0 < n)%nat -> length hat = prod_shape yshape ->
    (forall j, (j < length hat)%nat -> exists c, nth j hat None = Some c) ->
    exists data, bootstrap_ci_bcx Phi PhiInv pow15 m yshape (repeat hat n) (Some hat) alpha = Ok (yshape ++ [2%nat], data) /\
      length data = (2 * length hat)%nat /\
      forall j c, (j < length hat)%nat -> nth j hat None = Some c ->
        exists lo hi, nth (j * 2 + 0) data None = Some lo /\ nth (j * 2 + 1) data None = Some hi /\ lo == c /\ hi == c.
  Proof.
    intros Hm A0 A1 Hn Hl Hfin.
    destruct (bootstrap_ci_bcx Phi PhiInv pow15 m yshape (repeat hat n) (Some hat) alpha) as [[sh data]|] eqn:E.
    - destruct (bootstrap_ci_bcx_ok _ _ _ _ _ _ _ _ _ _ Hm E) as (-> & _).
      exists data. split; [reflexivity|]. split.
      + assert (Hp : (0 < prod_shape yshape)%nat \/ prod_shape yshape = 0%nat) by lia.
        destruct Hp as [Hp|Hp].
        * destruct (bootstrap_ci_bcx_component _ _ _ _ _ _ _ _ _ _ 0%nat Hm Hl Hp E) as [_ L].
          rewrite L, prod_shape_app, Hl. simpl. lia.
        * destruct (bootstrap_ci_bcx_ok _ _ _ _ _ _ _ _ _ _ Hm E) as (_ & cis & -> & Ec).
          assert (Lc : length cis = 0%nat).
          { rewrite <- (map_length (@Ok (rate * rate)) cis), <- Ec, map_length, combine_length, columns_length, Hp. reflexivity. }
          destruct cis; [|discriminate]. simpl. lia.
      + intros j c Hj Hc.
        destruct (bootstrap_ci_bcx_component _ _ _ _ _ _ _ _ _ _ j Hm Hl ltac:(lia) E) as [Ej _].
        rewrite column_repeat, Hc in Ej.
        destruct (ci_col_repeat m c n alpha A0 A1 Hn) as (lo & hi & E' & Hlo & Hhi).
        assert (X := eq_trans (eq_sym E') Ej). injection X as El Eh. exists lo, hi. auto.
    - exfalso. apply (bootstrap_ci_bcx_err _ _ _ _ _ _ _ _ Hm) in E. destruct E as (c & h & Hin & He).
      destruct (In_nth _ _ ([], None) Hin) as (j & Hj & Ej).
      rewrite combine_length, columns_length, Hl, Nat.min_id in Hj.
      rewrite combine_nth in Ej by (rewrite columns_length; symmetry; exact Hl).
      injection Ej as Ec Eh. rewrite columns_nth in Ec by exact Hj. rewrite column_repeat in Ec.
      destruct (Hfin j ltac:(lia)) as [cj Hcj]. subst c h. unfold rate in *. rewrite Hcj in He.
      destruct (ci_col_repeat m cj n alpha A0 A1 Hn) as (lo & hi & E' & _).
      assert (X := eq_trans (eq_sym E') He). discriminate X.
  Qed.

  (* the array call under the identity sampler: every component's limits equal its point estimate *)
  Lemma identity_collapse yshape (hat : list rate) n alpha m :
    0 < alpha -> alpha < 1 -> (0 < n)%nat -> length hat = prod_shape yshape ->
    (forall j, (j < length hat)%nat -> exists c, nth j hat None = Some c) ->
    exists data, utils_ci Phi PhiInv pow15 yshape (repeat hat n) (Some hat) alpha m = Ok (yshape ++ [2%nat], data) /\
      length data = (2 * length hat)%nat /\
      forall j c, (j < length hat)%nat -> nth j hat None = Some c ->
        exists lo hi, nth (j * 2 + 0) data None = Some lo /\ nth (j * 2 + 1) data None = Some hi /\ lo == c /\ hi == c.
  Proof.
    intros A0 A1 Hn Hl Hfin. unfold utils_ci, bootstrap_ci.
    destruct m.
    - (* quantile *)
      rewrite bootstrap_ci_quantile_ok by (constructor; [lra|constructor]).
      eexists. split; [reflexivity|]. split.
      + rewrite quantile_pairs_length, columns_length. simpl. lia.
      + intros j c Hj Hc.
        assert (Hj' : (j < length (columns (repeat hat n) (prod_shape yshape)))%nat) by (rewrite columns_length; lia).
        destruct (quantile_pairs_nth (columns (repeat hat n) (prod_shape yshape)) [alpha] j 0 Hj' ltac:(simpl; lia)) as [E0 E1].
        cbn [length nth] in E0, E1. replace (1 * 2)%nat with 2%nat in E0, E1 by reflexivity.
        rewrite columns_nth in E0, E1 by lia. rewrite column_repeat, Hc in E0, E1.
        destruct (ci_col_repeat MQuantile c n alpha A0 A1 Hn) as (lo & hi & E & Hlo & Hhi).
        rewrite quantile_formula in E by assumption. injection E as El Eh.
        exists lo, hi. replace (j * 2 + 0)%nat with (j * 2 + (0 * 2 + 0))%nat by lia.
        replace (j * 2 + 1)%nat with (j * 2 + (0 * 2 + 1))%nat by lia.
        repeat split; auto; [exact (eq_trans E0 El)|exact (eq_trans E1 Eh)].
    - apply identity_collapse_bcx; auto. discriminate.
    - apply identity_collapse_bcx; auto. discriminate.
  Qed.
End Collapse.

(* end to end: Scores.bootstrap_ci under an identity sampler *)
Lemma identity_ci (S K N H : Type) dynamic_choice builtin_sample getattr_type (Phi PhiInv pow15 : Q -> Q) yshape
    (self : S) (metric : metric_arg S K (list rate) N) alpha (cfg : config S) (hist : nat -> H) (kw : K) :
  let hat := resolve_metric S K (list rate) N getattr_type self metric self kw in
  (forall j, (j < nb_samples cfg)%nat -> bootstrap_sample S H dynamic_choice builtin_sample self cfg (hist j) j = Ok self) ->
  0 < alpha -> alpha < 1 -> (0 < nb_samples cfg)%nat -> length hat = prod_shape yshape ->
  (forall j, (j < length hat)%nat -> exists c, nth j hat None = Some c) ->
  exists data,
    bootstrap_ci_m S K (list rate) N H _ dynamic_choice builtin_sample getattr_type (utils_ci Phi PhiInv pow15 yshape)
                   self metric alpha cfg hist kw = Ok (yshape ++ [2%nat], data) /\
    forall j c, (j < length hat)%nat -> nth j hat None = Some c ->
      exists lo hi, nth (j * 2 + 0) data None = Some lo /\ nth (j * 2 + 1) data None = Some hi /\ lo == c /\ hi == c.
Proof.
  intros hat Hid A0 A1 Hn Hl Hfin.
  rewrite bootstrap_ci_m_spec, (bootstrap_metric_identity _ _ _ _ _ dynamic_choice builtin_sample getattr_type self metric cfg hist kw Hid).
  destruct (identity_collapse Phi PhiInv pow15 yshape hat (nb_samples cfg) alpha (bootstrap_method cfg) A0 A1 Hn Hl Hfin)
    as (data & E & _ & Hd).
  exists data. split; [exact E|exact Hd].
Qed.

(* an integer-valued metric (e.g. confusion-matrix counts) is treated like the same values as floats, for every method *)
Lemma int_metric_same (S K N H : Type) dynamic_choice builtin_sample getattr_type (Phi PhiInv pow15 : Q -> Q) dt yshape
    (self : S) (metric : metric_arg S K (list rate) N) alpha (cfg : config S) (hist : nat -> H) (kw : K) :
  bootstrap_ci_m S K (list rate) N H _ dynamic_choice builtin_sample getattr_type (utils_ci_dt Phi PhiInv pow15 dt yshape)
                 self metric alpha cfg hist kw
  = bootstrap_ci_m S K (list rate) N H _ dynamic_choice builtin_sample getattr_type (utils_ci Phi PhiInv pow15 yshape)
                 self metric alpha cfg hist kw.
Proof. reflexivity. Qed.

(* bootstrap_ci never fails because of the CI routine: if every sampling call succeeds, bc/bca return an array
   of shape metric_shape+(2,) whose entry j is the one-component interval of replicate column j — (NaN, NaN)
   exactly for the components that are NaN in every sample *)
Lemma bootstrap_ci_m_total (S K N H : Type) dynamic_choice builtin_sample getattr_type (Phi PhiInv pow15 : Q -> Q) yshape
    (self : S) (metric : metric_arg S K (list rate) N) alpha (cfg : config S) (hist : nat -> H) (kw : K) rows :
  (forall x, 0 <= Phi x /\ Phi x <= 1) ->
  bootstrap_method cfg <> MQuantile ->
  bootstrap_metric S K (list rate) N H dynamic_choice builtin_sample getattr_type self metric cfg hist kw = Ok rows ->
  let hat := resolve_metric S K (list rate) N getattr_type self metric self kw in
  length hat = prod_shape yshape ->
  exists data,
    bootstrap_ci_m S K (list rate) N H _ dynamic_choice builtin_sample getattr_type (utils_ci Phi PhiInv pow15 yshape)
                   self metric alpha cfg hist kw = Ok (yshape ++ [2%nat], data) /\
    forall j, (j < prod_shape yshape)%nat ->
      ci_col Phi PhiInv pow15 (bootstrap_method cfg) (column rows j) (nth j hat None) alpha
      = Ok (nth (j * 2 + 0) data None, nth (j * 2 + 1) data None).
Proof.
  intros Hr Hm Erows hat Hl. rewrite bootstrap_ci_m_spec, Erows. fold hat.
  destruct (bootstrap_ci_bcx_total Phi PhiInv pow15 Hr (bootstrap_method cfg) yshape rows hat alpha Hm Hl) as (data & E & _ & Hd).
  exists data. split; [|exact Hd]. unfold utils_ci, bootstrap_ci.
  destruct (bootstrap_method cfg); [congruence|exact E|exact E].
Qed.
