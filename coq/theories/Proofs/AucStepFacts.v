(* Proofs/AucStepFacts.v — C07, partial AUC: without cross-class ties the value over any window
   0 <= lo <= up <= 1 is the exact area under the empirical step ROC (explicit finite sum over the
   negatives in the order in which they are accepted); additivity and the bound up - lo. *)
From SA Require Import Model.Auc Proofs.CmFacts Proofs.SentinelFacts Proofs.TrapzFacts Proofs.WindowFacts
  Proofs.ClampFacts Proofs.AucFacts.
Open Scope Q_scope.

Definition no_cross_ties (s : scores) : Prop := forall p n, In p (pos s) -> In n (neg s) -> ~ p == n.

(* p lies strictly on the positive side of n *)
Definition beyond (sc : label) (p n : Q) : bool := match sc with Pos => Qltb n p | Neg => Qltb p n end.
(* TPR at which the ROC passes over the negative n: positives beyond n, and the easy ones *)
Definition hlevel (s : scores) (n : Q) : Q :=
  inject_Z (count (fun p => beyond (score_class s) p n) (pos s) + easy_pos s) / inject_Z (Pall s).
(* negatives in the order in which they become false positives *)
Definition oneg (s : scores) : list Q := match score_class s with Pos => rev (neg s) | Neg => neg s end.
(* the j-th FPR cell [j/N_all, (j+1)/N_all] cut to the window *)
Definition cell (s : scores) (lo up : Q) (j : Z) : Q :=
  ovl (inject_Z j / inject_Z (Nall s)) (inject_Z (j + 1) / inject_Z (Nall s)) lo up.
(* integral over [lo,up] of the step ROC: level hlevel(n_j) on the j-th cell, level 1 beyond the
   last scored negative (easy negatives) *)
Definition step_area (s : scores) (lo up : Q) : Q :=
  wsum (cell s lo up) 0 (oneg s) (hlevel s)
  + ovl (inject_Z (len (neg s)) / inject_Z (Nall s)) 1 lo up * 1.

Lemma bool_list_dec (f g : Q -> bool) l :
  (forall v, In v l -> f v = g v) \/ (exists v, In v l /\ f v <> g v).
Proof.
  induction l as [|a r [IH|[v [Hv Hne]]]].
  - left. intros v [].
  - destruct (Bool.bool_dec (f a) (g a)) as [E|E].
    + left. intros v [->|Hv]; auto.
    + right. exists a. split; [now left|exact E].
  - right. exists v. split; [now right|exact Hne].
Qed.

Lemma kpair_beyond sc p n : ~ p == n -> kpair sc p n == b2q (beyond sc p n).
Proof.
  intros H. unfold kpair, beyond. destruct sc; destruct (Qltb n p) eqn:E1, (Qltb p n) eqn:E2; qb; cbn [b2q]; try lra;
  exfalso; apply H; lra.
Qed.

Section WithCarrier.
  Variable isD : Q -> Prop.
  Variable succ pred : Q -> Q.
  Hypothesis HC : carrier isD succ pred.
  Notation pts s := (auc_points succ pred s).
  Notation opts s := (opts succ pred s).

  (* every edge of the ROC polyline is horizontal or vertical *)
  Lemma step_axpar s a b : good s -> Forall isD (allsc s) -> no_cross_ties s ->
    a <= b -> (forall t, In t (pts s) -> t <= a \/ b <= t) ->
    axis_at AFpr s a == axis_at AFpr s b \/ axis_at ATpr s a == axis_at ATpr s b.
  Proof.
    intros G HD NT Hab Hg. rewrite Forall_forall in HD.
    set (sc := score_class s). set (ec := equal_class s).
    destruct (bool_list_dec (fun v => dec sc ec v (Fin a)) (fun v => dec sc ec v (Fin b)) (neg s)) as [Hall|[n [Hn Hne]]].
    - left. rewrite !fpr_at by exact G. unfold cneg. fold sc ec. rewrite (count_ext _ _ _ Hall). reflexivity.
    - right. rewrite !tpr_at by exact G. unfold cpos. fold sc ec.
      rewrite (count_ext (fun x => dec sc ec x (Fin a)) (fun x => dec sc ec x (Fin b)) (pos s)); [reflexivity|].
      intros p Hp.
      assert (Ip : In p (allsc s)) by (apply in_or_app; now left).
      assert (In_ : In n (allsc s)) by (apply in_or_app; now right).
      pose proof (step_pair isD succ pred HC sc ec p n a b (HD p Ip) (HD n In_) Hab
                    (Hg _ (pts_pred succ pred s n In_)) (Hg _ (pts_succ succ pred s n In_))
                    (Hg _ (pts_pred succ pred s p Ip)) (Hg _ (pts_succ succ pred s p Ip))) as SP.
      rewrite (kpair_beyond sc p n (NT p n Hp Hn)) in SP. unfold ind in SP.
      destruct (dec sc ec n (Fin a)), (dec sc ec n (Fin b)); try congruence;
      destruct (dec sc ec p (Fin a)), (dec sc ec p (Fin b)); try reflexivity; exfalso;
      destruct (beyond sc p n); cbn [b2q] in SP; lra.
  Qed.

  Lemma opts_axpar s : good s -> Forall isD (allsc s) -> no_cross_ties s ->
    axpar (map (axis_at AFpr s) (opts s)) (map (axis_at ATpr s) (opts s)).
  Proof.
    intros G HD NT. apply axpar_map.
    assert (A : adjall (fun a b => axis_at AFpr s a == axis_at AFpr s b \/ axis_at ATpr s a == axis_at ATpr s b) (pts s)).
    { apply (adjall_sorted _ (pts s)); [apply pts_sorted|intros; now left|].
      intros a b Hab Hg. now apply step_axpar. }
    unfold AucFacts.opts. destruct (score_class s); [|exact A].
    apply adjall_rev; [|exact A]. intros a b [H|H]; [left|right]; now symmetry.
  Qed.

  (* the trapezoid sum of TPR against the indicator of one negative *)
  Lemma trapzf_ind_tpr s n : good s -> Forall isD (allsc s) -> In n (neg s) ->
    trapzf (ind (score_class s) (equal_class s) n) (axis_at ATpr s) (opts s) ==
    (Qsum (map (fun p => kpair (score_class s) p n) (pos s)) + inject_Z (easy_pos s)) / inject_Z (Pall s).
  Proof.
    intros G HD Hn. pose proof (inject_Z_pos _ (Pall_pos s G)) as HP.
    assert (In_ : In n (allsc s)) by (apply in_or_app; now right).
    set (sc := score_class s). set (ec := equal_class s).
    rewrite (trapzf_ext _ (ind sc ec n)
               _ (fun t => / inject_Z (Pall s) * Qsum (map (fun p => ind sc ec p t) (pos s))
                           + / inject_Z (Pall s) * inject_Z (easy_pos s)) (opts s));
      [|intros; reflexivity|intros; apply (tpr_as_sum s), G].
    rewrite (trapzf_add_y (ind sc ec n) (fun t => / inject_Z (Pall s) * Qsum (map (fun p => ind sc ec p t) (pos s)))
               (fun _ => / inject_Z (Pall s) * inject_Z (easy_pos s)) (opts s)).
    rewrite (trapzf_scale_y (/ inject_Z (Pall s)) (ind sc ec n) (fun t => Qsum (map (fun p => ind sc ec p t) (pos s))) (opts s)).
    rewrite (trapzf_sum_y (ind sc ec) (pos s) (ind sc ec n) (opts s)).
    rewrite (trapzf_const_y 0 (ind sc ec n)).
    rewrite (Qsum_map_ext _ (fun p => kpair sc p n) (pos s)).
    - unfold ind, sc, ec. rewrite (dec_ofirst isD succ pred HC s n In_), (dec_olast isD succ pred HC s n In_).
      cbn [b2q]. field. lra.
    - intros p Hp. apply (pair_trapz isD succ pred HC); [exact HD| |exact In_]. apply in_or_app; now left.
  Qed.

  Lemma hlevel_eq s n : good s -> no_cross_ties s -> In n (neg s) ->
    (Qsum (map (fun p => kpair (score_class s) p n) (pos s)) + inject_Z (easy_pos s)) / inject_Z (Pall s) == hlevel s n.
  Proof.
    intros G NT Hn. unfold hlevel. rewrite inject_Z_plus, inject_count.
    rewrite (Qsum_map_ext (fun p => kpair (score_class s) p n) (fun p => b2q (beyond (score_class s) p n)) (pos s));
      [reflexivity|]. intros p Hp. apply kpair_beyond, NT; assumption.
  Qed.

  (* the negatives accepted at a threshold form a prefix of [oneg] *)
  Lemma oneg_pref s t : wf s -> pref (fun v => dec (score_class s) (equal_class s) v (Fin t)) (oneg s).
  Proof.
    intros [_ Hs]. unfold oneg. destruct (score_class s).
    - apply (pref_sorted (fun a b => b <= a)); [apply sorted_rev_desc, Hs|].
      intros a b Hab. destruct (equal_class s); cbn [dec lt_ext le_ext]; rewrite !negb_false_iff; intros; qb; lra.
    - apply (pref_sorted Qle); [exact Hs|].
      intros a b Hab. destruct (equal_class s); cbn [dec lt_ext le_ext]; intros; qb; lra.
  Qed.
  Lemma oneg_count s t : count (fun v => dec (score_class s) (equal_class s) v (Fin t)) (oneg s) = cneg s t.
  Proof. unfold oneg, cneg. destruct (score_class s); [apply count_rev|reflexivity]. Qed.
  Lemma oneg_in s v : In v (oneg s) -> In v (neg s).
  Proof. unfold oneg. destruct (score_class s); [apply in_rev|auto]. Qed.

  Definition Phi (s : scores) (lo up : Q) (j : Z) : Q := clampQ lo up (inject_Z j / inject_Z (Nall s)).

  Lemma clamp_fpr s lo up t : good s -> wf s -> 0 <= lo -> lo <= up ->
    clampQ lo up (axis_at AFpr s t) ==
    lo + wsum (fun j => Phi s lo up (j + 1) - Phi s lo up j) 0 (oneg s) (fun v => ind (score_class s) (equal_class s) v t).
  Proof.
    intros G W H0 Hlu. rewrite (clampQ_compat _ _ _ _ (fpr_at s t G)).
    unfold ind. rewrite (wsum_prefix (Phi s lo up) _ (oneg s) 0 (oneg_pref s t W)).
    rewrite oneg_count, Z.add_0_l.
    assert (E : Phi s lo up 0 == lo).
    { unfold Phi. rewrite (clampQ_compat lo up (inject_Z 0 / inject_Z (Nall s)) 0) by (unfold Qdiv; change (inject_Z 0) with 0; ring).
      destruct (clampQ_spec lo up 0 Hlu) as [[? E]|[[? E]|[? E]]]; lra. }
    rewrite E. unfold Phi. ring.
  Qed.

  Lemma cell_Phi s lo up j : good s -> lo <= up -> Phi s lo up (j + 1) - Phi s lo up j == cell s lo up j.
  Proof.
    intros G Hlu. unfold cell, Phi. rewrite ovl_clamp; [reflexivity| |exact Hlu].
    apply Qdiv_le_mono; [|apply inject_Z_pos, Nall_pos, G]. rewrite <- Zle_Qle. lia.
  Qed.

  (* ---------- C07, partial AUC = exact step area ---------- *)
  Theorem partial_step_area s lo up :
    good s -> wf s -> Forall isD (allsc s) -> no_cross_ties s -> 0 <= lo -> lo <= up -> up <= 1 ->
    auc succ pred s lo up AFpr ATpr == step_area s lo up.
  Proof.
    intros G W HD NT H0 Hlu H1.
    pose proof (inject_Z_pos _ (Nall_pos s G)) as HN.
    rewrite (auc_fpr isD succ pred HC) by exact G.
    rewrite Qabs_pos by (apply window_fpr_tpr_nonneg; assumption).
    destruct (opts_lens succ pred s (axis_at AFpr s) (axis_at ATpr s) G) as [HL HL1].
    assert (Hne : opts s <> []) by (apply opts_ne, G).
    rewrite window_clamp; [|apply fpr_sorted, G|apply opts_axpar; assumption| |exact Hlu].
    2:{ intros E. apply Hne. now apply map_eq_nil in E. }
    rewrite trapz_ends; [|unfold len in HL; rewrite !map_length in *; lia|].
    2:{ intros E. apply Hne. apply map_eq_nil in E. now apply map_eq_nil in E. }
    rewrite map_map, trapz_map.
    rewrite !hd_map, !last_map by exact Hne.
    rewrite (tpr_olast isD succ pred HC s G).
    rewrite (clampQ_compat lo up _ _ (fpr_ofirst isD succ pred HC s G)).
    rewrite (clampQ_compat lo up _ _ (fpr_olast isD succ pred HC s G)).
    assert (E0 : clampQ lo up 0 == lo) by (destruct (clampQ_spec lo up 0 Hlu) as [[? E]|[[? E]|[? E]]]; lra).
    rewrite E0.
    (* the polyline part *)
    rewrite (trapzf_ext _ (fun t => lo + wsum (fun j => Phi s lo up (j + 1) - Phi s lo up j) 0 (oneg s)
                                        (fun v => ind (score_class s) (equal_class s) v t))
               _ (axis_at ATpr s) (opts s)); [|intros; apply clamp_fpr; assumption|intros; reflexivity].
    rewrite (trapzf_wsum _ (ind (score_class s) (equal_class s)) lo (axis_at ATpr s) (opts s) (oneg s) 0).
    rewrite (wsum_ext _ (cell s lo up) (oneg s) _ (hlevel s) 0).
    - unfold step_area. rewrite ovl_clamp; [| |exact Hlu].
      + assert (E1 : clampQ lo up 1 == up) by (destruct (clampQ_spec lo up 1 Hlu) as [[? E]|[[? E]|[? E]]]; lra).
        rewrite E1. ring.
      + apply Qle_shift_div_r; [exact HN|]. rewrite Qmult_1_l, <- Zle_Qle. unfold Nall. pose proof (en_nn s G). lia.
    - intros j. apply cell_Phi; assumption.
    - intros v Hv. apply oneg_in in Hv. rewrite trapzf_ind_tpr by assumption. apply hlevel_eq; assumption.
  Qed.

  Lemma step_area_additive s lo mid up : good s -> lo <= mid -> mid <= up ->
    step_area s lo mid + step_area s mid up == step_area s lo up.
  Proof.
    intros G H1 H2. pose proof (inject_Z_pos _ (Nall_pos s G)) as HN. unfold step_area.
    assert (HT : inject_Z (len (neg s)) / inject_Z (Nall s) <= 1).
    { apply Qle_shift_div_r; [exact HN|]. rewrite Qmult_1_l, <- Zle_Qle. unfold Nall. pose proof (en_nn s G). lia. }
    rewrite <- (ovl_additive (inject_Z (len (neg s)) / inject_Z (Nall s)) 1 lo mid up HT H1 H2).
    rewrite (wsum_ext (cell s lo up) (fun j => cell s lo mid j + cell s mid up j) (oneg s) (hlevel s) (hlevel s) 0).
    - rewrite wsum_add_w. ring.
    - intros j. unfold cell. symmetry. apply ovl_additive; try assumption.
      apply Qdiv_le_mono; [|exact HN]. rewrite <- Zle_Qle. lia.
    - intros; reflexivity.
  Qed.

  Corollary partial_additive s lo mid up :
    good s -> wf s -> Forall isD (allsc s) -> no_cross_ties s -> 0 <= lo -> lo <= mid -> mid <= up -> up <= 1 ->
    auc succ pred s lo mid AFpr ATpr + auc succ pred s mid up AFpr ATpr == auc succ pred s lo up AFpr ATpr.
  Proof.
    intros G W HD NT H0 H1 H2 H3. rewrite !partial_step_area by (try assumption; lra).
    apply step_area_additive; assumption.
  Qed.

  (* the bound needs neither the tie condition nor the window inside [0,1] *)
  Theorem partial_le_width s lo up : good s -> lo <= up ->
    0 <= auc succ pred s lo up AFpr ATpr /\ auc succ pred s lo up AFpr ATpr <= up - lo.
  Proof.
    intros G H. rewrite (auc_fpr isD succ pred HC) by exact G.
    destruct (opts_lens succ pred s (axis_at AFpr s) (axis_at ATpr s) G) as [HL HL1].
    assert (0 <= window (map (axis_at AFpr s) (opts s)) (map (axis_at ATpr s) (opts s)) lo up)
      by (apply window_fpr_tpr_nonneg; assumption).
    rewrite Qabs_pos by assumption. split; [assumption|].
    apply window_le; auto; [apply fpr_sorted, G|]. apply Forall_map_range. intros t. apply tpr_range, G.
  Qed.
End WithCarrier.

(* ---------- the clauses with their hypotheses spelled out (used by Props/C07.v) ---------- *)
Section Statements.
  Variable isD : Q -> Prop.
  Variable succ pred : Q -> Q.
  Hypothesis HC : carrier isD succ pred.

  Lemma stmt_full_auc_mw s :
    pos s <> [] -> neg s <> [] -> (0 <= easy_pos s)%Z -> (0 <= easy_neg s)%Z -> Forall isD (pos s ++ neg s) ->
    auc succ pred s 0 1 AFpr ATpr == mw s.
  Proof. intros A B C D HD. exact (full_auc_mw isD succ pred HC s (Build_good s A B C D) HD). Qed.

  Lemma stmt_indep_equal_class ps ns ep en sc ec ec' :
    ps <> [] -> ns <> [] -> (0 <= ep)%Z -> (0 <= en)%Z -> Forall isD (ps ++ ns) ->
    auc succ pred (mkScores ps ns ep en sc ec) 0 1 AFpr ATpr == auc succ pred (mkScores ps ns ep en sc ec') 0 1 AFpr ATpr.
  Proof.
    intros A B C D HD.
    rewrite (full_auc_mw isD succ pred HC (mkScores ps ns ep en sc ec) (Build_good (mkScores ps ns ep en sc ec) A B C D) HD).
    rewrite (full_auc_mw isD succ pred HC (mkScores ps ns ep en sc ec') (Build_good (mkScores ps ns ep en sc ec') A B C D) HD).
    reflexivity.
  Qed.

  Lemma stmt_complement_y s lo up :
    pos s <> [] -> neg s <> [] -> (0 <= easy_pos s)%Z -> (0 <= easy_neg s)%Z -> lo <= up ->
    auc succ pred s lo up AFpr AFnr == (up - lo) - auc succ pred s lo up AFpr ATpr.
  Proof. intros A B C D H. exact (complement_y isD succ pred HC s lo up (Build_good s A B C D) H). Qed.

  Lemma stmt_mirror_x s lo up :
    pos s <> [] -> neg s <> [] -> (0 <= easy_pos s)%Z -> (0 <= easy_neg s)%Z ->
    auc succ pred s (1 - up) (1 - lo) ATnr ATpr == auc succ pred s lo up AFpr ATpr.
  Proof. intros A B C D. exact (mirror_x isD succ pred HC s lo up (Build_good s A B C D)). Qed.

  Lemma stmt_swap_axes_full s :
    pos s <> [] -> neg s <> [] -> (0 <= easy_pos s)%Z -> (0 <= easy_neg s)%Z ->
    auc succ pred s 0 1 ATpr AFpr == 1 - auc succ pred s 0 1 AFpr ATpr.
  Proof. intros A B C D. exact (swap_axes_full isD succ pred HC s (Build_good s A B C D)). Qed.

  Lemma stmt_partial_step_area s lo up :
    wf s -> pos s <> [] -> neg s <> [] -> (0 <= easy_pos s)%Z -> (0 <= easy_neg s)%Z -> Forall isD (pos s ++ neg s) ->
    (forall p n, In p (pos s) -> In n (neg s) -> ~ p == n) -> 0 <= lo -> lo <= up -> up <= 1 ->
    auc succ pred s lo up AFpr ATpr == step_area s lo up.
  Proof. intros W A B C D HD NT. exact (partial_step_area isD succ pred HC s lo up (Build_good s A B C D) W HD NT). Qed.

  Lemma stmt_partial_additive s lo mid up :
    wf s -> pos s <> [] -> neg s <> [] -> (0 <= easy_pos s)%Z -> (0 <= easy_neg s)%Z -> Forall isD (pos s ++ neg s) ->
    (forall p n, In p (pos s) -> In n (neg s) -> ~ p == n) -> 0 <= lo -> lo <= mid -> mid <= up -> up <= 1 ->
    auc succ pred s lo mid AFpr ATpr + auc succ pred s mid up AFpr ATpr == auc succ pred s lo up AFpr ATpr.
  Proof. intros W A B C D HD NT. exact (partial_additive isD succ pred HC s lo mid up (Build_good s A B C D) W HD NT). Qed.

  Lemma stmt_partial_le_width s lo up :
    pos s <> [] -> neg s <> [] -> (0 <= easy_pos s)%Z -> (0 <= easy_neg s)%Z -> lo <= up ->
    0 <= auc succ pred s lo up AFpr ATpr /\ auc succ pred s lo up AFpr ATpr <= up - lo.
  Proof. intros A B C D H. exact (partial_le_width isD succ pred HC s lo up (Build_good s A B C D) H). Qed.
End Statements.
