(* Proofs/BsearchFacts.v — the binary search equals the count on sorted input. *)
From SA Require Import Model.Bsearch.
Open Scope Q_scope.

(* P holds exactly on the first r elements *)
Definition split_at (P : Q -> bool) (l : list Q) (r : nat) : Prop :=
  (forall i, (i < r)%nat -> (i < length l)%nat -> P (nth i l 0) = true) /\
  (forall i, (r <= i)%nat -> (i < length l)%nat -> P (nth i l 0) = false).

Lemma count_split P l r : (r <= length l)%nat -> split_at P l r -> count P l = Z.of_nat r.
Proof.
  revert r. induction l as [|x xs IH]; intros r Hr [A B]; simpl in Hr.
  - assert (r = 0)%nat by lia. subst. reflexivity.
  - cbn [count]. destruct r as [|r].
    + pose proof (B 0%nat ltac:(lia) ltac:(simpl; lia)) as H0. cbn [nth] in H0. rewrite H0.
      rewrite (IH 0%nat ltac:(lia)); [reflexivity|]. split; intros i Hi Hl; [lia|].
      apply (B (S i)); simpl; lia.
    + pose proof (A 0%nat ltac:(lia) ltac:(simpl; lia)) as H0. cbn [nth] in H0. rewrite H0.
      rewrite (IH r ltac:(lia)); [lia|]. split; intros i Hi Hl.
      * apply (A (S i)); simpl; lia.
      * apply (B (S i)); simpl; lia.
Qed.

(* the loop invariant: everything below lo satisfies P, everything from hi on does not *)
Lemma bsearch_spec fuel P l lo hi r :
  split_at P l r -> (lo <= r)%nat -> (r <= hi)%nat -> (hi <= length l)%nat -> (hi - lo < fuel)%nat ->
  bsearch fuel P l lo hi = r.
Proof.
  revert lo hi. induction fuel as [|k IH]; intros lo hi S Hlo Hhi Hn Hf; [lia|].
  cbn [bsearch]. destruct (Nat.ltb lo hi) eqn:E.
  - apply Nat.ltb_lt in E. set (mid := (lo + (hi - lo) / 2)%nat).
    assert (Hm : (lo <= mid < hi)%nat).
    { unfold mid. pose proof (Nat.div_lt_upper_bound (hi - lo) 2 (hi - lo) ltac:(lia) ltac:(lia)). lia. }
    destruct S as [A B]. destruct (P (nth mid l 0)) eqn:Pm.
    + assert (mid < r)%nat.
      { destruct (Nat.lt_ge_cases mid r) as [L|L]; [exact L|]. rewrite (B mid L ltac:(lia)) in Pm. discriminate. }
      apply IH; [split; assumption|lia|lia|lia|lia].
    + assert (r <= mid)%nat.
      { destruct (Nat.lt_ge_cases mid r) as [L|L]; [|exact L]. rewrite (A mid L ltac:(lia)) in Pm. discriminate. }
      apply IH; [split; assumption|lia|lia|lia|lia].
  - apply Nat.ltb_ge in E. lia.
Qed.

(* on a sorted list a downward-closed predicate holds exactly on a prefix *)
Lemma sorted_split P l : sorted l -> (forall x y, x <= y -> P y = true -> P x = true) ->
  exists r, (r <= length l)%nat /\ split_at P l r.
Proof.
  intros Hs Hmono. induction l as [|x xs IH].
  - exists 0%nat. split; [simpl; lia|]. split; intros; simpl in *; lia.
  - inversion Hs as [|? ? Hxs Hall]; subst. destruct (IH Hxs) as [r [Hr [A B]]].
    destruct (P x) eqn:Px.
    + exists (S r). split; [simpl; lia|]. split; intros i Hi Hl; destruct i as [|i]; simpl; try exact Px.
      * apply A; simpl in Hl; lia.
      * lia.
      * apply B; simpl in Hl; lia.
    + exists 0%nat. split; [lia|]. split; intros i Hi Hl; [lia|].
      destruct i as [|i]; simpl; [exact Px|].
      destruct (P (nth i xs 0)) eqn:Pi; [|reflexivity].
      assert (Hx : x <= nth i xs 0).
      { rewrite Forall_forall in Hall. apply Hall, nth_In. simpl in Hl. lia. }
      rewrite (Hmono _ _ Hx Pi) in Px. discriminate.
Qed.

Lemma side_pred_mono sd t x y : x <= y -> side_pred sd t y = true -> side_pred sd t x = true.
Proof. destruct sd, t; simpl; auto; intros H K; qb; lra. Qed.

(* np.searchsorted's binary search on a sorted array returns the count of elements < v (left) / <= v (right) *)
Theorem searchsorted_bin_count sd l t : sorted l -> searchsorted_bin sd l t = searchsorted sd l t.
Proof.
  intro Hs. destruct (sorted_split (side_pred sd t) l Hs (side_pred_mono sd t)) as [r [Hr S]].
  unfold searchsorted_bin. rewrite (bsearch_spec _ _ _ _ _ r S); try lia.
  symmetry. destruct sd; apply (count_split _ l r Hr S).
Qed.

Theorem cm_bin_cm s t : wf s -> cm_bin s t = cm s t.
Proof. intros [Hp Hn]. unfold cm_bin, cm. rewrite !searchsorted_bin_count by assumption. reflexivity. Qed.
