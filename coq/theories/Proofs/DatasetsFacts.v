(* Proofs/DatasetsFacts.v — lemmas about Model/Datasets.v (property C20). *)
From SA Require Import Model.Datasets.
Open Scope Q_scope.

(* ================================================================== NormalDataset *)
Section NormalFacts.
  Variables Cdf Ppf Sf Isf : Q -> Q.
  (* what the proofs use of scipy.stats.norm: functions of the real value (compatibility with ==),
     cdf/ppf and sf/isf mutually inverse (ppf, isf on the open unit interval), sf = 1 - cdf *)
  Hypothesis Cdf_compat : forall a b, a == b -> Cdf a == Cdf b.
  Hypothesis Sf_compat : forall a b, a == b -> Sf a == Sf b.
  Hypothesis Cdf_Ppf : forall p, 0 < p -> p < 1 -> Cdf (Ppf p) == p.
  Hypothesis Ppf_Cdf : forall z, Ppf (Cdf z) == z.
  Hypothesis Sf_Isf : forall p, 0 < p -> p < 1 -> Sf (Isf p) == p.
  Hypothesis Isf_Sf : forall z, Isf (Sf z) == z.
  Hypothesis Sf_Cdf : forall z, Sf z == 1 - Cdf z.

  Lemma fnr_at_threshold_at_fnr d x : ~ sigma_pos d == 0 -> 0 < x -> x < 1 ->
    nd_fnr Cdf d (nd_threshold_at_fnr Ppf d x) == x.
  Proof.
    intros Hs H0 H1. unfold nd_fnr, nd_threshold_at_fnr, norm_cdf, norm_ppf.
    rewrite (Cdf_compat _ (Ppf x)); [now apply Cdf_Ppf|]. field. exact Hs.
  Qed.
  Lemma threshold_at_fnr_at_fnr d t : ~ sigma_pos d == 0 ->
    nd_threshold_at_fnr Ppf d (nd_fnr Cdf d t) == t.
  Proof.
    intros Hs. unfold nd_fnr, nd_threshold_at_fnr, norm_cdf, norm_ppf. rewrite Ppf_Cdf. field. exact Hs.
  Qed.
  Lemma fpr_at_threshold_at_fpr d x : ~ sigma_neg d == 0 -> 0 < x -> x < 1 ->
    nd_fpr Sf d (nd_threshold_at_fpr Isf d x) == x.
  Proof.
    intros Hs H0 H1. unfold nd_fpr, nd_threshold_at_fpr, norm_sf, norm_isf.
    rewrite (Sf_compat _ (Isf x)); [now apply Sf_Isf|]. field. exact Hs.
  Qed.
  Lemma threshold_at_fpr_at_fpr d t : ~ sigma_neg d == 0 ->
    nd_threshold_at_fpr Isf d (nd_fpr Sf d t) == t.
  Proof.
    intros Hs. unfold nd_fpr, nd_threshold_at_fpr, norm_sf, norm_isf. rewrite Isf_Sf. field. exact Hs.
  Qed.

  (* roc(): the returned rates are the analytic rates at the returned thresholds, the thresholds are
     the operating points asked for; ValueError unless exactly one of fnr / fpr is given *)
  Lemma roc_consistent d fnr fpr fn fp th : nd_roc Cdf Ppf Sf Isf d fnr fpr = Ok (fn, fp, th) ->
    fn = map (nd_fnr Cdf d) th /\ fp = map (nd_fpr Sf d) th /\
    ((exists f, fnr = Some f /\ fpr = None /\ th = map (nd_threshold_at_fnr Ppf d) f) \/
     (exists f, fnr = None /\ fpr = Some f /\ th = map (nd_threshold_at_fpr Isf d) f)).
  Proof.
    unfold nd_roc. destruct fnr as [f|], fpr as [g|]; try discriminate; intros [= <- <- <-];
      (split; [reflexivity|split; [reflexivity|]]); [left; exists f|right; exists g]; auto.
  Qed.
  Lemma roc_error d fnr fpr : nd_roc Cdf Ppf Sf Isf d fnr fpr = ErrValue <->
    (fnr = None /\ fpr = None) \/ (fnr <> None /\ fpr <> None).
  Proof.
    unfold nd_roc. destruct fnr, fpr; split; try discriminate; try tauto; try (intros _; right; split; discriminate);
      try (intros _; left; split; reflexivity); intros [[? ?]|[? ?]]; congruence.
  Qed.

  (* from_metrics *)
  Lemma from_metrics_fnr fnr fpr fs ps sp sn : ~ sp == 0 -> 0 < fnr -> fnr < 1 ->
    nd_fnr Cdf (nd_from_metrics Ppf fnr fpr fs ps sp sn) 0 == fnr.
  Proof.
    intros Hs H0 H1. unfold nd_fnr, nd_from_metrics, normal_dataset, norm_cdf. cbn [mu_pos sigma_pos].
    rewrite (Cdf_compat _ (Ppf fnr)); [now apply Cdf_Ppf|]. field. exact Hs.
  Qed.
  Lemma from_metrics_fpr fnr fpr fs ps sp sn : ~ sn == 0 -> 0 < fpr -> fpr < 1 ->
    nd_fpr Sf (nd_from_metrics Ppf fnr fpr fs ps sp sn) 0 == fpr.
  Proof.
    intros Hs H0 H1. unfold nd_fpr, nd_from_metrics, normal_dataset, norm_sf. cbn [mu_neg sigma_neg].
    rewrite (Sf_compat _ (Ppf (1 - fpr))); [|field; exact Hs].
    rewrite Sf_Cdf, Cdf_Ppf by lra. ring.
  Qed.
End NormalFacts.

Lemma Qtrunc_nonneg x : 0 <= x -> Qtrunc x = Qfloor x.
Proof. intro H. unfold Qtrunc. destruct (Qltb x 0) eqn:E; [qb; lra|reflexivity]. Qed.

(* implied sample sizes *)
Lemma from_metrics_sizes Ppf fnr fpr fs ps sp sn : 0 < fnr -> 0 < fpr -> (0 <= fs)%Z -> (0 <= ps)%Z ->
  let d := nd_from_metrics Ppf fnr fpr fs ps sp sn in
  let nb_pos := Qfloor (inject_Z fs / fnr) in
  let nb_neg := Qfloor (inject_Z ps / fpr) in
  n_ds d = Some (nb_pos + nb_neg)%Z /\ p_pos d = inject_Z nb_pos / inject_Z (nb_pos + nb_neg) /\
  sigma_pos d = sp /\ sigma_neg d = sn /\ nd_score_class d = Pos /\
  mu_pos d = - Ppf fnr * sp /\ mu_neg d = - Ppf (1 - fpr) * sn.
Proof.
  intros H0 H1 Hf Hp. cbv zeta. unfold nd_from_metrics, normal_dataset. cbn [n_ds p_pos sigma_pos sigma_neg nd_score_class mu_pos mu_neg].
  assert (A : 0 <= inject_Z fs / fnr).
  { apply Qle_shift_div_l; [exact H0|]. rewrite Qmult_0_l. change 0 with (inject_Z 0). rewrite <- Zle_Qle. exact Hf. }
  assert (B : 0 <= inject_Z ps / fpr).
  { apply Qle_shift_div_l; [exact H1|]. rewrite Qmult_0_l. change 0 with (inject_Z 0). rewrite <- Zle_Qle. exact Hp. }
  rewrite !(Qtrunc_nonneg _ A), !(Qtrunc_nonneg _ B). repeat split.
Qed.

(* sample(): sizes and direction over every draw history within numpy's contract *)
Lemma nd_sample_sizes d n_arg p_arg k xs ys calls s n :
  (match n_arg with Some m => Some m | None => n_ds d end) = Some n ->
  nd_sample d n_arg p_arg k xs ys = Some (calls, s) ->
  (0 <= k <= n)%Z -> len xs = k -> len ys = (n - k)%Z ->
  (len (pos s) + len (neg s) = n)%Z /\ len (pos s) = k /\
  score_class s = nd_score_class d /\ easy_pos s = 0%Z /\ easy_neg s = 0%Z /\
  Permutation xs (pos s) /\ Permutation ys (neg s) /\ sorted (pos s) /\ sorted (neg s) /\
  calls = [CBinomial n (match p_arg with Some p => p | None => p_pos d end) None;
           CNormal (mu_pos d) (sigma_pos d) k; CNormal (mu_neg d) (sigma_neg d) (n - k)].
Proof.
  intros Hn. unfold nd_sample. rewrite Hn. intros [= <- <-] Hk Hx Hy. unfold mk_scores. cbn [pos neg score_class easy_pos easy_neg].
  unfold len in *. rewrite !isort_length.
  repeat split; try lia; try apply isort_perm; apply isort_sorted.
Qed.

(* ================================================================== shuffles and counts *)
Lemma map_nth_seq (data : list Z) : map (fun i => nth i data 0%Z) (seq 0 (length data)) = data.
Proof.
  induction data as [|a r IH]; [reflexivity|]. cbn [length seq map nth]. f_equal.
  rewrite <- seq_shift, map_map. exact IH.
Qed.
Lemma apply_perm_perm data perm : is_perm perm (length data) -> Permutation (apply_perm data perm) data.
Proof.
  unfold is_perm, apply_perm. intro H.
  eapply Permutation_trans; [apply Permutation_map; exact H|]. rewrite map_nth_seq. apply Permutation_refl.
Qed.
Lemma apply_perm_length data perm : is_perm perm (length data) -> length (apply_perm data perm) = length data.
Proof. intro H. apply Permutation_length. now apply apply_perm_perm. Qed.

Lemma count_repeatZ (f : Z -> bool) v k : (0 <= k)%Z -> count f (repeatZ v k) = if f v then k else 0%Z.
Proof.
  intro Hk. unfold repeatZ. rewrite <- (Z2Nat.id k Hk) at 2. generalize (Z.to_nat k). intro m.
  induction m as [|m IH]; [destruct (f v); reflexivity|]. cbn [repeat count]. rewrite IH. destruct (f v); lia.
Qed.
Lemma repeatZ_length v k : length (repeatZ v k) = Z.to_nat k.
Proof. apply repeat_length. Qed.
Lemma repeatZ_all v k x : In x (repeatZ v k) -> x = v.
Proof. unfold repeatZ. intro H. now apply repeat_spec in H. Qed.

Lemma all01_perm l l' : Permutation l l' -> all01 l -> all01 l'.
Proof. unfold all01. intros P H. eapply Permutation_Forall; eassumption. Qed.

Lemma Qfloor_nonneg x : 0 <= x -> (0 <= Qfloor x)%Z.
Proof. intro H. change 0%Z with (Qfloor 0). now apply Qfloor_resp_le. Qed.
Lemma Qfloor_bounds x : inject_Z (Qfloor x) <= x /\ x < inject_Z (Qfloor x) + 1.
Proof.
  split; [apply Qfloor_le|]. pose proof (Qlt_floor x) as H. rewrite inject_Z_plus in H. exact H.
Qed.

(* ================================================================== BernoulliDataset *)
Lemma n_or_spec n_arg n_self : n_or n_arg n_self =
  match n_arg with Some k => if (k =? 0)%Z then n_self else Some k | None => n_self end.
Proof. reflexivity. Qed.

Lemma bern_no_size p n_self n_arg random h : n_or n_arg n_self = None -> bern_sample p n_self n_arg random h = ErrValue.
Proof. intro H. unfold bern_sample. now rewrite H. Qed.

Lemma bern_random p n_self n_arg n vals : n_or n_arg n_self = Some n ->
  bern_sample p n_self n_arg true (HBinomial vals) = Ok ([CBinomial 1 p (Some n)], vals).
Proof. intro H. unfold bern_sample. now rewrite H. Qed.

(* non-random sampling: exactly floor(n*p) ones among n entries, whatever the shuffle *)
Lemma bern_nonrandom p n_self n_arg n perm : n_or n_arg n_self = Some n -> (0 <= n)%Z -> 0 <= p -> p <= 1 ->
  is_perm perm (Z.to_nat n) ->
  exists data, bern_sample p n_self n_arg false (HShuffle perm) = Ok ([CShuffle n], data) /\
    ones data = Qfloor (inject_Z n * p) /\ len data = n /\ all01 data.
Proof.
  intros Hn H0 Hp0 Hp1 Hperm. unfold bern_sample. rewrite Hn.
  set (k := Qfloor (inject_Z n * p)).
  assert (Hn0 : 0 <= inject_Z n) by (change 0 with (inject_Z 0); rewrite <- Zle_Qle; exact H0).
  assert (K0 : (0 <= k)%Z) by (apply Qfloor_nonneg; nra).
  assert (K1 : (k <= n)%Z).
  { rewrite <- (Qfloor_Z n). apply Qfloor_resp_le. nra. }
  assert (E1 : (k <? 0)%Z = false) by (apply Z.ltb_ge; lia).
  assert (E2 : (n - k <? 0)%Z = false) by (apply Z.ltb_ge; lia).
  rewrite E1, E2. cbn [orb].
  set (data := (repeatZ 0 (n - k) ++ repeatZ 1 k)%list).
  assert (L : length data = Z.to_nat n) by (unfold data; rewrite app_length, !repeatZ_length; lia).
  assert (Ld : len data = n) by (unfold len; rewrite L; lia).
  rewrite <- L in Hperm. pose proof (apply_perm_perm data perm Hperm) as P.
  exists (apply_perm data perm). rewrite Ld. split; [reflexivity|]. split; [|split].
  - unfold ones. rewrite (count_perm _ _ _ P). unfold data. rewrite count_app, !count_repeatZ by lia. reflexivity.
  - unfold len. rewrite (Permutation_length P). exact Ld.
  - apply (all01_perm data); [apply Permutation_sym, P|]. unfold all01, data. apply Forall_forall. intros x Hx.
    apply in_app_or in Hx. destruct Hx as [Hx|Hx]; apply repeatZ_all in Hx; auto.
Qed.

(* ================================================================== CorrelatedBernoullilDataset *)
Section CorrFacts.
  Variable sqrtQ : Q -> Q.

  Lemma corr_probs_shape p1 p2 rho : exists a0 a1 a2 a3, corr_probs sqrtQ p1 p2 rho = [a0; a1; a2; a3] /\
    a0 + a1 + a2 + a3 == 1 /\ a1 + a3 == p1 /\ a2 + a3 == p2.
  Proof. unfold corr_probs. cbv zeta. do 4 eexists. split; [reflexivity|]. repeat split; ring. Qed.

  Lemma corr_probs_sum p1 p2 rho : Qsum (corr_probs sqrtQ p1 p2 rho) == 1.
  Proof. unfold corr_probs, Qsum. cbv zeta. cbn [fold_right]. ring. Qed.

  Lemma corr_no_size p1 p2 rho n_self n_arg random h : n_or n_arg n_self = None ->
    corr_sample sqrtQ p1 p2 rho n_self n_arg random h = ErrValue.
  Proof. intro H. unfold corr_sample. now rewrite H. Qed.

  Lemma exists_neg_iff (p : list Q) : existsb (fun q => Qltb q 0) p = true <-> exists q, In q p /\ q < 0.
  Proof.
    rewrite existsb_exists. split; intros (q & Hq & H); exists q; (split; [exact Hq|]); qb; exact H.
  Qed.

  Lemma corr_negative p1 p2 rho n_self n_arg random h : (exists q, In q (corr_probs sqrtQ p1 p2 rho) /\ q < 0) ->
    corr_sample sqrtQ p1 p2 rho n_self n_arg random h = ErrValue.
  Proof.
    intro H. apply exists_neg_iff in H. unfold corr_sample. destruct (n_or n_arg n_self); [|reflexivity]. now rewrite H.
  Qed.

  Lemma corr_random p1 p2 rho n_self n_arg n joint : n_or n_arg n_self = Some n ->
    (forall q, In q (corr_probs sqrtQ p1 p2 rho) -> 0 <= q) ->
    corr_sample sqrtQ p1 p2 rho n_self n_arg true (HChoice joint) =
    Ok ([CChoice 4 n (corr_probs sqrtQ p1 p2 rho)], (map (fun j => (j mod 2)%Z) joint, map (fun j => (j / 2)%Z) joint)).
  Proof.
    intros Hn Hp. unfold corr_sample. rewrite Hn.
    destruct (existsb (fun q => Qltb q 0) (corr_probs sqrtQ p1 p2 rho)) eqn:E; [|reflexivity].
    apply exists_neg_iff in E. destruct E as (q & Hq & Hlt). specialize (Hp q Hq). lra.
  Qed.

  Lemma mod2_div2_01 (joint : list Z) : Forall (fun j => (0 <= j <= 3)%Z) joint ->
    all01 (map (fun j => (j mod 2)%Z) joint) /\ all01 (map (fun j => (j / 2)%Z) joint).
  Proof.
    unfold all01. intro H. split; apply Forall_forall; intros x Hx; apply in_map_iff in Hx; destruct Hx as (j & <- & Hj);
      rewrite Forall_forall in H; specialize (H j Hj).
    - pose proof (Z.mod_pos_bound j 2 ltac:(lia)). lia.
    - assert (j = 0 \/ j = 1 \/ j = 2 \/ j = 3)%Z as [-> | [-> | [-> | ->]]] by lia; cbv; auto.
  Qed.

  (* random sampling: shape (2,n) and 0/1 values for every draw within numpy's contract for choice(4, size=n) *)
  Lemma corr_random_shape (joint : list Z) (n : Z) : len joint = n -> Forall (fun j => (0 <= j <= 3)%Z) joint ->
    len (map (fun j => (j mod 2)%Z) joint) = n /\ len (map (fun j => (j / 2)%Z) joint) = n /\
    all01 (map (fun j => (j mod 2)%Z) joint) /\ all01 (map (fun j => (j / 2)%Z) joint).
  Proof. intros Hl Hr. rewrite !len_map. destruct (mod2_div2_01 joint Hr). auto. Qed.

  (* non-random sampling *)
  Lemma corr_nonrandom p1 p2 rho n_self n_arg n perm : n_or n_arg n_self = Some n -> (0 <= n)%Z ->
    (forall q, In q (corr_probs sqrtQ p1 p2 rho) -> 0 <= q) -> is_perm perm (Z.to_nat n) ->
    exists r0 r1, corr_sample sqrtQ p1 p2 rho n_self n_arg false (HShuffle perm) = Ok ([CShuffle n], (r0, r1)) /\
      len r0 = n /\ len r1 = n /\ all01 r0 /\ all01 r1 /\
      inject_Z n * p1 <= inject_Z (ones r0) /\ inject_Z (ones r0) < inject_Z n * p1 + 2 /\
      inject_Z n * p2 <= inject_Z (ones r1) /\ inject_Z (ones r1) < inject_Z n * p2 + 2.
  Proof.
    intros Hn H0 Hp Hperm. unfold corr_sample. rewrite Hn.
    destruct (existsb (fun q => Qltb q 0) (corr_probs sqrtQ p1 p2 rho)) eqn:E.
    { apply exists_neg_iff in E. destruct E as (q & Hq & Hlt). specialize (Hp q Hq). lra. }
    destruct (corr_probs_shape p1 p2 rho) as (a0 & a1 & a2 & a3 & Ep & S & M1 & M2). rewrite Ep in *.
    assert (A0 : 0 <= a0) by (apply Hp; simpl; auto).
    assert (A1 : 0 <= a1) by (apply Hp; simpl; auto).
    assert (A2 : 0 <= a2) by (apply Hp; simpl; auto).
    assert (A3 : 0 <= a3) by (apply Hp; simpl; auto 6).
    assert (Hn0 : 0 <= inject_Z n) by (change 0 with (inject_Z 0); rewrite <- Zle_Qle; exact H0).
    set (f0 := Qfloor (inject_Z n * a0)). set (f1 := Qfloor (inject_Z n * a1)). set (f2 := Qfloor (inject_Z n * a2)).
    set (k3 := (n - (f0 + (f1 + (f2 + 0))))%Z).
    assert (Ec : corr_counts n [a0; a1; a2; a3] = [f0; f1; f2; k3]) by reflexivity.
    rewrite Ec.
    destruct (Qfloor_bounds (inject_Z n * a0)) as [L0 U0]. destruct (Qfloor_bounds (inject_Z n * a1)) as [L1 U1].
    destruct (Qfloor_bounds (inject_Z n * a2)) as [L2 U2]. fold f0 in L0, U0. fold f1 in L1, U1. fold f2 in L2, U2.
    assert (F0 : (0 <= f0)%Z) by (apply Qfloor_nonneg; nra).
    assert (F1 : (0 <= f1)%Z) by (apply Qfloor_nonneg; nra).
    assert (F2 : (0 <= f2)%Z) by (apply Qfloor_nonneg; nra).
    assert (K3q : inject_Z k3 == inject_Z n - inject_Z f0 - inject_Z f1 - inject_Z f2).
    { unfold k3. rewrite inject_Z_sub, !inject_Z_plus. change (inject_Z 0) with 0. ring. }
    assert (Tot : inject_Z n * a0 + inject_Z n * a1 + inject_Z n * a2 + inject_Z n * a3 == inject_Z n) by nra.
    assert (K3 : (0 <= k3)%Z).
    { rewrite Zle_Qle. change (inject_Z 0) with 0. rewrite K3q. nra. }
    assert (Eg : existsb (fun k => (k <? 0)%Z) [f0; f1; f2; k3] = false).
    { cbn [existsb]. rewrite !orb_false_r.
      repeat (apply orb_false_iff; split); apply Z.ltb_ge; assumption. }
    rewrite Eg.
    set (joint0 := repeat_arange 0 [f0; f1; f2; k3]).
    assert (J0 : joint0 = (repeatZ 0 f0 ++ repeatZ 1 f1 ++ repeatZ 2 f2 ++ repeatZ 3 k3 ++ [])%list) by reflexivity.
    assert (L : length joint0 = Z.to_nat n).
    { rewrite J0, !app_length, !repeatZ_length. cbn [length]. unfold k3. lia. }
    assert (Lj : len joint0 = n) by (unfold len; rewrite L; lia).
    rewrite <- L in Hperm. pose proof (apply_perm_perm joint0 perm Hperm) as P.
    set (joint := apply_perm joint0 perm) in *.
    assert (Rng : Forall (fun j => (0 <= j <= 3)%Z) joint).
    { apply (Permutation_Forall (Permutation_sym P)). rewrite J0. apply Forall_forall. intros x Hx.
      repeat (apply in_app_or in Hx; destruct Hx as [Hx|Hx]; [apply repeatZ_all in Hx; lia|]). destruct Hx. }
    destruct (mod2_div2_01 joint Rng) as [B0 B1].
    assert (C0 : ones (map (fun j => (j mod 2)%Z) joint) = (f1 + k3)%Z).
    { unfold ones. rewrite count_map, (count_perm _ _ _ P), J0, !count_app, !count_repeatZ by assumption. cbn. lia. }
    assert (C1 : ones (map (fun j => (j / 2)%Z) joint) = (f2 + k3)%Z).
    { unfold ones. rewrite count_map, (count_perm _ _ _ P), J0, !count_app, !count_repeatZ by assumption. cbn. lia. }
    exists (map (fun j => (j mod 2)%Z) joint), (map (fun j => (j / 2)%Z) joint).
    rewrite Lj. split; [reflexivity|].
    assert (Lr : length joint = Z.to_nat n) by (rewrite (Permutation_length P); exact L).
    split; [unfold len; rewrite map_length, Lr; lia|]. split; [unfold len; rewrite map_length, Lr; lia|].
    split; [exact B0|]. split; [exact B1|].
    rewrite C0, C1, !inject_Z_plus, K3q.
    repeat split; nra.
  Qed.

  (* ValueError exactly when some joint probability is negative (a dataset size being available) *)
  Lemma corr_error_iff p1 p2 rho n_self n_arg n random h : n_or n_arg n_self = Some n -> (0 <= n)%Z ->
    (random = true -> exists j, h = HChoice j) ->
    (random = false -> exists perm, h = HShuffle perm /\ is_perm perm (Z.to_nat n)) ->
    (corr_sample sqrtQ p1 p2 rho n_self n_arg random h = ErrValue <->
     exists q, In q (corr_probs sqrtQ p1 p2 rho) /\ q < 0).
  Proof.
    intros Hn H0 Hr Hnr. split; [|apply corr_negative].
    intro He. destruct (existsb (fun q => Qltb q 0) (corr_probs sqrtQ p1 p2 rho)) eqn:E; [now apply exists_neg_iff|].
    exfalso.
    assert (Hp : forall q, In q (corr_probs sqrtQ p1 p2 rho) -> 0 <= q).
    { intros q Hq. destruct (Qlt_le_dec q 0) as [L|L]; [|exact L].
      assert (existsb (fun q => Qltb q 0) (corr_probs sqrtQ p1 p2 rho) = true) by (apply exists_neg_iff; eauto). congruence. }
    destruct random.
    - destruct (Hr eq_refl) as (j & ->). rewrite (corr_random p1 p2 rho n_self n_arg n j Hn Hp) in He. discriminate.
    - destruct (Hnr eq_refl) as (perm & -> & Hperm).
      destruct (corr_nonrandom p1 p2 rho n_self n_arg n perm Hn H0 Hp Hperm) as (r0 & r1 & Hs & _). rewrite Hs in He. discriminate.
  Qed.
End CorrFacts.
