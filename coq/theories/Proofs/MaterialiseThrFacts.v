(* Proofs/MaterialiseThrFacts.v — C09: thresholds of the object with virtual easy samples vs the object in which
   those samples are actual scores (in sorted position, strictly beyond the scored samples of their class), for the
   four class-wise metrics (tpr, fnr, tnr, fpr), method linear.
   Route: both calls interpolate at the same position of the sample sequence (the materialised list is the scored
   list extended on one side, and the rescaling of the target by the hard ratio is exactly the index shift);
   a materialised threshold inside the range of the scored samples (strictly, on the side of the materialised
   samples) forces that position between two scored samples. *)
From SA Require Import Model.Threshold Model.Symmetry Proofs.SentinelFacts Proofs.ExtremeFacts Proofs.InvIncrFacts
  Proofs.EquivarianceFacts Proofs.TrapzFacts Proofs.MaterialiseAucFacts Proofs.NegationFacts.
Open Scope Q_scope.


(* linear interpolation at position x of the 0-based sample sequence l, the right neighbour clamped to the last sample *)
Definition interpc (l : list Q) (x : Q) : Q :=
  (inject_Z (Qceiling x) - x) * nthZ l (Qfloor x)
  + (1 - (inject_Z (Qceiling x) - x)) * nthZ l (Z.min (Qceiling x) (len l - 1)).

Lemma interpc_compat l x y : x == y -> interpc l x == interpc l y.
Proof. intro H. unfold interpc. rewrite (Qfloor_comp x y H), (Qceiling_comp x y H), H. reflexivity. Qed.

Lemma nthZ_app_l (l r : list Q) i : (0 <= i < len l)%Z -> nthZ (l ++ r) i = nthZ l i.
Proof. intro H. unfold nthZ, len in *. apply app_nth1. lia. Qed.
Lemma nthZ_app_r (l r : list Q) i : (len l <= i)%Z -> nthZ (l ++ r) i = nthZ r (i - len l).
Proof.
  intro H. pose proof (len_nonneg l). unfold nthZ, len in *. rewrite app_nth2 by lia. f_equal. lia.
Qed.
Lemma nthZ_repeat (p : Q) k i : (0 <= i < Z.of_nat k)%Z -> nthZ (repeat p k) i = p.
Proof.
  intro H. unfold nthZ. rewrite (nth_indep (repeat p k) 0 p) by (rewrite repeat_length; lia). apply nth_repeat.
Qed.

Lemma ceil_weight x : 0 <= inject_Z (Qceiling x) - x /\ inject_Z (Qceiling x) - x < 1.
Proof. destruct (ceil_bounds x). split; lra. Qed.

Section Ext.
  Variable succ pred : Q -> Q.
  Hypothesis Hsucc : forall x, x < succ x.
  Hypothesis Hpred : forall x, pred x < x.
  Notation inv := (inv_incr succ pred).

  (* the object with virtual easy samples: interior target at position x *)
  Lemma inv_at_position l u lc x : (1 <= len l)%Z -> interior l u lc -> xpos l u lc == x ->
    inv l u lc Linear == interpc l x.
  Proof.
    intros H Hi E. rewrite (inv_interior succ pred l u lc Linear Hi).
    destruct (interior_idx l u lc H Hi) as (A & B & C & D & _). cbv zeta in *.
    rewrite C, D. unfold interpc. rewrite (Qfloor_comp _ _ E), (Qceiling_comp _ _ E), E. reflexivity.
  Qed.

  (* materialised on the right: k >= 1 copies of p, p above the last sample *)
  Lemma inv_right_ext l p k u' lc : (1 <= len l)%Z -> (1 <= k)%nat -> nthZ l (len l - 1) < p ->
    let l' := l ++ repeat p k in
    let t' := inv l' u' lc Linear in
    nthZ l 0 <= t' -> t' < nthZ l (len l - 1) ->
    interior l' u' lc /\ 0 < xpos l' u' lc /\ xpos l' u' lc < inject_Z (len l - 1) /\ t' == interpc l (xpos l' u' lc).
  Proof.
    intros Hn Hk Hp l' t' Lo Hi. set (n := len l) in *.
    assert (Ln' : len l' = (n + Z.of_nat k)%Z) by (unfold l'; rewrite len_app, len_repeat; reflexivity).
    assert (Hn' : (1 <= len l')%Z) by lia.
    assert (Last : nthZ l' (len l' - 1) = p).
    { rewrite Ln'. unfold l'. rewrite nthZ_app_r by (fold n; lia). apply nthZ_repeat. fold n. lia. }
    assert (First : nthZ l' 0 = nthZ l 0) by (unfold l'; apply nthZ_app_l; fold n; lia).
    destruct (inv_cases l' u' lc) as [U|[[U1 U2]|Hint]].
    - exfalso. unfold t' in Hi. rewrite (inv_upper succ pred l' u' lc Linear U), Last in Hi. pose proof (Hsucc p). lra.
    - exfalso. unfold t' in Lo. rewrite (inv_low_sentinel succ pred l' u' lc Linear U1 U2), First in Lo.
      pose proof (Hpred (nthZ l 0)). lra.
    - split; [exact Hint|].
      pose proof (inv_interior succ pred l' u' lc Linear Hint) as E. fold t' in E.
      destruct (interior_idx l' u' lc Hn' Hint) as (A & B & C & D & _). cbv zeta in *.
      destruct (interior_x l' u' lc Hn' Hint) as (X0 & _).
      set (x := xpos l' u' lc) in *. rewrite C, D, Ln' in E.
      destruct (ceil_weight x) as [W0 W1]. set (la := inject_Z (Qceiling x) - x) in *.
      pose proof (floor_le_ceil x) as FC. pose proof (ceil_le_floor1 x) as CF.
      (* the right neighbour is a scored sample *)
      assert (Cc : (Z.min (Qceiling x) (n + Z.of_nat k - 1) <= n - 1)%Z).
      { destruct (Z_le_gt_dec (Z.min (Qceiling x) (n + Z.of_nat k - 1)) (n - 1)) as [|G]; [assumption|exfalso].
        set (cc := Z.min (Qceiling x) (n + Z.of_nat k - 1)) in *.
        assert (Ecc : nthZ l' cc = p).
        { unfold l'. rewrite nthZ_app_r by (fold n; lia). apply nthZ_repeat. fold n. lia. }
        assert (Ecf : nthZ l (n - 1) <= nthZ l' (Qfloor x)).
        { destruct (Z.eq_dec (Qfloor x) (n - 1)) as [Q|Q].
          - rewrite Q. unfold l'. rewrite nthZ_app_l by (fold n; lia). lra.
          - assert (Qf : nthZ l' (Qfloor x) = p).
            { unfold l'. rewrite nthZ_app_r by (fold n; lia). apply nthZ_repeat. fold n. lia. }
            rewrite Qf. lra. }
        rewrite Ecc in E. rewrite E in Hi. nra. }
      assert (Cx : (Qceiling x <= n - 1)%Z) by lia.
      assert (Xle : x <= inject_Z (n - 1)) by (destruct (ceil_bounds x) as [_ Q]; rewrite Zle_Qle in Cx; lra).
      assert (Eint : t' == interpc l x).
      { rewrite E. unfold interpc. fold la. fold n.
        replace (Z.min (Qceiling x) (n + Z.of_nat k - 1)) with (Z.min (Qceiling x) (n - 1)) by lia.
        unfold l'. rewrite !nthZ_app_l by (fold n; lia). reflexivity. }
      split; [exact X0|]. split; [|exact Eint].
      destruct (Qlt_le_dec x (inject_Z (n - 1))) as [|G]; [assumption|exfalso].
      assert (Ex : x == inject_Z (n - 1)) by lra.
      rewrite (interpc_compat l x _ Ex) in Eint. unfold interpc in Eint.
      rewrite Qfloor_Z, Qceiling_Z in Eint. fold n in Eint. rewrite Z.min_id in Eint.
      rewrite Eint in Hi. nra.
  Qed.

  (* materialised on the left: k >= 1 copies of p, p below the first sample *)
  Lemma inv_left_ext l p k u' lc : (1 <= len l)%Z -> (1 <= k)%nat -> p < nthZ l 0 ->
    let l' := repeat p k ++ l in
    let t' := inv l' u' lc Linear in
    nthZ l 0 < t' -> t' <= nthZ l (len l - 1) ->
    interior l' u' lc /\ inject_Z (Z.of_nat k) < xpos l' u' lc /\ t' == interpc l (xpos l' u' lc - inject_Z (Z.of_nat k)).
  Proof.
    intros Hn Hk Hp l' t' Lo Hi. set (n := len l) in *. set (kz := Z.of_nat k) in *.
    assert (Kz : (1 <= kz)%Z) by (unfold kz; lia).
    assert (Lr : len (repeat p k) = kz) by apply len_repeat.
    assert (Ln' : len l' = (kz + n)%Z) by (unfold l'; rewrite len_app, Lr; reflexivity).
    assert (Hn' : (1 <= len l')%Z) by lia.
    assert (Last : nthZ l' (len l' - 1) = nthZ l (n - 1)).
    { rewrite Ln'. unfold l'. rewrite nthZ_app_r by (rewrite Lr; lia). rewrite Lr. f_equal. lia. }
    assert (First : nthZ l' 0 = p) by (unfold l'; rewrite nthZ_app_l by (rewrite Lr; lia); apply nthZ_repeat; fold kz; lia).
    destruct (inv_cases l' u' lc) as [U|[[U1 U2]|Hint]].
    - exfalso. unfold t' in Hi. rewrite (inv_upper succ pred l' u' lc Linear U), Last in Hi.
      pose proof (Hsucc (nthZ l (n - 1))). lra.
    - exfalso. unfold t' in Lo. rewrite (inv_low_sentinel succ pred l' u' lc Linear U1 U2), First in Lo.
      pose proof (Hpred p). lra.
    - split; [exact Hint|].
      pose proof (inv_interior succ pred l' u' lc Linear Hint) as E. fold t' in E.
      destruct (interior_idx l' u' lc Hn' Hint) as (A & B & C & D & _). cbv zeta in *.
      set (x := xpos l' u' lc) in *. rewrite C, D, Ln' in E.
      destruct (ceil_weight x) as [W0 W1]. set (la := inject_Z (Qceiling x) - x) in *.
      pose proof (floor_le_ceil x) as FC. pose proof (ceil_le_floor1 x) as CF.
      (* the left neighbour is a scored sample *)
      assert (Cf : (kz <= Qfloor x)%Z).
      { destruct (Z_le_gt_dec kz (Qfloor x)) as [|G]; [assumption|exfalso].
        assert (Ecf : nthZ l' (Qfloor x) = p).
        { unfold l'. rewrite nthZ_app_l by (rewrite Lr; lia). apply nthZ_repeat. fold kz. lia. }
        rewrite Ecf in E.
        destruct (Z.eq_dec (Qfloor x) (Qceiling x)) as [Q|Q].
        - assert (Ecc : nthZ l' (Z.min (Qceiling x) (kz + n - 1)) = p).
          { replace (Z.min (Qceiling x) (kz + n - 1)) with (Qfloor x) by lia. exact Ecf. }
          rewrite Ecc in E. rewrite E in Lo. nra.
        - destruct (floor_lt_ceil x ltac:(lia)) as [F1 F2].
          assert (CE : Qceiling x = (Qfloor x + 1)%Z) by lia.
          assert (Wpos : 0 < la) by (unfold la; rewrite CE, inject_Z_plus; change (inject_Z 1) with 1; lra).
          assert (Ecc : nthZ l' (Z.min (Qceiling x) (kz + n - 1)) <= nthZ l 0).
          { destruct (Z.eq_dec (Qceiling x) kz) as [Q2|Q2].
            - replace (Z.min (Qceiling x) (kz + n - 1)) with kz by lia.
              unfold l'. rewrite nthZ_app_r by (rewrite Lr; lia). rewrite Lr, Z.sub_diag. lra.
            - assert (Qc : nthZ l' (Z.min (Qceiling x) (kz + n - 1)) = p).
              { unfold l'. rewrite nthZ_app_l by (rewrite Lr; lia). apply nthZ_repeat. fold kz. lia. }
              rewrite Qc. lra. }
          rewrite E in Lo. nra. }
      assert (Eint : t' == interpc l (x - inject_Z kz)).
      { rewrite E. unfold interpc.
        assert (F1 : Qfloor (x - inject_Z kz) = (Qfloor x - kz)%Z).
        { assert (Q : x - inject_Z kz == inject_Z (- kz) + x) by (rewrite inject_Z_opp; ring).
          rewrite (Qfloor_comp _ _ Q), floor_shift. lia. }
        assert (F2 : Qceiling (x - inject_Z kz) = (Qceiling x - kz)%Z).
        { unfold Qceiling. assert (Q : - (x - inject_Z kz) == inject_Z kz + - x) by ring.
          rewrite (Qfloor_comp _ _ Q), floor_shift. lia. }
        rewrite F1, F2. fold n.
        assert (W : inject_Z (Qceiling x - kz) - (x - inject_Z kz) == la) by (unfold la; rewrite inject_Z_sub; ring).
        rewrite W. unfold l'. rewrite !nthZ_app_r by (rewrite Lr; lia). rewrite Lr.
        replace (Z.min (Qceiling x) (kz + n - 1) - kz)%Z with (Z.min (Qceiling x - kz) (n - 1)) by lia.
        reflexivity. }
      split; [|exact Eint].
      assert (Xge : inject_Z kz <= x) by (destruct (floor_bounds x) as [Q _]; rewrite Zle_Qle in Cf; lra).
      destruct (Qlt_le_dec (inject_Z kz) x) as [|G]; [assumption|exfalso].
      assert (Ex : x - inject_Z kz == inject_Z 0) by (change (inject_Z 0) with 0; lra).
      rewrite (interpc_compat l _ _ Ex) in Eint. unfold interpc in Eint.
      rewrite Qfloor_Z, Qceiling_Z in Eint. fold n in Eint.
      replace (Z.min 0 (n - 1)) with 0%Z in Eint by lia. rewrite Eint in Lo. nra.
  Qed.
End Ext.


(* the two rescalings of threshold setting, as functions of the hard ratio h *)
Definition uA (h r : Q) : Q := Qminimum (r / h) 1.
Definition uB (h r : Q) : Q := Qmaximum (Qminimum (Qmaximum (r - (1 - h)) 0 / h) 1) (b2q (Qleb 1 r)).

Lemma Qmin2_lt1 v : Qmin2 v 1 < 1 -> Qmin2 v 1 = v /\ v < 1.
Proof. unfold Qmin2. destruct (Qleb v 1) eqn:E; qb; intro H; [split; [reflexivity|lra]|lra]. Qed.
Lemma Qmin2_of_lt v : v < 1 -> Qmin2 v 1 = v.
Proof. intro H. unfold Qmin2. assert (E : Qleb v 1 = true) by (qb; lra). now rewrite E. Qed.
Lemma Qmax2_of_pos v : 0 < v -> Qmax2 v 0 = v.
Proof. intro H. unfold Qmax2. assert (E : Qleb v 0 = false) by (qb; lra). now rewrite E. Qed.

Lemma div1 v : v / 1 == v.
Proof. field. Qed.
Lemma uA1 r : uA 1 r < 1 -> uA 1 r = r / 1 /\ r < 1.
Proof. unfold uA, Qminimum. intro H. destruct (Qmin2_lt1 _ H) as [A B]. split; [exact A|rewrite div1 in B; exact B]. Qed.

Lemma uB1 r : 0 < uB 1 r -> uB 1 r < 1 -> uB 1 r == r /\ 0 < r /\ r < 1.
Proof.
  unfold uB, Qmaximum, Qminimum, b2q, Qmax2, Qmin2.
  destruct (Qleb 1 r) eqn:A; destruct (Qleb (r - (1 - 1)) 0) eqn:B; qb.
  - destruct (Qleb (0 / 1) 1) eqn:C; [destruct (Qleb (0 / 1) 1) eqn:D|destruct (Qleb 1 1) eqn:D]; qb; rewrite ?div1 in *; intros; lra.
  - destruct (Qleb ((r - (1 - 1)) / 1) 1) eqn:C; [destruct (Qleb ((r - (1 - 1)) / 1) 1) eqn:D|destruct (Qleb 1 1) eqn:D]; qb; rewrite ?div1 in *; intros; lra.
  - destruct (Qleb (0 / 1) 1) eqn:C; [destruct (Qleb (0 / 1) 0) eqn:D|destruct (Qleb 1 0) eqn:D]; qb; rewrite ?div1 in *; intros; lra.
  - destruct (Qleb ((r - (1 - 1)) / 1) 1) eqn:C; [destruct (Qleb ((r - (1 - 1)) / 1) 0) eqn:D|destruct (Qleb 1 0) eqn:D]; qb; rewrite ?div1 in *; intros; lra.
Qed.

Section Arith.
  Variables nQ kQ : Q.
  Hypothesis Hn : 1 <= nQ.
  Hypothesis Hk : 1 <= kQ.
  Notation NQ := (nQ + kQ).
  Notation h := (nQ / NQ).

  Lemma h_pos : 0 < h /\ h < 1.
  Proof. split; [apply Qlt_shift_div_l; lra|apply Qlt_shift_div_r; lra]. Qed.

  Lemma divh r : (r / h) * nQ == r * NQ.
  Proof. field. split; lra. Qed.
  Lemma divh_B r : ((r - (1 - h)) / h) * nQ == r * NQ - kQ.
  Proof. field. split; lra. Qed.

  (* uA h r when r*N < n *)
  Lemma uA_s r : r * NQ < nQ -> uA h r = r / h.
  Proof.
    intro H. unfold uA, Qminimum. apply Qmin2_of_lt. pose proof (divh r). nra.
  Qed.
  (* uB h r when k < r*N and r < 1 *)
  Lemma uB_s r : kQ < r * NQ -> r < 1 -> uB h r = (r - (1 - h)) / h.
  Proof.
    intros H1 H2. unfold uB, Qmaximum, Qminimum, b2q.
    assert (A : Qleb 1 r = false) by (qb; lra). rewrite A.
    assert (B : 0 < r - (1 - h)).
    { assert (E : (r - (1 - h)) * NQ == r * NQ - kQ) by (field; lra). nra. }
    rewrite (Qmax2_of_pos _ B).
    pose proof (divh_B r) as E.
    assert (C : (r - (1 - h)) / h < 1) by nra.
    rewrite (Qmin2_of_lt _ C). apply Qmax2_of_pos. nra.
  Qed.
End Arith.


Section Four.
  Variable succ pred : Q -> Q.
  Hypothesis Hsucc : forall x, x < succ x.
  Hypothesis Hpred : forall x, pred x < x.
  Notation inv := (inv_incr succ pred).

  Variable l : list Q.
  Variable p : Q.
  Variable k : nat.
  Hypothesis Hn : (1 <= len l)%Z.
  Hypothesis Hk : (1 <= k)%nat.
  Notation n := (len l).
  Notation kz := (Z.of_nat k).
  Notation hh := (inject_Z n / inject_Z (n + kz)).

  Let nQ := inject_Z n.
  Let kQ := inject_Z kz.
  Lemma nQ1 : 1 <= nQ. Proof. apply lenQ_pos; exact Hn. Qed.
  Lemma kQ1 : 1 <= kQ. Proof. unfold kQ. change 1 with (inject_Z 1). rewrite <- Zle_Qle. lia. Qed.
  Lemma hh_eq : hh = nQ / (nQ + kQ) -> True. Proof. trivial. Qed.
  Lemma NQ_eq : inject_Z (n + kz) == nQ + kQ. Proof. unfold nQ, kQ. rewrite inject_Z_plus. reflexivity. Qed.

  Lemma len_r : len (l ++ repeat p k) = (n + kz)%Z. Proof. rewrite len_app, len_repeat. reflexivity. Qed.
  Lemma len_l : len (repeat p k ++ l) = (kz + n)%Z. Proof. rewrite len_app, len_repeat. reflexivity. Qed.

  (* positions *)
  Lemma xpos_r u lc : xpos (l ++ repeat p k) u lc == u * (nQ + kQ) - (if lc then 0 else 1).
  Proof.
    assert (H : (1 <= len (l ++ repeat p k))%Z) by (rewrite len_r; lia).
    pose proof (xpos_u _ u lc H) as E. rewrite len_r, NQ_eq in E. lra.
  Qed.
  Lemma xpos_l u lc : xpos (repeat p k ++ l) u lc == u * (nQ + kQ) - (if lc then 0 else 1).
  Proof.
    assert (H : (1 <= len (repeat p k ++ l))%Z) by (rewrite len_l; lia).
    pose proof (xpos_u _ u lc H) as E. rewrite len_l, Z.add_comm, NQ_eq in E. lra.
  Qed.
  Lemma xpos_s u lc : xpos l u lc == u * nQ - (if lc then 0 else 1).
  Proof. pose proof (xpos_u l u lc Hn) as E. fold nQ in E. lra. Qed.
  Lemma shifted_s u lc : shifted l u lc * nQ == xpos l u lc.
  Proof. reflexivity. Qed.

  Lemma interior_s u lc : u < 1 -> 0 < xpos l u lc -> interior l u lc.
  Proof.
    intros A B. split; [exact A|]. pose proof nQ1. unfold xpos in B. fold nQ in B. nra.
  Qed.

  Lemma hh_form : hh = nQ / (nQ + kQ).
  Proof. unfold nQ, kQ. now rewrite inject_Z_plus. Qed.
  Lemma last_form : inject_Z (n - 1) == nQ - 1.
  Proof. unfold nQ. rewrite inject_Z_sub. reflexivity. Qed.

  (* A, no flip: samples materialised on the right *)
  Lemma RA r lc : nthZ l (n - 1) < p ->
    let t' := inv (l ++ repeat p k) (uA 1 r) lc Linear in
    nthZ l 0 <= t' -> t' < nthZ l (n - 1) -> inv l (uA hh r) lc Linear == t'.
  Proof.
    intros Hp t' Lo Hi. pose proof nQ1 as N1. pose proof kQ1 as K1.
    destruct (inv_right_ext succ pred Hsucc Hpred l p k (uA 1 r) lc Hn Hk Hp Lo Hi) as ([U1 U2] & X0 & X1 & Et).
    destruct (uA1 r U1) as [EA R1]. fold t' in Et. rewrite Et.
    rewrite xpos_r, EA, div1 in X0. rewrite xpos_r, EA, div1, last_form in X1.
    assert (RN : r * (nQ + kQ) < nQ) by (destruct lc; lra).
    rewrite hh_form. rewrite (uA_s nQ kQ N1 K1 r RN).
    pose proof (divh nQ kQ N1 K1 r) as D. set (v := r / (nQ / (nQ + kQ))) in *.
    assert (Ex : xpos l v lc == xpos (l ++ repeat p k) (uA 1 r) lc).
    { rewrite xpos_s, xpos_r, EA, div1. lra. }
    apply (inv_at_position succ pred l v lc _ Hn); [|exact Ex].
    apply interior_s; [nra|]. rewrite xpos_s. destruct lc; lra.
  Qed.

  (* B, flip: samples materialised on the right *)
  Lemma RB r lc : nthZ l (n - 1) < p ->
    let t' := inv (l ++ repeat p k) (1 - uB 1 r) lc Linear in
    nthZ l 0 <= t' -> t' < nthZ l (n - 1) -> inv l (1 - uB hh r) lc Linear == t'.
  Proof.
    intros Hp t' Lo Hi. pose proof nQ1 as N1. pose proof kQ1 as K1.
    destruct (inv_right_ext succ pred Hsucc Hpred l p k (1 - uB 1 r) lc Hn Hk Hp Lo Hi) as (Hint & X0 & X1 & Et).
    assert (W : 0 < uB 1 r /\ uB 1 r < 1).
    { destruct Hint as [U1 U2]. split; [lra|].
      assert (L1 : (1 <= len (l ++ repeat p k))%Z) by (rewrite len_r; lia).
      pose proof (lenQ_pos _ L1) as Q1. unfold shifted in U2.
      assert (0 < 1 / inject_Z (len (l ++ repeat p k))) by (apply Qlt_shift_div_l; lra).
      destruct lc; cbn [negb] in U2; lra. }
    destruct (uB1 r (proj1 W) (proj2 W)) as (EB & R0 & R1). fold t' in Et. rewrite Et.
    rewrite xpos_r, EB in X0. rewrite xpos_r, EB, last_form in X1.
    assert (RN : kQ < r * (nQ + kQ)) by (destruct lc; lra).
    rewrite hh_form. rewrite (uB_s nQ kQ N1 K1 r RN R1).
    pose proof (divh_B nQ kQ N1 K1 r) as D. set (v := (r - (1 - nQ / (nQ + kQ))) / (nQ / (nQ + kQ))) in *.
    assert (Ex : xpos l (1 - v) lc == xpos (l ++ repeat p k) (1 - uB 1 r) lc).
    { rewrite xpos_s, xpos_r, EB. lra. }
    apply (inv_at_position succ pred l (1 - v) lc _ Hn); [|exact Ex].
    apply interior_s; [nra|]. rewrite xpos_s. destruct lc; lra.
  Qed.

  (* B, no flip: samples materialised on the left *)
  Lemma LB r lc : p < nthZ l 0 ->
    let t' := inv (repeat p k ++ l) (uB 1 r) lc Linear in
    nthZ l 0 < t' -> t' <= nthZ l (n - 1) -> inv l (uB hh r) lc Linear == t'.
  Proof.
    intros Hp t' Lo Hi. pose proof nQ1 as N1. pose proof kQ1 as K1.
    destruct (inv_left_ext succ pred Hsucc Hpred l p k (uB 1 r) lc Hn Hk Hp Lo Hi) as (Hint & X0 & Et).
    assert (W : 0 < uB 1 r /\ uB 1 r < 1).
    { destruct Hint as [U1 U2]. split; [|lra].
      assert (L1 : (1 <= len (repeat p k ++ l))%Z) by (rewrite len_l; lia).
      pose proof (lenQ_pos _ L1) as Q1. unfold shifted in U2.
      assert (0 < 1 / inject_Z (len (repeat p k ++ l))) by (apply Qlt_shift_div_l; lra).
      destruct lc; cbn [negb] in U2; lra. }
    destruct (uB1 r (proj1 W) (proj2 W)) as (EB & R0 & R1). fold t' in Et. rewrite Et.
    fold kQ in X0. rewrite xpos_l, EB in X0.
    assert (RN : kQ < r * (nQ + kQ)) by (destruct lc; lra).
    rewrite hh_form. rewrite (uB_s nQ kQ N1 K1 r RN R1).
    pose proof (divh_B nQ kQ N1 K1 r) as D. set (v := (r - (1 - nQ / (nQ + kQ))) / (nQ / (nQ + kQ))) in *.
    assert (Ex : xpos l v lc == xpos (repeat p k ++ l) (uB 1 r) lc - inject_Z kz).
    { fold kQ. rewrite xpos_s, xpos_l, EB. lra. }
    apply (inv_at_position succ pred l v lc _ Hn); [|exact Ex].
    apply interior_s; [nra|]. rewrite xpos_s. destruct lc; lra.
  Qed.

  (* A, flip: samples materialised on the left *)
  Lemma LA r lc : p < nthZ l 0 ->
    let t' := inv (repeat p k ++ l) (1 - uA 1 r) lc Linear in
    nthZ l 0 < t' -> t' <= nthZ l (n - 1) -> inv l (1 - uA hh r) lc Linear == t'.
  Proof.
    intros Hp t' Lo Hi. pose proof nQ1 as N1. pose proof kQ1 as K1.
    destruct (inv_left_ext succ pred Hsucc Hpred l p k (1 - uA 1 r) lc Hn Hk Hp Lo Hi) as (Hint & X0 & Et).
    assert (U1 : uA 1 r < 1).
    { destruct Hint as [_ U2].
      assert (L1 : (1 <= len (repeat p k ++ l))%Z) by (rewrite len_l; lia).
      pose proof (lenQ_pos _ L1) as Q1. unfold shifted in U2.
      assert (0 < 1 / inject_Z (len (repeat p k ++ l))) by (apply Qlt_shift_div_l; lra).
      destruct lc; cbn [negb] in U2; lra. }
    destruct (uA1 r U1) as [EA R1]. fold t' in Et. rewrite Et.
    assert (R0 : 0 < r) by (destruct Hint as [U0 _]; rewrite EA, div1 in U0; lra).
    fold kQ in X0. rewrite xpos_l, EA, div1 in X0.
    assert (RN : r * (nQ + kQ) < nQ) by (destruct lc; lra).
    rewrite hh_form. rewrite (uA_s nQ kQ N1 K1 r RN).
    pose proof (divh nQ kQ N1 K1 r) as D. set (v := r / (nQ / (nQ + kQ))) in *.
    assert (Ex : xpos l (1 - v) lc == xpos (repeat p k ++ l) (1 - uA 1 r) lc - inject_Z kz).
    { fold kQ. rewrite xpos_s, xpos_l, EA, div1. lra. }
    apply (inv_at_position succ pred l (1 - v) lc _ Hn); [|exact Ex].
    apply interior_s; [nra|]. rewrite xpos_s. destruct lc; lra.
  Qed.
End Four.


Lemma Qleb_comp_r a u v : u == v -> Qleb a u = Qleb a v.
Proof. intro E. destruct (Qleb a u) eqn:A, (Qleb a v) eqn:B; qb; try reflexivity; lra. Qed.
Lemma Qleb_comp_l a u v : u == v -> Qleb u a = Qleb v a.
Proof. intro E. destruct (Qleb u a) eqn:A, (Qleb v a) eqn:B; qb; try reflexivity; lra. Qed.

Lemma inv_compat succ pred l u v lc m : u == v -> inv_incr succ pred l u lc m == inv_incr succ pred l v lc m.
Proof.
  intro E. unfold inv_incr. cbv zeta.
  rewrite (Qleb_comp_r 1 u v E).
  set (tu := if negb lc then u - 1 / inject_Z (len l) else u).
  set (tv := if negb lc then v - 1 / inject_Z (len l) else v).
  assert (Et : tu == tv) by (unfold tu, tv; destruct lc; cbn [negb]; rewrite E; reflexivity).
  rewrite (Qleb_comp_l 0 tu tv Et).
  assert (Em : tu * inject_Z (len l) == tv * inject_Z (len l)) by (rewrite Et; reflexivity).
  rewrite (Qfloor_comp _ _ Em), (Qceiling_comp _ _ Em).
  destruct (Qleb 1 v); [reflexivity|]. destruct (Qleb tv 0); [reflexivity|].
  destruct m; try reflexivity. rewrite Em. reflexivity.
Qed.

(* the easy samples as actual scores, in sorted position: beyond the scored samples on their own class's side *)
Definition mat_sorted (s : scores) (ppos pneg : Q) : scores :=
  match score_class s with
  | Pos => mkScores (pos s ++ repeat ppos (Z.to_nat (easy_pos s))) (repeat pneg (Z.to_nat (easy_neg s)) ++ neg s)
                    0 0 Pos (equal_class s)
  | Neg => mkScores (repeat ppos (Z.to_nat (easy_pos s)) ++ pos s) (neg s ++ repeat pneg (Z.to_nat (easy_neg s)))
                    0 0 Neg (equal_class s)
  end.


Section Lift.
  Variable succ pred : Q -> Q.
  Hypothesis Hsucc : forall x, x < succ x.
  Hypothesis Hpred : forall x, pred x < x.

  Lemma len_app_pos (l r : list Q) : (1 <= len l)%Z -> (len (l ++ r) =? 0)%Z = false.
  Proof. intro H. rewrite len_app. pose proof (len_nonneg r). apply Z.eqb_neq. lia. Qed.
  Lemma len_app_pos' (l r : list Q) : (1 <= len l)%Z -> (len (r ++ l) =? 0)%Z = false.
  Proof. intro H. rewrite len_app. pose proof (len_nonneg r). apply Z.eqb_neq. lia. Qed.
  Lemma len_pos (l : list Q) : (1 <= len l)%Z -> (len l =? 0)%Z = false.
  Proof. intro H. apply Z.eqb_neq. lia. Qed.
  Lemma ltb_pos k : (1 <= k)%Z -> (0 <? k)%Z = true.
  Proof. intro H. apply Z.ltb_lt. lia. Qed.
  Lemma k_nat k : (1 <= k)%Z -> (1 <= Z.to_nat k)%nat /\ Z.of_nat (Z.to_nat k) = k.
  Proof. intro H. split; lia. Qed.


  Ltac setup H Hn Hk :=
    unfold mat_sorted, threshold_at_fnr, threshold_at_tpr, threshold_at_tnr, threshold_at_fpr,
      hard_pos_ratio, hard_neg_ratio, easy_pos_ratio, easy_neg_ratio, hard_pos_ratio, hard_neg_ratio in *;
    cbn [score_class pos neg easy_pos easy_neg equal_class] in *;
    change (0 <? 0)%Z with false in H; cbv iota in H;
    first [rewrite (len_app_pos _ _ Hn) in H | rewrite (len_app_pos' _ _ Hn) in H]; injection H as H;
    rewrite (len_pos _ Hn), (ltb_pos _ Hk); eexists; split; [reflexivity|];
    rewrite tar_unfold in *;
    cbn [tar_target tar_lc tar_method score_class equal_class negb label_eqb reverse_method] in *.

  Definition M (ps ns : list Q) (ep en : Z) (sc ec : label) := mkScores ps ns ep en sc ec.

  Lemma fnr_pos ps ns ep en ec ppos pneg r t' :
    (1 <= len ps)%Z -> (1 <= ep)%Z -> nthZ ps (len ps - 1) < ppos ->
    threshold_at_fnr succ pred (mat_sorted (M ps ns ep en Pos ec) ppos pneg) r Linear = Ret t' ->
    nthZ ps 0 <= t' -> t' < nthZ ps (len ps - 1) ->
    exists t, threshold_at_fnr succ pred (M ps ns ep en Pos ec) r Linear = Ret t /\ t == t'.
  Proof.
    intros Hn Hk Hp H Lo Hi. destruct (k_nat ep Hk) as [Hk' Ek]. unfold M in *. setup H Hn Hk.
    set (k := Z.to_nat ep) in *. rewrite <- Ek. subst t'.
    exact (RA succ pred Hsucc Hpred ps ppos k Hn Hk' r _ Hp Lo Hi).
  Qed.

  Lemma tpr_pos ps ns ep en ec ppos pneg r t' :
    (1 <= len ps)%Z -> (1 <= ep)%Z -> nthZ ps (len ps - 1) < ppos ->
    threshold_at_tpr succ pred (mat_sorted (M ps ns ep en Pos ec) ppos pneg) r Linear = Ret t' ->
    nthZ ps 0 <= t' -> t' < nthZ ps (len ps - 1) ->
    exists t, threshold_at_tpr succ pred (M ps ns ep en Pos ec) r Linear = Ret t /\ t == t'.
  Proof.
    intros Hn Hk Hp H Lo Hi. destruct (k_nat ep Hk) as [Hk' Ek]. unfold M in *. setup H Hn Hk.
    set (k := Z.to_nat ep) in *. rewrite <- Ek. subst t'.
    exact (RB succ pred Hsucc Hpred ps ppos k Hn Hk' r _ Hp Lo Hi).
  Qed.

  Lemma tnr_pos ps ns ep en ec ppos pneg r t' :
    (1 <= len ns)%Z -> (1 <= en)%Z -> pneg < nthZ ns 0 ->
    threshold_at_tnr succ pred (mat_sorted (M ps ns ep en Pos ec) ppos pneg) r Linear = Ret t' ->
    nthZ ns 0 < t' -> t' <= nthZ ns (len ns - 1) ->
    exists t, threshold_at_tnr succ pred (M ps ns ep en Pos ec) r Linear = Ret t /\ t == t'.
  Proof.
    intros Hn Hk Hp H Lo Hi. destruct (k_nat en Hk) as [Hk' Ek]. unfold M in *. setup H Hn Hk.
    set (k := Z.to_nat en) in *. rewrite <- Ek. subst t'.
    exact (LB succ pred Hsucc Hpred ns pneg k Hn Hk' r _ Hp Lo Hi).
  Qed.

  Lemma fpr_pos ps ns ep en ec ppos pneg r t' :
    (1 <= len ns)%Z -> (1 <= en)%Z -> pneg < nthZ ns 0 ->
    threshold_at_fpr succ pred (mat_sorted (M ps ns ep en Pos ec) ppos pneg) r Linear = Ret t' ->
    nthZ ns 0 < t' -> t' <= nthZ ns (len ns - 1) ->
    exists t, threshold_at_fpr succ pred (M ps ns ep en Pos ec) r Linear = Ret t /\ t == t'.
  Proof.
    intros Hn Hk Hp H Lo Hi. destruct (k_nat en Hk) as [Hk' Ek]. unfold M in *. setup H Hn Hk.
    set (k := Z.to_nat en) in *. rewrite <- Ek. subst t'.
    exact (LA succ pred Hsucc Hpred ns pneg k Hn Hk' r _ Hp Lo Hi).
  Qed.

  Lemma fnr_neg ps ns ep en ec ppos pneg r t' :
    (1 <= len ps)%Z -> (1 <= ep)%Z -> ppos < nthZ ps 0 ->
    threshold_at_fnr succ pred (mat_sorted (M ps ns ep en Neg ec) ppos pneg) r Linear = Ret t' ->
    nthZ ps 0 < t' -> t' <= nthZ ps (len ps - 1) ->
    exists t, threshold_at_fnr succ pred (M ps ns ep en Neg ec) r Linear = Ret t /\ t == t'.
  Proof.
    intros Hn Hk Hp H Lo Hi. destruct (k_nat ep Hk) as [Hk' Ek]. unfold M in *. setup H Hn Hk.
    set (k := Z.to_nat ep) in *. rewrite <- Ek. subst t'.
    exact (LA succ pred Hsucc Hpred ps ppos k Hn Hk' r _ Hp Lo Hi).
  Qed.

  Lemma tpr_neg ps ns ep en ec ppos pneg r t' :
    (1 <= len ps)%Z -> (1 <= ep)%Z -> ppos < nthZ ps 0 ->
    threshold_at_tpr succ pred (mat_sorted (M ps ns ep en Neg ec) ppos pneg) r Linear = Ret t' ->
    nthZ ps 0 < t' -> t' <= nthZ ps (len ps - 1) ->
    exists t, threshold_at_tpr succ pred (M ps ns ep en Neg ec) r Linear = Ret t /\ t == t'.
  Proof.
    intros Hn Hk Hp H Lo Hi. destruct (k_nat ep Hk) as [Hk' Ek]. unfold M in *. setup H Hn Hk.
    set (k := Z.to_nat ep) in *. rewrite <- Ek. subst t'.
    match goal with |- inv_incr _ _ _ (1 - (1 - ?u)) ?lc _ == inv_incr _ _ ?l' (1 - (1 - ?u')) _ _ =>
      rewrite (inv_compat succ pred ps (1 - (1 - u)) u lc Linear) by ring;
      rewrite (inv_compat succ pred l' (1 - (1 - u')) u' lc Linear) by ring;
      rewrite (inv_compat succ pred l' (1 - (1 - u')) u' lc Linear) in Lo, Hi by ring end.
    exact (LB succ pred Hsucc Hpred ps ppos k Hn Hk' r _ Hp Lo Hi).
  Qed.

  Lemma tnr_neg ps ns ep en ec ppos pneg r t' :
    (1 <= len ns)%Z -> (1 <= en)%Z -> nthZ ns (len ns - 1) < pneg ->
    threshold_at_tnr succ pred (mat_sorted (M ps ns ep en Neg ec) ppos pneg) r Linear = Ret t' ->
    nthZ ns 0 <= t' -> t' < nthZ ns (len ns - 1) ->
    exists t, threshold_at_tnr succ pred (M ps ns ep en Neg ec) r Linear = Ret t /\ t == t'.
  Proof.
    intros Hn Hk Hp H Lo Hi. destruct (k_nat en Hk) as [Hk' Ek]. unfold M in *. setup H Hn Hk.
    set (k := Z.to_nat en) in *. rewrite <- Ek. subst t'.
    exact (RB succ pred Hsucc Hpred ns pneg k Hn Hk' r _ Hp Lo Hi).
  Qed.

  Lemma fpr_neg ps ns ep en ec ppos pneg r t' :
    (1 <= len ns)%Z -> (1 <= en)%Z -> nthZ ns (len ns - 1) < pneg ->
    threshold_at_fpr succ pred (mat_sorted (M ps ns ep en Neg ec) ppos pneg) r Linear = Ret t' ->
    nthZ ns 0 <= t' -> t' < nthZ ns (len ns - 1) ->
    exists t, threshold_at_fpr succ pred (M ps ns ep en Neg ec) r Linear = Ret t /\ t == t'.
  Proof.
    intros Hn Hk Hp H Lo Hi. destruct (k_nat en Hk) as [Hk' Ek]. unfold M in *. setup H Hn Hk.
    set (k := Z.to_nat en) in *. rewrite <- Ek. subst t'.
    match goal with |- inv_incr _ _ _ (1 - (1 - ?u)) ?lc _ == inv_incr _ _ ?l' (1 - (1 - ?u')) _ _ =>
      rewrite (inv_compat succ pred ns (1 - (1 - u)) u lc Linear) by ring;
      rewrite (inv_compat succ pred l' (1 - (1 - u')) u' lc Linear) by ring;
      rewrite (inv_compat succ pred l' (1 - (1 - u')) u' lc Linear) in Lo, Hi by ring end.
    exact (RA succ pred Hsucc Hpred ns pneg k Hn Hk' r _ Hp Lo Hi).
  Qed.
End Lift.


(* np.sort of the materialised arrays *)
Lemma sorted_app_repeat l p k : sorted l -> Forall (fun a => a <= p) l -> sorted (l ++ repeat p k).
Proof.
  unfold sorted. induction l as [|x r IH]; intros Hs Ha; cbn [app].
  - induction k as [|k IHk]; cbn [repeat]; constructor; [exact IHk|].
    clear IHk. induction k as [|k IHk]; cbn [repeat]; constructor; [lra|exact IHk].
  - inversion Hs as [|? ? Hr Hall]; subst. inversion Ha as [|? ? Hx Har]; subst.
    constructor; [now apply IH|]. apply Forall_app. split; [exact Hall|].
    clear -Hx. induction k as [|k IHk]; cbn [repeat]; constructor; [exact Hx|exact IHk].
Qed.

Lemma insert_above_prefix a p k t : p < a -> insert a (repeat p k ++ t) = repeat p k ++ insert a t.
Proof.
  intro H. induction k as [|k IH]; cbn [repeat app]; [reflexivity|]. cbn [insert].
  assert (E : Qleb a p = false) by (qb; exact H). rewrite E, IH. reflexivity.
Qed.

Lemma isort_app_repeat_below l p k : Forall (fun a => p < a) l -> isort (l ++ repeat p k) = repeat p k ++ isort l.
Proof.
  induction l as [|x r IH]; intro Ha; cbn [app isort].
  - rewrite app_nil_r. apply isort_sorted_id. apply (sorted_app_repeat [] p k); constructor.
  - inversion Ha as [|? ? Hx Har]; subst. rewrite (IH Har). now apply insert_above_prefix.
Qed.

(* own-class side conditions: the materialised scores lie strictly beyond the scored samples of their class *)
Definition beyond_own (s : scores) (ppos pneg : Q) : Prop :=
  match score_class s with
  | Pos => Forall (fun a => a < ppos) (pos s) /\ Forall (fun a => pneg < a) (neg s)
  | Neg => Forall (fun a => ppos < a) (pos s) /\ Forall (fun a => a < pneg) (neg s)
  end.

Lemma Forall_lt_le (l : list Q) p : Forall (fun a => a < p) l -> Forall (fun a => a <= p) l.
Proof. apply Forall_impl. intros a H. lra. Qed.

Lemma materialise_is_mat_sorted s ppos pneg : wf s -> beyond_own s ppos pneg ->
  materialise s ppos pneg = mat_sorted s ppos pneg.
Proof.
  intros [Wp Wn] B. unfold materialise, mat_sorted, mk_scores, beyond_own in *.
  destruct (score_class s); destruct B as [Bp Bn].
  - rewrite (isort_sorted_id _ (sorted_app_repeat _ _ _ Wp (Forall_lt_le _ _ Bp))).
    rewrite (isort_app_repeat_below _ _ _ Bn), (isort_sorted_id _ Wn). reflexivity.
  - rewrite (isort_sorted_id _ (sorted_app_repeat _ _ _ Wn (Forall_lt_le _ _ Bn))).
    rewrite (isort_app_repeat_below _ _ _ Bp), (isort_sorted_id _ Wp). reflexivity.
Qed.

(* the four class-wise metrics *)
Definition cls_pos (mt : metric6) : bool := match mt with MTpr | MFnr => true | _ => false end.
Definition cls_list (mt : metric6) (s : scores) : list Q := if cls_pos mt then pos s else neg s.
Definition cls_easy (mt : metric6) (s : scores) : Z := if cls_pos mt then easy_pos s else easy_neg s.
Definition cls_point (mt : metric6) (ppos pneg : Q) : Q := if cls_pos mt then ppos else pneg.
(* the materialised samples of that class sit above (true) or below (false) its scored samples *)
Definition high_side (mt : metric6) (s : scores) : bool :=
  match score_class s with Pos => cls_pos mt | Neg => negb (cls_pos mt) end.

Section Main.
  Variable succ pred : Q -> Q.
  Hypothesis Hsucc : forall x, x < succ x.
  Hypothesis Hpred : forall x, pred x < x.

  Theorem mat_thresholds_class_metrics s ppos pneg mt r t' :
    In mt [MTpr; MFnr; MTnr; MFpr] ->
    let l := cls_list mt s in let p := cls_point mt ppos pneg in
    (1 <= len l)%Z -> (1 <= cls_easy mt s)%Z ->
    (if high_side mt s then nthZ l (len l - 1) < p else p < nthZ l 0) ->
    threshold_at succ pred mt (mat_sorted s ppos pneg) r Linear = Ret t' ->
    (if high_side mt s then nthZ l 0 <= t' /\ t' < nthZ l (len l - 1) else nthZ l 0 < t' /\ t' <= nthZ l (len l - 1)) ->
    exists t, threshold_at succ pred mt s r Linear = Ret t /\ t == t'.
  Proof.
    intros Hmt l p Hn Hk Hp H Hr. destruct s as [ps ns ep en sc ec].
    change (mkScores ps ns ep en sc ec) with (M ps ns ep en sc ec) in *.
    unfold l, p, cls_list, cls_easy, cls_point, high_side, M in *. cbn [score_class pos neg easy_pos easy_neg] in *.
    cbn [In] in Hmt.
    destruct Hmt as [<-|[<-|[<-|[<-|[]]]]]; destruct sc; cbn [cls_pos negb threshold_at] in *; destruct Hr as [Lo Hi].
    - exact (tpr_pos succ pred Hsucc Hpred ps ns ep en ec ppos pneg r t' Hn Hk Hp H Lo Hi).
    - exact (tpr_neg succ pred Hsucc Hpred ps ns ep en ec ppos pneg r t' Hn Hk Hp H Lo Hi).
    - exact (fnr_pos succ pred Hsucc Hpred ps ns ep en ec ppos pneg r t' Hn Hk Hp H Lo Hi).
    - exact (fnr_neg succ pred Hsucc Hpred ps ns ep en ec ppos pneg r t' Hn Hk Hp H Lo Hi).
    - exact (tnr_pos succ pred Hsucc Hpred ps ns ep en ec ppos pneg r t' Hn Hk Hp H Lo Hi).
    - exact (tnr_neg succ pred Hsucc Hpred ps ns ep en ec ppos pneg r t' Hn Hk Hp H Lo Hi).
    - exact (fpr_pos succ pred Hsucc Hpred ps ns ep en ec ppos pneg r t' Hn Hk Hp H Lo Hi).
    - exact (fpr_neg succ pred Hsucc Hpred ps ns ep en ec ppos pneg r t' Hn Hk Hp H Lo Hi).
  Qed.

  (* no easy samples of that class: the two calls are the same computation *)
  Theorem mat_thresholds_no_easy s ppos pneg mt r m :
    In mt [MTpr; MFnr; MTnr; MFpr] -> cls_easy mt s = 0%Z ->
    threshold_at succ pred mt (mat_sorted s ppos pneg) r m = threshold_at succ pred mt s r m.
  Proof.
    intros Hmt Hk. destruct s as [ps ns ep en sc ec].
    unfold cls_easy, mat_sorted in *. cbn [score_class pos neg easy_pos easy_neg equal_class In] in *.
    destruct Hmt as [<-|[<-|[<-|[<-|[]]]]]; cbn [cls_pos] in Hk; subst; destruct sc;
      cbn [threshold_at]; unfold threshold_at_tpr, threshold_at_fnr, threshold_at_tnr, threshold_at_fpr,
        easy_pos_ratio, easy_neg_ratio, hard_pos_ratio, hard_neg_ratio, threshold_at_ratio;
      cbn [score_class pos neg easy_pos easy_neg equal_class Z.to_nat repeat app]; rewrite ?app_nil_r; reflexivity.
  Qed.
End Main.
