(* Proofs/ShowBiasFacts.v — lemmas about Model/ShowBias.v (property C18). *)
From Coq Require Import String Ascii.
From SA Require Import Model.ShowBias Proofs.CmFacts Proofs.GroupFacts Proofs.QuantileFacts Proofs.BootCIFacts Proofs.BootMetricFacts.
Open Scope Q_scope.

(* ---------- group keys: sorted(set(.)) keeps exactly the distinct keys ---------- *)
Lemma key_eqb_eq a b : key_eqb a b = true <-> a = b.
Proof. unfold key_eqb. destruct (key_eq_dec a b); split; congruence. Qed.
Lemma key_eqb_refl a : key_eqb a a = true.
Proof. now apply key_eqb_eq. Qed.

Lemma ins_by_perm {A} (ltb : A -> A -> bool) x l : Permutation (x :: l) (ins_by ltb x l).
Proof.
  induction l as [|y r IH]; simpl; [apply Permutation_refl|].
  destruct (ltb y x); [|apply Permutation_refl].
  eapply Permutation_trans; [apply perm_swap|]. now apply perm_skip.
Qed.
Lemma sort_by_perm {A} (ltb : A -> A -> bool) l : Permutation l (sort_by ltb l).
Proof.
  induction l as [|x r IH]; simpl; [constructor|].
  eapply Permutation_trans; [|apply ins_by_perm]. now apply perm_skip.
Qed.
Lemma group_keys_in gc ks k : In k (group_keys gc ks) <-> In k ks.
Proof.
  unfold group_keys. split; intro H.
  - apply (nodup_In key_eq_dec). eapply Permutation_in; [apply Permutation_sym, sort_by_perm|exact H].
  - eapply Permutation_in; [apply sort_by_perm|]. now apply nodup_In.
Qed.
Lemma group_keys_NoDup gc ks : NoDup (group_keys gc ks).
Proof. unfold group_keys. eapply Permutation_NoDup; [apply sort_by_perm|apply NoDup_nodup]. Qed.

(* key_numbers[key] / group_keys[number] are inverse on the keys present *)
Lemma key_number_spec k names :
  In k names -> (0 <= key_number k names < len names)%Z /\ key_of names (key_number k names) = k.
Proof.
  unfold key_of, len. induction names as [|y r IH]; intro H; [destruct H|].
  cbn [key_number]. destruct (key_eqb k y) eqn:E.
  - apply key_eqb_eq in E. subst. cbn [length]. split; [lia|reflexivity].
  - assert (Hr : In k r). { destruct H as [->|H]; [rewrite key_eqb_refl in E; discriminate|exact H]. }
    destruct (IH Hr) as [B N]. cbn [length]. split; [lia|].
    replace (Z.to_nat (1 + key_number k r)) with (S (Z.to_nat (key_number k r))) by lia. exact N.
Qed.
Lemma key_number_eq_iff names k k' :
  In k names -> In k' names -> (key_number k names = key_number k' names <-> k = k').
Proof.
  intros H H'. split; [|now intros ->]. intro E.
  rewrite <- (proj2 (key_number_spec k names H)), <- (proj2 (key_number_spec k' names H')). now rewrite E.
Qed.

(* ---------- masks ---------- *)
Lemma mask_map {A B} (pf : A -> bool) (f : A -> B) l :
  mask (map pf l) (map f l) = map f (filter pf l).
Proof.
  unfold mask. induction l as [|x r IH]; simpl; [reflexivity|].
  destruct (pf x); simpl; now rewrite IH.
Qed.
Lemma map_negb_map {A} (pf : A -> bool) l : map negb (map pf l) = map (fun x => negb (pf x)) l.
Proof. now rewrite map_map. Qed.
Lemma count_filter {A} (pf f : A -> bool) l : count f (filter pf l) = count (fun x => pf x && f x) l.
Proof.
  induction l as [|x r IH]; simpl; [reflexivity|]. destruct (pf x); simpl; now rewrite IH.
Qed.
Lemma count_combine_map {A B C} (f : B * C -> bool) (g : A -> B) (h : A -> C) l :
  count f (combine (map g l) (map h l)) = count (fun x => f (g x, h x)) l.
Proof. induction l as [|x r IH]; simpl; [reflexivity|]. now rewrite IH. Qed.

Lemma combine_map_same {A B C} (g : A -> B) (h : A -> C) l :
  combine (map g l) (map h l) = map (fun x => (g x, h x)) l.
Proof. induction l as [|x r IH]; simpl; [reflexivity|]. now rewrite IH. Qed.

Lemma NoDup_map_in {A B} (f : A -> B) l :
  (forall x y, In x l -> In y l -> f x = f y -> x = y) -> NoDup l -> NoDup (map f l).
Proof.
  induction l as [|x r IH]; intros Hinj Hnd; simpl; [constructor|].
  inversion Hnd as [|? ? Hx Hr]; subst. constructor.
  - intro Hin. apply in_map_iff in Hin. destruct Hin as (y & E & Hy).
    assert (y = x) by (apply Hinj; [now right|now left|exact E]). subst. contradiction.
  - apply IH; [|exact Hr]. intros a b Ha Hb. apply Hinj; now right.
Qed.

(* ---------- the score object built by showbias ---------- *)
Section WithArgsort.
Variable argsort : list Q -> list nat.
Hypothesis argsort_perm : forall l, Permutation (argsort l) (seq 0 (length l)).
Hypothesis argsort_sorted : forall l, sorted (take_nat 0%Q l (argsort l)).

Definition sb_names (gc : gcols) (rows : list row) : list key := group_keys gc (map r_keys rows).
Definition sb_code (gc : gcols) (rows : list row) (r : row) : G := key_number (r_keys r) (sb_names gc rows).
Definition sb_object (rows : list row) (gc : gcols) (pos_label : Z) (sc ec : label) : gscores :=
  from_labels_g argsort (map r_label rows) (map r_score rows) (map (sb_code gc rows) rows) pos_label sc ec.
Definition is_pos (pos_label : Z) (r : row) : bool := Z.eqb (r_label r) pos_label.

Lemma sb_object_unfold rows gc pl sc ec :
  sb_object rows gc pl sc ec =
  mk_gscores argsort (map r_score (filter (is_pos pl) rows)) (map r_score (filter (fun r => negb (is_pos pl r)) rows))
             (map (sb_code gc rows) (filter (is_pos pl) rows)) (map (sb_code gc rows) (filter (fun r => negb (is_pos pl r)) rows))
             sc ec None false.
Proof.
  unfold sb_object, from_labels_g. rewrite !map_map.
  change (map (fun x => r_label x =? pl)%Z rows) with (map (is_pos pl) rows).
  replace (map negb (map (is_pos pl) rows)) with (map (fun r => negb (is_pos pl r)) rows) by now rewrite map_map.
  now rewrite !mask_map.
Qed.

Lemma sb_object_facts rows gc pl sc ec :
  let o := sb_object rows gc pl sc ec in
  Permutation (pairs_pos o) (map (fun r => (r_score r, sb_code gc rows r)) (filter (is_pos pl) rows)) /\
  Permutation (pairs_neg o) (map (fun r => (r_score r, sb_code gc rows r)) (filter (fun r => negb (is_pos pl r)) rows)) /\
  gwf o /\ score_class (base o) = sc /\ equal_class (base o) = ec /\
  easy_pos (base o) = 0%Z /\ easy_neg (base o) = 0%Z /\
  (forall g, In g (groups o) <-> exists r, In r rows /\ sb_code gc rows r = g).
Proof.
  intro o. unfold o. rewrite sb_object_unfold.
  destruct (mk_gscores_pairs argsort argsort_perm argsort_sorted
              (map r_score (filter (is_pos pl) rows)) (map r_score (filter (fun r => negb (is_pos pl r)) rows))
              (map (sb_code gc rows) (filter (is_pos pl) rows)) (map (sb_code gc rows) (filter (fun r => negb (is_pos pl r)) rows))
              sc ec None false) as (Pp & Pn & W & Hsc & Hec & Ep & En & _ & _ & Hg); [now rewrite !map_length|now rewrite !map_length|].
  rewrite !combine_map_same in Pp, Pn.
  split; [exact Pp|]. split; [exact Pn|]. split; [exact W|]. split; [exact Hsc|]. split; [exact Hec|].
  split; [exact Ep|]. split; [exact En|].
  intro g. rewrite Hg. rewrite sorted_set_in, in_app_iff, !in_map_iff. split.
  - intros [(r & <- & Hr)|(r & <- & Hr)]; apply filter_In in Hr; exists r; tauto.
  - intros (r & Hr & <-). destruct (is_pos pl r) eqn:E; [left|right]; exists r; (split; [reflexivity|]);
      apply filter_In; (split; [exact Hr|]); now rewrite ?E.
Qed.
End WithArgsort.

Section Entries.
Variable argsort : list Q -> list nat.
Hypothesis argsort_perm : forall l, Permutation (argsort l) (seq 0 (length l)).
Hypothesis argsort_sorted : forall l, sorted (take_nat 0%Q l (argsort l)).
Notation sb_object := (sb_object argsort).

Lemma row_key_in_names gc rows r : In r rows -> In (r_keys r) (sb_names gc rows).
Proof. intro H. apply group_keys_in. now apply in_map. Qed.

(* the name of an output group is the key of the rows numbered with it *)
Lemma sb_code_eqb rows gc pl sc ec r g :
  In r rows -> In g (groups (sb_object rows gc pl sc ec)) ->
  Z.eqb (sb_code gc rows r) g = key_eqb (r_keys r) (key_of (sb_names gc rows) g).
Proof.
  intros Hr Hg.
  destruct (sb_object_facts argsort argsort_perm argsort_sorted rows gc pl sc ec) as (_ & _ & _ & _ & _ & _ & _ & Hgr).
  apply Hgr in Hg. destruct Hg as (r0 & Hr0 & <-).
  unfold sb_code at 3. rewrite (proj2 (key_number_spec _ _ (row_key_in_names gc rows r0 Hr0))).
  unfold sb_code.
  pose proof (key_number_eq_iff (sb_names gc rows) (r_keys r) (r_keys r0)
                (row_key_in_names gc rows r Hr) (row_key_in_names gc rows r0 Hr0)) as E.
  destruct (Z.eqb_spec (key_number (r_keys r) (sb_names gc rows)) (key_number (r_keys r0) (sb_names gc rows))) as [e|ne];
    destruct (key_eqb (r_keys r) (r_keys r0)) eqn:K; try reflexivity.
  - apply E in e. rewrite <- key_eqb_eq in e. congruence.
  - apply key_eqb_eq in K. apply E in K. contradiction.
Qed.

Lemma group_name_is_key rows gc pl sc ec g :
  In g (groups (sb_object rows gc pl sc ec)) ->
  exists r, In r rows /\ key_of (sb_names gc rows) g = r_keys r /\ sb_code gc rows r = g.
Proof.
  intro Hg.
  destruct (sb_object_facts argsort argsort_perm argsort_sorted rows gc pl sc ec) as (_ & _ & _ & _ & _ & _ & _ & Hgr).
  apply Hgr in Hg. destruct Hg as (r0 & Hr0 & <-). exists r0. split; [exact Hr0|]. split; [|reflexivity].
  unfold sb_code. apply (proj2 (key_number_spec _ _ (row_key_in_names gc rows r0 Hr0))).
Qed.

(* the confusion matrix of output group g = counting directly over the rows whose group value(s) are its name *)
Theorem group_cm_rows rows gc pl sc ec g t :
  In g (groups (sb_object rows gc pl sc ec)) ->
  cm (group_scores (sb_object rows gc pl sc ec) g) t
  = rows_cm pl sc ec (rows_of (key_of (sb_names gc rows) g) rows) t.
Proof.
  intro Hg.
  destruct (sb_object_facts argsort argsort_perm argsort_sorted rows gc pl sc ec) as (Pp & Pn & W & Hsc & Hec & _ & _ & _).
  rewrite (group_cm_counts _ g t W). cbv zeta. rewrite Hsc, Hec.
  rewrite !(count_perm _ _ _ Pp), !(count_perm _ _ _ Pn). rewrite !count_map, !count_filter.
  unfold rows_cm, rows_of. rewrite !count_filter. unfold ndec, has_label, is_pos. cbn [fst snd].
  f_equal; apply count_ext; intros r Hr; rewrite (sb_code_eqb rows gc pl sc ec r g Hr Hg);
    destruct (key_eqb (r_keys r) (key_of (sb_names gc rows) g)), (r_label r =? pl)%Z; reflexivity.
Qed.

(* the overall confusion matrix = counting over all rows *)
Theorem overall_cm_rows rows gc pl sc ec t :
  cm (base (sb_object rows gc pl sc ec)) t = rows_cm pl sc ec rows t.
Proof.
  destruct (sb_object_facts argsort argsort_perm argsort_sorted rows gc pl sc ec) as (Pp & Pn & [Lp Ln] & Hsc & Hec & Ep & En & _).
  rewrite cm_counts. rewrite Hsc, Hec, Ep, En.
  assert (Qp : Permutation (pos (base (sb_object rows gc pl sc ec))) (map r_score (filter (is_pos pl) rows))).
  { apply (Permutation_map fst) in Pp. unfold pairs_pos in Pp. rewrite map_fst_combine in Pp by exact Lp.
    now rewrite map_map in Pp. }
  assert (Qn : Permutation (neg (base (sb_object rows gc pl sc ec))) (map r_score (filter (fun r => negb (is_pos pl r)) rows))).
  { apply (Permutation_map fst) in Pn. unfold pairs_neg in Pn. rewrite map_fst_combine in Pn by exact Ln.
    now rewrite map_map in Pn. }
  rewrite !(count_perm _ _ _ Qp), !(count_perm _ _ _ Qn). rewrite !count_map, !count_filter.
  unfold rows_cm, is_pos. cbv beta. rewrite !Z.add_0_r. reflexivity.
Qed.

(* calculate_group_metric / calculate_metric, entry by entry *)
Lemma calculate_group_metric_spec m gs ts :
  calculate_group_metric m gs ts = map (fun g => map (fun t => metric_of_cmz m (cm (group_scores gs g) t)) ts) (groups gs).
Proof.
  unfold calculate_group_metric, group_cm_arr. rewrite groupwise_spec. rewrite map_map.
  apply map_ext. intro g. now rewrite map_map.
Qed.

Theorem group_metric_rows rows gc pl sc ec m ts :
  calculate_group_metric m (sb_object rows gc pl sc ec) ts
  = map (fun g => map (fun t => metric_of_cmz m (rows_cm pl sc ec (rows_of (key_of (sb_names gc rows) g) rows) t)) ts)
        (groups (sb_object rows gc pl sc ec)).
Proof.
  rewrite calculate_group_metric_spec. apply map_ext_in. intros g Hg. apply map_ext. intro t.
  now rewrite group_cm_rows.
Qed.
Theorem overall_metric_rows rows gc pl sc ec m ts :
  calculate_metric m (sb_object rows gc pl sc ec) ts = map (fun t => metric_of_cmz m (rows_cm pl sc ec rows t)) ts.
Proof. unfold calculate_metric. apply map_ext. intro t. now rewrite overall_cm_rows. Qed.

(* the labels: every distinct group value of the data labels exactly one output row *)
Definition sb_labels rows gc pl sc ec : list key :=
  map (key_of (sb_names gc rows)) (groups (sb_object rows gc pl sc ec)).
Theorem sb_labels_in rows gc pl sc ec k :
  In k (sb_labels rows gc pl sc ec) <-> exists r, In r rows /\ r_keys r = k.
Proof.
  unfold sb_labels. rewrite in_map_iff. split.
  - intros (g & <- & Hg). destruct (group_name_is_key rows gc pl sc ec g Hg) as (r & Hr & E & _). exists r. now split.
  - intros (r & Hr & <-). exists (sb_code gc rows r). split.
    + unfold sb_code. apply (proj2 (key_number_spec _ _ (row_key_in_names gc rows r Hr))).
    + destruct (sb_object_facts argsort argsort_perm argsort_sorted rows gc pl sc ec) as (_ & _ & _ & _ & _ & _ & _ & Hgr).
      apply Hgr. now exists r.
Qed.
Theorem sb_labels_NoDup rows gc pl sc ec : NoDup (sb_labels rows gc pl sc ec).
Proof.
  unfold sb_labels. apply NoDup_map_in.
  - intros g g' Hg Hg' E.
    destruct (group_name_is_key rows gc pl sc ec g Hg) as (r & Hr & K & <-).
    destruct (group_name_is_key rows gc pl sc ec g' Hg') as (r' & Hr' & K' & <-).
    unfold sb_code. f_equal. congruence.
  - unfold sb_object, from_labels_g, mk_gscores. cbn [groups]. apply sorted_set_NoDup.
Qed.
End Entries.

(* ---------- showbias, put together ---------- *)
Section Frames.
Variable argsort : list Q -> list nat.
Hypothesis argsort_perm : forall l, Permutation (argsort l) (seq 0 (length l)).
Hypothesis argsort_sorted : forall l, sorted (take_nat 0%Q l (argsort l)).
Variable ci_routine : list nat -> list (list rate) -> option (list rate) -> Q -> method -> res (list nat * list rate).
Notation sb_object := (sb_object argsort).
Notation sb_labels := (sb_labels argsort).

(* the table of group metrics computed directly from the rows, row by row of the index *)
Definition raw_table (rows : list row) (m : mname) (pl : Z) (sc ec : label) (ts : list ext) (idx : list key) : list (list rate) :=
  map (fun k => map (fun t => metric_of_cmz m (rows_cm pl sc ec (rows_of k rows) t)) ts) idx.
Definition overall_row (rows : list row) (m : mname) (pl : Z) (sc ec : label) (ts : list ext) : list rate :=
  map (fun t => metric_of_cmz m (rows_cm pl sc ec rows t)) ts.

Lemma raw_table_eq rows gc pl sc ec m ts :
  calculate_group_metric m (sb_object rows gc pl sc ec) ts = raw_table rows m pl sc ec ts (sb_labels rows gc pl sc ec).
Proof.
  rewrite (group_metric_rows argsort argsort_perm argsort_sorted). unfold raw_table, sb_labels, ShowBiasFacts.sb_labels.
  now rewrite map_map.
Qed.

Lemma group_index_ok rows gc pl sc ec :
  rows_wf gc rows -> get_group_index (sb_labels rows gc pl sc ec) gc = Ok (sb_labels rows gc pl sc ec).
Proof.
  intro W. destruct gc as [|n]; [reflexivity|]. unfold get_group_index.
  assert (E : forallb (fun k => Nat.eqb (length k) n) (sb_labels rows (GList n) pl sc ec) = true).
  { apply forallb_forall. intros k Hk.
    apply (sb_labels_in argsort argsort_perm argsort_sorted) in Hk. destruct Hk as (r & Hr & <-).
    unfold rows_wf in W. rewrite Forall_forall in W. apply Nat.eqb_eq. now apply W. }
  now rewrite E.
Qed.

(* showbias in terms of the pieces above (definitional) *)
Lemma showbias_unfold rows gc m nz want_ci cfg hist alpha pl sc ec thr :
  showbias argsort ci_routine rows gc m nz want_ci cfg hist alpha pl sc ec thr =
  let o := sb_object rows gc pl sc ec in
  let threshold := threshold_array thr in
  let ts := map Fin threshold in
  let G := length (groups o) in
  let T := length ts in
  res_bind (get_group_index (sb_labels rows gc pl sc ec) gc) (fun group_index =>
  res_bind (match nz with
            | None => Ok (calculate_group_metric m o ts)
            | Some z => apply_normalization z (calculate_metric m o ts) 1 (calculate_group_metric m o ts)
            end) (fun group_metrics =>
  if want_ci then
    res_bind (sb_bootstrap_metric o (fun s k => concat (calculate_group_metric m s k)) cfg hist ts) (fun samples0 =>
    res_bind (match nz with
              | None => Ok samples0
              | Some z => apply_normalization z (calculate_metric m o ts) G samples0
              end) (fun samples =>
    res_bind (ci_routine [G; T] samples (Some (concat (calculate_group_metric m o ts))) alpha (bootstrap_method cfg)) (fun ci =>
    Ok (mkBias (mkFrame group_index threshold group_metrics) (Some alpha)
               (Some (mkFrame group_index threshold (chunks G T (ci_lower (snd ci)))))
               (Some (mkFrame group_index threshold (chunks G T (ci_upper (snd ci)))))))))
  else Ok (mkBias (mkFrame group_index threshold group_metrics) None None None))).
Proof. reflexivity. Qed.

(* the reported values: what the property text calls "the entry", for each normalisation *)
Definition reported (rows : list row) (gc : gcols) (m : mname) (nz : option normalize) (pl : Z) (sc ec : label)
           (ts : list ext) : res (list (list rate)) :=
  let raw := raw_table rows m pl sc ec ts (sb_labels rows gc pl sc ec) in
  match nz with
  | None => Ok raw
  | Some z => apply_normalization z (overall_row rows m pl sc ec ts) 1 raw
  end.

Theorem showbias_values rows gc m nz cfg hist alpha pl sc ec thr :
  rows_wf gc rows ->
  showbias argsort ci_routine rows gc m nz false cfg hist alpha pl sc ec thr =
  res_bind (reported rows gc m nz pl sc ec (map Fin (threshold_array thr))) (fun d =>
  Ok (mkBias (mkFrame (sb_labels rows gc pl sc ec) (threshold_array thr) d) None None None)).
Proof.
  intro W. rewrite showbias_unfold. cbv zeta. rewrite (group_index_ok _ _ _ _ _ W). cbn [res_bind].
  unfold reported. rewrite raw_table_eq, (overall_metric_rows argsort argsort_perm argsort_sorted). fold (overall_row rows m pl sc ec (map Fin (threshold_array thr))).
  destruct nz as [z|]; reflexivity.
Qed.

(* with intervals: same labels on all three frames, the values are the same reported values *)
Theorem showbias_ci_frames rows gc m nz cfg hist alpha pl sc ec thr bf :
  rows_wf gc rows ->
  showbias argsort ci_routine rows gc m nz true cfg hist alpha pl sc ec thr = Ok bf ->
  exists d lo hi,
    reported rows gc m nz pl sc ec (map Fin (threshold_array thr)) = Ok d /\
    bf = mkBias (mkFrame (sb_labels rows gc pl sc ec) (threshold_array thr) d) (Some alpha)
                (Some (mkFrame (sb_labels rows gc pl sc ec) (threshold_array thr) lo))
                (Some (mkFrame (sb_labels rows gc pl sc ec) (threshold_array thr) hi)).
Proof.
  intros W. rewrite showbias_unfold. cbv zeta. rewrite (group_index_ok _ _ _ _ _ W). cbn [res_bind].
  unfold reported. rewrite raw_table_eq, (overall_metric_rows argsort argsort_perm argsort_sorted). fold (overall_row rows m pl sc ec (map Fin (threshold_array thr))).
  destruct (match nz with None => Ok _ | Some z => _ end) as [d|]; [|discriminate]. cbn [res_bind].
  destruct (sb_bootstrap_metric _ _ _ _ _) as [s0|]; [|discriminate]. cbn [res_bind].
  destruct (match nz with None => Ok s0 | Some z => _ end) as [s|]; [|discriminate]. cbn [res_bind].
  destruct (ci_routine _ _ _ _ _) as [ci|]; [|discriminate]. cbn [res_bind].
  intro H. injection H as <-. eexists _, _, _. split; reflexivity.
Qed.
End Frames.

(* ---------- _apply_normalization ---------- *)
Lemma norm1_nonzero x d : ~ d == 0 -> norm1 x (Some d) = option_map (fun xv => xv / d) x.
Proof. intro H. unfold norm1. destruct (Qeqb d 0) eqn:E; [apply Qeqb_eq in E; contradiction|reflexivity]. Qed.
Lemma norm1_zero x d : d == 0 -> norm1 x (Some d) = x.
Proof. intro H. unfold norm1. apply Qeqb_eq in H. now rewrite H. Qed.
Lemma norm1_nan x : norm1 x None = None.
Proof. reflexivity. Qed.

Lemma map2_map_map {A B C D} (f : B -> C -> D) (g : A -> B) (h : A -> C) l :
  map2 f (map g l) (map h l) = map (fun x => f (g x) (h x)) l.
Proof. induction l as [|x r IH]; simpl; [reflexivity|]. now rewrite IH. Qed.
Lemma map2_length {A B C} (f : A -> B -> C) a b : length (map2 f a b) = Nat.min (length a) (length b).
Proof. revert b. induction a as [|x r IH]; intros [|y s]; simpl; auto. Qed.
Lemma map2_nth {A B C} (f : A -> B -> C) a b j da db dc :
  (j < length a)%nat -> (j < length b)%nat -> nth j (map2 f a b) dc = f (nth j a da) (nth j b db).
Proof.
  revert b j. induction a as [|x r IH]; intros [|y s] [|j] Ha Hb; simpl in *; try lia; [reflexivity|].
  apply IH; lia.
Qed.

(* by_overall on the (G, T) table: every entry divided by the overall value of its column *)
Lemma apply_overall_table overall tab :
  apply_normalization NOverall overall 1 tab = Ok (map (fun row => map2 norm1 row overall) tab).
Proof. unfold apply_normalization. cbn [tile]. now rewrite app_nil_r. Qed.
Lemma apply_min_table tab :
  apply_normalization NMin [] 1 tab = Ok (map (fun row => map2 norm1 row (min_axis0 tab)) tab).
Proof. reflexivity. Qed.
Lemma apply_min_any overall reps tab : apply_normalization NMin overall reps tab = apply_normalization NMin [] 1 tab.
Proof. reflexivity. Qed.

(* np.min over one column *)
Definition col_min (c : list rate) : rate := match c with [] => None | x :: r => fold_left rmin2 r x end.

Lemma fold_rmin2_none r : fold_left rmin2 r None = None.
Proof. induction r as [|y s IH]; simpl; [reflexivity|exact IH]. Qed.
Lemma fold_rmin2_nan r x : In None r -> fold_left rmin2 r x = None.
Proof.
  revert x. induction r as [|y s IH]; intros x H; [destruct H|]. simpl. destruct H as [->|H].
  - destruct x; simpl; apply fold_rmin2_none.
  - now apply IH.
Qed.
Lemma col_min_nan c : In None c -> col_min c = None.
Proof.
  destruct c as [|x r]; intro H; [destruct H|]. simpl. destruct H as [->|H]; [apply fold_rmin2_none|now apply fold_rmin2_nan].
Qed.
Lemma fold_rmin2_some r x :
  Forall (fun v => v <> None) r ->
  exists d, fold_left rmin2 r (Some x) = Some d /\ (d = x \/ In (Some d) r) /\ d <= x /\ forall v, In (Some v) r -> d <= v.
Proof.
  revert x. induction r as [|y s IH]; intros x H.
  - exists x. simpl. repeat split; auto; try lra. intros v [].
  - inversion H as [|? ? Hy Hs]; subst. destruct y as [y|]; [|congruence]. simpl.
    destruct (IH (if Qleb x y then x else y) Hs) as (d & E & Hin & Hle & Hall). exists d. split; [exact E|].
    destruct (Qleb x y) eqn:L; qb.
    + split; [destruct Hin as [->|Hin]; [now left|right; now right]|]. split; [exact Hle|].
      intros v [Hv|Hv]; [injection Hv as <-; lra|now apply Hall].
    + split; [destruct Hin as [->|Hin]; [right; now left|right; now right]|]. split; [lra|].
      intros v [Hv|Hv]; [injection Hv as <-; lra|now apply Hall].
Qed.
(* all values defined: the minimum is one of them and a lower bound *)
Lemma col_min_defined c :
  c <> [] -> Forall (fun v => v <> None) c ->
  exists d, col_min c = Some d /\ In (Some d) c /\ forall v, In (Some v) c -> d <= v.
Proof.
  destruct c as [|x r]; intros Hne H; [congruence|]. inversion H as [|? ? Hx Hr]; subst.
  destruct x as [x|]; [|congruence]. simpl.
  destruct (fold_rmin2_some r x Hr) as (d & E & Hin & Hle & Hall). exists d. split; [exact E|]. split.
  - destruct Hin as [->|Hin]; [now left|now right].
  - intros v [Hv|Hv]; [injection Hv as <-; exact Hle|now apply Hall].
Qed.

(* np.min(table, axis=0), column by column *)
Lemma fold_map2_rmin2_nth (T : nat) r s j :
  length s = T -> Forall (fun row => length row = T) r -> (j < T)%nat ->
  nth j (fold_left (map2 rmin2) r s) None = fold_left rmin2 (map (fun row => nth j row None) r) (nth j s None).
Proof.
  revert s. induction r as [|y q IH]; intros s Hs Hr Hj; [reflexivity|].
  inversion Hr as [|? ? Hy Hq]; subst. simpl. rewrite IH; auto.
  - f_equal. apply map2_nth; lia.
  - rewrite map2_length, Hy. lia.
Qed.
Lemma min_axis0_nth (T : nat) tab j :
  Forall (fun row => length row = T) tab -> (j < T)%nat ->
  nth j (min_axis0 tab) None = col_min (map (fun row => nth j row None) tab).
Proof.
  destruct tab as [|s r]; intros H Hj; [now destruct j|].
  inversion H as [|? ? Hs Hr]; subst. simpl. now apply fold_map2_rmin2_nth with (T := length s).
Qed.

(* "so the smallest row is 1": dividing a column by its minimum d <> 0 makes the minimal entry 1, and for d > 0 no entry
   is below 1 *)
Lemma by_min_smallest_is_one c d :
  col_min c = Some d -> In (Some d) c -> (forall v, In (Some v) c -> d <= v) -> ~ d == 0 ->
  (exists w, norm1 (Some d) (Some d) = Some w /\ w == 1) /\
  (0 < d -> forall v, In (Some v) c -> exists w, norm1 (Some v) (Some d) = Some w /\ 1 <= w).
Proof.
  intros _ _ Hall Hd. split.
  - rewrite norm1_nonzero by exact Hd. eexists. split; [reflexivity|]. now field.
  - intros Hpos v Hv. rewrite norm1_nonzero by exact Hd. eexists. split; [reflexivity|].
    apply Qle_shift_div_l; [exact Hpos|]. specialize (Hall v Hv). lra.
Qed.

(* ---------- the interval arrays ---------- *)
Lemma every_other_nth {A} (l : list A) c d : nth c (every_other l) d = nth (c * 2) l d.
Proof.
  revert l. induction c as [|c IH]; intros [|x [|y r]]; simpl; try reflexivity.
  - now destruct c.
  - apply IH.
Qed.
Lemma ci_lower_nth data c : nth c (ci_lower data) None = nth (c * 2 + 0) data None.
Proof. unfold ci_lower. now rewrite every_other_nth, Nat.add_0_r. Qed.
Lemma ci_upper_nth data c : nth c (ci_upper data) None = nth (c * 2 + 1) data None.
Proof.
  unfold ci_upper. rewrite every_other_nth. destruct data as [|x r]; [now destruct (c * 2)%nat|].
  cbn [tl]. now rewrite Nat.add_1_r.
Qed.
Lemma nth_firstn_lt {A} (l : list A) k j d : (j < k)%nat -> nth j (firstn k l) d = nth j l d.
Proof.
  revert l j. induction k as [|k IH]; intros l j H; [lia|]. destruct l as [|x r]; [now destruct j|].
  destruct j as [|j]; [reflexivity|]. simpl. apply IH. lia.
Qed.
Lemma nth_skipn_add {A} (l : list A) k j d : nth j (skipn k l) d = nth (k + j) l d.
Proof.
  revert l. induction k as [|k IH]; intros l; [reflexivity|]. destruct l as [|x r]; [now destruct j|].
  simpl. apply IH.
Qed.
Lemma chunks_nth {A} (n k : nat) (l : list A) i j d :
  (i < n)%nat -> (j < k)%nat -> nth j (nth i (chunks n k l) []) d = nth (i * k + j) l d.
Proof.
  revert l i. induction n as [|n IH]; intros l i Hi Hj; [lia|]. cbn [chunks]. destruct i as [|i]; cbn [nth].
  - now rewrite nth_firstn_lt.
  - rewrite IH by lia. rewrite nth_skipn_add. f_equal. lia.
Qed.

Section CIRoutine.
  Variables Phi PhiInv pow15 : Q -> Q.

  (* the CI routine, component by component (C13): entry c of the result is the one-component interval of replicate
     column c with estimate c *)
  Lemma std_ci_components yshape rows hat alpha m sh data :
    0 < alpha -> alpha < 1 -> length hat = prod_shape yshape ->
    std_ci Phi PhiInv pow15 yshape rows (Some hat) alpha m = Ok (sh, data) ->
    sh = yshape ++ [2%nat] /\
    forall c, (c < prod_shape yshape)%nat ->
      ci_col Phi PhiInv pow15 m (column rows c) (nth c hat None) alpha
      = Ok (nth (c * 2 + 0) data None, nth (c * 2 + 1) data None).
  Proof.
    intros A0 A1 L H. unfold std_ci, bootstrap_ci in H. destruct m.
    - rewrite bootstrap_ci_quantile_ok in H by (constructor; [lra|constructor]).
      injection H as <- <-. split; [reflexivity|]. intros c Hc. rewrite quantile_formula by assumption.
      destruct (quantile_pairs_nth (columns rows (prod_shape yshape)) [alpha] c 0) as [E0 E1];
        [now rewrite columns_length|simpl; lia|].
      cbn [length nth] in E0, E1. rewrite columns_nth in E0, E1 by exact Hc.
      replace (c * (1 * 2) + (0 * 2 + 0))%nat with (c * 2 + 0)%nat in E0 by lia.
      replace (c * (1 * 2) + (0 * 2 + 1))%nat with (c * 2 + 1)%nat in E1 by lia.
      now rewrite E0, E1.
    - assert (Hm : MBc <> MQuantile) by discriminate.
      destruct (bootstrap_ci_bcx_ok Phi PhiInv pow15 _ _ _ _ _ _ _ Hm H) as (-> & _). split; [reflexivity|].
      intros c Hc. exact (proj1 (bootstrap_ci_bcx_component Phi PhiInv pow15 _ _ _ _ _ _ _ c Hm L Hc H)).
    - assert (Hm : MBca <> MQuantile) by discriminate.
      destruct (bootstrap_ci_bcx_ok Phi PhiInv pow15 _ _ _ _ _ _ _ Hm H) as (-> & _). split; [reflexivity|].
      intros c Hc. exact (proj1 (bootstrap_ci_bcx_component Phi PhiInv pow15 _ _ _ _ _ _ _ c Hm L Hc H)).
  Qed.

  Hypothesis Phi_range : forall x, 0 <= Phi x /\ Phi x <= 1.
  Hypothesis Phi_mono : forall x y, x <= y -> Phi x <= Phi y.
  Hypothesis PhiInv_mono : forall p p', 0 < p -> p <= p' -> p' < 1 -> PhiInv p <= PhiInv p'.

  Lemma std_ci_ordered yshape rows hat alpha m sh data :
    0 < alpha -> alpha < 1 -> length hat = prod_shape yshape ->
    std_ci Phi PhiInv pow15 yshape rows (Some hat) alpha m = Ok (sh, data) ->
    forall c, (c < prod_shape yshape)%nat ->
      side_cond PhiInv pow15 m (column rows c) (nth c hat None) alpha ->
      rle (nth (c * 2 + 0) data None) (nth (c * 2 + 1) data None).
  Proof.
    intros A0 A1 L H c Hc Sd. destruct (std_ci_components _ _ _ _ _ _ _ A0 A1 L H) as (_ & Hcomp).
    exact (ci_col_ordered Phi PhiInv pow15 Phi_range Phi_mono PhiInv_mono _ _ _ _ _ _ A0 A1 Sd (Hcomp c Hc)).
  Qed.
End CIRoutine.

Section FramesCI.
Variable argsort : list Q -> list nat.
Hypothesis argsort_perm : forall l, Permutation (argsort l) (seq 0 (length l)).
Hypothesis argsort_sorted : forall l, sorted (take_nat 0%Q l (argsort l)).
Variables Phi PhiInv pow15 : Q -> Q.
Notation sb_object := (sb_object argsort).
Notation sb_labels := (sb_labels argsort).

Lemma raw_table_concat_length rows m pl sc ec ts idx :
  length (concat (raw_table rows m pl sc ec ts idx)) = (length idx * length ts)%nat.
Proof.
  unfold raw_table. induction idx as [|k r IH]; [reflexivity|]. cbn [map concat length].
  rewrite app_length, map_length, IH. lia.
Qed.
Lemma sb_labels_length rows gc pl sc ec : length (sb_labels rows gc pl sc ec) = length (groups (sb_object rows gc pl sc ec)).
Proof. unfold sb_labels, ShowBiasFacts.sb_labels. now rewrite map_length. Qed.

(* what the intervals are: the CI routine on the replicate array the code builds, with the UN-normalised group metric
   as point estimate; lower / upper are its two halves, laid out like the values *)
Theorem showbias_ci_spec rows gc m nz cfg hist alpha pl sc ec thr bf :
  rows_wf gc rows ->
  showbias_std argsort Phi PhiInv pow15 rows gc m nz true cfg hist alpha pl sc ec thr = Ok bf ->
  let o := sb_object rows gc pl sc ec in
  let ts := map Fin (threshold_array thr) in
  let G := length (sb_labels rows gc pl sc ec) in
  let T := length ts in
  let hat := concat (raw_table rows m pl sc ec ts (sb_labels rows gc pl sc ec)) in
  exists samples0 samples data lo hi,
    sb_bootstrap_metric o (fun s k => concat (calculate_group_metric m s k)) cfg hist ts = Ok samples0 /\
    match nz with
    | None => samples = samples0
    | Some z => apply_normalization z (overall_row rows m pl sc ec ts) G samples0 = Ok samples
    end /\
    std_ci Phi PhiInv pow15 [G; T] samples (Some hat) alpha (bootstrap_method cfg) = Ok ([G; T; 2%nat], data) /\
    length hat = prod_shape [G; T] /\
    b_lower bf = Some lo /\ b_upper bf = Some hi /\
    f_data lo = chunks G T (ci_lower data) /\ f_data hi = chunks G T (ci_upper data) /\
    (0 < alpha -> alpha < 1 -> forall i j, (i < G)%nat -> (j < T)%nat ->
       ci_col Phi PhiInv pow15 (bootstrap_method cfg) (column samples (i * T + j)) (nth (i * T + j) hat None) alpha
       = Ok (nth j (nth i (f_data lo) []) None, nth j (nth i (f_data hi) []) None)).
Proof.
  intros W. unfold showbias_std. rewrite showbias_unfold. cbv zeta. rewrite (group_index_ok argsort argsort_perm argsort_sorted _ _ _ _ _ W). cbn [res_bind].
  rewrite (raw_table_eq argsort argsort_perm argsort_sorted), (overall_metric_rows argsort argsort_perm argsort_sorted).
  fold (overall_row rows m pl sc ec (map Fin (threshold_array thr))). rewrite <- sb_labels_length.
  destruct (match nz with None => Ok _ | Some z => apply_normalization z _ 1 _ end) as [d|]; [|discriminate]. cbn [res_bind].
  destruct (sb_bootstrap_metric _ _ _ _ _) as [s0|] eqn:Es0; [|discriminate]. cbn [res_bind].
  destruct (match nz with None => Ok s0 | Some z => _ end) as [s|] eqn:Es; [|discriminate]. cbn [res_bind].
  destruct (std_ci _ _ _ _ _ _ _ _) as [[sh data]|] eqn:Eci; [|discriminate]. cbn [res_bind snd].
  intro H. injection H as <-. cbn [b_lower b_upper f_data].
  set (G := length (sb_labels rows gc pl sc ec)) in *. set (T := length (map Fin (threshold_array thr))) in *.
  assert (L : length (concat (raw_table rows m pl sc ec (map Fin (threshold_array thr)) (sb_labels rows gc pl sc ec))) = prod_shape [G; T]).
  { rewrite raw_table_concat_length. unfold prod_shape. simpl. fold G T. lia. }
  exists s0, s, data. eexists. eexists.
  split; [reflexivity|]. split; [destruct nz; [exact Es|now injection Es]|].
  assert (Hsh : sh = [G; T; 2%nat]).
  { (* the shape is yshape ++ [2] whatever alpha is *)
    pose proof Eci as E. unfold std_ci, bootstrap_ci in E. destruct (bootstrap_method cfg).
    - unfold bootstrap_ci_quantile in E. destruct (forallb _ _); [|discriminate]. now injection E as <- _.
    - assert (Hm : MBc <> MQuantile) by discriminate.
      now destruct (bootstrap_ci_bcx_ok Phi PhiInv pow15 _ _ _ _ _ _ _ Hm E) as (-> & _).
    - assert (Hm : MBca <> MQuantile) by discriminate.
      now destruct (bootstrap_ci_bcx_ok Phi PhiInv pow15 _ _ _ _ _ _ _ Hm E) as (-> & _). }
  subst sh. split; [exact Eci|].
  split; [exact L|]. split; [reflexivity|]. split; [reflexivity|]. split; [reflexivity|]. split; [reflexivity|].
  intros A0 A1 i j Hi Hj. cbn [f_data]. rewrite !chunks_nth by assumption. rewrite ci_lower_nth, ci_upper_nth.
  destruct (std_ci_components Phi PhiInv pow15 _ _ _ _ _ _ _ A0 A1 L Eci) as (_ & Hc). apply Hc.
  unfold prod_shape. simpl. nia.
Qed.
End FramesCI.

(* ---------- "computed for the same normalised quantity as the reported value" ---------- *)
(* the reported quantity as a function of a score object: its group metrics, normalised within that object (this is
   the line of showbias that produces the reported values, applied to an arbitrary object) *)
Definition normalised_metric (m : mname) (nz : option normalize) (s : gscores) (ts : list ext) : res (list (list rate)) :=
  match nz with
  | None => Ok (calculate_group_metric m s ts)
  | Some z => apply_normalization z (calculate_metric m s ts) 1 (calculate_group_metric m s ts)
  end.
(* the interval of the reported quantity: the CI routine on the replicates of that quantity (one per bootstrap sample,
   same sampler history) with the reported value as point estimate *)
Definition ci_of_reported_quantity (argsort : list Q -> list nat) (Phi PhiInv pow15 : Q -> Q)
           (rows : list row) (gc : gcols) (m : mname) (nz : option normalize) (cfg : sb_config)
           (hist : nat -> res gscores) (alpha : Q) (pl : Z) (sc ec : label) (thr : thr_arg) : res (list nat * list rate) :=
  let o := sb_object argsort rows gc pl sc ec in
  let ts := map Fin (threshold_array thr) in
  res_bind (sb_bootstrap_metric o (fun s k => match normalised_metric m nz s k with Ok d => concat d | Err => [] end) cfg hist ts)
  (fun reps =>
  res_bind (normalised_metric m nz o ts) (fun v =>
  std_ci Phi PhiInv pow15 [length (groups o); length ts] reps (Some (concat v)) alpha (bootstrap_method cfg))).

Fixpoint all2b {A} (f : A -> A -> bool) (l1 l2 : list A) : bool :=
  match l1, l2 with
  | [], [] => true
  | x :: r, y :: s => f x y && all2b f r s
  | _, _ => false
  end.
Definition table_eqb (a b : list (list rate)) : bool := all2b (all2b reqb) a b.

Section SameQuantity.
Variable argsort : list Q -> list nat.
Hypothesis argsort_perm : forall l, Permutation (argsort l) (seq 0 (length l)).
Hypothesis argsort_sorted : forall l, sorted (take_nat 0%Q l (argsort l)).
Variables Phi PhiInv pow15 : Q -> Q.

(* without normalisation the intervals ARE those of the reported quantity *)
Theorem ci_same_quantity_unnormalised rows gc m cfg hist alpha pl sc ec thr bf :
  rows_wf gc rows ->
  showbias_std argsort Phi PhiInv pow15 rows gc m None true cfg hist alpha pl sc ec thr = Ok bf ->
  exists data lo hi,
    ci_of_reported_quantity argsort Phi PhiInv pow15 rows gc m None cfg hist alpha pl sc ec thr
      = Ok ([length (f_index (b_values bf)); length (f_columns (b_values bf)); 2%nat], data) /\
    b_lower bf = Some lo /\ b_upper bf = Some hi /\
    f_data lo = chunks (length (f_index (b_values bf))) (length (f_columns (b_values bf))) (ci_lower data) /\
    f_data hi = chunks (length (f_index (b_values bf))) (length (f_columns (b_values bf))) (ci_upper data).
Proof.
  intros W H.
  destruct (showbias_ci_frames argsort argsort_perm argsort_sorted (std_ci Phi PhiInv pow15) rows gc m None cfg hist alpha pl sc ec thr bf W H) as (d & lo0 & hi0 & Hd & Hbf).
  destruct (showbias_ci_spec argsort argsort_perm argsort_sorted Phi PhiInv pow15 rows gc m None cfg hist alpha pl sc ec thr bf W H)
    as (s0 & s & data & lo & hi & Es0 & Es & Eci & _ & El & Eh & Dl & Dh & _).
  subst s. exists data, lo, hi.
  assert (Ei : length (f_index (b_values bf)) = length (sb_labels argsort rows gc pl sc ec)) by now rewrite Hbf.
  assert (Ec : length (f_columns (b_values bf)) = length (map Fin (threshold_array thr))) by (rewrite Hbf; cbn; now rewrite map_length).
  rewrite Ei, Ec. split; [|now repeat split].
  unfold ci_of_reported_quantity. cbv zeta. unfold normalised_metric.
  change (fun (s : gscores) (k : list ext) => match Ok (calculate_group_metric m s k) with Ok d0 => concat d0 | Err => [] end)
    with (fun (s : gscores) (k : list ext) => concat (calculate_group_metric m s k)).
  rewrite Es0. cbn [res_bind]. rewrite (raw_table_eq argsort argsort_perm argsort_sorted). rewrite <- sb_labels_length. exact Eci.
Qed.
End SameQuantity.

(* ---------- the clauses that fail: concrete inputs (identity / deterministic samplers, toy normal cdf Phi0) ---------- *)
Open Scope string_scope.
Definition row1 (k : string) (l : Z) (x : Q) : row := mkRow [k] l x.
Definition identity_sampler (n : nat) (mt : method) : sb_config := mkConfig n mt (SCallable (fun _ s => s)).

(* by_min with a group whose rate is undefined: group a has fnr 1/2 — the smallest defined value — but is reported NaN *)
Definition ex_undefined_group : list row := [row1 "a" 1 (1#4); row1 "a" 1 (3#4); row1 "b" 0 (1#2)].
Lemma by_min_undefined_group_witness :
  raw_table ex_undefined_group Mfnr 1 Pos Pos [Fin (1#2)] [["a"]; ["b"]] = [[Some ((1#1) / (2#1))]; [None]] /\
  showbias_std iargsort Phi0 PhiInv0 pow0 ex_undefined_group GStr Mfnr (Some NMin) false (identity_sampler 0 MQuantile)
               (fun _ => Err) 0 1 Pos Pos (TScalar (1#2))
  = Ok (mkBias (mkFrame [["a"]; ["b"]] [1#2] [[None]; [None]]) None None None).
Proof. split; vm_compute; reflexivity. Qed.

(* by_min + identity sampler: reported 2 and 1, intervals [1,1] for both groups *)
Definition ex_ci_min : list row :=
  [row1 "a" 1 (1#4); row1 "a" 1 (3#4); row1 "b" 1 0; row1 "b" 1 1; row1 "b" 1 (5#4); row1 "b" 1 (3#2)].
Lemma ci_by_min_witness :
  exists bf lo hi data,
    showbias_std iargsort Phi0 PhiInv0 pow0 ex_ci_min GStr Mfnr (Some NMin) true (identity_sampler 2 MQuantile)
                 (fun _ => Err) (1#8) 1 Pos Pos (TScalar (1#2)) = Ok bf /\
    b_lower bf = Some lo /\ b_upper bf = Some hi /\
    table_eqb (f_data (b_values bf)) [[Some 2]; [Some 1]] = true /\
    table_eqb (f_data lo) [[Some 1]; [Some 1]] = true /\ table_eqb (f_data hi) [[Some 1]; [Some 1]] = true /\
    ci_of_reported_quantity iargsort Phi0 PhiInv0 pow0 ex_ci_min GStr Mfnr (Some NMin) (identity_sampler 2 MQuantile)
                            (fun _ => Err) (1#8) 1 Pos Pos (TScalar (1#2)) = Ok ([2; 1; 2]%nat, data) /\
    table_eqb (chunks 2 1 (ci_lower data)) [[Some 2]; [Some 1]] = true /\
    table_eqb (chunks 2 1 (ci_upper data)) [[Some 2]; [Some 1]] = true /\
    table_eqb (f_data lo) (chunks 2 1 (ci_lower data)) = false.
Proof. eexists. eexists. eexists. eexists. repeat split; vm_compute; reflexivity. Qed.

(* by_overall + a sampler that shifts the scores by j/2: the replicates are divided by the original's overall metric *)
Definition shift_scores (d : Q) (s : gscores) : gscores :=
  mkG (mkScores (map (fun x => x + d) (pos (base s))) (map (fun x => x + d) (neg (base s))) 0 0
                (score_class (base s)) (equal_class (base s))) (pos_groups s) (neg_groups s) (groups s).
Definition shift_sampler (n : nat) (mt : method) : sb_config :=
  mkConfig n mt (SCallable (fun j s => shift_scores (inject_Z (Z.of_nat j) * (1#2)) s)).
Definition ex_ci_overall : list row :=
  [row1 "a" 1 (-1#4); row1 "a" 1 (1#4); row1 "a" 1 (3#4); row1 "b" 1 0; row1 "b" 1 1].
Lemma ci_by_overall_witness :
  exists bf lo hi data,
    showbias_std iargsort Phi0 PhiInv0 pow0 ex_ci_overall GStr Mfnr (Some NOverall) true (shift_sampler 2 MQuantile)
                 (fun _ => Err) (1#8) 1 Pos Pos (TScalar (1#2)) = Ok bf /\
    b_lower bf = Some lo /\ b_upper bf = Some hi /\
    ci_of_reported_quantity iargsort Phi0 PhiInv0 pow0 ex_ci_overall GStr Mfnr (Some NOverall) (shift_sampler 2 MQuantile)
                            (fun _ => Err) (1#8) 1 Pos Pos (TScalar (1#2)) = Ok ([2; 1; 2]%nat, data) /\
    table_eqb (f_data lo) (chunks 2 1 (ci_lower data)) = false /\
    table_eqb (f_data hi) (chunks 2 1 (ci_upper data)) = false.
Proof. eexists. eexists. eexists. eexists. repeat split; vm_compute; reflexivity. Qed.

(* by_overall + a sampler that only moves group labels around (overall metric unchanged, so the replicates are right)
   + bc: the point estimate handed to the CI routine is the un-normalised group metric *)
Definition roll_labels (j : nat) (l : list G) : list G :=
  map (fun i => nth ((i + length l - Nat.modulo j (length l)) mod length l) l 0%Z) (seq 0 (length l)).
Definition regroup_sampler (n : nat) (mt : method) : sb_config :=
  mkConfig n mt (SCallable (fun j s => mkG (base s) (roll_labels j (pos_groups s)) (roll_labels j (neg_groups s)) (groups s))).
Definition ex_ci_estimate : list row := [row1 "a" 1 (1#4); row1 "a" 1 (3#4); row1 "b" 1 1; row1 "b" 1 (5#4)].
Lemma ci_estimate_witness :
  exists bf lo hi data,
    showbias_std iargsort Phi0 PhiInv0 pow0 ex_ci_estimate GStr Mfnr (Some NOverall) true (regroup_sampler 3 MBc)
                 (fun _ => Err) (1#8) 1 Pos Pos (TScalar (1#2)) = Ok bf /\
    b_lower bf = Some lo /\ b_upper bf = Some hi /\
    table_eqb (f_data (b_values bf)) [[Some 2]; [Some 0]] = true /\
    table_eqb (f_data lo) [[Some 0]; [Some 0]] = true /\ table_eqb (f_data hi) [[Some 2]; [Some 2]] = true /\
    ci_of_reported_quantity iargsort Phi0 PhiInv0 pow0 ex_ci_estimate GStr Mfnr (Some NOverall) (regroup_sampler 3 MBc)
                            (fun _ => Err) (1#8) 1 Pos Pos (TScalar (1#2)) = Ok ([2; 1; 2]%nat, data) /\
    reqb (nth 0 data None) (Some 2) = true /\ reqb (nth 1 data None) (Some 2) = true /\
    table_eqb (f_data lo) (chunks 2 1 (ci_lower data)) = false.
Proof. eexists. eexists. eexists. eexists. repeat split; vm_compute; reflexivity. Qed.
Close Scope string_scope.

(* ---------- the reported values under each normalisation, entry by entry ---------- *)
Section Reported.
Variable argsort : list Q -> list nat.
Notation sb_labels := (sb_labels argsort).

Theorem reported_none rows gc m pl sc ec ts :
  reported argsort rows gc m None pl sc ec ts = Ok (raw_table rows m pl sc ec ts (sb_labels rows gc pl sc ec)).
Proof. reflexivity. Qed.

(* by_overall: every entry divided (norm1) by the metric of the whole data set at the same threshold *)
Theorem reported_by_overall rows gc m pl sc ec ts :
  reported argsort rows gc m (Some NOverall) pl sc ec ts =
  Ok (map (fun k => map (fun t => norm1 (metric_of_cmz m (rows_cm pl sc ec (rows_of k rows) t))
                                       (metric_of_cmz m (rows_cm pl sc ec rows t))) ts)
          (sb_labels rows gc pl sc ec)).
Proof.
  unfold reported. rewrite apply_overall_table. unfold raw_table, overall_row. rewrite map_map. f_equal.
  apply map_ext. intro k. apply map2_map_map.
Qed.

(* by_min: every entry divided (norm1) by np.min of its column of the un-normalised table *)
Theorem reported_by_min rows gc m pl sc ec ts :
  let raw := raw_table rows m pl sc ec ts (sb_labels rows gc pl sc ec) in
  reported argsort rows gc m (Some NMin) pl sc ec ts = Ok (map (fun row => map2 norm1 row (min_axis0 raw)) raw) /\
  Forall (fun row => length row = length ts) raw /\
  forall j, (j < length ts)%nat -> nth j (min_axis0 raw) None = col_min (map (fun row => nth j row None) raw).
Proof.
  intro raw. assert (F : Forall (fun row => length row = length ts) raw).
  { unfold raw, raw_table. apply Forall_forall. intros row H. apply in_map_iff in H. destruct H as (k & <- & _). apply map_length. }
  split; [reflexivity|]. split; [exact F|]. intros j Hj. now apply min_axis0_nth with (T := length ts).
Qed.

Theorem reported_unsupported rows gc m pl sc ec ts : reported argsort rows gc m (Some NUnsupported) pl sc ec ts = Err.
Proof. reflexivity. Qed.
End Reported.

(* ---------- lower <= upper ---------- *)
Section Ordered.
Variable argsort : list Q -> list nat.
Hypothesis argsort_perm : forall l, Permutation (argsort l) (seq 0 (length l)).
Hypothesis argsort_sorted : forall l, sorted (take_nat 0%Q l (argsort l)).
Variables Phi PhiInv pow15 : Q -> Q.
Hypothesis Phi_range : forall x, 0 <= Phi x /\ Phi x <= 1.
Hypothesis Phi_mono : forall x y, x <= y -> Phi x <= Phi y.
Hypothesis PhiInv_mono : forall p p', 0 < p -> p <= p' -> p' < 1 -> PhiInv p <= PhiInv p'.

(* quantile and bc: unconditional; bca: under C13's side condition on the component *)
Theorem showbias_ci_ordered rows gc m nz cfg hist alpha pl sc ec thr bf :
  rows_wf gc rows -> 0 < alpha -> alpha < 1 ->
  showbias_std argsort Phi PhiInv pow15 rows gc m nz true cfg hist alpha pl sc ec thr = Ok bf ->
  exists lo hi, b_lower bf = Some lo /\ b_upper bf = Some hi /\
    forall i j, (i < length (f_index (b_values bf)))%nat -> (j < length (f_columns (b_values bf)))%nat ->
      (bootstrap_method cfg = MBca -> forall col th, side_cond PhiInv pow15 MBca col th alpha) ->
      rle (nth j (nth i (f_data lo) []) None) (nth j (nth i (f_data hi) []) None).
Proof.
  intros W A0 A1 H.
  destruct (showbias_ci_frames argsort argsort_perm argsort_sorted (std_ci Phi PhiInv pow15) rows gc m nz cfg hist alpha pl sc ec thr bf W H)
    as (d & lo0 & hi0 & Hd & Hbf).
  destruct (showbias_ci_spec argsort argsort_perm argsort_sorted Phi PhiInv pow15 rows gc m nz cfg hist alpha pl sc ec thr bf W H)
    as (s0 & s & data & lo & hi & _ & _ & _ & _ & El & Eh & _ & _ & Hcomp).
  exists lo, hi. split; [exact El|]. split; [exact Eh|]. intros i j Hi Hj Hside.
  assert (Ei : length (f_index (b_values bf)) = length (sb_labels argsort rows gc pl sc ec)) by now rewrite Hbf.
  assert (Ec : length (f_columns (b_values bf)) = length (map Fin (threshold_array thr))) by (rewrite Hbf; cbn; now rewrite map_length).
  rewrite Ei in Hi. rewrite Ec in Hj. specialize (Hcomp A0 A1 i j Hi Hj).
  eapply (ci_col_ordered Phi PhiInv pow15 Phi_range Phi_mono PhiInv_mono); [exact A0|exact A1| |exact Hcomp].
  destruct (bootstrap_method cfg) eqn:Em; try exact I. now apply Hside.
Qed.
End Ordered.

(* ---------- the index reconstruction before fix 4320e1c: split("_") of "_".join(parts) ---------- *)
Fixpoint count_us (s : string) : nat :=
  match s with EmptyString => 0%nat | String c r => ((if Ascii.eqb c us_char then 1 else 0) + count_us r)%nat end.
Lemma has_us_count s : has_us s = false <-> count_us s = 0%nat.
Proof.
  induction s as [|c r IH]; simpl; [tauto|]. destruct (Ascii.eqb c us_char); simpl; [split; [discriminate|lia]|exact IH].
Qed.
Lemma split_us_length s : length (split_us s) = S (count_us s).
Proof.
  induction s as [|c r IH]; simpl; [reflexivity|]. destruct (Ascii.eqb c us_char); simpl; [now rewrite IH|].
  destruct (split_us r) as [|part parts]; simpl in *; [discriminate|exact IH].
Qed.
Lemma split_us_no_us s : has_us s = false -> split_us s = [s].
Proof.
  induction s as [|c r IH]; simpl; [reflexivity|]. destruct (Ascii.eqb c us_char); simpl; [discriminate|].
  intro H. now rewrite (IH H).
Qed.
Lemma split_us_app s t : has_us s = false -> split_us (s ++ String us_char t) = s :: split_us t.
Proof.
  induction s as [|c r IH]; simpl.
  - intros _. reflexivity.
  - destruct (Ascii.eqb c us_char); simpl; [discriminate|]. intro H. now rewrite (IH H).
Qed.
Lemma count_us_app s t : count_us (s ++ t) = (count_us s + count_us t)%nat.
Proof. induction s as [|c r IH]; simpl; [reflexivity|]. rewrite IH. lia. Qed.
Lemma join_us_cons x y r : join_us (x :: y :: r) = (x ++ String us_char (join_us (y :: r)))%string.
Proof. reflexivity. Qed.
Lemma count_us_join parts :
  parts <> [] -> count_us (join_us parts) = (length parts - 1 + fold_right (fun p a => count_us p + a) 0 parts)%nat.
Proof.
  induction parts as [|x [|y r] IH]; intro H; [congruence|unfold join_us; cbn [String.concat length fold_right]; lia|].
  rewrite join_us_cons, count_us_app. cbn [count_us]. rewrite Ascii.eqb_refl.
  rewrite IH by discriminate. cbn [length fold_right]. lia.
Qed.

Theorem split_join_iff parts :
  split_us (join_us parts) = parts <-> parts <> [] /\ Forall (fun p => has_us p = false) parts.
Proof.
  split.
  - intro H. assert (Hne : parts <> []).
    { intro E. subst. discriminate H. }
    split; [exact Hne|]. assert (L := f_equal (@length string) H). rewrite split_us_length, count_us_join in L by exact Hne.
    assert (Z : fold_right (fun p a => (count_us p + a)%nat) 0%nat parts = 0%nat).
    { destruct parts; [congruence|]. cbn [length] in L. lia. }
    clear -Z. induction parts as [|p r IH]; [constructor|]. cbn [fold_right] in Z. constructor.
    + apply has_us_count. lia.
    + apply IH. lia.
  - intros [Hne F]. induction parts as [|x [|y r] IH]; [congruence| |].
    + inversion F; subst. now apply split_us_no_us.
    + inversion F as [|? ? Hx Hr]; subst. rewrite join_us_cons, split_us_app by exact Hx. f_equal.
      apply IH; [discriminate|exact Hr].
Qed.
(* consequently the joined name determines the tuple when no value contains "_" *)
Corollary join_us_injective p q :
  p <> [] -> q <> [] -> Forall (fun s => has_us s = false) p -> Forall (fun s => has_us s = false) q ->
  join_us p = join_us q -> p = q.
Proof.
  intros Hp Hq Fp Fq E. rewrite <- (proj2 (split_join_iff p) (conj Hp Fp)), <- (proj2 (split_join_iff q) (conj Hq Fq)).
  now rewrite E.
Qed.

(* the finding repaired by 4320e1c, on the old index reconstruction: three groups, two labels, and ("x","y") is the group
   value of no row; the repaired code labels the three groups with their own tuples *)
Open Scope string_scope.
Definition ex_collision : list row :=
  [mkRow ["x_y"; "z"] 1 (1#4); mkRow ["x"; "y_z"] 1 (3#4); mkRow ["p"; "q"] 1 1].
Lemma legacy_labels_witness :
  legacy_labels ex_collision (GList 2) = Ok [["p"; "q"]; ["x"; "y"]] /\
  legacy_labels [mkRow ["x_y"; "z"] 1 (1#4)] (GList 2) = Err /\
  legacy_labels [mkRow ["x_y"] 1 (1#4); mkRow ["u"] 1 (3#4)] (GList 1) = Ok [["u"]; ["x"]] /\
  sb_labels iargsort ex_collision (GList 2) 1 Pos Pos = [["p"; "q"]; ["x"; "y_z"]; ["x_y"; "z"]].
Proof. repeat split; vm_compute; reflexivity. Qed.

(* non-vacuity: two group columns whose joined names collide, by_overall, two thresholds; and one group with two thresholds
   and intervals (the case repaired by d3c5691) *)
Lemma showbias_example :
  showbias_std iargsort Phi0 PhiInv0 pow0
    (ex_collision ++ [mkRow ["x_y"; "z"] 0 (1#2); mkRow ["p"; "q"] 1 0]) (GList 2) Mfnr (Some NOverall) false
    (identity_sampler 0 MQuantile) (fun _ => Err) 0 1 Pos Pos (TList [1#2; 2])
  = Ok (mkBias (mkFrame [["p"; "q"]; ["x"; "y_z"]; ["x_y"; "z"]] [1#2; 2]
                        [[Some ((1#2) / (2#4)); Some ((2#2) / (4#4))]; [Some ((0#1) / (2#4)); Some ((1#1) / (4#4))];
                         [Some ((1#1) / (2#4)); Some ((1#1) / (4#4))]]) None None None) /\
  exists bf lo hi,
    showbias_std iargsort Phi0 PhiInv0 pow0 [row1 "a" 1 (1#4); row1 "a" 1 (3#4); row1 "a" 0 (1#2)] GStr Mfnr None true
                 (identity_sampler 2 MBca) (fun _ => Err) (1#8) 1 Pos Pos (TList [1#2; 1]) = Ok bf /\
    b_lower bf = Some lo /\ b_upper bf = Some hi /\
    table_eqb (f_data (b_values bf)) [[Some (1#2); Some 1]] = true /\
    table_eqb (f_data lo) [[Some (1#2); Some 1]] = true /\ table_eqb (f_data hi) [[Some (1#2); Some 1]] = true.
Proof. split; [vm_compute; reflexivity|]. eexists. eexists. eexists. repeat split; vm_compute; reflexivity. Qed.
Close Scope string_scope.

Lemma rows_of_in k rows r : In r (rows_of k rows) <-> In r rows /\ r_keys r = k.
Proof. unfold rows_of. rewrite filter_In, key_eqb_eq. tauto. Qed.
