(* Proofs/EerEquivarianceFacts.v — C08 / C06: threshold setting (every target, sentinels included) and eer()
   under an increasing affine map f x = a*x + b of the scores that commutes with np.nextafter
   (succ (f x) == f (succ x), pred (f x) == f (pred x): in binary64 the scalings by a power of two without
   over/underflow; on the integer carrier every integer translation).  Then every returned threshold is
   mapped by f — no interior hypothesis — and eer returns the same e and the mapped threshold: the
   bisection visits the same points, because it depends on its function only through its sign.
   For maps that do not commute with nextafter the sentinels differ by the ulp the property grants; the
   harness checks that on the implementation. *)
From SA Require Proofs.QuantileFacts.
From SA Require Import Model.Threshold Model.Symmetry Model.Eer Proofs.SentinelFacts Proofs.ExtremeFacts
  Proofs.InvIncrFacts Proofs.EquivarianceFacts Proofs.EerFacts Proofs.TrapzFacts.
Open Scope Q_scope.

(* ---------- the bisection depends on f only through its sign ---------- *)
Definition same_sign (f g : Q -> Q) : Prop :=
  forall x, Qltb (f x) 0 = Qltb (g x) 0 /\ Qltb 0 (f x) = Qltb 0 (g x).

Lemma find_root_loop_sign_ext fuel f g xa xe ff xtol : same_sign f g ->
  find_root_loop fuel f xa xe ff xtol = find_root_loop fuel g xa xe ff xtol.
Proof.
  intro H. revert xa xe. induction fuel as [|k IH]; intros xa xe; cbn [find_root_loop]; [reflexivity|].
  destruct (Qltb (Qabs (xa - xe)) xtol); [reflexivity|]. cbv zeta.
  destruct (H (norm ((xa + xe) / 2))) as [A B]. rewrite A, B.
  destruct (Qltb (g (norm ((xa + xe) / 2))) 0); [apply IH|].
  destruct (Qltb 0 (g (norm ((xa + xe) / 2)))); [apply IH|].
  destruct ff; apply IH.
Qed.

Lemma find_root_sign_ext fuel f g xa xe ff xtol : same_sign f g ->
  find_root fuel f xa xe ff xtol = find_root fuel g xa xe ff xtol.
Proof.
  intro H. unfold find_root. rewrite !Qleb_negb_ltb.
  destruct (H xa) as [_ A], (H xe) as [B _]. rewrite A, B.
  rewrite (find_root_loop_sign_ext fuel f g xa xe ff xtol H). reflexivity.
Qed.

Lemma Qsgn_scale a x y : 0 < a -> y == a * x -> Qsgn y = Qsgn x.
Proof.
  intros Ha E. unfold Qsgn.
  destruct (Qltb 0 x) eqn:P.
  - qb. assert (Q1 : Qltb 0 y = true) by (qb; rewrite E; nra). now rewrite Q1.
  - qb. assert (Q1 : Qltb 0 y = false) by (qb; rewrite E; nra). rewrite Q1.
    destruct (Qltb x 0) eqn:N.
    + qb. assert (Q2 : Qltb y 0 = true) by (qb; rewrite E; nra). now rewrite Q2.
    + qb. assert (Q2 : Qltb y 0 = false) by (qb; rewrite E; nra). now rewrite Q2.
Qed.

Lemma Qsgn_cases x : Qsgn x = 1 \/ Qsgn x = -1 \/ Qsgn x = 0.
Proof. unfold Qsgn. destruct (Qltb 0 x); [auto|]. destruct (Qltb x 0); auto. Qed.

Section AffineFull.
  Variable succ pred : Q -> Q.
  Variables a b : Q.
  Notation f := (fun x => a * x + b).
  (* f commutes with nextafter on the values of a list *)
  Definition commutes_on (l : list Q) : Prop :=
    forall x, In x l -> succ (f x) == f (succ x) /\ pred (f x) == f (pred x).

  (* _invert_increasing_function: every target, every method, both continuity flags *)
  Theorem inv_affine_full l u lc m : (1 <= len l)%Z -> commutes_on l ->
    inv_incr succ pred (map f l) u lc m == f (inv_incr succ pred l u lc m).
  Proof.
    intros H Hc. unfold inv_incr. rewrite (len_map_f a b). cbv zeta.
    set (n := len l) in *.
    set (tr := if negb lc then u - 1 / inject_Z n else u).
    set (li := Z.max (Z.min (Qfloor (tr * inject_Z n)) (n - 1)) 0).
    set (ri := Z.max (Z.min (Qceiling (tr * inject_Z n)) (n - 1)) 0).
    rewrite !(EquivarianceFacts.nthZ_map a b) by (subst li ri; fold n; lia).
    destruct (Qleb 1 u); [apply Hc, TrapzFacts.nthZ_in; fold n; lia|].
    destruct (Qleb tr 0); [apply Hc, TrapzFacts.nthZ_in; fold n; lia|].
    destruct m; ring.
  Qed.

  (* _threshold_at_ratio *)
  Theorem tar_affine_full s s' l u inc rc m :
    score_class s' = score_class s -> equal_class s' = equal_class s -> (1 <= len l)%Z -> commutes_on l ->
    threshold_at_ratio succ pred s' (map f l) u inc rc m == f (threshold_at_ratio succ pred s l u inc rc m).
  Proof.
    intros Hsc Hec Hn Hc. rewrite !tar_unfold.
    assert (T : tar_target s' inc u = tar_target s inc u) by (unfold tar_target; now rewrite Hsc).
    assert (L : tar_lc s' rc = tar_lc s rc) by (unfold tar_lc; now rewrite Hsc, Hec).
    assert (M : tar_method s' inc m = tar_method s inc m) by (unfold tar_method; now rewrite Hsc).
    rewrite T, L, M. now apply inv_affine_full.
  Qed.

  (* s' : the object built from the mapped scores, same counts of easy samples, same flags *)
  Variables s s' : scores.
  Hypothesis Hpos : pos s' = map f (pos s).
  Hypothesis Hneg : neg s' = map f (neg s).
  Hypothesis Hep : easy_pos s' = easy_pos s.
  Hypothesis Hen : easy_neg s' = easy_neg s.
  Hypothesis Hsc : score_class s' = score_class s.
  Hypothesis Hec : equal_class s' = equal_class s.
  Hypothesis Hcomm : commutes_on (pos s ++ neg s).
  Lemma comm_pos : commutes_on (pos s).
  Proof. intros x Hx. apply Hcomm, in_or_app. now left. Qed.
  Lemma comm_neg : commutes_on (neg s).
  Proof. intros x Hx. apply Hcomm, in_or_app. now right. Qed.
  Lemma comm_pool : commutes_on (isort (neg s ++ pos s)).
  Proof.
    intros x Hx. apply Hcomm. apply (Permutation_in x (Permutation_sym (isort_perm (neg s ++ pos s)))) in Hx.
    apply in_app_or in Hx. apply in_or_app. tauto.
  Qed.

  Lemma len_pos' : len (pos s') = len (pos s).
  Proof. rewrite Hpos. apply len_map. Qed.
  Lemma len_neg' : len (neg s') = len (neg s).
  Proof. rewrite Hneg. apply len_map. Qed.
  Lemma hpr' : hard_pos_ratio s' = hard_pos_ratio s.
  Proof. unfold hard_pos_ratio. now rewrite len_pos', Hep. Qed.
  Lemma hnr' : hard_neg_ratio s' = hard_neg_ratio s.
  Proof. unfold hard_neg_ratio. now rewrite len_neg', Hen. Qed.

  Lemma nb_all' : nb_all_samples s' = nb_all_samples s.
  Proof. unfold nb_all_samples, nb_easy_samples, nb_hard_samples. now rewrite len_pos', len_neg', Hep, Hen. Qed.
  Lemma hr' : hard_ratio s' = hard_ratio s.
  Proof. unfold hard_ratio, easy_ratio. rewrite nb_all'. unfold nb_easy_samples. now rewrite Hep, Hen. Qed.

  Hypothesis a_pos : 0 < a.
  Lemma Qleb_f x y : Qleb (f x) (f y) = Qleb x y.
  Proof. destruct (Qleb x y) eqn:E; qb; nra. Qed.
  Lemma Qltb_f x y : Qltb (f x) (f y) = Qltb x y.
  Proof. destruct (Qltb x y) eqn:E; qb; nra. Qed.
  Lemma insert_f x r : insert (f x) (map f r) = map f (insert x r).
  Proof.
    induction r as [|y r IH]; [reflexivity|]. cbn [map insert]. rewrite Qleb_f.
    destruct (Qleb x y); [reflexivity|]. cbn [map]. now rewrite IH.
  Qed.
  Lemma isort_f l : isort (map f l) = map f (isort l).
  Proof. induction l as [|x r IH]; [reflexivity|]. cbn [map isort]. rewrite IH. apply insert_f. Qed.
  Lemma pool' : isort (neg s' ++ pos s') = map f (isort (neg s ++ pos s)).
  Proof. rewrite Hpos, Hneg, <- map_app. apply isort_f. Qed.

  (* the six public functions: every target (sentinels included), every method *)
  Theorem threshold_at_affine_full mt u m :
    match threshold_at succ pred mt s' u m, threshold_at succ pred mt s u m with
    | Ret t', Ret t => t' == f t
    | Raise, Raise => True
    | _, _ => False
    end.
  Proof.
    destruct mt; unfold threshold_at, threshold_at_tpr, threshold_at_fnr, threshold_at_tnr, threshold_at_fpr,
      threshold_at_topr, threshold_at_tonr; cbv zeta;
      rewrite ?pool', ?len_pos', ?len_neg', ?(len_map_f a b); unfold easy_pos_ratio, easy_neg_ratio;
      rewrite ?hpr', ?hnr', ?hr', ?nb_all', ?Hep, ?Hen.
    1,2: destruct (len (pos s) =? 0)%Z eqn:Z0; [exact I|]; rewrite Hpos; apply tar_affine_full; try assumption;
         [apply Z.eqb_neq in Z0; pose proof (len_nonneg (pos s)); lia | exact comm_pos].
    1,2: destruct (len (neg s) =? 0)%Z eqn:Z0; [exact I|]; rewrite Hneg; apply tar_affine_full; try assumption;
         [apply Z.eqb_neq in Z0; pose proof (len_nonneg (neg s)); lia | exact comm_neg].
    1,2: destruct (len (isort (neg s ++ pos s)) =? 0)%Z eqn:Z0; [exact I|]; apply tar_affine_full; try assumption;
         [apply Z.eqb_neq in Z0; pose proof (len_nonneg (isort (neg s ++ pos s))); lia | exact comm_pool].
  Qed.

  Lemma t_fpr_f x : (1 <= len (neg s))%Z -> t_fpr succ pred s' x == f (t_fpr succ pred s x).
  Proof.
    intro H. pose proof (threshold_at_affine_full MFpr x Linear) as T. unfold t_fpr. cbn [threshold_at] in T.
    assert (Z0 : (len (neg s) =? 0)%Z = false) by (apply Z.eqb_neq; lia).
    unfold threshold_at_fpr in *. rewrite len_neg', Z0 in *. cbn [thr_or0]. exact T.
  Qed.
  Lemma t_fnr_f x : (1 <= len (pos s))%Z -> t_fnr succ pred s' x == f (t_fnr succ pred s x).
  Proof.
    intro H. pose proof (threshold_at_affine_full MFnr x Linear) as T. unfold t_fnr. cbn [threshold_at] in T.
    assert (Z0 : (len (pos s) =? 0)%Z = false) by (apply Z.eqb_neq; lia).
    unfold threshold_at_fnr in *. rewrite len_pos', Z0 in *. cbn [thr_or0]. exact T.
  Qed.

  (* eer(): same e (identical as a rational, the bisection visits the same points), mapped threshold *)
  Theorem eer_affine_full fuel :
    match eer succ pred fuel s', eer succ pred fuel s with
    | Ret (t', e'), Ret (t, e) => e' = e /\ t' == f t
    | Raise, Raise => True
    | _, _ => False
    end.
  Proof.
    unfold eer. rewrite len_pos', len_neg', Hsc, hpr', hnr'.
    destruct ((len (pos s) =? 0) || (len (neg s) =? 0))%Z eqn:Z0; [exact I|].
    apply orb_false_elim in Z0. destruct Z0 as [Zp Zn]. apply Z.eqb_neq in Zp, Zn.
    pose proof (len_nonneg (pos s)) as Lp. pose proof (len_nonneg (neg s)) as Ln.
    assert (Hp : (1 <= len (pos s))%Z) by lia. assert (Hn : (1 <= len (neg s))%Z) by lia.
    cbv zeta. rewrite Hpos, Hneg. rewrite !(EquivarianceFacts.nthZ_map a b) by lia.
    rewrite !Qltb_f.
    set (p0 := nthZ (pos s) 0). set (pl := nthZ (pos s) (len (pos s) - 1)).
    set (n0 := nthZ (neg s) 0). set (nl := nthZ (neg s) (len (neg s) - 1)).
    destruct (Qltb nl p0 && label_eqb (score_class s) Pos).
    { split; [reflexivity|]. unfold norm. rewrite !Qred_correct. field. }
    destruct (Qltb pl n0 && label_eqb (score_class s) Neg).
    { split; [reflexivity|]. unfold norm. rewrite !Qred_correct. field. }
    set (mx := Qmin2 (hard_pos_ratio s) (hard_neg_ratio s)).
    assert (D : forall x, t_fpr succ pred s' x - t_fnr succ pred s' x == a * (t_fpr succ pred s x - t_fnr succ pred s x)).
    { intro x. rewrite (t_fpr_f x Hn), (t_fnr_f x Hp). ring. }
    assert (SG : Qsgn (t_fpr succ pred s' 0 - t_fnr succ pred s' 0) = Qsgn (t_fpr succ pred s 0 - t_fnr succ pred s 0)).
    { apply (Qsgn_scale a); [exact a_pos | apply D]. }
    rewrite SG. set (sg := - Qsgn (t_fpr succ pred s 0 - t_fnr succ pred s 0)).
    set (g' := fun x => sg * (t_fpr succ pred s' x - t_fnr succ pred s' x)).
    set (g := fun x => sg * (t_fpr succ pred s x - t_fnr succ pred s x)).
    assert (G : forall x, g' x == a * g x) by (intro x; unfold g', g; rewrite D; ring).
    assert (SS : same_sign g' g).
    { intro x. pose proof (G x) as E. split.
      - destruct (Qltb (g x) 0) eqn:K; qb; rewrite E; nra.
      - destruct (Qltb 0 (g x)) eqn:K; qb; rewrite E; nra. }
    destruct (SS mx) as [S1 _]. unfold g', g in S1. cbv beta in S1 |- *. rewrite S1.
    destruct (Qltb (sg * (t_fpr succ pred s mx - t_fnr succ pred s mx)) 0).
    { destruct (isclose (hard_pos_ratio s) (hard_neg_ratio s)).
      - split; [reflexivity|]. unfold norm. rewrite !Qred_correct. rewrite (t_fpr_f mx Hn), (t_fnr_f mx Hp). field.
      - destruct (Qltb (hard_pos_ratio s) (hard_neg_ratio s)).
        + split; [reflexivity|]. apply t_fpr_f; exact Hn.
        + split; [reflexivity|]. apply t_fnr_f; exact Hp. }
    rewrite !(find_root_sign_ext fuel g' g _ _ _ _ SS).
    destruct (find_root fuel g 0 mx true xtol_default) as [lft|]; [|exact I].
    destruct (find_root fuel g 0 mx false xtol_default) as [rgt|]; [|exact I].
    split; [reflexivity|]. apply t_fpr_f; exact Hn.
  Qed.
End AffineFull.

(* the object the constructor builds from the mapped scores *)
Lemma affine_scores_fields a b s : 0 < a -> wf s ->
  pos (affine_scores a b s) = map (fun x => a * x + b) (pos s) /\ neg (affine_scores a b s) = map (fun x => a * x + b) (neg s).
Proof.
  intros Ha [Sp Sn]. unfold affine_scores, mk_scores. cbn [pos neg].
  split; apply isort_sorted_id; apply QuantileFacts.map_affine_sorted; assumption.
Qed.

Theorem threshold_at_affine_scores succ pred a b s mt u m : 0 < a -> wf s ->
  commutes_on succ pred a b (pos s ++ neg s) ->
  match threshold_at succ pred mt (affine_scores a b s) u m, threshold_at succ pred mt s u m with
  | Ret t', Ret t => t' == a * t + b
  | Raise, Raise => True
  | _, _ => False
  end.
Proof.
  intros Ha Hw Hc. destruct (affine_scores_fields a b s Ha Hw) as [P N].
  apply (threshold_at_affine_full succ pred a b s (affine_scores a b s) P N); try reflexivity; assumption.
Qed.

Theorem eer_affine_scores succ pred a b fuel s : 0 < a -> wf s ->
  commutes_on succ pred a b (pos s ++ neg s) ->
  match eer succ pred fuel (affine_scores a b s), eer succ pred fuel s with
  | Ret (t', e'), Ret (t, e) => e' = e /\ t' == a * t + b
  | Raise, Raise => True
  | _, _ => False
  end.
Proof.
  intros Ha Hw Hc. destruct (affine_scores_fields a b s Ha Hw) as [P N].
  apply (eer_affine_full succ pred a b s (affine_scores a b s) P N); try reflexivity; assumption.
Qed.

(* the commutation hypothesis is decidable on a given object ... *)
Definition commutes_onb (succ pred : Q -> Q) (a b : Q) (l : list Q) : bool :=
  forallb (fun x => Qeqb (succ (a * x + b)) (a * succ x + b) && Qeqb (pred (a * x + b)) (a * pred x + b)) l.
Lemma commutes_onb_ok succ pred a b l : commutes_onb succ pred a b l = true -> commutes_on succ pred a b l.
Proof.
  unfold commutes_onb, commutes_on. rewrite forallb_forall. intros H x Hx. specialize (H x Hx).
  apply andb_prop in H. destruct H as [A B]. qb. split; assumption.
Qed.
(* ... and holds on the integer carrier for every translation *)
Lemma int_translation_commutes b l : commutes_on (fun x => x + 1) (fun x => x - 1) 1 b l.
Proof. intros x _. split; ring. Qed.
