(* Proofs/TrapzFacts.v — library facts about the trapezoid sum and about the integration window of
   Scores.auc (slice / clamp / flat extension), independent of scores.  Used by AucFacts (C07). *)
From SA Require Import Model.Auc.
Open Scope Q_scope.

(* ---------- small list facts ---------- *)
Lemma Z2N_len {A} (l : list A) : Z.to_nat (len l) = length l.
Proof. unfold len. lia. Qed.
Lemma len_rev {A} (l : list A) : len (rev l) = len l.
Proof. unfold len. now rewrite rev_length. Qed.
Lemma len_cons {A} (a : A) l : len (a :: l) = (1 + len l)%Z.
Proof. unfold len. simpl length. lia. Qed.
Lemma len_pos_ne {A} (l : list A) : l <> [] -> (1 <= len l)%Z.
Proof. destruct l; [congruence|]. intros _. rewrite len_cons. pose proof (len_nonneg l). lia. Qed.

Lemma nth_last_eq (l : list Q) d : nth (length l - 1) l d = last l d.
Proof.
  induction l as [|a [|b r] IH]; try reflexivity.
  change (last (a :: b :: r) d) with (last (b :: r) d). rewrite <- IH. simpl. now rewrite Nat.sub_0_r.
Qed.
Lemma nth_hd_eq (l : list Q) d : nth 0 l d = hd d l.
Proof. destruct l; reflexivity. Qed.
Lemma nthZ_0 l : nthZ l 0 = hd 0 l.
Proof. unfold nthZ. apply nth_hd_eq. Qed.
Lemma nthZ_last l : nthZ l (len l - 1) = last l 0.
Proof. unfold nthZ, len. replace (Z.to_nat (Z.of_nat (length l) - 1)) with (length l - 1)%nat by lia. apply nth_last_eq. Qed.
Lemma hd_map (f : Q -> Q) l d : l <> [] -> hd d (map f l) = f (hd 0 l).
Proof. destruct l; [congruence|reflexivity]. Qed.
Lemma last_map (f : Q -> Q) l d : l <> [] -> last (map f l) d = f (last l 0).
Proof.
  induction l as [|a [|b r] IH]; intros H; [congruence|reflexivity|].
  change (last (map f (b :: r)) d = f (last (b :: r) 0)). apply IH. discriminate.
Qed.
Lemma hd_rev (l : list Q) d : hd d (rev l) = last l d.
Proof.
  induction l as [|a r IH]; [reflexivity|]. simpl rev.
  destruct r as [|b r']; [reflexivity|].
  change (last (a :: b :: r') d) with (last (b :: r') d). rewrite <- IH.
  destruct (rev (b :: r')) eqn:E; [|reflexivity].
  apply (f_equal (@length Q)) in E. rewrite rev_length in E. simpl in E. lia.
Qed.
Lemma last_rev (l : list Q) d : last (rev l) d = hd d l.
Proof. rewrite <- (rev_involutive l) at 2. now rewrite hd_rev. Qed.
Lemma nthZ_map (f : Q -> Q) l i : (0 <= i < len l)%Z -> nthZ (map f l) i = f (nthZ l i).
Proof.
  intros H. unfold nthZ. rewrite (nth_indep _ 0 (f 0)); [apply map_nth|].
  rewrite map_length. unfold len in H. lia.
Qed.
Lemma nthZ_rev l i : (0 <= i < len l)%Z -> nthZ (rev l) i = nthZ l (len l - 1 - i).
Proof.
  intros H. unfold nthZ, len in *. rewrite rev_nth by lia. f_equal. lia.
Qed.
Lemma nthZ_in l i : (0 <= i < len l)%Z -> In (nthZ l i) l.
Proof. intros H. unfold nthZ, len in *. apply nth_In. lia. Qed.

Lemma count_rev {A} (f : A -> bool) l : count f (rev l) = count f l.
Proof. apply count_perm, Permutation_sym, Permutation_rev. Qed.

(* ---------- the trapezoid sum along a list of points ---------- *)
Fixpoint trapzf {T : Type} (x y : T -> Q) (pts : list T) : Q :=
  match pts with
  | a :: ((b :: _) as r) => (x b - x a) * (y a + y b) * (1#2) + trapzf x y r
  | _ => 0
  end.

Lemma trapzf_cons2 {T} (x y : T -> Q) a b r :
  trapzf x y (a :: b :: r) = (x b - x a) * (y a + y b) * (1#2) + trapzf x y (b :: r).
Proof. reflexivity. Qed.
Lemma trapz_cons2 y0 y1 yr x0 x1 xr :
  trapz (y0 :: y1 :: yr) (x0 :: x1 :: xr) = (x1 - x0) * (y0 + y1) * (1#2) + trapz (y1 :: yr) (x1 :: xr).
Proof. reflexivity. Qed.

Lemma trapz_map {T} (x y : T -> Q) pts : trapz (map y pts) (map x pts) = trapzf x y pts.
Proof.
  induction pts as [|a [|b r] IH]; try reflexivity.
  change (map y (a :: b :: r)) with (y a :: y b :: map y r).
  change (map x (a :: b :: r)) with (x a :: x b :: map x r).
  rewrite trapz_cons2, trapzf_cons2. f_equal. exact IH.
Qed.

Lemma trapzf_ext {T} (x x' y y' : T -> Q) pts :
  (forall t, In t pts -> x t == x' t) -> (forall t, In t pts -> y t == y' t) ->
  trapzf x y pts == trapzf x' y' pts.
Proof.
  induction pts as [|a [|b r] IH]; intros Hx Hy; try reflexivity.
  rewrite !trapzf_cons2. rewrite IH.
  - rewrite (Hx a), (Hx b), (Hy a), (Hy b); simpl; auto. reflexivity.
  - intros t Ht. apply Hx. now right.
  - intros t Ht. apply Hy. now right.
Qed.

Lemma trapzf_add_x {T} (x1 x2 y : T -> Q) pts :
  trapzf (fun t => x1 t + x2 t) y pts == trapzf x1 y pts + trapzf x2 y pts.
Proof. induction pts as [|a [|b r] IH]; try (simpl; lra). rewrite !trapzf_cons2, IH. lra. Qed.
Lemma trapzf_scale_x {T} c (x y : T -> Q) pts : trapzf (fun t => c * x t) y pts == c * trapzf x y pts.
Proof. induction pts as [|a [|b r] IH]; try (simpl; lra). rewrite !trapzf_cons2, IH. lra. Qed.
Lemma trapzf_add_y {T} (x y1 y2 : T -> Q) pts :
  trapzf x (fun t => y1 t + y2 t) pts == trapzf x y1 pts + trapzf x y2 pts.
Proof. induction pts as [|a [|b r] IH]; try (simpl; lra). rewrite !trapzf_cons2, IH. lra. Qed.
Lemma trapzf_scale_y {T} c (x y : T -> Q) pts : trapzf x (fun t => c * y t) pts == c * trapzf x y pts.
Proof. induction pts as [|a [|b r] IH]; try (simpl; lra). rewrite !trapzf_cons2, IH. lra. Qed.
Lemma trapzf_zero_x {T} (y : T -> Q) pts : trapzf (fun _ => 0) y pts == 0.
Proof. induction pts as [|a [|b r] IH]; try (simpl; lra). rewrite !trapzf_cons2, IH. lra. Qed.
Lemma trapzf_const_x {T} c (y : T -> Q) pts : trapzf (fun _ => c) y pts == 0.
Proof. induction pts as [|a [|b r] IH]; try (simpl; lra). rewrite !trapzf_cons2, IH. lra. Qed.
Lemma trapzf_zero_y {T} (x : T -> Q) pts : trapzf x (fun _ => 0) pts == 0.
Proof. induction pts as [|a [|b r] IH]; try (simpl; lra). rewrite !trapzf_cons2, IH. lra. Qed.

(* constant ordinate: telescoping *)
Lemma trapzf_const_y {T} (d : T) x c pts : trapzf x (fun _ => c) pts == c * (x (last pts d) - x (hd d pts)).
Proof.
  induction pts as [|a [|b r] IH]; try (simpl; lra).
  rewrite trapzf_cons2, IH. change (last (a :: b :: r) d) with (last (b :: r) d). simpl hd. lra.
Qed.

(* exchanging the axes: integration by parts for the trapezoid rule *)
Lemma trapzf_swap_axes {T} (d : T) x y pts :
  trapzf x y pts + trapzf y x pts == x (last pts d) * y (last pts d) - x (hd d pts) * y (hd d pts).
Proof.
  induction pts as [|a [|b r] IH]; try (simpl; lra).
  rewrite !trapzf_cons2. change (last (a :: b :: r) d) with (last (b :: r) d). simpl hd in *. lra.
Qed.

(* sums of functions *)
Lemma Qsum_app l1 l2 : Qsum (l1 ++ l2) == Qsum l1 + Qsum l2.
Proof. induction l1 as [|a r IH]; simpl; [lra|rewrite IH; lra]. Qed.
Lemma Qsum_map_ext {A} (f g : A -> Q) l : (forall v, In v l -> f v == g v) -> Qsum (map f l) == Qsum (map g l).
Proof.
  induction l as [|a r IH]; intros H; simpl; [reflexivity|].
  rewrite (H a) by now left. rewrite IH; [reflexivity|]. intros v Hv. apply H. now right.
Qed.
Lemma Qsum_map_scale {A} c (f : A -> Q) l : Qsum (map (fun v => c * f v) l) == c * Qsum (map f l).
Proof. induction l as [|a r IH]; simpl; [lra|rewrite IH; lra]. Qed.
Lemma Qsum_map_const {A} c (l : list A) : Qsum (map (fun _ => c) l) == c * inject_Z (len l).
Proof.
  induction l as [|a r IH]; [change (0 == c * 0); lra|].
  rewrite len_cons, inject_Z_plus. cbn [map Qsum fold_right]. change (Qsum (map (fun _ => c) r)) with (fold_right Qplus 0 (map (fun _ : A => c) r)) in IH.
  rewrite IH. change (inject_Z 1) with 1. lra.
Qed.
Lemma Qsum_map_nonneg {A} (f : A -> Q) l : (forall v, In v l -> 0 <= f v) -> 0 <= Qsum (map f l).
Proof.
  induction l as [|a r IH]; intros H; simpl; [lra|].
  assert (0 <= f a) by (apply H; now left). assert (0 <= Qsum (map f r)) by (apply IH; intros; apply H; now right). lra.
Qed.

Lemma trapzf_sum_x {A T} (g : A -> T -> Q) (l : list A) y pts :
  trapzf (fun t => Qsum (map (fun v => g v t) l)) y pts == Qsum (map (fun v => trapzf (g v) y pts) l).
Proof.
  induction l as [|a r IH]; simpl; [apply trapzf_zero_x|].
  rewrite <- IH. apply (trapzf_add_x (g a) (fun t => Qsum (map (fun v => g v t) r))).
Qed.
Lemma trapzf_sum_y {A T} (g : A -> T -> Q) (l : list A) x pts :
  trapzf x (fun t => Qsum (map (fun v => g v t) l)) pts == Qsum (map (fun v => trapzf x (g v) pts) l).
Proof.
  induction l as [|a r IH]; simpl; [apply trapzf_zero_y|].
  rewrite <- IH. apply (trapzf_add_y x (g a) (fun t => Qsum (map (fun v => g v t) r))).
Qed.

(* The ordinate may be replaced step by step: on a sorted list two neighbours a <= b have no other
   element of the list strictly between them. *)
Lemma trapzf_adj_ext (x y y' : Q -> Q) (pts0 : list Q) : forall pts,
  sorted pts ->
  (forall t, In t pts0 -> In t pts \/ (forall u, In u pts -> t <= u)) ->
  (forall a b, a <= b -> (forall t, In t pts0 -> t <= a \/ b <= t) ->
     (x b - x a) * (y a + y b) == (x b - x a) * (y' a + y' b)) ->
  trapzf x y pts == trapzf x y' pts.
Proof.
  induction pts as [|a [|b r] IH]; intros Hs Hcov Hstep; try reflexivity.
  inversion Hs as [|? ? Hs' Hall]; subst. rewrite Forall_forall in Hall.
  rewrite !trapzf_cons2. rewrite IH; [|exact Hs'| |exact Hstep].
  - assert (E : (x b - x a) * (y a + y b) == (x b - x a) * (y' a + y' b)).
    { apply Hstep; [apply Hall; now left|]. intros t Ht.
      destruct (Hcov t Ht) as [[->|Hin]|Hlow].
      - left. lra.
      - right. inversion Hs' as [|? ? _ Hall']; subst. rewrite Forall_forall in Hall'.
        destruct Hin as [->|Hin]; [lra|]. now apply Hall'.
      - left. apply Hlow. now left. }
    lra.
  - intros t Ht. destruct (Hcov t Ht) as [[->|Hin]|Hlow].
    + right. exact Hall.
    + now left.
    + right. intros u Hu. apply Hlow. now right.
Qed.

(* reversal negates the sum *)
Lemma trapzf_app1 {T} (x y : T -> Q) l a b :
  trapzf x y ((l ++ [a]) ++ [b]) == trapzf x y (l ++ [a]) + (x b - x a) * (y a + y b) * (1#2).
Proof.
  induction l as [|c [|d r] IH].
  - simpl. lra.
  - simpl. lra.
  - change (((c :: d :: r) ++ [a]) ++ [b]) with (c :: d :: ((r ++ [a]) ++ [b])).
    change ((c :: d :: r) ++ [a]) with (c :: d :: (r ++ [a])).
    rewrite !trapzf_cons2.
    change (d :: (r ++ [a]) ++ [b]) with (((d :: r) ++ [a]) ++ [b]).
    change (d :: r ++ [a]) with ((d :: r) ++ [a]). rewrite IH. lra.
Qed.
Lemma trapzf_rev {T} (x y : T -> Q) pts : trapzf x y (rev pts) == - trapzf x y pts.
Proof.
  induction pts as [|a [|b r] IH]; try (simpl; lra).
  rewrite trapzf_cons2.
  change (rev (a :: b :: r)) with ((rev r ++ [b]) ++ [a]). rewrite trapzf_app1.
  change (rev r ++ [b]) with (rev (b :: r)). rewrite IH. lra.
Qed.

(* sign *)
Lemma trapzf_nonneg {T} (x y : T -> Q) pts :
  sorted (map x pts) -> (forall t, In t pts -> 0 <= y t) -> 0 <= trapzf x y pts.
Proof.
  induction pts as [|a [|b r] IH]; intros Hs Hy; try (simpl; lra).
  rewrite trapzf_cons2. inversion Hs as [|? ? Hs' Hall]; subst. inversion Hall as [|? ? Hab _]; subst.
  assert (0 <= trapzf x y (b :: r)) by (apply IH; [exact Hs'|intros; apply Hy; now right]).
  assert (0 <= y a) by (apply Hy; now left). assert (0 <= y b) by (apply Hy; right; now left).
  nra.
Qed.
