(* Proofs/TieSupport.v — small facts used by the tie-lemma scripts in coq/ties when the regenerated term is a
   harmless rewrite of the modelled one (np.clip for maximum-of-minimum on an index). *)
From SA Require Import Model.Threshold.
Open Scope Q_scope.

(* np.clip(i, 0, n - 1) = minimum(maximum(i, 0), n - 1) selects the same element as maximum(minimum(i, n - 1), 0):
   the two indices coincide for a non-empty list, and an empty list answers every index with the default *)
Lemma nthZ_clip_eq l a : nthZ l (Z.min (Z.max a 0) (len l - 1)) = nthZ l (Z.max (Z.min a (len l - 1)) 0).
Proof.
  destruct l as [|x r].
  - unfold nthZ. destruct (Z.to_nat (Z.min (Z.max a 0) (len [] - 1))), (Z.to_nat (Z.max (Z.min a (len [] - 1)) 0)); reflexivity.
  - f_equal. unfold len. cbn [length]. lia.
Qed.
