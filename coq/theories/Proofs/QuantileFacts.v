(* Proofs/QuantileFacts.v — facts about the model of np.nanquantile (Model/BootCI.v):
   monotone in q, within [min,max], depends only on the multiset of finite values, affine equivariant. *)
From SA Require Import Model.BootCI.
Open Scope Q_scope.

(* ---------- floor / ceiling ---------- *)
Lemma Zlt_of_Qlt a b : inject_Z a < inject_Z b -> (a < b)%Z.
Proof. now rewrite Zlt_Qlt. Qed.
Lemma Qle_of_Zle a b : (a <= b)%Z -> inject_Z a <= inject_Z b.
Proof. now rewrite Zle_Qle. Qed.
Lemma floor_ceil_cases h :
  (Qceiling h = Qfloor h /\ h == inject_Z (Qfloor h)) \/
  (Qceiling h = (Qfloor h + 1)%Z /\ inject_Z (Qfloor h) < h).
Proof.
  pose proof (Qfloor_le h) as F1. pose proof (Qlt_floor h) as F2.
  pose proof (Qle_ceiling h) as C1. pose proof (Qceiling_lt h) as C2.
  destruct (Qlt_le_dec (inject_Z (Qfloor h)) h) as [L|L].
  - right. split; [|exact L].
    assert (A : (Qfloor h < Qceiling h)%Z) by (apply Zlt_of_Qlt; lra).
    assert (B : (Qceiling h - 1 < Qfloor h + 1)%Z) by (apply Zlt_of_Qlt; lra).
    lia.
  - left. assert (E : h == inject_Z (Qfloor h)) by lra. split; [|exact E].
    rewrite (Qceiling_comp _ _ E). apply Qceiling_Z.
Qed.

Lemma inject_Z_1 : inject_Z 1 == 1. Proof. reflexivity. Qed.

(* ---------- the interpolant as a function of the virtual index h ---------- *)
Definition qs (l : list Q) (h : Q) : Q :=
  let fr := h - inject_Z (Qfloor h) in
  (1 - fr) * nth (Z.to_nat (Qfloor h)) l 0 + fr * nth (Z.to_nat (Qceiling h)) l 0.

Lemma quantile_sorted_qs l q : quantile_sorted l q = qs l (inject_Z (len l - 1) * q).
Proof. reflexivity. Qed.

Lemma qs_comp l h h' : h == h' -> qs l h == qs l h'.
Proof.
  intro E. unfold qs. rewrite (Qfloor_comp _ _ E), (Qceiling_comp _ _ E). rewrite E. reflexivity.
Qed.

(* indices are in range when 0 <= h <= n-1 *)
Lemma idx_range (l : list Q) h :
  0 <= h -> h <= inject_Z (len l - 1) ->
  (0 <= Qfloor h)%Z /\ (Qfloor h <= Qceiling h)%Z /\ (Qceiling h <= len l - 1)%Z.
Proof.
  intros H0 H1.
  pose proof (Qfloor_le h) as F1. pose proof (Qlt_floor h) as F2.
  pose proof (Qle_ceiling h) as C1. pose proof (Qceiling_lt h) as C2.
  repeat split.
  - assert (A : (-1 < Qfloor h)%Z).
    { apply Zlt_of_Qlt. rewrite inject_Z_plus in F2. change (inject_Z 1) with 1 in F2. change (inject_Z (-1)) with (-1). lra. }
    lia.
  - destruct (floor_ceil_cases h) as [[E _]|[E _]]; lia.
  - assert (A : (Qceiling h - 1 < len l - 1)%Z) by (apply Zlt_of_Qlt; lra). lia.
Qed.

Lemma qs_bounds l h :
  sorted l -> 0 <= h -> h <= inject_Z (len l - 1) ->
  nth (Z.to_nat (Qfloor h)) l 0 <= qs l h /\ qs l h <= nth (Z.to_nat (Qceiling h)) l 0.
Proof.
  intros Hs H0 H1. destruct (idx_range l h H0 H1) as (I0 & I1 & I2).
  assert (Hab : nth (Z.to_nat (Qfloor h)) l 0 <= nth (Z.to_nat (Qceiling h)) l 0).
  { apply sorted_nth_mono; [exact Hs|lia|unfold len in I2; lia]. }
  pose proof (Qfloor_le h) as F1. pose proof (Qlt_floor h) as F2.
  rewrite inject_Z_plus in F2. change (inject_Z 1) with 1 in F2.
  unfold qs. cbv zeta.
  set (a := nth (Z.to_nat (Qfloor h)) l 0) in *. set (b := nth (Z.to_nat (Qceiling h)) l 0) in *.
  set (fr := h - inject_Z (Qfloor h)).
  assert (0 <= fr) by (unfold fr; lra). assert (fr < 1) by (unfold fr; lra).
  split; nra.
Qed.

Lemma qs_int l h : h == inject_Z (Qfloor h) -> qs l h == nth (Z.to_nat (Qfloor h)) l 0.
Proof.
  intro E. unfold qs. cbv zeta.
  assert (Z : h - inject_Z (Qfloor h) == 0) by lra. rewrite Z. ring.
Qed.

Lemma qs_mono l h h' :
  sorted l -> 0 <= h -> h <= h' -> h' <= inject_Z (len l - 1) -> qs l h <= qs l h'.
Proof.
  intros Hs H0 Hh H1.
  assert (H0' : 0 <= h') by lra. assert (H1' : h <= inject_Z (len l - 1)) by lra.
  destruct (idx_range l h H0 H1') as (I0 & I1 & I2).
  destruct (idx_range l h' H0' H1) as (J0 & J1 & J2).
  destruct (qs_bounds l h Hs H0 H1') as [B1 B2].
  destruct (qs_bounds l h' Hs H0' H1) as [B1' B2'].
  pose proof (Qfloor_resp_le _ _ Hh) as FL.
  destruct (Z.eq_dec (Qfloor h) (Qfloor h')) as [E|NE].
  - destruct (floor_ceil_cases h) as [[C E1]|[C L1]].
    + (* h is an integer *)
      rewrite (qs_int l h E1). rewrite E. exact B1'.
    + (* h not an integer; then neither is h' *)
      destruct (floor_ceil_cases h') as [[C' E1']|[C' L1']].
      * exfalso. rewrite <- E in E1'. lra.
      * unfold qs. cbv zeta. rewrite C, C', <- E.
        set (a := nth (Z.to_nat (Qfloor h)) l 0). set (b := nth (Z.to_nat (Qfloor h + 1)) l 0).
        assert (Hab : a <= b).
        { apply sorted_nth_mono; [exact Hs|lia|]. rewrite C in I2. unfold len in I2. lia. }
        nra.
  - assert (Lt : (Qfloor h < Qfloor h')%Z) by lia.
    assert (M : nth (Z.to_nat (Qceiling h)) l 0 <= nth (Z.to_nat (Qfloor h')) l 0).
    { apply sorted_nth_mono; [exact Hs| |unfold len in J2; lia].
      destruct (floor_ceil_cases h) as [[C _]|[C _]]; lia. }
    lra.
Qed.

Lemma scaled_range (l : list Q) q :
  l <> [] -> 0 <= q -> q <= 1 ->
  0 <= inject_Z (len l - 1) * q /\ inject_Z (len l - 1) * q <= inject_Z (len l - 1).
Proof.
  intros Hne H0 H1.
  assert (P : 0 <= inject_Z (len l - 1)).
  { change 0 with (inject_Z 0). apply Qle_of_Zle. destruct l; [congruence|]. unfold len. simpl length. lia. }
  split; nra.
Qed.

Lemma quantile_sorted_mono l q q' :
  sorted l -> l <> [] -> 0 <= q -> q <= q' -> q' <= 1 -> quantile_sorted l q <= quantile_sorted l q'.
Proof.
  intros Hs Hne H0 Hq H1. rewrite !quantile_sorted_qs.
  assert (P : 0 <= inject_Z (len l - 1)).
  { change 0 with (inject_Z 0). apply Qle_of_Zle. destruct l; [congruence|]. unfold len. simpl length. lia. }
  apply qs_mono; [exact Hs|nra|nra|nra].
Qed.

Lemma quantile_sorted_range l q :
  sorted l -> l <> [] -> 0 <= q -> q <= 1 ->
  nth 0 l 0 <= quantile_sorted l q /\ quantile_sorted l q <= nth (length l - 1) l 0.
Proof.
  intros Hs Hne H0 H1. rewrite quantile_sorted_qs.
  destruct (scaled_range l q Hne H0 H1) as [R0 R1].
  set (h := inject_Z (len l - 1) * q) in *.
  destruct (idx_range l h R0 R1) as (I0 & I1 & I2).
  destruct (qs_bounds l h Hs R0 R1) as [B1 B2].
  assert (Hlen : (0 < length l)%nat) by (destruct l; [congruence|simpl; lia]).
  split.
  - eapply Qle_trans; [|exact B1]. apply sorted_nth_mono; [exact Hs|lia|unfold len in I2; lia].
  - eapply Qle_trans; [exact B2|]. apply sorted_nth_mono; [exact Hs|unfold len in I2; lia|lia].
Qed.

(* value at a grid point q = k/(n-1) is the k-th order statistic *)
Lemma quantile_sorted_grid l (k : nat) :
  (1 < length l)%nat -> (k < length l)%nat ->
  quantile_sorted l (inject_Z (Z.of_nat k) / inject_Z (len l - 1)) == nth k l 0.
Proof.
  intros Hn Hk. rewrite quantile_sorted_qs.
  assert (NZ : ~ inject_Z (len l - 1) == 0).
  { intro E. apply (proj1 (inject_Z_injective _ 0%Z)) in E. revert E. unfold len. lia. }
  assert (E : inject_Z (len l - 1) * (inject_Z (Z.of_nat k) / inject_Z (len l - 1)) == inject_Z (Z.of_nat k)) by (field; exact NZ).
  rewrite (qs_comp _ _ _ E).
  assert (F : Qfloor (inject_Z (Z.of_nat k)) = Z.of_nat k) by apply Qfloor_Z.
  rewrite qs_int; rewrite F; [|reflexivity]. now rewrite Nat2Z.id.
Qed.

(* ---------- dependence on the multiset only ---------- *)
Lemma sorted_perm_nth l1 l2 i :
  sorted l1 -> sorted l2 -> Permutation l1 l2 -> nth i l1 0 == nth i l2 0.
Proof.
  intros S1 S2 P. pose proof (Permutation_length P) as L.
  destruct (Nat.lt_ge_cases i (length l1)) as [Hi|Hi].
  - assert (Hi2 : (i < length l2)%nat) by lia.
    destruct (Q_dec (nth i l1 0) (nth i l2 0)) as [[Lt|Gt]|E]; [| |exact E]; exfalso.
    + pose proof (count_le_ge_index l1 i (nth i l1 0) S1 Hi (Qle_refl _)) as A.
      pose proof (count_le_le_index l2 i (nth i l1 0) S2 Hi2 Lt) as B.
      rewrite (count_perm _ _ _ P) in A. lia.
    + pose proof (count_le_ge_index l2 i (nth i l2 0) S2 Hi2 (Qle_refl _)) as A.
      pose proof (count_le_le_index l1 i (nth i l2 0) S1 Hi Gt) as B.
      rewrite (count_perm _ _ _ P) in B. lia.
  - rewrite !nth_overflow by lia. reflexivity.
Qed.

Lemma qs_ext l1 l2 h : (forall i, nth i l1 0 == nth i l2 0) -> qs l1 h == qs l2 h.
Proof. intro H. unfold qs. cbv zeta. rewrite !H. reflexivity. Qed.

Lemma quantile_sorted_perm l1 l2 q :
  sorted l1 -> sorted l2 -> Permutation l1 l2 -> quantile_sorted l1 q == quantile_sorted l2 q.
Proof.
  intros S1 S2 P. rewrite !quantile_sorted_qs.
  unfold len. rewrite (Permutation_length P).
  apply qs_ext. intro i. now apply sorted_perm_nth.
Qed.

Lemma quantile_sorted_comp l q q' : q == q' -> quantile_sorted l q == quantile_sorted l q'.
Proof. intro E. rewrite !quantile_sorted_qs. apply qs_comp. rewrite E. reflexivity. Qed.

(* ---------- affine maps ---------- *)
Lemma map_affine_sorted a b l : 0 < a -> sorted l -> sorted (map (fun x => a * x + b) l).
Proof.
  intros Ha. unfold sorted. induction 1 as [|x r Hr IH Hall]; simpl; constructor; [exact IH|].
  rewrite Forall_map. eapply Forall_impl; [|exact Hall]. simpl. intros y Hy. nra.
Qed.

Lemma qs_affine a b l h :
  0 <= h -> h <= inject_Z (len l - 1) ->
  qs (map (fun x => a * x + b) l) h == a * qs l h + b.
Proof.
  intros H0 H1. destruct (idx_range l h H0 H1) as (I0 & I1 & I2).
  unfold qs. cbv zeta.
  set (f := fun x => a * x + b).
  assert (N : forall i, (i < length l)%nat -> nth i (map f l) 0 = f (nth i l 0)).
  { intros i Hi. rewrite (nth_indep _ 0 (f 0)) by (rewrite map_length; exact Hi). apply map_nth. }
  rewrite !N by (unfold len in I2; lia). unfold f. ring.
Qed.

Lemma quantile_sorted_affine a b l q :
  l <> [] -> 0 <= q -> q <= 1 ->
  quantile_sorted (map (fun x => a * x + b) l) q == a * quantile_sorted l q + b.
Proof.
  intros Hne H0 H1. rewrite !quantile_sorted_qs. rewrite len_map.
  destruct (scaled_range l q Hne H0 H1) as [R0 R1]. now apply qs_affine.
Qed.

(* ---------- np.nanquantile ---------- *)
Lemma somes_app l1 l2 : somes (l1 ++ l2) = somes l1 ++ somes l2.
Proof. induction l1 as [|[x|] r IH]; simpl; [reflexivity|now rewrite IH|exact IH]. Qed.
Lemma somes_insert_none l1 l2 : somes (l1 ++ None :: l2) = somes (l1 ++ l2).
Proof. now rewrite !somes_app. Qed.
Lemma somes_perm l1 l2 : Permutation l1 l2 -> Permutation (somes l1) (somes l2).
Proof.
  induction 1 as [|x l l' _ IH|x y l|l l' l'' _ IH1 _ IH2].
  - constructor.
  - destruct x; simpl; [now constructor|exact IH].
  - destruct x, y; simpl; try apply Permutation_refl. apply perm_swap.
  - eapply Permutation_trans; eassumption.
Qed.
Lemma somes_In x l : In x (somes l) <-> In (Some x) l.
Proof.
  induction l as [|[y|] r IH]; simpl; [tauto| |].
  - rewrite IH. split; intros [H|H]; auto; left; congruence.
  - rewrite IH. split; [auto|intros [H|H]; [discriminate|exact H]].
Qed.
Lemma somes_map f l : somes (map (rmap f) l) = map f (somes l).
Proof. induction l as [|[x|] r IH]; simpl; [reflexivity|now rewrite IH|exact IH]. Qed.

Lemma nanquantile_none col q : nanquantile col q = None <-> somes col = [].
Proof. unfold nanquantile. destruct (somes col); split; congruence. Qed.
Lemma nanquantile_some col q : somes col <> [] -> nanquantile col q = Some (quantile_sorted (isort (somes col)) q).
Proof. unfold nanquantile. destruct (somes col); congruence. Qed.

Lemma isort_nonempty l : l <> [] -> isort l <> [].
Proof. intros H E. apply H. apply length_zero_iff_nil. rewrite <- isort_length, E. reflexivity. Qed.

(* depends only on the multiset of finite replicates: covers reordering and NaN insertion *)
Lemma nanquantile_perm c1 c2 q :
  Permutation (somes c1) (somes c2) -> req (nanquantile c1 q) (nanquantile c2 q).
Proof.
  intro P. unfold nanquantile.
  destruct (somes c1) as [|x1 r1] eqn:E1, (somes c2) as [|x2 r2] eqn:E2; cbn [req].
  - exact I.
  - apply Permutation_nil in P. discriminate.
  - apply Permutation_sym, Permutation_nil in P. discriminate.
  - apply quantile_sorted_perm; try apply isort_sorted.
    eapply Permutation_trans; [apply Permutation_sym, isort_perm|].
    eapply Permutation_trans; [exact P|apply isort_perm].
Qed.

Lemma nanquantile_comp col q q' : q == q' -> req (nanquantile col q) (nanquantile col q').
Proof.
  intro E. unfold nanquantile. destruct (somes col); cbn [req]; [exact I|now apply quantile_sorted_comp].
Qed.

Definition rle (a b : rate) : Prop :=
  match a, b with Some x, Some y => x <= y | None, None => True | _, _ => False end.

Lemma nanquantile_mono col q q' :
  0 <= q -> q <= q' -> q' <= 1 -> rle (nanquantile col q) (nanquantile col q').
Proof.
  intros H0 Hq H1. unfold nanquantile. destruct (somes col) as [|x r] eqn:E; cbn [rle]; [exact I|].
  apply quantile_sorted_mono; auto using isort_sorted. apply isort_nonempty. discriminate.
Qed.

(* within the range of the finite replicates *)
Lemma nanquantile_range col q v :
  0 <= q -> q <= 1 -> nanquantile col q = Some v ->
  (exists a b, In (Some a) col /\ In (Some b) col /\ a <= v /\ v <= b) /\
  (forall m, (forall x, In (Some x) col -> m <= x) -> m <= v) /\
  (forall M, (forall x, In (Some x) col -> x <= M) -> v <= M).
Proof.
  intros H0 H1. unfold nanquantile. destruct (somes col) as [|x r] eqn:E; [discriminate|].
  intro Hv. injection Hv as <-.
  set (l := isort (x :: r)).
  assert (Hne : l <> []) by (apply isort_nonempty; discriminate).
  assert (Hlen : (0 < length l)%nat) by (destruct l; [congruence|simpl; lia]).
  destruct (quantile_sorted_range l q (isort_sorted _) Hne H0 H1) as [R0 R1].
  assert (InCol : forall i, (i < length l)%nat -> In (Some (nth i l 0)) col).
  { intros i Hi. apply somes_In. rewrite E.
    apply (Permutation_in _ (Permutation_sym (isort_perm (x :: r)))). apply nth_In. exact Hi. }
  split; [|split].
  - exists (nth 0 l 0), (nth (length l - 1) l 0). repeat split; auto; apply InCol; lia.
  - intros m Hm. eapply Qle_trans; [|exact R0]. apply Hm, InCol. lia.
  - intros M HM. eapply Qle_trans; [exact R1|]. apply HM, InCol. lia.
Qed.

Lemma nanquantile_affine a b col q :
  0 < a -> 0 <= q -> q <= 1 ->
  req (nanquantile (map (rmap (fun x => a * x + b)) col) q) (rmap (fun x => a * x + b) (nanquantile col q)).
Proof.
  intros Ha H0 H1. unfold nanquantile. rewrite somes_map.
  destruct (somes col) as [|x r] eqn:E; cbn [req rmap option_map map]; [exact I|].
  set (f := fun x => a * x + b). set (l := x :: r).
  change (f x :: map f r) with (map f l).
  rewrite <- (quantile_sorted_affine a b (isort l) q) by (auto; apply isort_nonempty; discriminate).
  apply quantile_sorted_perm.
  - apply isort_sorted.
  - apply map_affine_sorted; [exact Ha|apply isort_sorted].
  - eapply Permutation_trans; [apply Permutation_sym, isort_perm|].
    change (a * x + b :: map f r) with (map f l). apply (Permutation_map f), isort_perm.
Qed.

(* a constant column: every quantile is the constant *)
Lemma nanquantile_const col c q :
  0 <= q -> q <= 1 -> somes col <> [] -> (forall x, In (Some x) col -> x == c) ->
  exists v, nanquantile col q = Some v /\ v == c.
Proof.
  intros H0 H1 Hne Hc. exists (quantile_sorted (isort (somes col)) q). split; [now apply nanquantile_some|].
  destruct (nanquantile_range col q _ H0 H1 (nanquantile_some col q Hne)) as (_ & Hlo & Hhi).
  apply Qle_antisym; [apply Hhi|apply Hlo]; intros x Hx; rewrite (Hc x Hx); apply Qle_refl.
Qed.
