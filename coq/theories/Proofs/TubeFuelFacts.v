(* Proofs/TubeFuelFacts.v — C16: the bisection of _find_tube_radius stops by itself.  The model's tube search takes
   fuel; starting from [0,1] the interval halves at every step and the loop condition delta_max - delta_min > 1e-2
   fails after exactly 7 halvings, so with fuel >= 8 the out-of-fuel branch is never reached and the result does
   not depend on the fuel: the fuelled model and Python's while loop compute the same thing. *)
From SA Require Import Model.RocCI.
Open Scope Q_scope.

Section TubeFuel.
  Variable succ : Q -> Q.
  Notation tube_search := (RocCI.tube_search succ).
  Notation is_contained := (RocCI.is_contained succ).

  Lemma pow2_ge1 m : 1 <= inject_Z (2 ^ Z.of_nat m).
  Proof.
    assert (0 < 2 ^ Z.of_nat m)%Z by (apply Z.pow_pos_nonneg; lia).
    assert (1 <= 2 ^ Z.of_nat m)%Z by lia. rewrite Zle_Qle in H0. exact H0.
  Qed.

  (* width 2^m / 128: m further halvings are made, whatever the fuel (at least m + 1) *)
  Lemma tube_search_fuel_indep m : forall f1 f2 x y xs ys k dmin dmax,
    (dmax - dmin) * 128 == inject_Z (2 ^ Z.of_nat m) -> (m < f1)%nat -> (m < f2)%nat ->
    tube_search f1 x y xs ys k dmin dmax = tube_search f2 x y xs ys k dmin dmax.
  Proof.
    induction m as [|m IH]; intros f1 f2 x y xs ys k dmin dmax W F1 F2;
      destruct f1 as [|f1]; [lia | | lia |]; destruct f2 as [|f2]; try lia; cbn [RocCI.tube_search].
    - (* width 1/128 <= 1/100: both stop *)
      assert (E : Qltb tube_tol (dmax - dmin) = false).
      { qb. unfold tube_tol. assert (P0 : inject_Z (2 ^ Z.of_nat 0) == 1) by reflexivity. rewrite P0 in W. lra. }
      rewrite E. reflexivity.
    - (* width 2^(m+1)/128 >= 1/64 > 1/100: both take a step; the new width is 2^m/128 *)
      assert (P : inject_Z (2 ^ Z.of_nat (S m)) == 2 * inject_Z (2 ^ Z.of_nat m)).
      { rewrite Nat2Z.inj_succ, Z.pow_succ_r by lia. rewrite inject_Z_mult. reflexivity. }
      pose proof (pow2_ge1 m) as G.
      assert (E : Qltb tube_tol (dmax - dmin) = true).
      { qb. unfold tube_tol. rewrite P in W. lra. }
      rewrite E. destruct (is_contained x y xs ys k ((dmax + dmin) / 2)) as [c|]; [|reflexivity].
      cbn [rbind]. destruct c; apply IH; try lia.
      + rewrite P in W. assert (Hh : (dmax + dmin) / 2 == (dmax + dmin) * (1 # 2)) by field. rewrite Hh. lra.
      + rewrite P in W. assert (Hh : (dmax + dmin) / 2 == (dmax + dmin) * (1 # 2)) by field. rewrite Hh. lra.
  Qed.

  (* with total containment tests (non-empty curves) the search returns a radius inside the interval: the
     out-of-fuel branch is not reached *)
  Lemma tube_search_returns m : forall f x y xs ys k dmin dmax,
    (forall d, exists c, is_contained x y xs ys k d = Ret c) ->
    (dmax - dmin) * 128 == inject_Z (2 ^ Z.of_nat m) -> (m < f)%nat ->
    exists r, tube_search f x y xs ys k dmin dmax = Ret r /\ dmin <= r /\ r <= dmax.
  Proof.
    induction m as [|m IH]; intros f x y xs ys k dmin dmax T W F; destruct f as [|f]; try lia; cbn [RocCI.tube_search].
    - assert (P0 : inject_Z (2 ^ Z.of_nat 0) == 1) by reflexivity. rewrite P0 in W.
      assert (E : Qltb tube_tol (dmax - dmin) = false) by (qb; unfold tube_tol; lra).
      rewrite E. exists ((dmax + dmin) / 2). split; [reflexivity|].
      assert (Hh : (dmax + dmin) / 2 == (dmax + dmin) * (1 # 2)) by field. rewrite Hh. split; lra.
    - assert (P : inject_Z (2 ^ Z.of_nat (S m)) == 2 * inject_Z (2 ^ Z.of_nat m)).
      { rewrite Nat2Z.inj_succ, Z.pow_succ_r by lia. rewrite inject_Z_mult. reflexivity. }
      pose proof (pow2_ge1 m) as G. rewrite P in W.
      assert (E : Qltb tube_tol (dmax - dmin) = true) by (qb; unfold tube_tol; lra).
      rewrite E. destruct (T ((dmax + dmin) / 2)) as [c Hc]. rewrite Hc. cbn [rbind].
      assert (Hh : (dmax + dmin) / 2 == (dmax + dmin) * (1 # 2)) by field.
      destruct c.
      + destruct (IH f x y xs ys k dmin ((dmax + dmin) / 2) T) as (r & R1 & R2 & R3); [rewrite Hh; lra | lia |].
        exists r. split; [exact R1|]. rewrite Hh in R3. split; lra.
      + destruct (IH f x y xs ys k ((dmax + dmin) / 2) dmax T) as (r & R1 & R2 & R3); [rewrite Hh; lra | lia |].
        exists r. split; [exact R1|]. rewrite Hh in R2. split; lra.
  Qed.

  Theorem tube_search_fuel f1 f2 x y xs ys k : (8 <= f1)%nat -> (8 <= f2)%nat ->
    tube_search f1 x y xs ys k 0 1 = tube_search f2 x y xs ys k 0 1.
  Proof. intros F1 F2. apply (tube_search_fuel_indep 7); [reflexivity | lia | lia]. Qed.

  Theorem find_tube_radius_fuel f1 f2 x y xs ys k : (8 <= f1)%nat -> (8 <= f2)%nat ->
    RocCI.find_tube_radius succ f1 x y xs ys k = RocCI.find_tube_radius succ f2 x y xs ys k.
  Proof.
    intros F1 F2. unfold RocCI.find_tube_radius.
    destruct (is_contained x y xs ys k 0) as [c0|]; [|reflexivity]. cbn [rbind]. destruct c0; [reflexivity|].
    destruct (is_contained x y xs ys k 4) as [c4|]; [|reflexivity]. cbn [rbind]. destruct (negb c4); [reflexivity|].
    apply tube_search_fuel; assumption.
  Qed.
End TubeFuel.

Lemma map_res_ext {A B} (f g : A -> Threshold.res B) l : (forall a, f a = g a) -> Roc.map_res f l = Roc.map_res g l.
Proof. intro E. induction l as [|a l IH]; [reflexivity|]. cbn [Roc.map_res]. now rewrite E, IH. Qed.

(* fixed_width_band_ci does not depend on the fuel (>= 8): the fuelled model is the while loop *)
Theorem fixed_width_fuel succ pred sqrtQ (H : Type) dc bs f1 f2 s fnr0 fpr0 thr0 nb_points alpha cfg (hist : nat -> H) :
  (8 <= f1)%nat -> (8 <= f2)%nat ->
  fixed_width_band_ci succ pred sqrtQ H dc bs f1 s fnr0 fpr0 thr0 nb_points alpha cfg hist
  = fixed_width_band_ci succ pred sqrtQ H dc bs f2 s fnr0 fpr0 thr0 nb_points alpha cfg hist.
Proof.
  intros F1 F2. unfold fixed_width_band_ci.
  destruct (find_support_thresholds succ pred s fnr0 fpr0 thr0 nb_points default_nb_extra_points default_x_axis) as [thr|]; [|reflexivity].
  cbn [rbind]. f_equal. apply map_res_ext. intro j.
  destruct (bootstrap_sample scores H dc bs s cfg (hist j) j); [|reflexivity].
  apply find_tube_radius_fuel; assumption.
Qed.
