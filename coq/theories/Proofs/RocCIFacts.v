(* Proofs/RocCIFacts.v — C16: facts about the model of the ROC confidence bands (Model/RocCI.v). *)
From SA Require Import Model.RocCI Proofs.CmFacts Proofs.RocFacts Proofs.BootCIFacts Proofs.BootMetricFacts.
Open Scope Q_scope.

(* ====================================================================== *)
(* A. rule of three                                                        *)
(* ====================================================================== *)
Section R3.
  Variable pow : Q -> Q -> Q.

  (* the two np.where passes on one row *)
  Definition rule3_row (p : rate) (c : rate * rate) (alpha : Q) (n : Z) : rate * rate :=
    if rgt_q p (inject_Z (n - 1) / inject_Z n) then upper_correction pow alpha n
    else if rlt_q p (1 / inject_Z n) then lower_correction pow alpha n
    else c.

  Lemma rule3_rows p ci alpha n :
    apply_rule_of_three pow p ci alpha n = map (fun pc => rule3_row (fst pc) (snd pc) alpha n) (combine p ci).
  Proof.
    unfold apply_rule_of_three, rule3_row. revert ci. induction p as [|a p IH]; intros [|c ci]; simpl; try reflexivity.
    f_equal. apply IH.
  Qed.
  Lemma rule3_length p ci alpha n : length p = length ci -> length (apply_rule_of_three pow p ci alpha n) = length ci.
  Proof. intro H. rewrite rule3_rows, map_length, combine_length, H. apply Nat.min_id. Qed.
  Lemma rule3_nth p ci alpha n j : length p = length ci -> (j < length ci)%nat ->
    nth j (apply_rule_of_three pow p ci alpha n) (None, None) = rule3_row (nth j p None) (nth j ci (None, None)) alpha n.
  Proof.
    intros Hl Hj. rewrite rule3_rows.
    rewrite nth_map_in with (d' := ((None : rate), ((None : rate), (None : rate)))) by (rewrite combine_length, Hl, Nat.min_id; exact Hj).
    rewrite combine_nth by exact Hl. reflexivity.
  Qed.

  (* an interval is substituted exactly when the observed count is 0 (resp. all of the population), provided the
     rate was computed over the population n that is handed to the function *)
  Lemma div_lt_iff a b n : 0 < n -> (a / n < b / n <-> a < b).
  Proof. intro Hn. unfold Qdiv. apply Qmult_lt_r. now apply Qinv_lt_0_compat. Qed.

  Lemma rule3_count_iff (c n : Z) v : (0 < n)%Z -> (0 <= c <= n)%Z -> v == inject_Z c / inject_Z n ->
    (rlt_q (Some v) (1 / inject_Z n) = true <-> c = 0%Z) /\
    (rgt_q (Some v) (inject_Z (n - 1) / inject_Z n) = true <-> c = n).
  Proof.
    intros Hn Hc Hv. assert (Hq : 0 < inject_Z n) by (change 0 with (inject_Z 0); rewrite <- Zlt_Qlt; exact Hn).
    unfold rlt_q, rgt_q. rewrite !Qltb_lt, Hv, !div_lt_iff by exact Hq.
    change 1 with (inject_Z 1). rewrite <- !Zlt_Qlt. lia.
  Qed.

  Lemma rule3_row_count (c n : Z) v ci alpha : (0 < n)%Z -> (0 <= c <= n)%Z -> v == inject_Z c / inject_Z n ->
    rule3_row (Some v) ci alpha n =
      if (c =? n)%Z then upper_correction pow alpha n else if (c =? 0)%Z then lower_correction pow alpha n else ci.
  Proof.
    intros Hn Hc Hv. destruct (rule3_count_iff c n v Hn Hc Hv) as [L U]. unfold rule3_row.
    destruct (rgt_q (Some v) (inject_Z (n - 1) / inject_Z n)) eqn:Eu.
    - assert (c = n) by (apply U; reflexivity). subst. now rewrite Z.eqb_refl.
    - assert (c <> n) by (intro X; apply U in X; congruence). apply Z.eqb_neq in H. rewrite H.
      destruct (rlt_q (Some v) (1 / inject_Z n)) eqn:El.
      + assert (c = 0%Z) by (apply L; reflexivity). subst. reflexivity.
      + assert (c <> 0%Z) by (intro X; apply L in X; congruence). apply Z.eqb_neq in H0. now rewrite H0.
  Qed.
End R3.

(* the rates of a Scores object are counts over nb_all_pos / nb_all_neg: the populations roc_with_ci hands over *)
Lemma s_fnr_count s t : easy_ok s -> (0 < nb_all_pos s)%Z ->
  exists v, s_fnr s t = Some v /\ v == inject_Z (cfn (cm s t)) / inject_Z (nb_all_pos s) /\
            (0 <= cfn (cm s t) <= nb_all_pos s)%Z.
Proof.
  intros [He _] Hn. unfold s_fnr, fnr, to_cm2. cbn [m00 m01].
  assert (D : inject_Z (ctp (cm s t)) + inject_Z (cfn (cm s t)) == inject_Z (nb_all_pos s)).
  { rewrite fnr_den_const. unfold nb_all_pos. now rewrite Z.add_comm. }
  assert (Hq : 0 < inject_Z (nb_all_pos s)) by (change 0 with (inject_Z 0); rewrite <- Zlt_Qlt; exact Hn).
  rewrite rdiv_some by (rewrite D; lra). eexists. split; [reflexivity|]. split; [now rewrite D|].
  destruct (cm_margins s t) as [M _]. rewrite cm_counts in *. cbn [ctp cfn] in *.
  pose proof (count_nonneg (fun x => dec (score_class s) (equal_class s) x t) (pos s)).
  pose proof (count_nonneg (fun x => ndec (score_class s) (equal_class s) x t) (pos s)).
  unfold nb_all_pos. lia.
Qed.
Lemma s_fpr_count s t : easy_ok s -> (0 < nb_all_neg s)%Z ->
  exists v, s_fpr s t = Some v /\ v == inject_Z (cfp (cm s t)) / inject_Z (nb_all_neg s) /\
            (0 <= cfp (cm s t) <= nb_all_neg s)%Z.
Proof.
  intros [_ He] Hn. unfold s_fpr, fpr, to_cm2. cbn [m10 m11].
  assert (D : inject_Z (cfp (cm s t)) + inject_Z (ctn (cm s t)) == inject_Z (nb_all_neg s)).
  { rewrite fpr_den_const. unfold nb_all_neg. now rewrite Z.add_comm. }
  assert (Hq : 0 < inject_Z (nb_all_neg s)) by (change 0 with (inject_Z 0); rewrite <- Zlt_Qlt; exact Hn).
  rewrite rdiv_some by (rewrite D; lra). eexists. split; [reflexivity|]. split; [now rewrite D|].
  destruct (cm_margins s t) as [_ M]. rewrite cm_counts in *. cbn [cfp ctn] in *.
  pose proof (count_nonneg (fun x => dec (score_class s) (equal_class s) x t) (neg s)).
  pose proof (count_nonneg (fun x => ndec (score_class s) (equal_class s) x t) (neg s)).
  unfold nb_all_neg. lia.
Qed.

(* rule_of_three_iff for the two call sites: substituted <=> no error / only errors among ALL positives (negatives) *)
Theorem rule3_fnr_iff pow s t ci alpha : easy_ok s -> (0 < nb_all_pos s)%Z ->
  rule3_row pow (s_fnr s t) ci alpha (nb_all_pos s) =
    if (cfn (cm s t) =? nb_all_pos s)%Z then upper_correction pow alpha (nb_all_pos s)
    else if (cfn (cm s t) =? 0)%Z then lower_correction pow alpha (nb_all_pos s) else ci.
Proof.
  intros He Hn. destruct (s_fnr_count s t He Hn) as (v & -> & Hv & Hc). now apply rule3_row_count.
Qed.
Theorem rule3_fpr_iff pow s t ci alpha : easy_ok s -> (0 < nb_all_neg s)%Z ->
  rule3_row pow (s_fpr s t) ci alpha (nb_all_neg s) =
    if (cfp (cm s t) =? nb_all_neg s)%Z then upper_correction pow alpha (nb_all_neg s)
    else if (cfp (cm s t) =? 0)%Z then lower_correction pow alpha (nb_all_neg s) else ci.
Proof.
  intros He Hn. destruct (s_fpr_count s t He Hn) as (v & -> & Hv & Hc). now apply rule3_row_count.
Qed.

(* the defect repaired by 79f7b15, as a statement about the formula: with the number of HARD samples as n, a point
   with one error among 5 hard + 8 easy positives (rate 1/13 < 1/5) is treated like a zero count *)
Lemma rule3_hard_count_mistrigger pow ci alpha :
  rule3_row pow (Some (1 # 13)) ci alpha 5 = lower_correction pow alpha 5 /\
  rule3_row pow (Some (1 # 13)) ci alpha 13 = ci.
Proof. split; reflexivity. Qed.

(* ====================================================================== *)
(* B. the aggregation loop                                                 *)
(* ====================================================================== *)
Lemma upd_length {A} (l : list A) j v : length (upd l j v) = length l.
Proof.
  unfold upd. destruct (j <? length l)%nat eqn:E; [|reflexivity]. apply Nat.ltb_lt in E.
  rewrite app_length, firstn_length. cbn [length]. rewrite skipn_length. lia.
Qed.

Lemma skipn_S_nth {A} (d : A) l k : (k < length l)%nat -> skipn k l = nth k l d :: skipn (S k) l.
Proof.
  revert k. induction l as [|a l IH]; intros k Hk; simpl in Hk; [lia|].
  destruct k; [reflexivity|]. simpl. apply IH. lia.
Qed.

(* a loop that rewrites position j from its current value only = a map over the initial array *)
Lemma upd_fold {A} (d : A) (f : nat -> A -> A) l0 k : (k <= length l0)%nat ->
  fold_left (fun l j => upd l j (f j (nth j l d))) (seq 0 k) l0
  = map (fun j => f j (nth j l0 d)) (seq 0 k) ++ skipn k l0.
Proof.
  induction k as [|k IH]; intro Hk; [reflexivity|].
  rewrite seq_S, fold_left_app, IH by lia. simpl fold_left. simpl plus.
  set (pre := map (fun j => f j (nth j l0 d)) (seq 0 k)).
  assert (Lp : length pre = k) by (unfold pre; now rewrite map_length, seq_length).
  assert (Hn : nth k (pre ++ skipn k l0) d = nth k l0 d).
  { rewrite app_nth2 by lia. rewrite Lp, Nat.sub_diag. rewrite (skipn_S_nth d l0 k) by lia. reflexivity. }
  rewrite Hn. unfold upd.
  assert (Hlt : (k <? length (pre ++ skipn k l0))%nat = true).
  { apply Nat.ltb_lt. rewrite app_length, skipn_length. lia. }
  rewrite Hlt.
  rewrite firstn_app, Lp, Nat.sub_diag, firstn_all2 by lia. simpl firstn. rewrite app_nil_r.
  rewrite skipn_app, Lp. replace (S k - k)%nat with 1%nat by lia.
  rewrite (skipn_all2 pre) by lia. simpl app.
  rewrite (skipn_S_nth d l0 k) by lia. simpl skipn.
  rewrite map_app. simpl map. rewrite <- app_assoc. reflexivity.
Qed.

Lemma fold_pair {A B C} (g1 : A -> C -> A) (g2 : B -> C -> B) js a b :
  fold_left (fun st j => (g1 (fst st) j, g2 (snd st) j)) js (a, b) = (fold_left g1 js a, fold_left g2 js b).
Proof. revert a b. induction js as [|j js IH]; intros a b; simpl; [reflexivity|apply IH]. Qed.

(* what iteration j writes, as a function of the value it finds at position j *)
Definition lower_at (x : list rate) (dxp dyp : list (rate * rate)) (j : nat) (v : rate) : rate :=
  py_min v (np_min (select (map (inside (nth j x None)) dxp) (map fst dyp)) v).
Definition upper_at (x : list rate) (dxp dyp : list (rate * rate)) (j : nat) (v : rate) : rate :=
  py_max v (np_max (select (map (inside (nth j x None)) dxp) (map snd dyp)) v).

Lemma aggregate_as_map x dxp dyp : length x = length dyp ->
  aggregate_rectangles x dxp dyp =
    combine (map (fun j => lower_at x dxp dyp j (nth j (map fst dyp) None)) (seq 0 (length x)))
            (map (fun j => upper_at x dxp dyp j (nth j (map snd dyp) None)) (seq 0 (length x))).
Proof.
  intro Hl. unfold aggregate_rectangles, agg_step. rewrite fold_pair. cbn [fst snd].
  unfold agg_lower_step, agg_upper_step.
  rewrite (upd_fold None (lower_at x dxp dyp)) by (rewrite map_length; lia).
  rewrite (upd_fold None (upper_at x dxp dyp)) by (rewrite map_length; lia).
  rewrite !skipn_all2 by (rewrite map_length; lia). rewrite !app_nil_r. reflexivity.
Qed.

(* output shape (n, 2) *)
Theorem aggregate_length x dxp dyp : length x = length dyp -> length (aggregate_rectangles x dxp dyp) = length dyp.
Proof.
  intro Hl. rewrite aggregate_as_map by exact Hl. rewrite combine_length, !map_length, seq_length, Hl. apply Nat.min_id.
Qed.

Lemma aggregate_nth x dxp dyp j : length x = length dyp -> (j < length dyp)%nat ->
  nth j (aggregate_rectangles x dxp dyp) (None, None) =
    (lower_at x dxp dyp j (fst (nth j dyp (None, None))), upper_at x dxp dyp j (snd (nth j dyp (None, None)))).
Proof.
  intros Hl Hj. rewrite aggregate_as_map by exact Hl.
  rewrite combine_nth by (now rewrite !map_length).
  rewrite !nth_map_in with (d' := 0%nat) by (rewrite seq_length; lia).
  rewrite seq_nth by lia. simpl plus.
  rewrite !nth_map_in with (d' := ((None : rate), (None : rate))) by exact Hj. reflexivity.
Qed.

(* ====================================================================== *)
(* C. the envelope, on NaN-free inputs                                     *)
(* ====================================================================== *)
Definition lift2 (p : Q * Q) : rate * rate := (Some (fst p), Some (snd p)).
Definition insideq (xj : Q) (d : Q * Q) : bool := Qleb (fst d) xj && Qleb xj (snd d).

(* the rectangles (x-limits, y-limits) whose x-interval contains xj *)
Definition covering (xj : Q) (dxq dyq : list (Q * Q)) : list ((Q * Q) * (Q * Q)) :=
  filter (fun r => insideq xj (fst r)) (combine dxq dyq).

Definition env_lo (xj : Q) (dxq dyq : list (Q * Q)) (a : Q) : Q :=
  let m := fold_left Qmin2 (map (fun r => fst (snd r)) (covering xj dxq dyq)) a in if Qltb m a then m else a.
Definition env_hi (xj : Q) (dxq dyq : list (Q * Q)) (a : Q) : Q :=
  let m := fold_left Qmax2 (map (fun r => snd (snd r)) (covering xj dxq dyq)) a in if Qltb a m then m else a.

Lemma select_map {A B C} (f : A -> bool) (g : B -> C) (la : list A) (lb : list B) :
  select (map f la) (map g lb) = map (fun r => g (snd r)) (filter (fun r => f (fst r)) (combine la lb)).
Proof.
  unfold select. revert lb. induction la as [|a la IH]; intros [|b lb]; simpl; try reflexivity.
  destruct (f a); simpl; [f_equal|]; apply IH.
Qed.

Lemma np_min_some l a : np_min (map Some l) (Some a) = Some (fold_left Qmin2 l a).
Proof. unfold np_min. revert a. induction l as [|x l IH]; intro a; simpl; [reflexivity|apply IH]. Qed.
Lemma np_max_some l a : np_max (map Some l) (Some a) = Some (fold_left Qmax2 l a).
Proof. unfold np_max. revert a. induction l as [|x l IH]; intro a; simpl; [reflexivity|apply IH]. Qed.

Lemma select_Some mask (l : list Q) : @select rate mask (@map Q rate (@Some Q) l) = @map Q rate (@Some Q) (select mask l).
Proof.
  unfold select. revert l. induction mask as [|b mask IH]; intros [|x l]; simpl; try reflexivity.
  destruct b; simpl; [f_equal|]; apply IH.
Qed.
Lemma inside_lift xj dxq : map (inside (Some xj)) (map lift2 dxq) = map (insideq xj) dxq.
Proof. rewrite map_map. apply map_ext. reflexivity. Qed.
Lemma fst_lift dyq : map fst (map lift2 dyq) = map Some (map fst dyq).
Proof. rewrite !map_map. reflexivity. Qed.
Lemma snd_lift dyq : map snd (map lift2 dyq) = map Some (map snd dyq).
Proof. rewrite !map_map. reflexivity. Qed.

Lemma lower_at_some xq dxq dyq j a : (j < length xq)%nat ->
  lower_at (map Some xq) (map lift2 dxq) (map lift2 dyq) j (Some a) = Some (env_lo (nth j xq 0) dxq dyq a).
Proof.
  intro Hj. unfold lower_at, env_lo, covering.
  rewrite nth_map_in with (d' := 0) by exact Hj.
  rewrite inside_lift, fst_lift, select_Some, np_min_some.
  rewrite (select_map (insideq (nth j xq 0)) (@fst Q Q) dxq dyq).
  unfold py_min, rltb. destruct (Qltb _ a); reflexivity.
Qed.
Lemma upper_at_some xq dxq dyq j a : (j < length xq)%nat ->
  upper_at (map Some xq) (map lift2 dxq) (map lift2 dyq) j (Some a) = Some (env_hi (nth j xq 0) dxq dyq a).
Proof.
  intro Hj. unfold upper_at, env_hi, covering.
  rewrite nth_map_in with (d' := 0) by exact Hj.
  rewrite inside_lift, snd_lift, select_Some, np_max_some.
  rewrite (select_map (insideq (nth j xq 0)) (@snd Q Q) dxq dyq).
  unfold py_max, rltb. destruct (Qltb a _); reflexivity.
Qed.

(* fold of min / max: a lower / upper bound that is attained *)
Lemma fold_min_spec l a : let m := fold_left Qmin2 l a in
  m <= a /\ (forall x, In x l -> m <= x) /\ (m = a \/ In m l).
Proof.
  revert a. induction l as [|x l IH]; intro a; simpl; [repeat split; [lra|tauto|auto]|].
  destruct (IH (Qmin2 a x)) as (H1 & H2 & H3). destruct (Qmin2_spec a x) as (M1 & M2 & M3).
  repeat split.
  - lra.
  - intros y [<-|Hy]; [lra|auto].
  - destruct H3 as [H3|H3]; [|auto]. destruct M3 as [M3|M3]; [left|right; left]; congruence.
Qed.
Lemma fold_max_spec l a : let m := fold_left Qmax2 l a in
  a <= m /\ (forall x, In x l -> x <= m) /\ (m = a \/ In m l).
Proof.
  revert a. induction l as [|x l IH]; intro a; simpl; [repeat split; [lra|tauto|auto]|].
  destruct (IH (Qmax2 a x)) as (H1 & H2 & H3). destruct (Qmax2_spec a x) as (M1 & M2 & M3).
  repeat split.
  - lra.
  - intros y [<-|Hy]; [lra|auto].
  - destruct H3 as [H3|H3]; [|auto]. destruct M3 as [M3|M3]; [left|right; left]; congruence.
Qed.

(* the envelope: env_lo is the minimum of {lo_i | x_j in [dx_i]} U {lo_j}, env_hi the maximum of the upper ends *)
Lemma env_lo_spec xj dxq dyq a :
  env_lo xj dxq dyq a <= a /\
  (forall dx dy, In (dx, dy) (combine dxq dyq) -> insideq xj dx = true -> env_lo xj dxq dyq a <= fst dy) /\
  (env_lo xj dxq dyq a = a \/ exists dx dy, In (dx, dy) (combine dxq dyq) /\ insideq xj dx = true /\ env_lo xj dxq dyq a = fst dy).
Proof.
  unfold env_lo. set (l := map (fun r : Q * Q * (Q * Q) => fst (snd r)) (covering xj dxq dyq)).
  destruct (fold_min_spec l a) as (H1 & H2 & H3). set (m := fold_left Qmin2 l a) in *.
  assert (Hin : forall v, In v l -> exists dx dy, In (dx, dy) (combine dxq dyq) /\ insideq xj dx = true /\ v = fst dy).
  { intros v Hv. apply in_map_iff in Hv. destruct Hv as ([dx dy] & <- & Hr). apply filter_In in Hr. destruct Hr as [Hr Hi].
    exists dx, dy. auto. }
  assert (Hcov : forall dx dy, In (dx, dy) (combine dxq dyq) -> insideq xj dx = true -> m <= fst dy).
  { intros dx dy Hr Hi. apply H2. apply in_map_iff. exists (dx, dy). split; [reflexivity|]. apply filter_In. auto. }
  destruct (Qltb m a) eqn:E.
  - repeat split; [exact H1|exact Hcov|]. destruct H3 as [H3|H3]; [left; exact H3|right; auto].
  - apply Qltb_ge in E. repeat split; [lra| |left; reflexivity].
    intros dx dy Hr Hi. specialize (Hcov dx dy Hr Hi). lra.
Qed.
Lemma env_hi_spec xj dxq dyq a :
  a <= env_hi xj dxq dyq a /\
  (forall dx dy, In (dx, dy) (combine dxq dyq) -> insideq xj dx = true -> snd dy <= env_hi xj dxq dyq a) /\
  (env_hi xj dxq dyq a = a \/ exists dx dy, In (dx, dy) (combine dxq dyq) /\ insideq xj dx = true /\ env_hi xj dxq dyq a = snd dy).
Proof.
  unfold env_hi. set (l := map (fun r : Q * Q * (Q * Q) => snd (snd r)) (covering xj dxq dyq)).
  destruct (fold_max_spec l a) as (H1 & H2 & H3). set (m := fold_left Qmax2 l a) in *.
  assert (Hin : forall v, In v l -> exists dx dy, In (dx, dy) (combine dxq dyq) /\ insideq xj dx = true /\ v = snd dy).
  { intros v Hv. apply in_map_iff in Hv. destruct Hv as ([dx dy] & <- & Hr). apply filter_In in Hr. destruct Hr as [Hr Hi].
    exists dx, dy. auto. }
  assert (Hcov : forall dx dy, In (dx, dy) (combine dxq dyq) -> insideq xj dx = true -> snd dy <= m).
  { intros dx dy Hr Hi. apply H2. apply in_map_iff. exists (dx, dy). split; [reflexivity|]. apply filter_In. auto. }
  destruct (Qltb a m) eqn:E.
  - repeat split; [exact H1|exact Hcov|]. destruct H3 as [H3|H3]; [left; exact H3|right; auto].
  - apply Qltb_ge in E. repeat split; [lra| |left; reflexivity].
    intros dx dy Hr Hi. specialize (Hcov dx dy Hr Hi). lra.
Qed.

(* aggregate_rectangles on NaN-free input: row j is (env_lo, env_hi) at x_j *)
Theorem aggregate_envelope xq dxq dyq j : length xq = length dyq -> (j < length dyq)%nat ->
  nth j (aggregate_rectangles (map Some xq) (map lift2 dxq) (map lift2 dyq)) (None, None) =
    (Some (env_lo (nth j xq 0) dxq dyq (fst (nth j dyq (0, 0)))), Some (env_hi (nth j xq 0) dxq dyq (snd (nth j dyq (0, 0))))).
Proof.
  intros Hl Hj. rewrite aggregate_nth by (rewrite ?map_length; auto).
  rewrite nth_map_in with (d' := (0, 0)) by exact Hj. cbn [lift2 fst snd].
  rewrite lower_at_some, upper_at_some by lia. reflexivity.
Qed.

(* lower <= upper if every input rectangle is ordered (only row j's own rectangle matters) *)
Theorem aggregate_ordered xq dxq dyq j : length xq = length dyq -> (j < length dyq)%nat ->
  fst (nth j dyq (0, 0)) <= snd (nth j dyq (0, 0)) ->
  env_lo (nth j xq 0) dxq dyq (fst (nth j dyq (0, 0))) <= env_hi (nth j xq 0) dxq dyq (snd (nth j dyq (0, 0))).
Proof.
  intros _ _ H. destruct (env_lo_spec (nth j xq 0) dxq dyq (fst (nth j dyq (0, 0)))) as (L & _).
  destruct (env_hi_spec (nth j xq 0) dxq dyq (snd (nth j dyq (0, 0)))) as (U & _). lra.
Qed.

(* within [lo, hi] if every input y-limit is *)
Theorem aggregate_in_range xq dxq dyq j (lo hi : Q) : length dxq = length dyq -> (j < length dyq)%nat ->
  (forall dy, In dy dyq -> lo <= fst dy /\ snd dy <= hi) ->
  lo <= env_lo (nth j xq 0) dxq dyq (fst (nth j dyq (0, 0))) /\ env_hi (nth j xq 0) dxq dyq (snd (nth j dyq (0, 0))) <= hi.
Proof.
  intros _ Hj H. assert (Hjn := H _ (nth_In dyq (0, 0) Hj)).
  destruct (env_lo_spec (nth j xq 0) dxq dyq (fst (nth j dyq (0, 0)))) as (_ & _ & [->|(dx & dy & Hin & _ & ->)]);
  destruct (env_hi_spec (nth j xq 0) dxq dyq (snd (nth j dyq (0, 0)))) as (_ & _ & [->|(dx' & dy' & Hin' & _ & ->)]);
  repeat match goal with Hc : In (_, ?d) (combine dxq dyq) |- _ => apply in_combine_r in Hc; apply H in Hc end; lra.
Qed.
