(* Proofs/RocCIFacts.v — C16: facts about the model of the ROC confidence bands (Model/RocCI.v). *)
From SA Require Import Model.RocCI Proofs.CmFacts Proofs.RocFacts Proofs.BootCIFacts Proofs.BootMetricFacts.
Open Scope Q_scope.

(* ====================================================================== *)
(* A. rule of three                                                        *)
(* ====================================================================== *)
Section R3.
  Variable pow : Q -> Q -> Q.

  (* the two np.where passes on one row *)
  Definition rule3_row (p : rate) (c : rate * rate) (alpha : Q) (n : Z) : rate * rate :=
    if rgt_q p (inject_Z (n - 1) / inject_Z n) then upper_correction pow alpha n
    else if rlt_q p (1 / inject_Z n) then lower_correction pow alpha n
    else c.

  Lemma rule3_rows p ci alpha n :
    apply_rule_of_three pow p ci alpha n = map (fun pc => rule3_row (fst pc) (snd pc) alpha n) (combine p ci).
  Proof.
    unfold apply_rule_of_three, rule3_row. revert ci. induction p as [|a p IH]; intros [|c ci]; simpl; try reflexivity.
    f_equal. apply IH.
  Qed.
  Lemma rule3_length p ci alpha n : length p = length ci -> length (apply_rule_of_three pow p ci alpha n) = length ci.
  Proof. intro H. rewrite rule3_rows, map_length, combine_length, H. apply Nat.min_id. Qed.
  Lemma rule3_nth p ci alpha n j : length p = length ci -> (j < length ci)%nat ->
    nth j (apply_rule_of_three pow p ci alpha n) (None, None) = rule3_row (nth j p None) (nth j ci (None, None)) alpha n.
  Proof.
    intros Hl Hj. rewrite rule3_rows.
    rewrite nth_map_in with (d' := ((None : rate), ((None : rate), (None : rate)))) by (rewrite combine_length, Hl, Nat.min_id; exact Hj).
    rewrite combine_nth by exact Hl. reflexivity.
  Qed.

  (* an interval is substituted exactly when the observed count is 0 (resp. all of the population), provided the
     rate was computed over the population n that is handed to the function *)
  Lemma div_lt_iff a b n : 0 < n -> (a / n < b / n <-> a < b).
  Proof. intro Hn. unfold Qdiv. apply Qmult_lt_r. now apply Qinv_lt_0_compat. Qed.

  Lemma rule3_count_iff (c n : Z) v : (0 < n)%Z -> (0 <= c <= n)%Z -> v == inject_Z c / inject_Z n ->
    (rlt_q (Some v) (1 / inject_Z n) = true <-> c = 0%Z) /\
    (rgt_q (Some v) (inject_Z (n - 1) / inject_Z n) = true <-> c = n).
  Proof.
    intros Hn Hc Hv. assert (Hq : 0 < inject_Z n) by (change 0 with (inject_Z 0); rewrite <- Zlt_Qlt; exact Hn).
    unfold rlt_q, rgt_q. rewrite !Qltb_lt, Hv, !div_lt_iff by exact Hq.
    change 1 with (inject_Z 1). rewrite <- !Zlt_Qlt. lia.
  Qed.

  Lemma rule3_row_count (c n : Z) v ci alpha : (0 < n)%Z -> (0 <= c <= n)%Z -> v == inject_Z c / inject_Z n ->
    rule3_row (Some v) ci alpha n =
      if (c =? n)%Z then upper_correction pow alpha n else if (c =? 0)%Z then lower_correction pow alpha n else ci.
  Proof.
    intros Hn Hc Hv. destruct (rule3_count_iff c n v Hn Hc Hv) as [L U]. unfold rule3_row.
    destruct (rgt_q (Some v) (inject_Z (n - 1) / inject_Z n)) eqn:Eu.
    - assert (c = n) by (apply U; reflexivity). subst. now rewrite Z.eqb_refl.
    - assert (c <> n) by (intro X; apply U in X; congruence). apply Z.eqb_neq in H. rewrite H.
      destruct (rlt_q (Some v) (1 / inject_Z n)) eqn:El.
      + assert (c = 0%Z) by (apply L; reflexivity). subst. reflexivity.
      + assert (c <> 0%Z) by (intro X; apply L in X; congruence). apply Z.eqb_neq in H0. now rewrite H0.
  Qed.
End R3.

(* the rates of a Scores object are counts over nb_all_pos / nb_all_neg: the populations roc_with_ci hands over *)
Lemma s_fnr_count s t : easy_ok s -> (0 < nb_all_pos s)%Z ->
  exists v, s_fnr s t = Some v /\ v == inject_Z (cfn (cm s t)) / inject_Z (nb_all_pos s) /\
            (0 <= cfn (cm s t) <= nb_all_pos s)%Z.
Proof.
  intros [He _] Hn. unfold s_fnr, fnr, to_cm2. cbn [m00 m01].
  assert (D : inject_Z (ctp (cm s t)) + inject_Z (cfn (cm s t)) == inject_Z (nb_all_pos s)).
  { rewrite fnr_den_const. unfold nb_all_pos. now rewrite Z.add_comm. }
  assert (Hq : 0 < inject_Z (nb_all_pos s)) by (change 0 with (inject_Z 0); rewrite <- Zlt_Qlt; exact Hn).
  rewrite rdiv_some by (rewrite D; lra). eexists. split; [reflexivity|]. split; [now rewrite D|].
  destruct (cm_margins s t) as [M _]. rewrite cm_counts in *. cbn [ctp cfn] in *.
  pose proof (count_nonneg (fun x => dec (score_class s) (equal_class s) x t) (pos s)).
  pose proof (count_nonneg (fun x => ndec (score_class s) (equal_class s) x t) (pos s)).
  unfold nb_all_pos. lia.
Qed.
Lemma s_fpr_count s t : easy_ok s -> (0 < nb_all_neg s)%Z ->
  exists v, s_fpr s t = Some v /\ v == inject_Z (cfp (cm s t)) / inject_Z (nb_all_neg s) /\
            (0 <= cfp (cm s t) <= nb_all_neg s)%Z.
Proof.
  intros [_ He] Hn. unfold s_fpr, fpr, to_cm2. cbn [m10 m11].
  assert (D : inject_Z (cfp (cm s t)) + inject_Z (ctn (cm s t)) == inject_Z (nb_all_neg s)).
  { rewrite fpr_den_const. unfold nb_all_neg. now rewrite Z.add_comm. }
  assert (Hq : 0 < inject_Z (nb_all_neg s)) by (change 0 with (inject_Z 0); rewrite <- Zlt_Qlt; exact Hn).
  rewrite rdiv_some by (rewrite D; lra). eexists. split; [reflexivity|]. split; [now rewrite D|].
  destruct (cm_margins s t) as [_ M]. rewrite cm_counts in *. cbn [cfp ctn] in *.
  pose proof (count_nonneg (fun x => dec (score_class s) (equal_class s) x t) (neg s)).
  pose proof (count_nonneg (fun x => ndec (score_class s) (equal_class s) x t) (neg s)).
  unfold nb_all_neg. lia.
Qed.

(* rule_of_three_iff for the two call sites: substituted <=> no error / only errors among ALL positives (negatives) *)
Theorem rule3_fnr_iff pow s t ci alpha : easy_ok s -> (0 < nb_all_pos s)%Z ->
  rule3_row pow (s_fnr s t) ci alpha (nb_all_pos s) =
    if (cfn (cm s t) =? nb_all_pos s)%Z then upper_correction pow alpha (nb_all_pos s)
    else if (cfn (cm s t) =? 0)%Z then lower_correction pow alpha (nb_all_pos s) else ci.
Proof.
  intros He Hn. destruct (s_fnr_count s t He Hn) as (v & -> & Hv & Hc). now apply rule3_row_count.
Qed.
Theorem rule3_fpr_iff pow s t ci alpha : easy_ok s -> (0 < nb_all_neg s)%Z ->
  rule3_row pow (s_fpr s t) ci alpha (nb_all_neg s) =
    if (cfp (cm s t) =? nb_all_neg s)%Z then upper_correction pow alpha (nb_all_neg s)
    else if (cfp (cm s t) =? 0)%Z then lower_correction pow alpha (nb_all_neg s) else ci.
Proof.
  intros He Hn. destruct (s_fpr_count s t He Hn) as (v & -> & Hv & Hc). now apply rule3_row_count.
Qed.

(* the defect repaired by 79f7b15, as a statement about the formula: with the number of HARD samples as n, a point
   with one error among 5 hard + 8 easy positives (rate 1/13 < 1/5) is treated like a zero count *)
Lemma rule3_hard_count_mistrigger pow ci alpha :
  rule3_row pow (Some (1 # 13)) ci alpha 5 = lower_correction pow alpha 5 /\
  rule3_row pow (Some (1 # 13)) ci alpha 13 = ci.
Proof. split; reflexivity. Qed.

(* ====================================================================== *)
(* B. the aggregation loop                                                 *)
(* ====================================================================== *)
Lemma upd_length {A} (l : list A) j v : length (upd l j v) = length l.
Proof.
  unfold upd. destruct (j <? length l)%nat eqn:E; [|reflexivity]. apply Nat.ltb_lt in E.
  rewrite app_length, firstn_length. cbn [length]. rewrite skipn_length. lia.
Qed.

Lemma skipn_S_nth {A} (d : A) l k : (k < length l)%nat -> skipn k l = nth k l d :: skipn (S k) l.
Proof.
  revert k. induction l as [|a l IH]; intros k Hk; simpl in Hk; [lia|].
  destruct k; [reflexivity|]. simpl. apply IH. lia.
Qed.

(* a loop that rewrites position j from its current value only = a map over the initial array *)
Lemma upd_fold {A} (d : A) (f : nat -> A -> A) l0 k : (k <= length l0)%nat ->
  fold_left (fun l j => upd l j (f j (nth j l d))) (seq 0 k) l0
  = map (fun j => f j (nth j l0 d)) (seq 0 k) ++ skipn k l0.
Proof.
  induction k as [|k IH]; intro Hk; [reflexivity|].
  rewrite seq_S, fold_left_app, IH by lia. simpl fold_left. simpl plus.
  set (pre := map (fun j => f j (nth j l0 d)) (seq 0 k)).
  assert (Lp : length pre = k) by (unfold pre; now rewrite map_length, seq_length).
  assert (Hn : nth k (pre ++ skipn k l0) d = nth k l0 d).
  { rewrite app_nth2 by lia. rewrite Lp, Nat.sub_diag. rewrite (skipn_S_nth d l0 k) by lia. reflexivity. }
  rewrite Hn. unfold upd.
  assert (Hlt : (k <? length (pre ++ skipn k l0))%nat = true).
  { apply Nat.ltb_lt. rewrite app_length, skipn_length. lia. }
  rewrite Hlt.
  rewrite firstn_app, Lp, Nat.sub_diag, firstn_all2 by lia. simpl firstn. rewrite app_nil_r.
  rewrite skipn_app, Lp. replace (S k - k)%nat with 1%nat by lia.
  rewrite (skipn_all2 pre) by lia. simpl app.
  rewrite (skipn_S_nth d l0 k) by lia. simpl skipn.
  rewrite map_app. simpl map. rewrite <- app_assoc. reflexivity.
Qed.

Lemma fold_pair {A B C} (g1 : A -> C -> A) (g2 : B -> C -> B) js a b :
  fold_left (fun st j => (g1 (fst st) j, g2 (snd st) j)) js (a, b) = (fold_left g1 js a, fold_left g2 js b).
Proof. revert a b. induction js as [|j js IH]; intros a b; simpl; [reflexivity|apply IH]. Qed.

(* what iteration j writes, as a function of the value it finds at position j *)
Definition lower_at (x : list rate) (dxp dyp : list (rate * rate)) (j : nat) (v : rate) : rate :=
  py_min v (np_min (select (map (inside (nth j x None)) dxp) (map fst dyp)) v).
Definition upper_at (x : list rate) (dxp dyp : list (rate * rate)) (j : nat) (v : rate) : rate :=
  py_max v (np_max (select (map (inside (nth j x None)) dxp) (map snd dyp)) v).

Lemma aggregate_as_map x dxp dyp : length x = length dyp ->
  aggregate_rectangles x dxp dyp =
    combine (map (fun j => lower_at x dxp dyp j (nth j (map fst dyp) None)) (seq 0 (length x)))
            (map (fun j => upper_at x dxp dyp j (nth j (map snd dyp) None)) (seq 0 (length x))).
Proof.
  intro Hl. unfold aggregate_rectangles, agg_step. rewrite fold_pair. cbn [fst snd].
  unfold agg_lower_step, agg_upper_step.
  rewrite (upd_fold None (lower_at x dxp dyp)) by (rewrite map_length; lia).
  rewrite (upd_fold None (upper_at x dxp dyp)) by (rewrite map_length; lia).
  rewrite !skipn_all2 by (rewrite map_length; lia). rewrite !app_nil_r. reflexivity.
Qed.

(* output shape (n, 2) *)
Theorem aggregate_length x dxp dyp : length x = length dyp -> length (aggregate_rectangles x dxp dyp) = length dyp.
Proof.
  intro Hl. rewrite aggregate_as_map by exact Hl. rewrite combine_length, !map_length, seq_length, Hl. apply Nat.min_id.
Qed.

Lemma aggregate_nth x dxp dyp j : length x = length dyp -> (j < length dyp)%nat ->
  nth j (aggregate_rectangles x dxp dyp) (None, None) =
    (lower_at x dxp dyp j (fst (nth j dyp (None, None))), upper_at x dxp dyp j (snd (nth j dyp (None, None)))).
Proof.
  intros Hl Hj. rewrite aggregate_as_map by exact Hl.
  rewrite combine_nth by (now rewrite !map_length).
  rewrite !nth_map_in with (d' := 0%nat) by (rewrite seq_length; lia).
  rewrite seq_nth by lia. simpl plus.
  rewrite !nth_map_in with (d' := ((None : rate), (None : rate))) by exact Hj. reflexivity.
Qed.

(* ====================================================================== *)
(* C. the envelope, on NaN-free inputs                                     *)
(* ====================================================================== *)
Definition lift2 (p : Q * Q) : rate * rate := (Some (fst p), Some (snd p)).
Definition insideq (xj : Q) (d : Q * Q) : bool := Qleb (fst d) xj && Qleb xj (snd d).

(* the rectangles (x-limits, y-limits) whose x-interval contains xj *)
Definition covering (xj : Q) (dxq dyq : list (Q * Q)) : list ((Q * Q) * (Q * Q)) :=
  filter (fun r => insideq xj (fst r)) (combine dxq dyq).

Definition env_lo (xj : Q) (dxq dyq : list (Q * Q)) (a : Q) : Q :=
  let m := fold_left Qmin2 (map (fun r => fst (snd r)) (covering xj dxq dyq)) a in if Qltb m a then m else a.
Definition env_hi (xj : Q) (dxq dyq : list (Q * Q)) (a : Q) : Q :=
  let m := fold_left Qmax2 (map (fun r => snd (snd r)) (covering xj dxq dyq)) a in if Qltb a m then m else a.

Lemma select_map {A B C} (f : A -> bool) (g : B -> C) (la : list A) (lb : list B) :
  select (map f la) (map g lb) = map (fun r => g (snd r)) (filter (fun r => f (fst r)) (combine la lb)).
Proof.
  unfold select. revert lb. induction la as [|a la IH]; intros [|b lb]; simpl; try reflexivity.
  destruct (f a); simpl; [f_equal|]; apply IH.
Qed.

Lemma np_min_some l a : np_min (map Some l) (Some a) = Some (fold_left Qmin2 l a).
Proof. unfold np_min. revert a. induction l as [|x l IH]; intro a; simpl; [reflexivity|apply IH]. Qed.
Lemma np_max_some l a : np_max (map Some l) (Some a) = Some (fold_left Qmax2 l a).
Proof. unfold np_max. revert a. induction l as [|x l IH]; intro a; simpl; [reflexivity|apply IH]. Qed.

Lemma select_Some mask (l : list Q) : @select rate mask (@map Q rate (@Some Q) l) = @map Q rate (@Some Q) (select mask l).
Proof.
  unfold select. revert l. induction mask as [|b mask IH]; intros [|x l]; simpl; try reflexivity.
  destruct b; simpl; [f_equal|]; apply IH.
Qed.
Lemma inside_lift xj dxq : map (inside (Some xj)) (map lift2 dxq) = map (insideq xj) dxq.
Proof. rewrite map_map. apply map_ext. reflexivity. Qed.
Lemma fst_lift dyq : map fst (map lift2 dyq) = map Some (map fst dyq).
Proof. rewrite !map_map. reflexivity. Qed.
Lemma snd_lift dyq : map snd (map lift2 dyq) = map Some (map snd dyq).
Proof. rewrite !map_map. reflexivity. Qed.

Lemma lower_at_some xq dxq dyq j a : (j < length xq)%nat ->
  lower_at (map Some xq) (map lift2 dxq) (map lift2 dyq) j (Some a) = Some (env_lo (nth j xq 0) dxq dyq a).
Proof.
  intro Hj. unfold lower_at, env_lo, covering.
  rewrite nth_map_in with (d' := 0) by exact Hj.
  rewrite inside_lift, fst_lift, select_Some, np_min_some.
  rewrite (select_map (insideq (nth j xq 0)) (@fst Q Q) dxq dyq).
  unfold py_min, rltb. destruct (Qltb _ a); reflexivity.
Qed.
Lemma upper_at_some xq dxq dyq j a : (j < length xq)%nat ->
  upper_at (map Some xq) (map lift2 dxq) (map lift2 dyq) j (Some a) = Some (env_hi (nth j xq 0) dxq dyq a).
Proof.
  intro Hj. unfold upper_at, env_hi, covering.
  rewrite nth_map_in with (d' := 0) by exact Hj.
  rewrite inside_lift, snd_lift, select_Some, np_max_some.
  rewrite (select_map (insideq (nth j xq 0)) (@snd Q Q) dxq dyq).
  unfold py_max, rltb. destruct (Qltb a _); reflexivity.
Qed.

(* fold of min / max: a lower / upper bound that is attained *)
Lemma fold_min_spec l a : let m := fold_left Qmin2 l a in
  m <= a /\ (forall x, In x l -> m <= x) /\ (m = a \/ In m l).
Proof.
  revert a. induction l as [|x l IH]; intro a; simpl; [repeat split; [lra|tauto|auto]|].
  destruct (IH (Qmin2 a x)) as (H1 & H2 & H3). destruct (Qmin2_spec a x) as (M1 & M2 & M3).
  repeat split.
  - lra.
  - intros y [<-|Hy]; [lra|auto].
  - destruct H3 as [H3|H3]; [|auto]. destruct M3 as [M3|M3]; [left|right; left]; congruence.
Qed.
Lemma fold_max_spec l a : let m := fold_left Qmax2 l a in
  a <= m /\ (forall x, In x l -> x <= m) /\ (m = a \/ In m l).
Proof.
  revert a. induction l as [|x l IH]; intro a; simpl; [repeat split; [lra|tauto|auto]|].
  destruct (IH (Qmax2 a x)) as (H1 & H2 & H3). destruct (Qmax2_spec a x) as (M1 & M2 & M3).
  repeat split.
  - lra.
  - intros y [<-|Hy]; [lra|auto].
  - destruct H3 as [H3|H3]; [|auto]. destruct M3 as [M3|M3]; [left|right; left]; congruence.
Qed.

(* the envelope: env_lo is the minimum of {lo_i | x_j in [dx_i]} U {lo_j}, env_hi the maximum of the upper ends *)
Lemma env_lo_spec xj dxq dyq a :
  env_lo xj dxq dyq a <= a /\
  (forall dx dy, In (dx, dy) (combine dxq dyq) -> insideq xj dx = true -> env_lo xj dxq dyq a <= fst dy) /\
  (env_lo xj dxq dyq a = a \/ exists dx dy, In (dx, dy) (combine dxq dyq) /\ insideq xj dx = true /\ env_lo xj dxq dyq a = fst dy).
Proof.
  unfold env_lo. set (l := map (fun r : Q * Q * (Q * Q) => fst (snd r)) (covering xj dxq dyq)).
  destruct (fold_min_spec l a) as (H1 & H2 & H3). set (m := fold_left Qmin2 l a) in *.
  assert (Hin : forall v, In v l -> exists dx dy, In (dx, dy) (combine dxq dyq) /\ insideq xj dx = true /\ v = fst dy).
  { intros v Hv. apply in_map_iff in Hv. destruct Hv as ([dx dy] & <- & Hr). apply filter_In in Hr. destruct Hr as [Hr Hi].
    exists dx, dy. auto. }
  assert (Hcov : forall dx dy, In (dx, dy) (combine dxq dyq) -> insideq xj dx = true -> m <= fst dy).
  { intros dx dy Hr Hi. apply H2. apply in_map_iff. exists (dx, dy). split; [reflexivity|]. apply filter_In. auto. }
  destruct (Qltb m a) eqn:E.
  - repeat split; [exact H1|exact Hcov|]. destruct H3 as [H3|H3]; [left; exact H3|right; auto].
  - apply Qltb_ge in E. repeat split; [lra| |left; reflexivity].
    intros dx dy Hr Hi. specialize (Hcov dx dy Hr Hi). lra.
Qed.
Lemma env_hi_spec xj dxq dyq a :
  a <= env_hi xj dxq dyq a /\
  (forall dx dy, In (dx, dy) (combine dxq dyq) -> insideq xj dx = true -> snd dy <= env_hi xj dxq dyq a) /\
  (env_hi xj dxq dyq a = a \/ exists dx dy, In (dx, dy) (combine dxq dyq) /\ insideq xj dx = true /\ env_hi xj dxq dyq a = snd dy).
Proof.
  unfold env_hi. set (l := map (fun r : Q * Q * (Q * Q) => snd (snd r)) (covering xj dxq dyq)).
  destruct (fold_max_spec l a) as (H1 & H2 & H3). set (m := fold_left Qmax2 l a) in *.
  assert (Hin : forall v, In v l -> exists dx dy, In (dx, dy) (combine dxq dyq) /\ insideq xj dx = true /\ v = snd dy).
  { intros v Hv. apply in_map_iff in Hv. destruct Hv as ([dx dy] & <- & Hr). apply filter_In in Hr. destruct Hr as [Hr Hi].
    exists dx, dy. auto. }
  assert (Hcov : forall dx dy, In (dx, dy) (combine dxq dyq) -> insideq xj dx = true -> snd dy <= m).
  { intros dx dy Hr Hi. apply H2. apply in_map_iff. exists (dx, dy). split; [reflexivity|]. apply filter_In. auto. }
  destruct (Qltb a m) eqn:E.
  - repeat split; [exact H1|exact Hcov|]. destruct H3 as [H3|H3]; [left; exact H3|right; auto].
  - apply Qltb_ge in E. repeat split; [lra| |left; reflexivity].
    intros dx dy Hr Hi. specialize (Hcov dx dy Hr Hi). lra.
Qed.

(* aggregate_rectangles on NaN-free input: row j is (env_lo, env_hi) at x_j *)
Theorem aggregate_envelope xq dxq dyq j : length xq = length dyq -> (j < length dyq)%nat ->
  nth j (aggregate_rectangles (map Some xq) (map lift2 dxq) (map lift2 dyq)) (None, None) =
    (Some (env_lo (nth j xq 0) dxq dyq (fst (nth j dyq (0, 0)))), Some (env_hi (nth j xq 0) dxq dyq (snd (nth j dyq (0, 0))))).
Proof.
  intros Hl Hj. rewrite aggregate_nth by (rewrite ?map_length; auto).
  rewrite nth_map_in with (d' := (0, 0)) by exact Hj. cbn [lift2 fst snd].
  rewrite lower_at_some, upper_at_some by lia. reflexivity.
Qed.

(* lower <= upper if every input rectangle is ordered (only row j's own rectangle matters) *)
Theorem aggregate_ordered xq dxq dyq j : length xq = length dyq -> (j < length dyq)%nat ->
  fst (nth j dyq (0, 0)) <= snd (nth j dyq (0, 0)) ->
  env_lo (nth j xq 0) dxq dyq (fst (nth j dyq (0, 0))) <= env_hi (nth j xq 0) dxq dyq (snd (nth j dyq (0, 0))).
Proof.
  intros _ _ H. destruct (env_lo_spec (nth j xq 0) dxq dyq (fst (nth j dyq (0, 0)))) as (L & _).
  destruct (env_hi_spec (nth j xq 0) dxq dyq (snd (nth j dyq (0, 0)))) as (U & _). lra.
Qed.

(* within [lo, hi] if every input y-limit is *)
Theorem aggregate_in_range xq dxq dyq j (lo hi : Q) : length dxq = length dyq -> (j < length dyq)%nat ->
  (forall dy, In dy dyq -> lo <= fst dy /\ snd dy <= hi) ->
  lo <= env_lo (nth j xq 0) dxq dyq (fst (nth j dyq (0, 0))) /\ env_hi (nth j xq 0) dxq dyq (snd (nth j dyq (0, 0))) <= hi.
Proof.
  intros _ Hj H. assert (Hjn := H _ (nth_In dyq (0, 0) Hj)).
  destruct (env_lo_spec (nth j xq 0) dxq dyq (fst (nth j dyq (0, 0)))) as (_ & _ & [->|(dx & dy & Hin & _ & ->)]);
  destruct (env_hi_spec (nth j xq 0) dxq dyq (snd (nth j dyq (0, 0)))) as (_ & _ & [->|(dx' & dy' & Hin' & _ & ->)]);
  repeat match goal with Hc : In (_, ?d) (combine dxq dyq) |- _ => apply in_combine_r in Hc; apply H in Hc end; lra.
Qed.

(* ====================================================================== *)
(* D. identity sampler: the pointwise intervals and the closed form        *)
(* ====================================================================== *)
Lemma to_pairs_spec m : forall data, length data = (2 * m)%nat ->
  length (to_pairs data) = m /\
  forall j, (j < m)%nat -> nth j (to_pairs data) (None, None) = (nth (j * 2 + 0) data None, nth (j * 2 + 1) data None).
Proof.
  induction m as [|m IH]; intros data Hl.
  - destruct data; [|simpl in Hl; lia]. split; [reflexivity|]. intros j Hj. lia.
  - destruct data as [|a [|b r]]; try (simpl in Hl; lia).
    destruct (IH r) as [L N]; [simpl in Hl; lia|]. cbn [to_pairs length]. split; [lia|].
    intros [|j] Hj; [reflexivity|]. cbn [nth]. rewrite N by lia.
    replace (S j * 2 + 0)%nat with (S (S (j * 2 + 0))) by lia. replace (S j * 2 + 1)%nat with (S (S (j * 2 + 1))) by lia.
    reflexivity.
Qed.
Lemma nth_firstn {A} (d : A) l n j : (j < n)%nat -> nth j (firstn n l) d = nth j l d.
Proof.
  revert l j. induction n as [|n IH]; intros l j Hj; [lia|]. destruct l as [|a l]; [destruct j; reflexivity|].
  destruct j; [reflexivity|]. simpl. apply IH. lia.
Qed.
Lemma nth_skipn' {A} (d : A) l n j : nth j (skipn n l) d = nth (n + j) l d.
Proof.
  revert l. induction n as [|n IH]; intro l; [reflexivity|]. destruct l as [|a l]; [destruct j; reflexivity|]. simpl. apply IH.
Qed.
Lemma all_ret_repeat {A} (h : A) n : all_ret (repeat (Ret h) n) = Ret (repeat h n).
Proof. unfold all_ret. induction n as [|n IH]; simpl; [reflexivity|]. rewrite IH. reflexivity. Qed.
Lemma Forall2_nth {A B} (P : A -> B -> Prop) l1 l2 (d1 : A) (d2 : B) j :
  Forall2 P l1 l2 -> (j < length l1)%nat -> P (nth j l1 d1) (nth j l2 d2).
Proof.
  intro H. revert j. induction H as [|a b l1 l2 Hab _ IH]; intros j Hj; simpl in Hj; [lia|].
  destruct j; [exact Hab|]. simpl. apply IH. lia.
Qed.
Lemma Forall2_length' {A B} (P : A -> B -> Prop) l1 l2 : Forall2 P l1 l2 -> length l2 = length l1.
Proof. induction 1; simpl; congruence. Qed.

(* the intervals a (lo, hi) pair list is allowed to be: row j is [q_j, q_j] up to equality of rationals *)
Definition pw_ok (q : nat -> rate) (n : nat) (pw : list (rate * rate)) : Prop :=
  length pw = n /\
  forall j, (j < n)%nat -> exists lo hi c, q j = Some c /\ nth j pw (None, None) = (Some lo, Some hi) /\ lo == c /\ hi == c.

Section Identity.
  Variable succ pred : Q -> Q.
  Variable pow : Q -> Q -> Q.
  Variables Phi PhiInv pow15 : Q -> Q.
  Variable ksone_ppf : Q -> Z -> Q.
  Variable H : Type.
  Variable dynamic_choice : scores -> config scores -> sampling scores.
  Variable builtin_sample : sampling scores -> scores -> config scores -> H -> BootCI.res scores.

  Notation joint_ci := (joint_ci succ pred Phi PhiInv pow15 H dynamic_choice builtin_sample).
  Notation pointwise_intervals := (pointwise_intervals succ pred pow Phi PhiInv pow15 H dynamic_choice builtin_sample).
  Definition identity_sampler (s : scores) (cfg : config scores) (hist : nat -> H) : Prop :=
    forall j, (j < nb_samples cfg)%nat -> bootstrap_sample scores H dynamic_choice builtin_sample s cfg (hist j) j = Ok s.

  Lemma joint_ci_identity s fnr fpr alpha cfg hist hat :
    identity_sampler s cfg hist -> joint_metric succ pred fnr fpr s tt = Ret hat ->
    joint_ci s fnr fpr alpha cfg hist
    = utils_ci Phi PhiInv pow15 [2%nat; length fnr] (repeat hat (nb_samples cfg)) (Some hat) alpha (bootstrap_method cfg).
  Proof.
    intros Hid Hm. unfold RocCI.joint_ci. rewrite bootstrap_ci_m_spec.
    rewrite (bootstrap_metric_identity _ _ _ _ _ dynamic_choice builtin_sample _ s _ cfg hist tt Hid).
    cbn [resolve_metric]. rewrite Hm. unfold ci_routine. rewrite all_ret_repeat. reflexivity.
  Qed.

  Definition proper (s : scores) : Prop := easy_ok s /\ len (pos s) <> 0%Z /\ len (neg s) <> 0%Z.
  Lemma proper_pop s : proper s -> (0 < nb_all_pos s)%Z /\ (0 < nb_all_neg s)%Z.
  Proof.
    intros ([E1 E2] & Hp & Hn). pose proof (len_nonneg (pos s)). pose proof (len_nonneg (neg s)).
    unfold nb_all_pos, nb_all_neg. lia.
  Qed.
  Lemma s_fnr_some s t : proper s -> exists v, s_fnr s t = Some v.
  Proof. intro Hs. destruct (s_fnr_count s t (proj1 Hs) (proj1 (proper_pop s Hs))) as (v & E & _). eauto. Qed.
  Lemma s_fpr_some s t : proper s -> exists v, s_fpr s t = Some v.
  Proof. intro Hs. destruct (s_fpr_count s t (proj1 Hs) (proj2 (proper_pop s Hs))) as (v & E & _). eauto. Qed.

  (* under an identity sampler the bootstrap interval of component j collapses to the point estimate
     q_j = fnr(threshold_at_fpr(fpr_j))  (resp. fpr(threshold_at_fnr(fnr_j))) — not necessarily the observed rate —
     and the pointwise intervals are those [q_j, q_j] with the rule-of-three substitution applied *)
  Theorem pointwise_identity s fnr fpr alpha cfg hist :
    proper s -> identity_sampler s cfg hist -> 0 < alpha -> alpha < 1 -> (0 < nb_samples cfg)%nat ->
    length fpr = length fnr ->
    exists t_fpr t_fnr fnr_pw fpr_pw,
      thresholds_at_fpr succ pred s (map rval fpr) = Ret t_fpr /\
      thresholds_at_fnr succ pred s (map rval fnr) = Ret t_fnr /\
      pw_ok (fun j => s_fnr s (Fin (nth j t_fpr 0))) (length fnr) fnr_pw /\
      pw_ok (fun j => s_fpr s (Fin (nth j t_fnr 0))) (length fnr) fpr_pw /\
      pointwise_intervals s fnr fpr alpha cfg hist
      = Ret (apply_rule_of_three pow fnr fnr_pw alpha (nb_all_pos s), apply_rule_of_three pow fpr fpr_pw alpha (nb_all_neg s)).
  Proof.
    intros Hs Hid A0 A1 Hn Hl. set (n := length fnr).
    destruct Hs as (He & Hp & Hng). assert (Hs : proper s) by exact (conj He (conj Hp Hng)).
    destruct (thresholds_at_fpr_total succ pred s (map rval fpr) Hng) as [t_fpr Et].
    destruct (thresholds_at_fnr_total succ pred s (map rval fnr) Hp) as [t_fnr Et'].
    assert (L1 : length t_fpr = n).
    { apply thresholds_at_fpr_ret, Forall2_length' in Et. rewrite map_length in Et. unfold n. lia. }
    assert (L2 : length t_fnr = n).
    { apply thresholds_at_fnr_ret, Forall2_length' in Et'. rewrite map_length in Et'. exact Et'. }
    set (hat := rates_at s_fnr s t_fpr ++ rates_at s_fpr s t_fnr).
    assert (Hm : joint_metric succ pred fnr fpr s tt = Ret hat).
    { unfold joint_metric. rewrite Et. cbn [rbind]. rewrite Et'. reflexivity. }
    assert (Lh : length hat = (n + n)%nat) by (unfold hat, rates_at; rewrite app_length, !map_length; lia).
    assert (Hfin : forall j, (j < length hat)%nat -> exists c, nth j hat None = Some c).
    { intros j Hj. unfold hat, rates_at. destruct (Nat.lt_ge_cases j (length t_fpr)) as [Lt|Ge].
      - rewrite app_nth1 by (now rewrite map_length). rewrite nth_map_in with (d' := 0) by exact Lt. now apply s_fnr_some.
      - rewrite app_nth2 by (now rewrite map_length). rewrite map_length.
        rewrite nth_map_in with (d' := 0) by lia. now apply s_fpr_some. }
    destruct (identity_collapse Phi PhiInv pow15 [2%nat; n] hat (nb_samples cfg) alpha (bootstrap_method cfg) A0 A1 Hn)
      as (data & Ed & Ld & Hd); [rewrite Lh; simpl; lia|exact Hfin|].
    destruct (to_pairs_spec (n + n) data) as [Lp Np]; [lia|].
    exists t_fpr, t_fnr, (firstn n (to_pairs data)), (skipn n (to_pairs data)).
    split; [exact Et|]. split; [exact Et'|]. split; [|split].
    - split; [rewrite firstn_length; lia|]. intros j Hj.
      destruct (Hfin j ltac:(lia)) as [c Hc]. destruct (Hd j c ltac:(lia) Hc) as (lo & hi & E0 & E1 & Hlo & Hhi).
      exists lo, hi, c. split.
      + rewrite <- Hc. unfold hat, rates_at. rewrite app_nth1 by (rewrite map_length; lia).
        now rewrite nth_map_in with (d' := 0) by lia.
      + rewrite nth_firstn by exact Hj. rewrite Np by lia. rewrite E0, E1. auto.
    - split; [rewrite skipn_length; lia|]. intros j Hj.
      destruct (Hfin (n + j)%nat ltac:(lia)) as [c Hc]. destruct (Hd (n + j)%nat c ltac:(lia) Hc) as (lo & hi & E0 & E1 & Hlo & Hhi).
      exists lo, hi, c. split.
      + rewrite <- Hc. unfold hat, rates_at. rewrite app_nth2 by (rewrite map_length; lia). rewrite map_length, L1.
        replace (n + j - n)%nat with j by lia. now rewrite nth_map_in with (d' := 0) by lia.
      + rewrite nth_skipn'. rewrite Np by lia. rewrite E0, E1. auto.
    - unfold RocCI.pointwise_intervals. rewrite (joint_ci_identity s fnr fpr alpha cfg hist hat Hid Hm). fold n. rewrite Ed. reflexivity.
  Qed.

  Lemma rates_at_length f s l : length (rates_at f s l) = length l.
  Proof. unfold rates_at. apply map_length. Qed.

  (* roc_with_ci under an identity sampler: the bands are the envelopes (aggregate_rectangles) of the pointwise
     rectangles [q_j, q_j] x [q'_j, q'_j] with the rule-of-three substitution *)
  Theorem roc_with_ci_identity s fnr0 fpr0 thr0 nb_points x alpha cfg hist ths :
    proper s -> identity_sampler s cfg hist -> 0 < alpha -> alpha < 1 -> (0 < nb_samples cfg)%nat ->
    find_support_thresholds succ pred s fnr0 fpr0 thr0 nb_points (Some ROC_CI_EXTRA_POINTS) x = Ret ths ->
    let fnr := rates_at s_fnr s ths in
    let fpr := rates_at s_fpr s ths in
    exists t_fpr t_fnr fnr_pw fpr_pw,
      thresholds_at_fpr succ pred s (map rval fpr) = Ret t_fpr /\
      thresholds_at_fnr succ pred s (map rval fnr) = Ret t_fnr /\
      pw_ok (fun j => s_fnr s (Fin (nth j t_fpr 0))) (length ths) fnr_pw /\
      pw_ok (fun j => s_fpr s (Fin (nth j t_fnr 0))) (length ths) fpr_pw /\
      let fnr_ci := apply_rule_of_three pow fnr fnr_pw alpha (nb_all_pos s) in
      let fpr_ci := apply_rule_of_three pow fpr fpr_pw alpha (nb_all_neg s) in
      roc_with_ci succ pred pow Phi PhiInv pow15 H dynamic_choice builtin_sample s fnr0 fpr0 thr0 nb_points x alpha cfg hist
      = Ret (mkROC fnr fpr ths (Some (aggregate_rectangles fpr fpr_ci fnr_ci)) (Some (aggregate_rectangles fnr fnr_ci fpr_ci))).
  Proof.
    intros Hs Hid A0 A1 Hn Hth fnr fpr.
    destruct (pointwise_identity s fnr fpr alpha cfg hist Hs Hid A0 A1 Hn) as (t_fpr & t_fnr & fnr_pw & fpr_pw & E1 & E2 & P1 & P2 & E);
      [unfold fnr, fpr; now rewrite !rates_at_length|].
    exists t_fpr, t_fnr, fnr_pw, fpr_pw. unfold fnr in P1, P2. rewrite rates_at_length in P1, P2.
    repeat (split; [assumption|]). cbv zeta. unfold roc_with_ci. rewrite Hth. cbn [rbind]. fold fnr fpr. rewrite E. reflexivity.
  Qed.

  (* experimental.pointwise_band_ci under an identity sampler: the same intervals, not aggregated *)
  Theorem pointwise_band_identity s fnr0 fpr0 thr0 nb_points alpha cfg hist ths :
    proper s -> identity_sampler s cfg hist -> 0 < alpha -> alpha < 1 -> (0 < nb_samples cfg)%nat ->
    find_support_thresholds succ pred s fnr0 fpr0 thr0 nb_points default_nb_extra_points default_x_axis = Ret ths ->
    let fnr := rates_at s_fnr s ths in
    let fpr := rates_at s_fpr s ths in
    exists t_fpr t_fnr fnr_pw fpr_pw,
      thresholds_at_fpr succ pred s (map rval fpr) = Ret t_fpr /\
      thresholds_at_fnr succ pred s (map rval fnr) = Ret t_fnr /\
      pw_ok (fun j => s_fnr s (Fin (nth j t_fpr 0))) (length ths) fnr_pw /\
      pw_ok (fun j => s_fpr s (Fin (nth j t_fnr 0))) (length ths) fpr_pw /\
      pointwise_band_ci succ pred pow Phi PhiInv pow15 H dynamic_choice builtin_sample s fnr0 fpr0 thr0 nb_points alpha cfg hist
      = Ret (mkROC fnr fpr ths (Some (apply_rule_of_three pow fnr fnr_pw alpha (nb_all_pos s)))
                               (Some (apply_rule_of_three pow fpr fpr_pw alpha (nb_all_neg s)))).
  Proof.
    intros Hs Hid A0 A1 Hn Hth fnr fpr.
    destruct (pointwise_identity s fnr fpr alpha cfg hist Hs Hid A0 A1 Hn) as (t_fpr & t_fnr & fnr_pw & fpr_pw & E1 & E2 & P1 & P2 & E);
      [unfold fnr, fpr; now rewrite !rates_at_length|].
    exists t_fpr, t_fnr, fnr_pw, fpr_pw. unfold fnr in P1, P2. rewrite rates_at_length in P1, P2.
    repeat (split; [assumption|]). unfold pointwise_band_ci. rewrite Hth. cbn [rbind]. fold fnr fpr. rewrite E. reflexivity.
  Qed.
End Identity.

(* ====================================================================== *)
(* E. any sampler: NaN-free, within [0,1], shape                           *)
(* ====================================================================== *)
(* one component of Scores.bootstrap_ci's array result, for all three methods *)
Lemma utils_ci_component Phi PhiInv pow15 yshape rows hs alpha m sh data j :
  0 < alpha -> alpha < 1 -> length hs = prod_shape yshape -> (j < prod_shape yshape)%nat ->
  utils_ci Phi PhiInv pow15 yshape rows (Some hs) alpha m = Ok (sh, data) ->
  length data = (2 * prod_shape yshape)%nat /\
  ci_col Phi PhiInv pow15 m (column rows j) (nth j hs None) alpha = Ok (nth (j * 2 + 0) data None, nth (j * 2 + 1) data None).
Proof.
  intros A0 A1 Hl Hj. unfold utils_ci, bootstrap_ci. destruct m.
  - rewrite bootstrap_ci_quantile_ok by (constructor; [lra|constructor]). intro E. injection E as _ <-.
    split; [rewrite quantile_pairs_length, columns_length; simpl; lia|].
    rewrite quantile_formula by assumption.
    destruct (quantile_pairs_nth (columns rows (prod_shape yshape)) [alpha] j 0) as [E0 E1];
      [now rewrite columns_length|simpl; lia|].
    cbn [length nth] in E0, E1. replace (1 * 2)%nat with 2%nat in E0, E1 by reflexivity.
    rewrite columns_nth in E0, E1 by exact Hj.
    replace (j * 2 + 0)%nat with (j * 2 + (0 * 2 + 0))%nat by lia. replace (j * 2 + 1)%nat with (j * 2 + (0 * 2 + 1))%nat by lia.
    now rewrite E0, E1.
  - intro E. destruct (bootstrap_ci_bcx_component Phi PhiInv pow15 MBc yshape rows hs alpha sh data j ltac:(discriminate) Hl Hj E) as [C L].
    destruct (bootstrap_ci_bcx_ok Phi PhiInv pow15 MBc yshape rows hs alpha sh data ltac:(discriminate) E) as [-> _].
    split; [|exact C]. rewrite L, prod_shape_app. simpl. lia.
  - intro E. destruct (bootstrap_ci_bcx_component Phi PhiInv pow15 MBca yshape rows hs alpha sh data j ltac:(discriminate) Hl Hj E) as [C L].
    destruct (bootstrap_ci_bcx_ok Phi PhiInv pow15 MBca yshape rows hs alpha sh data ltac:(discriminate) E) as [-> _].
    split; [|exact C]. rewrite L, prod_shape_app. simpl. lia.
Qed.

Lemma all_ret_spec {A} (l : list (Threshold.res A)) l' : all_ret l = Ret l' -> l = map Ret l'.
Proof.
  unfold all_ret. intro H. apply map_res_ret in H. induction H as [|a b l l' Hab _ IH]; simpl; congruence.
Qed.

(* a rate of a proper object is a number in [0,1] *)
Lemma s_fnr_unit s t : proper s -> exists v, s_fnr s t = Some v /\ 0 <= v /\ v <= 1.
Proof.
  intro Hs. destruct (proper_pop s Hs) as [Hp _]. destruct (s_fnr_count s t (proj1 Hs) Hp) as (v & E & Hv & Hc).
  exists v. split; [exact E|]. assert (Hq : 0 < inject_Z (nb_all_pos s)) by (change 0 with (inject_Z 0); rewrite <- Zlt_Qlt; exact Hp).
  rewrite Hv. split.
  - apply Qle_shift_div_l; [exact Hq|]. rewrite Qmult_0_l. change 0 with (inject_Z 0). rewrite <- Zle_Qle. lia.
  - apply Qle_shift_div_r; [exact Hq|]. rewrite Qmult_1_l. rewrite <- Zle_Qle. lia.
Qed.
Lemma s_fpr_unit s t : proper s -> exists v, s_fpr s t = Some v /\ 0 <= v /\ v <= 1.
Proof.
  intro Hs. destruct (proper_pop s Hs) as [_ Hp]. destruct (s_fpr_count s t (proj1 Hs) Hp) as (v & E & Hv & Hc).
  exists v. split; [exact E|]. assert (Hq : 0 < inject_Z (nb_all_neg s)) by (change 0 with (inject_Z 0); rewrite <- Zlt_Qlt; exact Hp).
  rewrite Hv. split.
  - apply Qle_shift_div_l; [exact Hq|]. rewrite Qmult_0_l. change 0 with (inject_Z 0). rewrite <- Zle_Qle. lia.
  - apply Qle_shift_div_r; [exact Hq|]. rewrite Qmult_1_l. rewrite <- Zle_Qle. lia.
Qed.

(* an interval list whose rows are numbers within [0,1] *)
Definition unit_rows (n : nat) (ci : list (rate * rate)) : Prop :=
  length ci = n /\ forall j, (j < n)%nat -> exists lo hi, nth j ci (None, None) = (Some lo, Some hi) /\ 0 <= lo /\ lo <= 1 /\ 0 <= hi /\ hi <= 1.
Definition unit_rates (l : list rate) : Prop := forall j, (j < length l)%nat -> exists v, nth j l None = Some v /\ 0 <= v /\ v <= 1.

Section AnySampler.
  Variable succ pred : Q -> Q.
  Variable pow : Q -> Q -> Q.
  Variables Phi PhiInv pow15 : Q -> Q.
  Variable H : Type.
  Variable dynamic_choice : scores -> config scores -> sampling scores.
  Variable builtin_sample : sampling scores -> scores -> config scores -> H -> BootCI.res scores.

  (* every sample the sampler returns has scored positives and negatives (C11's at-least-one rule) *)
  Definition samples_proper (s : scores) (cfg : config scores) (hist : nat -> H) : Prop :=
    forall j smp, (j < nb_samples cfg)%nat ->
      bootstrap_sample scores H dynamic_choice builtin_sample s cfg (hist j) j = Ok smp -> proper smp.

  Lemma joint_metric_value fnr fpr s' v : length fpr = length fnr -> proper s' ->
    joint_metric succ pred fnr fpr s' tt = Ret v -> length v = (2 * (length fnr * 1))%nat /\ unit_rates v.
  Proof.
    intros Hl Hs. unfold joint_metric. intro E.
    apply rbind_ret in E. destruct E as (t_fpr & E1 & E). apply rbind_ret in E. destruct E as (t_fnr & E2 & E).
    injection E as <-.
    apply thresholds_at_fpr_ret, Forall2_length' in E1. apply thresholds_at_fnr_ret, Forall2_length' in E2.
    rewrite map_length in E1, E2. unfold rates_at. split; [rewrite app_length, !map_length; lia|].
    intros j Hj. rewrite app_length, !map_length in Hj.
    destruct (Nat.lt_ge_cases j (length t_fpr)) as [Lt|Ge].
    - rewrite app_nth1 by (now rewrite map_length). rewrite nth_map_in with (d' := 0) by exact Lt. now apply s_fnr_unit.
    - rewrite app_nth2 by (now rewrite map_length). rewrite map_length. rewrite nth_map_in with (d' := 0) by lia. now apply s_fpr_unit.
  Qed.
  Lemma joint_metric_length fnr fpr s' v : length fpr = length fnr ->
    joint_metric succ pred fnr fpr s' tt = Ret v -> length v = (2 * (length fnr * 1))%nat.
  Proof.
    intros Hl. unfold joint_metric. intro E.
    apply rbind_ret in E. destruct E as (t_fpr & E1 & E). apply rbind_ret in E. destruct E as (t_fnr & E2 & E).
    injection E as <-.
    apply thresholds_at_fpr_ret, Forall2_length' in E1. apply thresholds_at_fnr_ret, Forall2_length' in E2.
    rewrite map_length in E1, E2. unfold rates_at. rewrite app_length, !map_length. lia.
  Qed.

  (* the raw bootstrap intervals (before the rule of three) *)
  Lemma joint_ci_unit s fnr fpr alpha cfg hist sh data :
    0 < alpha -> alpha < 1 -> (0 < nb_samples cfg)%nat -> length fpr = length fnr -> samples_proper s cfg hist ->
    joint_ci succ pred Phi PhiInv pow15 H dynamic_choice builtin_sample s fnr fpr alpha cfg hist = Ok (sh, data) ->
    unit_rows (2 * length fnr) (to_pairs data).
  Proof.
    intros A0 A1 Hn Hl Hsp. unfold joint_ci. rewrite bootstrap_ci_m_spec.
    destruct (bootstrap_metric _ _ _ _ _ _ _ _ _ _ _ _ _) as [rows|] eqn:Er; [|discriminate].
    cbn [resolve_metric]. unfold ci_routine.
    destruct (all_ret rows) as [rows'|] eqn:Ea; [|discriminate].
    destruct (joint_metric succ pred fnr fpr s tt) as [h|] eqn:Eh; [|discriminate].
    intro E. apply all_ret_spec in Ea. subst rows.
    destruct (bootstrap_metric_rows _ _ _ _ _ _ _ _ _ _ _ _ _ _ Raise Er) as [Lr Hr].
    rewrite map_length in Lr.
    pose proof (joint_metric_length fnr fpr s h Hl Eh) as Lh.
    assert (Hrow : forall i, (i < length rows')%nat -> length (nth i rows' []) = (2 * (length fnr * 1))%nat /\ unit_rates (nth i rows' [])).
    { intros i Hi. destruct (Hr i ltac:(lia)) as (smp & Es & En). cbn [resolve_metric] in En.
      rewrite nth_map_in with (d' := []) in En by exact Hi.
      apply (joint_metric_value fnr fpr smp); [exact Hl|eapply Hsp; [|exact Es]; lia|now symmetry]. }
    set (n2 := (2 * (length fnr * 1))%nat) in *.
    assert (P : prod_shape [2%nat; length fnr] = n2) by reflexivity.
    destruct (to_pairs_spec n2 data) as [Lp Np].
    { destruct (Nat.eq_0_gt_0_cases n2) as [Z|Pos].
      - destruct (bootstrap_ci_shape Phi PhiInv pow15 [2%nat; length fnr] rows' (Some h) (AScalar alpha) (bootstrap_method cfg) sh data I) as [-> L];
          [destruct (bootstrap_method cfg); [exact I|exact Lh|exact Lh]|exact E|].
        rewrite L, !prod_shape_app. simpl. unfold n2 in Z. lia.
      - destruct (utils_ci_component Phi PhiInv pow15 [2%nat; length fnr] rows' h alpha (bootstrap_method cfg) sh data 0 A0 A1 Lh ltac:(rewrite P; exact Pos) E) as [L _].
        rewrite L, P. reflexivity. }
    split; [unfold n2 in Lp; lia|]. intros j Hj. replace (2 * length fnr)%nat with n2 in Hj by (unfold n2; lia).
    destruct (utils_ci_component Phi PhiInv pow15 [2%nat; length fnr] rows' h alpha (bootstrap_method cfg) sh data j A0 A1 Lh ltac:(rewrite P; exact Hj) E) as [_ C].
    apply ci_col_in_range in C. destruct C as [R0 R1]. rewrite Np by exact Hj.
    (* the column holds numbers in [0,1], at least one *)
    assert (Hcol : forall x, In (Some x) (column rows' j) -> 0 <= x /\ x <= 1).
    { intros x Hx. unfold column in Hx. apply in_map_iff in Hx. destruct Hx as (r & Ex & Hin).
      destruct (In_nth _ _ [] Hin) as (i & Hi & <-). destruct (Hrow i Hi) as [Li Ui].
      destruct (Ui j ltac:(rewrite Li; exact Hj)) as (v & Ev & V0 & V1).
      pose proof (eq_trans (eq_sym Ex) Ev) as X. injection X as ->. auto. }
    assert (Hne : somes (column rows' j) <> []).
    { destruct rows' as [|r0 rows'']; [simpl in Lr; lia|].
      destruct (Hrow 0%nat ltac:(simpl; lia)) as [L0 U0]. destruct (U0 j ltac:(rewrite L0; exact Hj)) as (v & Ev & _).
      cbn [nth] in Ev. unfold column. cbn [map].
      match goal with |- somes (?a :: _) <> [] => destruct a as [w|] eqn:Ew end; [simpl; discriminate|].
      exfalso. pose proof (eq_trans (eq_sym Ew) Ev) as X. discriminate X. }
    destruct (nth (j * 2 + 0) data None) as [lo|]; [|contradiction].
    destruct (nth (j * 2 + 1) data None) as [hi|]; [|contradiction].
    exists lo, hi. split; [reflexivity|].
    destruct R0 as ((a & b & Ia & Ib & La & Lb) & _). destruct R1 as ((a' & b' & Ia' & Ib' & La' & Lb') & _).
    pose proof (Hcol a Ia). pose proof (Hcol b Ib). pose proof (Hcol a' Ia'). pose proof (Hcol b' Ib'). lra.
  Qed.

  Hypothesis pow_unit : forall a e, 0 < a -> a < 1 -> 0 <= pow a e /\ pow a e <= 1.

  Lemma rule3_unit p ci alpha n : 0 < alpha -> alpha < 1 -> length p = length ci -> unit_rows (length ci) ci ->
    unit_rows (length ci) (apply_rule_of_three pow p ci alpha n).
  Proof.
    intros A0 A1 Hl [_ Hu]. split; [now apply rule3_length|]. intros j Hj. rewrite rule3_nth by assumption.
    destruct (pow_unit alpha (1 / inject_Z n) A0 A1) as [P0 P1].
    unfold rule3_row, upper_correction, lower_correction.
    destruct (rgt_q _ _); [eexists _, _; split; [reflexivity|lra]|].
    destruct (rlt_q _ _); [eexists _, _; split; [reflexivity|lra]|]. apply Hu, Hj.
  Qed.

  Lemma unit_rows_firstn n m ci : unit_rows (n + m) ci -> unit_rows n (firstn n ci).
  Proof.
    intros [L U]. split; [rewrite firstn_length; lia|]. intros j Hj. rewrite nth_firstn by exact Hj. apply U. lia.
  Qed.
  Lemma unit_rows_skipn n m ci : unit_rows (n + m) ci -> unit_rows m (skipn n ci).
  Proof.
    intros [L U]. split; [rewrite skipn_length; lia|]. intros j Hj. rewrite nth_skipn'. apply U. lia.
  Qed.

  (* the pointwise intervals handed to the aggregation: NaN-free, within [0,1], one per point *)
  Theorem pointwise_unit s fnr fpr alpha cfg hist fnr_ci fpr_ci :
    0 < alpha -> alpha < 1 -> (0 < nb_samples cfg)%nat -> length fpr = length fnr -> samples_proper s cfg hist ->
    pointwise_intervals succ pred pow Phi PhiInv pow15 H dynamic_choice builtin_sample s fnr fpr alpha cfg hist = Ret (fnr_ci, fpr_ci) ->
    unit_rows (length fnr) fnr_ci /\ unit_rows (length fnr) fpr_ci.
  Proof.
    intros A0 A1 Hn Hl Hsp. unfold pointwise_intervals.
    destruct (joint_ci _ _ _ _ _ _ _ _ _ _ _ _ _ _) as [[sh data]|] eqn:E; [|discriminate].
    intro R. injection R as <- <-.
    pose proof (joint_ci_unit s fnr fpr alpha cfg hist sh data A0 A1 Hn Hl Hsp E) as U.
    replace (2 * length fnr)%nat with (length fnr + length fnr)%nat in U by lia.
    pose proof (unit_rows_firstn _ _ _ U) as U1. pose proof (unit_rows_skipn _ _ _ U) as U2.
    destruct U1 as [L1 U1']. destruct U2 as [L2 U2'].
    split.
    - rewrite <- L1 at 1. apply rule3_unit; [exact A0|exact A1|lia|]. rewrite L1. split; auto.
    - rewrite <- L2 at 1. apply rule3_unit; [exact A0|exact A1|lia|]. rewrite L2. split; auto.
  Qed.

  (* NaN-free rows are liftings of rational rows *)
  Lemma unit_rows_lift n ci : unit_rows n ci ->
    exists cq, ci = map lift2 cq /\ length cq = n /\ forall dy, In dy cq -> 0 <= fst dy /\ fst dy <= 1 /\ 0 <= snd dy /\ snd dy <= 1.
  Proof.
    revert n. induction ci as [|[a b] ci IH]; intros n [L U].
    - exists []. simpl in *. repeat split; auto; destruct H0.
    - destruct n as [|n]; [simpl in L; lia|].
      destruct (IH n) as (cq & -> & Lq & Hq).
      { split; [simpl in L; lia|]. intros j Hj. apply (U (S j)). lia. }
      destruct (U 0%nat ltac:(lia)) as (lo & hi & E & B). simpl in E. injection E as -> ->.
      exists ((lo, hi) :: cq). simpl. split; [reflexivity|]. split; [lia|]. intros dy [<-|Hd]; [simpl; lra|auto].
  Qed.
  Lemma unit_rates_lift l : unit_rates l -> exists lq, l = map Some lq.
  Proof.
    induction l as [|a l IH]; intro U; [exists []; reflexivity|].
    destruct IH as [lq ->]. { intros j Hj. apply (U (S j)). simpl. lia. }
    destruct (U 0%nat ltac:(simpl; lia)) as (v & E & _). simpl in E. subst a. exists (v :: lq). reflexivity.
  Qed.

  (* the aggregation keeps rows NaN-free and within [0,1], and orders every row whose own rectangle is ordered *)
  Lemma aggregate_unit x dxp dyp n : unit_rates x -> length x = n -> unit_rows n dxp -> unit_rows n dyp ->
    unit_rows n (aggregate_rectangles x dxp dyp) /\
    forall j lo hi blo bhi, (j < n)%nat -> nth j dyp (None, None) = (Some lo, Some hi) -> lo <= hi ->
      nth j (aggregate_rectangles x dxp dyp) (None, None) = (Some blo, Some bhi) -> blo <= lo /\ hi <= bhi.
  Proof.
    intros Ux Lx Udx Udy.
    destruct (unit_rates_lift x Ux) as [xq ->]. rewrite map_length in Lx.
    destruct (unit_rows_lift n dxp Udx) as (dxq & -> & Ldx & _).
    destruct (unit_rows_lift n dyp Udy) as (dyq & -> & Ldy & Hdy).
    split.
    - split; [rewrite aggregate_length; rewrite !map_length; lia|]. intros j Hj.
      rewrite aggregate_envelope by lia.
      destruct (aggregate_in_range xq dxq dyq j 0 1 ltac:(lia) ltac:(lia)) as [B0 B1]; [intros dy Hd; destruct (Hdy dy Hd); tauto|].
      destruct (env_lo_spec (nth j xq 0) dxq dyq (fst (nth j dyq (0, 0)))) as (L & _).
      destruct (env_hi_spec (nth j xq 0) dxq dyq (snd (nth j dyq (0, 0)))) as (U & _).
      assert (Hj' : (j < length dyq)%nat) by lia.
      destruct (Hdy (nth j dyq (0, 0)) (nth_In dyq (0, 0) Hj')) as (D0 & D1 & D2 & D3).
      eexists _, _. split; [reflexivity|]. lra.
    - intros j lo hi blo bhi Hj Ej Hle Eb. rewrite aggregate_envelope in Eb by lia.
      rewrite nth_map_in with (d' := (0, 0)) in Ej by lia. unfold lift2 in Ej. injection Ej as <- <-. injection Eb as <- <-.
      destruct (env_lo_spec (nth j xq 0) dxq dyq (fst (nth j dyq (0, 0)))) as (L & _).
      destruct (env_hi_spec (nth j xq 0) dxq dyq (snd (nth j dyq (0, 0)))) as (U & _). auto.
  Qed.

  Lemma rates_unit f s ths : (forall t, exists v, f s (Fin t) = Some v /\ 0 <= v /\ v <= 1) -> unit_rates (rates_at f s ths).
  Proof.
    intros Hf j Hj. unfold rates_at in *. rewrite map_length in Hj. rewrite nth_map_in with (d' := 0) by exact Hj. apply Hf.
  Qed.

  (* roc_with_ci, any sampler whose samples keep both classes scored: the curve's rates are the object's rates at the
     returned thresholds, both bands have one row per point, every limit is a number within [0,1] *)
  Theorem roc_with_ci_wellformed s fnr0 fpr0 thr0 nb_points x alpha cfg hist c :
    proper s -> 0 < alpha -> alpha < 1 -> (0 < nb_samples cfg)%nat -> samples_proper s cfg hist ->
    roc_with_ci succ pred pow Phi PhiInv pow15 H dynamic_choice builtin_sample s fnr0 fpr0 thr0 nb_points x alpha cfg hist = Ret c ->
    find_support_thresholds succ pred s fnr0 fpr0 thr0 nb_points (Some ROC_CI_EXTRA_POINTS) x = Ret (rc_thresholds c) /\
    rc_fnr c = rates_at s_fnr s (rc_thresholds c) /\ rc_fpr c = rates_at s_fpr s (rc_thresholds c) /\
    exists fb pb, rc_fnr_ci c = Some fb /\ rc_fpr_ci c = Some pb /\
      unit_rows (length (rc_thresholds c)) fb /\ unit_rows (length (rc_thresholds c)) pb.
  Proof.
    intros Hs A0 A1 Hn Hsp. unfold roc_with_ci. intro E.
    apply rbind_ret in E. destruct E as (ths & Eth & E). apply rbind_ret in E. destruct E as ([fnr_ci fpr_ci] & Epw & E).
    injection E as <-. cbn [rc_thresholds rc_fnr rc_fpr rc_fnr_ci rc_fpr_ci].
    split; [exact Eth|]. split; [reflexivity|]. split; [reflexivity|].
    eexists _, _. split; [reflexivity|]. split; [reflexivity|].
    apply pointwise_unit in Epw; auto; [|now rewrite !rates_at_length].
    rewrite rates_at_length in Epw. destruct Epw as [U1 U2].
    split.
    - apply aggregate_unit; auto; [apply rates_unit; intro t; now apply s_fpr_unit|apply rates_at_length].
    - apply aggregate_unit; auto; [apply rates_unit; intro t; now apply s_fnr_unit|apply rates_at_length].
  Qed.
  (* experimental.pointwise_band_ci, any sampler obeying the at-least-one rule: rates match thresholds, bands (n,2),
     NaN-free, within [0,1] *)
  Theorem pointwise_band_wellformed s fnr0 fpr0 thr0 nb_points alpha cfg hist c :
    proper s -> 0 < alpha -> alpha < 1 -> (0 < nb_samples cfg)%nat -> samples_proper s cfg hist ->
    pointwise_band_ci succ pred pow Phi PhiInv pow15 H dynamic_choice builtin_sample s fnr0 fpr0 thr0 nb_points alpha cfg hist = Ret c ->
    find_support_thresholds succ pred s fnr0 fpr0 thr0 nb_points default_nb_extra_points default_x_axis = Ret (rc_thresholds c) /\
    rc_fnr c = rates_at s_fnr s (rc_thresholds c) /\ rc_fpr c = rates_at s_fpr s (rc_thresholds c) /\
    exists fb pb, rc_fnr_ci c = Some fb /\ rc_fpr_ci c = Some pb /\
      unit_rows (length (rc_thresholds c)) fb /\ unit_rows (length (rc_thresholds c)) pb.
  Proof.
    intros Hs A0 A1 Hn Hsp. unfold pointwise_band_ci. intro E.
    apply rbind_ret in E. destruct E as (ths & Eth & E). apply rbind_ret in E. destruct E as ([fnr_ci fpr_ci] & Epw & E).
    injection E as <-. cbn [rc_thresholds rc_fnr rc_fpr rc_fnr_ci rc_fpr_ci].
    split; [exact Eth|]. split; [reflexivity|]. split; [reflexivity|].
    eexists _, _. split; [reflexivity|]. split; [reflexivity|].
    apply pointwise_unit in Epw; auto; [|now rewrite !rates_at_length].
    rewrite rates_at_length in Epw. exact Epw.
  Qed.
End AnySampler.

(* ====================================================================== *)
(* F. the experimental band functions: well-formedness                     *)
(* ====================================================================== *)
(* rows that are numbers (no range claim), ordered or not *)
Definition some_rows (n : nat) (ci : list (rate * rate)) : Prop :=
  length ci = n /\ forall j, (j < n)%nat -> exists lo hi, nth j ci (None, None) = (Some lo, Some hi).
Definition ordered_rows (ci : list (rate * rate)) : Prop :=
  forall j lo hi, nth j ci (None, None) = (Some lo, Some hi) -> lo <= hi.

Lemma some_rows_lift n ci : some_rows n ci -> exists cq, ci = map lift2 cq /\ length cq = n.
Proof.
  revert n. induction ci as [|[a b] ci IH]; intros n [L U].
  - exists []. simpl in *. auto.
  - destruct n as [|n]; [simpl in L; lia|].
    destruct (IH n) as (cq & -> & Lq). { split; [simpl in L; lia|]. intros j Hj. apply (U (S j)). lia. }
    destruct (U 0%nat ltac:(lia)) as (lo & hi & E). simpl in E. injection E as -> ->.
    exists ((lo, hi) :: cq). simpl. split; [reflexivity|lia].
Qed.
Lemma all_some_lift (l : list rate) : (forall j, (j < length l)%nat -> exists v, nth j l None = Some v) -> exists lq, l = map Some lq.
Proof.
  induction l as [|a l IH]; intro U; [exists []; reflexivity|].
  destruct IH as [lq ->]. { intros j Hj. apply (U (S j)). simpl. lia. }
  destruct (U 0%nat ltac:(simpl; lia)) as (v & E). simpl in E. subst a. exists (v :: lq). reflexivity.
Qed.

(* aggregation of NaN-free rectangles: NaN-free, one row per point, ordered when the inputs' y-limits are *)
Lemma aggregate_some x dxp dyp n :
  (forall j, (j < length x)%nat -> exists v, nth j x None = Some v) -> length x = n -> some_rows n dxp -> some_rows n dyp ->
  some_rows n (aggregate_rectangles x dxp dyp) /\ (ordered_rows dyp -> ordered_rows (aggregate_rectangles x dxp dyp)).
Proof.
  intros Ux Lx Udx Udy.
  destruct (all_some_lift x Ux) as [xq ->]. rewrite map_length in Lx.
  destruct (some_rows_lift n dxp Udx) as (dxq & -> & Ldx). destruct (some_rows_lift n dyp Udy) as (dyq & -> & Ldy).
  split.
  - split; [rewrite aggregate_length; rewrite !map_length; lia|]. intros j Hj. rewrite aggregate_envelope by lia. eauto.
  - intros Ho j lo hi E.
    destruct (Nat.lt_ge_cases j n) as [Hj|Hj].
    + rewrite aggregate_envelope in E by lia. injection E as <- <-.
      apply aggregate_ordered; [lia|lia|]. apply (Ho j). rewrite nth_map_in with (d' := (0, 0)) by lia. reflexivity.
    + rewrite nth_overflow in E by (rewrite aggregate_length; rewrite !map_length; lia). discriminate.
Qed.

Lemma shift_ci_rows (p : list rate) delta : (forall j, (j < length p)%nat -> exists v, nth j p None = Some v) -> 0 <= delta ->
  some_rows (length p) (shift_ci p delta) /\ ordered_rows (shift_ci p delta).
Proof.
  intros Hp Hd. unfold shift_ci.
  assert (N : forall j, (j < length p)%nat -> exists v, nth j p None = Some v /\
              nth j (map (fun r : rate => (rsub r (Some delta), radd r (Some delta))) p) (None, None) = (Some (v - delta), Some (v + delta))).
  { intros j Hj. destruct (Hp j Hj) as [v Ev]. exists v. split; [exact Ev|].
    rewrite nth_map_in with (d' := (None : rate)) by exact Hj.
    cbv beta. rewrite Ev. reflexivity. }
  split.
  - split; [apply map_length|]. intros j Hj. destruct (N j Hj) as (v & _ & E). eauto.
  - intros j lo hi E. destruct (Nat.lt_ge_cases j (length p)) as [Hj|Hj].
    + destruct (N j Hj) as (v & _ & E'). pose proof (eq_trans (eq_sym E) E') as X. injection X as -> ->. lra.
    + rewrite nth_overflow in E by (rewrite map_length; lia). discriminate.
Qed.

Section Experimental.
  Variable succ pred : Q -> Q.
  Variable ksone_ppf : Q -> Z -> Q.

  (* simultaneous_joint_region_ci: rates at the returned thresholds, bands NaN-free, one row per point, ordered
     (the KS critical values are non-negative); the bands are NOT confined to [0,1] (rate -+ delta) *)
  Theorem sjr_wellformed s fnr0 fpr0 thr0 nb_points alpha c :
    proper s -> (forall q n, 0 <= ksone_ppf q n) ->
    simultaneous_joint_region_ci succ pred ksone_ppf s fnr0 fpr0 thr0 nb_points alpha = Ret c ->
    find_support_thresholds succ pred s fnr0 fpr0 thr0 nb_points default_nb_extra_points default_x_axis = Ret (rc_thresholds c) /\
    rc_fnr c = rates_at s_fnr s (rc_thresholds c) /\ rc_fpr c = rates_at s_fpr s (rc_thresholds c) /\
    exists fb pb, rc_fnr_ci c = Some fb /\ rc_fpr_ci c = Some pb /\
      some_rows (length (rc_thresholds c)) fb /\ some_rows (length (rc_thresholds c)) pb /\ ordered_rows fb /\ ordered_rows pb.
  Proof.
    intros Hs Hk. unfold simultaneous_joint_region_ci. intro E. apply rbind_ret in E. destruct E as (ths & Eth & E).
    injection E as <-. cbn [rc_thresholds rc_fnr rc_fpr rc_fnr_ci rc_fpr_ci].
    split; [exact Eth|]. split; [reflexivity|]. split; [reflexivity|]. eexists _, _. split; [reflexivity|]. split; [reflexivity|].
    assert (F : forall j, (j < length (rates_at s_fnr s ths))%nat -> exists v, nth j (rates_at s_fnr s ths) None = Some v).
    { intros j Hj. unfold rates_at in *. rewrite map_length in Hj. rewrite nth_map_in with (d' := 0) by exact Hj. now apply s_fnr_some. }
    assert (P : forall j, (j < length (rates_at s_fpr s ths))%nat -> exists v, nth j (rates_at s_fpr s ths) None = Some v).
    { intros j Hj. unfold rates_at in *. rewrite map_length in Hj. rewrite nth_map_in with (d' := 0) by exact Hj. now apply s_fpr_some. }
    destruct (shift_ci_rows _ (ksone_ppf (1 - alpha / 2) (nb_all_pos s)) F (Hk _ _)) as [SF OF].
    destruct (shift_ci_rows _ (ksone_ppf (1 - alpha / 2) (nb_all_neg s)) P (Hk _ _)) as [SP OP].
    rewrite rates_at_length in SF, SP.
    destruct (aggregate_some (rates_at s_fpr s ths) _ _ (length ths) P (rates_at_length _ _ _) SP SF) as [A1 A2].
    destruct (aggregate_some (rates_at s_fnr s ths) _ _ (length ths) F (rates_at_length _ _ _) SF SP) as [B1 B2].
    auto 10.
  Qed.
End Experimental.

(* fixed_width_band_ci: rates at the returned thresholds, both bands NaN-free with one row per point.  PARTIAL: that
   lower <= upper is not proved for this method (it rests on the displaced curves staying monotone under np.interp);
   the oracle checks it on the implementation. *)
Lemma interp_length x xp fp : length (interp x xp fp) = length x.
Proof. apply map_length. Qed.
Lemma combine_some_rows (a b : list Q) n : length a = n -> length b = n -> some_rows n (combine (map Some a) (map Some b)).
Proof.
  intros La Lb. split; [rewrite combine_length, !map_length; lia|]. intros j Hj.
  rewrite combine_nth by (rewrite !map_length; lia).
  rewrite !nth_map_in with (d' := 0) by lia. eauto.
Qed.
Theorem fixed_width_shape succ pred sqrtQ (H : Type) dc bs fuel s fnr0 fpr0 thr0 nb_points alpha cfg (hist : nat -> H) c :
  fixed_width_band_ci succ pred sqrtQ H dc bs fuel s fnr0 fpr0 thr0 nb_points alpha cfg hist = Ret c ->
  find_support_thresholds succ pred s fnr0 fpr0 thr0 nb_points default_nb_extra_points default_x_axis = Ret (rc_thresholds c) /\
  rc_fnr c = rates_at s_fnr s (rc_thresholds c) /\ rc_fpr c = rates_at s_fpr s (rc_thresholds c) /\
  exists fb pb, rc_fnr_ci c = Some fb /\ rc_fpr_ci c = Some pb /\
    some_rows (length (rc_thresholds c)) fb /\ some_rows (length (rc_thresholds c)) pb.
Proof.
  unfold fixed_width_band_ci. intro E. apply rbind_ret in E. destruct E as (ths & Eth & E).
  apply rbind_ret in E. destruct E as (ds & _ & E).
  destruct (nanquantile _ _) as [delta|]; [|discriminate].
  destruct (negb _); [discriminate|].
  apply rbind_ret in E. destruct E as ([fp pp] & _ & E). apply rbind_ret in E. destruct E as ([fm pm] & _ & E).
  injection E as <-. cbn [rc_thresholds rc_fnr rc_fpr rc_fnr_ci rc_fpr_ci].
  split; [exact Eth|]. split; [reflexivity|]. split; [reflexivity|]. eexists _, _. split; [reflexivity|]. split; [reflexivity|].
  split; apply combine_some_rows; rewrite interp_length, map_length; apply rates_at_length.
Qed.

(* ====================================================================== *)
(* G. roc_with_ci: the bands are the envelopes of the pointwise rectangles *)
(* ====================================================================== *)
Lemma unit_rows_some n ci : unit_rows n ci -> some_rows n ci.
Proof. intros [L U]. split; [exact L|]. intros j Hj. destruct (U j Hj) as (lo & hi & E & _). eauto. Qed.

Section Envelope.
  Variable succ pred : Q -> Q.
  Variable pow : Q -> Q -> Q.
  Variables Phi PhiInv pow15 : Q -> Q.
  Variable H : Type.
  Variable dynamic_choice : scores -> config scores -> sampling scores.
  Variable builtin_sample : sampling scores -> scores -> config scores -> H -> BootCI.res scores.

  Theorem roc_with_ci_bands s fnr0 fpr0 thr0 nb_points x alpha cfg hist c :
    roc_with_ci succ pred pow Phi PhiInv pow15 H dynamic_choice builtin_sample s fnr0 fpr0 thr0 nb_points x alpha cfg hist = Ret c ->
    exists fnr_ci fpr_ci,
      pointwise_intervals succ pred pow Phi PhiInv pow15 H dynamic_choice builtin_sample s (rc_fnr c) (rc_fpr c) alpha cfg hist
        = Ret (fnr_ci, fpr_ci) /\
      rc_fnr_ci c = Some (aggregate_rectangles (rc_fpr c) fpr_ci fnr_ci) /\
      rc_fpr_ci c = Some (aggregate_rectangles (rc_fnr c) fnr_ci fpr_ci).
  Proof.
    unfold roc_with_ci. intro E. apply rbind_ret in E. destruct E as (ths & Eth & E).
    apply rbind_ret in E. destruct E as ([fnr_ci fpr_ci] & Epw & E). injection E as <-.
    cbn [rc_fnr rc_fpr rc_fnr_ci rc_fpr_ci]. eauto.
  Qed.

  Hypothesis pow_unit : forall a e, 0 < a -> a < 1 -> 0 <= pow a e /\ pow a e <= 1.

  (* lower <= upper for both bands as soon as every pointwise interval is ordered *)
  Theorem roc_with_ci_ordered s fnr0 fpr0 thr0 nb_points x alpha cfg hist c fnr_ci fpr_ci :
    proper s -> 0 < alpha -> alpha < 1 -> (0 < nb_samples cfg)%nat ->
    samples_proper H dynamic_choice builtin_sample s cfg hist ->
    roc_with_ci succ pred pow Phi PhiInv pow15 H dynamic_choice builtin_sample s fnr0 fpr0 thr0 nb_points x alpha cfg hist = Ret c ->
    pointwise_intervals succ pred pow Phi PhiInv pow15 H dynamic_choice builtin_sample s (rc_fnr c) (rc_fpr c) alpha cfg hist
      = Ret (fnr_ci, fpr_ci) ->
    ordered_rows fnr_ci -> ordered_rows fpr_ci ->
    exists fb pb, rc_fnr_ci c = Some fb /\ rc_fpr_ci c = Some pb /\ ordered_rows fb /\ ordered_rows pb.
  Proof.
    intros Hs A0 A1 Hn Hsp E Epw O1 O2.
    destruct (roc_with_ci_bands _ _ _ _ _ _ _ _ _ _ E) as (f' & p' & Epw' & E1 & E2).
    rewrite Epw in Epw'. injection Epw' as <- <-.
    destruct (roc_with_ci_wellformed succ pred pow Phi PhiInv pow15 H dynamic_choice builtin_sample pow_unit
                s fnr0 fpr0 thr0 nb_points x alpha cfg hist c Hs A0 A1 Hn Hsp E) as (_ & F & P & _).
    pose proof Epw as Epw2. apply (pointwise_unit succ pred pow Phi PhiInv pow15 H dynamic_choice builtin_sample pow_unit) in Epw2; auto;
      [|rewrite F, P; now rewrite !rates_at_length].
    destruct Epw2 as [U1 U2]. apply unit_rows_some in U1, U2.
    assert (SF : forall j, (j < length (rc_fnr c))%nat -> exists v, nth j (rc_fnr c) None = Some v).
    { rewrite F. intros j Hj. unfold rates_at in *. rewrite map_length in Hj. rewrite nth_map_in with (d' := 0) by exact Hj. now apply s_fnr_some. }
    assert (SP : forall j, (j < length (rc_fpr c))%nat -> exists v, nth j (rc_fpr c) None = Some v).
    { rewrite P. intros j Hj. unfold rates_at in *. rewrite map_length in Hj. rewrite nth_map_in with (d' := 0) by exact Hj. now apply s_fpr_some. }
    assert (LL : length (rc_fpr c) = length (rc_fnr c)) by (rewrite F, P; now rewrite !rates_at_length).
    destruct (aggregate_some (rc_fpr c) fpr_ci fnr_ci (length (rc_fnr c)) SP LL U2 U1) as [_ A].
    destruct (aggregate_some (rc_fnr c) fnr_ci fpr_ci (length (rc_fnr c)) SF eq_refl U1 U2) as [_ B].
    eexists _, _. split; [exact E1|]. split; [exact E2|]. auto.
  Qed.
End Envelope.

(* ====================================================================== *)
(* H. ordering under the identity sampler (unconditional on norm.cdf/ppf)  *)
(* ====================================================================== *)
Lemma rule3_ordered pow p ci alpha n :
  (forall a e, 0 < a -> a < 1 -> 0 <= pow a e /\ pow a e <= 1) -> 0 < alpha -> alpha < 1 ->
  length p = length ci -> ordered_rows ci -> ordered_rows (apply_rule_of_three pow p ci alpha n).
Proof.
  intros Hp A0 A1 Hl Ho j lo hi E. destruct (Nat.lt_ge_cases j (length ci)) as [Hj|Hj].
  - rewrite rule3_nth in E by assumption. destruct (Hp alpha (1 / inject_Z n) A0 A1) as [P0 P1].
    unfold rule3_row, upper_correction, lower_correction in E.
    destruct (rgt_q _ _); [injection E as <- <-; lra|]. destruct (rlt_q _ _); [injection E as <- <-; lra|]. eapply Ho, E.
  - rewrite nth_overflow in E by (rewrite rule3_length; assumption). discriminate.
Qed.
Lemma pw_ok_ordered q n pw : pw_ok q n pw -> ordered_rows pw.
Proof.
  intros [L U] j lo hi E. destruct (Nat.lt_ge_cases j n) as [Hj|Hj].
  - destruct (U j Hj) as (lo' & hi' & c & _ & E' & Hlo & Hhi). pose proof (eq_trans (eq_sym E) E') as X. injection X as -> ->. lra.
  - rewrite nth_overflow in E by lia. discriminate.
Qed.
Lemma pw_ok_some q n pw : pw_ok q n pw -> some_rows n pw.
Proof. intros [L U]. split; [exact L|]. intros j Hj. destruct (U j Hj) as (lo & hi & c & _ & E & _). eauto. Qed.
Lemma rule3_some pow p ci alpha n : length p = length ci -> some_rows (length ci) ci ->
  some_rows (length ci) (apply_rule_of_three pow p ci alpha n).
Proof.
  intros Hl [_ U]. split; [now apply rule3_length|]. intros j Hj. rewrite rule3_nth by assumption.
  unfold rule3_row, upper_correction, lower_correction. destruct (rgt_q _ _); [eauto|]. destruct (rlt_q _ _); [eauto|]. apply U, Hj.
Qed.

Theorem roc_with_ci_identity_ordered succ pred pow Phi PhiInv pow15 (H : Type) dynamic_choice builtin_sample
    s fnr0 fpr0 thr0 nb_points x alpha cfg (hist : nat -> H) c :
  (forall a e, 0 < a -> a < 1 -> 0 <= pow a e /\ pow a e <= 1) ->
  proper s -> identity_sampler H dynamic_choice builtin_sample s cfg hist -> 0 < alpha -> alpha < 1 -> (0 < nb_samples cfg)%nat ->
  roc_with_ci succ pred pow Phi PhiInv pow15 H dynamic_choice builtin_sample s fnr0 fpr0 thr0 nb_points x alpha cfg hist = Ret c ->
  exists fb pb, rc_fnr_ci c = Some fb /\ rc_fpr_ci c = Some pb /\
    some_rows (length (rc_thresholds c)) fb /\ some_rows (length (rc_thresholds c)) pb /\ ordered_rows fb /\ ordered_rows pb.
Proof.
  intros Hp Hs Hid A0 A1 Hn E.
  assert (Eth : exists ths, find_support_thresholds succ pred s fnr0 fpr0 thr0 nb_points (Some ROC_CI_EXTRA_POINTS) x = Ret ths).
  { unfold roc_with_ci in E. apply rbind_ret in E. destruct E as (ths & Eth & _). eauto. }
  destruct Eth as [ths Eth].
  destruct (roc_with_ci_identity succ pred pow Phi PhiInv pow15 H dynamic_choice builtin_sample s fnr0 fpr0 thr0 nb_points x alpha cfg hist ths
              Hs Hid A0 A1 Hn Eth) as (t_fpr & t_fnr & fnr_pw & fpr_pw & _ & _ & P1 & P2 & E').
  cbv zeta in E'. rewrite E in E'. injection E' as ->. cbn [rc_thresholds rc_fnr_ci rc_fpr_ci].
  set (fnr := rates_at s_fnr s ths). set (fpr := rates_at s_fpr s ths).
  assert (L1 : length fnr = length fnr_pw) by (unfold fnr; rewrite rates_at_length; symmetry; exact (proj1 P1)).
  assert (L2 : length fpr = length fpr_pw) by (unfold fpr; rewrite rates_at_length; symmetry; exact (proj1 P2)).
  pose proof (rule3_ordered pow fnr fnr_pw alpha (nb_all_pos s) Hp A0 A1 L1 (pw_ok_ordered _ _ _ P1)) as O1.
  pose proof (rule3_ordered pow fpr fpr_pw alpha (nb_all_neg s) Hp A0 A1 L2 (pw_ok_ordered _ _ _ P2)) as O2.
  pose proof (pw_ok_some _ _ _ P1) as S1. pose proof (pw_ok_some _ _ _ P2) as S2.
  rewrite <- (proj1 P1) in S1. rewrite <- (proj1 P2) in S2.
  pose proof (rule3_some pow fnr fnr_pw alpha (nb_all_pos s) L1 S1) as R1.
  pose proof (rule3_some pow fpr fpr_pw alpha (nb_all_neg s) L2 S2) as R2.
  rewrite (proj1 P1) in R1. rewrite (proj1 P2) in R2.
  assert (SF : forall j, (j < length fnr)%nat -> exists v, nth j fnr None = Some v).
  { intros j Hj. unfold fnr, rates_at in *. rewrite map_length in Hj. rewrite nth_map_in with (d' := 0) by exact Hj. now apply s_fnr_some. }
  assert (SP : forall j, (j < length fpr)%nat -> exists v, nth j fpr None = Some v).
  { intros j Hj. unfold fpr, rates_at in *. rewrite map_length in Hj. rewrite nth_map_in with (d' := 0) by exact Hj. now apply s_fpr_some. }
  destruct (aggregate_some fpr _ _ (length ths) SP (rates_at_length _ _ _) R2 R1) as [A A'].
  destruct (aggregate_some fnr _ _ (length ths) SF (rates_at_length _ _ _) R1 R2) as [B B'].
  eexists _, _. split; [reflexivity|]. split; [reflexivity|]. auto.
Qed.
