(* Proofs/EerGapFacts.v — C06, FNR side of the crossing: holds whenever the returned threshold and the FNR-side threshold for e
   are not separated by a scored positive (the exact-root case is the special case where they coincide). *)
From SA Require Import Model.Eer Proofs.CmFacts Proofs.SentinelFacts Proofs.ExtremeFacts Proofs.InvIncrFacts Proofs.RoundtripFacts Proofs.EerFacts.
Open Scope Q_scope.

Section SameGap.
  Variable succ pred : Q -> Q.
  Hypothesis Hsucc : forall x, x < succ x.
  Hypothesis Hpred : forall x, pred x < x.
  Variable fuel : nat.

  (* no scored positive is decided differently by the two thresholds *)
  Definition not_separated (s : scores) (t t' : Q) : Prop :=
    forall p, In p (pos s) ->
      dec (score_class s) (equal_class s) p (Fin t) = dec (score_class s) (equal_class s) p (Fin t').

  Lemma count_ext_in {A} (f g : A -> bool) l : (forall x, In x l -> f x = g x) -> count f l = count g l.
  Proof.
    induction l as [|x r IH]; intro H; cbn [count]; [reflexivity|].
    rewrite (H x (or_introl eq_refl)), IH by (intros y Hy; apply H; now right). reflexivity.
  Qed.

  Lemma cfn_not_separated s t t' : not_separated s t t' -> cfn (cm s (Fin t)) = cfn (cm s (Fin t')).
  Proof.
    intro H. rewrite !cm_counts. cbn [cfn]. apply count_ext_in. intros p Hp. unfold ndec. rewrite (H p Hp). reflexivity.
  Qed.

  (* FNR side of the crossing whenever the returned threshold and the FNR-side threshold for e are not separated by a
     scored positive (in particular when they coincide: the exact-root case) *)
  Theorem eer_fnr_side_same_gap s t e : proper s -> ssorted (pos s) -> eer succ pred fuel s = Ret (t, e) ->
    not_separated s t (t_fnr succ pred s e) ->
    within1 (cfn (cm s (Fin t))) (e * inject_Z (len (pos s) + easy_pos s)).
  Proof.
    intros Hpr Hss E Hsep. rewrite (cfn_not_separated s t _ Hsep).
    destruct (eer_range succ pred fuel s t e Hpr E) as (E0 & E1 & _).
    destruct Hpr as (Hw & Hp & Hn & Ep & En). destruct (hard_pos_ratio_range s Hp Ep) as [H0 H1].
    destruct (Qmin2_spec (hard_pos_ratio s) (hard_neg_ratio s)) as (M1 & _ & _).
    unfold t_fnr. destruct (threshold_at_fnr succ pred s e Linear) as [T|] eqn:ET.
    2:{ unfold threshold_at_fnr in ET. destruct (len (pos s) =? 0)%Z eqn:K; [apply Z.eqb_eq in K; lia|discriminate]. }
    cbn [thr_or0].
    pose proof (roundtrip_fnr succ pred Hsucc Hpred s e T Hss ET) as R.
    eapply within1_compat; [|exact R]. unfold hard_target_fnr, Qminimum.
    assert (A : e / hard_pos_ratio s <= 1) by (apply Qle_shift_div_r; lra).
    assert (B : 0 <= e / hard_pos_ratio s) by (apply Qle_shift_div_l; lra).
    assert (C : Qmin2 (e / hard_pos_ratio s) 1 == e / hard_pos_ratio s).
    { unfold Qmin2. destruct (Qleb (e / hard_pos_ratio s) 1) eqn:K; [reflexivity|qb; lra]. }
    destruct (clip01_spec (Qmin2 (e / hard_pos_ratio s) 1)) as (_ & _ & Cm & _).
    rewrite Cm by lra. rewrite C. rewrite <- (pos_ratio_inv s Hp Ep). field. lra.
  Qed.
End SameGap.
