(* Proofs/WindowFacts.v — the orientation test and the integration window of Scores.auc
   (searchsorted cuts, index clamps, slice, flat extension) as functions of the two rate vectors;
   complement / mirror / sign lemmas about them.  No scores here. *)
From SA Require Import Model.Auc Proofs.SentinelFacts Proofs.TrapzFacts.
Open Scope Q_scope.

Definition orient (X Y : list Q) : list Q * list Q :=
  if Qltb (nthZ X (len X - 1)) (nthZ X 0) then (rev X, rev Y) else (X, Y).
Definition wleft (X Y : list Q) (lo : Q) : Z := Z.min (count (fun v => Qltb v lo) X) (len Y - 1).
Definition wright (X : list Q) (up : Q) : Z := Z.max (count (fun v => Qleb v up) X) 1.
Definition window (X Y : list Q) (lo up : Q) : Q :=
  let left := wleft X Y lo in
  let right := wright X up in
  trapz ([nthZ Y left] ++ slice Y left right ++ [nthZ Y (right - 1)]) ([lo] ++ slice X left right ++ [up]).

Lemma auc_window succ pred s lo up xa ya :
  auc succ pred s lo up xa ya =
  let X := map (axis_at xa s) (auc_points succ pred s) in
  let Y := map (axis_at ya s) (auc_points succ pred s) in
  Qabs (window (fst (orient X Y)) (snd (orient X Y)) lo up).
Proof.
  unfold auc, orient, window, wleft, wright. cbv zeta.
  destruct (Qltb _ _); reflexivity.
Qed.

(* ---------- two-list trapezoid facts ---------- *)
Lemma trapz_compl ys : forall xs, length ys = length xs ->
  trapz (map (fun v => 1 - v) ys) xs == (last xs 0 - hd 0 xs) - trapz ys xs.
Proof.
  induction ys as [|y0 [|y1 yr] IH]; intros [|x0 [|x1 xr]] H; simpl in H; try discriminate; try (simpl; lra).
  change (map (fun v => 1 - v) (y0 :: y1 :: yr)) with ((1 - y0) :: map (fun v => 1 - v) (y1 :: yr)).
  change (map (fun v => 1 - v) (y1 :: yr)) with ((1 - y1) :: map (fun v => 1 - v) yr) at 1.
  rewrite !trapz_cons2.
  change ((1 - y1) :: map (fun v => 1 - v) yr) with (map (fun v => 1 - v) (y1 :: yr)).
  rewrite (IH (x1 :: xr)) by (simpl; lia).
  change (last (x0 :: x1 :: xr) 0) with (last (x1 :: xr) 0). simpl hd. lra.
Qed.

Lemma trapz_negx ys : forall xs,
  trapz ys (map (fun v => 1 - v) xs) == - trapz ys xs.
Proof.
  induction ys as [|y0 [|y1 yr] IH]; intros [|x0 [|x1 xr]]; try (simpl; lra).
  change (map (fun v => 1 - v) (x0 :: x1 :: xr)) with ((1 - x0) :: map (fun v => 1 - v) (x1 :: xr)).
  change (map (fun v => 1 - v) (x1 :: xr)) with ((1 - x1) :: map (fun v => 1 - v) xr) at 1.
  rewrite !trapz_cons2.
  change ((1 - x1) :: map (fun v => 1 - v) xr) with (map (fun v => 1 - v) (x1 :: xr)).
  rewrite (IH (x1 :: xr)). lra.
Qed.

Lemma trapz_nonneg ys : forall xs, sorted xs -> Forall (fun v => 0 <= v) ys -> 0 <= trapz ys xs.
Proof.
  induction ys as [|y0 [|y1 yr] IH]; intros [|x0 [|x1 xr]] Hs Hy; try (simpl; lra).
  rewrite trapz_cons2.
  inversion Hs as [|? ? Hs' Hall]; subst. inversion Hall as [|? ? Hab _]; subst.
  inversion Hy as [|? ? Hy0 Hy']; subst. inversion Hy' as [|? ? Hy1 _]; subst.
  specialize (IH (x1 :: xr) Hs' Hy'). nra.
Qed.

Lemma trapz_combine ys : forall xs, trapz ys xs = trapzf fst snd (combine xs ys).
Proof.
  induction ys as [|y0 [|y1 yr] IH]; intros [|x0 [|x1 xr]]; try reflexivity.
  change (combine (x0 :: x1 :: xr) (y0 :: y1 :: yr)) with ((x0, y0) :: (x1, y1) :: combine xr yr).
  rewrite trapz_cons2, trapzf_cons2. rewrite (IH (x1 :: xr)). reflexivity.
Qed.
Lemma combine_app' {A B} (l1 : list A) : forall (l2 : list B) l1' l2', length l1 = length l2 ->
  combine (l1 ++ l1') (l2 ++ l2') = combine l1 l2 ++ combine l1' l2'.
Proof.
  induction l1 as [|a r IH]; intros [|b r2] l1' l2' H; simpl in H; try discriminate; [reflexivity|].
  simpl. f_equal. apply IH. lia.
Qed.
Lemma combine_rev' {A B} (l1 : list A) : forall (l2 : list B), length l1 = length l2 ->
  combine (rev l1) (rev l2) = rev (combine l1 l2).
Proof.
  induction l1 as [|a r IH]; intros [|b r2] H; simpl in H; try discriminate; [reflexivity|].
  simpl. rewrite combine_app' by (rewrite !rev_length; lia). rewrite IH by lia. reflexivity.
Qed.
Lemma trapz_rev ys xs : length ys = length xs -> trapz (rev ys) (rev xs) == - trapz ys xs.
Proof.
  intros H. rewrite !trapz_combine, combine_rev' by lia. apply trapzf_rev.
Qed.

Lemma trapz_snoc Y : forall X ya xa y1 x1, length X = length Y ->
  trapz ((ya :: Y) ++ [y1]) ((xa :: X) ++ [x1]) ==
  trapz (ya :: Y) (xa :: X) + (x1 - last (xa :: X) 0) * (last (ya :: Y) 0 + y1) * (1#2).
Proof.
  induction Y as [|yb Y IH]; intros [|xb X] ya xa y1 x1 H; simpl in H; try discriminate.
  - simpl. lra.
  - change ((ya :: yb :: Y) ++ [y1]) with (ya :: (yb :: Y) ++ [y1]).
    change ((xa :: xb :: X) ++ [x1]) with (xa :: (xb :: X) ++ [x1]).
    change ((yb :: Y) ++ [y1]) with (yb :: (Y ++ [y1])) at 1.
    change ((xb :: X) ++ [x1]) with (xb :: (X ++ [x1])) at 1.
    rewrite !trapz_cons2.
    change (yb :: Y ++ [y1]) with ((yb :: Y) ++ [y1]). change (xb :: X ++ [x1]) with ((xb :: X) ++ [x1]).
    rewrite IH by lia.
    change (last (xa :: xb :: X) 0) with (last (xb :: X) 0). change (last (ya :: yb :: Y) 0) with (last (yb :: Y) 0). lra.
Qed.
Lemma trapz_ends X Y y0 x0 y1 x1 : length X = length Y -> X <> [] ->
  trapz ([y0] ++ Y ++ [y1]) ([x0] ++ X ++ [x1]) ==
  (hd 0 X - x0) * (y0 + hd 0 Y) * (1#2) + trapz Y X + (x1 - last X 0) * (last Y 0 + y1) * (1#2).
Proof.
  intros H Hne. destruct X as [|xa X]; [congruence|]. destruct Y as [|ya Y]; [discriminate|].
  change ([y0] ++ (ya :: Y) ++ [y1]) with (y0 :: ya :: (Y ++ [y1])).
  change ([x0] ++ (xa :: X) ++ [x1]) with (x0 :: xa :: (X ++ [x1])).
  rewrite trapz_cons2.
  change (ya :: Y ++ [y1]) with ((ya :: Y) ++ [y1]). change (xa :: X ++ [x1]) with ((xa :: X) ++ [x1]).
  rewrite trapz_snoc by (simpl in H; lia). simpl hd. lra.
Qed.

(* ---------- slices ---------- *)
Lemma slice_map (f : Q -> Q) l a b : slice (map f l) a b = map f (slice l a b).
Proof. unfold slice. now rewrite skipn_map, firstn_map. Qed.
Lemma slice_full {A} (l : list A) : slice l 0 (len l) = l.
Proof. unfold slice. rewrite Z.sub_0_r, Z2N_len. simpl skipn. apply firstn_all. Qed.
Lemma slice_length {A} (l : list A) a b :
  length (slice l a b) = Nat.min (Z.to_nat (b - a)) (length l - Z.to_nat a).
Proof. unfold slice. now rewrite firstn_length, skipn_length. Qed.
Lemma slice_alt {A} (l : list A) a b : (0 <= a <= b)%Z ->
  slice l a b = skipn (Z.to_nat a) (firstn (Z.to_nat b) l).
Proof.
  intros H. unfold slice. rewrite firstn_skipn_comm. do 2 f_equal. lia.
Qed.
Lemma slice_rev {A} (l : list A) a b : (0 <= a <= b)%Z -> (b <= len l)%Z ->
  slice (rev l) (len l - b) (len l - a) = rev (slice l a b).
Proof.
  intros H Hb. rewrite (slice_alt l a b H). unfold slice, len in *.
  rewrite skipn_rev. replace (length l - Z.to_nat (Z.of_nat (length l) - b))%nat with (Z.to_nat b) by lia.
  rewrite firstn_rev. do 2 f_equal. rewrite firstn_length. lia.
Qed.
Lemma firstn1_skipn (l : list Q) : forall i, (i < length l)%nat -> firstn 1 (skipn i l) = [nth i l 0].
Proof.
  induction l as [|a r IH]; intros i H; simpl in H; [lia|].
  destruct i as [|i]; [reflexivity|]. simpl skipn. simpl nth. apply IH. lia.
Qed.
Lemma slice_single (l : list Q) i : (0 <= i < len l)%Z -> slice l i (i + 1) = [nthZ l i].
Proof.
  intros H. unfold slice, nthZ. replace (Z.to_nat (i + 1 - i)) with 1%nat by lia.
  apply firstn1_skipn. unfold len in H. lia.
Qed.
Lemma slice_incl {A} (l : list A) a b v : In v (slice l a b) -> In v l.
Proof.
  unfold slice. intros H.
  rewrite <- (firstn_skipn (Z.to_nat a) l). apply in_or_app. right.
  rewrite <- (firstn_skipn (Z.to_nat (b - a)) (skipn (Z.to_nat a) l)). apply in_or_app. now left.
Qed.

(* elements kept by the two searchsorted cuts *)
Lemma skipn_count_lt (X : list Q) lo : sorted X ->
  Forall (fun v => lo <= v) (skipn (Z.to_nat (count (fun v => Qltb v lo) X)) X).
Proof.
  unfold sorted. induction X as [|a r IH]; intros Hs; [constructor|].
  inversion Hs as [|? ? Hs' Hall]; subst. simpl count.
  destruct (Qltb a lo) eqn:E; qb.
  - pose proof (count_nonneg (fun v => Qltb v lo) r).
    replace (Z.to_nat (1 + count (fun v => Qltb v lo) r)) with (S (Z.to_nat (count (fun v => Qltb v lo) r))) by lia.
    simpl skipn. now apply IH.
  - rewrite count_none; [|eapply Forall_impl; [|exact Hall]; simpl; intros; qb; lra].
    simpl. constructor; [exact E|]. eapply Forall_impl; [|exact Hall]. simpl. intros. lra.
Qed.
Lemma firstn_count_le (X : list Q) up : sorted X ->
  Forall (fun v => v <= up) (firstn (Z.to_nat (count (fun v => Qleb v up) X)) X).
Proof.
  unfold sorted. induction X as [|a r IH]; intros Hs; [constructor|].
  inversion Hs as [|? ? Hs' Hall]; subst. simpl count.
  destruct (Qleb a up) eqn:E; qb.
  - pose proof (count_nonneg (fun v => Qleb v up) r).
    replace (Z.to_nat (1 + count (fun v => Qleb v up) r)) with (S (Z.to_nat (count (fun v => Qleb v up) r))) by lia.
    simpl firstn. constructor; [exact E|]. now apply IH.
  - rewrite count_none; [|eapply Forall_impl; [|exact Hall]; simpl; intros; qb; lra].
    simpl. constructor.
Qed.
Lemma sorted_firstn (X : list Q) k : sorted X -> sorted (firstn k X).
Proof. intros H. rewrite <- (firstn_skipn k X) in H. now apply sorted_app in H. Qed.
Lemma sorted_skipn (X : list Q) k : sorted X -> sorted (skipn k X).
Proof. intros H. rewrite <- (firstn_skipn k X) in H. now apply sorted_app in H. Qed.
Lemma Forall_skipn {A} (P : A -> Prop) l k : Forall P l -> Forall P (skipn k l).
Proof. intros H. rewrite <- (firstn_skipn k l) in H. now apply Forall_app in H. Qed.
Lemma Forall_firstn {A} (P : A -> Prop) l k : Forall P l -> Forall P (firstn k l).
Proof. intros H. rewrite <- (firstn_skipn k l) in H. now apply Forall_app in H. Qed.

Lemma sorted_ends (l : list Q) lo up : sorted l -> lo <= up ->
  Forall (fun v => lo <= v) l -> Forall (fun v => v <= up) l -> sorted ([lo] ++ l ++ [up]).
Proof.
  unfold sorted. intros Hs Hlu Hlo Hup. simpl. constructor.
  - induction l as [|a r IH]; simpl.
    + constructor; constructor.
    + inversion Hs; subst. inversion Hlo; subst. inversion Hup; subst. constructor; [now apply IH|].
      apply Forall_app. split; [assumption|]. constructor; [assumption|constructor].
  - apply Forall_app. split; [exact Hlo|]. constructor; [exact Hlu|constructor].
Qed.

(* ---------- index range of the cuts ---------- *)
Lemma wleft_range X Y lo : (1 <= len Y)%Z -> (0 <= wleft X Y lo < len Y)%Z.
Proof. intros H. unfold wleft. pose proof (count_nonneg (fun v => Qltb v lo) X). lia. Qed.
Lemma wright_range X up : (1 <= len X)%Z -> (1 <= wright X up <= len X)%Z.
Proof. intros H. unfold wright. pose proof (count_le_len (fun v => Qleb v up) X). lia. Qed.
Lemma wleft_le_wright X Y lo up : lo <= up -> len Y = len X -> (wleft X Y lo <= wright X up)%Z.
Proof.
  intros H HL. unfold wleft, wright.
  assert (count (fun v => Qltb v lo) X <= count (fun v => Qleb v up) X)%Z.
  { apply count_impl. intros v Hv. qb. lra. }
  lia.
Qed.

(* ---------- the window: complement of the ordinate ---------- *)
Lemma window_compl X Y lo up : len Y = len X -> (1 <= len X)%Z ->
  window X (map (fun v => 1 - v) Y) lo up == (up - lo) - window X Y lo up.
Proof.
  intros HL H1. unfold window. cbv zeta.
  assert (EL : wleft X (map (fun v => 1 - v) Y) lo = wleft X Y lo) by (unfold wleft; now rewrite len_map).
  rewrite EL. set (l := wleft X Y lo). set (r := wright X up).
  assert (Hl : (0 <= l < len Y)%Z) by (apply wleft_range; lia).
  assert (Hr : (1 <= r <= len X)%Z) by (apply wright_range; lia).
  rewrite !nthZ_map by lia. rewrite slice_map.
  change ([1 - nthZ Y l] ++ map (fun v => 1 - v) (slice Y l r) ++ [1 - nthZ Y (r - 1)])
    with (map (fun v => 1 - v) [nthZ Y l] ++ map (fun v => 1 - v) (slice Y l r) ++ map (fun v => 1 - v) [nthZ Y (r - 1)]).
  rewrite <- !map_app. rewrite trapz_compl.
  - change ([lo] ++ slice X l r ++ [up]) with (lo :: (slice X l r ++ [up])) at 1 2.
    simpl hd. change (last (lo :: slice X l r ++ [up]) 0) with (last ((lo :: slice X l r) ++ [up]) 0).
    rewrite last_last. reflexivity.
  - rewrite !app_length, !slice_length. unfold len in HL. simpl. lia.
Qed.

(* ---------- the window: sign ---------- *)
Lemma window_nonneg X Y lo up : sorted X -> len Y = len X -> (1 <= len X)%Z ->
  Forall (fun v => 0 <= v) Y -> lo <= up -> 0 <= window X Y lo up.
Proof.
  intros Hs HL H1 HY Hlu. unfold window. cbv zeta.
  set (cl := count (fun v => Qltb v lo) X). set (cr := count (fun v => Qleb v up) X).
  assert (Hcl : (0 <= cl <= len X)%Z) by (split; [apply count_nonneg|apply count_le_len]).
  assert (Hcr : (0 <= cr <= len X)%Z) by (split; [apply count_nonneg|apply count_le_len]).
  assert (Hlr : (cl <= cr)%Z) by (apply count_impl; intros v Hv; qb; lra).
  assert (HYin : forall i, (0 <= i < len Y)%Z -> 0 <= nthZ Y i).
  { intros i Hi. rewrite Forall_forall in HY. apply HY, nthZ_in, Hi. }
  destruct (Z.eq_dec cl (len X)) as [Ecl|Ncl]; [|destruct (Z.eq_dec cr 0) as [Ecr|Ncr]].
  - (* everything is left of the window: one kept vertex, constant ordinate *)
    assert (El : wleft X Y lo = (len X - 1)%Z) by (unfold wleft; fold cl; lia).
    assert (Er : wright X up = (len X - 1 + 1)%Z) by (unfold wright; fold cr; lia).
    rewrite El, Er. rewrite !slice_single by lia.
    replace (len X - 1 + 1 - 1)%Z with (len X - 1)%Z by lia.
    assert (0 <= nthZ Y (len X - 1)) by (apply HYin; lia).
    simpl. nra.
  - (* everything is right of the window *)
    assert (El : wleft X Y lo = 0%Z) by (unfold wleft; fold cl; lia).
    assert (Er : wright X up = (0 + 1)%Z) by (unfold wright; fold cr; lia).
    rewrite El, Er. rewrite !slice_single by lia.
    replace (0 + 1 - 1)%Z with 0%Z by lia.
    assert (0 <= nthZ Y 0) by (apply HYin; lia).
    simpl. nra.
  - (* no clamp is active *)
    assert (El : wleft X Y lo = cl) by (unfold wleft; fold cl; lia).
    assert (Er : wright X up = cr) by (unfold wright; fold cr; lia).
    rewrite El, Er. apply trapz_nonneg.
    + apply sorted_ends; [unfold slice; apply sorted_firstn, sorted_skipn, Hs|exact Hlu| |].
      * unfold slice. apply Forall_firstn. apply skipn_count_lt, Hs.
      * rewrite slice_alt by lia. apply Forall_skipn. apply firstn_count_le, Hs.
    + apply Forall_app. split; [constructor; [apply HYin; lia|constructor]|].
      apply Forall_app. split; [|constructor; [apply HYin; lia|constructor]].
      apply Forall_forall. intros v Hv. rewrite Forall_forall in HY. apply HY. eapply slice_incl, Hv.
Qed.

Lemma window_le X Y lo up : sorted X -> len Y = len X -> (1 <= len X)%Z ->
  Forall (fun v => v <= 1) Y -> lo <= up -> window X Y lo up <= up - lo.
Proof.
  intros Hs HL H1 HY Hlu.
  assert (0 <= window X (map (fun v => 1 - v) Y) lo up).
  { apply window_nonneg; auto; [now rewrite len_map|].
    apply Forall_forall. intros v Hv. apply in_map_iff in Hv. destruct Hv as [w [<- Hw]].
    rewrite Forall_forall in HY. specialize (HY w Hw). simpl in HY. lra. }
  rewrite window_compl in H by assumption. lra.
Qed.

(* ---------- the window: mirror of the abscissa ---------- *)
Lemma count_map_compl_lt X up :
  count (fun v => Qltb v (1 - up)) (map (fun v => 1 - v) X) = (len X - count (fun v => Qleb v up) X)%Z.
Proof.
  rewrite count_map. rewrite <- count_negb. apply count_ext. intros v _.
  rewrite Qltb_negb_leb. f_equal.
  destruct (Qleb (1 - up) (1 - v)) eqn:E1, (Qleb v up) eqn:E2; qb; try reflexivity; lra.
Qed.
Lemma count_map_compl_le X lo :
  count (fun v => Qleb v (1 - lo)) (map (fun v => 1 - v) X) = (len X - count (fun v => Qltb v lo) X)%Z.
Proof.
  rewrite count_map. rewrite <- count_negb. apply count_ext. intros v _.
  rewrite Qleb_negb_ltb. f_equal.
  destruct (Qltb (1 - lo) (1 - v)) eqn:E1, (Qltb v lo) eqn:E2; qb; try reflexivity; lra.
Qed.

Lemma window_mirror X Y lo up : len Y = len X -> (1 <= len X)%Z ->
  window (rev (map (fun v => 1 - v) X)) (rev Y) (1 - up) (1 - lo) == window X Y lo up.
Proof.
  intros HL H1. unfold window. cbv zeta.
  set (l := wleft X Y lo). set (r := wright X up).
  assert (Hl : (0 <= l < len Y)%Z) by (apply wleft_range; lia).
  assert (Hr : (1 <= r <= len X)%Z) by (apply wright_range; lia).
  assert (Hlr : lo <= up \/ up < lo) by (destruct (Qlt_le_dec up lo); auto).
  assert (EL : wleft (rev (map (fun v => 1 - v) X)) (rev Y) (1 - up) = (len X - r)%Z).
  { unfold wleft. rewrite count_rev, count_map_compl_lt, len_rev. unfold r, wright. lia. }
  assert (ER : wright (rev (map (fun v => 1 - v) X)) (1 - lo) = (len X - l)%Z).
  { unfold wright. rewrite count_rev, count_map_compl_le. unfold l, wleft. lia. }
  rewrite EL, ER.
  destruct (Z_le_gt_dec l r) as [Hle|Hgt].
  - assert (EX : slice (rev (map (fun v => 1 - v) X)) (len X - r) (len X - l) = rev (map (fun v => 1 - v) (slice X l r))).
    { rewrite <- slice_map. rewrite <- (len_map (fun v => 1 - v) X). apply slice_rev; rewrite ?len_map; lia. }
    assert (EY : slice (rev Y) (len X - r) (len X - l) = rev (slice Y l r)).
    { rewrite <- HL. apply slice_rev; lia. }
    rewrite EX, EY.
    rewrite !nthZ_rev by lia.
    replace (len Y - 1 - (len X - r))%Z with (r - 1)%Z by lia.
    replace (len Y - 1 - (len X - l - 1))%Z with l by lia.
    set (SX := slice X l r). set (SY := slice Y l r).
    assert (HS : length SY = length SX).
    { unfold SX, SY. rewrite !slice_length. unfold len in HL. lia. }
    transitivity (trapz (rev ([nthZ Y l] ++ SY ++ [nthZ Y (r - 1)])) (rev (map (fun v => 1 - v) ([lo] ++ SX ++ [up])))).
    + rewrite !map_app, !rev_app_distr. simpl rev. rewrite <- !app_assoc. reflexivity.
    + rewrite trapz_rev by (rewrite map_length, !app_length; simpl; lia).
      rewrite trapz_negx. lra.
  - (* empty slices on both sides *)
    assert (E1 : forall (A : Type) (L : list A) a b, (b < a)%Z -> slice L a b = []).
    { intros A L a b Hab. unfold slice. replace (Z.to_nat (b - a)) with 0%nat by lia. reflexivity. }
    rewrite !E1 by lia. rewrite !nthZ_rev by lia.
    replace (len Y - 1 - (len X - r))%Z with (r - 1)%Z by lia.
    replace (len Y - 1 - (len X - l - 1))%Z with l by lia.
    simpl. lra.
Qed.

(* ---------- the window over the full range ---------- *)
Lemma window_full X Y : len Y = len X -> (1 <= len X)%Z ->
  Forall (fun v => 0 <= v /\ v <= 1) X ->
  window X Y 0 1 == hd 0 X * hd 0 Y + trapz Y X + (1 - last X 0) * last Y 0.
Proof.
  intros HL H1 HX. unfold window. cbv zeta.
  assert (El : wleft X Y 0 = 0%Z).
  { unfold wleft. rewrite count_none; [lia|]. eapply Forall_impl; [|exact HX]. simpl. intros v [? ?]. qb. lra. }
  assert (Er : wright X 1 = len X).
  { unfold wright. rewrite count_all; [lia|]. eapply Forall_impl; [|exact HX]. simpl. intros v [? ?]. qb. lra. }
  rewrite El, Er. rewrite slice_full. rewrite <- HL at 1. rewrite slice_full.
  rewrite trapz_ends.
  - rewrite nthZ_0. rewrite <- HL, nthZ_last. lra.
  - unfold len in HL. lia.
  - intro E. rewrite E in H1. unfold len in H1. simpl in H1. lia.
Qed.

(* ---------- orientation ---------- *)
Lemma sorted_const_of_rev (X : list Q) : sorted (rev X) -> nthZ X 0 <= nthZ X (len X - 1) -> sorted X.
Proof.
  intros Hs Hle.
  assert (Hall : forall v, In v X -> v == nthZ X 0).
  { intros v Hv. pose proof (sorted_bounds (rev X) Hs) as Hb. rewrite Forall_forall in Hb.
    assert (Hne : (1 <= len X)%Z). { destruct X; [destruct Hv|]. rewrite len_cons. pose proof (len_nonneg X). lia. }
    specialize (Hb v (proj1 (in_rev X v) Hv)). rewrite len_rev in Hb.
    rewrite !nthZ_rev in Hb by lia.
    replace (len X - 1 - 0)%Z with (len X - 1)%Z in Hb by lia.
    replace (len X - 1 - (len X - 1))%Z with 0%Z in Hb by lia. lra. }
  unfold sorted. clear Hs Hle. revert Hall. generalize (nthZ X 0) as c.
  induction X as [|a r IH]; intros c Hall; constructor.
  - apply (IH c). intros v Hv. apply Hall. now right.
  - apply Forall_forall. intros v Hv. rewrite (Hall a) by now left. rewrite (Hall v) by now right. lra.
Qed.
Lemma orient_sorted X Y : sorted X \/ sorted (rev X) -> sorted (fst (orient X Y)).
Proof.
  intros H. unfold orient. destruct (Qltb _ _) eqn:E; qb; simpl fst.
  - destruct H as [H|H]; [|exact H]. exfalso.
    destruct X as [|a r]; [simpl in E; unfold nthZ in E; simpl in E; lra|].
    pose proof (sorted_bounds _ H) as Hb. rewrite Forall_forall in Hb.
    assert (Hi : In (nthZ (a :: r) 0) (a :: r)) by (apply nthZ_in; rewrite len_cons; pose proof (len_nonneg r); lia).
    specialize (Hb _ Hi). lra.
  - destruct H as [H|H]; [exact H|]. now apply sorted_const_of_rev.
Qed.

(* ---------- the window respects elementwise == ---------- *)
Lemma trapz_F2 ys ys' : Forall2 Qeq ys ys' -> forall xs xs', Forall2 Qeq xs xs' -> trapz ys xs == trapz ys' xs'.
Proof.
  induction 1 as [|y0 y0' yr yr' E0 Hr IH]; intros xs xs' Hx; [reflexivity|].
  destruct Hr as [|y1 y1' yr yr' E1 Hr]; [reflexivity|].
  destruct Hx as [|x0 x0' xr xr' Ex0 Hxr]; [reflexivity|].
  destruct Hxr as [|x1 x1' xr xr' Ex1 Hxr]; [reflexivity|].
  rewrite !trapz_cons2. rewrite (IH (x1 :: xr) (x1' :: xr')) by (constructor; assumption).
  rewrite E0, E1, Ex0, Ex1. reflexivity.
Qed.
Lemma F2_firstn (l l' : list Q) : Forall2 Qeq l l' -> forall k, Forall2 Qeq (firstn k l) (firstn k l').
Proof. induction 1; intros [|k]; simpl; constructor; auto. Qed.
Lemma F2_skipn (l l' : list Q) : Forall2 Qeq l l' -> forall k, Forall2 Qeq (skipn k l) (skipn k l').
Proof. induction 1; intros [|k]; simpl; auto. Qed.
Lemma F2_nth (l l' : list Q) : Forall2 Qeq l l' -> forall k, nth k l 0 == nth k l' 0.
Proof. induction 1; intros [|k]; simpl; auto; reflexivity. Qed.
Lemma F2_len (l l' : list Q) : Forall2 Qeq l l' -> len l = len l'.
Proof. induction 1; [reflexivity|]. rewrite !len_cons. lia. Qed.
Lemma F2_count (f : Q -> bool) (l l' : list Q) :
  (forall a b, a == b -> f a = f b) -> Forall2 Qeq l l' -> count f l = count f l'.
Proof. intros Hf. induction 1 as [|a b r r' E _ IH]; simpl; [reflexivity|]. now rewrite (Hf a b E), IH. Qed.
Lemma F2_slice (l l' : list Q) a b : Forall2 Qeq l l' -> Forall2 Qeq (slice l a b) (slice l' a b).
Proof. intros H. unfold slice. apply F2_firstn, F2_skipn, H. Qed.
Lemma F2_map (f g : Q -> Q) l : (forall t, f t == g t) -> Forall2 Qeq (map f l) (map g l).
Proof. intros H. induction l; simpl; constructor; auto. Qed.
Lemma F2_refl (l : list Q) : Forall2 Qeq l l.
Proof. induction l; constructor; auto. reflexivity. Qed.
Lemma F2_rev (l l' : list Q) : Forall2 Qeq l l' -> Forall2 Qeq (rev l) (rev l').
Proof. induction 1; simpl; [constructor|]. apply Forall2_app; [assumption|]. constructor; [assumption|constructor]. Qed.

Lemma window_F2 X X' Y Y' lo up : Forall2 Qeq X X' -> Forall2 Qeq Y Y' ->
  window X Y lo up == window X' Y' lo up.
Proof.
  intros HX HY. unfold window, wleft, wright. cbv zeta.
  rewrite (F2_count (fun v => Qltb v lo) X X') by
    (try exact HX; intros a b E; destruct (Qltb a lo) eqn:E1, (Qltb b lo) eqn:E2; qb; try reflexivity; lra).
  rewrite (F2_count (fun v => Qleb v up) X X') by
    (try exact HX; intros a b E; destruct (Qleb a up) eqn:E1, (Qleb b up) eqn:E2; qb; try reflexivity; lra).
  rewrite (F2_len Y Y' HY).
  apply trapz_F2.
  - apply Forall2_app; [constructor; [apply F2_nth, HY|constructor]|].
    apply Forall2_app; [apply F2_slice, HY|]. constructor; [apply F2_nth, HY|constructor].
  - apply Forall2_app; [constructor; [reflexivity|constructor]|].
    apply Forall2_app; [apply F2_slice, HX|]. constructor; [reflexivity|constructor].
Qed.
