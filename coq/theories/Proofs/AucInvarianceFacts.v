(* Proofs/AucInvarianceFacts.v *)
(* C08: the full AUC is unchanged by an increasing affine map of the scores and by reversing the score direction
   (negated scores, score_class flipped): both sides equal their Mann-Whitney statistic (C07), which only compares
   scores across the classes. *)
From SA Require Import Model.Auc Model.Symmetry Proofs.TrapzFacts Proofs.AucFacts Proofs.AucStepFacts Proofs.MaterialiseAucFacts.
Open Scope Q_scope.

Lemma pair_sum_map sc sc' (f : Q -> Q) ps ns :
  (forall p n, kpair sc' (f p) (f n) == kpair sc p n) ->
  pair_sum sc' (map f ps) (map f ns) == pair_sum sc ps ns.
Proof.
  intro H. unfold pair_sum. rewrite map_map. apply Qsum_map_ext. intros p _. rewrite map_map.
  apply Qsum_map_ext. intros n _. apply H.
Qed.

Lemma kpair_affine sc a b p n : 0 < a -> kpair sc (a * p + b) (a * n + b) == kpair sc p n.
Proof.
  intro Ha. unfold kpair.
  assert (E1 : Qltb (a * n + b) (a * p + b) = Qltb n p).
  { destruct (Qltb n p) eqn:A; qb; nra. }
  assert (E2 : Qltb (a * p + b) (a * n + b) = Qltb p n).
  { destruct (Qltb p n) eqn:A; qb; nra. }
  destruct sc; rewrite E1, E2; reflexivity.
Qed.

Lemma kpair_negate sc p n : kpair (flip sc) (- p) (- n) == kpair sc p n.
Proof.
  unfold kpair.
  assert (E1 : Qltb (- n) (- p) = Qltb p n) by (destruct (Qltb p n) eqn:A; qb; lra).
  assert (E2 : Qltb (- p) (- n) = Qltb n p) by (destruct (Qltb n p) eqn:A; qb; lra).
  destruct sc; cbn [flip]; rewrite E1, E2; reflexivity.
Qed.

Lemma len_isort' (l : list Q) : len (isort l) = len l.
Proof. unfold len. now rewrite isort_length. Qed.

Lemma mw_affine a b s : 0 < a -> mw (affine_scores a b s) == mw s.
Proof.
  intro Ha. unfold mw, mw_num, Pall, Nall, affine_scores, mk_scores. cbn [pos neg easy_pos easy_neg score_class].
  rewrite !len_isort', !len_map.
  rewrite (pair_sum_perm _ _ (map (fun x => a * x + b) (pos s)) _ (map (fun x => a * x + b) (neg s)))
    by (apply Permutation_sym, isort_perm).
  rewrite (pair_sum_map (score_class s) (score_class s) (fun x => a * x + b)) by (intros; now apply kpair_affine).
  reflexivity.
Qed.

Lemma mw_negate s : mw (neg_scores s) == mw s.
Proof.
  unfold mw, mw_num, Pall, Nall, neg_scores, mk_scores. cbn [pos neg easy_pos easy_neg score_class].
  rewrite !len_isort', !len_map.
  rewrite (pair_sum_perm _ _ (map Qopp (pos s)) _ (map Qopp (neg s))) by (apply Permutation_sym, isort_perm).
  rewrite (pair_sum_map (score_class s) (flip (score_class s)) Qopp) by (intros; apply kpair_negate).
  reflexivity.
Qed.

Section Inv.
  Variable isD : Q -> Prop.
  Variable succ pred : Q -> Q.
  Hypothesis HC : carrier isD succ pred.

  Lemma isort_ne' l : l <> [] -> isort l <> [].
  Proof. intros H E. apply H. destruct l; [reflexivity|]. pose proof (isort_length (q :: l)) as L. rewrite E in L. discriminate L. Qed.
  Lemma Forall_isort (P : Q -> Prop) l : Forall P l -> Forall P (isort l).
  Proof. intro H. apply (Permutation_Forall (isort_perm l)). exact H. Qed.

  Theorem full_auc_affine a b s : 0 < a ->
    pos s <> [] -> neg s <> [] -> (0 <= easy_pos s)%Z -> (0 <= easy_neg s)%Z ->
    Forall isD (pos s ++ neg s) -> Forall isD (map (fun x => a * x + b) (pos s ++ neg s)) ->
    auc succ pred (affine_scores a b s) 0 1 AFpr ATpr == auc succ pred s 0 1 AFpr ATpr.
  Proof.
    intros Ha Hp Hn Hep Hen HD HD'.
    rewrite (stmt_full_auc_mw isD succ pred HC s Hp Hn Hep Hen HD).
    rewrite <- (mw_affine a b s Ha).
    apply (stmt_full_auc_mw isD succ pred HC); unfold affine_scores, mk_scores; cbn [pos neg easy_pos easy_neg]; try assumption.
    - apply isort_ne'. intro E. apply map_eq_nil in E. contradiction.
    - apply isort_ne'. intro E. apply map_eq_nil in E. contradiction.
    - rewrite map_app in HD'. apply Forall_app in HD'. destruct HD' as [A B].
      apply Forall_app. split; apply Forall_isort; assumption.
  Qed.

  Theorem full_auc_negate s :
    pos s <> [] -> neg s <> [] -> (0 <= easy_pos s)%Z -> (0 <= easy_neg s)%Z ->
    Forall isD (pos s ++ neg s) -> Forall isD (map Qopp (pos s ++ neg s)) ->
    auc succ pred (neg_scores s) 0 1 AFpr ATpr == auc succ pred s 0 1 AFpr ATpr.
  Proof.
    intros Hp Hn Hep Hen HD HD'.
    rewrite (stmt_full_auc_mw isD succ pred HC s Hp Hn Hep Hen HD).
    rewrite <- (mw_negate s).
    apply (stmt_full_auc_mw isD succ pred HC); unfold neg_scores, mk_scores; cbn [pos neg easy_pos easy_neg]; try assumption.
    - apply isort_ne'. intro E. apply map_eq_nil in E. contradiction.
    - apply isort_ne'. intro E. apply map_eq_nil in E. contradiction.
    - rewrite map_app in HD'. apply Forall_app in HD'. destruct HD' as [A B].
      apply Forall_app. split; apply Forall_isort; assumption.
  Qed.
End Inv.
