(* Proofs/EerFacts.v — C06: range of the EER, the zero-EER clause, the FPR side of the crossing. *)
From SA Require Import Model.Eer Proofs.CmFacts Proofs.SentinelFacts Proofs.ExtremeFacts Proofs.InvIncrFacts Proofs.RoundtripFacts.
Open Scope Q_scope.

(* ---------- the bisection stays inside its interval ---------- *)
Lemma find_root_loop_range fuel f xa xe ff xtol : xa <= xe ->
  xa <= find_root_loop fuel f xa xe ff xtol /\ find_root_loop fuel f xa xe ff xtol <= xe.
Proof.
  revert xa xe. induction fuel as [|k IH]; intros xa xe H; cbn [find_root_loop].
  - unfold norm; rewrite Qred_correct. split; [apply Qle_shift_div_l|apply Qle_shift_div_r]; lra.
  - destruct (Qltb (Qabs (xa - xe)) xtol).
    + unfold norm; rewrite Qred_correct. split; [apply Qle_shift_div_l|apply Qle_shift_div_r]; lra.
    + cbv zeta. set (xm := norm ((xa + xe) / 2)).
      assert (Em : xm == (xa + xe) / 2) by apply Qred_correct.
      assert (A : xa <= xm) by (rewrite Em; apply Qle_shift_div_l; lra).
      assert (B : xm <= xe) by (rewrite Em; apply Qle_shift_div_r; lra).
      destruct (Qltb (f xm) 0); [destruct (IH xm xe B); split; lra|].
      destruct (Qltb 0 (f xm)); [destruct (IH xa xm A); split; lra|].
      destruct ff; [destruct (IH xa xm A)|destruct (IH xm xe B)]; split; lra.
Qed.
Lemma find_root_loop_pos fuel f xa xe ff xtol : 0 <= xa -> xa <= xe -> 0 < xe ->
  0 < find_root_loop fuel f xa xe ff xtol.
Proof.
  revert xa xe. induction fuel as [|k IH]; intros xa xe H0 H Hp; cbn [find_root_loop].
  - unfold norm; rewrite Qred_correct. apply Qlt_shift_div_l; lra.
  - destruct (Qltb (Qabs (xa - xe)) xtol).
    + unfold norm; rewrite Qred_correct. apply Qlt_shift_div_l; lra.
    + cbv zeta. set (xm := norm ((xa + xe) / 2)).
      assert (Em : xm == (xa + xe) / 2) by apply Qred_correct.
      assert (A : xa <= xm) by (rewrite Em; apply Qle_shift_div_l; lra).
      assert (B : xm <= xe) by (rewrite Em; apply Qle_shift_div_r; lra).
      assert (P : 0 < xm) by (rewrite Em; apply Qlt_shift_div_l; lra).
      destruct (Qltb (f xm) 0); [apply IH; lra|].
      destruct (Qltb 0 (f xm)); [apply IH; lra|].
      destruct ff; apply IH; lra.
Qed.
Lemma find_root_range fuel f xa xe ff xtol r : xa <= xe -> find_root fuel f xa xe ff xtol = Ret r -> xa <= r /\ r <= xe.
Proof.
  unfold find_root. intros H. destruct (negb _); [discriminate|]. intro E. injection E as E. subst r.
  now apply find_root_loop_range.
Qed.
Lemma find_root_pos fuel f xe ff xtol r : 0 < xe -> find_root fuel f 0 xe ff xtol = Ret r -> 0 < r.
Proof.
  unfold find_root. intros H. destruct (negb _); [discriminate|]. intro E. injection E as E. subst r.
  apply find_root_loop_pos; lra.
Qed.

Lemma neg_ratio_inv s : (1 <= len (neg s))%Z -> (0 <= easy_neg s)%Z ->
  inject_Z (len (neg s)) / hard_neg_ratio s == inject_Z (len (neg s) + easy_neg s).
Proof.
  intros Hn He. unfold hard_neg_ratio. destruct (0 <? easy_neg s)%Z eqn:E.
  - apply Z.ltb_lt in E. rewrite inject_Z_plus.
    assert (1 <= inject_Z (len (neg s))) by (change 1 with (inject_Z 1); rewrite <- Zle_Qle; lia).
    assert (0 < inject_Z (easy_neg s)) by (change 0 with (inject_Z 0); rewrite <- Zlt_Qlt; lia).
    field. split; lra.
  - apply Z.ltb_ge in E. assert (easy_neg s = 0)%Z by lia. rewrite H, Z.add_0_r. field.
Qed.

Section EerFacts.
  Variable succ pred : Q -> Q.
  Hypothesis Hsucc : forall x, x < succ x.
  Hypothesis Hpred : forall x, pred x < x.
  Variable fuel : nat.
  Notation eer := (eer succ pred fuel).

  Definition proper (s : scores) : Prop :=
    wf s /\ (1 <= len (pos s))%Z /\ (1 <= len (neg s))%Z /\ (0 <= easy_pos s)%Z /\ (0 <= easy_neg s)%Z.

  Lemma max_eer_pos s : proper s -> 0 < Qmin2 (hard_pos_ratio s) (hard_neg_ratio s).
  Proof.
    intros (_ & Hp & Hn & Ep & En). destruct (hard_pos_ratio_range s Hp Ep), (hard_neg_ratio_range s Hn En).
    destruct (Qmin2_spec (hard_pos_ratio s) (hard_neg_ratio s)) as (_ & _ & [E|E]); rewrite E; assumption.
  Qed.

  (* which exit produced the result *)
  Inductive eer_exit (s : scores) (t e : Q) : Prop :=
  | ExitSepPos : score_class s = Pos -> nthZ (neg s) (len (neg s) - 1) < nthZ (pos s) 0 ->
      t = norm ((nthZ (pos s) 0 + nthZ (neg s) (len (neg s) - 1)) / 2) -> e = 0 -> eer_exit s t e
  | ExitSepNeg : score_class s = Neg -> nthZ (pos s) (len (pos s) - 1) < nthZ (neg s) 0 ->
      t = norm ((nthZ (pos s) (len (pos s) - 1) + nthZ (neg s) 0) / 2) -> e = 0 -> eer_exit s t e
  | ExitEdge : (e = Qmin2 (hard_pos_ratio s) (hard_neg_ratio s) \/
                (e = hard_pos_ratio s /\ hard_pos_ratio s < hard_neg_ratio s) \/
                (e = hard_neg_ratio s /\ hard_neg_ratio s <= hard_pos_ratio s)) -> eer_exit s t e
  | ExitBisect : forall lft rgt, 0 < lft -> 0 < rgt ->
      lft <= Qmin2 (hard_pos_ratio s) (hard_neg_ratio s) -> rgt <= Qmin2 (hard_pos_ratio s) (hard_neg_ratio s) ->
      e = norm ((lft + rgt) / 2) -> t = t_fpr succ pred s e -> eer_exit s t e.

  Lemma eer_exits s t e : proper s -> eer s = Ret (t, e) -> eer_exit s t e.
  Proof.
    intros Hpr. pose proof (max_eer_pos s Hpr) as Hmax. unfold Eer.eer.
    destruct ((len (pos s) =? 0) || (len (neg s) =? 0))%Z; [discriminate|]. cbv zeta.
    destruct (Qltb (nthZ (neg s) (len (neg s) - 1)) (nthZ (pos s) 0) && label_eqb (score_class s) Pos) eqn:S1.
    { intro E. injection E as E1 E2. apply andb_prop in S1. destruct S1 as [A B]. qb.
      apply ExitSepPos; auto. destruct (score_class s); [reflexivity|discriminate]. }
    destruct (Qltb (nthZ (pos s) (len (pos s) - 1)) (nthZ (neg s) 0) && label_eqb (score_class s) Neg) eqn:S2.
    { intro E. injection E as E1 E2. apply andb_prop in S2. destruct S2 as [A B]. qb.
      apply ExitSepNeg; auto. destruct (score_class s); [discriminate|reflexivity]. }
    match goal with |- context [if Qltb ?v 0 then _ else _] => destruct (Qltb v 0) end.
    { destruct (isclose (hard_pos_ratio s) (hard_neg_ratio s)).
      - intro E. injection E as E1 E2. apply ExitEdge. left. auto.
      - destruct (Qltb (hard_pos_ratio s) (hard_neg_ratio s)) eqn:L; intro E; injection E as E1 E2; apply ExitEdge; qb.
        + right. left. split; auto.
        + right. right. split; auto. }
    match goal with |- context [find_root fuel ?f 0 ?m true ?x] =>
      destruct (find_root fuel f 0 m true x) as [lft|] eqn:FL; [|discriminate];
      destruct (find_root fuel f 0 m false x) as [rgt|] eqn:FR; [|discriminate] end.
    intro E. assert (E' : (t_fpr succ pred s (norm ((lft + rgt) / 2)), norm ((lft + rgt) / 2)) = (t, e)) by congruence.
    apply pair_equal_spec in E'. destruct E' as [E1 E2].
    destruct (find_root_range _ _ _ _ _ _ _ (Qlt_le_weak _ _ Hmax) FL) as [L1 L2], (find_root_range _ _ _ _ _ _ _ (Qlt_le_weak _ _ Hmax) FR) as [R1 R2].
    apply (ExitBisect s t e lft rgt); [apply (find_root_pos _ _ _ _ _ _ Hmax FL)|apply (find_root_pos _ _ _ _ _ _ Hmax FR)|exact L2|exact R2|symmetry; exact E2|].
    rewrite <- E2. symmetry. exact E1.
  Qed.

  (* ----- 0 <= e <= min(hard fractions) ----- *)
  Theorem eer_range s t e : proper s -> eer s = Ret (t, e) ->
    0 <= e /\ e <= Qmin2 (hard_pos_ratio s) (hard_neg_ratio s) /\ e <= 1.
  Proof.
    intros Hpr E. pose proof (max_eer_pos s Hpr) as Hmax.
    destruct Hpr as (Hw & Hp & Hn & Ep & En).
    destruct (hard_pos_ratio_range s Hp Ep), (hard_neg_ratio_range s Hn En).
    destruct (Qmin2_spec (hard_pos_ratio s) (hard_neg_ratio s)) as (M1 & M2 & _).
    destruct (eer_exits s t e (conj Hw (conj Hp (conj Hn (conj Ep En)))) E) as [? ? ? E0|? ? ? E0|[E0|[[E0 L]|[E0 L]]]|lft rgt ? ? ? ? E0 ?]; subst e.
    - repeat split; lra.
    - repeat split; lra.
    - repeat split; lra.
    - repeat split; try lra. destruct (Qmin2_spec (hard_pos_ratio s) (hard_neg_ratio s)) as (_ & _ & [K|K]); rewrite K; lra.
    - repeat split; try lra. destruct (Qmin2_spec (hard_pos_ratio s) (hard_neg_ratio s)) as (_ & _ & [K|K]); rewrite K; lra.
    - unfold norm; rewrite Qred_correct. set (mx := Qmin2 (hard_pos_ratio s) (hard_neg_ratio s)) in *.
      assert ((lft + rgt) / 2 <= mx) by (apply Qle_shift_div_r; lra).
      assert (0 <= (lft + rgt) / 2) by (apply Qle_shift_div_l; lra).
      repeat split; lra.
  Qed.

  (* ----- a reported EER of 0 comes with a threshold at which there are no errors (all inputs, ties included) ----- *)
  Lemma sorted_all_ge l : sorted l -> Forall (fun x => nthZ l 0 <= x) l.
  Proof. intro H. eapply Forall_impl; [|apply sorted_bounds, H]. simpl. tauto. Qed.
  Lemma sorted_all_le l : sorted l -> Forall (fun x => x <= nthZ l (len l - 1)) l.
  Proof. intro H. eapply Forall_impl; [|apply sorted_bounds, H]. simpl. tauto. Qed.

  Theorem eer_zero_no_errors s t e : proper s -> eer s = Ret (t, e) -> e == 0 ->
    cfp (cm s (Fin t)) = 0%Z /\ cfn (cm s (Fin t)) = 0%Z.
  Proof.
    intros Hpr E Z. pose proof (max_eer_pos s Hpr) as Hmax. pose proof Hpr as ([Hsp Hsn] & Hp & Hn & Ep & En).
    destruct (hard_pos_ratio_range s Hp Ep), (hard_neg_ratio_range s Hn En).
    destruct (eer_exits s t e Hpr E) as [Hsc Hlt Ht _|Hsc Hlt Ht _|[E0|[[E0 L]|[E0 L]]]|lft rgt ? ? ? ? E0 ?].
    - (* separated, score_class = pos: neg <= nl < t < p0 <= pos *)
      rewrite cm_counts. cbn [cfp cfn]. rewrite Hsc.
      set (p0 := nthZ (pos s) 0) in *. set (nl := nthZ (neg s) (len (neg s) - 1)) in *.
      assert (T1 : nl < t) by (subst t; unfold norm; rewrite Qred_correct; apply Qlt_shift_div_l; lra).
      assert (T2 : t < p0) by (subst t; unfold norm; rewrite Qred_correct; apply Qlt_shift_div_r; lra).
      split; apply count_none.
      + eapply Forall_impl; [|apply (sorted_all_le (neg s) Hsn)]. simpl. intros a Ha. fold nl in Ha.
        destruct (equal_class s); cbn [dec lt_ext le_ext]; [apply negb_false_iff|apply negb_false_iff]; qb; lra.
      + eapply Forall_impl; [|apply (sorted_all_ge (pos s) Hsp)]. simpl. intros a Ha. fold p0 in Ha. unfold ndec.
        destruct (equal_class s); cbn [dec lt_ext le_ext]; rewrite negb_involutive; qb; lra.
    - (* separated, score_class = neg: pos <= pl < t < n0 <= neg *)
      rewrite cm_counts. cbn [cfp cfn]. rewrite Hsc.
      set (pl := nthZ (pos s) (len (pos s) - 1)) in *. set (n0 := nthZ (neg s) 0) in *.
      assert (T1 : pl < t) by (subst t; unfold norm; rewrite Qred_correct; apply Qlt_shift_div_l; lra).
      assert (T2 : t < n0) by (subst t; unfold norm; rewrite Qred_correct; apply Qlt_shift_div_r; lra).
      split; apply count_none.
      + eapply Forall_impl; [|apply (sorted_all_ge (neg s) Hsn)]. simpl. intros a Ha. fold n0 in Ha.
        destruct (equal_class s); cbn [dec lt_ext le_ext]; qb; lra.
      + eapply Forall_impl; [|apply (sorted_all_le (pos s) Hsp)]. simpl. intros a Ha. fold pl in Ha. unfold ndec.
        destruct (equal_class s); cbn [dec lt_ext le_ext]; apply negb_false_iff; qb; lra.
    - exfalso. rewrite E0 in Z. lra.
    - exfalso. rewrite E0 in Z. lra.
    - exfalso. rewrite E0 in Z. lra.
    - exfalso. unfold norm in E0. rewrite E0, Qred_correct in Z. assert (0 < (lft + rgt) / 2) by (apply Qlt_shift_div_l; lra). lra.
  Qed.

  (* ----- FPR side of the crossing: the false-positive count at the returned threshold is within
     one sample of e * N_neg_all (untied negatives), unless the EER is 0 by perfect separation ----- *)
  Theorem eer_fpr_side s t e : proper s -> ssorted (neg s) -> eer s = Ret (t, e) -> t = t_fpr succ pred s e ->
    within1 (cfp (cm s (Fin t))) (e * inject_Z (len (neg s) + easy_neg s)).
  Proof.
    intros Hpr Hss E Ht. destruct (eer_range s t e Hpr E) as (E0 & E1 & _).
    destruct Hpr as (Hw & Hp & Hn & Ep & En). destruct (hard_neg_ratio_range s Hn En) as [H0 H1].
    destruct (Qmin2_spec (hard_pos_ratio s) (hard_neg_ratio s)) as (_ & M2 & _).
    unfold t_fpr in Ht. destruct (threshold_at_fpr succ pred s e Linear) as [T|] eqn:ET.
    2:{ unfold threshold_at_fpr in ET. destruct (len (neg s) =? 0)%Z eqn:K; [apply Z.eqb_eq in K; lia|discriminate]. }
    cbn [thr_or0] in Ht. subst T.
    pose proof (roundtrip_fpr succ pred Hsucc Hpred s e t Hss ET) as R.
    eapply within1_compat; [|exact R]. unfold hard_target_fpr, Qminimum.
    assert (A : e / hard_neg_ratio s <= 1) by (apply Qle_shift_div_r; lra).
    assert (B : 0 <= e / hard_neg_ratio s) by (apply Qle_shift_div_l; lra).
    assert (C : Qmin2 (e / hard_neg_ratio s) 1 == e / hard_neg_ratio s).
    { unfold Qmin2. destruct (Qleb (e / hard_neg_ratio s) 1) eqn:K; [reflexivity|qb; lra]. }
    destruct (clip01_spec (Qmin2 (e / hard_neg_ratio s) 1)) as (_ & _ & Cm & _).
    rewrite Cm by lra. rewrite C. rewrite <- (neg_ratio_inv s Hn En). field. lra.
  Qed.

  (* FNR side under the exact-root hypothesis: if the returned threshold is also the FNR-side
     threshold for e (f e = 0), the false-negative count is within one sample of e * N_pos_all *)
  Theorem eer_fnr_side_exact_root s t e : proper s -> ssorted (pos s) -> eer s = Ret (t, e) -> t = t_fnr succ pred s e ->
    within1 (cfn (cm s (Fin t))) (e * inject_Z (len (pos s) + easy_pos s)).
  Proof.
    intros Hpr Hss E Ht. destruct (eer_range s t e Hpr E) as (E0 & E1 & _).
    destruct Hpr as (Hw & Hp & Hn & Ep & En). destruct (hard_pos_ratio_range s Hp Ep) as [H0 H1].
    destruct (Qmin2_spec (hard_pos_ratio s) (hard_neg_ratio s)) as (M1 & _ & _).
    unfold t_fnr in Ht. destruct (threshold_at_fnr succ pred s e Linear) as [T|] eqn:ET.
    2:{ unfold threshold_at_fnr in ET. destruct (len (pos s) =? 0)%Z eqn:K; [apply Z.eqb_eq in K; lia|discriminate]. }
    cbn [thr_or0] in Ht. subst T.
    pose proof (roundtrip_fnr succ pred Hsucc Hpred s e t Hss ET) as R.
    eapply within1_compat; [|exact R]. unfold hard_target_fnr, Qminimum.
    assert (A : e / hard_pos_ratio s <= 1) by (apply Qle_shift_div_r; lra).
    assert (B : 0 <= e / hard_pos_ratio s) by (apply Qle_shift_div_l; lra).
    assert (C : Qmin2 (e / hard_pos_ratio s) 1 == e / hard_pos_ratio s).
    { unfold Qmin2. destruct (Qleb (e / hard_pos_ratio s) 1) eqn:K; [reflexivity|qb; lra]. }
    destruct (clip01_spec (Qmin2 (e / hard_pos_ratio s) 1)) as (_ & _ & Cm & _).
    rewrite Cm by lra. rewrite C. rewrite <- (pos_ratio_inv s Hp Ep). field. lra.
  Qed.
End EerFacts.
