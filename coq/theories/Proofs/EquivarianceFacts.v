(* Proofs/EquivarianceFacts.v — C08: thresholds returned by threshold setting are mapped by an increasing
   affine map of the scores, for targets that are not answered by a one-ulp sentinel (interior targets).
   (At a sentinel exact equivariance is false in binary64: nextafter(a*x+b) <> a*nextafter(x)+b; the
   property grants a few ulp there and the harness checks it on the implementation.) *)
From SA Require Import Model.Threshold Model.Symmetry Proofs.SentinelFacts Proofs.ExtremeFacts Proofs.InvIncrFacts.
Open Scope Q_scope.

Section Affine.
  Variable succ pred : Q -> Q.
  Variables a b : Q.
  Notation f := (fun x => a * x + b).
  Notation inv := (inv_incr succ pred).

  Lemma len_map_f (l : list Q) : len (map f l) = len l.
  Proof. apply len_map. Qed.
  Lemma nthZ_map l i : (0 <= i < len l)%Z -> nthZ (map f l) i = f (nthZ l i).
  Proof.
    intros [H0 H1]. unfold nthZ, len in *.
    rewrite (nth_indep (map f l) 0 (f 0)) by (rewrite map_length; lia). apply (map_nth f l 0).
  Qed.
  Lemma interior_map l u lc : interior (map f l) u lc <-> interior l u lc.
  Proof. unfold interior, shifted. rewrite len_map_f. tauto. Qed.
  Lemma xpos_map l u lc : xpos (map f l) u lc = xpos l u lc.
  Proof. unfold xpos, shifted. now rewrite len_map_f. Qed.

  Theorem inv_affine_interior l u lc m : (1 <= len l)%Z -> interior l u lc ->
    inv (map f l) u lc m == a * inv l u lc m + b.
  Proof.
    intros H Hi. pose proof (proj2 (interior_map l u lc) Hi) as Hi'.
    rewrite (inv_interior succ pred _ u lc m Hi'), (inv_interior succ pred l u lc m Hi).
    rewrite xpos_map, len_map_f.
    destruct (interior_idx l u lc H Hi) as (A & B & C & D & _). cbv zeta in *.
    rewrite C, D. rewrite !nthZ_map by lia.
    destruct m; ring.
  Qed.
End Affine.

(* through _threshold_at_ratio: the flips only change the target, the continuity flag and the method *)
Definition tar_target (s : scores) (increasing : bool) (u : Q) : Q :=
  if negb (label_eqb (score_class s) Pos)
  then 1 - (if negb increasing then 1 - u else u)
  else (if negb increasing then 1 - u else u).
Definition tar_lc (s : scores) (rc : label) : bool :=
  let lc := label_eqb rc Pos in
  let lc := if negb (label_eqb (equal_class s) Pos) then negb lc else lc in
  if negb (label_eqb (score_class s) Pos) then negb lc else lc.

Definition tar_method (s : scores) (increasing : bool) (m : method) : method :=
  let m := if negb increasing then reverse_method m else m in
  if negb (label_eqb (score_class s) Pos) then reverse_method m else m.

Lemma tar_unfold succ pred s l u inc rc m :
  threshold_at_ratio succ pred s l u inc rc m
  = inv_incr succ pred l (tar_target s inc u) (tar_lc s rc) (tar_method s inc m).
Proof.
  unfold threshold_at_ratio, tar_target, tar_lc, tar_method.
  destruct inc, (score_class s); cbn [negb label_eqb]; reflexivity.
Qed.

(* an increasing affine map of the scores maps the returned threshold by the same map, for every
   metric direction, configuration and method, whenever the target is interior (not answered by a
   sentinel); s and s' are objects with the same flags (e.g. s' = affine_scores a b s) *)
Theorem tar_affine_interior succ pred a b s s' l u inc rc m :
  score_class s' = score_class s -> equal_class s' = equal_class s -> (1 <= len l)%Z ->
  interior l (tar_target s inc u) (tar_lc s rc) ->
  threshold_at_ratio succ pred s' (map (fun x => a * x + b) l) u inc rc m
  == a * threshold_at_ratio succ pred s l u inc rc m + b.
Proof.
  intros Hsc Hec Hn Hi. rewrite !tar_unfold.
  assert (T : tar_target s' inc u = tar_target s inc u) by (unfold tar_target; now rewrite Hsc).
  assert (L : tar_lc s' rc = tar_lc s rc) by (unfold tar_lc; now rewrite Hsc, Hec).
  assert (M : tar_method s' inc m = tar_method s inc m) by (unfold tar_method; now rewrite Hsc).
  rewrite T, L, M. now apply inv_affine_interior.
Qed.
