(* Proofs/SymmetryFacts.v — C08 (swap, negation, affine maps) and C09 (materialised easy samples) on
   confusion matrices. *)
From SA Require Import Model.Symmetry Proofs.CmFacts.
Open Scope Q_scope.

Definition cmz_swap (c : cmz) : cmz := mkCmz (ctn c) (cfp c) (cfn c) (ctp c).

(* swap() exchanges the roles of the classes exactly, at every threshold *)
Theorem swap_cm s t : cm (swap s) t = cmz_swap (cm s t).
Proof.
  unfold swap, mk_scores, cm, cm_side, cmz_swap.
  destruct (score_class s), (equal_class s); reflexivity.
Qed.

Lemma to_cm2_swap c : to_cm2 (cmz_swap c) = Build_cm2 (inject_Z (ctn c)) (inject_Z (cfp c)) (inject_Z (cfn c)) (inject_Z (ctp c)).
Proof. reflexivity. Qed.

(* FPR, TPR, TOPR of the original = FNR, TNR, TONR of the swapped object, and vice versa *)
Theorem swap_rates s t :
  req (s_fnr (swap s) t) (s_fpr s t) /\ req (s_fpr (swap s) t) (s_fnr s t) /\
  req (s_tnr (swap s) t) (s_tpr s t) /\ req (s_tpr (swap s) t) (s_tnr s t) /\
  req (s_tonr (swap s) t) (s_topr s t) /\ req (s_topr (swap s) t) (s_tonr s t).
Proof.
  unfold s_fnr, s_fpr, s_tnr, s_tpr, s_tonr, s_topr. rewrite swap_cm, to_cm2_swap.
  set (c := cm s t). unfold fnr, fpr, tnr, tpr, tonr, topr, top, ton, pop, msum, to_cm2. cbn [m00 m01 m10 m11].
  set (a := inject_Z (ctp c)); set (b := inject_Z (cfn c)); set (d := inject_Z (cfp c)); set (e := inject_Z (ctn c)).
  assert (R : forall n1 d1 n2 d2, n1 == n2 -> d1 == d2 -> req (rdiv n1 d1) (rdiv n2 d2)).
  { intros n1 d1 n2 d2 En Ed. unfold rdiv, req.
    destruct (Qeqb d1 0) eqn:A, (Qeqb d2 0) eqn:B; qb; try exact I.
    - assert (K : d2 == 0) by lra. apply Qeqb_eq in K. congruence.
    - assert (K : d1 == 0) by lra. apply Qeqb_eq in K. congruence.
    - rewrite En, Ed. reflexivity. }
  repeat split; apply R; ring.
Qed.
Lemma swap_wf s : wf s -> wf (swap s).
Proof. intros [A B]. split; assumption. Qed.
Lemma swap_involutive s : swap (swap s) = s.
Proof. destruct s as [p n ep en sc ec]. unfold swap, mk_scores. cbn. destruct sc, ec; reflexivity. Qed.

(* negating the scores and flipping score_class leaves every confusion matrix unchanged at the negated threshold *)
Ltac cmp_cases tac :=
  repeat match goal with
  | |- context [Qleb ?a ?b] => let E := fresh "E" in destruct (Qleb a b) eqn:E
  | |- context [Qltb ?a ?b] => let E := fresh "E" in destruct (Qltb a b) eqn:E
  end; cbn [negb]; try reflexivity; exfalso; qb; tac.

Lemma dec_neg sc ec x t : dec (flip sc) ec (- x) (neg_ext t) = dec sc ec x t.
Proof.
  destruct sc, ec, t as [|q|]; cbn [dec flip neg_ext lt_ext le_ext negb]; try reflexivity; cmp_cases lra.
Qed.

Theorem neg_cm s t : cm (neg_scores s) (neg_ext t) = cm s t.
Proof.
  rewrite !cm_counts. unfold neg_scores, mk_scores, ndec. cbn [pos neg easy_pos easy_neg score_class equal_class].
  rewrite <- !(count_perm _ _ _ (isort_perm _)). rewrite !count_map.
  rewrite !(count_ext (fun x => dec (flip (score_class s)) (equal_class s) (- x) (neg_ext t))
                      (fun x => dec (score_class s) (equal_class s) x t)) by (intros; apply dec_neg).
  rewrite !(count_ext (fun x => negb (dec (flip (score_class s)) (equal_class s) (- x) (neg_ext t)))
                      (fun x => negb (dec (score_class s) (equal_class s) x t))) by (intros; f_equal; apply dec_neg).
  reflexivity.
Qed.

(* increasing affine maps *)
Lemma dec_affine a b sc ec x t : 0 < a -> dec sc ec (a * x + b) (affine_ext a b t) = dec sc ec x t.
Proof.
  intro Ha. destruct sc, ec, t as [|q|]; cbn [dec affine_ext lt_ext le_ext negb]; try reflexivity; cmp_cases nra.
Qed.

Theorem affine_cm a b s t : 0 < a -> cm (affine_scores a b s) (affine_ext a b t) = cm s t.
Proof.
  intro Ha. rewrite !cm_counts. unfold affine_scores, mk_scores, ndec. cbn [pos neg easy_pos easy_neg score_class equal_class].
  rewrite <- !(count_perm _ _ _ (isort_perm _)). rewrite !count_map.
  rewrite !(count_ext (fun x => dec (score_class s) (equal_class s) (a * x + b) (affine_ext a b t))
                      (fun x => dec (score_class s) (equal_class s) x t)) by (intros; apply dec_affine; exact Ha).
  rewrite !(count_ext (fun x => negb (dec (score_class s) (equal_class s) (a * x + b) (affine_ext a b t)))
                      (fun x => negb (dec (score_class s) (equal_class s) x t))) by (intros; f_equal; apply dec_affine; exact Ha).
  reflexivity.
Qed.

(* ---------- C09: easy samples = materialised extreme scores (confusion matrices) ---------- *)
Lemma count_repeat {A} (f : A -> bool) x n : count f (repeat x n) = (if f x then Z.of_nat n else 0)%Z.
Proof. induction n as [|n IH]; cbn [repeat count]; [destruct (f x); reflexivity|]. rewrite IH. destruct (f x); lia. Qed.

(* a threshold lies "between the materialised extremes" when the decision rule accepts the
   materialised positives and rejects the materialised negatives *)
Theorem materialise_cm s ppos pneg t : (0 <= easy_pos s)%Z -> (0 <= easy_neg s)%Z ->
  dec (score_class s) (equal_class s) ppos t = true ->
  dec (score_class s) (equal_class s) pneg t = false ->
  cm (materialise s ppos pneg) t = cm s t.
Proof.
  intros Hp Hn Dp Dn. rewrite !cm_counts. unfold materialise, mk_scores, ndec.
  cbn [pos neg easy_pos easy_neg score_class equal_class].
  rewrite <- !(count_perm _ _ _ (isort_perm _)). rewrite !count_app, !count_repeat.
  rewrite Dp, Dn. cbn [negb]. cbv iota. f_equal; lia.
Qed.
