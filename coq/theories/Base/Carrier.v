(* Base/Carrier.v — the discrete carrier of representable values (binary64) seen from Q:
   np.nextafter(x, +inf) = succ x, np.nextafter(x, -inf) = pred x.  The model takes succ/pred as
   parameters; proofs assume [carrier isD succ pred]; B64 below is the executable instance
   (binary64 nextafter computed on exact rationals), validated bit-for-bit against np.nextafter
   by the correspondence runs.  That this instance satisfies [carrier] (for the set of rationals
   m * 2^e, |m| < 2^53, e >= -1074) is proved in Proofs/CarrierB64.v (b64_carrier). *)
From SA Require Export Base.Prelude.
Open Scope Q_scope.

Record carrier (isD : Q -> Prop) (succ pred : Q -> Q) : Prop := {
  succ_gt : forall x, x < succ x;
  pred_lt : forall x, pred x < x;
  succ_least : forall x y, isD x -> isD y -> x < y -> succ x <= y;
  pred_greatest : forall x y, isD x -> isD y -> y < x -> y <= pred x;
  succ_D : forall x, isD x -> isD (succ x);
  pred_D : forall x, isD x -> isD (pred x);
  pred_succ : forall x, isD x -> pred (succ x) == x;
  succ_pred : forall x, isD x -> succ (pred x) == x;
  succ_compat : forall x y, x == y -> succ x == succ y;
  pred_compat : forall x y, x == y -> pred x == pred y;
  isD_compat : forall x y, x == y -> isD x -> isD y
}.

(* toy instance: the integers with +-1 (used to show the hypotheses are satisfiable) *)
Definition isInt (x : Q) : Prop := exists k : Z, x == inject_Z k.
Lemma int_carrier : carrier isInt (fun x => x + 1) (fun x => x - 1).
Proof.
  constructor; intros; try lra.
  - destruct H as [a Ha], H0 as [b Hb]. rewrite Ha, Hb in *.
    rewrite <- Zlt_Qlt in H1. assert (a + 1 <= b)%Z by lia.
    rewrite Zle_Qle in H. rewrite inject_Z_plus in H. exact H.
  - destruct H as [a Ha], H0 as [b Hb]. rewrite Ha, Hb in *.
    rewrite <- Zlt_Qlt in H1. assert (b <= a - 1)%Z by lia.
    rewrite Zle_Qle in H. rewrite inject_Z_sub in H. exact H.
  - destruct H as [a Ha]. exists (a + 1)%Z. rewrite inject_Z_plus, Ha. reflexivity.
  - destruct H as [a Ha]. exists (a - 1)%Z. rewrite inject_Z_sub, Ha. reflexivity.
  - destruct H0 as [a Ha]. exists a. lra.
Qed.

(* ---------- binary64 nextafter on exact rationals ---------- *)
Definition two_pow (k : Z) : Q :=
  if (0 <=? k)%Z then inject_Z (2 ^ k) else Qinv (inject_Z (2 ^ (- k))).
Definition ilog2 (x : Q) : Z :=   (* floor(log2 x) for x > 0 *)
  let n := Qnum x in let d := Zpos (Qden x) in
  let g := (Z.log2 n - Z.log2 d)%Z in
  if Qle_bool (two_pow g) x then g else (g - 1)%Z.
Definition ulp_at (e : Z) : Q := two_pow (Z.max e (-1022) - 52).
Definition succ_pos (x : Q) : Q := Qred (x + ulp_at (ilog2 x)).
Definition pred_pos (x : Q) : Q :=
  let e := ilog2 x in
  if Qeq_bool x (two_pow e) && (-1022 <? e)%Z then Qred (x - ulp_at (e - 1)) else Qred (x - ulp_at e).
Definition minsub : Q := two_pow (-1074).
Definition succ64 (x : Q) : Q :=
  match Qcompare x 0 with Eq => minsub | Gt => succ_pos x | Lt => Qred (- pred_pos (- x)) end.
Definition pred64 (x : Q) : Q :=
  match Qcompare x 0 with Eq => Qred (- minsub) | Gt => pred_pos x | Lt => Qred (- succ_pos (- x)) end.
