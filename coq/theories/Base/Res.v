(* Base/Res.v — result of a call that may raise ValueError. *)
Inductive res (A : Type) : Type := Ok (a : A) | ErrValue.
Arguments Ok {A} a.
Arguments ErrValue {A}.

Definition bind {A B} (r : res A) (f : A -> res B) : res B :=
  match r with Ok a => f a | ErrValue => ErrValue end.
