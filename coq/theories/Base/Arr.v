(* Base/Arr.v — n-d arrays as (shape, row-major data); the vectorised queries are shape-preserving maps. *)
From Coq Require Import List ZArith Lia.
Import ListNotations.

Record arr (A : Type) := mkArr { shape : list nat; data : list A }.
Arguments mkArr {A}. Arguments shape {A}. Arguments data {A}.

Definition size (sh : list nat) : nat := fold_right Nat.mul 1 sh.
Definition awf {A} (a : arr A) : Prop := length (data a) = size (shape a).

(* elementwise application of a scalar query *)
Definition amap {A B} (f : A -> B) (a : arr A) : arr B := mkArr (shape a) (map f (data a)).
(* each element becomes a block of k values: result shape = shape ++ block shape *)
Definition aexpand {A B} (bsh : list nat) (f : A -> list B) (a : arr A) : arr B :=
  mkArr (shape a ++ bsh) (flat_map f (data a)).
(* outer product: for every x of a and every y of b the block f x y; shape a ++ shape b ++ block shape *)
Definition aouter {A B C} (bsh : list nat) (f : A -> B -> list C) (a : arr A) (b : arr B) : arr C :=
  mkArr (shape a ++ shape b ++ bsh) (flat_map (fun x => flat_map (f x) (data b)) (data a)).

Lemma size_app sh1 sh2 : size (sh1 ++ sh2) = size sh1 * size sh2.
Proof. induction sh1 as [|n r IH]; simpl; [lia|rewrite IH; lia]. Qed.

Lemma amap_shape {A B} (f : A -> B) a : shape (amap f a) = shape a.
Proof. reflexivity. Qed.
Lemma amap_wf {A B} (f : A -> B) a : awf a -> awf (amap f a).
Proof. unfold awf, amap. simpl. now rewrite map_length. Qed.
Lemma amap_nth {A B} (f : A -> B) a i d d' : i < length (data a) -> nth i (data (amap f a)) d' = f (nth i (data a) d).
Proof. intro H. simpl. rewrite (nth_indep _ d' (f d)) by (rewrite map_length; exact H). apply map_nth. Qed.

Lemma flat_map_length_const {A B} (f : A -> list B) k l : (forall x, length (f x) = k) -> length (flat_map f l) = length l * k.
Proof. intro H. induction l as [|x r IH]; simpl; [reflexivity|]. rewrite app_length, H, IH. lia. Qed.
Lemma flat_map_nth_const {A B} (f : A -> list B) k l i j d d' :
  (forall x, length (f x) = k) -> i < length l -> j < k -> nth (i * k + j) (flat_map f l) d' = nth j (f (nth i l d)) d'.
Proof.
  intros H. revert i. induction l as [|x r IH]; intros i Hi Hj; simpl in Hi; [lia|].
  simpl. destruct i as [|i].
  - simpl. rewrite app_nth1 by (rewrite H; exact Hj). reflexivity.
  - rewrite app_nth2 by (rewrite H; simpl; nia). rewrite H.
    replace (S i * k + j - k) with (i * k + j) by (simpl; lia). apply IH; [lia|exact Hj].
Qed.

Lemma aexpand_shape {A B} bsh (f : A -> list B) a : shape (aexpand bsh f a) = shape a ++ bsh.
Proof. reflexivity. Qed.
Lemma aexpand_wf {A B} bsh (f : A -> list B) a : (forall x, length (f x) = size bsh) -> awf a -> awf (aexpand bsh f a).
Proof.
  unfold awf, aexpand. simpl. intros H Ha. rewrite size_app, (flat_map_length_const f (size bsh)) by exact H. now rewrite Ha.
Qed.
Lemma aexpand_nth {A B} bsh (f : A -> list B) a i j d d' :
  (forall x, length (f x) = size bsh) -> i < length (data a) -> j < size bsh ->
  nth (i * size bsh + j) (data (aexpand bsh f a)) d' = nth j (f (nth i (data a) d)) d'.
Proof. intros. simpl. now apply flat_map_nth_const. Qed.

Lemma aouter_shape {A B C} bsh (f : A -> B -> list C) a b : shape (aouter bsh f a b) = shape a ++ shape b ++ bsh.
Proof. reflexivity. Qed.
Lemma aouter_wf {A B C} bsh (f : A -> B -> list C) a b :
  (forall x y, length (f x y) = size bsh) -> awf a -> awf b -> awf (aouter bsh f a b).
Proof.
  unfold awf, aouter. simpl. intros H Ha Hb. rewrite !size_app.
  rewrite (flat_map_length_const _ (size (shape b) * size bsh)).
  - rewrite Ha. lia.
  - intro x. rewrite (flat_map_length_const _ (size bsh)) by (intro; apply H). now rewrite Hb.
Qed.
Lemma aouter_nth {A B C} bsh (f : A -> B -> list C) a b i j k dA dB d :
  (forall x y, length (f x y) = size bsh) -> i < length (data a) -> j < length (data b) -> k < size bsh ->
  nth ((i * length (data b) + j) * size bsh + k) (data (aouter bsh f a b)) d
  = nth k (f (nth i (data a) dA) (nth j (data b) dB)) d.
Proof.
  intros H Hi Hj Hk. simpl.
  replace ((i * length (data b) + j) * size bsh + k) with (i * (length (data b) * size bsh) + (j * size bsh + k)) by lia.
  rewrite (flat_map_nth_const _ (length (data b) * size bsh) _ i _ dA).
  - now apply flat_map_nth_const.
  - intro x. apply flat_map_length_const. intro. apply H.
  - exact Hi.
  - nia.
Qed.
