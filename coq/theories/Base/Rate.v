(* Base/Rate.v — NaN-aware rates: a float that may be NaN is [option Q] (None = NaN).
   These are the primitives the metrics translator emits. *)
From SA Require Export Base.Prelude.
Open Scope Q_scope.

Definition rate := option Q.

(* np.divide(n, d, out=full_like(n, nan), where=d != 0) *)
Definition rdiv (n d : Q) : rate := if Qeqb d 0 then None else Some (n / d).
(* 1 - r on a possibly-NaN float *)
Definition rcompl (r : rate) : rate := option_map (fun x => 1 - x) r.
Definition rlift2 (f : Q -> Q -> Q) (a b : rate) : rate :=
  match a, b with Some x, Some y => Some (f x y) | _, _ => None end.
Definition rmul := rlift2 Qmult.
Definition rsub := rlift2 Qminus.
Definition radd := rlift2 Qplus.
(* np.divide(r, d, out=nan, where=d != 0) for a possibly-NaN numerator *)
Definition rdivr (a : rate) (d : Q) : rate :=
  if Qeqb d 0 then None else option_map (fun x => x / d) a.
Definition rmap (f : Q -> Q) (a : rate) : rate := option_map f a.
Definition rscale (z : Q) (a : rate) : rate := option_map (fun x => z * x) a.
Definition rone : rate := Some 1.

(* equality of rates up to Qeq *)
Definition req (a b : rate) : Prop :=
  match a, b with Some x, Some y => x == y | None, None => True | _, _ => False end.
Definition reqb (a b : rate) : bool :=
  match a, b with Some x, Some y => Qeqb x y | None, None => true | _, _ => false end.
Lemma reqb_req a b : reqb a b = true <-> req a b.
Proof. destruct a, b; simpl; try (split; [discriminate|tauto]); try tauto. apply Qeqb_eq. Qed.

Lemma rdiv_none n d : rdiv n d = None <-> d == 0.
Proof. unfold rdiv. destruct (Qeqb d 0) eqn:E; split; intro H; try discriminate; try reflexivity.
  - now apply Qeqb_eq.
  - apply Qeqb_eq in H. congruence. Qed.
Lemma rdiv_some n d : ~ d == 0 -> rdiv n d = Some (n / d).
Proof. intro H. unfold rdiv. destruct (Qeqb d 0) eqn:E; [apply Qeqb_eq in E; contradiction|reflexivity]. Qed.
