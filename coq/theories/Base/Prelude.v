(* Base/Prelude.v — shared definitions: boolean order on Q, counting, sortedness, insertion sort,
   extended thresholds.  Lemmas about these definitions live here too (they are library facts,
   not model code). *)
From Coq Require Export List ZArith QArith Qround Bool Lia Lqa.
From Coq Require Export Sorting.Sorted Sorting.Permutation.
Export ListNotations.
Open Scope Q_scope.

(* ---------- boolean comparisons on Q ---------- *)
Definition Qleb (x y : Q) : bool := Qle_bool x y.
Definition Qltb (x y : Q) : bool := negb (Qle_bool y x).
Definition Qeqb (x y : Q) : bool := Qeq_bool x y.

Lemma Qleb_le x y : Qleb x y = true <-> x <= y.
Proof. unfold Qleb. apply Qle_bool_iff. Qed.
Lemma Qleb_gt x y : Qleb x y = false <-> y < x.
Proof.
  unfold Qleb. split; intro H.
  - destruct (Qlt_le_dec y x) as [L|L]; [exact L|]. apply Qle_bool_iff in L. congruence.
  - destruct (Qle_bool x y) eqn:E; [|reflexivity]. apply Qle_bool_iff in E. lra.
Qed.
Lemma Qltb_lt x y : Qltb x y = true <-> x < y.
Proof. unfold Qltb. rewrite negb_true_iff. apply (Qleb_gt y x). Qed.
Lemma Qltb_ge x y : Qltb x y = false <-> y <= x.
Proof. unfold Qltb. rewrite negb_false_iff. apply (Qleb_le y x). Qed.
Lemma Qeqb_eq x y : Qeqb x y = true <-> x == y.
Proof. unfold Qeqb. apply Qeq_bool_iff. Qed.
Lemma Qltb_negb_leb x y : Qltb x y = negb (Qleb y x).
Proof. reflexivity. Qed.
Lemma Qleb_negb_ltb x y : Qleb x y = negb (Qltb y x).
Proof. unfold Qltb, Qleb. now rewrite negb_involutive. Qed.

Ltac qb :=
  repeat match goal with
  | H : Qleb _ _ = true |- _ => apply Qleb_le in H
  | H : Qleb _ _ = false |- _ => apply Qleb_gt in H
  | H : Qltb _ _ = true |- _ => apply Qltb_lt in H
  | H : Qltb _ _ = false |- _ => apply Qltb_ge in H
  | H : Qeqb _ _ = true |- _ => apply Qeqb_eq in H
  | |- Qleb _ _ = true => apply Qleb_le
  | |- Qleb _ _ = false => apply Qleb_gt
  | |- Qltb _ _ = true => apply Qltb_lt
  | |- Qltb _ _ = false => apply Qltb_ge
  | |- Qeqb _ _ = true => apply Qeqb_eq
  end.

(* ---------- extended thresholds ---------- *)
Inductive ext : Type := NegInf | Fin (q : Q) | PosInf.

(* x < t, x <= t for a finite score x and an extended threshold t *)
Definition lt_ext (x : Q) (t : ext) : bool :=
  match t with NegInf => false | Fin q => Qltb x q | PosInf => true end.
Definition le_ext (x : Q) (t : ext) : bool :=
  match t with NegInf => false | Fin q => Qleb x q | PosInf => true end.

Lemma lt_ext_le_ext x t : lt_ext x t = true -> le_ext x t = true.
Proof. destruct t; simpl; auto. intro H. qb. lra. Qed.

(* ---------- counting ---------- *)
Fixpoint count {A} (f : A -> bool) (l : list A) : Z :=
  match l with [] => 0%Z | x :: r => ((if f x then 1 else 0) + count f r)%Z end.

Definition len {A} (l : list A) : Z := Z.of_nat (length l).

Lemma count_nonneg {A} (f : A -> bool) l : (0 <= count f l)%Z.
Proof. induction l as [|x r IH]; simpl; [lia|destruct (f x); lia]. Qed.
Lemma count_le_len {A} (f : A -> bool) l : (count f l <= len l)%Z.
Proof. unfold len. induction l as [|x r IH]; simpl length; simpl count; [lia|destruct (f x); lia]. Qed.
Lemma count_negb {A} (f : A -> bool) l : (count (fun x => negb (f x)) l = len l - count f l)%Z.
Proof. unfold len. induction l as [|x r IH]; simpl length; simpl count; [lia|destruct (f x); cbn [negb]; lia]. Qed.
Lemma count_ext {A} (f g : A -> bool) l : (forall x, In x l -> f x = g x) -> count f l = count g l.
Proof.
  induction l as [|x r IH]; intros H; simpl; [reflexivity|].
  rewrite (H x (or_introl eq_refl)), IH; [reflexivity|]. intros y Hy. apply H. now right.
Qed.
Lemma count_app {A} (f : A -> bool) l1 l2 : (count f (l1 ++ l2) = count f l1 + count f l2)%Z.
Proof. induction l1 as [|x r IH]; simpl; [lia|rewrite IH; lia]. Qed.
Lemma count_all {A} (f : A -> bool) l : Forall (fun x => f x = true) l -> count f l = len l.
Proof. unfold len. induction 1 as [|x r Hx _ IH]; simpl length; simpl count; [reflexivity|rewrite Hx, IH; lia]. Qed.
Lemma count_none {A} (f : A -> bool) l : Forall (fun x => f x = false) l -> count f l = 0%Z.
Proof. induction 1 as [|x r Hx _ IH]; simpl; [reflexivity|rewrite Hx, IH; lia]. Qed.
Lemma count_perm {A} (f : A -> bool) l1 l2 : Permutation l1 l2 -> count f l1 = count f l2.
Proof. induction 1 as [|x l l' _ IH|x y l|l l' l'' _ IH1 _ IH2]; simpl; lia. Qed.
Lemma count_impl {A} (f g : A -> bool) l : (forall x, f x = true -> g x = true) -> (count f l <= count g l)%Z.
Proof.
  intro H. induction l as [|x r IH]; simpl; [lia|].
  destruct (f x) eqn:E; [rewrite (H _ E); lia|destruct (g x); lia].
Qed.
Lemma len_app {A} (l1 l2 : list A) : (len (l1 ++ l2) = len l1 + len l2)%Z.
Proof. unfold len. rewrite app_length. lia. Qed.
Lemma len_nonneg {A} (l : list A) : (0 <= len l)%Z.
Proof. unfold len. lia. Qed.
Lemma len_map {A B} (f : A -> B) l : len (map f l) = len l.
Proof. unfold len. now rewrite map_length. Qed.
Lemma count_map {A B} (g : A -> B) (f : B -> bool) l : count f (map g l) = count (fun x => f (g x)) l.
Proof. induction l as [|x r IH]; simpl; [reflexivity|now rewrite IH]. Qed.

(* ---------- sortedness, insertion sort (model of np.sort) ---------- *)
Definition sorted (l : list Q) : Prop := StronglySorted Qle l.

Fixpoint insert (x : Q) (l : list Q) : list Q :=
  match l with
  | [] => [x]
  | y :: r => if Qleb x y then x :: y :: r else y :: insert x r
  end.
Fixpoint isort (l : list Q) : list Q :=
  match l with [] => [] | x :: r => insert x (isort r) end.

Lemma insert_perm x l : Permutation (x :: l) (insert x l).
Proof.
  induction l as [|y r IH]; simpl; [apply Permutation_refl|].
  destruct (Qleb x y); [apply Permutation_refl|].
  eapply Permutation_trans; [apply perm_swap|]. now apply perm_skip.
Qed.
Lemma isort_perm l : Permutation l (isort l).
Proof.
  induction l as [|x r IH]; simpl; [constructor|].
  eapply Permutation_trans; [apply perm_skip, IH|apply insert_perm].
Qed.
Lemma insert_sorted x l : sorted l -> sorted (insert x l).
Proof.
  unfold sorted. induction l as [|y r IH]; intros Hs; simpl.
  - constructor; constructor.
  - inversion Hs as [|? ? Hr Hall]; subst.
    destruct (Qleb x y) eqn:E; qb.
    + constructor; [exact Hs|]. constructor; [exact E|].
      eapply Forall_impl; [|exact Hall]. simpl. intros a Ha. lra.
    + constructor; [now apply IH|].
      assert (Hp := insert_perm x r).
      apply (Permutation_Forall Hp). constructor; [lra|exact Hall].
Qed.
Lemma isort_sorted l : sorted (isort l).
Proof. induction l as [|x r IH]; simpl; [constructor|now apply insert_sorted]. Qed.
Lemma isort_length l : length (isort l) = length l.
Proof. symmetry. apply Permutation_length, isort_perm. Qed.
Lemma insert_sorted_id x l : sorted (x :: l) -> insert x l = x :: l.
Proof.
  intros Hs. inversion Hs as [|? ? Hr Hall]; subst. destruct l as [|y r]; [reflexivity|]. simpl.
  inversion Hall as [|? ? Hy _]; subst. apply Qleb_le in Hy. now rewrite Hy.
Qed.
Lemma isort_sorted_id l : sorted l -> isort l = l.
Proof.
  induction l as [|x r IH]; intros Hs; simpl; [reflexivity|].
  inversion Hs as [|? ? Hr Hall]; subst. rewrite IH by exact Hr. now apply insert_sorted_id.
Qed.

Lemma sorted_app l1 l2 : sorted (l1 ++ l2) -> sorted l1 /\ sorted l2.
Proof.
  unfold sorted. induction l1 as [|x r IH]; simpl; intros H; [split; [constructor|exact H]|].
  inversion H as [|? ? Hr Hall]; subst. destruct (IH Hr) as [H1 H2]. split; [|exact H2].
  constructor; [exact H1|]. rewrite Forall_app in Hall. tauto.
Qed.

(* On a sorted list the elements < t (resp. <= t) form a prefix; so numpy's searchsorted, whose
   documented contract on sorted input is "number of elements strictly below (left) / at or
   below (right)", is modelled by [count]. *)
Lemma sorted_nth_mono (l : list Q) i j :
  sorted l -> (i <= j)%nat -> (j < length l)%nat -> nth i l 0 <= nth j l 0.
Proof.
  unfold sorted. revert i j. induction l as [|x r IH]; intros i j Hs Hij Hj; simpl in Hj; [lia|].
  inversion Hs as [|? ? Hr Hall]; subst.
  destruct i as [|i], j as [|j]; simpl; try lia; try lra.
  - rewrite Forall_forall in Hall. apply Hall, nth_In. lia.
  - apply IH; [exact Hr|lia|lia].
Qed.

(* if t <= l[i] then at most i elements are < t *)
Lemma count_lt_le_index (l : list Q) (i : nat) (t : Q) :
  sorted l -> (i < length l)%nat -> t <= nth i l 0 -> (count (fun x => Qltb x t) l <= Z.of_nat i)%Z.
Proof.
  unfold sorted. revert i; induction l as [|x r IH]; intros i Hs Hi Ht; simpl in Hi; [lia|].
  inversion Hs as [|? ? Hr Hall]; subst.
  destruct i as [|i].
  - simpl in Ht. simpl count.
    assert (E : Qltb x t = false) by (qb; exact Ht). rewrite E; cbv iota.
    rewrite count_none; [lia|].
    eapply Forall_impl; [|exact Hall]. simpl. intros y Hy. qb. lra.
  - simpl in Ht. simpl count. specialize (IH i Hr ltac:(lia) Ht).
    destruct (Qltb x t); lia.
Qed.
(* if l[i] <= t then at least i+1 elements are <= t *)
Lemma count_le_ge_index (l : list Q) (i : nat) (t : Q) :
  sorted l -> (i < length l)%nat -> nth i l 0 <= t -> (Z.of_nat i + 1 <= count (fun x => Qleb x t) l)%Z.
Proof.
  unfold sorted. revert i; induction l as [|x r IH]; intros i Hs Hi Ht; simpl in Hi; [lia|].
  inversion Hs as [|? ? Hr Hall]; subst.
  destruct i as [|i].
  - simpl in Ht. simpl count. assert (E : Qleb x t = true) by (qb; exact Ht). rewrite E; cbv iota.
    pose proof (count_nonneg (fun x => Qleb x t) r). lia.
  - simpl in Ht. simpl count.
    assert (E : Qleb x t = true).
    { qb. rewrite Forall_forall in Hall. assert (Hi' : (i < length r)%nat) by lia. specialize (Hall (nth i r 0) (nth_In r 0 Hi')). simpl in Hall. lra. }
    rewrite E; cbv iota. specialize (IH i Hr ltac:(lia) Ht). lia.
Qed.
(* if l[i] < t then at least i+1 elements are < t *)
Lemma count_lt_ge_index (l : list Q) (i : nat) (t : Q) :
  sorted l -> (i < length l)%nat -> nth i l 0 < t -> (Z.of_nat i + 1 <= count (fun x => Qltb x t) l)%Z.
Proof.
  unfold sorted. revert i; induction l as [|x r IH]; intros i Hs Hi Ht; simpl in Hi; [lia|].
  inversion Hs as [|? ? Hr Hall]; subst.
  destruct i as [|i].
  - simpl in Ht. simpl count. assert (E : Qltb x t = true) by (qb; exact Ht). rewrite E; cbv iota.
    pose proof (count_nonneg (fun x => Qltb x t) r). lia.
  - simpl in Ht. simpl count.
    assert (E : Qltb x t = true).
    { qb. rewrite Forall_forall in Hall. assert (Hi' : (i < length r)%nat) by lia. specialize (Hall (nth i r 0) (nth_In r 0 Hi')). simpl in Hall. lra. }
    rewrite E; cbv iota. specialize (IH i Hr ltac:(lia) Ht). lia.
Qed.
(* if t < l[i] then at most i elements are <= t *)
Lemma count_le_le_index (l : list Q) (i : nat) (t : Q) :
  sorted l -> (i < length l)%nat -> t < nth i l 0 -> (count (fun x => Qleb x t) l <= Z.of_nat i)%Z.
Proof.
  unfold sorted. revert i; induction l as [|x r IH]; intros i Hs Hi Ht; simpl in Hi; [lia|].
  inversion Hs as [|? ? Hr Hall]; subst.
  destruct i as [|i].
  - simpl in Ht. simpl count.
    assert (E : Qleb x t = false) by (qb; exact Ht). rewrite E; cbv iota.
    rewrite count_none; [lia|].
    eapply Forall_impl; [|exact Hall]. simpl. intros y Hy. qb. lra.
  - simpl in Ht. simpl count. specialize (IH i Hr ltac:(lia) Ht).
    destruct (Qleb x t); lia.
Qed.

(* ---------- list helpers ---------- *)
Definition Qsum (l : list Q) : Q := fold_right Qplus 0 l.
Definition Zsum (l : list Z) : Z := fold_right Z.add 0%Z l.

Definition Qmin2 (a b : Q) : Q := if Qleb a b then a else b.
Definition Qmax2 (a b : Q) : Q := if Qleb a b then b else a.
Lemma Qmin2_spec a b : Qmin2 a b <= a /\ Qmin2 a b <= b /\ (Qmin2 a b = a \/ Qmin2 a b = b).
Proof. unfold Qmin2. destruct (Qleb a b) eqn:E; qb; repeat split; auto; lra. Qed.
Lemma Qmax2_spec a b : a <= Qmax2 a b /\ b <= Qmax2 a b /\ (Qmax2 a b = a \/ Qmax2 a b = b).
Proof. unfold Qmax2. destruct (Qleb a b) eqn:E; qb; repeat split; auto; lra. Qed.

Lemma inject_Z_sub a b : inject_Z (a - b) == inject_Z a - inject_Z b.
Proof. unfold Z.sub. rewrite inject_Z_plus, inject_Z_opp. ring. Qed.
