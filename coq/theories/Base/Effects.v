(* Base/Effects.v — effect summaries (DESIGN 3.7).  Gallina values are immutable, so "no query
   mutates its inputs" is stated about a second, tiny model: each analysed Python function is
   summarised by the list of its possibly-mutating statements; a heap of version counters records
   which caller-visible objects (parameters, fields of self) a statement may write in place. *)
From Coq Require Import List Bool Arith Lia.
Import ListNotations.

(* what an array expression may alias *)
Inductive root := RIn (k : nat) | RSelf (k : nat) | RFresh.
Definition root_eqb (a b : root) : bool :=
  match a, b with
  | RIn i, RIn j | RSelf i, RSelf j => Nat.eqb i j
  | RFresh, RFresh => true
  | _, _ => false
  end.
Lemma root_eqb_eq a b : root_eqb a b = true <-> a = b.
Proof.
  destruct a, b; simpl; try (split; [discriminate|congruence]); try tauto;
    rewrite Nat.eqb_eq; split; congruence.
Qed.

Inductive stmt :=
| SWrite (targets : list root)     (* x[...] = v, x += v, x.sort(): in-place write into something aliasing [targets] *)
| SStore (field : nat).            (* self.field = v *)

Definition heap := root -> nat.
Definition bump (h : heap) (r : root) : heap := fun r' => if root_eqb r r' then S (h r') else h r'.
Definition exec_stmt (h : heap) (st : stmt) : heap :=
  match st with
  | SWrite ts => fold_left bump ts h
  | SStore f => bump h (RSelf f)
  end.
Definition exec (p : list stmt) (h : heap) : heap := fold_left exec_stmt p h.

(* a statement is safe when it writes only fresh objects and stores only declared cache fields *)
Definition ok_root (allowed : list nat) (r : root) : bool :=
  match r with RFresh => true | RSelf f => existsb (Nat.eqb f) allowed | RIn _ => false end.
Definition safe_stmt (allowed : list nat) (st : stmt) : bool :=
  match st with
  | SWrite ts => forallb (ok_root allowed) ts
  | SStore f => existsb (Nat.eqb f) allowed
  end.
Definition safe (allowed : list nat) (p : list stmt) : bool := forallb (safe_stmt allowed) p.

(* caller-visible objects: parameters and the fields of self that are not declared caches *)
Definition visible (allowed : list nat) (r : root) : Prop :=
  match r with RIn _ => True | RSelf f => ~ In f allowed | RFresh => False end.

Lemma bump_other h r r' : r <> r' -> bump h r r' = h r'.
Proof. intro H. unfold bump. destruct (root_eqb r r') eqn:E; [apply root_eqb_eq in E; contradiction|reflexivity]. Qed.

Lemma ok_root_not_visible allowed t r : ok_root allowed t = true -> visible allowed r -> t <> r.
Proof.
  intros Ht Hv E. subst t. destruct r as [k|f|]; simpl in *; try discriminate; try contradiction.
  apply Hv. apply existsb_exists in Ht. destruct Ht as [x [Hx Hfx]]. apply Nat.eqb_eq in Hfx. now subst.
Qed.
Lemma fold_bump_ok allowed ts h r : forallb (ok_root allowed) ts = true -> visible allowed r -> fold_left bump ts h r = h r.
Proof.
  revert h. induction ts as [|t ts IH]; intros h Hf Hr; [reflexivity|].
  simpl in *. apply andb_prop in Hf. destruct Hf as [Ht Hts]. rewrite IH by assumption.
  apply bump_other. now apply (ok_root_not_visible allowed).
Qed.

Lemma safe_stmt_preserves allowed st h r : safe_stmt allowed st = true -> visible allowed r -> exec_stmt h st r = h r.
Proof.
  intros Hs Hv. destruct st as [ts|f]; simpl in *.
  - now apply (fold_bump_ok allowed).
  - apply bump_other. intro E. subst r. simpl in Hv. apply Hv.
    apply existsb_exists in Hs. destruct Hs as [x [Hx Hfx]]. apply Nat.eqb_eq in Hfx. now subst.
Qed.

(* a safe function leaves every caller-visible object at its old version *)
Theorem safe_preserves allowed p h r : safe allowed p = true -> visible allowed r -> exec p h r = h r.
Proof.
  revert h. induction p as [|st p IH]; intros h Hs Hv; [reflexivity|].
  simpl in *. apply andb_prop in Hs. destruct Hs as [H1 H2]. unfold exec in *. simpl.
  rewrite IH by assumption. now apply (safe_stmt_preserves allowed).
Qed.

(* ... and so does any history of calls of safe functions *)
Theorem safe_history_preserves allowed (calls : list (list stmt)) h r :
  forallb (safe allowed) calls = true -> visible allowed r -> fold_left (fun h p => exec p h) calls h r = h r.
Proof.
  revert h. induction calls as [|p ps IH]; intros h Hs Hv; [reflexivity|].
  simpl in *. apply andb_prop in Hs. destruct Hs as [H1 H2]. rewrite IH by assumption. now apply (safe_preserves allowed).
Qed.
