(* Props/C12.v — property C12: group labels stay attached to their scores; groups partition the data.
   Statements only; each is closed by a lemma of Proofs/GroupFacts.v.

   [pairs_pos gs] / [pairs_neg gs] are the (score, label) pairs of a GroupScores object: the i-th
   score of the class zipped with the i-th entry of the parallel label array.  "A score keeps its
   label" = statements about these pair lists.  np.argsort is ANY function satisfying [argsort_ok]
   (a sorting permutation; ties in any order), so the theorems are about multisets / Permutation.
   Sampling theorems quantify over all draw histories within NumPy's contract (see Props/C11.v). *)
From SA Require Import Model.Group Proofs.CmFacts Proofs.SamplingFacts Proofs.GroupFacts.
Open Scope Z_scope.

(* constructor: the joint argsort moves every label with its score (pair multisets unchanged), keeps
   the arrays aligned, the flags, sorts the scores, and sets the group list *)
Theorem C12_constructor : forall argsort, argsort_ok argsort ->
  forall ps ns pg ng sc ec names srt,
  length ps = length pg -> length ns = length ng ->
  let g := mk_gscores argsort ps ns pg ng sc ec names srt in
  Permutation (pairs_pos g) (combine ps pg) /\ Permutation (pairs_neg g) (combine ns ng) /\ gwf g /\
  score_class (base g) = sc /\ equal_class (base g) = ec /\ easy_pos (base g) = 0 /\ easy_neg (base g) = 0 /\
  (srt = false -> wf (base g)) /\
  (srt = true -> pos (base g) = ps /\ neg (base g) = ns /\ pos_groups g = pg /\ neg_groups g = ng) /\
  groups g = match names with None => sorted_set (pg ++ ng) | Some n => n end.
Proof. intros a [Hp Hs]. exact (mk_gscores_pairs a Hp Hs). Qed.
Print Assumptions C12_constructor.

(* the default group list is the duplicate-free set of all labels (so C12_group_cm_sum applies) *)
Theorem C12_default_groups : forall l, NoDup (sorted_set l) /\ (forall y, In y (sorted_set l) <-> In y l).
Proof. exact (fun l => conj (sorted_set_NoDup l) (sorted_set_in l)). Qed.
Print Assumptions C12_default_groups.

(* swap: the classes trade places, every pair intact; flags flipped *)
Theorem C12_swap : forall argsort gs,
  pairs_pos (gswap argsort gs) = pairs_neg gs /\ pairs_neg (gswap argsort gs) = pairs_pos gs /\
  score_class (base (gswap argsort gs)) = flip (score_class (base gs)) /\
  equal_class (base (gswap argsort gs)) = flip (equal_class (base gs)) /\
  (gwf gs -> gwf (gswap argsort gs)) /\ (wf (base gs) -> wf (base (gswap argsort gs))).
Proof. exact gswap_spec. Qed.
Print Assumptions C12_swap.

(* indexing: scores[g] exists exactly for g in groups, and holds exactly the scores labelled g (with
   multiplicity: the class sizes are the label counts), same flags, no easy samples, still sorted *)
Theorem C12_getitem : forall gs g, gwf gs ->
  (In g (groups gs) -> getitem gs g = Ok (group_scores gs g)) /\
  (~ In g (groups gs) -> getitem gs g = Err EValueError) /\
  (forall x, In x (pos (group_scores gs g)) <-> In (x, g) (pairs_pos gs)) /\
  (forall x, In x (neg (group_scores gs g)) <-> In (x, g) (pairs_neg gs)) /\
  len (pos (group_scores gs g)) = count (has_label g) (pairs_pos gs) /\
  len (neg (group_scores gs g)) = count (has_label g) (pairs_neg gs) /\
  score_class (group_scores gs g) = score_class (base gs) /\ equal_class (group_scores gs g) = equal_class (base gs) /\
  easy_pos (group_scores gs g) = 0 /\ easy_neg (group_scores gs g) = 0 /\
  (wf (base gs) -> wf (group_scores gs g)).
Proof. exact (fun gs g W => conj (getitem_ok gs g) (conj (getitem_err gs g) (group_scores_spec gs g W))). Qed.
Print Assumptions C12_getitem.

(* group_cm(t) is, group by group, the confusion matrix of the filtered data: every cell counts the
   pairs that carry the label and that the decision rule places in the cell *)
Theorem C12_group_cm_filtered : forall gs t, gwf gs ->
  group_cm gs t = Ok (map (fun g => cm (group_scores gs g) t) (groups gs)) /\
  forall g, let sc := score_class (base gs) in let ec := equal_class (base gs) in
    cm (group_scores gs g) t = mkCmz
      (count (fun p => has_label g p && dec sc ec (fst p) t) (pairs_pos gs))
      (count (fun p => has_label g p && ndec sc ec (fst p) t) (pairs_pos gs))
      (count (fun p => has_label g p && dec sc ec (fst p) t) (pairs_neg gs))
      (count (fun p => has_label g p && ndec sc ec (fst p) t) (pairs_neg gs)).
Proof. exact (fun gs t W => conj (group_cm_spec gs t) (fun g => group_cm_counts gs g t W)). Qed.
Print Assumptions C12_group_cm_filtered.

(* the per-group matrices sum to the overall matrix at every threshold, when every label occurs in
   `groups` and `groups` has no duplicates (both hold for the default group list, C12_default_groups) *)
Theorem C12_group_cm_sum : forall gs t,
  gwf gs -> easy_pos (base gs) = 0 -> easy_neg (base gs) = 0 -> NoDup (groups gs) ->
  (forall p, In p (pairs_pos gs ++ pairs_neg gs) -> In (snd p) (groups gs)) ->
  cmz_sum (map (fun g => cm (group_scores gs g) t) (groups gs)) = cm (base gs) t.
Proof. exact group_cm_sum. Qed.
Print Assumptions C12_group_cm_sum.

(* groupwise(metric) = the metric applied group by group, in the order of `groups` *)
Theorem C12_groupwise : forall (A : Type) (metric : scores -> A) gs,
  groupwise metric gs = Ok (map (fun g => metric (group_scores gs g)) (groups gs)).
Proof. exact (fun A metric gs => groupwise_spec metric gs). Qed.
Print Assumptions C12_groupwise.

(* every sampling mode (replacement / single_pass / dynamic x None / by_label / by_group): every
   sampled (score, label) pair is a pair of the source's same class; arrays stay aligned; the list
   and order of group names, the flags and "no easy samples" are preserved *)
Theorem C12_sampling_keeps_pairs : forall argsort, argsort_ok argsort ->
  forall gs c gf h b rest calls,
  not_callable c -> gwf gs ->
  g_bootstrap_sample argsort c gf gs h = Ok (b, rest, calls) -> Forall draw_ok calls ->
  incl (pairs_pos b) (pairs_pos gs) /\ incl (pairs_neg b) (pairs_neg gs) /\ gwf b /\
  groups b = groups gs /\
  score_class (base b) = score_class (base gs) /\ equal_class (base b) = equal_class (base gs) /\
  easy_pos (base b) = 0 /\ easy_neg (base b) = 0.
Proof. intros a [Hp Hs]. exact (g_bs_pairs a Hp Hs). Qed.
Print Assumptions C12_sampling_keeps_pairs.

(* None / by_label: the sampled pair multiset is exactly the image of the drawn indices *)
Theorem C12_sampling_image : forall argsort, argsort_ok argsort ->
  forall gs c gf h b rest calls,
  not_callable c -> gwf gs -> stratified_sampling c <> SByGroup ->
  g_bootstrap_sample argsort c gf gs h = Ok (b, rest, calls) ->
  exists r, sample_indices (base gs) (is_by_label c) (is_sp (g_resolve_method gs c)) h = Ok (r, rest, calls) /\
    Permutation (pairs_pos b) (take_idx (0%Q, 0) (pairs_pos gs) (pos_idx r)) /\
    Permutation (pairs_neg b) (take_idx (0%Q, 0) (pairs_neg gs) (neg_idx r)).
Proof. intros a [Hp Hs]. exact (g_bs_image a Hp Hs). Qed.
Print Assumptions C12_sampling_image.

(* the sample's scores are sorted (single pass passes is_sorted=True: justified when the source is sorted) *)
Theorem C12_sampling_sorted : forall argsort, argsort_ok argsort ->
  forall gs c gf h b rest calls,
  not_callable c -> wf (base gs) ->
  g_bootstrap_sample argsort c gf gs h = Ok (b, rest, calls) -> Forall draw_ok calls -> wf (base b).
Proof. intros a [Hp Hs]. exact (g_bs_wf a Hs). Qed.
Print Assumptions C12_sampling_sorted.

(* stratifying by group (replacement sampling) preserves each group's sample count *)
Theorem C12_by_group_count : forall argsort, argsort_ok argsort ->
  forall gs c gf h b rest calls g,
  not_callable c -> gwf gs -> stratified_sampling c = SByGroup -> g_resolve_method gs c = MReplacement ->
  NoDup (groups gs) -> In g (groups gs) ->
  g_bootstrap_sample argsort c gf gs h = Ok (b, rest, calls) -> Forall draw_ok calls ->
  group_count g b = group_count g gs.
Proof. intros a [Hp Hs]. exact (g_bs_by_group_count a Hp Hs). Qed.
Print Assumptions C12_by_group_count.

(* non-vacuity: the executable argsort satisfies the contract, and a concrete by_group sample *)
Theorem C12_argsort_instance : argsort_ok iargsort.
Proof. exact (conj iargsort_perm iargsort_sorted). Qed.
Print Assumptions C12_argsort_instance.

Example C12_example :
  let gs := mk_gscores iargsort [31#1; 10#1; 21#1]%Q [15#1; 6#1]%Q [1; 0; 1] [1; 0] Pos Pos None false in
  let c := mkConfig MReplacement SByGroup false None in
  let h := [DBinom 2 (1#2) 1; DBinom 1 (0#1) 0; DBinom 1 (0#1) 0; DChoice 1 1 [0]; DChoice 1 1 [0];
            DBinom 3 (2#3) 2; DBinom 2 (0#1) 0; DBinom 1 (0#1) 0; DChoice 2 2 [1; 1]; DChoice 1 1 [0]] in
  pairs_pos gs = [((10#1)%Q, 0); ((21#1)%Q, 1); ((31#1)%Q, 1)] /\ groups gs = [0; 1] /\
  exists b calls, g_bootstrap_sample iargsort c (fun x => x) gs h = Ok (b, [], calls) /\ Forall draw_ok calls /\
    pairs_pos b = [((10#1)%Q, 0); ((31#1)%Q, 1); ((31#1)%Q, 1)] /\ pairs_neg b = [((6#1)%Q, 0); ((15#1)%Q, 1)] /\
    group_count 1 b = 3.
Proof.
  split; [reflexivity|]. split; [reflexivity|]. eexists. eexists.
  split; [vm_compute; reflexivity|]. split.
  - repeat constructor; try (vm_compute; congruence); try (intro Hq; vm_compute in Hq; discriminate).
  - split; [reflexivity|]. split; reflexivity.
Qed.
