From SA Require Import Model.Group.
Example C12_stub : True. Proof. exact I. Qed.
