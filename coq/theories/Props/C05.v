(* Props/C05.v — property C05: statements only.
   Multiclass confusion matrices: faithful construction, equivalent inputs, conservative one-vs-all,
   per-class metrics (shape, as_dict, permutation equivariance), accuracy = trace / population.
   A stacked input of leading shape X is the pointwise map of what is stated here for one matrix. *)
From SA Require Import Model.Multiclass Proofs.MetricsFacts Proofs.MulticlassFacts.
Open Scope Q_scope.

(* entry [i][j] = total weight of the samples with label class i and predicted class j;
   the result is an N x N matrix *)
Theorem C05_entry : forall classes samples M, NoDup classes ->
  assign_from_predictions classes samples = Some M ->
  square (length classes) M /\
  forall i j, (i < length classes)%nat -> (j < length classes)%nat ->
    entry M i j == wsum (nth i classes 0%Z) (nth j classes 0%Z) samples.
Proof. exact assign_entry. Qed.
Print Assumptions C05_entry.

(* the construction returns a matrix (no KeyError) exactly when all labels and predictions are classes *)
Theorem C05_construction_defined : forall classes samples,
  (exists M, assign_from_predictions classes samples = Some M) <->
  Forall (fun s => In (s_label s) classes /\ In (s_pred s) classes) samples.
Proof. exact assign_defined. Qed.
Print Assumptions C05_construction_defined.

(* classes=None: the sorted distinct labels and predictions; duplicate-free and covering every sample *)
Theorem C05_implicit_classes : forall samples,
  NoDup (implicit_classes samples) /\ StronglySorted Z.lt (implicit_classes samples) /\
  Forall (fun s => In (s_label s) (implicit_classes samples) /\ In (s_pred s) (implicit_classes samples)) samples.
Proof. exact implicit_classes_ok. Qed.
Print Assumptions C05_implicit_classes.

(* equivalent inputs: a dict of dicts and a DataFrame (rows and columns in any orders) that represent the
   same table f yield, for any requested class order cs over the same class set, the matrix
   [[f r c for c in cs] for r in cs] - which is also what nested lists in that order are *)
Theorem C05_inputs_agree : forall f d df cs,
  dict_repr d f -> df_repr df f ->
  (forall c, In c cs <-> In c (map fst d)) -> (forall c, In c cs <-> In c (df_rows df)) ->
  from_dict d (Some cs) = Some (tabulate f cs, cs) /\
  from_df df (Some cs) = Some (tabulate f cs, cs) /\
  from_array (tabulate f cs) (Some cs) false = (tabulate f cs, cs) /\
  from_dict d None = Some (tabulate f (map fst d), map fst d) /\
  from_df df None = Some (tabulate f (df_rows df), df_rows df).
Proof. exact c05_inputs_agree_proof. Qed.
Print Assumptions C05_inputs_agree.

(* ... and the matrix built from labels/predictions/weights in class order cs is that table for
   f = total weight per (label, prediction) *)
Theorem C05_labels_agree : forall cs samples M, NoDup cs -> assign_from_predictions cs samples = Some M ->
  square (length cs) M /\ square (length cs) (tabulate (fun a b => wsum a b samples) cs) /\
  forall i j, (i < length cs)%nat -> (j < length cs)%nat ->
    entry M i j == entry (tabulate (fun a b => wsum a b samples) cs) i j.
Proof. exact c05_labels_agree_proof. Qed.
Print Assumptions C05_labels_agree.

(* any class reordering (sigma: positions in the old order) permutes rows and columns:
   entry [a][b] of the reordered matrix is entry [sigma a][sigma b] of the original *)
Theorem C05_reorder : forall f cs sigma, Forall (fun i => (i < length cs)%nat) sigma ->
  tabulate f (map (fun i => nth i cs 0%Z) sigma) = permute (tabulate f cs) sigma /\
  forall a b, (a < length sigma)%nat -> (b < length sigma)%nat ->
    entry (permute (tabulate f cs) sigma) a b = entry (tabulate f cs) (nth a sigma 0%nat) (nth b sigma 0%nat).
Proof. exact c05_reorder_proof. Qed.
Print Assumptions C05_reorder.

(* one-vs-all: N matrices; each 2x2 sums to the population, TP_j on the diagonal, P_j the row sum,
   TOP_j the column sum (sums over the entries of row / column j) *)
Theorem C05_one_vs_all : forall n M, square n M ->
  length (one_vs_all M n) = n /\
  forall j, (j < n)%nat ->
    let m := nth j (one_vs_all M n) (Build_cm2 0 0 0 0) in
    pop m == total M /\ tp m = entry M j j /\
    p m == sumQ (map (fun k => entry M j k) (seq 0 n)) /\
    top m == sumQ (map (fun i => entry M i j) (seq 0 n)).
Proof. exact c05_one_vs_all_proof. Qed.
Print Assumptions C05_one_vs_all.

(* for a non-negative matrix every one-vs-all cell is non-negative - in particular TN_j >= 0, which the
   repaired code (TN_j = direct sum of the entries outside row j and column j, /repo f952c55) also gives in
   floating point - and therefore every per-class rate lies in [0,1] (or is NaN) *)
Theorem C05_one_vs_all_nonneg : forall M j, mat_nonneg M -> nonneg (ova_one M j).
Proof. exact ova_one_nonneg. Qed.
Print Assumptions C05_one_vs_all_nonneg.

Theorem C05_per_class_rates_in01 : forall M N, mat_nonneg M ->
  Forall (fun m => in01 (tpr m) /\ in01 (fnr m) /\ in01 (tnr m) /\ in01 (fpr m) /\ in01 (ppv m) /\ in01 (npv m) /\
                   in01 (fdr m) /\ in01 (for_ m) /\ in01 (topr m) /\ in01 (tonr m) /\ in01 (accuracy m) /\
                   in01 (error_rate m)) (one_vs_all M N).
Proof. exact per_class_rates_in01. Qed.
Print Assumptions C05_per_class_rates_in01.

(* TN_j is the sum of the entries outside row j and column j = population - row j - column j + M[j][j] *)
Theorem C05_tn_direct_sum : forall M j,
  tn (ova_one M j) = total (others M j) /\
  total (others M j) == total M - row_sum M j - col_sum M j + entry M j j.
Proof. exact c05_tn_direct_sum_proof. Qed.
Print Assumptions C05_tn_direct_sum.

(* per-class metrics are equivariant under class permutation: the vector of the permuted matrix is
   the vector of the original re-indexed by the permutation - for every count, every rate ... *)
Theorem C05_per_class_permute : forall N M sigma, square N M -> Permutation sigma (seq 0 N) ->
  (forall f, In f [tp; tn; fp; fn; p; n; top; ton; pop] ->
     Forall2 Qeq (map f (one_vs_all (permute M sigma) N)) (map (fun i => nth i (map f (one_vs_all M N)) 0) sigma)) /\
  (forall f, In f [tpr; tnr; fpr; fnr; tar; frr; trr; far; topr; tonr; acceptance_rate; rejection_rate;
                   ppv; npv; fdr; for_; accuracy; error_rate] ->
     Forall2 req (map f (one_vs_all (permute M sigma) N)) (map (fun i => nth i (map f (one_vs_all M N)) None) sigma)).
Proof. exact c05_per_class_permute_proof. Qed.
Print Assumptions C05_per_class_permute.

(* ... and every interval (sqrt as a function of the value of its argument is the only hypothesis) *)
Theorem C05_per_class_permute_ci : forall (isf sqrtQ : Q -> Q), (forall x y, x == y -> sqrtQ x == sqrtQ y) ->
  forall alpha n M sigma, square n M -> Permutation sigma (seq 0 n) ->
  forall f, In f [tpr_ci isf sqrtQ; tnr_ci isf sqrtQ; fpr_ci isf sqrtQ; fnr_ci isf sqrtQ] ->
    Forall2 ci_req (map (fun m => f m alpha) (one_vs_all (permute M sigma) n))
                   (map (fun i => nth i (map (fun m => f m alpha) (one_vs_all M n)) (None, None)) sigma).
Proof. exact c05_per_class_permute_ci_proof. Qed.
Print Assumptions C05_per_class_permute_ci.

(* the wrapper: without as_dict an array with one entry per class (shape X + (N,)), entry j being the metric
   of the j-th one-vs-all matrix; with as_dict a dict keyed by the classes whose value at class j is entry j *)
Theorem C05_as_dict : forall (A : Type) (dflt : A) (metric : cm2 -> A) M classes, NoDup classes ->
  exists l, cm_class_metric dflt metric M classes false false = PerClass l /\ length l = length classes /\
    (forall j, (j < length classes)%nat -> nth j l dflt = metric (ova_one M j)) /\
    exists dct, cm_class_metric dflt metric M classes false true = AsDict dct /\ map fst dct = classes /\
      forall j, (j < length classes)%nat -> dict_last (nth j classes 0%Z) dct = Some (nth j l dflt).
Proof. exact @cm_class_metric_forms. Qed.
Print Assumptions C05_as_dict.

(* accuracy = trace / population, the trace being the sum of the per-class TP; for N = 2 it is the binary accuracy *)
Theorem C05_accuracy : forall M,
  accuracyN M = rdiv (traceN M) (popN M) /\ traceN M = sumQ (map tp (one_vs_all M (length M))) /\
  (square 2 M -> req (accuracyN M) (accuracy (cm2_of_mat M))).
Proof. exact c05_accuracy_proof. Qed.
Print Assumptions C05_accuracy.

(* a concrete non-trivial instance: 3 classes given in the order [2;0;1], weighted samples, a class permutation *)
Example C05_example :
  let classes := [2; 0; 1]%Z in
  let samples : list sample := [(0%Z, 0%Z, 1); (0%Z, 1%Z, 2); (1%Z, 1%Z, 1#2); (2%Z, 0%Z, 3); (2%Z, 2%Z, 1); (0%Z, 1%Z, 1)] in
  NoDup classes /\
  assign_from_predictions classes samples = Some [[1; 3; 0]; [0; 1; 0 + 2 + 1]; [0; 0; 1#2]] /\
  implicit_classes samples = [0; 1; 2]%Z /\
  Permutation [1; 2; 0]%nat (seq 0 3) /\
  Forall2 cm2_eq (one_vs_all [[1; 3; 0]; [0; 1; 3]; [0; 0; 1#2]] 3)
    [Build_cm2 1 3 0 (9#2); Build_cm2 1 3 3 (3#2); Build_cm2 (1#2) 0 3 5] /\
  map tpr (one_vs_all [[1; 3; 0]; [0; 1; 3]; [0; 0; 1#2]] 3) <> map tpr (one_vs_all (permute [[1; 3; 0]; [0; 1; 3]; [0; 0; 1#2]] [1; 2; 0]%nat) 3).
Proof. exact c05_example_proof. Qed.

(* ---------- narrow integer dtypes (open known finding, DESIGN 12.3): the property quantifies over "all non-negative integer
   or float matrices"; a matrix held in uint8 / uint16 is one.  Model/NarrowInt.v writes the wrap of the two-cell sums into
   the model explicitly. ---------- *)
From SA Require Model.NarrowInt.
Section NarrowInt.
Import NarrowInt.
Local Open Scope Z_scope.
(* one-vs-all on the uint8 matrix [[200,100,3],[50,200,7],[1,2,250]]: class 0 gets TN = 459 mod 256 = 203 and the 2x2 matrix
   does not conserve the population 813 (open known finding C05; replayed on the implementation by the check) *)
Theorem C05_narrow_int_refuted : exists M, Forall (Forall (fun v => 0 <= v < 2 ^ 8)) M /\
  tn (ova_u 8 M 0) = 203 /\ pop_u (ova_u 8 M 0) <> total M.
Proof.
  exists [[200; 100; 3]; [50; 200; 7]; [1; 2; 250]].
  split; [repeat constructor; lia|]. split; [reflexivity|vm_compute; discriminate].
Qed.
Print Assumptions C05_narrow_int_refuted.
End NarrowInt.
