(* Props/C15.v — property C15: ROC curves are genuine operating points, ordered along the chosen x-axis.
   Statements only; proofs in Proofs/RocFacts.v; model in Model/Roc.v (roc, _find_support_thresholds with every
   branch, the ROCCurve views).  succ/pred = np.nextafter (arbitrary functions: none of the clauses below depends on
   what the sentinels are).  fnr / fpr / thresholds = None or Some array; nb_points = None or Some n;
   x_axis = XName a (one of the eight accepted names) or XOther (any other string). *)
From SA Require Import Model.Roc Proofs.RocFacts.
Open Scope Q_scope.

(* roc() returns thresholds, FNR and FPR of equal length, and FNR / FPR are exactly the object's rates at the RETURNED
   thresholds (which are the support thresholds computed with nb_extra_points = None); no bands.
   That the Python roc() evaluates scores.fnr / scores.fpr on the returned array and stores them in these slots is
   re-established from the current source on every run (coq/ties/Tie_roc.v: tie_roc). *)
Theorem C15_rates_at_thresholds :
  forall (succ pred : Q -> Q) s fnr fpr thresholds nb_points x c,
  roc succ pred s fnr fpr thresholds nb_points x = Ret c ->
  find_support_thresholds succ pred s fnr fpr thresholds nb_points None x = Ret (rc_thresholds c) /\
  rc_fnr c = map (fun t => s_fnr s (Fin t)) (rc_thresholds c) /\
  rc_fpr c = map (fun t => s_fpr s (Fin t)) (rc_thresholds c) /\
  length (rc_fnr c) = length (rc_thresholds c) /\ length (rc_fpr c) = length (rc_thresholds c) /\
  rc_fnr_ci c = None /\ rc_fpr_ci c = None.
Proof. exact roc_rates. Qed.
Print Assumptions C15_rates_at_thresholds.

(* the metric named by x_axis — any of the eight names, read off the returned curve through the corresponding
   ROCCurve attribute — is non-decreasing along the curve: all four configurations (both score directions), ties,
   easy samples (counts >= 0), every combination of supplied arrays and nb_points.  [nondecreasing] is pairwise
   (StronglySorted), on possibly-NaN rates (a rate is NaN at every threshold or at none). *)
Theorem C15_monotone :
  forall (succ pred : Q -> Q) s fnr fpr thresholds nb_points a c,
  easy_ok s -> roc succ pred s fnr fpr thresholds nb_points (XName a) = Ret c -> nondecreasing (view a c).
Proof. exact roc_monotone. Qed.
Print Assumptions C15_monotone.

(* the returned thresholds contain every user-supplied threshold and, for every supplied FNR / FPR value, the
   threshold that threshold setting (threshold_at_fnr / threshold_at_fpr, default method) assigns to it.
   Stated for _find_support_thresholds with any nb_extra_points, so it covers roc (None) and roc_with_ci (20). *)
Theorem C15_contains :
  forall (succ pred : Q -> Q) s fnr fpr thresholds nb_points nb_extra x th,
  find_support_thresholds succ pred s fnr fpr thresholds nb_points nb_extra x = Ret th ->
  (forall t, In t (opt_list thresholds) -> In t th) /\
  (forall r, In r (opt_list fnr) -> exists t, threshold_at_fnr succ pred s r Linear = Ret t /\ In t th) /\
  (forall r, In r (opt_list fpr) -> exists t, threshold_at_fpr succ pred s r Linear = Ret t /\ In t th).
Proof. exact find_support_contains. Qed.
Print Assumptions C15_contains.

(* with no points supplied: exactly nb_points points, or one per scored sample when nb_points is None *)
Theorem C15_length_nb_points :
  forall (succ pred : Q -> Q) s n x th,
  find_support_thresholds succ pred s None None None (Some n) None x = Ret th -> len th = n.
Proof. exact find_support_len_nb_points. Qed.
Print Assumptions C15_length_nb_points.
Theorem C15_length_all_scores :
  forall (succ pred : Q -> Q) s x th,
  find_support_thresholds succ pred s None None None None None x = Ret th -> len th = (len (pos s) + len (neg s))%Z.
Proof. exact find_support_len_all_scores. Qed.
Print Assumptions C15_length_all_scores.

(* roc() returns a curve whenever both classes are non-empty, the axis name is one of the eight and nb_points is
   None or non-negative; any other axis name raises *)
Theorem C15_defined :
  forall (succ pred : Q -> Q) s fnr fpr thresholds nb_points a,
  len (pos s) <> 0%Z -> len (neg s) <> 0%Z -> (forall n, nb_points = Some n -> (0 <= n)%Z) ->
  exists c, roc succ pred s fnr fpr thresholds nb_points (XName a) = Ret c.
Proof. exact roc_defined. Qed.
Print Assumptions C15_defined.
Theorem C15_unknown_axis_raises :
  forall (succ pred : Q -> Q) s fnr fpr thresholds nb_points,
  roc succ pred s fnr fpr thresholds nb_points XOther = Raise.
Proof. exact roc_unknown_axis_raises. Qed.
Print Assumptions C15_unknown_axis_raises.

(* derived views: TPR / TNR are the complements of FNR / FPR, FRR / FAR / TAR / TRR are aliases, and the complements
   are the object's own TPR / TNR at the returned thresholds ([req]: equal as rationals, NaN together) *)
Theorem C15_views :
  forall (succ pred : Q -> Q) s fnr fpr thresholds nb_points x c,
  roc succ pred s fnr fpr thresholds nb_points x = Ret c ->
  v_tpr c = map rcompl (rc_fnr c) /\ v_tnr c = map rcompl (rc_fpr c) /\
  v_frr c = rc_fnr c /\ v_far c = rc_fpr c /\ v_tar c = v_tpr c /\ v_trr c = v_tnr c /\
  Forall2 req (v_tpr c) (map (fun t => s_tpr s (Fin t)) (rc_thresholds c)) /\
  Forall2 req (v_tnr c) (map (fun t => s_tnr s (Fin t)) (rc_thresholds c)) /\
  v_tpr_ci c = None /\ v_tnr_ci c = None /\ v_frr_ci c = None /\ v_far_ci c = None /\ v_tar_ci c = None /\ v_trr_ci c = None.
Proof. exact roc_views. Qed.
Print Assumptions C15_views.
(* the _ci views of a curve with bands: last axis reversed and complemented *)
Theorem C15_ci_view :
  forall ci j lo hi, nth j ci (None, None) = (lo, hi) -> nth j (compl_ci ci) (None, None) = (rcompl hi, rcompl lo).
Proof. exact compl_ci_nth. Qed.
Print Assumptions C15_ci_view.

(* the hypotheses are met by a concrete non-trivial instance: ties across classes, easy positives, low scores
   positive; x_axis = "tpr"; 5 points; the curve has 3 distinct operating points and TPR is non-decreasing *)
Example C15_example :
  match roc succ64 pred64 (mk_scores [1#1; 2#1; 2#1; 4#1] [2#1; 3#1; 5#1; 5#1] 4 0 Neg Pos false)
            None None None (Some 5%Z) (XName XTpr) with
  | Ret c => Z.eqb (len (rc_thresholds c)) 5 &&
             match v_tpr c with
             | [Some a; Some b; Some c'; Some d; Some e] =>
                 Qleb a b && Qleb b c' && Qleb c' d && Qleb d e && Qltb a e
             | _ => false
             end
  | Raise => false
  end = true.
Proof. vm_compute. reflexivity. Qed.
Example C15_example_hyp : easy_ok (mk_scores [1#1; 2#1; 2#1; 4#1] [2#1; 3#1; 5#1; 5#1] 4 0 Neg Pos false).
Proof. split; simpl; lia. Qed.
