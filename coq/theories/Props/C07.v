(* Props/C07.v — property C07: AUC equals the Mann-Whitney statistic; partial AUC is the exact
   step-ROC area.  Statements only; proofs in Proofs/{Trapz,Window,Clamp,Auc,AucStep}Facts.v.
   Model: Model/Auc.v ([auc succ pred s lower upper x_axis y_axis], literal transcription of
   Scores.auc: points one ulp either side of every score, sort, two rate vectors, reversal test,
   two searchsorted cuts, index clamps, flat extension, trapezoid rule, abs).
   succ/pred = np.nextafter(., +inf / -inf), abstract: any [carrier isD succ pred] (Base/Carrier.v);
   [isD] = representable values.  Scores are quantified as [scores] records; sortedness of the two
   classes ([wf s], established by the constructor) is only needed where stated. *)
From SA Require Import Model.Auc Model.Harness Proofs.ClampFacts Proofs.AucFacts Proofs.AucStepFacts Proofs.CarrierB64.
Open Scope Q_scope.

(* ---- reference quantities, spelled out ---- *)
(* pair kernel: 1 if the positive p lies on the positive side of the negative n (direction given by
   score_class), 1/2 for a tie, 0 otherwise *)
Definition C07_k (sc : label) (p n : Q) : Q :=
  match sc with
  | Pos => if Qltb n p then 1 else if Qltb p n then 0 else 1#2
  | Neg => if Qltb p n then 1 else if Qltb n p then 0 else 1#2
  end.
(* Mann-Whitney statistic over ALL samples: scored pairs, every easy positive beats every negative
   (scored or easy), every easy negative loses against every scored positive *)
Definition C07_mw (s : scores) : Q :=
  (Qsum (map (fun p => Qsum (map (fun n => C07_k (score_class s) p n) (neg s))) (pos s))
   + inject_Z (easy_pos s * (len (neg s) + easy_neg s) + easy_neg s * len (pos s)))
  / inject_Z ((len (pos s) + easy_pos s) * (len (neg s) + easy_neg s)).

(* area under the empirical step ROC between lo and up (fpr on x, tpr on y): the negatives in the
   order in which they become false positives (descending for score_class = pos, ascending for neg);
   over the j-th FPR cell [j/N_all, (j+1)/N_all] the curve has the height
   (#positives strictly beyond that negative + easy positives)/P_all; beyond the last scored negative
   (easy negatives) the height is 1.  [ovl a b lo up] = length of [a,b] /\ [lo,up];
   [wsum w j l g] = sum_i w(j+i) * g(l_i). *)
Definition C07_step_area (s : scores) (lo up : Q) : Q :=
  let N_all := inject_Z (len (neg s) + easy_neg s) in
  let P_all := inject_Z (len (pos s) + easy_pos s) in
  wsum (fun j => ovl (inject_Z j / N_all) (inject_Z (j + 1) / N_all) lo up) 0
       (match score_class s with Pos => rev (neg s) | Neg => neg s end)
       (fun n => inject_Z (count (fun p => match score_class s with Pos => Qltb n p | Neg => Qltb p n end) (pos s)
                           + easy_pos s) / P_all)
  + ovl (inject_Z (len (neg s)) / N_all) 1 lo up * 1.

(* ---- clause 1: full AUC = Mann-Whitney; all score lists (ties of any kind, adjacent doubles
   included), all easy counts, all four (score_class, equal_class) configurations ---- *)
Theorem C07_full_auc_mw :
  forall (isD : Q -> Prop) (succ pred : Q -> Q), carrier isD succ pred ->
  forall s : scores,
  pos s <> [] -> neg s <> [] -> (0 <= easy_pos s)%Z -> (0 <= easy_neg s)%Z -> Forall isD (pos s ++ neg s) ->
  auc succ pred s 0 1 AFpr ATpr == C07_mw s.
Proof. exact stmt_full_auc_mw. Qed.
Print Assumptions C07_full_auc_mw.

(* ... hence independent of equal_class *)
Theorem C07_full_auc_indep_equal_class :
  forall (isD : Q -> Prop) (succ pred : Q -> Q), carrier isD succ pred ->
  forall (ps ns : list Q) (ep en : Z) (sc ec ec' : label),
  ps <> [] -> ns <> [] -> (0 <= ep)%Z -> (0 <= en)%Z -> Forall isD (ps ++ ns) ->
  auc succ pred (mkScores ps ns ep en sc ec) 0 1 AFpr ATpr == auc succ pred (mkScores ps ns ep en sc ec') 0 1 AFpr ATpr.
Proof. exact stmt_indep_equal_class. Qed.
Print Assumptions C07_full_auc_indep_equal_class.

(* ---- clause: complementing the y-axis, every window lower <= upper (ties allowed) ---- *)
Theorem C07_complement_y :
  forall (isD : Q -> Prop) (succ pred : Q -> Q), carrier isD succ pred ->
  forall (s : scores) (lower upper : Q),
  pos s <> [] -> neg s <> [] -> (0 <= easy_pos s)%Z -> (0 <= easy_neg s)%Z -> lower <= upper ->
  auc succ pred s lower upper AFpr AFnr == (upper - lower) - auc succ pred s lower upper AFpr ATpr.
Proof. exact stmt_complement_y. Qed.
Print Assumptions C07_complement_y.

(* ---- clause: complementing the x-axis mirrors the interval, every window (ties allowed) ---- *)
Theorem C07_mirror_x :
  forall (isD : Q -> Prop) (succ pred : Q -> Q), carrier isD succ pred ->
  forall (s : scores) (lower upper : Q),
  pos s <> [] -> neg s <> [] -> (0 <= easy_pos s)%Z -> (0 <= easy_neg s)%Z ->
  auc succ pred s (1 - upper) (1 - lower) ATnr ATpr == auc succ pred s lower upper AFpr ATpr.
Proof. exact stmt_mirror_x. Qed.
Print Assumptions C07_mirror_x.

(* ---- clause: exchanging the axes over the full range (ties allowed) ---- *)
Theorem C07_swap_axes_full :
  forall (isD : Q -> Prop) (succ pred : Q -> Q), carrier isD succ pred ->
  forall s : scores,
  pos s <> [] -> neg s <> [] -> (0 <= easy_pos s)%Z -> (0 <= easy_neg s)%Z ->
  auc succ pred s 0 1 ATpr AFpr == 1 - auc succ pred s 0 1 AFpr ATpr.
Proof. exact stmt_swap_axes_full. Qed.
Print Assumptions C07_swap_axes_full.

(* ---- clause: partial AUC = exact step area; no value shared between the classes (ties inside a
   class allowed), every window 0 <= lower <= upper <= 1 on or off the rate grid ---- *)
Theorem C07_partial_step_area :
  forall (isD : Q -> Prop) (succ pred : Q -> Q), carrier isD succ pred ->
  forall (s : scores) (lower upper : Q),
  wf s -> pos s <> [] -> neg s <> [] -> (0 <= easy_pos s)%Z -> (0 <= easy_neg s)%Z -> Forall isD (pos s ++ neg s) ->
  (forall p n, In p (pos s) -> In n (neg s) -> ~ p == n) ->
  0 <= lower -> lower <= upper -> upper <= 1 ->
  auc succ pred s lower upper AFpr ATpr == C07_step_area s lower upper.
Proof. exact stmt_partial_step_area. Qed.
Print Assumptions C07_partial_step_area.

(* ... so it is additive over adjacent intervals *)
Theorem C07_partial_additive :
  forall (isD : Q -> Prop) (succ pred : Q -> Q), carrier isD succ pred ->
  forall (s : scores) (lower mid upper : Q),
  wf s -> pos s <> [] -> neg s <> [] -> (0 <= easy_pos s)%Z -> (0 <= easy_neg s)%Z -> Forall isD (pos s ++ neg s) ->
  (forall p n, In p (pos s) -> In n (neg s) -> ~ p == n) ->
  0 <= lower -> lower <= mid -> mid <= upper -> upper <= 1 ->
  auc succ pred s lower mid AFpr ATpr + auc succ pred s mid upper AFpr ATpr == auc succ pred s lower upper AFpr ATpr.
Proof. exact stmt_partial_additive. Qed.
Print Assumptions C07_partial_additive.

(* ... and at most upper - lower (this one holds with ties and for any lower <= upper) *)
Theorem C07_partial_le_width :
  forall (isD : Q -> Prop) (succ pred : Q -> Q), carrier isD succ pred ->
  forall (s : scores) (lower upper : Q),
  pos s <> [] -> neg s <> [] -> (0 <= easy_pos s)%Z -> (0 <= easy_neg s)%Z -> lower <= upper ->
  0 <= auc succ pred s lower upper AFpr ATpr /\ auc succ pred s lower upper AFpr ATpr <= upper - lower.
Proof. exact stmt_partial_le_width. Qed.
Print Assumptions C07_partial_le_width.

(* ---- the carrier hypothesis holds for the executable binary64 nextafter of the model (the functions every
   correspondence run compares bit for bit with np.nextafter): [isD64] = the rationals m * 2^e with |m| < 2^53,
   e >= -1074 (no overflow bound: the model has no infinities), proved in Proofs/CarrierB64.v from the definitions of
   succ64 / pred64, pure Q / Z arithmetic ---- *)
Theorem C07_binary64_is_a_carrier : carrier isD64 succ64 pred64.
Proof. exact b64_carrier. Qed.
Print Assumptions C07_binary64_is_a_carrier.

(* ... so clause 1 holds of the binary64 model without any hypothesis on nextafter *)
Theorem C07_full_auc_mw_binary64 :
  forall s : scores,
  pos s <> [] -> neg s <> [] -> (0 <= easy_pos s)%Z -> (0 <= easy_neg s)%Z -> Forall isD64 (pos s ++ neg s) ->
  auc succ64 pred64 s 0 1 AFpr ATpr == C07_mw s.
Proof. exact (C07_full_auc_mw isD64 succ64 pred64 b64_carrier). Qed.
Print Assumptions C07_full_auc_mw_binary64.

(* the hypotheses are satisfiable (toy carrier: the integers with +-1) *)
Example C07_example_hyps :
  let s := mk_scores [3; 1; 3; 5] [4; 0; 3] 1 2 Pos Neg false in
  carrier isInt (fun x => x + 1) (fun x => x - 1) /\ wf s /\ pos s <> [] /\ neg s <> [] /\ Forall isInt (pos s ++ neg s).
Proof.
  split; [exact int_carrier|]. split; [apply CmFacts.mk_scores_wf|]. split; [discriminate|]. split; [discriminate|].
  repeat constructor; match goal with |- isInt ?q => exists (Qnum q); reflexivity end.
Qed.

(* binary64 instance, cross-class tie 3 = 3, easy samples: value 20/25 *)
Example C07_example_full :
  let s := mk_scores [3; 1; 3; 5] [4; 0; 3] 1 2 Pos Neg false in
  Qeqb (auc succ64 pred64 s 0 1 AFpr ATpr) (C07_mw s) && Qeqb (C07_mw s) (4#5)
  && Qeqb (auc succ64 pred64 s 0 1 ATpr AFpr) (1#5)
  && Qeqb (auc succ64 pred64 s (1#4) (1#2) AFpr AFnr) ((1#4) - auc succ64 pred64 s (1#4) (1#2) AFpr ATpr)
  && Qeqb (auc succ64 pred64 s (1#2) (3#4) ATnr ATpr) (auc succ64 pred64 s (1#4) (1#2) AFpr ATpr) = true.
Proof. vm_compute. reflexivity. Qed.

(* binary64 instance without cross-class ties, window off the rate grid *)
Example C07_example_partial :
  let s := mk_scores [2; 1; 6; 5] [4; 0; 3; 3] 0 1 Neg Pos false in
  Qeqb (auc succ64 pred64 s (1#8) (7#10) AFpr ATpr) (C07_step_area s (1#8) (7#10))
  && Qeqb (auc succ64 pred64 s (1#8) (1#3) AFpr ATpr + auc succ64 pred64 s (1#3) (7#10) AFpr ATpr)
          (auc succ64 pred64 s (1#8) (7#10) AFpr ATpr) = true.
Proof. vm_compute. reflexivity. Qed.
