From SA Require Import Model.Auc.
Example C07_placeholder : trapz [1; 1] [0; 1] == 1.
Proof. reflexivity. Qed.
