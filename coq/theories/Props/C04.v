(* Props/C04.v — property C04: statements only. *)
From SA Require Import Model.Metrics Proofs.MetricsFacts.
Open Scope Q_scope.

Theorem C04_counts_add : forall m, p m + n m == pop m /\ top m + ton m == pop m.
Proof. exact counts_add. Qed.
Print Assumptions C04_counts_add.

(* complements: each pair sums to 1 when defined and is NaN together otherwise *)
Theorem C04_complements : forall m,
  sum_to_one (tpr m) (fnr m) /\ sum_to_one (tnr m) (fpr m) /\ sum_to_one (ppv m) (fdr m) /\
  sum_to_one (npv m) (for_ m) /\ sum_to_one (topr m) (tonr m) /\ sum_to_one (accuracy m) (error_rate m).
Proof. intro m. repeat split; [apply tpr_fnr|apply tnr_fpr|apply ppv_fdr|apply npv_for|apply topr_tonr|apply acc_err]. Qed.
Print Assumptions C04_complements.

Theorem C04_rates_in01 : forall m, nonneg m ->
  in01 (tpr m) /\ in01 (fnr m) /\ in01 (tnr m) /\ in01 (fpr m) /\ in01 (ppv m) /\ in01 (npv m) /\
  in01 (fdr m) /\ in01 (for_ m) /\ in01 (topr m) /\ in01 (tonr m) /\ in01 (accuracy m) /\ in01 (error_rate m).
Proof. exact rates_in01. Qed.
Print Assumptions C04_rates_in01.

Theorem C04_nan_rule : forall m,
  (tpr m = None <-> p m == 0) /\ (fnr m = None <-> p m == 0) /\
  (tnr m = None <-> n m == 0) /\ (fpr m = None <-> n m == 0) /\
  (ppv m = None <-> top m == 0) /\ (fdr m = None <-> top m == 0) /\
  (npv m = None <-> ton m == 0) /\ (for_ m = None <-> ton m == 0) /\
  (topr m = None <-> pop m == 0) /\ (tonr m = None <-> pop m == 0) /\
  (accuracy m = None <-> pop m == 0) /\ (error_rate m = None <-> pop m == 0).
Proof. exact nan_rule. Qed.
Print Assumptions C04_nan_rule.

Theorem C04_definitions : forall m,
  tpr m = rdiv (tp m) (p m) /\ fnr m = rdiv (fn m) (p m) /\ tnr m = rdiv (tn m) (n m) /\
  fpr m = rdiv (fp m) (n m) /\ ppv m = rdiv (tp m) (top m) /\ topr m = rdiv (top m) (pop m) /\
  tonr m = rdiv (ton m) (pop m) /\ accuracy m = rdiv (tp m + tn m) (pop m).
Proof. exact rate_definitions. Qed.
Print Assumptions C04_definitions.

(* Confidence intervals. isf = scipy.stats.norm.isf and sqrtQ = np.sqrt are oracles; the
   hypotheses on them are part of the trusted base. *)
Theorem C04_ci_formula : forall (isf sqrtQ : Q -> Q) count nobs alpha,
  match rdiv count nobs, binomial_ci isf sqrtQ count nobs alpha with
  | None, (None, None) => True
  | Some pr, (Some lo, Some hi) =>
      lo == pr - isf (alpha / 2) * sqrtQ (pr * (1 - pr) / nobs) /\
      hi == pr + isf (alpha / 2) * sqrtQ (pr * (1 - pr) / nobs) /\
      (lo + hi) * (1#2) == pr
  | _, _ => False
  end.
Proof. exact ci_formula. Qed.
Print Assumptions C04_ci_formula.

Theorem C04_ci_nan_iff : forall (isf sqrtQ : Q -> Q) count nobs alpha,
  (fst (binomial_ci isf sqrtQ count nobs alpha) = None <-> rdiv count nobs = None) /\
  (snd (binomial_ci isf sqrtQ count nobs alpha) = None <-> rdiv count nobs = None).
Proof. exact ci_nan_iff. Qed.
Print Assumptions C04_ci_nan_iff.

Theorem C04_ci_mirror : forall (isf sqrtQ : Q -> Q),
  (forall x y, x == y -> sqrtQ x == sqrtQ y) ->
  forall m alpha,
  (req (fst (fnr_ci isf sqrtQ m alpha)) (rcompl (snd (tpr_ci isf sqrtQ m alpha))) /\
   req (snd (fnr_ci isf sqrtQ m alpha)) (rcompl (fst (tpr_ci isf sqrtQ m alpha)))) /\
  (req (fst (fpr_ci isf sqrtQ m alpha)) (rcompl (snd (tnr_ci isf sqrtQ m alpha))) /\
   req (snd (fpr_ci isf sqrtQ m alpha)) (rcompl (fst (tnr_ci isf sqrtQ m alpha)))).
Proof. intros isf sqrtQ H m alpha. split; [apply fnr_ci_mirrors_tpr_ci|apply fpr_ci_mirrors_tnr_ci]; exact H. Qed.
Print Assumptions C04_ci_mirror.

Theorem C04_ci_nested : forall (isf sqrtQ : Q -> Q),
  (forall x, 0 <= sqrtQ x) -> (forall a b, a <= b -> isf b <= isf a) ->
  forall count nobs a1 a2, a1 <= a2 ->
  match binomial_ci isf sqrtQ count nobs a1, binomial_ci isf sqrtQ count nobs a2 with
  | (Some lo1, Some hi1), (Some lo2, Some hi2) => lo1 <= lo2 /\ hi2 <= hi1
  | (None, None), (None, None) => True
  | _, _ => False
  end.
Proof. exact ci_nested. Qed.
Print Assumptions C04_ci_nested.

Example C04_example : tpr (Build_cm2 3 1 0 0) = Some (3 / (3 + 1)) /\ fpr (Build_cm2 3 1 0 0) = None.
Proof. split; reflexivity. Qed.

(* ---------- narrow integer dtypes (open known finding, DESIGN 12.3): the property quantifies over "all non-negative integer
   or float matrices"; a matrix held in uint8 / uint16 is one.  Model/NarrowInt.v writes the wrap of the two-cell sums into
   the model explicitly. ---------- *)
From SA Require Model.NarrowInt.
Section NarrowInt.
Import NarrowInt.
Local Open Scope Z_scope.
(* while the cells and their two-cell sums fit the dtype, nothing wraps: the definitions and P + N = POP hold *)
Theorem C04_narrow_int_fits : forall bits m, 0 < bits -> in_dtype bits m ->
  tp m + fn m < 2 ^ bits -> fp m + tn m < 2 ^ bits ->
  p_u bits m = tp m + fn m /\ n_u bits m = fp m + tn m /\ p_u bits m + n_u bits m = pop_u m.
Proof.
  intros bits m Hb (A & B & C & D) H1 H2. unfold p_u, n_u, pop_u, wrap.
  rewrite !Z.mod_small by lia. lia.
Qed.
(* ... and as soon as a two-cell sum does not fit, the clause "P + N = POP, every rate in [0,1]" is FALSE of the code as it
   stands: uint8 matrix [[200, 103], [51, 203]] (the open known finding; the same numbers replayed on the implementation) *)
Theorem C04_narrow_int_refuted : exists m, in_dtype 8 m /\
  p_u 8 m + n_u 8 m <> pop_u m /\ p_u 8 m = 47 /\ (1 < tpr_u 8 m)%Q.
Proof.
  exists {| tp := 200; fn := 103; fp := 51; tn := 203 |}.
  split; [unfold in_dtype; cbn; lia|]. split; [vm_compute; discriminate|]. split; [reflexivity|]. vm_compute. reflexivity.
Qed.
Print Assumptions C04_narrow_int_refuted.
End NarrowInt.
