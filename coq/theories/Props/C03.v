(* Props/C03.v — property C03: extreme operating points are honoured exactly. Statements only.
   Model = the repaired tree (fix commits 9ba2891, 33d4440 in /repo); on the original tree the
   tie lemma tie_inv_incr fails and the check replays Scores([1.5],[1.0],equal_class="neg").threshold_at_tpr(0). *)
From SA Require Import Model.Threshold Proofs.ExtremeFacts.
Open Scope Q_scope.

(* For all six metrics, all four configurations, all three methods, any easy counts >= 0 and any
   sorted score lists (any size >= 1 of the relevant class, ties allowed): a target r <= 0 gives a
   threshold at which the metric EQUALS its value at the end of the scale where it is lowest
   (-inf or +inf, according to metric and score direction), a target r >= 1 the value where it is
   highest.  succ/pred are np.nextafter towards +inf/-inf; only x < succ x and pred x < x are used. *)
Theorem C03_extremes :
  forall (succ pred : Q -> Q), (forall x, x < succ x) -> (forall x, pred x < x) ->
  forall (mt : metric6) (s : scores) (r : Q) (m : method) (T : Q),
  wf s -> (0 <= easy_pos s)%Z -> (0 <= easy_neg s)%Z ->
  threshold_at succ pred mt s r m = Ret T ->
  (r <= 0 -> metric_at mt s (Fin T) = metric_at mt s (low_end mt s)) /\
  (1 <= r -> metric_at mt s (Fin T) = metric_at mt s (high_end mt s)).
Proof. exact extremes_all. Qed.
Print Assumptions C03_extremes.

(* a threshold is returned exactly when the relevant class is non-empty (otherwise ValueError) *)
Theorem C03_defined :
  forall (succ pred : Q -> Q) (mt : metric6) (s : scores) (r : Q) (m : method),
  (exists T, threshold_at succ pred mt s r m = Ret T) <->
  match mt with MTpr | MFnr => (len (pos s) <> 0)%Z | MTnr | MFpr => (len (neg s) <> 0)%Z
           | MTopr | MTonr => (nb_hard_samples s <> 0)%Z end.
Proof. exact threshold_at_defined. Qed.
Print Assumptions C03_defined.

(* what the ends are: at reject_all nothing scored is accepted, at accept_all everything is *)
Theorem C03_ends : forall s,
  cm s (reject_all s) = mkCmz (easy_pos s) (len (pos s)) 0 (len (neg s) + easy_neg s) /\
  cm s (accept_all s) = mkCmz (len (pos s) + easy_pos s) 0 (len (neg s)) (easy_neg s).
Proof. intro s. split; [apply cm_reject_all|apply cm_accept_all]. Qed.
Print Assumptions C03_ends.

(* the examples of the property text, on the confusion matrix itself *)
Theorem C03_fpr_zero_lets_no_negative_through :
  forall (succ pred : Q -> Q), (forall x, x < succ x) -> (forall x, pred x < x) ->
  forall s r m T, sorted (neg s) -> (0 <= easy_neg s)%Z -> threshold_at_fpr succ pred s r m = Ret T ->
  r <= 0 -> cfp (cm s (Fin T)) = 0%Z.
Proof.
  intros succ pred Hs Hp s r m T Hn He HT Hr.
  destruct (extremes_fpr succ pred Hs Hp s r m T Hn He HT) as [A _]. specialize (A Hr).
  unfold neg_row in A. rewrite cm_reject_all in A. cbn in A. congruence.
Qed.
Print Assumptions C03_fpr_zero_lets_no_negative_through.

Theorem C03_tpr_one_accepts_every_positive :
  forall (succ pred : Q -> Q), (forall x, x < succ x) -> (forall x, pred x < x) ->
  forall s r m T, sorted (pos s) -> (0 <= easy_pos s)%Z -> threshold_at_tpr succ pred s r m = Ret T ->
  1 <= r -> cfn (cm s (Fin T)) = 0%Z.
Proof.
  intros succ pred Hs Hp s r m T Hn He HT Hr.
  destruct (extremes_tpr succ pred Hs Hp s r m T Hn He HT) as [_ B]. specialize (B Hr).
  unfold pos_row in B. rewrite cm_accept_all in B. cbn in B. congruence.
Qed.
Print Assumptions C03_tpr_one_accepts_every_positive.

Theorem C03_tnr_one_rejects_every_negative :
  forall (succ pred : Q -> Q), (forall x, x < succ x) -> (forall x, pred x < x) ->
  forall s r m T, sorted (neg s) -> (0 <= easy_neg s)%Z -> threshold_at_tnr succ pred s r m = Ret T ->
  1 <= r -> cfp (cm s (Fin T)) = 0%Z.
Proof.
  intros succ pred Hs Hp s r m T Hn He HT Hr.
  destruct (extremes_tnr succ pred Hs Hp s r m T Hn He HT) as [_ B]. specialize (B Hr).
  unfold neg_row in B. rewrite cm_reject_all in B. cbn in B. congruence.
Qed.
Print Assumptions C03_tnr_one_rejects_every_negative.

(* non-vacuity: the single-score, right-continuous case that failed before the repair *)

From SA Require Import Proofs.CarrierB64.

(* ---- binary64: the only facts about np.nextafter used above, x < succ x and pred x < x, are theorems about the executable
   binary64 model (succ64_gt, pred64_lt in Proofs/CarrierB64.v), so every statement above that quantifies over succ / pred
   holds of that model with no hypothesis on nextafter left.  The statement of X_binary64 is the statement of X with
   succ := succ64, pred := pred64 and the two hypotheses discharged (computed from X's own type, so it cannot drift). ---- *)
Theorem C03_extremes_binary64 :
  ltac:(let t := type of (on_binary64 C03_extremes) in let t' := eval cbv beta in t in exact t').
Proof. exact (on_binary64 C03_extremes). Qed.
Print Assumptions C03_extremes_binary64.
Theorem C03_fpr_zero_lets_no_negative_through_binary64 :
  ltac:(let t := type of (on_binary64 C03_fpr_zero_lets_no_negative_through) in let t' := eval cbv beta in t in exact t').
Proof. exact (on_binary64 C03_fpr_zero_lets_no_negative_through). Qed.
Print Assumptions C03_fpr_zero_lets_no_negative_through_binary64.
Theorem C03_tpr_one_accepts_every_positive_binary64 :
  ltac:(let t := type of (on_binary64 C03_tpr_one_accepts_every_positive) in let t' := eval cbv beta in t in exact t').
Proof. exact (on_binary64 C03_tpr_one_accepts_every_positive). Qed.
Print Assumptions C03_tpr_one_accepts_every_positive_binary64.
Theorem C03_tnr_one_rejects_every_negative_binary64 :
  ltac:(let t := type of (on_binary64 C03_tnr_one_rejects_every_negative) in let t' := eval cbv beta in t in exact t').
Proof. exact (on_binary64 C03_tnr_one_rejects_every_negative). Qed.
Print Assumptions C03_tnr_one_rejects_every_negative_binary64.

Example C03_example :
  threshold_at succ64 pred64 MTpr (mk_scores [3#2] [1#1] 0 0 Pos Neg false) 0 Linear = Ret (succ64 (3#2)) /\
  s_tpr (mk_scores [3#2] [1#1] 0 0 Pos Neg false) (Fin (succ64 (3#2))) = Some (0 / (0 + 1)).
Proof. split; vm_compute; reflexivity. Qed.
