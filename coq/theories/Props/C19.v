(* Props/C19.v — property C19 (FraudScores): statements only, each closed by a lemma of
   Proofs/FraudFacts.v.  The model (Model/Fraud.v) is tied to doc_fraud.py for all inputs by the
   regenerated definitions of coq/ties/Tie_fraud.v (enum values, both translations, the constructor's
   keyword mapping and range tests, aliases, from_labels), and the translator refuses a FraudScores
   class that defines anything beyond __init__, genuines, frauds, from_labels — so no Scores query is
   overridden and "every query" below ranges over the Scores queries themselves. *)
From Coq Require Import Strings.String.
From SA Require Import Model.Fraud Proofs.FraudFacts.
Open Scope Q_scope.

(* genuine <-> pos, fraud <-> neg, mutually inverse *)
Theorem C19_translations_inverse_doc : forall d,
  bind (doc_to_binary_label (DMember d)) (fun b => binary_to_doc_label (BMember b)) = Ok d.
Proof. exact translations_inverse_doc. Qed.
Print Assumptions C19_translations_inverse_doc.
Theorem C19_translations_inverse_bin : forall l,
  bind (binary_to_doc_label (BMember l)) (fun d => doc_to_binary_label (DMember d)) = Ok l.
Proof. exact translations_inverse_bin. Qed.
Print Assumptions C19_translations_inverse_bin.
Theorem C19_translation_table :
  doc_to_binary_label (DStr "genuine") = Ok Pos /\ doc_to_binary_label (DStr "fraud") = Ok Neg /\
  binary_to_doc_label (BStr "pos") = Ok DocPos /\ binary_to_doc_label (BStr "neg") = Ok DocNeg /\
  doc_value DocPos = "genuine"%string /\ doc_value DocNeg = "fraud"%string.
Proof. exact translation_table. Qed.
Print Assumptions C19_translation_table.
(* strings and members are interchangeable *)
Theorem C19_translation_str : forall d, doc_to_binary_label (DStr (doc_value d)) = doc_to_binary_label (DMember d).
Proof. exact doc_to_binary_str_member. Qed.
Print Assumptions C19_translation_str.

(* Construction fails with ValueError exactly when some score lies outside [0,1]
   (score_class a valid label: genuine or fraud, member or string) *)
Theorem C19_error_iff_out_of_range : forall g f eg ef sc b, doc_to_binary_label sc = Ok b ->
  (fraud_scores g f eg ef sc = ErrValue <-> exists v, In v (g ++ f)%list /\ ~ in_unit v).
Proof. exact fraud_scores_err_iff. Qed.
Print Assumptions C19_error_iff_out_of_range.

(* otherwise the object IS Scores(pos=genuines, neg=frauds, easy counts, translated score_class,
   equal_class = "pos") *)
Theorem C19_is_scores_object : forall g f eg ef sc b, doc_to_binary_label sc = Ok b ->
  (forall v, In v (g ++ f)%list -> in_unit v) ->
  fraud_scores g f eg ef sc = Ok (mk_scores g f eg ef b Pos false).
Proof. exact fraud_scores_ok. Qed.
Print Assumptions C19_is_scores_object.

(* hence every query returns exactly what that Scores object returns *)
Theorem C19_every_query : forall g f eg ef sc s, fraud_scores g f eg ef sc = Ok s ->
  exists b, doc_to_binary_label sc = Ok b /\
    forall (A : Type) (query : scores -> A), query s = query (mk_scores g f eg ef b Pos false).
Proof. exact fraud_scores_queries. Qed.
Print Assumptions C19_every_query.

(* genuines / frauds alias the positive / negative scores (getter and setter) *)
Theorem C19_aliases : forall s, genuines s = pos s /\ frauds s = neg s /\
  (forall v, pos (set_genuines s v) = v /\ neg (set_genuines s v) = neg s) /\
  (forall v, neg (set_frauds s v) = v /\ pos (set_frauds s v) = pos s).
Proof. exact aliases. Qed.
Print Assumptions C19_aliases.

(* from_labels splits by the genuine label *)
Theorem C19_from_labels_split : forall labels xs gl eg ef sc,
  fraud_from_labels labels xs gl eg ef sc =
  fraud_scores (map snd (filter (fun p => Z.eqb (fst p) gl) (combine labels xs)))
               (map snd (filter (fun p => negb (Z.eqb (fst p) gl)) (combine labels xs))) eg ef sc.
Proof. exact fraud_from_labels_eq. Qed.
Print Assumptions C19_from_labels_split.
Theorem C19_from_labels_is_scores_from_labels : forall labels xs gl eg ef sc s,
  fraud_from_labels labels xs gl eg ef sc = Ok s ->
  exists b, doc_to_binary_label sc = Ok b /\
    s = from_labels (map (fun l => Z.eqb l gl) labels) xs eg ef b Pos false.
Proof. exact fraud_from_labels_scores. Qed.
Print Assumptions C19_from_labels_is_scores_from_labels.
Theorem C19_from_labels_partition : forall (labels : list Z) (xs : list Q) (gl : Z),
  List.length labels = List.length xs ->
  Permutation xs (mask_select (map (fun l => Z.eqb l gl) labels) xs ++
                  mask_select (map (fun l => negb (Z.eqb l gl)) labels) xs)%list.
Proof. exact from_labels_partition. Qed.
Print Assumptions C19_from_labels_partition.

(* ---- non-vacuity: boundary scores 0 and 1 are accepted, a score just outside is rejected *)
Example C19_example_ok :
  fraud_scores [1; 0; (1#2)] [(1#4); 0] 2 0 (DStr "fraud") =
  Ok (mkScores [0; (1#2); 1] [0; (1#4)] 2 0 Neg Pos).
Proof. vm_compute. reflexivity. Qed.
Example C19_example_err :
  fraud_scores [1; 0] [(1#4); (4503599627370497 # 4503599627370496)] 0 0 (DMember DocPos) = ErrValue.
Proof. vm_compute. reflexivity. Qed.
