(* Props/C09.v — property C09: virtual easy samples behave like materialised extreme scores. Statements only. *)
From SA Require Import Model.Symmetry Model.Auc Proofs.SymmetryFacts Proofs.MaterialiseAucFacts.
Open Scope Q_scope.

(* Confusion matrices: for every Scores object with k, m >= 0 easy samples, every configuration and
   every threshold lying between the materialised extremes — i.e. one at which the decision rule
   accepts the materialised positives (score ppos) and rejects the materialised negatives (score pneg),
   tie-breaking included — the object in which the k + m samples are actual scores gives the same
   confusion matrix. *)
Theorem C09_cm : forall (s : scores) (ppos pneg : Q) (t : ext),
  (0 <= easy_pos s)%Z -> (0 <= easy_neg s)%Z ->
  dec (score_class s) (equal_class s) ppos t = true ->
  dec (score_class s) (equal_class s) pneg t = false ->
  cm (materialise s ppos pneg) t = cm s t.
Proof. exact materialise_cm. Qed.
Print Assumptions C09_cm.

(* Full AUC: the object with k easy positives and m easy negatives has the same full AUC (FPR on x,
   TPR on y) as the object in which those samples are actual scores lying strictly beyond all other
   scores on their own class's side ([beyond]); arbitrary ties among the scored samples, all four
   configurations, any carrier (np.nextafter) — both equal their Mann-Whitney statistic (C07). *)
Theorem C09_full_auc :
  forall (isD : Q -> Prop) (succ pred : Q -> Q), carrier isD succ pred ->
  forall (s : scores) (ppos pneg : Q),
  pos s <> [] -> neg s <> [] -> (0 <= easy_pos s)%Z -> (0 <= easy_neg s)%Z ->
  Forall isD (pos s ++ neg s) -> isD ppos -> isD pneg -> beyond s ppos pneg ->
  auc succ pred (materialise s ppos pneg) 0 1 AFpr ATpr == auc succ pred s 0 1 AFpr ATpr.
Proof. exact materialise_full_auc. Qed.
Print Assumptions C09_full_auc.

(* _partial: equality of PARTIAL AUC and of the thresholds returned for in-range targets between the
   two objects is not a theorem here; it is checked on the implementation on every run
   (harness/props/C09.py: a few ulp / 1e-12). *)

Example C09_example :
  let s := mk_scores [2#1; 3#1] [1#1; 2#1] 2 1 Pos Pos false in
  dec Pos Pos (9#1) (Fin (2#1)) = true /\ dec Pos Pos (-5#1) (Fin (2#1)) = false /\
  cm (materialise s (9#1) (-5#1)) (Fin (2#1)) = cm s (Fin (2#1)) /\ cm s (Fin (2#1)) = mkCmz 4 0 1 2.
Proof. repeat split; reflexivity. Qed.
