(* Props/C09.v — property C09: virtual easy samples behave like materialised extreme scores. Statements only. *)
From SA Require Import Model.Symmetry Proofs.SymmetryFacts.
Open Scope Q_scope.

(* Confusion matrices: for every Scores object with k, m >= 0 easy samples, every configuration and
   every threshold lying between the materialised extremes — i.e. one at which the decision rule
   accepts the materialised positives (score ppos) and rejects the materialised negatives (score pneg),
   tie-breaking included — the object in which the k + m samples are actual scores gives the same
   confusion matrix. *)
Theorem C09_cm : forall (s : scores) (ppos pneg : Q) (t : ext),
  (0 <= easy_pos s)%Z -> (0 <= easy_neg s)%Z ->
  dec (score_class s) (equal_class s) ppos t = true ->
  dec (score_class s) (equal_class s) pneg t = false ->
  cm (materialise s ppos pneg) t = cm s t.
Proof. exact materialise_cm. Qed.
Print Assumptions C09_cm.

(* _partial: equality of full/partial AUC and of the thresholds returned for in-range targets between
   the two objects is not a theorem here; it is checked on the implementation on every run
   (harness/props/C09.py: bit-exact on stream E, a few ulp / 1e-12 otherwise). *)

Example C09_example :
  let s := mk_scores [2#1; 3#1] [1#1; 2#1] 2 1 Pos Pos false in
  dec Pos Pos (9#1) (Fin (2#1)) = true /\ dec Pos Pos (-5#1) (Fin (2#1)) = false /\
  cm (materialise s (9#1) (-5#1)) (Fin (2#1)) = cm s (Fin (2#1)) /\ cm s (Fin (2#1)) = mkCmz 4 0 1 2.
Proof. repeat split; reflexivity. Qed.
