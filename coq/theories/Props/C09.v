(* Props/C09.v — property C09: virtual easy samples behave like materialised extreme scores. Statements only. *)
From SA Require Import Model.Symmetry Model.Auc Model.Threshold Model.Harness Proofs.SymmetryFacts Proofs.MaterialiseAucFacts Proofs.MaterialiseThrFacts Proofs.MaterialisePoolFacts Proofs.MaterialisePartialAucFacts Proofs.CarrierB64.
Open Scope Q_scope.

(* Confusion matrices: for every Scores object with k, m >= 0 easy samples, every configuration and
   every threshold lying between the materialised extremes — i.e. one at which the decision rule
   accepts the materialised positives (score ppos) and rejects the materialised negatives (score pneg),
   tie-breaking included — the object in which the k + m samples are actual scores gives the same
   confusion matrix. *)
Theorem C09_cm : forall (s : scores) (ppos pneg : Q) (t : ext),
  (0 <= easy_pos s)%Z -> (0 <= easy_neg s)%Z ->
  dec (score_class s) (equal_class s) ppos t = true ->
  dec (score_class s) (equal_class s) pneg t = false ->
  cm (materialise s ppos pneg) t = cm s t.
Proof. exact materialise_cm. Qed.
Print Assumptions C09_cm.

(* Full AUC: the object with k easy positives and m easy negatives has the same full AUC (FPR on x,
   TPR on y) as the object in which those samples are actual scores lying strictly beyond all other
   scores on their own class's side ([beyond]); arbitrary ties among the scored samples, all four
   configurations, any carrier (np.nextafter) — both equal their Mann-Whitney statistic (C07). *)
Theorem C09_full_auc :
  forall (isD : Q -> Prop) (succ pred : Q -> Q), carrier isD succ pred ->
  forall (s : scores) (ppos pneg : Q),
  pos s <> [] -> neg s <> [] -> (0 <= easy_pos s)%Z -> (0 <= easy_neg s)%Z ->
  Forall isD (pos s ++ neg s) -> isD ppos -> isD pneg -> beyond s ppos pneg ->
  auc succ pred (materialise s ppos pneg) 0 1 AFpr ATpr == auc succ pred s 0 1 AFpr ATpr.
Proof. exact materialise_full_auc. Qed.
Print Assumptions C09_full_auc.

(* ... in particular for the executable binary64 nextafter of the model, with no hypothesis on it (Proofs/CarrierB64.v) *)
Theorem C09_full_auc_binary64 :
  forall (s : scores) (ppos pneg : Q),
  pos s <> [] -> neg s <> [] -> (0 <= easy_pos s)%Z -> (0 <= easy_neg s)%Z ->
  Forall isD64 (pos s ++ neg s) -> isD64 ppos -> isD64 pneg -> beyond s ppos pneg ->
  auc succ64 pred64 (materialise s ppos pneg) 0 1 AFpr ATpr == auc succ64 pred64 s 0 1 AFpr ATpr.
Proof. exact (C09_full_auc isD64 succ64 pred64 b64_carrier). Qed.
Print Assumptions C09_full_auc_binary64.

(* Thresholds, _partial (the four class-wise metrics tpr, fnr, tnr, fpr; method linear; any np.nextafter with
   x < succ x and pred x < x).  [mat_sorted s ppos pneg] is the object in which the easy samples are actual
   scores, placed beyond the scored samples of their own class on that class's side; for a Scores object
   satisfying the constructor's invariant it is what the constructor builds ([C09_materialise_sorted]).
   Whenever the threshold returned for the materialised object lies within the range of the scored samples of
   the metric's class — strictly so at the end where the materialised samples sit: at that end sample itself
   the virtual object answers with the sentinel one ulp beyond it, the "few ulp" of the property — the object
   with virtual easy samples returns the same threshold.  [cls_list] = scored samples of the metric's class,
   [cls_easy] = its easy count (>= 1 here; = 0 is the next theorem), [high_side] = whether the easy samples of
   that class lie above its scored samples. *)
Theorem C09_thresholds_class_metrics_partial :
  forall (succ pred : Q -> Q), (forall x, x < succ x) -> (forall x, pred x < x) ->
  forall (s : scores) (ppos pneg : Q) (mt : metric6) (r t' : Q),
  In mt [MTpr; MFnr; MTnr; MFpr] ->
  let l := cls_list mt s in let p := cls_point mt ppos pneg in
  (1 <= len l)%Z -> (1 <= cls_easy mt s)%Z ->
  (if high_side mt s then nthZ l (len l - 1) < p else p < nthZ l 0) ->
  threshold_at succ pred mt (mat_sorted s ppos pneg) r Linear = Ret t' ->
  (if high_side mt s then nthZ l 0 <= t' /\ t' < nthZ l (len l - 1) else nthZ l 0 < t' /\ t' <= nthZ l (len l - 1)) ->
  exists t, threshold_at succ pred mt s r Linear = Ret t /\ t == t'.
Proof. exact mat_thresholds_class_metrics. Qed.
Print Assumptions C09_thresholds_class_metrics_partial.

(* ... and without easy samples of that class the two calls are the same computation, every method *)
Theorem C09_thresholds_no_easy :
  forall (succ pred : Q -> Q) (s : scores) (ppos pneg : Q) (mt : metric6) (r : Q) (m : method),
  In mt [MTpr; MFnr; MTnr; MFpr] -> cls_easy mt s = 0%Z ->
  threshold_at succ pred mt (mat_sorted s ppos pneg) r m = threshold_at succ pred mt s r m.
Proof. exact mat_thresholds_no_easy. Qed.
Print Assumptions C09_thresholds_no_easy.

(* np.sort of the materialised arrays puts the copies where [mat_sorted] has them *)
Theorem C09_materialise_sorted : forall (s : scores) (ppos pneg : Q),
  wf s -> beyond_own s ppos pneg -> materialise s ppos pneg = mat_sorted s ppos pneg.
Proof. exact materialise_is_mat_sorted. Qed.
Print Assumptions C09_materialise_sorted.

(* Thresholds of the two pooled metrics (topr, tonr), _partial in the same sense: whenever the threshold returned
   for the materialised object lies strictly inside the range of ALL scored samples, the object with virtual easy
   samples returns the same threshold.  [beyond_all]: the materialised values lie strictly beyond all scored samples,
   each on its own side; at least one easy sample overall (with none the two calls are the same computation). *)
Theorem C09_thresholds_pooled_metrics_partial :
  forall (succ pred : Q -> Q), (forall x, x < succ x) -> (forall x, pred x < x) ->
  forall (s : scores) (ppos pneg : Q) (mt : metric6) (r t' : Q),
  In mt [MTopr; MTonr] ->
  let l := isort (neg s ++ pos s) in
  (1 <= len l)%Z -> (0 <= easy_pos s)%Z -> (0 <= easy_neg s)%Z -> (1 <= easy_pos s + easy_neg s)%Z ->
  beyond_all s ppos pneg ->
  threshold_at succ pred mt (mat_sorted s ppos pneg) r Linear = Ret t' ->
  nthZ l 0 < t' -> t' < nthZ l (len l - 1) ->
  exists t, threshold_at succ pred mt s r Linear = Ret t /\ t == t'.
Proof. exact mat_thresholds_pooled_metrics. Qed.
Print Assumptions C09_thresholds_pooled_metrics_partial.

(* Partial AUC: for every window 0 <= lower <= upper <= 1 (on or off the rate grid) the object with virtual easy
   samples and the object in which they are actual scores beyond all scored samples have the same partial AUC, when
   no value is shared between the two classes (with cross-class ties the partial AUC cuts a diagonal segment of the
   ROC and is compared on the implementation only; the FULL AUC above needs no such hypothesis).  Any carrier. *)
Theorem C09_partial_auc :
  forall (isD : Q -> Prop) (succ pred : Q -> Q), carrier isD succ pred ->
  forall (s : scores) (ppos pneg lower upper : Q),
  wf s -> pos s <> [] -> neg s <> [] -> (0 <= easy_pos s)%Z -> (0 <= easy_neg s)%Z ->
  Forall isD (pos s ++ neg s) -> isD ppos -> isD pneg ->
  (forall p n, In p (pos s) -> In n (neg s) -> ~ p == n) -> beyond_all s ppos pneg ->
  0 <= lower -> lower <= upper -> upper <= 1 ->
  auc succ pred (materialise s ppos pneg) lower upper AFpr ATpr == auc succ pred s lower upper AFpr ATpr.
Proof. exact materialise_partial_auc. Qed.
Print Assumptions C09_partial_auc.

(* the hypotheses are satisfiable: binary64 neighbours, 2 easy positives, 1 easy negative; all four metrics at
   targets whose materialised threshold lies inside the scored range *)

(* ---- binary64: the only facts about np.nextafter used above, x < succ x and pred x < x, are theorems about the executable
   binary64 model (succ64_gt, pred64_lt in Proofs/CarrierB64.v), so every statement above that quantifies over succ / pred
   holds of that model with no hypothesis on nextafter left.  The statement of X_binary64 is the statement of X with
   succ := succ64, pred := pred64 and the two hypotheses discharged (computed from X's own type, so it cannot drift). ---- *)
Theorem C09_thresholds_class_metrics_partial_binary64 :
  ltac:(let t := type of (on_binary64 C09_thresholds_class_metrics_partial) in let t' := eval cbv beta in t in exact t').
Proof. exact (on_binary64 C09_thresholds_class_metrics_partial). Qed.
Print Assumptions C09_thresholds_class_metrics_partial_binary64.
Theorem C09_thresholds_pooled_metrics_partial_binary64 :
  ltac:(let t := type of (on_binary64 C09_thresholds_pooled_metrics_partial) in let t' := eval cbv beta in t in exact t').
Proof. exact (on_binary64 C09_thresholds_pooled_metrics_partial). Qed.
Print Assumptions C09_thresholds_pooled_metrics_partial_binary64.

Example C09_thresholds_example :
  let s := mk_scores [2#1; 3#1; 5#1] [1#1; 2#1; 4#1] 2 1 Pos Neg true in
  wf s /\ beyond_own s (9#1) (-5#1) /\
  match threshold_at succ64 pred64 MFnr (materialise s (9#1) (-5#1)) (3#10) Linear with Ret a => Qeqb a (5#2) = true | _ => False end /\
  match threshold_at succ64 pred64 MFnr s (3#10) Linear with Ret a => Qeqb a (5#2) = true | _ => False end /\
  beyond_all s (9#1) (-5#1) /\
  Qeqb (auc succ64 pred64 (materialise s (9#1) (-5#1)) (1#8) (7#10) AFpr ATpr) (auc succ64 pred64 s (1#8) (7#10) AFpr ATpr) = true /\
  (forall mt, In mt [MTpr; MFnr; MTnr; MFpr; MTopr; MTonr] ->
     match threshold_at succ64 pred64 mt (materialise s (9#1) (-5#1)) (1#2) Linear, threshold_at succ64 pred64 mt s (1#2) Linear with
     | Ret a, Ret b => Qeqb a b = true | _, _ => False end).
Proof.
  split; [split; repeat constructor; cbn; discriminate|].
  split; [split; repeat constructor; reflexivity|].
  split; [vm_compute; reflexivity|]. split; [vm_compute; reflexivity|].
  split; [split; [|split]; [repeat constructor; reflexivity | repeat constructor; reflexivity | reflexivity]|].
  split; [vm_compute; reflexivity|].
  intros mt H. cbn [In] in H. repeat (destruct H as [<-|H]; [vm_compute; reflexivity|]). destruct H.
Qed.

(* non-vacuity of the partial-AUC theorem: an object without cross-class ties, toy carrier (integers, +-1) *)
Example C09_partial_auc_example :
  let s := mk_scores [2#1; 3#1; 6#1] [1#1; 4#1; 5#1] 2 1 Pos Neg true in
  wf s /\ beyond_all s (9#1) (-5#1) /\ (forall p n, In p (pos s) -> In n (neg s) -> ~ p == n) /\
  Forall isInt (pos s ++ neg s) /\
  Qeqb (auc (fun x => x + 1) (fun x => x - 1) (materialise s (9#1) (-5#1)) (1#8) (7#10) AFpr ATpr)
       (auc (fun x => x + 1) (fun x => x - 1) s (1#8) (7#10) AFpr ATpr) = true.
Proof.
  split; [split; repeat constructor; cbn; discriminate|].
  split; [split; [|split]; [repeat constructor; reflexivity | repeat constructor; reflexivity | reflexivity]|].
  split.
  - intros p n Hp Hn. cbn in Hp, Hn.
    repeat (destruct Hp as [<-|Hp]); try contradiction;
      repeat (destruct Hn as [<-|Hn]); try contradiction; intro E; discriminate E.
  - split; [repeat constructor; match goal with |- isInt ?q => exists (Qnum q); reflexivity end|vm_compute; reflexivity].
Qed.

Example C09_example :
  let s := mk_scores [2#1; 3#1] [1#1; 2#1] 2 1 Pos Pos false in
  dec Pos Pos (9#1) (Fin (2#1)) = true /\ dec Pos Pos (-5#1) (Fin (2#1)) = false /\
  cm (materialise s (9#1) (-5#1)) (Fin (2#1)) = cm s (Fin (2#1)) /\ cm s (Fin (2#1)) = mkCmz 4 0 1 2.
Proof. repeat split; reflexivity. Qed.
