(* Props/C18.v — placeholder while the proofs are being written *)
From SA Require Import Model.ShowBias.
Example C18_placeholder : True.
Proof. exact I. Qed.
