(* Props/C18.v — property C18 (showbias).  Statements only; proofs in Proofs/ShowBiasFacts.v.

   Model: Model/ShowBias.v, the code at fix 4320e1c / d3c5691.  A DataFrame is the list of its rows (tuple of group
   values, label, score); a frame is (row labels, column labels, data).  [rows_of k rows] are the rows whose group
   value(s) are the tuple k; [rows_cm] counts directly over rows with the documented decision rule.  np.argsort is ANY
   function satisfying [argsort_ok]; utils.bootstrap_ci is Model/BootCI.v (scipy's cdf / ppf and x ** 1.5 as oracles
   Phi, PhiInv, pow15); the bootstrap samples are produced by the configured sampler (a callable applied to the
   object, or the j-th built-in sample given as history — the built-in samplers are C11 / C12).
   pandas itself (Index / MultiIndex / DataFrame construction) is outside the model (correspondence, every run). *)
From Coq Require Import String.
From SA Require Import Model.ShowBias Proofs.QuantileFacts Proofs.BootCIFacts Proofs.GroupFacts Proofs.ShowBiasFacts.
Open Scope Q_scope.

(* ---------- labels and entries ---------- *)

(* without intervals showbias returns one frame: row labels [sb_labels], columns = the thresholds as given, data = the
   reported table (below); it raises only for an unsupported `normalize` *)
Theorem C18_frame : forall argsort, argsort_ok argsort ->
  forall ci_routine rows gc m nz cfg hist alpha pos_label sc ec thr,
  rows_wf gc rows ->
  showbias argsort ci_routine rows gc m nz false cfg hist alpha pos_label sc ec thr =
  res_bind (reported argsort rows gc m nz pos_label sc ec (map Fin (threshold_array thr))) (fun d =>
  Ok (mkBias (mkFrame (sb_labels argsort rows gc pos_label sc ec) (threshold_array thr) d) None None None)).
Proof. intros a [Hp Hs]. exact (showbias_values a Hp Hs). Qed.
Print Assumptions C18_frame.

(* the row labels are exactly the distinct tuples of group values occurring in the data, each once — whatever characters
   the values contain, for one or several group columns *)
Theorem C18_labels : forall argsort, argsort_ok argsort ->
  forall rows gc pos_label sc ec,
  NoDup (sb_labels argsort rows gc pos_label sc ec) /\
  forall k, In k (sb_labels argsort rows gc pos_label sc ec) <-> exists r, In r rows /\ r_keys r = k.
Proof. intros a [Hp Hs] rows gc pl sc ec. exact (conj (sb_labels_NoDup a Hp Hs rows gc pl sc ec) (sb_labels_in a Hp Hs rows gc pl sc ec)). Qed.
Print Assumptions C18_labels.

(* the entry in the row labelled k and the column of threshold t is the requested metric of the confusion matrix
   counted directly over precisely the rows whose group value(s) are k, under pos_label / score_class / equal_class *)
Theorem C18_entries : forall argsort rows gc m pos_label sc ec ts,
  reported argsort rows gc m None pos_label sc ec ts =
  Ok (map (fun k => map (fun t => cm_metric m (to_cm2 (rows_cm pos_label sc ec (rows_of k rows) t))) ts)
          (sb_labels argsort rows gc pos_label sc ec)).
Proof. exact reported_none. Qed.
Print Assumptions C18_entries.
Theorem C18_rows_of_label : forall k rows r, In r (rows_of k rows) <-> In r rows /\ r_keys r = k.
Proof. exact rows_of_in. Qed.
Print Assumptions C18_rows_of_label.
(* the same inside the object: the matrix GroupScores.group_cm yields for an output group is that direct count
   (this is where the C12 facts enter), and the overall matrix is the count over all rows *)
Theorem C18_group_cm_is_direct_count : forall argsort, argsort_ok argsort ->
  forall rows gc pos_label sc ec g t,
  In g (groups (sb_object argsort rows gc pos_label sc ec)) ->
  cm (group_scores (sb_object argsort rows gc pos_label sc ec) g) t
  = rows_cm pos_label sc ec (rows_of (key_of (sb_names gc rows) g) rows) t.
Proof. intros a [Hp Hs]. exact (group_cm_rows a Hp Hs). Qed.
Print Assumptions C18_group_cm_is_direct_count.
Theorem C18_overall_cm_is_direct_count : forall argsort, argsort_ok argsort ->
  forall rows gc pos_label sc ec t,
  cm (base (sb_object argsort rows gc pos_label sc ec)) t = rows_cm pos_label sc ec rows t.
Proof. intros a [Hp Hs]. exact (overall_cm_rows a Hp Hs). Qed.
Print Assumptions C18_overall_cm_is_direct_count.

(* ---------- normalisation ---------- *)

(* the elementwise rule np.where(d != 0, x / d, x): divide unless the divisor is 0; a NaN divisor gives NaN *)
Theorem C18_divide_unless_zero : forall x d,
  (~ d == 0 -> norm1 x (Some d) = option_map (fun xv => xv / d) x) /\ (d == 0 -> norm1 x (Some d) = x) /\ norm1 x None = None.
Proof. exact (fun x d => conj (norm1_nonzero x d) (conj (norm1_zero x d) (norm1_nan x))). Qed.
Print Assumptions C18_divide_unless_zero.

(* by_overall: every entry is divided by the metric of the whole data set at the same threshold *)
Theorem C18_by_overall : forall argsort rows gc m pos_label sc ec ts,
  reported argsort rows gc m (Some NOverall) pos_label sc ec ts =
  Ok (map (fun k => map (fun t => norm1 (cm_metric m (to_cm2 (rows_cm pos_label sc ec (rows_of k rows) t)))
                                       (cm_metric m (to_cm2 (rows_cm pos_label sc ec rows t)))) ts)
          (sb_labels argsort rows gc pos_label sc ec)).
Proof. exact reported_by_overall. Qed.
Print Assumptions C18_by_overall.

(* by_min: every entry is divided by np.min of its column of the un-normalised table ... *)
Theorem C18_by_min : forall argsort rows gc m pos_label sc ec ts,
  let raw := raw_table rows m pos_label sc ec ts (sb_labels argsort rows gc pos_label sc ec) in
  reported argsort rows gc m (Some NMin) pos_label sc ec ts = Ok (map (fun row => map2 norm1 row (min_axis0 raw)) raw) /\
  Forall (fun row => length row = length ts) raw /\
  forall j, (j < length ts)%nat -> nth j (min_axis0 raw) None = col_min (map (fun row => nth j row None) raw).
Proof. exact reported_by_min. Qed.
Print Assumptions C18_by_min.
(* ... which, when every group value of the column is defined, is the smallest of them ... *)
Theorem C18_by_min_divisor : forall c, c <> [] -> Forall (fun v => v <> None) c ->
  exists d, col_min c = Some d /\ In (Some d) c /\ forall v, In (Some v) c -> d <= v.
Proof. exact col_min_defined. Qed.
Print Assumptions C18_by_min_divisor.
(* ... so the smallest row is 1 (and for a positive minimum no row is below 1) unless that divisor is 0 *)
Theorem C18_by_min_smallest_is_one : forall c d,
  col_min c = Some d -> In (Some d) c -> (forall v, In (Some v) c -> d <= v) -> ~ d == 0 ->
  (exists w, norm1 (Some d) (Some d) = Some w /\ w == 1) /\
  (0 < d -> forall v, In (Some v) c -> exists w, norm1 (Some v) (Some d) = Some w /\ 1 <= w).
Proof. exact by_min_smallest_is_one. Qed.
Print Assumptions C18_by_min_smallest_is_one.
(* ... but one undefined group value (NaN: the group has no sample of the needed class) makes the divisor NaN and
   thereby the whole column NaN *)
Theorem C18_by_min_nan_column : forall c, In None c -> col_min c = None.
Proof. exact col_min_nan. Qed.
Print Assumptions C18_by_min_nan_column.
(* REFUTED clause ("by_min divides by the smallest group value, so the smallest row is 1"): group a has fnr 1/2, the
   smallest defined value, group b has no positive; both rows are reported NaN.  Open known finding. *)
Theorem C18_by_min_undefined_group_refuted :
  raw_table ex_undefined_group Mfnr 1 Pos Pos [Fin (1#2)] [["a"%string]; ["b"%string]] = [[Some ((1#1) / (2#1))]; [None]] /\
  showbias_std iargsort Phi0 PhiInv0 pow0 ex_undefined_group GStr Mfnr (Some NMin) false (identity_sampler 0 MQuantile)
               (fun _ => Err) 0 1 Pos Pos (TScalar (1#2))
  = Ok (mkBias (mkFrame [["a"%string]; ["b"%string]] [1#2] [[None]; [None]]) None None None).
Proof. exact by_min_undefined_group_witness. Qed.
Print Assumptions C18_by_min_undefined_group_refuted.
(* normalize other than None / "by_overall" / "by_min" raises ValueError *)
Theorem C18_unsupported_normalize_raises : forall argsort rows gc m pos_label sc ec ts,
  reported argsort rows gc m (Some NUnsupported) pos_label sc ec ts = Err.
Proof. exact reported_unsupported. Qed.
Print Assumptions C18_unsupported_normalize_raises.

(* ---------- bootstrap intervals ---------- *)

(* same labels: the three frames carry the same row and column labels, the values frame holds the same reported values
   as without intervals, alpha is recorded *)
Theorem C18_ci_labels : forall argsort, argsort_ok argsort ->
  forall ci_routine rows gc m nz cfg hist alpha pos_label sc ec thr bf,
  rows_wf gc rows ->
  showbias argsort ci_routine rows gc m nz true cfg hist alpha pos_label sc ec thr = Ok bf ->
  exists d lo hi,
    reported argsort rows gc m nz pos_label sc ec (map Fin (threshold_array thr)) = Ok d /\
    bf = mkBias (mkFrame (sb_labels argsort rows gc pos_label sc ec) (threshold_array thr) d) (Some alpha)
                (Some (mkFrame (sb_labels argsort rows gc pos_label sc ec) (threshold_array thr) lo))
                (Some (mkFrame (sb_labels argsort rows gc pos_label sc ec) (threshold_array thr) hi)).
Proof. intros a [Hp Hs]. exact (showbias_ci_frames a Hp Hs). Qed.
Print Assumptions C18_ci_labels.

(* what the intervals are, as the code is: entry (i, j) of lower / upper is the one-component interval (C13) of column
   i*T+j of the replicate array the code builds — the samples' group metrics, normalised by _apply_normalization applied
   to the whole (nb_samples, G, T) array — with the UN-normalised group metric as point estimate *)
Theorem C18_ci_as_computed : forall argsort, argsort_ok argsort ->
  forall Phi PhiInv pow15 rows gc m nz cfg hist alpha pos_label sc ec thr bf,
  rows_wf gc rows ->
  showbias_std argsort Phi PhiInv pow15 rows gc m nz true cfg hist alpha pos_label sc ec thr = Ok bf ->
  let o := sb_object argsort rows gc pos_label sc ec in
  let ts := map Fin (threshold_array thr) in
  let G := length (sb_labels argsort rows gc pos_label sc ec) in
  let T := length ts in
  let hat := concat (raw_table rows m pos_label sc ec ts (sb_labels argsort rows gc pos_label sc ec)) in
  exists samples0 samples data lo hi,
    sb_bootstrap_metric o (fun s k => concat (calculate_group_metric m s k)) cfg hist ts = Ok samples0 /\
    match nz with
    | None => samples = samples0
    | Some z => apply_normalization z (overall_row rows m pos_label sc ec ts) G samples0 = Ok samples
    end /\
    std_ci Phi PhiInv pow15 [G; T] samples (Some hat) alpha (bootstrap_method cfg) = Ok ([G; T; 2%nat], data) /\
    length hat = prod_shape [G; T] /\
    b_lower bf = Some lo /\ b_upper bf = Some hi /\
    f_data lo = chunks G T (ci_lower data) /\ f_data hi = chunks G T (ci_upper data) /\
    (0 < alpha -> alpha < 1 -> forall i j, (i < G)%nat -> (j < T)%nat ->
       ci_col Phi PhiInv pow15 (bootstrap_method cfg) (column samples (i * T + j)) (nth (i * T + j) hat None) alpha
       = Ok (nth j (nth i (f_data lo) []) None, nth j (nth i (f_data hi) []) None)).
Proof. intros a [Hp Hs]. exact (showbias_ci_spec a Hp Hs). Qed.
Print Assumptions C18_ci_as_computed.

(* lower <= upper, entry by entry (both NaN counts as ordered): quantile and bc unconditionally, bca under the side
   condition of C13 (the acceleration term stays on one side of its pole) *)
Theorem C18_ci_ordered : forall argsort, argsort_ok argsort ->
  forall Phi PhiInv pow15,
  (forall x, 0 <= Phi x /\ Phi x <= 1) ->
  (forall x y, x <= y -> Phi x <= Phi y) ->
  (forall p p', 0 < p -> p <= p' -> p' < 1 -> PhiInv p <= PhiInv p') ->
  forall rows gc m nz cfg hist alpha pos_label sc ec thr bf,
  rows_wf gc rows -> 0 < alpha -> alpha < 1 ->
  showbias_std argsort Phi PhiInv pow15 rows gc m nz true cfg hist alpha pos_label sc ec thr = Ok bf ->
  exists lo hi, b_lower bf = Some lo /\ b_upper bf = Some hi /\
    forall i j, (i < length (f_index (b_values bf)))%nat -> (j < length (f_columns (b_values bf)))%nat ->
      (bootstrap_method cfg = MBca -> forall col th, side_cond PhiInv pow15 MBca col th alpha) ->
      rle (nth j (nth i (f_data lo) []) None) (nth j (nth i (f_data hi) []) None).
Proof. intros a [Hp Hs] Phi PhiInv pow15 H1 H2 H3. exact (showbias_ci_ordered a Hp Hs Phi PhiInv pow15 H1 H2 H3). Qed.
Print Assumptions C18_ci_ordered.

(* "computed for the same normalised quantity as the reported value": [ci_of_reported_quantity] is the CI routine applied
   to the replicates of the reported quantity (the group metrics of every bootstrap sample, normalised within that
   sample) with the reported value as point estimate.  Without normalisation showbias returns exactly that ... *)
Theorem C18_ci_same_quantity_unnormalised : forall argsort, argsort_ok argsort ->
  forall Phi PhiInv pow15 rows gc m cfg hist alpha pos_label sc ec thr bf,
  rows_wf gc rows ->
  showbias_std argsort Phi PhiInv pow15 rows gc m None true cfg hist alpha pos_label sc ec thr = Ok bf ->
  exists data lo hi,
    ci_of_reported_quantity argsort Phi PhiInv pow15 rows gc m None cfg hist alpha pos_label sc ec thr
      = Ok ([length (f_index (b_values bf)); length (f_columns (b_values bf)); 2%nat], data) /\
    b_lower bf = Some lo /\ b_upper bf = Some hi /\
    f_data lo = chunks (length (f_index (b_values bf))) (length (f_columns (b_values bf))) (ci_lower data) /\
    f_data hi = chunks (length (f_index (b_values bf))) (length (f_columns (b_values bf))) (ci_upper data).
Proof. intros a [Hp Hs]. exact (ci_same_quantity_unnormalised a Hp Hs). Qed.
Print Assumptions C18_ci_same_quantity_unnormalised.

(* ... REFUTED with normalize="by_min": under the identity sampler (every replicate of the reported quantity equals the
   reported value: 2 and 1) the interval is [1, 1] for both groups, because np.min(axis=0) of the replicate array runs
   over the samples.  Open known finding. *)
Theorem C18_ci_by_min_refuted :
  exists bf lo hi data,
    showbias_std iargsort Phi0 PhiInv0 pow0 ex_ci_min GStr Mfnr (Some NMin) true (identity_sampler 2 MQuantile)
                 (fun _ => Err) (1#8) 1 Pos Pos (TScalar (1#2)) = Ok bf /\
    b_lower bf = Some lo /\ b_upper bf = Some hi /\
    table_eqb (f_data (b_values bf)) [[Some 2]; [Some 1]] = true /\
    table_eqb (f_data lo) [[Some 1]; [Some 1]] = true /\ table_eqb (f_data hi) [[Some 1]; [Some 1]] = true /\
    ci_of_reported_quantity iargsort Phi0 PhiInv0 pow0 ex_ci_min GStr Mfnr (Some NMin) (identity_sampler 2 MQuantile)
                            (fun _ => Err) (1#8) 1 Pos Pos (TScalar (1#2)) = Ok ([2; 1; 2]%nat, data) /\
    table_eqb (chunks 2 1 (ci_lower data)) [[Some 2]; [Some 1]] = true /\
    table_eqb (chunks 2 1 (ci_upper data)) [[Some 2]; [Some 1]] = true /\
    table_eqb (f_data lo) (chunks 2 1 (ci_lower data)) = false.
Proof. exact ci_by_min_witness. Qed.
Print Assumptions C18_ci_by_min_refuted.
(* ... REFUTED with normalize="by_overall": the replicates are divided by the ORIGINAL data's overall metric, not by the
   overall metric of their own sample (sampler: scores shifted by j/2).  Open known finding. *)
Theorem C18_ci_by_overall_refuted :
  exists bf lo hi data,
    showbias_std iargsort Phi0 PhiInv0 pow0 ex_ci_overall GStr Mfnr (Some NOverall) true (shift_sampler 2 MQuantile)
                 (fun _ => Err) (1#8) 1 Pos Pos (TScalar (1#2)) = Ok bf /\
    b_lower bf = Some lo /\ b_upper bf = Some hi /\
    ci_of_reported_quantity iargsort Phi0 PhiInv0 pow0 ex_ci_overall GStr Mfnr (Some NOverall) (shift_sampler 2 MQuantile)
                            (fun _ => Err) (1#8) 1 Pos Pos (TScalar (1#2)) = Ok ([2; 1; 2]%nat, data) /\
    table_eqb (f_data lo) (chunks 2 1 (ci_lower data)) = false /\
    table_eqb (f_data hi) (chunks 2 1 (ci_upper data)) = false.
Proof. exact ci_by_overall_witness. Qed.
Print Assumptions C18_ci_by_overall_refuted.
(* ... REFUTED for bc / bca with any normalisation: the point estimate handed to the CI routine is the un-normalised
   metric (sampler: group labels rotated, overall metric unchanged, so the replicates are right: 2, 0, 0 for a value of 2;
   interval [0, 2] instead of [2, 2]).  Open known finding. *)
Theorem C18_ci_estimate_refuted :
  exists bf lo hi data,
    showbias_std iargsort Phi0 PhiInv0 pow0 ex_ci_estimate GStr Mfnr (Some NOverall) true (regroup_sampler 3 MBc)
                 (fun _ => Err) (1#8) 1 Pos Pos (TScalar (1#2)) = Ok bf /\
    b_lower bf = Some lo /\ b_upper bf = Some hi /\
    table_eqb (f_data (b_values bf)) [[Some 2]; [Some 0]] = true /\
    table_eqb (f_data lo) [[Some 0]; [Some 0]] = true /\ table_eqb (f_data hi) [[Some 2]; [Some 2]] = true /\
    ci_of_reported_quantity iargsort Phi0 PhiInv0 pow0 ex_ci_estimate GStr Mfnr (Some NOverall) (regroup_sampler 3 MBc)
                            (fun _ => Err) (1#8) 1 Pos Pos (TScalar (1#2)) = Ok ([2; 1; 2]%nat, data) /\
    reqb (nth 0 data None) (Some 2) = true /\ reqb (nth 1 data None) (Some 2) = true /\
    table_eqb (f_data lo) (chunks 2 1 (ci_lower data)) = false.
Proof. exact ci_estimate_witness. Qed.
Print Assumptions C18_ci_estimate_refuted.

(* ---------- the finding repaired by 4320e1c (multi-column labels rebuilt with split("_")) ---------- *)

(* split("_") undoes "_".join exactly when there is at least one part and no part contains "_" (empty parts are fine) *)
Theorem C18_legacy_split_join_iff : forall parts,
  split_us (join_us parts) = parts <-> parts <> [] /\ Forall (fun p => has_us p = false) parts.
Proof. exact split_join_iff. Qed.
Print Assumptions C18_legacy_split_join_iff.
Theorem C18_legacy_join_injective : forall p q,
  p <> [] -> q <> [] -> Forall (fun s => has_us s = false) p -> Forall (fun s => has_us s = false) q ->
  join_us p = join_us q -> p = q.
Proof. exact join_us_injective. Qed.
Print Assumptions C18_legacy_join_injective.
(* the old reconstruction on values with "_": two groups merged under a label that is no row's group value; a single
   such group raises; a one-element column list mislabels — and the labels of the repaired code on the same data *)
Theorem C18_legacy_labels_refuted :
  legacy_labels ex_collision (GList 2) = Ok [["p"; "q"]; ["x"; "y"]]%string /\
  legacy_labels [mkRow ["x_y"; "z"]%string 1 (1#4)] (GList 2) = Err /\
  legacy_labels [mkRow ["x_y"%string] 1 (1#4); mkRow ["u"%string] 1 (3#4)] (GList 1) = Ok [["u"]; ["x"]]%string /\
  sb_labels iargsort ex_collision (GList 2) 1 Pos Pos = [["p"; "q"]; ["x"; "y_z"]; ["x_y"; "z"]]%string.
Proof. exact legacy_labels_witness. Qed.
Print Assumptions C18_legacy_labels_refuted.

(* ---------- non-vacuity ---------- *)
Theorem C18_argsort_instance : argsort_ok iargsort.
Proof. exact (conj iargsort_perm iargsort_sorted). Qed.
Print Assumptions C18_argsort_instance.

Example C18_example :
  showbias_std iargsort Phi0 PhiInv0 pow0
    (ex_collision ++ [mkRow ["x_y"; "z"]%string 0 (1#2); mkRow ["p"; "q"]%string 1 0]) (GList 2) Mfnr (Some NOverall) false
    (identity_sampler 0 MQuantile) (fun _ => Err) 0 1 Pos Pos (TList [1#2; 2])
  = Ok (mkBias (mkFrame [["p"; "q"]; ["x"; "y_z"]; ["x_y"; "z"]]%string [1#2; 2]
                        [[Some ((1#2) / (2#4)); Some ((2#2) / (4#4))]; [Some ((0#1) / (2#4)); Some ((1#1) / (4#4))];
                         [Some ((1#1) / (2#4)); Some ((1#1) / (4#4))]]) None None None) /\
  exists bf lo hi,
    showbias_std iargsort Phi0 PhiInv0 pow0 [row1 "a" 1 (1#4); row1 "a" 1 (3#4); row1 "a" 0 (1#2)] GStr Mfnr None true
                 (identity_sampler 2 MBca) (fun _ => Err) (1#8) 1 Pos Pos (TList [1#2; 1]) = Ok bf /\
    b_lower bf = Some lo /\ b_upper bf = Some hi /\
    table_eqb (f_data (b_values bf)) [[Some (1#2); Some 1]] = true /\
    table_eqb (f_data lo) [[Some (1#2); Some 1]] = true /\ table_eqb (f_data hi) [[Some (1#2); Some 1]] = true.
Proof. exact showbias_example. Qed.
