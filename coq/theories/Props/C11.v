From SA Require Import Model.Sampling.
Example C11_stub : True. Proof. exact I. Qed.
