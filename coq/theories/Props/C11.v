(* Props/C11.v — property C11: bootstrap samples are well-formed resamples of their source.
   Statements only; each is closed by a lemma of Proofs/SamplingFacts.v.

   Reading guide.  [bootstrap_sample c s h = Ok (b, rest, calls)] : the model of
   Scores.bootstrap_sample(config c) on source s, answering the RNG calls from the draw history h,
   returned the sample b, left [rest] of the history unread and made the NumPy calls [calls]
   (with the parameters the code computes and the results taken from h).
   [Forall draw_ok calls] : the results are within NumPy's contract for those calls
   (0 <= k <= n, k = 0 if p = 0, k = n if p = 1; vectors of the requested length; multiplicities
   >= 0; indices in range; distinct when replace=False).  The theorems quantify over ALL such
   histories, all score lists, all easy counts, all four (score_class, equal_class). *)
From SA Require Import Model.Sampling Proofs.CmFacts Proofs.SamplingFacts Proofs.UniformMeanFacts.
Open Scope Z_scope.

(* score_class and equal_class are kept (every built-in method) *)
Theorem C11_flags_kept : forall c s h b rest calls,
  not_callable c -> bootstrap_sample c s h = Ok (b, rest, calls) ->
  score_class b = score_class s /\ equal_class b = equal_class s.
Proof. exact bs_flags. Qed.
Print Assumptions C11_flags_kept.

(* smoothing off: the sample contains only scores of the source's same class *)
Theorem C11_membership : forall c s h b rest calls,
  not_callable c -> smoothing c = false ->
  bootstrap_sample c s h = Ok (b, rest, calls) -> Forall draw_ok calls ->
  incl (pos b) (pos s) /\ incl (neg b) (neg s).
Proof. exact bs_membership. Qed.
Print Assumptions C11_membership.

(* the sample is internally ordered (replacement / proportion: the constructor sorts; single pass:
   np.repeat of arange by non-negative multiplicities indexes a sorted array in order, which is what
   justifies is_sorted=True; the at-least-one correction only sets one multiplicity to 1, so this is
   unaffected), hence (C01) its confusion matrices are direct counting *)
Theorem C11_sample_wf : forall c s h b rest calls,
  not_callable c -> wf s ->
  bootstrap_sample c s h = Ok (b, rest, calls) -> Forall draw_ok calls -> wf b.
Proof. exact bs_wf. Qed.
Print Assumptions C11_sample_wf.

Theorem C11_sample_metrics_direct_counting : forall (b : scores) (t : ext),
  cm b t = mkCmz
    (count (fun x => dec (score_class b) (equal_class b) x t) (pos b) + easy_pos b)
    (count (fun x => negb (dec (score_class b) (equal_class b) x t)) (pos b))
    (count (fun x => dec (score_class b) (equal_class b) x t) (neg b))
    (count (fun x => negb (dec (score_class b) (equal_class b) x t)) (neg b) + easy_neg b).
Proof. exact cm_counts. Qed.
Print Assumptions C11_sample_metrics_direct_counting.

(* replacement sampling (explicit, or 'dynamic' below the switch / with smoothing; smoothing on or
   off; classes may be empty) preserves the total sample count, at-least-one corrections included *)
Theorem C11_replacement_total : forall c s h b rest calls,
  resolve_method s c = MReplacement ->
  bootstrap_sample c s h = Ok (b, rest, calls) -> Forall draw_ok calls ->
  len (pos b) + len (neg b) + (easy_pos b + easy_neg b) = nb_all_samples s.
Proof. exact bs_replacement_total. Qed.
Print Assumptions C11_replacement_total.

(* stratifying by label preserves each of the four strata exactly *)
Theorem C11_by_label_strata : forall c s h b rest calls,
  resolve_method s c = MReplacement -> stratified_sampling c = SByLabel ->
  bootstrap_sample c s h = Ok (b, rest, calls) -> Forall draw_ok calls ->
  len (pos b) = len (pos s) /\ len (neg b) = len (neg s) /\ easy_pos b = easy_pos s /\ easy_neg b = easy_neg s.
Proof. exact bs_replacement_by_label. Qed.
Print Assumptions C11_by_label_strata.

(* single pass + by_label: the easy strata are exact (the hard strata are exact only in expectation:
   C11_mean_parameters_index) *)
Theorem C11_single_pass_by_label_easy_strata : forall c s h b rest calls,
  resolve_method s c = MSinglePass -> stratified_sampling c = SByLabel ->
  bootstrap_sample c s h = Ok (b, rest, calls) ->
  easy_pos b = easy_pos s /\ easy_neg b = easy_neg s.
Proof. exact bs_single_pass_by_label_easy. Qed.
Print Assumptions C11_single_pass_by_label_easy_strata.

(* at least one scored positive / negative whenever the source has one: replacement, ... *)
Theorem C11_replacement_nonempty : forall c s h b rest calls,
  resolve_method s c = MReplacement -> 0 <= easy_pos s -> 0 <= easy_neg s ->
  bootstrap_sample c s h = Ok (b, rest, calls) -> Forall draw_ok calls ->
  (0 < len (pos s) -> 1 <= len (pos b)) /\ (0 < len (neg s) -> 1 <= len (neg b)) /\
  0 <= easy_pos b /\ 0 <= easy_neg b.
Proof. exact bs_replacement_nonempty. Qed.
Print Assumptions C11_replacement_nonempty.

(* ... proportion sampling, which draws WITHOUT replacement the requested fraction:
   sizes max(int(ratio*n), 1), easy counts int(ratio*easy), and the sample is the image of a
   duplicate-free list of in-range source positions (a sub-multiset of the source) *)
Theorem C11_proportion : forall c s h b rest calls rt,
  resolve_method s c = MProportion -> ratio c = Some rt ->
  bootstrap_sample c s h = Ok (b, rest, calls) -> Forall draw_ok calls ->
  len (pos b) = proportion_size rt (len (pos s)) /\ len (neg b) = proportion_size rt (len (neg s)) /\
  easy_pos b = Qtrunc (rt * inject_Z (easy_pos s)) /\ easy_neg b = Qtrunc (rt * inject_Z (easy_neg s)) /\
  1 <= len (pos b) /\ 1 <= len (neg b) /\
  exists pi ni, NoDup pi /\ NoDup ni /\ Forall (in_range (len (pos s))) pi /\ Forall (in_range (len (neg s))) ni /\
    Permutation (pos b) (take_idx 0%Q (pos s) pi) /\ Permutation (neg b) (take_idx 0%Q (neg s) ni).
Proof. exact bs_proportion. Qed.
Print Assumptions C11_proportion.

(* ... and single-pass sampling (explicit, or 'dynamic' above the switch; None or by_label): since
   repo commit c42c88e an all-zero multiplicity vector gets one entry set to 1 (an extra scalar
   np.random.choice(n) draw), so for EVERY history within the contract both classes keep a scored
   sample.  (Before that commit this clause was refuted: C11_single_pass_nonempty_refuted, finding
   C11/single-pass-empty-class, now fixed.)  A successful single-pass run implies non-empty source
   classes (otherwise the code raises ZeroDivisionError). *)
Theorem C11_single_pass_nonempty : forall c s h b rest calls,
  resolve_method s c = MSinglePass ->
  bootstrap_sample c s h = Ok (b, rest, calls) -> Forall draw_ok calls ->
  1 <= len (pos b) /\ 1 <= len (neg b) /\ 0 < len (pos s) /\ 0 < len (neg s).
Proof. exact bs_single_pass_nonempty. Qed.
Print Assumptions C11_single_pass_nonempty.

(* the former counterexample (pos=[-11,-11], neg=[962], single_pass, np.random.seed(6)), with the
   history the repaired code now produces: the positive class keeps one score *)
Example C11_former_witness :
  let s := mk_scores [(-11)#1; (-11)#1]%Q [962#1]%Q 0 0 Pos Pos false in
  let c := mkConfig MSinglePass SNone false None in
  let h := [DBinom 3 (Qmake 6004799503160661 9007199254740992) 1; DBinom 1 (0#1) 0; DBinom 2 (0#1) 0;
            DBinomVec 2 1 (1#2) [0; 0]; DBinomVec 1 2 (1#1) [2]; DChoice1 2 1] in
  exists calls, bootstrap_sample c s h = Ok (mkScores [(-11)#1]%Q [962#1; 962#1]%Q 0 0 Pos Pos, [], calls)
                /\ Forall draw_ok calls.
Proof.
  eexists. split; [vm_compute; reflexivity|].
  repeat constructor; try (vm_compute; congruence); try (intro Hq; vm_compute in Hq; discriminate).
Qed.

(* Unbiasedness, part 1: every source score is reachable.  For replacement / single pass / dynamic
   some history within the contract returns the whole source (every index once) ... *)
Theorem C11_reachable : forall c s,
  (sampling_method c = MReplacement \/ sampling_method c = MSinglePass \/ sampling_method c = MDynamic) ->
  smoothing c = false -> 0 <= easy_pos s -> 0 <= easy_neg s -> wf s ->
  (resolve_method s c = MSinglePass -> 0 < len (pos s) /\ 0 < len (neg s)) ->
  exists h b calls,
    bootstrap_sample c s h = Ok (b, [], calls) /\ Forall draw_ok calls /\
    pos b = pos s /\ neg b = neg s /\ easy_pos b = easy_pos s /\ easy_neg b = easy_neg s.
Proof. exact reachable_identity. Qed.
Print Assumptions C11_reachable.

(* ... and for proportion sampling any given positive and negative position can be drawn *)
Theorem C11_reachable_proportion : forall c s rt i j,
  sampling_method c = MProportion -> ratio c = Some rt -> (0 <= rt)%Q -> (rt <= 1)%Q ->
  0 <= i < len (pos s) -> 0 <= j < len (neg s) ->
  exists h b calls,
    bootstrap_sample c s h = Ok (b, [], calls) /\ Forall draw_ok calls /\
    In (nth (Z.to_nat i) (pos s) 0%Q) (pos b) /\ In (nth (Z.to_nat j) (neg s) 0%Q) (neg b).
Proof. exact reachable_proportion. Qed.
Print Assumptions C11_reachable_proportion.

(* Unbiasedness, part 2 (PARTIAL: proved at the level of the parameters handed to NumPy, with
   draw_mean = the documented mean of each distribution; the expectation over NumPy's actual
   generator is NOT proved).
   Non-stratified class / stratum sizes: binomial(N, N_pos/N) has mean N_pos;
   binomial(nb_pos, easy_pos_ratio) has mean nb_pos * easy_pos/N_pos (same for neg). *)
Theorem C11_mean_parameters_counts_partial : forall s h c h' calls,
  sample_counts s false h = Ok (c, h', calls) -> 0 <= easy_pos s -> 0 <= easy_neg s ->
  exists k ep en d1 d2 d3,
    calls = [d1; d2; d3] /\
    d1 = DBinom (nb_all_samples s) (pos_neg_ratio s) k /\
    d2 = DBinom (fst (fix_pos_neg s k)) (easy_pos_ratio s) ep /\
    d3 = DBinom (snd (fix_pos_neg s k)) (easy_neg_ratio s) en /\
    (0 < nb_all_samples s -> (draw_mean d1 == inject_Z (nb_all_pos s))%Q) /\
    (0 < nb_all_pos s ->
       (draw_mean d2 == inject_Z (fst (fix_pos_neg s k)) * (inject_Z (easy_pos s) / inject_Z (nb_all_pos s)))%Q) /\
    (0 < nb_all_neg s ->
       (draw_mean d3 == inject_Z (snd (fix_pos_neg s k)) * (inject_Z (easy_neg s) / inject_Z (nb_all_neg s)))%Q).
Proof. exact mean_parameters_counts. Qed.
Print Assumptions C11_mean_parameters_counts_partial.

(* Index draws (both methods): the two index calls dp, dn have mean multiplicity per source index
   = drawn_count / source_count for the class, and = 1 under by_label.  Single pass may follow them
   by at most two correction draws (scalar choice, only when a class drew no sample: the case the
   property's "wherever the at-least-one correction is not triggered" excludes). *)
Theorem C11_mean_parameters_index_partial : forall s bl sp h r h' calls,
  sample_indices s bl sp h = Ok (r, h', calls) -> 0 < len (pos s) -> 0 < len (neg s) ->
  exists cn h1 calls1 dp dn,
    sample_counts s bl h = Ok (cn, h1, calls1) /\
    (exists extra, calls = calls1 ++ [dp; dn] ++ extra /\ Forall is_fixup extra /\ (sp = false -> extra = [])) /\
    (draw_mean dp == inject_Z (c_hard_pos cn) / inject_Z (len (pos s)))%Q /\
    (draw_mean dn == inject_Z (c_hard_neg cn) / inject_Z (len (neg s)))%Q /\
    (bl = true -> (draw_mean dp == 1)%Q /\ (draw_mean dn == 1)%Q).
Proof. exact mean_parameters_index. Qed.
Print Assumptions C11_mean_parameters_index_partial.

(* Unbiasedness, part 3: the expectation itself, for index draws with replacement under the uniform law.
   [vectors n k] = all index vectors of length k over [0,n) = exactly the results the model accepts for
   np.random.choice(n, size=k) (C11_choice_histories); over all of them a fixed source index is drawn k * n^(k-1) times
   in total, i.e. size / n times per draw on average — the "documented mean" [draw_mean] of the partial theorems above is
   this average.  That NumPy's generator makes the vectors equally likely is its documented contract, not proved. *)
Theorem C11_choice_histories : forall n k v,
  In v (vectors n k) <-> draw_ok (DChoice (Z.of_nat n) (Z.of_nat k) v).
Proof. intros n k v. split; [apply vectors_ok | apply vectors_complete]. Qed.
Print Assumptions C11_choice_histories.

Theorem C11_choice_total_multiplicity : forall n k i, 0 <= i < Z.of_nat n ->
  Z.of_nat n * Zsum (map (mult i) (vectors n k)) = Z.of_nat k * Z.of_nat (length (vectors n k)).
Proof. intros n k i H. rewrite length_vectors. apply total_multiplicity. exact H. Qed.
Print Assumptions C11_choice_total_multiplicity.

(* stratified by label, sampling with replacement: the sample's index lists are the two recorded vectors, so summed over
   all equally likely draws every scored positive (resp. negative) of the source appears exactly once per sample on
   average: total multiplicity = number of draws.  (No at-least-one correction exists on this path.) *)
Theorem C11_unbiased_by_label_replacement : forall s,
  (forall i vn, 0 <= i < len (pos s) -> 0 < len (neg s) ->
     Zsum (map (fun vp => match sample_indices s true false [DChoice (len (pos s)) (len (pos s)) vp; DChoice (len (neg s)) (len (neg s)) vn] with
                          | Ok (r, _, _) => mult i (pos_idx r) | Err _ => 0 end) (vectors (length (pos s)) (length (pos s))))
     = Z.of_nat (length (vectors (length (pos s)) (length (pos s))))) /\
  (forall j vp, 0 <= j < len (neg s) -> 0 < len (pos s) ->
     Zsum (map (fun vn => match sample_indices s true false [DChoice (len (pos s)) (len (pos s)) vp; DChoice (len (neg s)) (len (neg s)) vn] with
                          | Ok (r, _, _) => mult j (neg_idx r) | Err _ => 0 end) (vectors (length (neg s)) (length (neg s))))
     = Z.of_nat (length (vectors (length (neg s)) (length (neg s))))).
Proof.
  intro s. split.
  - intros i vn Hi Hn. exact (by_label_replacement_unbiased s i Hi Hn vn).
  - intros j vp Hj Hp. exact (by_label_replacement_unbiased_neg s j Hj Hp vp).
Qed.
Print Assumptions C11_unbiased_by_label_replacement.

(* the 27 index vectors of three draws from three: index 1 is drawn 27 times in total *)
Example C11_uniform_example : length (vectors 3 3) = 27%nat /\ Zsum (map (mult 1) (vectors 3 3)) = 27.
Proof. split; vm_compute; reflexivity. Qed.

(* non-vacuity: a concrete non-stratified replacement run that goes through the "at least one
   negative" and "at least one hard positive" corrections, within the contract *)
Example C11_example :
  let s := mk_scores [3#1; 1#1]%Q [2#1]%Q 2 0 Pos Neg false in
  let c := mkConfig MReplacement SNone false None in
  let h := [DBinom 5 (4#5) 5; DBinom 4 (1#2) 4; DBinom 1 (0#1) 0; DChoice 2 1 [1]; DChoice 1 1 [0]] in
  exists calls, bootstrap_sample c s h = Ok (mkScores [3#1]%Q [2#1]%Q 3 0 Pos Neg, [], calls) /\ Forall draw_ok calls.
Proof.
  eexists. split; [vm_compute; reflexivity|].
  repeat constructor; try (vm_compute; congruence); try (intro Hq; vm_compute in Hq; discriminate).
Qed.
