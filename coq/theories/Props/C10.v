(* Props/C10.v — property C10: queries are vectorised elementwise, shape-preserving and side-effect
   free.  Statements only.  Three parts: (a) shapes / elementwise (the vectorised model is the
   shape-preserving map of the scalar model; that NumPy's broadcast IS that map is the
   correspondence); (b) no mutation over any history of calls (effect summaries regenerated from the
   current source, checked by coq/ties/Tie_effects.v, lifted by the theorem below); (c) aliases. *)
From SA Require Import Model.Vectorised Base.Effects.
From Coq Require Import List. Import ListNotations.
Open Scope Q_scope.

(* (a) confusion matrices of a threshold array of shape X have shape X ++ [2;2]; the block at flat
   index i is the scalar confusion matrix at the i-th threshold *)
Theorem C10_cm_shape : forall (s : scores) (T : arr ext),
  shape (cm_arr s T) = (shape T ++ [2; 2])%nat /\ (awf T -> awf (cm_arr s T)).
Proof. intros s T. split; [reflexivity|]. apply aexpand_wf. reflexivity. Qed.
Print Assumptions C10_cm_shape.

Theorem C10_cm_elementwise : forall (s : scores) (T : arr ext) (i j : nat) (d : ext),
  (i < length (data T))%nat -> (j < 4)%nat ->
  nth (i * 4 + j) (data (cm_arr s T)) 0%Z = nth j (cm_cells (cm s (nth i (data T) d))) 0%Z.
Proof.
  intros s T i j d Hi Hj. change (i * 4 + j)%nat with (i * size [2; 2]%nat + j)%nat.
  unfold cm_arr. apply (aexpand_nth [2; 2]%nat (fun t => cm_cells (cm s t)) T i j d 0%Z); [reflexivity|exact Hi|exact Hj].
Qed.
Print Assumptions C10_cm_elementwise.

(* rates and returned thresholds have the shape of their argument and are the scalar results *)
Theorem C10_rates_elementwise : forall (mt : metric6) (s : scores) (T : arr ext) (i : nat) (d : ext),
  shape (rate_arr mt s T) = shape T /\
  ((i < length (data T))%nat -> nth i (data (rate_arr mt s T)) None = metric_at mt s (nth i (data T) d)).
Proof. intros. split; [reflexivity|]. intro H. apply (amap_nth (metric_at mt s) T i d None H). Qed.
Print Assumptions C10_rates_elementwise.

Theorem C10_thresholds_elementwise : forall succ pred (mt : metric6) (s : scores) (m : method) (R : arr Q) (i : nat),
  shape (thr_arr succ pred mt s m R) = shape R /\
  ((i < length (data R))%nat -> nth i (data (thr_arr succ pred mt s m R)) Raise = threshold_at succ pred mt s (nth i (data R) 0) m).
Proof. intros. split; [reflexivity|]. intro H. apply (amap_nth (fun r => threshold_at succ pred mt s r m) R i 0 Raise H). Qed.
Print Assumptions C10_thresholds_elementwise.

(* pointwise_cm has shape scores.shape ++ threshold.shape ++ [2;2], with the membership block of
   sample i at threshold j at flat index (i * |T| + j) * 4 *)
Theorem C10_pointwise_shape : forall sc ec (labels : list bool) (xs : arr Q) (T : arr ext),
  shape (pointwise_cm_arr sc ec labels xs T) = (shape xs ++ shape T ++ [2; 2])%nat.
Proof. reflexivity. Qed.
Print Assumptions C10_pointwise_shape.

Theorem C10_pointwise_elementwise : forall sc ec (labels : list bool) (xs : arr Q) (T : arr ext) (i j k : nat) (d : ext),
  length labels = length (data xs) -> (i < length (data xs))%nat -> (j < length (data T))%nat -> (k < 4)%nat ->
  nth ((i * length (data T) + j) * 4 + k) (data (pointwise_cm_arr sc ec labels xs T)) 0%Z
  = nth k (cm_cells (pointwise_cm1 sc ec (nth i labels false) (nth i (data xs) 0) (nth j (data T) d))) 0%Z.
Proof.
  intros sc ec labels xs T i j k d Hl Hi Hj Hk. unfold pointwise_cm_arr.
  change ((i * length (data T) + j) * 4 + k)%nat with ((i * length (data T) + j) * size [2; 2]%nat + k)%nat.
  rewrite (aouter_nth [2; 2]%nat _ _ T i j k (false, 0) d 0%Z); [|reflexivity| |exact Hj|exact Hk].
  - cbn [data]. rewrite combine_nth by exact Hl. reflexivity.
  - cbn [data]. rewrite combine_length, Hl, Nat.min_id. exact Hi.
Qed.
Print Assumptions C10_pointwise_elementwise.

(* (b) no mutation, for any history of calls: if every call in the history has a safe effect summary
   (Tie_effects.v checks this for every function of the current source), no caller-visible object —
   parameter or non-cache field of self — changes its version *)
Theorem C10_no_mutation_any_history : forall allowed (calls : list (list stmt)) (h : heap) (r : root),
  forallb (safe allowed) calls = true -> visible allowed r ->
  fold_left (fun h p => exec p h) calls h r = h r.
Proof. exact safe_history_preserves. Qed.
Print Assumptions C10_no_mutation_any_history.

(* (c) aliases return identical values: the alias functions are the same model functions *)
Theorem C10_aliases : tar = tpr /\ frr = fnr /\ trr = tnr /\ far = fpr /\ acceptance_rate = topr /\ rejection_rate = tonr.
Proof. repeat split. Qed.
Print Assumptions C10_aliases.

Example C10_example :
  data (cm_arr (mk_scores [1#1; 3#1] [2#1] 0 0 Pos Pos false) (mkArr [2%nat; 1%nat] [Fin (2#1); PosInf]))
  = [1; 1; 1; 0; 0; 2; 0; 1]%Z.
Proof. reflexivity. Qed.
